#!/usr/bin/env python3
"""Rewrite the 'Fourth round' table of seeded/RESULTS.md from seeded/*/meta.json (round == 4), the verdict lines of
.cache/round_<ID>.log (tools/round_seed.sh / tools/run_seeded.sh) and seeded/round4_notes.json (what was strengthened
after a miss).  Verdicts recorded in seeded/<ID>/meta.json under 'verdicts' survive the removal of .cache."""
import json, os, re, glob
V = os.path.dirname(os.path.dirname(os.path.abspath(__file__)))
notes = {}
p = os.path.join(V, "seeded/round4_notes.json")
if os.path.exists(p):
    notes = json.load(open(p))
rows = []
for mp in sorted(glob.glob(os.path.join(V, "seeded/C*-*/meta.json")), key=lambda s: (s.split("/")[-2].split("-")[0], int(s.split("/")[-2].split("-")[1]))):
    m = json.load(open(mp))
    if m.get("round") != 4:
        continue
    sid = mp.split("/")[-2]
    lg = os.path.join(V, ".cache/round_%s.log" % sid)
    verd = m.get("verdicts", [])
    if os.path.exists(lg):
        for l in open(lg):
            r = re.match(r"RESULT (\S+) (\S+) rc=(\d+) (\d+) violation-lines", l)
            if r:
                v = {"rc": int(r.group(3)), "violation_lines": int(r.group(4))}
                if not verd or verd[-1] != v:
                    verd.append(v)
    m["verdicts"] = verd
    json.dump(m, open(mp, "w"), indent=1)
    if not verd:
        verdict = "not run in this round (confirmed only)"
    else:
        first, last = verd[0], verd[-1]
        if first["violation_lines"] > 0:
            verdict = "CAUGHT (%d violation lines)" % first["violation_lines"]
        elif last["violation_lines"] > 0:
            verdict = "MISSED at first; CAUGHT after %s (re-run: %d violation lines)" % (notes.get(sid, "the check was strengthened"), last["violation_lines"])
        else:
            verdict = "MISSED%s" % ((" - " + notes[sid]) if sid in notes else "")
    def cut(s, n):
        s = " ".join(str(s).replace("|", "/").split())
        return s if len(s) <= n else s[: n - 3] + "..."
    rows.append("| %s | %s | %s | %s | %s |" % (sid, m["property"], cut(m["what"], 260), cut(m["needs"], 220), verdict))
rp = os.path.join(V, "seeded/RESULTS.md")
d = open(rp).read()
d = d.split("\n## Fourth round")[0].rstrip() + "\n"
d += "\n## Fourth round (C01, C03, C06, C08, C10, C13, C14, C20; authors told to avoid all earlier changes)\n\n"
d += "| id | property | what | needs | quick check verdict |\n|----|----------|------|-------|---------------------|\n"
d += "\n".join(rows) + "\n"
open(rp, "w").write(d)
print("\n".join(r[:150] for r in rows))
