#!/bin/bash
# usage: tools/mutsetup.sh Cxx "<test command description>" [engine]
# Creates /tmp/mut-cxx (scratch worktree of /repo HEAD), optionally an offline demo workspace for the
# smart-contract engine crates at /tmp/mut-cxx-ws (shim crates only - nothing about the checks), and the prompt file.
P=$1; T=$2; E=${3:-}
p=$(echo $P | tr 'A-Z' 'a-z')
W=/tmp/mut-$p
git -C /repo worktree remove --force $W >/dev/null 2>&1
git -C /repo worktree add --detach $W HEAD >/dev/null 2>&1 || exit 1
EXTRA=""
if [ -n "$E" ]; then
  WS=/tmp/mut-$p-ws
  rm -rf $WS; mkdir -p $WS/demo/src
  cp -r /verif/harness/shims $WS/shims
  cp /verif/harness/Cargo.lock $WS/Cargo.lock
  cat > $WS/Cargo.toml <<EOT
[workspace]
resolver = "2"
members = ["demo"]
[profile.release]
opt-level = 2
overflow-checks = true
[patch.crates-io]
num_enum = { path = "shims/num_enum" }
slab = { path = "shims/slab" }
secp256k1 = { path = "shims/secp256k1" }
ed25519-zebra = { path = "shims/ed25519-zebra" }
futures = { path = "shims/futures" }
ptree = { path = "shims/ptree" }
EOT
  cat > $WS/demo/Cargo.toml <<EOT
[package]
name = "demo"
version = "0.1.0"
edition = "2021"
[dependencies]
concordium-wasm = { path = "$W/smart-contracts/wasm-transform" }
concordium-smart-contract-engine = { path = "$W/smart-contracts/wasm-chain-integration" }
concordium-contracts-common = { path = "$W/smart-contracts/contracts-common/concordium-contracts-common" }
anyhow = "1"
EOT
  echo 'fn main() { println!("demo"); }' > $WS/demo/src/main.rs
  EXTRA="IMPORTANT build note: the smart-contract crates (smart-contracts/wasm-transform = crate concordium-wasm, smart-contracts/wasm-chain-integration = crate concordium-smart-contract-engine) do NOT build on their own offline (crates missing from the registry). An offline workspace that builds them through small shim crates is prepared for you at $WS: write your demonstration as the binary crate $WS/demo (src/main.rs; it already depends on the three crates by path into your worktree; exit code 0 = pass, non-zero/panic = fail) and run it with 'cd $WS && CARGO_TARGET_DIR=$W-target cargo run --offline --release -p demo'. Code marked #[cfg(concordium_base_verif)] in the sources is test instrumentation that is compiled out in normal builds - ignore it and do not rely on it. The crates' own unit tests cannot be run offline; instead make sure the crate still compiles in that workspace and that the repository's runnable baseline still passes: $T. You may also read the crates' own tests/benches for how to call the API."
  T="$T"
fi
python3 /verif/tools/mutprompt.py $P "$T" > /verif/.cache/mutprompt_$P.txt
if [ -n "$EXTRA" ]; then echo "" >> /verif/.cache/mutprompt_$P.txt; echo "$EXTRA" >> /verif/.cache/mutprompt_$P.txt; fi
echo "prepared $W"
