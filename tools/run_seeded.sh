#!/bin/bash
# usage: tools/run_seeded.sh <seeded/ID dir> [tier]
# Applies seeded/<ID>/patch.diff to a fresh scratch worktree of /repo (HEAD), runs the check of the property
# named in meta.json against it through tools/altcheck.sh, prints the verdict, removes the worktree.
set -u
D=$(readlink -f "$1"); T=${2:-quick}
ID=$(basename "$D")
P=$(python3 -c "import json,sys;print(json.load(open('$D/meta.json'))['property'])")
W=/tmp/seeded-$ID
git -C /repo worktree remove --force "$W" >/dev/null 2>&1
git -C /repo worktree add --detach "$W" HEAD >/dev/null 2>&1 || { echo "worktree failed"; exit 2; }
if ! git -C "$W" apply "$D/patch.diff"; then echo "RESULT $ID $P patch-does-not-apply"; git -C /repo worktree remove --force "$W"; exit 2; fi
OUT=$(/verif/tools/altcheck.sh "$W" "$P" "$T" 2>&1); RC=$?
echo "$OUT" | grep -E "VIOLATION|KNOWN-FINDING|done:|Traceback|Error|error" | head -12
echo "RESULT $ID $P rc=$RC $(echo "$OUT" | grep -c '^VIOLATION') violation-lines"
N=$(echo "$W" | tr '/' '_')
rm -rf "/verif/.cache/alt/$N"
git -C /repo worktree remove --force "$W"
