#!/bin/bash
# usage: tools/altcheck.sh <repo_dir> <Cxx> [quick|thorough]
# Runs a check against another checkout of the repository (e.g. a scratch worktree carrying a seeded
# change) without touching /repo or /verif: /verif is copied to /verif/.cache/alt/<name>/verif with the
# harness path dependencies rewritten, and has its own cargo target and Coq build output.
set -e
R=$(readlink -f "$1"); P=$2; T=${3:-quick}
NAME=$(echo "$R" | tr '/' '_')
A=/verif/.cache/alt/$NAME
mkdir -p "$A"
rsync -a --delete --exclude .cache --exclude .git --exclude replays /verif/ "$A/verif/"
find "$A/verif/harness" -name Cargo.toml -o -name config.toml | xargs sed -i "s|/repo/|$R/|g; s|/verif/.cache/target|$A/verif/.cache/target|g"
grep -rl '"/repo' "$A/verif/checks" "$A/verif/translators" 2>/dev/null | xargs -r sed -i "s|\"/repo|\"$R|g"
# seed the private cargo target with the already-built third-party dependencies (saves minutes)
if [ ! -d "$A/verif/.cache/target" ] && [ -d /verif/.cache/target ]; then
  mkdir -p "$A/verif/.cache"; cp -a /verif/.cache/target "$A/verif/.cache/target" 2>/dev/null || true
fi
cd "$A/verif"
VERIF_REPO=$R ./check "$P" --tier "$T"
