#!/bin/bash
# Compile /repo with the verif guard OFF: rust-src workspace (cargo check --tests) and, through the harness
# workspace's shims, the two smart-contract crates.  Hooks are add-only cfg code, so this must succeed.
export CARGO_NET_OFFLINE=true
( cd /repo/rust-src && CARGO_TARGET_DIR=/verif/.cache/hooksoff-base cargo check --offline --workspace --tests 2>&1 | tail -3 ) || exit 1
( cd /verif/harness && RUSTFLAGS="" CARGO_TARGET_DIR=/verif/.cache/hooksoff-eng cargo check --offline -p concordium-wasm -p concordium-smart-contract-engine -p concordium-contracts-common 2>&1 | tail -3 )
