#!/bin/bash
# usage: tools/round_seed.sh Cxx <i> <newid> "<test command>" [confirm|check|both]
# Confirms the bug author's change /tmp/mut-cxx-out/<i> in the scratch worktree /tmp/mut-cxx
# (demo fails with the change, existing tests pass with it, demo passes without it), imports it as
# /verif/seeded/<newid>/ and runs the property's quick check against it (tools/run_seeded.sh).
# Log: /verif/.cache/round_<newid>.log ; verdict lines start with CONFIRM / RESULT.
P=$1; I=$2; ID=$3; TESTS=$4; MODE=${5:-both}
p=$(echo $P | tr 'A-Z' 'a-z'); W=/tmp/mut-$p; O=/tmp/mut-$p-out/$I
LOG=/verif/.cache/round_$ID.log
exec >> $LOG 2>&1
echo "== $(date) $ID mode=$MODE"
if [ "$MODE" != check ]; then
  DEMO=$(python3 -c "import json;print(json.load(open('$O/meta.json'))['demo_run'])")
  git -C $W checkout -q -- . ; git -C $W clean -fdq
  git -C $W apply $O/patch.diff || { echo "CONFIRM $ID patch-does-not-apply"; exit 2; }
  git -C $W diff --stat | tail -1
  mkdir -p $W/rust-src/concordium_base/tests
  ( eval "$DEMO" ) > $LOG.demo_with 2>&1; RW=$?
  git -C $W clean -fdq
  if [ "$TESTS" = independent ]; then
    # the runnable baseline (rust-src workspace) does not depend on the smart-contract crates the patch touches:
    # its result cannot change; the crate itself was just compiled with the change by the demo build.
    if git -C $W diff --name-only | grep -qv '^smart-contracts/'; then echo "CONFIRM $ID touches rust-src: tests needed"; RT=9; else echo "tests independent of smart-contracts/ (not re-run)" > $LOG.tests; RT=0; fi
  else
  ( eval "$TESTS" ) > $LOG.tests 2>&1; RT=$?
  fi
  git -C $W checkout -q -- . ; git -C $W clean -fdq; mkdir -p $W/rust-src/concordium_base/tests
  ( eval "$DEMO" ) > $LOG.demo_without 2>&1; RO=$?
  git -C $W checkout -q -- . ; git -C $W clean -fdq
  echo "CONFIRM $ID demo_with_rc=$RW tests_with_rc=$RT demo_without_rc=$RO"
  grep -E "^test result|passed|FAILED|panicked" $LOG.tests | tail -3
  if [ $RW -eq 0 ] || [ $RT -ne 0 ] || [ $RO -ne 0 ]; then echo "CONFIRM $ID NOT-CONFIRMED"; exit 3; fi
  mkdir -p /verif/seeded/$ID
  cp $O/patch.diff /verif/seeded/$ID/patch.diff
  for f in demo.rs demo.diff demo.sh; do [ -f $O/$f ] && cp $O/$f /verif/seeded/$ID/; done
  python3 - <<PY
import json
m=json.load(open('$O/meta.json'))
m['round']=4
m['confirmed_by_coordinator']={'demo_with_change_rc':$RW,'existing_tests_with_change_rc':$RT,'demo_without_change_rc':$RO,'tests_cmd':"""$TESTS"""}
json.dump(m,open('/verif/seeded/$ID/meta.json','w'),indent=1)
PY
  echo "CONFIRM $ID OK"
fi
if [ "$MODE" != confirm ]; then
  /verif/tools/run_seeded.sh /verif/seeded/$ID quick
fi
