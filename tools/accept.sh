#!/bin/bash
# usage: tools/accept.sh Cxx  -- run the quick check on the unchanged tree; if it exits 0 with valid evidence, register it.
cd /verif
P=$1
./check $P --tier quick > .cache/acc_$P.log 2>&1; RC=$?
echo "rc=$RC" >> .cache/acc_$P.log
if [ $RC -eq 0 ] && ! grep -q '^VIOLATION' .cache/acc_$P.log && python3-vt -c "
import json,jsonschema
jsonschema.validate(json.load(open('evidence/$P.json')),json.load(open('/root/.vp/EVIDENCE.schema.json')))
e=json.load(open('evidence/$P.json'))
assert e['coverage']['obligations']==e['coverage']['discharged']>0
" >> .cache/acc_$P.log 2>&1; then
  flock .cache/accept.lock python3 - <<PY
import json
p='/verif/checks/manifest/accepted.json'
a=json.load(open(p))
if '$P' not in a: a.append('$P'); a.sort()
json.dump(a,open(p,'w'))
PY
  echo "ACCEPTED $P" >> .cache/acc_$P.log
else
  echo "NOT-ACCEPTED $P" >> .cache/acc_$P.log
fi
tail -3 .cache/acc_$P.log
