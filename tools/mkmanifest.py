#!/usr/bin/env python3
"""Assemble MANIFEST.json from checks/manifest/*.json fragments (a property is claimed iff it has a
fragment and checks/Cxx.py exists)."""
import json, os, glob
V = os.path.dirname(os.path.dirname(os.path.abspath(__file__)))
props = [json.loads(l) for l in open(os.path.join(V, "properties.jsonl"))]
frags = {}
for f in glob.glob(os.path.join(V, "checks/manifest/C*.json")):
    d = json.load(open(f)); frags[d["property_id"]] = d
na_reasons = {}
p = os.path.join(V, "checks/manifest/not_applicable.json")
if os.path.exists(p):
    na_reasons = json.load(open(p))
hooks_commits = []
p = os.path.join(V, "checks/manifest/hooks.json")
if os.path.exists(p):
    hooks_commits = json.load(open(p))
m = {"version": 1, "setup_cmd": "./setup.sh",
     "hooks": {"guard": "concordium_base_verif",
               "enable": "RUSTFLAGS=\"--cfg concordium_base_verif\" (set by checks/common.py for every cargo build of the harness workspace)",
               "baseline_off_cmd": "cd /repo/rust-src && (cargo nextest run --workspace --no-fail-fast --tool-config-file pb:/w/lib/nextest.toml --profile pb --test-threads 8 --offline || cargo test --workspace --no-fail-fast --offline)",
               "source_commits": hooks_commits, "add_only": True},
     "engines": [], "checks": [], "not_applicable": [],
     "notes": "Per-property driver: ./check Cxx --tier quick|thorough.  Technique: machine-checked proof in Coq 8.16.1 over executable Gallina models, tied to /repo by translators and differential correspondence.  See DESIGN.md."}
accepted = json.load(open(os.path.join(V, "checks/manifest/accepted.json")))
eng = {}
for pr in props:
    i = pr["id"]
    if i in frags and i in accepted and os.path.exists(os.path.join(V, "checks", i + ".py")):
        c = frags[i]
        eng.setdefault(c["engine"], []).append(i)
        m["checks"].append({"property_id": i, "quick_cmd": "./check %s --tier quick" % i,
            "thorough_cmd": "./check %s --tier thorough" % i, "evidence_file": "/verif/evidence/%s.json" % i,
            "replay_cmd_template": "./check %s --replay {path}" % i, "engine": c["engine"],
            "level_claimed": {"category": "proof", "text": c["text"], "design_ref": c.get("design_ref", "7." + i)},
            "level_note": c["note"], "technique": c["technique"]})
    else:
        m["not_applicable"].append({"property_id": i, "reason": na_reasons.get(i,
            "check under construction in this round; not claimed until its theorems and correspondence run are registered")})
kinds = {"crypto": "coq/Crypto", "wasm": "coq/Wasm", "trie": "coq/Trie", "codec": "coq/Common + coq/Chain", "chain": "coq/Chain",
         "contract": "coq/Contract", "cbor": "coq/Cbor"}
for e, ps in sorted(eng.items()):
    m["engines"].append({"name": e, "path": kinds.get(e, "coq/"), "serves_properties": ps,
                         "kind_free_text": "Gallina model family '%s' + Rust harness crates %s" % (e, ", ".join("harness/c" + x[1:] for x in ps))})
json.dump(m, open(os.path.join(V, "MANIFEST.json"), "w"), indent=1)
print("claimed:", [c["property_id"] for c in m["checks"]])
