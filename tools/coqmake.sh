#!/bin/bash
# usage: tools/coqmake.sh [make targets...]   e.g. tools/coqmake.sh Trie/Radix.vo
# Regenerates _CoqProject/Makefile from the files under coq/ and builds the given targets
# (default: all) under a lock, so concurrent builds never write the same .vo twice.
cd "$(dirname "$0")/.." || exit 1
mkdir -p .cache
exec flock .cache/coq.lock python3 - "$@" <<'PY'
import sys, subprocess
sys.path.insert(0, '.')
from checks import common
common.coq_makefile()
t = sys.argv[1:] or ['all']
sys.exit(subprocess.call(['timeout', '3000', 'make', '-j16'] + t, cwd=common.COQ))
PY
