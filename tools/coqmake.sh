#!/bin/bash
# usage: tools/coqmake.sh [make targets...]   e.g. tools/coqmake.sh Trie/Radix.vo
#
# Default mode: regenerates _CoqProject/Makefile from the files under coq/ and builds the given targets
# (default: all) in /verif/coq under a global lock, so concurrent builds never write the same .vo twice.
#
# Private mode (recommended while developing):  COQDEV=<yourname> tools/coqmake.sh Fam/File.vo
#   mirrors coq/**/*.v into /verif/.cache/dev/<yourname>/coq (keeping the .vo files already built there)
#   and builds there WITHOUT the global lock - nobody can block you and you block nobody.
#   Proof state in private mode: cd /verif/.cache/dev/<yourname>/coq && /verif/tools/goal.sh Fam/File.v LINE
#
# Each build is limited to COQMAKE_TIMEOUT seconds (default 600) and 16 GB per coqc process:
# a runaway tactic must not take the machine down.
cd "$(dirname "$0")/.." || exit 1
mkdir -p .cache
ulimit -v 16000000
if [ -n "$COQDEV" ]; then
  D=.cache/dev/$COQDEV/coq
  mkdir -p "$D"
  rsync -a --include='*/' --include='*.v' --exclude='*' --delete-excluded --filter='P *.vo' --filter='P *.glob' --filter='P *.aux' --filter='P .*.aux' --filter='P *.vos' --filter='P *.vok' --filter='P Makefile*' --filter='P .Makefile.d' --filter='P _CoqProject' coq/ "$D/" 2>/dev/null || rsync -a --include='*/' --include='*.v' --exclude='*' coq/ "$D/"
  export COQDIR_OVERRIDE="$(pwd)/$D"
  LOCK="$D/.lock"
else
  LOCK=.cache/coq.lock
fi
exec flock -w 1800 "$LOCK" python3 - "$@" <<'PY'
import sys, subprocess, os
sys.path.insert(0, '.')
from checks import common
if os.environ.get('COQDIR_OVERRIDE'):
    common.COQ = os.environ['COQDIR_OVERRIDE']
common.coq_makefile()
t = sys.argv[1:] or ['all']
sys.exit(subprocess.call(['timeout', '-k', '5', os.environ.get('COQMAKE_TIMEOUT', '600'), 'make', '-j8'] + t, cwd=common.COQ))
PY
