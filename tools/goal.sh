#!/bin/bash
# usage: goal.sh <file.v> <line>  -- shows the proof state just before <line> (run from /verif/coq)
f=$1; n=$2
( head -n $((n-1)) "$f"; echo "Show."; ) > /tmp/_goal_$$.v
timeout 120 coqtop -Q . CB -w -notation-overridden -batch -l /tmp/_goal_$$.v 2>&1 | tail -${3:-40}
rm -f /tmp/_goal_$$.v
