#!/usr/bin/env python3
"""Print the prompt for an independent 'bug author' sub-agent for property Cxx (property text only; nothing from /verif)."""
import json, sys
pid = sys.argv[1]
tests = sys.argv[2] if len(sys.argv) > 2 else ""
p = [json.loads(l) for l in open('/verif/properties.jsonl') if json.loads(l)['id'] == pid][0]
w = "/tmp/mut-%s" % pid.lower()
import os, glob
N = int(os.environ.get("MUT_N", "3"))
NW = {1: "ONE", 2: "TWO", 3: "THREE"}[N]
prev = []
for d in sorted(glob.glob('/verif/seeded/%s-*/meta.json' % pid)):
    try: prev.append(json.load(open(d))['what'][:220])
    except Exception: pass
AVOID = ""
if prev:
    AVOID = " Earlier rounds of this experiment already used the following changes; do NOT reuse them or close variants (different function, different mechanism please): " + " | ".join(prev) + "."

print(f"""You are a software engineer asked to play "bug author" for a verification experiment on the Rust code base Concordium/concordium-base. You have your own scratch git worktree at {w} (a checkout of the repository; Rust workspace in rust-src/, smart-contract crates under smart-contracts/; build offline with `cargo ... --offline`; use `CARGO_TARGET_DIR={w}-target` for all builds). Work ONLY inside {w} (and {w}-target, {w}-out). Do not look at or touch /verif or /repo.

The property that the code is supposed to satisfy:

"{p['title']}: {p['statement']}" Quantified: {p['quantifier']['text']}
Anchored in: {', '.join(p['anchors']['files'])}.
Mechanisms: {'; '.join(m['name'] + ' (' + m['where'] + ')' for m in p['anchors'].get('mechanism', []))}

Task: produce {NW} different, independent changes to the source (each a separate patch against the unmodified worktree) that each BREAK this property while the code still compiles and the existing test suite of the affected crate still passes ({tests}). Note: the tests `aggregate_sig::test::test_verify_aggregate_sig` and `dlog_ed25519::tests::test_ed25519_dlog` are known to fail/time out in the baseline and are irrelevant. Prefer changes that need something specific to manifest - a particular boundary value, an unusual but legal input shape, a multi-step sequence of operations, a particular interleaving, or two cooperating sites that each look fine alone - NOT changes that any ordinary use would expose at once. Realistic slips a developer could make (off-by-one, wrong comparison direction, a dropped check, a wrong field/variable, a swapped order in one rarely used branch) are better than artificial ones. Spread the changes over different mechanisms/files of the property.{AVOID}

For each change i in 1..{N} deliver in {w}-out/<i>/:
  - patch.diff  (output of `git diff` in {w} with only that change applied; then `git checkout -- .` before the next one)
  - demo.rs (or demo.diff): a small test or program that FAILS with the change and PASSES without it, with the exact command to run it
  - meta.json: {{"property":"{pid}","what":"<one sentence>","needs":"<what specific input/condition makes it manifest>","tests_run":"<command and result>","demo_run":"<command>","demo_result":"<with/without>"}}
Confirm for each: (a) compiles, (b) the existing tests pass with the change, (c) your demo fails with the change and passes without it. Leave the worktree clean (git checkout -- . ; remove any added files) at the end, and delete {w}-target when done to save disk. Report a short summary of the changes.""")
