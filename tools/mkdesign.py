#!/usr/bin/env python3
"""Regenerate the generated part of DESIGN.md (everything after the marker line) from the per-property notes:
checks/manifest/*.json, coq/Props/*.v (theorem names), known_findings.json, seeded/RESULTS.md, design/*.md."""
import json, os, re, glob
V = os.path.dirname(os.path.dirname(os.path.abspath(__file__)))
MARK = "<!-- GENERATED BELOW: tools/mkdesign.py -->"
d = open(os.path.join(V, "DESIGN.md")).read()
head = d.split(MARK)[0].rstrip() + "\n\n" + MARK + "\n\n"
out = []
acc = json.load(open(os.path.join(V, "checks/manifest/accepted.json")))
props = [json.loads(l) for l in open(os.path.join(V, "properties.jsonl"))]
out.append("## 12. Per-property record (generated from the committed artefacts)\n")
out.append("For each property: the theorems that `coq/Props/Cxx.v` contains (each closed by `exact`/`eapply`, each followed by "
           "`Print Assumptions`, counted as obligations by the check), the scope text registered in MANIFEST.json, and the "
           "worker's design note `design/Cxx.md` (model, tie, partial parts, findings, self-seeded bugs).\n")
# summary table
kf0 = json.load(open(os.path.join(V, "known_findings.json")))
seed_rows = {}
rp = os.path.join(V, "seeded/RESULTS.md")
if os.path.exists(rp):
    for line in open(rp):
        m = re.match(r"\| (C\d+)-(\d+) \| (C\d+) \|.*\| ([^|]*) \|\s*$", line)
        if m:
            seed_rows.setdefault(m.group(3), []).append(m.group(4))
out.append("| id | theorems in Props | seeded changes caught (now / at first) | known findings | repaired defects |")
out.append("|----|-------------------|------------------------------------------|----------------|------------------|")
for p in props:
    i = p["id"]
    pv = os.path.join(V, "coq/Props/%s.v" % i)
    nth = 0
    if os.path.exists(pv):
        src = re.sub(r"\(\*.*?\*\)", " ", open(pv).read(), flags=re.S)
        nth = len(re.findall(r"^\s*(Theorem|Lemma|Corollary|Example)\s+", src, flags=re.M))
    rows = seed_rows.get(i, [])
    now = sum(1 for r in rows if "CAUGHT" in r)
    first = sum(1 for r in rows if r.strip().startswith("CAUGHT"))
    nk = ", ".join(f["id"] for f in kf0["findings"] if f["property"] == i) or "-"
    nf = sum(1 for f in kf0["fixed"] if ("property=%s " % i) in (f if isinstance(f, str) else json.dumps(f)))
    out.append("| %s | %d | %d/%d now, %d/%d at first | %s | %d |" % (i, nth, now, len(rows), first, len(rows), nk, nf))
out.append("")
for p in props:
    i = p["id"]
    out.append("### %s - %s\n" % (i, p["title"]))
    fr = os.path.join(V, "checks/manifest/%s.json" % i)
    if os.path.exists(fr):
        f = json.load(open(fr))
        out.append("*Status*: %s.  *Engine*: %s.\n" % ("registered in MANIFEST.json" if i in acc else "built, not yet accepted", f.get("engine")))
        out.append("*Claim*: " + f["text"] + "\n")
        out.append("*Trusted base / assumptions*: " + f["note"] + "\n")
    else:
        out.append("*Status*: not built.\n")
    pv = os.path.join(V, "coq/Props/%s.v" % i)
    if os.path.exists(pv):
        src = re.sub(r"\(\*.*?\*\)", " ", open(pv).read(), flags=re.S)
        th = re.findall(r"^\s*(Theorem|Lemma|Corollary|Example)\s+([A-Za-z0-9_']+)", src, flags=re.M)
        out.append("*Theorems in `coq/Props/%s.v`* (%d): " % (i, len(th)) + ", ".join("`%s`" % n for _, n in th) + ".\n")
    dn = os.path.join(V, "design/%s.md" % i)
    if os.path.exists(dn):
        out.append("*Design note*: `design/%s.md` (%d lines).\n" % (i, len(open(dn).read().splitlines())))
kf = json.load(open(os.path.join(V, "known_findings.json")))
out.append("## 13. Findings register (from `known_findings.json`)\n")
out.append("### Recorded, not repaired (the check prints `KNOWN-FINDING` and exits 0)\n")
for f in kf["findings"]:
    out.append("* **%s** (%s): %s  \n  *identified by*: %s  \n  *why not repaired*: %s\n" % (
        f["id"], f["property"], f["what"], f.get("identified_by", ""), f.get("why_not_fixed", "")))
out.append("### Repaired by `fix:` commits in /repo (a fixed entry suppresses nothing)\n")
for f in kf["fixed"]:
    out.append("* " + (f if isinstance(f, str) else json.dumps(f)) + "\n")
r = os.path.join(V, "seeded/RESULTS.md")
if os.path.exists(r):
    out.append("## 14. Independently seeded changes and which checks catch them\n")
    out.append(open(r).read().split("\n", 1)[1])
open(os.path.join(V, "DESIGN.md"), "w").write(head + "\n".join(out) + "\n")
print("DESIGN.md regenerated: %d lines" % len((head + "\n".join(out)).splitlines()))
