#!/bin/bash
# MANIFEST.setup_cmd: build the framework from files on disk only (offline).
set -u
cd "$(dirname "$0")"
export CARGO_NET_OFFLINE=true GOPROXY=off PIP_NO_INDEX=1
mkdir -p .cache evidence replays
# 0. translators: regenerate coq/Gen/*.v from /repo's current sources
python3 translators/run_all.py /repo 2>&1 | tail -6
# 1. Coq development (full .vo build)
python3 - <<'PY'
import sys; sys.path.insert(0, '.')
from checks import common
common.coq_makefile()
PY
( cd coq && timeout 5000 make -k -j16 2>&1 | tail -5 )
# 2. Rust harness workspace against /repo's working tree, hooks on
( cd harness && RUSTFLAGS="--cfg concordium_base_verif" CARGO_TARGET_DIR=/verif/.cache/target timeout 5000 cargo build --release --offline --workspace 2>&1 | tail -3 )
exit 0
