
val negb : bool -> bool

type nat =
| O
| S of nat

type ('a, 'b) sum =
| Inl of 'a
| Inr of 'b

val fst : ('a1 * 'a2) -> 'a1

val snd : ('a1 * 'a2) -> 'a2

val length : 'a1 list -> nat

val app : 'a1 list -> 'a1 list -> 'a1 list

type comparison =
| Eq
| Lt
| Gt

val compOpp : comparison -> comparison

val pred : nat -> nat

val add : nat -> nat -> nat

val sub : nat -> nat -> nat

type positive =
| XI of positive
| XO of positive
| XH

type n =
| N0
| Npos of positive

type z =
| Z0
| Zpos of positive
| Zneg of positive

module Nat :
 sig
  val add : nat -> nat -> nat

  val eqb : nat -> nat -> bool

  val leb : nat -> nat -> bool

  val ltb : nat -> nat -> bool

  val min : nat -> nat -> nat
 end

module Pos :
 sig
  type mask =
  | IsNul
  | IsPos of positive
  | IsNeg
 end

module Coq_Pos :
 sig
  val succ : positive -> positive

  val add : positive -> positive -> positive

  val add_carry : positive -> positive -> positive

  val pred_double : positive -> positive

  val pred_N : positive -> n

  type mask = Pos.mask =
  | IsNul
  | IsPos of positive
  | IsNeg

  val succ_double_mask : mask -> mask

  val double_mask : mask -> mask

  val double_pred_mask : positive -> mask

  val sub_mask : positive -> positive -> mask

  val sub_mask_carry : positive -> positive -> mask

  val mul : positive -> positive -> positive

  val iter : ('a1 -> 'a1) -> 'a1 -> positive -> 'a1

  val div2 : positive -> positive

  val div2_up : positive -> positive

  val size : positive -> positive

  val compare_cont : comparison -> positive -> positive -> comparison

  val compare : positive -> positive -> comparison

  val eqb : positive -> positive -> bool

  val coq_Nsucc_double : n -> n

  val coq_Ndouble : n -> n

  val coq_lor : positive -> positive -> positive

  val coq_land : positive -> positive -> n

  val ldiff : positive -> positive -> n

  val coq_lxor : positive -> positive -> n

  val iter_op : ('a1 -> 'a1 -> 'a1) -> positive -> 'a1 -> 'a1

  val to_nat : positive -> nat

  val of_succ_nat : nat -> positive
 end

module N :
 sig
  val succ_double : n -> n

  val double : n -> n

  val succ_pos : n -> positive

  val add : n -> n -> n

  val sub : n -> n -> n

  val mul : n -> n -> n

  val compare : n -> n -> comparison

  val eqb : n -> n -> bool

  val leb : n -> n -> bool

  val min : n -> n -> n

  val pos_div_eucl : positive -> n -> n * n

  val coq_lor : n -> n -> n

  val coq_land : n -> n -> n

  val ldiff : n -> n -> n

  val coq_lxor : n -> n -> n

  val to_nat : n -> nat

  val of_nat : nat -> n
 end

module Z :
 sig
  val double : z -> z

  val succ_double : z -> z

  val pred_double : z -> z

  val pos_sub : positive -> positive -> z

  val add : z -> z -> z

  val opp : z -> z

  val sub : z -> z -> z

  val mul : z -> z -> z

  val pow_pos : z -> positive -> z

  val pow : z -> z -> z

  val compare : z -> z -> comparison

  val leb : z -> z -> bool

  val ltb : z -> z -> bool

  val geb : z -> z -> bool

  val gtb : z -> z -> bool

  val eqb : z -> z -> bool

  val to_nat : z -> nat

  val to_N : z -> n

  val of_nat : nat -> z

  val of_N : n -> z

  val to_pos : z -> positive

  val pos_div_eucl : positive -> z -> z * z

  val div_eucl : z -> z -> z * z

  val div : z -> z -> z

  val modulo : z -> z -> z

  val quotrem : z -> z -> z * z

  val quot : z -> z -> z

  val rem : z -> z -> z

  val div2 : z -> z

  val log2 : z -> z

  val shiftl : z -> z -> z

  val shiftr : z -> z -> z

  val coq_lor : z -> z -> z

  val coq_land : z -> z -> z

  val coq_lxor : z -> z -> z
 end

val nth : nat -> 'a1 list -> 'a1 -> 'a1

val nth_error : 'a1 list -> nat -> 'a1 option

val last : 'a1 list -> 'a1 -> 'a1

val map : ('a1 -> 'a2) -> 'a1 list -> 'a2 list

val flat_map : ('a1 -> 'a2 list) -> 'a1 list -> 'a2 list

val fold_left : ('a1 -> 'a2 -> 'a1) -> 'a2 list -> 'a1 -> 'a1

val existsb : ('a1 -> bool) -> 'a1 list -> bool

val find : ('a1 -> bool) -> 'a1 list -> 'a1 option

val firstn : nat -> 'a1 list -> 'a1 list

val skipn : nat -> 'a1 list -> 'a1 list

val repeat : 'a1 -> nat -> 'a1 list

val append : positive -> positive -> positive

module PositiveMap :
 sig
  type key = positive

  type 'a tree =
  | Leaf
  | Node of 'a tree * 'a option * 'a tree

  type 'a t = 'a tree

  val empty : 'a1 t

  val find : key -> 'a1 t -> 'a1 option

  val add : key -> 'a1 -> 'a1 t -> 'a1 t

  val xelements : 'a1 t -> key -> (key * 'a1) list

  val elements : 'a1 t -> (key * 'a1) list
 end

val modulus : z -> z

val half_modulus : z -> z

val wrap : z -> z -> z

val signed : z -> z -> z

val unsigned : z -> z -> z

val bool_to_Z : bool -> z

val iadd : z -> z -> z -> z

val isub : z -> z -> z -> z

val imul : z -> z -> z -> z

val idiv_u : z -> z -> z -> z option

val irem_u : z -> z -> z -> z option

val idiv_s : z -> z -> z -> z option

val irem_s : z -> z -> z -> z option

val iand : z -> z -> z -> z

val ior : z -> z -> z -> z

val ixor : z -> z -> z -> z

val ishl : z -> z -> z -> z

val ishr_u : z -> z -> z -> z

val ishr_s : z -> z -> z -> z

val irotl : z -> z -> z -> z

val irotr : z -> z -> z -> z

val pos_ctz : positive -> z

val pos_popcnt : positive -> z

val bitlen : z -> z

val iclz : z -> z -> z

val ictz : z -> z -> z

val ipopcnt : z -> z -> z

val ieqz : z -> z -> z

val ieq : z -> z -> z -> z

val ine : z -> z -> z -> z

val ilt_u : z -> z -> z -> z

val igt_u : z -> z -> z -> z

val ile_u : z -> z -> z -> z

val ige_u : z -> z -> z -> z

val ilt_s : z -> z -> z -> z

val igt_s : z -> z -> z -> z

val ile_s : z -> z -> z -> z

val ige_s : z -> z -> z -> z

val iwrap : z -> z -> z -> z

val iextend_u : z -> z -> z -> z

val iextend_s : z -> z -> z -> z

val iextendM_s : z -> z -> z -> z

val bytes_of : nat -> z -> z list

val of_bytes : z list -> z

type valtype =
| T_i32
| T_i64

type blocktype = valtype option

type functype = { ft_params : valtype list; ft_result : valtype option }

val valtype_eqb : valtype -> valtype -> bool

val valtypes_eqb : valtype list -> valtype list -> bool

val blocktype_eqb : blocktype -> blocktype -> bool

val functype_eqb : functype -> functype -> bool

type val0 =
| VI32 of z
| VI64 of z

val type_of_val : val0 -> valtype

val bits : valtype -> z

val zero_of : valtype -> val0

type unop =
| Clz
| Ctz
| Popcnt
| Extend8S
| Extend16S
| Extend32S

type binop =
| Add
| Sub
| Mul
| DivS
| DivU
| RemS
| RemU
| And
| Or
| Xor
| Shl
| ShrS
| ShrU
| Rotl
| Rotr

type relop =
| Eq0
| Ne
| LtS
| LtU
| GtS
| GtU
| LeS
| LeU
| GeS
| GeU

type cvtop =
| WrapI64
| ExtendI32S
| ExtendI32U

type sx =
| SX_S
| SX_U

type packsize =
| P8
| P16
| P32

val pack_bytes : packsize -> nat

val type_bytes : valtype -> nat

type binstr =
| BUnreachable
| BNop
| BBr of nat
| BBrIf of nat
| BBrTable of nat list * nat
| BReturn
| BCall of nat
| BCallIndirect of nat
| BDrop
| BSelect
| BLocalGet of nat
| BLocalSet of nat
| BLocalTee of nat
| BGlobalGet of nat
| BGlobalSet of nat
| BLoad of valtype * (packsize * sx) option * n
| BStore of valtype * packsize option * n
| BMemorySize
| BMemoryGrow
| BConst of valtype * z
| BUnop of valtype * unop
| BBinop of valtype * binop
| BEqz of valtype
| BRelop of valtype * relop
| BCvt of cvtop
| BTick of n

type instr =
| Basic of binstr
| Block of blocktype * instr list
| Loop of blocktype * instr list
| If of blocktype * instr list * instr list

type opcode =
| OEnd
| OElse
| OBlock of blocktype
| OLoop of blocktype
| OIf of blocktype
| OBasic of binstr

val flatten_instr : instr -> opcode list

val flatten : instr list -> opcode list

val flatten_body : instr list -> opcode list

val parse_seq :
  nat -> opcode list -> ((instr list * bool) * opcode list) option

val structure_body : opcode list -> instr list option

type func = { f_type : nat; f_locals : valtype list; f_body : instr list }

type global = { g_mut : bool; g_init : val0 }

type limits = { l_min : n; l_max : n option }

type module0 = { m_types : functype list; m_imports : nat list;
                 m_funcs : func list; m_table : n option;
                 m_elems : (n * nat list) list; m_mem : limits option;
                 m_data : (n * z list) list; m_globals : global list }

val page_size : n

val binops : binop list

val relops : relop list

val cnt_unops : unop list

val in_range : n -> n -> n -> bool

val nth_from : 'a1 list -> n -> n -> 'a1 option

val omap : ('a1 -> 'a2) -> 'a1 option -> 'a2 option

val plain_of_byte : n -> binstr option

val mem_of_byte : n -> n -> binstr option

val mk_const : valtype -> z -> binstr

val mk_val : valtype -> z -> val0

type memory = { mem_pages : n; mem_max : n option; mem_data : z PositiveMap.t }

val mem_len : memory -> n

val mem_key : n -> positive

val mem_get : memory -> n -> z

val mem_set : memory -> n -> z -> memory

val mem_read : memory -> n -> nat -> z list

val mem_write : memory -> n -> z list -> memory

val in_bounds : memory -> n -> nat -> bool

val mem_load : memory -> n -> nat -> z option

val mem_store : memory -> n -> nat -> z -> memory option

type store = { s_mem : memory option; s_globals : val0 list;
               s_table : nat option list }

val set_mem : store -> memory option -> store

val set_globals : store -> val0 list -> store

type host_result =
| HostOk of memory option * val0 option
| HostTrap

type res =
| RNormal of store * val0 list * val0 list
| RBr of nat * store * val0 list * val0 list
| RReturn of store * val0 list
| RTrap
| RStuck
| RFuel

type outcome =
| Done of val0 option * memory option * val0 list
| Trap
| Stuck
| OutOfFuel

val app_unop : valtype -> unop -> z -> z option

val app_binop : valtype -> binop -> z -> z -> z option

val app_relop : valtype -> relop -> z -> z -> z

val mkval : valtype -> z -> val0

val payload : valtype -> val0 -> z option

val nth_opt : 'a1 list -> nat -> 'a1 option

val set_nth : 'a1 list -> nat -> 'a1 -> 'a1 list option

val arity : blocktype -> nat

val func_type : module0 -> nat -> functype option

val grow_limit : n -> memory -> n

val mem_grow : n -> memory -> z -> memory * z

type step_result = (bool, (store * val0 list) * val0 list) sum

val ok : store -> val0 list -> val0 list -> step_result

val trap : step_result

val stuck : step_result

val with_mem : store -> memory -> store

val exec_simple :
  n -> binstr -> store -> val0 list -> val0 list -> step_result

val take_args :
  nat -> val0 list -> val0 list -> (val0 list * val0 list) option

val invoke :
  (nat -> val0 list -> memory option -> host_result) -> n -> module0 -> nat
  -> store -> nat -> val0 list -> (res, store * val0 option) sum

val write_elems : nat option list -> nat -> nat list -> nat option list option

val init_table :
  nat option list -> (n * nat list) list -> nat option list option

val init_data : memory -> (n * z list) list -> memory option

val instantiate : module0 -> store option

val run :
  (nat -> val0 list -> memory option -> host_result) -> n -> module0 -> nat
  -> nat -> val0 list -> outcome

val no_host : nat -> val0 list -> memory option -> host_result

val iUnreachable : n

val iIf : n

val iBr : n

val iBrIf : n

val iBrTable : n

val iBrTableCarry : n

val iReturn : n

val iCall : n

val iTickEnergy : n

val iCallIndirect : n

val iSelect : n

val iGlobalGet : n

val iGlobalSet : n

val iMemorySize : n

val iMemoryGrow : n

val iCopy : n

val relop_idx : relop -> n

val binop_idx : binop -> n

val load_opcode : valtype -> (packsize * sx) option -> n

val store_opcode : valtype -> packsize option -> n

val unop_opcode : valtype -> unop -> n

val binop_opcode : valtype -> binop -> n

val relop_opcode : valtype -> relop -> n

val eqz_opcode : valtype -> n

val cvt_opcode : cvtop -> n

val le_bytes : nat -> z -> n list

val u16_bytes : z -> n list

val u32_bytes : z -> n list

val i32_bytes : z -> n list

type vframe = { vf_is_if : bool; vf_label : blocktype; vf_end : blocktype;
                vf_height : nat; vf_unreachable : bool }

type vstate = { v_opds : nat; v_ctrls : vframe list; v_unreach : nat option }

type reachability =
| Reachable
| UnreachableInstruction
| UnreachableFrame

val v_reachability : vstate -> reachability

val v_push : vstate -> vstate

val v_pop : vstate -> vstate option

val v_popn : nat -> vstate -> vstate option

val v_pushn : nat -> vstate -> vstate

val bt_arity : blocktype -> nat

val v_push_ctrl : bool -> blocktype -> blocktype -> vstate -> vstate

val v_pop_ctrl : vstate -> ((blocktype * bool) * vstate) option

val v_mark_unreachable : vstate -> vstate option

type cctx = { cx_func_type : (nat -> functype option);
              cx_type : (nat -> functype option); cx_return : blocktype }

val pops_pushes : binstr -> nat * nat

val label_type : vstate -> nat -> blocktype option

val vstep : cctx -> vstate -> opcode -> vstate option

type provider =
| PDyn of z
| PLocal of z
| PConst of z

val provider_eqb : provider -> provider -> bool

val provider_idx : provider -> z

type jump_target =
| JKnown of z
| JUnknown of z list * provider option

type cstate = { c_out : n list; c_bp : jump_target list;
                c_stack : provider list; c_next : z; c_reuse : z list;
                c_consts : (z * z) list; c_last : z option }

val set_out : cstate -> n list -> cstate

val set_bp : cstate -> jump_target list -> cstate

val set_stack : cstate -> provider list -> cstate

val set_dyn : cstate -> z -> z list -> cstate

val set_consts : cstate -> (z * z) list -> cstate

val set_last : cstate -> z option -> cstate

val emit : cstate -> n list -> cstate

val cur_off : cstate -> z

val push_op : cstate -> n -> cstate

val push_loc : cstate -> provider -> cstate

val insert_sorted : z -> z list -> z list

val remove_z : z -> z list -> z list

val dyn_get : cstate -> z * cstate

val dyn_reuse : cstate -> provider -> cstate

val consume : cstate -> (provider * cstate) option

val provide : cstate -> z * cstate

val provide_existing : cstate -> provider -> cstate

val push_constant : cstate -> z -> cstate

val truncate_n : nat -> cstate -> cstate option

val truncate : cstate -> nat -> cstate option

val overwrite : n list -> nat -> n list -> n list

val back_patch : cstate -> z -> z -> cstate

val update_nth : 'a1 list -> nat -> 'a1 -> 'a1 list

val insert_jump_location : cstate -> nat -> cstate option

val copy_if_needed : cstate -> provider -> provider -> cstate

val push_br_if_jump : cstate -> nat -> cstate option

val push_br_jump : cstate -> bool -> nat -> cstate option

val push_br_table_jump : cstate -> nat -> cstate option

val push_br_table_jumps : cstate -> nat list -> cstate option

val push_consume : cstate -> (provider * cstate) option

val push_consume_n : nat -> cstate -> cstate option

val push_provide : cstate -> cstate

val push_nary : cstate -> n -> nat -> cstate option

val rETURN_VALUE_LOCATION : provider

val preserve_local :
  z -> provider list -> cstate -> provider option -> (provider
  list * cstate) * provider option

val handle_opcode :
  cctx -> cstate -> vstate -> reachability -> opcode -> cstate option

val compile_ops :
  cctx -> opcode list -> vstate -> cstate -> (vstate * cstate) option

type compiled_function = { cf_type_idx : nat; cf_params : valtype list;
                           cf_num_locals : nat; cf_return : blocktype;
                           cf_num_registers : z; cf_constants : z list;
                           cf_code : n list }

val compile_function :
  cctx -> nat -> functype -> nat -> opcode list -> compiled_function option

type cmodule = { cm_types : functype list; cm_imports : nat list;
                 cm_funcs : ((nat * valtype list) * opcode list) list }

val cm_func_type : cmodule -> nat -> functype option

val compile_module_function :
  cmodule -> ((nat * valtype list) * opcode list) -> compiled_function option

val compile_module : cmodule -> compiled_function option list

val two32 : z

val two64 : z

val low32 : z -> z

val as_i32 : z -> z

val as_i64 : z -> z

val as_u32 : z -> z

val as_u64 : z -> z

val set_short : z -> z -> z

val set_long : z -> z -> z

val from_i32 : z -> z

val from_i64 : z -> z

type trap_reason =
| TUnreachable
| TMemory
| TDivI32
| TDivI64
| TRemSOverflow
| TCallUndefined
| TCallType
| THost
| TBadCode

val min_int : z -> z

val rs_leading_zeros : z -> z -> z

val pos_tz : positive -> z

val rs_trailing_zeros : z -> z -> z

val pos_ones : positive -> z

val rs_count_ones : z -> z

val rs_rotl : z -> z -> z -> z

val rs_rotr : z -> z -> z -> z

val rs_binop : z -> binop -> z -> z -> z -> z -> (trap_reason, z) sum

val rs_relop : relop -> z -> z -> z -> z -> z

type artifact = { a_imports : functype list; a_types : functype list;
                  a_table : nat option list;
                  a_memory : ((n * n) * (n * z list) list) option;
                  a_globals : z list; a_code : compiled_function list }

type fstate = { fs_pc : z; fs_idx : nat; fs_base : nat; fs_ret : nat option }

type mstate = { ms_pc : z; ms_idx : nat; ms_frames : fstate list;
                ms_ret : nat option; ms_mem : memory option;
                ms_regs : z list; ms_base : nat; ms_globals : z list;
                ms_energy : n }

type moutcome =
| MDone of val0 option * memory option * z list * n
| MTrap of trap_reason
| MOutOfFuel

type code_map = n PositiveMap.t

val build_code : n list -> positive -> code_map -> code_map

val byte_at : code_map -> z -> z

val get_u16 : code_map -> z -> z

val get_u32 : code_map -> z -> z

val get_i32 : code_map -> z -> z

val list_set : z list -> nat -> z -> z list

val reg : mstate -> z -> z

val get_local : z list -> mstate -> z -> z

val set_reg : mstate -> z -> z -> mstate

val set_pc : mstate -> z -> mstate

val set_mmem : mstate -> memory -> mstate

val set_mglobals : mstate -> z list -> mstate

type step_res =
| SNext of mstate
| SDone of mstate
| STrap of trap_reason

val mlen : mstate -> z

val do_load : code_map -> z list -> mstate -> z -> nat -> (z -> z) -> step_res

val do_store : code_map -> z list -> mstate -> z -> nat -> step_res

val sext : z -> z -> z

val unary : code_map -> z list -> mstate -> z -> (z -> z -> z) -> step_res

val binary :
  code_map -> z list -> mstate -> z -> (z -> z -> z -> (trap_reason, z) sum)
  -> step_res

val read_args :
  code_map -> z list -> mstate -> z -> nat -> z list -> z list * z

val enter_function :
  mstate -> z -> nat -> compiled_function -> z list -> nat option -> mstate

val call_function :
  artifact -> (nat -> z list -> z option option) -> code_map -> z list ->
  mstate -> z -> nat -> (functype -> nat -> bool) -> step_res

val step :
  artifact -> (nat -> z list -> z option option) -> (code_map * z list) list
  -> mstate -> step_res

val run_steps :
  artifact -> (nat -> z list -> z option option) -> (code_map * z list) list
  -> nat -> mstate -> (moutcome, mstate) sum

val decode_codes : artifact -> (code_map * z list) list

val mrun :
  artifact -> (nat -> z list -> z option option) -> nat -> nat -> val0 list
  -> moutcome

val max_num_pages : n

val build_artifact :
  cmodule -> module0 -> nat -> compiled_function list -> artifact option

val metering_host : nat -> z list -> z option option

val is_terminator : binstr -> bool

val f1_instr : blocktype list -> instr -> bool

val f1_body : blocktype -> instr list -> bool

type aentry = nat option

val is_local : nat -> aentry -> bool

val forget : nat -> aentry list -> aentry list

type f2_state = { f2_found : bool; f2_cur : aentry list;
                  f2_outer : aentry list; f2_dead : bool }

val f2_basic :
  (nat -> functype option) -> (nat -> functype option) -> nat -> blocktype
  list -> binstr -> f2_state -> f2_state

val f2_instr :
  (nat -> functype option) -> (nat -> functype option) -> nat -> blocktype
  list -> instr -> f2_state -> f2_state

val f2_body :
  (nat -> functype option) -> (nat -> functype option) -> blocktype -> instr
  list -> bool

val classes_of_function :
  cmodule -> ((nat * valtype list) * opcode list) -> (bool * bool) option
