(** * Props/C09 — validation admits only safe modules; parsing and validation are total.

    Models: [Wasm/Validate.v] (transcription of validate.rs: function level and module level),
    [Wasm/Leb128.v] (the LEB128 readers of parse.rs), [Wasm/Typing.v] (the declarative typing of
    the WebAssembly specification), [Gen/Limits.v] (generated from constants.rs on every run). *)
From Coq Require Import ZArith NArith String List Bool.
From CB Require Import Common.IntN Wasm.Syntax Gen.Limits Wasm.Validate Wasm.ValidateLimits
  Wasm.Typing Wasm.ValidateProofs Wasm.ValidateComplete Wasm.Sem Wasm.TypeSound Wasm.Accepted
  Wasm.C09Examples Wasm.Leb128 Wasm.Leb128Proofs Wasm.Leb128Signed Wasm.Imports
  Wasm.Parse Wasm.ParseProofs Wasm.ParseDecode.
Import ListNotations.

(** Validation is a total function: structural recursion over the opcode list, no fuel. *)
Theorem validate_total :
  forall c ops, {h | validate_func c ops = Some h} + {validate_func c ops = None}.
Proof. intros c ops. destruct (validate_func c ops) as [h|]; [left; exists h; reflexivity|right; reflexivity]. Qed.
Print Assumptions validate_total.

(** Soundness of the validation algorithm (operand stack with unknown types, control frames):
    an accepted function body that does not continue after the [end] closing the function is a
    well-nested expression, well typed by the specification's rules in the function's context. *)
Theorem validate_sound :
  forall c ops h,
    validate_func c ops = Some h -> ends_early c ops = false ->
    exists is, structure_body (map fst ops) = Some is /\ body_ok (tctx_of c) is.
Proof. exact validate_sound_thm. Qed.
Print Assumptions validate_sound.

(** The unguarded statement is false for the faithful model, as for the implementation
    (finding KF-C09-1): the body [end; nop] is accepted but is not an expression. *)
Theorem validate_sound_refuted :
  exists c ops h, validate_func c ops = Some h /\ structure_body (map fst ops) = None /\ ends_early c ops = true.
Proof. exact validate_sound_refuted_thm. Qed.
Print Assumptions validate_sound_refuted.

Example validate_sound_hypotheses_satisfiable :
  validate_func ex_ctx ex_body = Some 1%nat /\ ends_early ex_ctx ex_body = false.
Proof. exact validate_sound_nonvacuous. Qed.
Print Assumptions validate_sound_hypotheses_satisfiable.

(** Completeness on the reachable-code fragment: a well-typed body in which the stack-polymorphic
    instructions (unreachable, br, br_table, return) occur only as the last instruction of a
    sequence (no instruction is validated in the unreachable state of a frame), with switch sizes
    within MAX_SWITCH_SIZE and sign-extension operators only if the parser admits them, in a
    context whose function type indices exist, is accepted (with alignment 0). *)
Theorem validate_complete_partial :
  forall c, Forall (fun ti => ti < length (vc_types c))%nat (vc_funcs c) ->
  forall is, body_ok (tctx_of c) is -> seq_cond (vc_signext c) is = true ->
    exists h, validate_func c (map (fun o => (o, 0%N)) (flatten_body is)) = Some h.
Proof. exact validate_complete_partial_thm. Qed.
Print Assumptions validate_complete_partial.
Example validate_complete_hypotheses_satisfiable :
  body_ok (tctx_of ex_ctx) is_live /\ seq_cond true is_live = true /\ length is_live = 3%nat /\
  Forall (fun ti => ti < length (vc_types ex_ctx))%nat (vc_funcs ex_ctx).
Proof. exact validate_complete_hypotheses. Qed.
Print Assumptions validate_complete_hypotheses_satisfiable.

(** Type soundness of the reference semantics (preservation + progress, all instructions
    including calls and call_indirect): in a well-typed module, with hosts that respect the
    types of the imports, invoking a function on arguments of its parameter types from a
    well-typed store never yields [RStuck]; a returned store is well typed and the result has
    the declared type. *)
Theorem sem_type_sound :
  forall host page_cap m fuel s fi args ft,
    module_ok m -> host_ok host m -> store_ok m s ->
    nth_error (ftypes m) fi = Some ft -> map type_of_val args = ft_params ft ->
    inv_ok m ft (invoke host page_cap m fuel s fi args).
Proof. exact invoke_safe. Qed.
Print Assumptions sem_type_sound.

Theorem run_never_stuck :
  forall host page_cap m fuel fi args ft,
    module_ok m -> segments_ok m -> host_ok host m ->
    nth_error (ftypes m) fi = Some ft -> map type_of_val args = ft_params ft ->
    run host page_cap m fuel fi args <> Stuck.
Proof. exact run_never_stuck_thm. Qed.
Print Assumptions run_never_stuck.

(** [accepted_never_stuck]: validation (model of validate.rs) + validate_sound + type soundness.
    A module accepted by [validate_module] (outside KF-C09-1), decoded as [m], instantiates, and
    no invocation with well-typed arguments ever reaches the [Stuck] outcome of the reference
    semantics - for every fuel, embedder page cap and type-respecting host. *)
Theorem accepted_never_stuck :
  forall signext vm m host page_cap fuel fi args ft,
    validate_module signext vm = true -> no_trailing signext vm -> corresponds vm m ->
    host_ok host m ->
    nth_error (ftypes m) fi = Some ft -> map type_of_val args = ft_params ft ->
    run host page_cap m fuel fi args <> Stuck.
Proof. exact accepted_never_stuck_thm. Qed.
Print Assumptions accepted_never_stuck.
Example accepted_never_stuck_hypotheses_satisfiable :
  validate_module true vm_ex = true /\ no_trailing true vm_ex /\ corresponds vm_ex m_ex /\
  host_ok no_host m_ex /\
  nth_error (ftypes m_ex) 0 = Some {| ft_params := [T_i32]; ft_result := Some T_i32 |}.
Proof. exact accepted_never_stuck_hypotheses. Qed.
Print Assumptions accepted_never_stuck_hypotheses_satisfiable.

(** Every memory instruction of an accepted body has at most the natural alignment. *)
Theorem validate_alignment_ok :
  forall c ops h, validate_func c ops = Some h -> forallb vop_align_ok ops = true.
Proof. exact validate_alignment. Qed.
Print Assumptions validate_alignment_ok.

(** Module level: every function of an accepted module has an existing type, at most
    ALLOWED_LOCALS locals, locals + maximal operand stack height within MAX_ALLOWED_STACK_HEIGHT,
    naturally aligned accesses, and (outside KF-C09-1) a well-typed body. *)
Theorem validate_module_sound :
  forall signext m, validate_module signext m = true ->
  forall f, In f (vm_funcs m) ->
  exists ft locals h,
    nth_error (vm_types m) (mf_type f) = Some ft /\
    make_locals (ft_params ft) (mf_locals f) = Some locals /\
    validate_func (func_ctx signext m ft locals) (mf_body f) = Some h /\
    (N.of_nat (length locals) + N.of_nat h <= MAX_ALLOWED_STACK_HEIGHT)%N /\
    forallb vop_align_ok (mf_body f) = true /\
    (ends_early (func_ctx signext m ft locals) (mf_body f) = false ->
     exists is, structure_body (map fst (mf_body f)) = Some is /\
                body_ok (tctx_of (func_ctx signext m ft locals)) is).
Proof. exact validate_module_sound_thm. Qed.
Print Assumptions validate_module_sound.

(** Accepted modules obey every limit of constants.rs (table and memory sizes, globals, exports,
    element and data segments inside the table / initial memory, locals and stack height). *)
Theorem validate_module_limits :
  forall signext m, validate_module signext m = true -> module_limits m.
Proof. exact validate_module_limits_thm. Qed.
Print Assumptions validate_module_limits.

(** The switch size limit is enforced on every accepted br_table. *)
Theorem validate_switch_size :
  forall c s ls d al s', vstep_basic c s (BBrTable ls d) al = Some s' ->
    (N.of_nat (length ls) <= MAX_SWITCH_SIZE)%N.
Proof. exact switch_size_checked. Qed.
Print Assumptions validate_switch_size.

(** The generated constants are consistent with the interpreter's representation choices. *)
Theorem limits_consistency :
  (MAX_NUM_GLOBALS <= 2 ^ 16 /\ MAX_SWITCH_SIZE < 2 ^ 16 /\
   MAX_INIT_MEMORY_SIZE <= MAX_NUM_PAGES /\ MAX_NUM_PAGES * PAGE_SIZE < 2 ^ 32 /\
   MAX_INIT_MEMORY_SIZE * PAGE_SIZE <= u32_max /\ PAGE_SIZE = page_size /\
   ALLOWED_LOCALS <= MAX_ALLOWED_STACK_HEIGHT /\ MAX_NUM_PAGES <= 65536)%N.
Proof. exact limits_consistent. Qed.
Print Assumptions limits_consistency.

(** The memory bound handed to the interpreter by compilation ([Module::compile]: min(declared
    max, MAX_NUM_PAGES), tied to the real artifact by the correspondence run) never exceeds
    MAX_NUM_PAGES, so memory.grow's [set_len] stays inside the preallocated buffer. *)
Theorem artifact_memory_bounded :
  forall signext m init mx,
    validate_module signext m = true -> artifact_memory m = Some (init, mx) ->
    (init <= mx /\ mx <= MAX_NUM_PAGES /\ mx * PAGE_SIZE <= MAX_NUM_PAGES * PAGE_SIZE /\
     MAX_NUM_PAGES * PAGE_SIZE < 2 ^ 32)%N.
Proof. exact artifact_memory_bounded_thm. Qed.
Print Assumptions artifact_memory_bounded.

(** ** The parser (model of parse.rs: skeleton, all sections, opcode decoder, constant
    expressions; tied to the implementation on the byte-level mutant stream). *)

(** [parse_total]: parsing is a total function of the byte string; the fuel that bounds the
    vector and opcode loops (remaining input length + 1) is never exhausted. *)
Theorem parse_total :
  forall cfg bs, parse_module cfg bs <> PFuel /\ parse_skeleton bs <> PFuel.
Proof. exact parse_total_thm. Qed.
Print Assumptions parse_total.

(** [parse_alloc_bounded]: the ghost allocation counter (pre-reservation
    min(declared, MAX_PREALLOCATED_BYTES / size) per vector + one element per parsed item + names)
    is linear in the input length: c0 = 0, c1 = 14 * (MAX_PREALLOCATED_BYTES + 64). *)
Theorem parse_alloc_bounded :
  forall cfg bs p r a, parse_module cfg bs = POk p r a ->
    (a <= 14 * (MAX_PREALLOCATED_BYTES + esz_max) * N.of_nat (length bs))%N.
Proof. exact parse_alloc_bounded_thm. Qed.
Print Assumptions parse_alloc_bounded.
(** whatever length a vector declares, its up-front reservation is at most MAX_PREALLOCATED_BYTES *)
Theorem parse_prealloc_bounded :
  forall esize declared, (prealloc esize declared <= MAX_PREALLOCATED_BYTES)%N.
Proof. exact prealloc_le. Qed.
Print Assumptions parse_prealloc_bounded.

(** [parse_sections_ordered]: an accepted skeleton has strictly increasing non-custom section ids
    (no reordering, no duplicates), all in 1..11. *)
Theorem parse_sections_ordered :
  forall bs ss r a, parse_skeleton bs = POk ss r a ->
    Sorted.StronglySorted N.lt (noncustom_ids ss) /\ Forall (fun i => 0 < i <= 11)%N (noncustom_ids ss).
Proof. exact parse_sections_ordered_thm. Qed.
Print Assumptions parse_sections_ordered.

(** the decoded module [corresponds] to what the validator saw, and an accepted module decodes *)
Theorem parse_decode_corresponds :
  forall cap p vm m, to_vmodule cap p = Some vm -> decode_module cap p = Some m -> corresponds vm m.
Proof. exact decode_corresponds. Qed.
Print Assumptions parse_decode_corresponds.
Theorem accepted_bytes_decode :
  forall cfg bs p r a vm, parse_module cfg bs = POk p r a ->
    to_vmodule (N.of_nat (length bs)) p = Some vm ->
    validate_module (cfg_signext cfg) vm = true -> no_trailing (cfg_signext cfg) vm ->
    exists m, decode_module (N.of_nat (length bs)) p = Some m.
Proof. exact accepted_decodes. Qed.
Print Assumptions accepted_bytes_decode.

(** [accepted_bytes_never_stuck]: from bytes to safe execution on the reference semantics -
    parse (model of parse.rs), validate (model of validate.rs), decode, run. *)
Theorem accepted_bytes_never_stuck :
  forall cfg bs p r a vm m host page_cap fuel fi args ft,
    parse_module cfg bs = POk p r a ->
    to_vmodule (N.of_nat (length bs)) p = Some vm ->
    validate_module (cfg_signext cfg) vm = true -> no_trailing (cfg_signext cfg) vm ->
    decode_module (N.of_nat (length bs)) p = Some m ->
    host_ok host m ->
    nth_error (ftypes m) fi = Some ft -> map type_of_val args = ft_params ft ->
    run host page_cap m fuel fi args <> Stuck.
Proof. exact accepted_bytes_never_stuck_thm. Qed.
Print Assumptions accepted_bytes_never_stuck.

Example parse_hypotheses_satisfiable :
  accepts cfg_v1 bytes_ex = true /\ accepts cfg_v0 bytes_ex = true /\
  (exists ss r a, parse_skeleton bytes_ex = POk ss r a /\ noncustom_ids ss = [1; 3; 7; 10]%N) /\
  accepts cfg_v1 (bytes_ex ++ [0x03; 0x02; 0x01; 0x00]%N) = false.
Proof. exact parse_example. Qed.
Print Assumptions parse_hypotheses_satisfiable.

(** Permitted imports and exports (transcription of the v0 / v1 ConcordiumAllowedImports, tied to
    the implementation query by query): only the listed host functions of module "concordium", with
    exactly the listed types and not duplicated, are admitted; entrypoint exports have type
    [i64] -> i32 and names of at most 100 graphic ASCII characters. *)
Theorem import_only_listed :
  forall table dup md name ft, import_ok table dup md name ft = true ->
    dup = false /\ md = "concordium"%string /\ In (name, ft_params ft, ft_result ft) table.
Proof. exact import_only_listed_thm. Qed.
Print Assumptions import_only_listed.
Theorem export_v0_entry :
  forall name ft, export_ok_v0 name ft = true ->
    ft_params ft = [T_i64] /\ ft_result ft = Some T_i32 /\
    (String.length name <= MAX_EXPORT_NAME_LEN)%nat /\ is_entry_name name = true.
Proof. exact export_v0_entry_thm. Qed.
Print Assumptions export_v0_entry.
Theorem export_v1_entry :
  forall name ft, export_ok_v1 name ft = true -> (String.length name <= MAX_EXPORT_NAME_LEN)%nat /\
    (is_entry_name name = true -> ft_params ft = [T_i64] /\ ft_result ft = Some T_i32).
Proof. exact export_v1_entry_thm. Qed.
Print Assumptions export_v1_entry.

(** LEB128 readers: round trip of the canonical encodings, bounded consumption (decoding is a
    total function reading at most 5 / 10 bytes), range of 32-bit values. *)
Theorem leb_u32_roundtrip :
  forall n rest, (n < 2 ^ 32)%N -> decode_u32 (uenc 5 n ++ rest) = Some (n, rest).
Proof. exact leb_u32_roundtrip_thm. Qed.
Print Assumptions leb_u32_roundtrip.
Theorem leb_u64_roundtrip :
  forall n rest, (n < 2 ^ 64)%N -> decode_u64 (uenc 10 n ++ rest) = Some (n, rest).
Proof. exact leb_u64_roundtrip_thm. Qed.
Print Assumptions leb_u64_roundtrip.
Theorem leb_s32_roundtrip :
  forall z rest, (- 2 ^ 31 <= z < 2 ^ 31)%Z -> decode_s32 (senc 5 z ++ rest) = Some (z, rest).
Proof. exact leb_s32_roundtrip_thm. Qed.
Print Assumptions leb_s32_roundtrip.
Theorem leb_s64_roundtrip :
  forall z rest, (- 2 ^ 63 <= z < 2 ^ 63)%Z -> decode_s64 (senc 10 z ++ rest) = Some (z, rest).
Proof. exact leb_s64_roundtrip_thm. Qed.
Print Assumptions leb_s64_roundtrip.
Theorem leb_decode_u32_bounded :
  forall bs v r, decode_u32 bs = Some (v, r) ->
    (v < 2 ^ 32)%N /\ exists pre, bs = pre ++ r /\ (1 <= length pre <= 5)%nat.
Proof. exact decode_u32_bounded. Qed.
Print Assumptions leb_decode_u32_bounded.
Theorem leb_decode_u64_bounded :
  forall bs v r, decode_u64 bs = Some (v, r) -> exists pre, bs = pre ++ r /\ (1 <= length pre <= 10)%nat.
Proof. exact decode_u64_bounded. Qed.
Print Assumptions leb_decode_u64_bounded.
Theorem leb_decode_s32_bounded :
  forall bs v r, decode_s32 bs = Some (v, r) ->
    (- 2 ^ 31 <= v < 2 ^ 31)%Z /\ exists pre, bs = pre ++ r /\ (1 <= length pre <= 5)%nat.
Proof. exact decode_s32_bounded. Qed.
Print Assumptions leb_decode_s32_bounded.
Theorem leb_decode_s64_bounded :
  forall bs v r, decode_s64 bs = Some (v, r) -> exists pre, bs = pre ++ r /\ (1 <= length pre <= 10)%nat.
Proof. exact decode_s64_bounded. Qed.
Print Assumptions leb_decode_s64_bounded.
(** a sixth byte is never accepted for a 32-bit value *)
Theorem leb_u32_too_long :
  forall b1 b2 b3 b4 b5 r, (128 <= b1 -> 128 <= b2 -> 128 <= b3 -> 128 <= b4 -> 128 <= b5 ->
    decode_u32 (b1 :: b2 :: b3 :: b4 :: b5 :: r) = None)%N.
Proof. exact leb_u32_too_long_thm. Qed.
Print Assumptions leb_u32_too_long.

(** ** Safety of the COMPILED code (the register-machine code emitted by the model of
    [Module::compile], [Wasm/Compile.v], byte-for-byte tied to the real compiler by C01's layer (i)).

    [code_safe cx nregs nconsts code] (Wasm/CompileSafe4.v): the byte string is the encoding of a list
    of fields that (d) parses completely by the instruction grammar [shaped] (= what the decoder of
    machine.rs reads after each opcode byte: every opcode has all its immediates), in which (a) every
    source operand [p] satisfies [- nconsts <= p < nregs] (register below [num_registers], or constant
    index [-(p+1)] inside the constants table: (b)), every written register [r] satisfies
    [0 <= r < nregs], and (c) every jump target (after back-patching) is the offset of an instruction
    start of that grammar and is [<= length code].

    Proved for EVERY opcode sequence on which the compiler model succeeds (all cases of
    [Handler::handle_opcode]: end, else, block, loop, if, br, br_if, br_table, return, call,
    call_indirect, unreachable, the metering tick, and every straight-line instruction), in reachable
    and unreachable code.  Hypotheses: local indices in range (validation checks that) and the context's
    return type is the function's.  PARTIAL in two respects: the grammar does not tie the number of
    br_table entries to the u16 immediate (validation's "all arms have the default's label type" is
    not available in the compiler model), and the grammar is not yet linked to a [Machine.v] step by a
    theorem. *)
From CB Require Import Wasm.Compile Wasm.CompileLemmas Wasm.BlockProofs Wasm.CompileSafe Wasm.CompileSafe2 Wasm.CompileSafe4.
Theorem compile_output_safe_partial :
  forall cx ti ft nd ops cf,
    cx_return cx = ft_result ft ->
    Forall (fun op => op_locals (Z.of_nat (length (ft_params ft) + nd)) op = true) ops ->
    compile_function cx ti ft nd ops = Some cf ->
    (0 <= cf_num_registers cf)%Z /\ (Z.of_nat (length (ft_params ft) + nd) <= cf_num_registers cf)%Z
    /\ code_safe cx (cf_num_registers cf) (Z.of_nat (length (cf_constants cf))) (cf_code cf).
Proof. exact compile_output_safe_partial_proof. Qed.
Print Assumptions compile_output_safe_partial.

(** non-vacuity (of this theorem and of [machine_operands_in_bounds_partial] below): a function with block / if / else / br / br_if / br_table / loop / call, arithmetic,
    a constant, local.set (with the last_provide_loc short cut) and a result is compiled and satisfies
    the hypotheses *)
Theorem compile_output_safe_hypotheses_satisfiable :
  let fty := {| ft_params := [T_i32]; ft_result := Some T_i32 |} in
  let cx := {| cx_func_type := fun _ => Some fty; cx_type := fun _ => Some fty; cx_return := Some T_i32 |} in
  let ops := [OBlock None; OBasic (BLocalGet 0); OBasic (BConst T_i32 1); OBasic (BBinop T_i32 Add);
              OBasic (BLocalSet 0); OBasic (BLocalGet 0); OBasic (BBrIf 0); OBasic (BBr 0); OEnd;
              OLoop None; OBasic (BLocalGet 0); OBasic (BBrTable [0%nat] 0); OEnd;
              OBasic (BLocalGet 0); OIf (Some T_i32); OBasic (BLocalGet 0); OBasic (BCall 0); OElse;
              OBasic (BConst T_i32 7); OBasic (BLocalGet 0); OBasic (BCallIndirect 0); OEnd; OEnd] in
  cx_return cx = ft_result fty
  /\ Forall (fun op => op_locals (Z.of_nat (length (ft_params fty) + 0)) op = true) ops
  /\ exists cf, compile_function cx 0 fty 0 ops = Some cf /\ Nat.ltb 60 (length (cf_code cf)) = true
       /\ (* the additional hypotheses of [machine_operands_in_bounds_partial] *)
          (cf_num_registers cf <=? 2147483648)%Z = true
       /\ (Z.of_nat (length (cf_constants cf)) <=? 2147483648)%Z = true
       /\ (Z.of_nat (length (cf_code cf)) <? 4294967296)%Z = true.
Proof.
  cbv zeta. split; [reflexivity|]. split; [repeat (constructor; [reflexivity|]); constructor|].
  eexists. split; [vm_compute; reflexivity|]. repeat split; vm_compute; reflexivity.
Qed.
Print Assumptions compile_output_safe_hypotheses_satisfiable.

(** Link to the decoder of [Wasm/Machine.v] (PARTIAL: operand slots, not yet a statement about
    [step]): in the code map the machine executes ([build_code (cf_code cf)], as in [decode_codes]),
    reading an operand slot of the grammar with the machine's [get_i32] returns a register below
    [num_registers] or a constant index inside the constants table; reading a written-register slot
    returns a register in [0, num_registers); reading a jump-target slot with [get_u32] returns an
    instruction start [<= length code].  Needs [num_registers <= 2^31], [#constants <= 2^31] and
    [length code < 2^32] (the i32/u32 encodings are injective only there; the compiler model has no
    such bound: it computes in unbounded [Z], where artifact.rs keeps [next_location] in an [i32] and
    converts [constants.len()] / [out.bytes.len()] with [i32::try_from] / [u32::try_from]). *)
From CB Require Import Wasm.Machine Wasm.CompileSafe5.
From Coq Require Import FMapPositive.
Theorem machine_operands_in_bounds_partial :
  forall cx ti ft nd ops cf,
    cx_return cx = ft_result ft ->
    Forall (fun op => op_locals (Z.of_nat (length (ft_params ft) + nd)) op = true) ops ->
    compile_function cx ti ft nd ops = Some cf ->
    (cf_num_registers cf <= 2147483648)%Z -> (Z.of_nat (length (cf_constants cf)) <= 2147483648)%Z ->
    (Z.of_nat (length (cf_code cf)) < 4294967296)%Z ->
    let c := build_code (cf_code cf) xH (PositiveMap.empty N) in
    exists fl, cf_code cf = enc fl /\ shaped cx fl /\
      (forall pre p post, fl = pre ++ FSrc p :: post ->
         get_i32 c (off pre) = p /\ (- Z.of_nat (length (cf_constants cf)) <= p < cf_num_registers cf)%Z) /\
      (forall pre r post, fl = pre ++ FDst r :: post ->
         get_i32 c (off pre) = r /\ (0 <= r < cf_num_registers cf)%Z) /\
      (forall pre t post, fl = pre ++ FTgt t :: post ->
         get_u32 c (off pre) = t /\ starts cx fl t /\ (0 <= t <= Z.of_nat (length (cf_code cf)))%Z).
Proof. exact machine_operands_in_bounds_proof. Qed.
Print Assumptions machine_operands_in_bounds_partial.
