(** * Props/C09 — validation admits only safe modules; parsing and validation are total. *)
From Coq Require Import ZArith NArith List Bool.
From CB Require Import Common.IntN Wasm.Syntax Gen.Limits Wasm.Validate Wasm.ValidateLimits.
Import ListNotations.

(** Accepted modules obey every limit of constants.rs (generated into Gen/Limits.v on every run). *)
Theorem validate_module_limits :
  forall signext m, validate_module signext m = true -> module_limits m.
Proof. exact validate_module_limits_thm. Qed.
Print Assumptions validate_module_limits.
