(** * Props/C09 — validation admits only safe modules; parsing and validation are total.

    Models: [Wasm/Validate.v] (transcription of validate.rs: function level and module level),
    [Wasm/Leb128.v] (the LEB128 readers of parse.rs), [Wasm/Typing.v] (the declarative typing of
    the WebAssembly specification), [Gen/Limits.v] (generated from constants.rs on every run). *)
From Coq Require Import ZArith NArith List Bool.
From CB Require Import Common.IntN Wasm.Syntax Gen.Limits Wasm.Validate Wasm.ValidateLimits
  Wasm.Typing Wasm.ValidateProofs Wasm.Leb128 Wasm.Leb128Proofs.
Import ListNotations.

(** Validation is a total function: structural recursion over the opcode list, no fuel. *)
Theorem validate_total :
  forall c ops, {h | validate_func c ops = Some h} + {validate_func c ops = None}.
Proof. intros c ops. destruct (validate_func c ops) as [h|]; [left; exists h; reflexivity|right; reflexivity]. Qed.
Print Assumptions validate_total.

(** Soundness of the validation algorithm (operand stack with unknown types, control frames):
    an accepted function body that does not continue after the [end] closing the function is a
    well-nested expression, well typed by the specification's rules in the function's context. *)
Theorem validate_sound :
  forall c ops h,
    validate_func c ops = Some h -> ends_early c ops = false ->
    exists is, structure_body (map fst ops) = Some is /\ body_ok (tctx_of c) is.
Proof. exact validate_sound_thm. Qed.
Print Assumptions validate_sound.

(** The unguarded statement is false for the faithful model, as for the implementation
    (finding KF-C09-1): the body [end; nop] is accepted but is not an expression. *)
Theorem validate_sound_refuted :
  exists c ops h, validate_func c ops = Some h /\ structure_body (map fst ops) = None /\ ends_early c ops = true.
Proof. exact validate_sound_refuted_thm. Qed.
Print Assumptions validate_sound_refuted.

Example validate_sound_hypotheses_satisfiable :
  validate_func ex_ctx ex_body = Some 1%nat /\ ends_early ex_ctx ex_body = false.
Proof. exact validate_sound_nonvacuous. Qed.
Print Assumptions validate_sound_hypotheses_satisfiable.

(** Every memory instruction of an accepted body has at most the natural alignment. *)
Theorem validate_alignment_ok :
  forall c ops h, validate_func c ops = Some h -> forallb vop_align_ok ops = true.
Proof. exact validate_alignment. Qed.
Print Assumptions validate_alignment_ok.

(** Module level: every function of an accepted module has an existing type, at most
    ALLOWED_LOCALS locals, locals + maximal operand stack height within MAX_ALLOWED_STACK_HEIGHT,
    naturally aligned accesses, and (outside KF-C09-1) a well-typed body. *)
Theorem validate_module_sound :
  forall signext m, validate_module signext m = true ->
  forall f, In f (vm_funcs m) ->
  exists ft locals h,
    nth_error (vm_types m) (mf_type f) = Some ft /\
    make_locals (ft_params ft) (mf_locals f) = Some locals /\
    validate_func (func_ctx signext m ft locals) (mf_body f) = Some h /\
    (N.of_nat (length locals) + N.of_nat h <= MAX_ALLOWED_STACK_HEIGHT)%N /\
    forallb vop_align_ok (mf_body f) = true /\
    (ends_early (func_ctx signext m ft locals) (mf_body f) = false ->
     exists is, structure_body (map fst (mf_body f)) = Some is /\
                body_ok (tctx_of (func_ctx signext m ft locals)) is).
Proof. exact validate_module_sound_thm. Qed.
Print Assumptions validate_module_sound.

(** Accepted modules obey every limit of constants.rs (table and memory sizes, globals, exports,
    element and data segments inside the table / initial memory, locals and stack height). *)
Theorem validate_module_limits :
  forall signext m, validate_module signext m = true -> module_limits m.
Proof. exact validate_module_limits_thm. Qed.
Print Assumptions validate_module_limits.

(** The switch size limit is enforced on every accepted br_table. *)
Theorem validate_switch_size :
  forall c s ls d al s', vstep_basic c s (BBrTable ls d) al = Some s' ->
    (N.of_nat (length ls) <= MAX_SWITCH_SIZE)%N.
Proof. exact switch_size_checked. Qed.
Print Assumptions validate_switch_size.

(** The generated constants are consistent with the interpreter's representation choices. *)
Theorem limits_consistency :
  (MAX_NUM_GLOBALS <= 2 ^ 16 /\ MAX_SWITCH_SIZE < 2 ^ 16 /\
   MAX_INIT_MEMORY_SIZE <= MAX_NUM_PAGES /\ MAX_NUM_PAGES * PAGE_SIZE < 2 ^ 32 /\
   MAX_INIT_MEMORY_SIZE * PAGE_SIZE <= u32_max /\ PAGE_SIZE = page_size /\
   ALLOWED_LOCALS <= MAX_ALLOWED_STACK_HEIGHT /\ MAX_NUM_PAGES <= 65536)%N.
Proof. exact limits_consistent. Qed.
Print Assumptions limits_consistency.

(** LEB128 readers: round trip of the canonical encodings, bounded consumption (decoding is a
    total function reading at most 5 / 10 bytes), range of 32-bit values. *)
Theorem leb_u32_roundtrip :
  forall n rest, (n < 2 ^ 32)%N -> decode_u32 (uenc 5 n ++ rest) = Some (n, rest).
Proof. exact leb_u32_roundtrip_thm. Qed.
Print Assumptions leb_u32_roundtrip.
Theorem leb_u64_roundtrip :
  forall n rest, (n < 2 ^ 64)%N -> decode_u64 (uenc 10 n ++ rest) = Some (n, rest).
Proof. exact leb_u64_roundtrip_thm. Qed.
Print Assumptions leb_u64_roundtrip.
Theorem leb_decode_u32_bounded :
  forall bs v r, decode_u32 bs = Some (v, r) ->
    (v < 2 ^ 32)%N /\ exists pre, bs = pre ++ r /\ (1 <= length pre <= 5)%nat.
Proof. exact decode_u32_bounded. Qed.
Print Assumptions leb_decode_u32_bounded.
Theorem leb_decode_u64_bounded :
  forall bs v r, decode_u64 bs = Some (v, r) -> exists pre, bs = pre ++ r /\ (1 <= length pre <= 10)%nat.
Proof. exact decode_u64_bounded. Qed.
Print Assumptions leb_decode_u64_bounded.
Theorem leb_decode_s32_bounded :
  forall bs v r, decode_s32 bs = Some (v, r) ->
    (- 2 ^ 31 <= v < 2 ^ 31)%Z /\ exists pre, bs = pre ++ r /\ (1 <= length pre <= 5)%nat.
Proof. exact decode_s32_bounded. Qed.
Print Assumptions leb_decode_s32_bounded.
Theorem leb_decode_s64_bounded :
  forall bs v r, decode_s64 bs = Some (v, r) -> exists pre, bs = pre ++ r /\ (1 <= length pre <= 10)%nat.
Proof. exact decode_s64_bounded. Qed.
Print Assumptions leb_decode_s64_bounded.
(** a sixth byte is never accepted for a 32-bit value *)
Theorem leb_u32_too_long :
  forall b1 b2 b3 b4 b5 r, (128 <= b1 -> 128 <= b2 -> 128 <= b3 -> 128 <= b4 -> 128 <= b5 ->
    decode_u32 (b1 :: b2 :: b3 :: b4 :: b5 :: r) = None)%N.
Proof. exact leb_u32_too_long_thm. Qed.
Print Assumptions leb_u32_too_long.
