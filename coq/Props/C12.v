(** C12 — property theorems only.  Each is closed by [exact], pinned by [Check], and
    followed by [Print Assumptions]. *)
From Coq Require Import NArith List.
From CB Require Import Crypto.Chunks Crypto.ChunksProofs.
Import ListNotations.
Local Open Scope N_scope.

Theorem chunks_roundtrip : forall s x,
  In s chunk_sizes -> s < 64 -> x < W64 ->
  exists cs, u64_to_chunks_checked s x = Some cs
    /\ length cs = num_chunks s
    /\ Forall (fun c => c <= mask s) cs
    /\ chunks_to_u64_checked s cs = Some x.
Proof. exact chunks_roundtrip_checked. Qed.
Print Assumptions chunks_roundtrip.

Theorem chunks_roundtrip_release : forall s x,
  In s chunk_sizes -> x < W64 ->
  chunks_to_u64_wrapping s (u64_to_chunks_wrapping s x) = x.
Proof. exact chunks_roundtrip_wrapping. Qed.
Print Assumptions chunks_roundtrip_release.

Theorem chunks_to_u64_no_overflow : forall s xs f out,
  0 < s -> Forall (fun c => c < 2 ^ s) xs -> f + N.of_nat (length xs) * s <= 64 -> out < 2 ^ f ->
  from_chunks_checked s f out xs = Some (out + chunk_sum s f xs).
Proof. exact from_checked_sum. Qed.
Print Assumptions chunks_to_u64_no_overflow.

Theorem aggregate_chunkwise_sum : forall s a b f, length a = length b ->
  chunk_sum s f (zip_add a b) = chunk_sum s f a + chunk_sum s f b.
Proof. exact chunk_sum_zip_add. Qed.
Print Assumptions aggregate_chunkwise_sum.

Example chunks_roundtrip_nonvacuous :
  In 32 chunk_sizes /\ 32 < 64 /\ 18446744073709551615 < W64
  /\ u64_to_chunks_checked 32 18446744073709551615 = Some [4294967295; 4294967295].
Proof. split; [vm_compute; tauto|]. split; [reflexivity|]. split; reflexivity. Qed.
Print Assumptions chunks_roundtrip_nonvacuous.

(** ElGamal in the exponent over ANY commutative ring of scalars [F] and ANY [F]-module [G]
    (the Section variables below are universally quantified once the section is closed;
    [Print Assumptions] lists them as section variables, not as axioms). *)
From Coq Require Import Ring.
From CB Require Import Crypto.ElGamalExp.
Section C12_ElGamal.
  Variable F : Type.
  Variables (f0 f1 : F) (fadd fmul fsub : F -> F -> F) (fopp : F -> F).
  Hypothesis Fring : ring_theory f0 f1 fadd fmul fsub fopp (@eq F).
  Variable G : Type.
  Variables (gzero : G) (gadd : G -> G -> G) (gopp : G -> G) (smul : F -> G -> G).
  Hypothesis gadd_assoc : forall a b c, gadd a (gadd b c) = gadd (gadd a b) c.
  Hypothesis gadd_comm : forall a b, gadd a b = gadd b a.
  Hypothesis gadd_0_l : forall a, gadd gzero a = a.
  Hypothesis gadd_opp : forall a, gadd a (gopp a) = gzero.
  Hypothesis smul_add_l : forall x y a, smul (fadd x y) a = gadd (smul x a) (smul y a).
  Hypothesis smul_add_r : forall x a b, smul x (gadd a b) = gadd (smul x a) (smul x b).
  Hypothesis smul_mul : forall x y a, smul (fmul x y) a = smul x (smul y a).
  Variables (g h : G).
  Variable bound : N.
  Variable dlog : G -> N.
  Hypothesis dlog_spec : forall x, x < bound -> dlog (smul (f_of_N F f0 f1 fadd fmul x) h) = x.
  Hypothesis bound_ge : 2 ^ 32 <= bound.

  Let enc := encrypt F G gadd smul g.
  Let dec := decrypt F G gadd gopp smul.
  Let pk := pk_of F G smul g.

  Theorem elgamal_encrypt_decrypt : forall sk m k, dec sk (enc (pk sk) m k) = m.
  Proof. intros; eapply encrypt_decrypt; eassumption. Qed.
  Print Assumptions elgamal_encrypt_decrypt.

  Theorem elgamal_aggregate_is_sum : forall sk x y k k',
    dec sk (combine G gadd (encrypt_exp F G gadd smul g h (pk sk) x k) (encrypt_exp F G gadd smul g h (pk sk) y k'))
    = smul (fadd x y) h.
  Proof. intros; eapply aggregate_sum; eassumption. Qed.
  Print Assumptions elgamal_aggregate_is_sum.

  Theorem amount_encrypt_decrypt : forall sk x klo khi, x < W64 ->
    exists e, encrypt_amount F f0 f1 fadd fmul G gadd smul g h (pk sk) x klo khi = Some e
           /\ decrypt_amount F G gadd gopp smul dlog sk e = Some x.
  Proof. intros; eapply encrypt_decrypt_amount; eassumption. Qed.
  Print Assumptions amount_encrypt_decrypt.
End C12_ElGamal.

Theorem transfer_exceeding_balance_impossible : forall s a, s < a -> transfer_plain s a = None.
Proof. exact transfer_none_if_exceeds. Qed.
Print Assumptions transfer_exceeding_balance_impossible.

Theorem transfer_conserves_value : forall s a, s < W64 -> a <= s ->
  exists r t, transfer_plain s a = Some (r, t)
    /\ chunks_to_u64_checked 32 r = Some (s - a)
    /\ chunks_to_u64_checked 32 t = Some a
    /\ s - a + a = s.
Proof. exact transfer_conserves. Qed.
Print Assumptions transfer_conserves_value.
