(** C12 — property theorems only.  Each is closed by [exact], pinned by [Check], and
    followed by [Print Assumptions]. *)
From Coq Require Import NArith List.
From CB Require Import Crypto.Chunks Crypto.ChunksProofs.
Import ListNotations.
Local Open Scope N_scope.

Theorem chunks_roundtrip : forall s x,
  In s chunk_sizes -> s < 64 -> x < W64 ->
  exists cs, u64_to_chunks_checked s x = Some cs
    /\ length cs = num_chunks s
    /\ Forall (fun c => c <= mask s) cs
    /\ chunks_to_u64_checked s cs = Some x.
Proof. exact chunks_roundtrip_checked. Qed.
Print Assumptions chunks_roundtrip.

Theorem chunks_roundtrip_release : forall s x,
  In s chunk_sizes -> x < W64 ->
  chunks_to_u64_wrapping s (u64_to_chunks_wrapping s x) = x.
Proof. exact chunks_roundtrip_wrapping. Qed.
Print Assumptions chunks_roundtrip_release.

Theorem chunks_to_u64_no_overflow : forall s xs f out,
  0 < s -> Forall (fun c => c < 2 ^ s) xs -> f + N.of_nat (length xs) * s <= 64 -> out < 2 ^ f ->
  from_chunks_checked s f out xs = Some (out + chunk_sum s f xs).
Proof. exact from_checked_sum. Qed.
Print Assumptions chunks_to_u64_no_overflow.

Theorem aggregate_chunkwise_sum : forall s a b f, length a = length b ->
  chunk_sum s f (zip_add a b) = chunk_sum s f a + chunk_sum s f b.
Proof. exact chunk_sum_zip_add. Qed.
Print Assumptions aggregate_chunkwise_sum.

Example chunks_roundtrip_nonvacuous :
  In 32 chunk_sizes /\ 32 < 64 /\ 18446744073709551615 < W64
  /\ u64_to_chunks_checked 32 18446744073709551615 = Some [4294967295; 4294967295].
Proof. split; [vm_compute; tauto|]. split; [reflexivity|]. split; reflexivity. Qed.
Print Assumptions chunks_roundtrip_nonvacuous.
