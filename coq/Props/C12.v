(** C12 — property theorems only.  Each is closed by [exact], pinned by [Check], and
    followed by [Print Assumptions]. *)
From Coq Require Import NArith List.
From CB Require Import Crypto.Chunks Crypto.ChunksProofs.
Import ListNotations.
Local Open Scope N_scope.

Theorem chunks_roundtrip : forall s x,
  In s chunk_sizes -> s < 64 -> x < W64 ->
  exists cs, u64_to_chunks_checked s x = Some cs
    /\ length cs = num_chunks s
    /\ Forall (fun c => c <= mask s) cs
    /\ chunks_to_u64_checked s cs = Some x.
Proof. exact chunks_roundtrip_checked. Qed.
Print Assumptions chunks_roundtrip.

Theorem chunks_roundtrip_release : forall s x,
  In s chunk_sizes -> x < W64 ->
  chunks_to_u64_wrapping s (u64_to_chunks_wrapping s x) = x.
Proof. exact chunks_roundtrip_wrapping. Qed.
Print Assumptions chunks_roundtrip_release.

Theorem chunks_to_u64_no_overflow : forall s xs f out,
  0 < s -> Forall (fun c => c < 2 ^ s) xs -> f + N.of_nat (length xs) * s <= 64 -> out < 2 ^ f ->
  from_chunks_checked s f out xs = Some (out + chunk_sum s f xs).
Proof. exact from_checked_sum. Qed.
Print Assumptions chunks_to_u64_no_overflow.

Theorem aggregate_chunkwise_sum : forall s a b f, length a = length b ->
  chunk_sum s f (zip_add a b) = chunk_sum s f a + chunk_sum s f b.
Proof. exact chunk_sum_zip_add. Qed.
Print Assumptions aggregate_chunkwise_sum.

Example chunks_roundtrip_nonvacuous :
  In 32 chunk_sizes /\ 32 < 64 /\ 18446744073709551615 < W64
  /\ u64_to_chunks_checked 32 18446744073709551615 = Some [4294967295; 4294967295].
Proof. split; [vm_compute; tauto|]. split; [reflexivity|]. split; reflexivity. Qed.
Print Assumptions chunks_roundtrip_nonvacuous.

(** ElGamal in the exponent over ANY commutative ring of scalars [F] and ANY [F]-module [G]
    (the Section variables below are universally quantified once the section is closed;
    [Print Assumptions] lists them as section variables, not as axioms). *)
From Coq Require Import Ring.
From CB Require Import Crypto.ElGamalExp.
Section C12_ElGamal.
  Variable F : Type.
  Variables (f0 f1 : F) (fadd fmul fsub : F -> F -> F) (fopp : F -> F).
  Hypothesis Fring : ring_theory f0 f1 fadd fmul fsub fopp (@eq F).
  Variable G : Type.
  Variables (gzero : G) (gadd : G -> G -> G) (gopp : G -> G) (smul : F -> G -> G).
  Hypothesis gadd_assoc : forall a b c, gadd a (gadd b c) = gadd (gadd a b) c.
  Hypothesis gadd_comm : forall a b, gadd a b = gadd b a.
  Hypothesis gadd_0_l : forall a, gadd gzero a = a.
  Hypothesis gadd_opp : forall a, gadd a (gopp a) = gzero.
  Hypothesis smul_add_l : forall x y a, smul (fadd x y) a = gadd (smul x a) (smul y a).
  Hypothesis smul_add_r : forall x a b, smul x (gadd a b) = gadd (smul x a) (smul x b).
  Hypothesis smul_mul : forall x y a, smul (fmul x y) a = smul x (smul y a).
  Variables (g h : G).
  Variable bound : N.
  Variable dlog : G -> N.
  Hypothesis dlog_spec : forall x, x < bound -> dlog (smul (f_of_N F f0 f1 fadd fmul x) h) = x.
  Hypothesis bound_ge : 2 ^ 32 <= bound.

  Let enc := encrypt F G gadd smul g.
  Let dec := decrypt F G gadd gopp smul.
  Let pk := pk_of F G smul g.

  Theorem elgamal_encrypt_decrypt : forall sk m k, dec sk (enc (pk sk) m k) = m.
  Proof. intros; eapply encrypt_decrypt; eassumption. Qed.
  Print Assumptions elgamal_encrypt_decrypt.

  Theorem elgamal_aggregate_is_sum : forall sk x y k k',
    dec sk (combine G gadd (encrypt_exp F G gadd smul g h (pk sk) x k) (encrypt_exp F G gadd smul g h (pk sk) y k'))
    = smul (fadd x y) h.
  Proof. intros; eapply aggregate_sum; eassumption. Qed.
  Print Assumptions elgamal_aggregate_is_sum.

  Theorem amount_encrypt_decrypt : forall sk x klo khi, x < W64 ->
    exists e, encrypt_amount F f0 f1 fadd fmul G gadd smul g h (pk sk) x klo khi = Some e
           /\ decrypt_amount F G gadd gopp smul dlog sk e = Some x.
  Proof. intros; eapply encrypt_decrypt_amount; eassumption. Qed.
  Print Assumptions amount_encrypt_decrypt.
End C12_ElGamal.

Theorem transfer_exceeding_balance_impossible : forall s a, s < a -> transfer_plain s a = None.
Proof. exact transfer_none_if_exceeds. Qed.
Print Assumptions transfer_exceeding_balance_impossible.

Theorem transfer_conserves_value : forall s a, s < W64 -> a <= s ->
  exists r t, transfer_plain s a = Some (r, t)
    /\ chunks_to_u64_checked 32 r = Some (s - a)
    /\ chunks_to_u64_checked 32 t = Some a
    /\ s - a + a = s.
Proof. exact transfer_conserves. Qed.
Print Assumptions transfer_conserves_value.

(** * Round 2: multi-limb scalars, the decryption table, completeness of transfers *)

(** ** value_to_chunks / chunks_to_value (elgamal/mod.rs) on scalars of [nl] u64 limbs, field order [r] *)
From CB Require Import Crypto.ValueChunks Crypto.ValueChunksProofs.

Theorem value_chunks_roundtrip : forall r nl s x,
  In s chunk_sizes -> s < 64 -> W64 <= r -> r <= 2 ^ (N.of_nat nl * 64) -> x < r ->
  exists cs, value_to_chunks_checked r nl s x = Some cs
    /\ length cs = (nl * num_chunks s)%nat
    /\ Forall (fun c => c < 2 ^ s) cs
    /\ chunks_to_value_checked r s cs = Some x.
Proof. exact value_chunks_roundtrip_checked. Qed.
Print Assumptions value_chunks_roundtrip.

Theorem value_chunks_roundtrip_release : forall r nl s x,
  In s chunk_sizes -> W64 <= r -> r <= 2 ^ (N.of_nat nl * 64) -> x < r ->
  exists cs, value_to_chunks_wrapping r nl s x = Some cs
    /\ length cs = (nl * num_chunks s)%nat
    /\ Forall (fun c => c < 2 ^ s) cs
    /\ chunks_to_value_wrapping r s cs = Some x.
Proof. exact value_chunks_roundtrip_wrapping. Qed.
Print Assumptions value_chunks_roundtrip_release.

(** the documented "does not ensure there is no overflow", as an explicit side condition: chunks
    below 2^size (any number of them) are summed exactly, modulo the field order *)
Theorem chunks_to_value_no_overflow : forall r s cs,
  r <> 0 -> In s chunk_sizes -> Forall (fun c => c < 2 ^ s) cs ->
  chunks_to_value_checked r s cs = Some (chunk_sum s 0 cs mod r)
  /\ chunks_to_value_wrapping r s cs = Some (chunk_sum s 0 cs mod r).
Proof. intros r s cs Hr Hs Hb. split; [exact (chunks_to_value_checked_sum r s cs Hr Hs Hb)|exact (chunks_to_value_wrapping_sum r s cs Hr Hs Hb)]. Qed.
Print Assumptions chunks_to_value_no_overflow.

(** ... and it is a genuine side condition *)
Example chunks_to_value_overflow_when_chunks_oversized :
  chunks_to_value_checked r_bls_N 32 [2 ^ 32; 2 ^ 32 - 1] = None
  /\ chunks_to_value_wrapping r_bls_N 32 [2 ^ 32; 2 ^ 32] = Some (2 ^ 32)
  /\ chunk_sum 32 0 [2 ^ 32; 2 ^ 32] mod r_bls_N = 2 ^ 32 + 2 ^ 64
  /\ chunks_to_value_checked r_bls_N 32 [2 ^ 64 + 5; 0] = Some 5.
Proof. exact chunks_to_value_overflow_examples. Qed.
Print Assumptions chunks_to_value_overflow_when_chunks_oversized.

Example value_chunks_roundtrip_nonvacuous :
  In 16 chunk_sizes /\ 16 < 64 /\ W64 <= r_bls_N /\ r_bls_N <= 2 ^ (N.of_nat 4 * 64) /\ r_bls_N - 1 < r_bls_N
  /\ (exists cs, value_to_chunks_checked r_bls_N 4 16 (r_bls_N - 1) = Some cs /\ length cs = 16%nat
                 /\ chunks_to_value_checked r_bls_N 16 cs = Some (r_bls_N - 1)).
Proof.
  split; [vm_compute; tauto|]. split; [reflexivity|]. split; [vm_compute; discriminate|].
  split; [vm_compute; discriminate|]. split; [reflexivity|].
  eexists. split; [vm_compute; reflexivity|]. split; vm_compute; reflexivity.
Qed.
Print Assumptions value_chunks_roundtrip_nonvacuous.

(** ** BabyStepGiantStep (elgamal/secret.rs) over any commutative group with decidable equality *)
From Coq Require Import Lia.
From CB Require Import Crypto.Bsgs Crypto.BsgsProofs Crypto.ElGamalBsgs.

Section C12_Bsgs.
  Variable G : Type.
  Variables (gzero : G) (gadd : G -> G -> G) (gopp : G -> G) (geqb : G -> G -> bool).
  Hypothesis gadd_assoc : forall a b c, gadd a (gadd b c) = gadd (gadd a b) c.
  Hypothesis gadd_comm : forall a b, gadd a b = gadd b a.
  Hypothesis gadd_0_l : forall a, gadd gzero a = a.
  Hypothesis gadd_opp : forall a, gadd a (gopp a) = gzero.
  Hypothesis geqb_spec : forall a b, geqb a b = true <-> a = b.
  Variable base : G.
  Variable bound : N.
  Hypothesis base_inj : forall a b, a < bound -> b < bound ->
    nmul G gzero gadd a base = nmul G gzero gadd b base -> a = b.

  (** every x below the bound: the table of size m finds x at giant step x/m, i.e. within x/m + 1
      lookups, as i*m + j without u64 overflow *)
  Theorem bsgs_discrete_log : forall m x fuel,
    0 < m -> m <= bound -> x < bound -> x < W64 -> (N.to_nat (x / m) < fuel)%nat ->
    discrete_log G gadd geqb fuel (bsgs_new G gzero gadd gopp base m) (nmul G gzero gadd x base) = DlFound x.
  Proof. intros m x fuel Hm Hle. eapply bsgs_discrete_log_correct; eassumption. Qed.
  Print Assumptions bsgs_discrete_log.

  Theorem bsgs_giant_steps_exact : forall m x fuel,
    0 < m -> m <= bound -> x < bound -> N.of_nat fuel <= x / m ->
    discrete_log G gadd geqb fuel (bsgs_new G gzero gadd gopp base m) (nmul G gzero gadd x base) = DlFuel.
  Proof. intros m x fuel Hm Hle. eapply bsgs_needs_steps; eassumption. Qed.
  Print Assumptions bsgs_giant_steps_exact.

  (** Serial / Deserial of a table of ANY size (in particular above the 2^16 preallocation cap of
      [deserial]): all m entries are read back, and a stream with fewer than m entries is refused *)
  Theorem bsgs_serial_roundtrip : forall m, 0 < m -> m <= bound ->
    bsgs_deserial G geqb (bsgs_serial G (bsgs_new G gzero gadd gopp base m)) = Some (bsgs_new G gzero gadd gopp base m).
  Proof. intros m Hm Hle. eapply bsgs_deserial_serial; eassumption. Qed.
  Print Assumptions bsgs_serial_roundtrip.

  Theorem bsgs_deserial_never_truncates : forall m (inv : G) (stream : list (G * N)),
    (length stream < N.to_nat m)%nat -> bsgs_deserial G geqb (m, inv, stream) = None.
  Proof. intros m inv stream Hl. eapply bsgs_deserial_short_stream with (bound := m); try eassumption; lia. Qed.
  Print Assumptions bsgs_deserial_never_truncates.
End C12_Bsgs.

Example bsgs_table_larger_than_order_refuted :
  let gadd := fun a b : N => (a + b) mod 5 in
  let gopp := fun a : N => (5 - a) mod 5 in
  discrete_log N gadd N.eqb 3 (bsgs_new N 0 gadd gopp 1 10) (nmul N 0 gadd 3 1) = DlFound 8.
Proof. exact bsgs_wrong_when_table_exceeds_order. Qed.
Print Assumptions bsgs_table_larger_than_order_refuted.

Example bsgs_nonvacuous :
  let gadd := fun a b : N => (a + b) mod 1009 in
  let gopp := fun a : N => (1009 - a) mod 1009 in
  discrete_log N gadd N.eqb 64 (bsgs_new N 0 gadd gopp 1 16) (nmul N 0 gadd 1000 1) = DlFound 1000
  /\ discrete_log N gadd N.eqb 62 (bsgs_new N 0 gadd gopp 1 16) (nmul N 0 gadd 1000 1) = DlFuel.
Proof. split; vm_compute; reflexivity. Qed.
Print Assumptions bsgs_nonvacuous.

(** decrypt_amount with the table algorithm in place of the abstract [dlog]: the only assumption
    left about the table is that x*h, x < ord, are pairwise distinct *)
Section C12_ElGamalBsgs.
  Variable F : Type.
  Variables (f0 f1 : F) (fadd fmul fsub : F -> F -> F) (fopp : F -> F).
  Hypothesis Fring : ring_theory f0 f1 fadd fmul fsub fopp (@eq F).
  Variable G : Type.
  Variables (gzero : G) (gadd : G -> G -> G) (gopp : G -> G) (smul : F -> G -> G) (geqb : G -> G -> bool).
  Hypothesis gadd_assoc : forall a b c, gadd a (gadd b c) = gadd (gadd a b) c.
  Hypothesis gadd_comm : forall a b, gadd a b = gadd b a.
  Hypothesis gadd_0_l : forall a, gadd gzero a = a.
  Hypothesis gadd_opp : forall a, gadd a (gopp a) = gzero.
  Hypothesis smul_add_l : forall x y a, smul (fadd x y) a = gadd (smul x a) (smul y a).
  Hypothesis smul_add_r : forall x a b, smul x (gadd a b) = gadd (smul x a) (smul x b).
  Hypothesis smul_mul : forall x y a, smul (fmul x y) a = smul x (smul y a).
  Hypothesis smul_1 : forall a, smul f1 a = a.
  Hypothesis geqb_spec : forall a b, geqb a b = true <-> a = b.
  Variables (g h : G).
  Variable ord : N.
  Hypothesis h_inj : forall a b, a < ord -> b < ord ->
    smul (f_of_N F f0 f1 fadd fmul a) h = smul (f_of_N F f0 f1 fadd fmul b) h -> a = b.
  Variable m : N.
  Variable fuel : nat.
  Hypothesis m_pos : 0 < m.
  Hypothesis m_le : m <= ord.

  Let table := bsgs_new G gzero gadd gopp h m.
  Let dlogf := bsgs_dlog G gadd geqb fuel table.
  Let pk := pk_of F G smul g.

  Theorem decrypt_amount_correct_with_bsgs :
    2 ^ 32 <= ord -> (N.to_nat ((2 ^ 32 - 1) / m) < fuel)%nat ->
    forall sk x klo khi, x < W64 ->
    exists e, encrypt_amount F f0 f1 fadd fmul G gadd smul g h (pk sk) x klo khi = Some e
           /\ decrypt_amount F G gadd gopp smul dlogf sk e = Some x.
  Proof. intros; eapply decrypt_amount_correct_with_bsgs_; eassumption. Qed.
  Print Assumptions decrypt_amount_correct_with_bsgs.

  (** aggregation decrypts to the sum, including a carry out of the low chunk, whenever the per-chunk
      sums (at most 2^33 - 2) stay inside the table range and the total is a u64 *)
  Theorem aggregate_decrypt_amount_with_bsgs :
    2 ^ 33 <= ord -> (N.to_nat ((2 ^ 33 - 1) / m) < fuel)%nat ->
    forall sk x y k1 k2 k3 k4, x + y < W64 ->
    exists ex ey, encrypt_amount F f0 f1 fadd fmul G gadd smul g h (pk sk) x k1 k2 = Some ex
      /\ encrypt_amount F f0 f1 fadd fmul G gadd smul g h (pk sk) y k3 k4 = Some ey
      /\ decrypt_amount F G gadd gopp smul dlogf sk (aggregate G gadd ex ey) = Some (x + y).
  Proof. intros; eapply aggregate_decrypt_amount_with_bsgs_; eassumption. Qed.
  Print Assumptions aggregate_decrypt_amount_with_bsgs.
End C12_ElGamalBsgs.

(** ** completeness of encrypted transfers and secret-to-public transfers: composition of C07
    (EncTrans sigma protocol + Fiat-Shamir) and C11 (range proof), for every field and module *)
From CB Require Import Crypto.Alg Crypto.Transcript Crypto.SigmaGeneric Crypto.SigmaCodec Crypto.Sigma_com_eq
  Crypto.Sigma_enc_trans Crypto.RangeProof Crypto.EncTransfer Crypto.EncTransferProofs Crypto.AlgF2.

Section C12_Transfer.
  Context {K : FieldOps} {KL : FieldLaws K} {M : ModOps K} {ML : ModLaws M} (Cd : CodecOps M).
  Variable H : bytes -> bytes.
  Variable sfb : bytes -> K.
  Variables (g h : M) (Gs Hs : list M).
  Local Open Scope G_scope.

  (** what the statement of [gen_enc_trans_proof_info] asserts about a witness (sk, (a_j, r_j), (s'_j, r'_j)) *)
  Theorem enc_trans_statement_meaning : forall pk_s pk_r (S : cipher) (A S' : list cipher) sk w1 w2,
    enc_trans_rel (gen_enc_trans_proof_info g h pk_s pk_r S A S') (sk, w1, w2)
    <-> (pk_s = sk *: g
         /\ Forall2 (fun c w => c = encrypt_exp g h pk_r (fst w) (snd w)) A w1
         /\ Forall2 (fun c w => c = encrypt_exp g h pk_s (fst w) (snd w)) S' w2
         /\ decrypt sk S = Fadd K (lin2 (map fst w1)) (lin2 (map fst w2)) *: h).
  Proof. exact (enc_trans_statement_meaning_ g h). Qed.
  Print Assumptions enc_trans_statement_meaning.

  Theorem transfer_complete : forall gc pk_r sk agg_enc s idx a rnd ch_a ch_s,
    (s < W64)%N -> (a <= s)%N ->
    decrypt sk (join agg_enc) = kofN s *: h ->
    List.length (tr_A rnd) = 2%nat -> List.length (tr_S rnd) = 2%nat -> sigma_rand_ok 2 2 (tr_sigma rnd) ->
    bp_rand_ok (tr_bp_a rnd) -> bp_rand_ok (tr_bp_s rnd) -> bp_chal_ok ch_a -> bp_chal_ok ch_s ->
    (64 <= List.length Gs)%nat -> (64 <= List.length Hs)%nat ->
    exists td a0 a1 r0 r1,
      make_transfer_data Cd H sfb g h Gs Hs gc pk_r sk agg_enc s idx a rnd ch_a ch_s = Some td
      /\ verify_transfer_data Cd H sfb g h Gs Hs gc pk_r (sk *: g) agg_enc td ch_a ch_s = true
      /\ td_index td = idx
      /\ (a0 + 2 ^ 32 * a1 = a)%N /\ (r0 + 2 ^ 32 * r1 = s - a)%N
      /\ enc_list (td_transfer td) = encrypt_chunks g h pk_r [a0; a1] (tr_A rnd)
      /\ enc_list (td_remaining td) = encrypt_chunks g h (sk *: g) [r0; r1] (tr_S rnd).
  Proof. exact (transfer_complete_ Cd H sfb g h Gs Hs). Qed.
  Print Assumptions transfer_complete.

  Theorem sec_to_pub_complete : forall gc sk agg_enc s idx a rnd ch_s,
    (s < W64)%N -> (a <= s)%N ->
    decrypt sk (join agg_enc) = kofN s *: h ->
    List.length (sr_S rnd) = 2%nat -> sigma_rand_ok 1 2 (sr_sigma rnd) ->
    bp_rand_ok (sr_bp_s rnd) -> bp_chal_ok ch_s ->
    (64 <= List.length Gs)%nat -> (64 <= List.length Hs)%nat ->
    exists sd r0 r1,
      make_sec_to_pub_transfer_data Cd H sfb g h Gs Hs gc sk agg_enc s idx a rnd ch_s = Some sd
      /\ verify_sec_to_pub_transfer_data Cd H sfb g h Gs Hs gc (sk *: g) agg_enc sd ch_s = true
      /\ sd_index sd = idx /\ sd_transfer_amount sd = a
      /\ (r0 + 2 ^ 32 * r1 = s - a)%N
      /\ enc_list (sd_remaining sd) = encrypt_chunks g h (sk *: g) [r0; r1] (sr_S rnd).
  Proof. exact (sec_to_pub_complete_ Cd H sfb g h Gs Hs). Qed.
  Print Assumptions sec_to_pub_complete.

  (** the remaining / transferred ciphertexts of the theorems above decrypt (in the exponent) to their chunks *)
  Theorem transfer_parts_decrypt : forall sk x k, decrypt sk (encrypt_exp g h (sk *: g) x k) = x *: h.
  Proof. exact (decrypt_encrypt_exp g h). Qed.
  Print Assumptions transfer_parts_decrypt.

  Theorem transfer_exceeding_balance_not_produced : forall gc pk_r sk agg_enc s idx a rnd ch_a ch_s rnd' ,
    (s < a)%N ->
    make_transfer_data Cd H sfb g h Gs Hs gc pk_r sk agg_enc s idx a rnd ch_a ch_s = None
    /\ make_sec_to_pub_transfer_data Cd H sfb g h Gs Hs gc sk agg_enc s idx a rnd' ch_s = None.
  Proof.
    intros. split; [apply transfer_none_if_exceeds_; assumption|apply sec_to_pub_none_if_exceeds_; assumption].
  Qed.
  Print Assumptions transfer_exceeding_balance_not_produced.
End C12_Transfer.

(** non-vacuity: every hypothesis of [transfer_complete] / [sec_to_pub_complete] is satisfiable
    (a lawful field and module exist: F2; all side conditions hold for concrete inputs) *)
Example transfer_complete_nonvacuous :
  let Cd := mkCodecOps F2 F2M (fun b : bool => [if b then 1 else 0]%N) (fun b : bool => [if b then 1 else 0]%N) 1 1 in
  let ones := repeat true 64 in
  let br := @mkBpRand F2 ones ones true false true false in
  let ch := @mkBpChal F2 true false true true (repeat true 6) in
  let rnd := @mkTR F2 [true; false] [false; true] (true, [(true, false); (false, true)], [(true, true); (false, false)]) br br in
  let agg : @enc_amount F2 F2M := ((false, true), (false, false)) in
  exists td, make_transfer_data (K:=F2) (M:=F2M) Cd (fun b => b) (fun _ => true) true true ones ones [] true true agg 5 0 3 rnd ch ch = Some td
    /\ verify_transfer_data (K:=F2) (M:=F2M) Cd (fun b => b) (fun _ => true) true true ones ones [] true (andb true true) agg td ch ch = true.
Proof.
  intros Cd ones br ch rnd agg.
  assert (Hch : bp_chal_ok ch).
  { split; [discriminate|]. split; [reflexivity|]. repeat constructor; discriminate. }
  destruct (@transfer_complete_ F2 F2_laws F2M F2M_laws Cd (fun b => b) (fun _ => true) true true ones ones
              [] true true agg 5 0 3 rnd ch ch) as (td & _ & _ & _ & _ & E1 & E2 & _);
    [reflexivity | discriminate | vm_compute; reflexivity | reflexivity | reflexivity | split; reflexivity
    | split; reflexivity | split; reflexivity | exact Hch | exact Hch | cbn; apply le_n | cbn; apply le_n | ].
  exists td. split; assumption.
Qed.
Print Assumptions transfer_complete_nonvacuous.

(** ** Round 4: every Fiat-Shamir challenge derived INSIDE the model from the modelled transcript
    ([EncTransferFS.v]): the sigma challenge and both range proofs' y, z, x, w, u_0..u_5, by prover and
    verifier separately, hash function [H] and [sfb] universally quantified.  The prover aborts exactly when a
    challenge it must invert is zero, which exhibits a byte string hashed to the zero scalar. *)
From CB Require Import Crypto.BpTranscript Crypto.EncTransferFS Crypto.EncTransferFSProofs.

Section C12_TransferFS.
  Context {K : FieldOps} {KL : FieldLaws K} {M : ModOps K} {ML : ModLaws M} (Cd : CodecOps M).
  Variable H : bytes -> bytes.
  Variable sfb : bytes -> K.
  Variables (g h : M) (Gs Hs : list M).
  Local Open Scope G_scope.

  (** for every hash function: either some explicit byte string is hashed to the zero scalar (the prover
      aborts, as the code does at [inverse()?]), or the transfer is produced, VERIFIES under the challenges the
      verifier derives from the transcript, carries the index, consists of the chunk-wise encryptions of
      amount / balance - amount, CONSERVES value (dec(remaining) + amount*h = dec(balance)), and its first
      challenge is the hash of the frame that starts with the transcript prefix binding gc, receiver key and
      sender key *)
  Theorem transfer_complete_fs : forall gc pk_r sk agg_enc s idx a rnd,
    (s < W64)%N -> (a <= s)%N ->
    decrypt sk (join agg_enc) = kofN s *: h ->
    List.length (tr_A rnd) = 2%nat -> List.length (tr_S rnd) = 2%nat -> sigma_rand_ok 2 2 (tr_sigma rnd) ->
    bp_rand_ok (tr_bp_a rnd) -> bp_rand_ok (tr_bp_s rnd) ->
    (64 <= List.length Gs)%nat -> (64 <= List.length Hs)%nat ->
    match make_transfer_data_fs Cd H sfb g h Gs Hs gc pk_r sk agg_enc s idx a rnd with
    | None => exists b : bytes, sfb (H b) = F0 K
    | Some td =>
        verify_transfer_data_fs Cd H sfb g h Gs Hs gc pk_r (sk *: g) agg_enc td = true
        /\ td_index td = idx
        /\ (exists a0 a1 r0 r1, (a0 + 2 ^ 32 * a1 = a)%N /\ (r0 + 2 ^ 32 * r1 = s - a)%N
             /\ enc_list (td_transfer td) = encrypt_chunks g h pk_r [a0; a1] (tr_A rnd)
             /\ enc_list (td_remaining td) = encrypt_chunks g h (sk *: g) [r0; r1] (tr_S rnd))
        /\ decrypt sk (join (td_remaining td)) + kofN a *: h = decrypt sk (join agg_enc)
        /\ (exists cm, fst (td_accounting td)
              = H (frame (enc_trans_proto Cd) Legacy (transfer_ctx Cd g gc pk_r (sk *: g))
                     (gen_enc_trans_proof_info g h (sk *: g) pk_r (join agg_enc)
                        (enc_list (td_transfer td)) (enc_list (td_remaining td))) cm))
    end.
  Proof. exact (transfer_complete_fs_ Cd H sfb g h Gs Hs). Qed.
  Print Assumptions transfer_complete_fs.

  Theorem transfer_complete_fs_nonzero : forall gc pk_r sk agg_enc s idx a rnd,
    (forall b, sfb (H b) <> F0 K) ->
    (s < W64)%N -> (a <= s)%N ->
    decrypt sk (join agg_enc) = kofN s *: h ->
    List.length (tr_A rnd) = 2%nat -> List.length (tr_S rnd) = 2%nat -> sigma_rand_ok 2 2 (tr_sigma rnd) ->
    bp_rand_ok (tr_bp_a rnd) -> bp_rand_ok (tr_bp_s rnd) ->
    (64 <= List.length Gs)%nat -> (64 <= List.length Hs)%nat ->
    exists td, make_transfer_data_fs Cd H sfb g h Gs Hs gc pk_r sk agg_enc s idx a rnd = Some td
      /\ verify_transfer_data_fs Cd H sfb g h Gs Hs gc pk_r (sk *: g) agg_enc td = true
      /\ decrypt sk (join (td_remaining td)) + kofN a *: h = decrypt sk (join agg_enc).
  Proof. exact (transfer_complete_fs_nonzero_ Cd H sfb g h Gs Hs). Qed.
  Print Assumptions transfer_complete_fs_nonzero.

  Theorem sec_to_pub_complete_fs : forall gc sk agg_enc s idx a rnd,
    (s < W64)%N -> (a <= s)%N ->
    decrypt sk (join agg_enc) = kofN s *: h ->
    List.length (sr_S rnd) = 2%nat -> sigma_rand_ok 1 2 (sr_sigma rnd) -> bp_rand_ok (sr_bp_s rnd) ->
    (64 <= List.length Gs)%nat -> (64 <= List.length Hs)%nat ->
    match make_sec_to_pub_transfer_data_fs Cd H sfb g h Gs Hs gc sk agg_enc s idx a rnd with
    | None => exists b : bytes, sfb (H b) = F0 K
    | Some sd =>
        verify_sec_to_pub_transfer_data_fs Cd H sfb g h Gs Hs gc (sk *: g) agg_enc sd = true
        /\ sd_index sd = idx /\ sd_transfer_amount sd = a
        /\ (exists r0 r1, (r0 + 2 ^ 32 * r1 = s - a)%N
             /\ enc_list (sd_remaining sd) = encrypt_chunks g h (sk *: g) [r0; r1] (sr_S rnd))
        /\ decrypt sk (join (sd_remaining sd)) + kofN (sd_transfer_amount sd) *: h = decrypt sk (join agg_enc)
    end.
  Proof. exact (sec_to_pub_complete_fs_ Cd H sfb g h Gs Hs). Qed.
  Print Assumptions sec_to_pub_complete_fs.

  (** the in-place prover IS the range prover of C11 run on the challenges the verifier derives from the
      finished proof (so C11's theorems about [range_prove] apply to it) *)
  Theorem bulletprove_fs_is_range_prove : forall st pk chunks ks r p c st',
    bulletprove_fs Cd H sfb g h Gs Hs st pk chunks ks r = Some (p, c, st') ->
    p = bulletprove h Gs Hs pk chunks ks r c
    /\ c = fs_chal Cd H sfb st (bp_pre Cd (commitments g h pk chunks ks)) p
    /\ st' = fs_after Cd st (bp_pre Cd (commitments g h pk chunks ks)) p
    /\ bp_chal_ok c.
  Proof. exact (bulletprove_fs_spec Cd H sfb g h Gs Hs). Qed.
  Print Assumptions bulletprove_fs_is_range_prove.

  Theorem transfer_fs_exceeding_balance_not_produced : forall gc pk_r sk agg_enc s idx a rnd rnd',
    (s < a)%N ->
    make_transfer_data_fs Cd H sfb g h Gs Hs gc pk_r sk agg_enc s idx a rnd = None
    /\ make_sec_to_pub_transfer_data_fs Cd H sfb g h Gs Hs gc sk agg_enc s idx a rnd' = None.
  Proof. exact (transfer_fs_none_if_exceeds_ Cd H sfb g h Gs Hs). Qed.
  Print Assumptions transfer_fs_exceeding_balance_not_produced.
End C12_TransferFS.

(** non-vacuity: on the lawful instance F2 with a hash that never yields zero every hypothesis of
    [transfer_complete_fs_nonzero] holds, so a transfer IS produced and verifies with derived challenges *)
Example transfer_complete_fs_nonvacuous :
  let Cd := mkCodecOps F2 F2M (fun b : bool => [if b then 1 else 0]%N) (fun b : bool => [if b then 1 else 0]%N) 1 1 in
  let ones := repeat true 64 in
  let br := @mkBpRand F2 ones ones true false true false in
  let rnd := @mkTR F2 [true; false] [false; true] (true, [(true, false); (false, true)], [(true, true); (false, false)]) br br in
  let agg : @enc_amount F2 F2M := ((false, true), (false, false)) in
  exists td, make_transfer_data_fs (K:=F2) (M:=F2M) Cd (fun b => b) (fun _ => true) true true ones ones [] true true agg 5 0 3 rnd = Some td
    /\ verify_transfer_data_fs (K:=F2) (M:=F2M) Cd (fun b => b) (fun _ => true) true true ones ones [] true (andb true true) agg td = true.
Proof.
  intros Cd ones br rnd agg.
  destruct (@transfer_complete_fs_nonzero_ F2 F2_laws F2M F2M_laws Cd (fun b => b) (fun _ => true) true true ones ones
              [] true true agg 5 0 3 rnd) as (td & E1 & E2 & _);
    [intros b; discriminate | reflexivity | discriminate | vm_compute; reflexivity | reflexivity | reflexivity | split; reflexivity
    | split; reflexivity | split; reflexivity | cbn; apply le_n | cbn; apply le_n | ].
  exists td. split; assumption.
Qed.
Print Assumptions transfer_complete_fs_nonvacuous.
