(** C04 - the state hash is canonical; persistence preserves contents and hash.
    Property theorems only: each is closed by [exact] and followed by [Print Assumptions].

    Models.  [Radix.v]: the functional radix tree (shared with C03).  [MerkleHash.v]: the
    hash of a frozen tree, with [sha256] an arbitrary function.  [Persist.v]: trees
    annotated with the bookkeeping of the implementation (origin kept / dropped, value
    borrowed / owned, location in the backing store), [freeze] with the collector, the
    node record format over the [Vec<u8>] backing store, [migrate], [serialize] /
    [deserialize].  The implementation is tied to these models by the differential
    correspondence of the check (design/C04.md). *)
From Coq Require Import NArith List Bool Sorted.
From CB Require Import Common.Codec.
From CB Require Import Trie.Radix.
From CB Require Import Trie.RadixProofs.
From CB Require Import Trie.PrefixMap.
From CB Require Import Trie.Locks.
From CB Require Import Trie.LocksProofs.
From CB Require Import Trie.Canon.
From CB Require Import Trie.CanonProofs.
From CB Require Import Trie.MerkleHash.
From CB Require Import Trie.MerkleHashProofs.
From CB Require Import Trie.HashHistory.
From CB Require Import Trie.Persist.
From CB Require Import Trie.PersistProofs.
From CB Require Import Trie.PersistFreezeProofs.
From CB Require Import Trie.SerializeProofs.
From CB Require Import Trie.Nibbles.
From CB Require Import Trie.MerkleStem.
From CB Require Import Trie.PersistReach.
From CB Require Import Trie.PersistReachProofs.
From CB Require Import Trie.CacheStatus.
From CB Require Import Trie.CacheStatusProofs.
Import ListNotations.
Local Open Scope N_scope.

(** ** The well-formed radix tree of a finite map is unique *)

(** Well-formed = children strictly sorted by label, no value-less node with fewer than two
    children (so every stem is maximal).  Two well-formed trees with the same contents
    ([to_list] = the entries in key order) are equal. *)
Theorem canonical_unique : forall (V : Type) (t1 t2 : tree V),
  wfb t1 = true -> wfb t2 = true -> to_list t1 = to_list t2 -> t1 = t2.
Proof. exact (@canonical_unique_tree). Qed.
Print Assumptions canonical_unique.

(** ... also for possibly empty states, and with "same contents" read as "same lookup
    function" (a finite map, no order involved). *)
Theorem canonical_unique_map : forall (V : Type) (r1 r2 : option (tree V)),
  wfb_root r1 = true -> wfb_root r2 = true ->
  (forall k, lookup_root k r1 = lookup_root k r2) -> r1 = r2.
Proof. exact (@canonical_unique_lookup). Qed.
Print Assumptions canonical_unique_map.

(** The stem of a well-formed node is the longest common prefix of the keys below it. *)
Theorem stem_is_longest_common_prefix : forall (V : Type) p (ov : option V) cs,
  wfb (Node p ov cs) = true -> lcp_keys (map fst (to_list (Node p ov cs))) = p.
Proof. exact (@lcp_keys_node). Qed.
Print Assumptions stem_is_longest_common_prefix.

(** Building from the entries in any order gives a well-formed tree ... *)
Theorem canon_wf : forall (V : Type) (m : list (list N * V)), wfb_root (canon m) = true.
Proof. exact (@wfb_canon). Qed.
Print Assumptions canon_wf.

(** ** The hash depends on the contents only *)

(** For every two histories of the C03 machine (insert / get / set / get_mut / delete /
    delete_prefix / iterators / new_generation / normalize (rollback) / freeze / thaw, in
    any order): if the current generations end with the same contents, they freeze to
    EQUAL trees, hence to equal hashes for EVERY function [sha256] (nothing is assumed
    about it). *)
Theorem hash_history_independent : forall ops1 ops2 : list op,
  final_contents ops1 = final_contents ops2 ->
  frozen (final_gen ops1) = frozen (final_gen ops2)
  /\ forall sha256 : list N -> list N,
       hash_root sha256 (frozen (final_gen ops1)) = hash_root sha256 (frozen (final_gen ops2)).
Proof.
  exact (fun ops1 ops2 E => conj (frozen_history_independent ops1 ops2 E)
                                 (fun sha => hash_history_independent_all sha ops1 ops2 E)).
Qed.
Print Assumptions hash_history_independent.

(** The frozen tree is the canonical tree of the contents: well-formed, and its entries
    are the contents (keys as nibble strings). *)
Theorem frozen_is_canonical : forall ops : list op,
  wfb_root (frozen (final_gen ops)) = true
  /\ to_list_root (frozen (final_gen ops))
     = map (fun kv => (nib (fst kv), dflt (snd kv))) (final_contents ops).
Proof. exact frozen_spec. Qed.
Print Assumptions frozen_is_canonical.

(** ** The hash is the documented construction *)

Theorem hash_is_documented_construction : forall (sha256 : list N -> list N),
  (forall p ov cs,
     hash_node sha256 (Node p ov cs) =
     sha256 ((match ov with Some v => 1 :: sha256 (be64 (lenN v) ++ v) | None => [0] end)
             ++ le64 (lenN p) ++ pack p
             ++ sha256 (be16 (N.of_nat (flen cs)) ++ hash_children sha256 cs)))
  /\ (forall c t r, hash_children sha256 (FCons c t r) = c :: hash_node sha256 t ++ hash_children sha256 r)
  /\ hash_children sha256 FNil = []
  /\ hash_root sha256 None = sha256 empty_state_tag
  /\ (forall r, eval sha256 (pre_root r) = hash_root sha256 r).
Proof.
  exact (fun sha => conj (hash_node_unfold sha) (conj (hash_children_unfold sha)
           (conj eq_refl (conj eq_refl (eval_pre_root sha))))).
Qed.
Print Assumptions hash_is_documented_construction.
Check hash_is_documented_construction : forall (sha256 : list N -> list N),
  (forall p ov cs,
     hash_node sha256 (Node p ov cs) =
     sha256 ((match ov with Some v => 1 :: sha256 (be64 (lenN v) ++ v) | None => [0] end)
             ++ le64 (lenN p) ++ pack p
             ++ sha256 (be16 (N.of_nat (flen cs)) ++ hash_children sha256 cs)))
  /\ (forall c t r, hash_children sha256 (FCons c t r) = c :: hash_node sha256 t ++ hash_children sha256 r)
  /\ hash_children sha256 FNil = []
  /\ hash_root sha256 None = sha256 empty_state_tag
  /\ (forall r, eval sha256 (pre_root r) = hash_root sha256 r).

(** The stem bytes determine the stem (given its length in nibbles, which is hashed too). *)
Theorem stem_packing_invertible : forall ns, nibbles_ok ns = true -> unpack (length ns) (pack ns) = ns.
Proof. exact unpack_pack. Qed.
Print Assumptions stem_packing_invertible.

(** On the stored representation of C03's [Nibbles.stem] (= [Stem { data, last_partial }]):
    for a well-formed stem the hashed stem bytes are literally [st_data] and the hashed
    length is [st_len] - the two components of [Stem::to_slice]. *)
Theorem hashed_stem_is_stored_stem : forall (sha256 : list N -> list N) (s : stem) ov cs,
  st_wf s = true ->
  MerkleHash.pack (nibbles s) = st_data s /\ lenN (nibbles s) = N.of_nat (st_len s)
  /\ hash_node sha256 (Node (nibbles s) ov cs) =
     sha256 (value_part sha256 ov ++ le64 (N.of_nat (st_len s)) ++ st_data s
             ++ sha256 (be16 (N.of_nat (flen cs)) ++ hash_children sha256 cs)).
Proof.
  exact (fun sha s ov cs H => conj (proj1 (MerkleStem.hashed_stem_is_stored_stem s H))
           (conj (proj2 (MerkleStem.hashed_stem_is_stored_stem s H)) (hash_node_stored_stem sha s ov cs H))).
Qed.
Print Assumptions hashed_stem_is_stored_stem.

(** ** The annotated operations of [Persist.v] are the radix-tree operations *)
Theorem persist_model_refines_radix :
  (forall r k v, erase (a_insert_root k v r) = insert_root k v (erase_root r))
  /\ (forall t k, option_map erase (a_delete k t) = delete k (erase t))
  /\ (forall t k, option_map erase (a_delete_prefix k t) = delete_prefix k (erase t))
  /\ (forall t k v, wfb (erase t) = true -> lookup k (erase t) <> None ->
        erase (a_setval k v t) = insert k v (erase t)).
Proof.
  exact (conj erase_insert_root (conj (proj1 erase_delete_mut) (conj (proj1 erase_delete_prefix_mut)
          (proj1 erase_setval_mut)))).
Qed.
Print Assumptions persist_model_refines_radix.

(** ** Freeze: contents kept, unchanged origins re-used, nothing charged for them *)

Theorem freeze_preserves_contents : forall r, erase_root (fst (freeze_root r)) = erase_root r.
Proof. exact freeze_root_contents. Qed.
Print Assumptions freeze_preserves_contents.

(** Freezing a thawed state on which no modifying operation ran returns the original tree
    and calls the collector with nothing. *)
Theorem refreeze_collects_nothing : forall r,
  freeze_root (thaw (fst (freeze_root r))) = (fst (freeze_root r), 0).
Proof. exact refreeze_nothing. Qed.
Print Assumptions refreeze_collects_nothing.

(** Stronger: inside any tree, a subtree none of whose nodes or values was touched is
    returned as it is ([changed = false]) and contributes 0 to the collected size. *)
Theorem untouched_subtree_reused : forall t, all_orig t = true -> freeze t = (false, t, 0).
Proof. exact (proj1 freeze_orig_mut). Qed.
Print Assumptions untouched_subtree_reused.

(** The collector counts exactly the new data: a node is paid for (tag + stem + 9 bytes per
    child) iff it is rebuilt, i.e. iff it or something below it lost its origin or holds
    an owned value - the nodes on the modified paths; a value is paid for (length + 32) iff
    it is owned (inserted or written since the thaw). *)
Theorem collector_counts_exactly_new_data :
  (forall t, fst (fst (freeze t)) = negb (all_orig t) /\ snd (freeze t) = charge_spec t)
  /\ (forall r, snd (freeze_root r) = match r with Some t => charge_spec t | None => 0 end).
Proof. exact (conj (proj1 freeze_charge_mut) freeze_root_charge). Qed.
Print Assumptions collector_counts_exactly_new_data.

(** Thaw a state that is consistent with the backing store, apply ANY sequence of insert /
    delete / delete_prefix / get_mut+write, freeze: the frozen state is consistent with the
    store again (re-used origins keep their references, rebuilt nodes and new values have
    none) ... *)
Theorem thaw_modify_freeze_consistent : forall (sha256 : list N -> list N) st (ops : list mop) r,
  consistent_root sha256 st r ->
  consistent_root sha256 st (fst (freeze_root (fold_left (fun x o => apply_mop o x) ops (thaw r)))).
Proof. exact thaw_modify_freeze_consistent_root. Qed.
Print Assumptions thaw_modify_freeze_consistent.

(** ... hence [store_update] after the modifications writes a top record that names the root,
    following the references loads the frozen tree with the right hashes, and the states
    that result are consistent again: the store / load / modify / store chain is closed. *)
Theorem modified_state_store_roundtrip : forall (sha256 : list N -> list N),
  (forall x, length (sha256 x) = 32%nat) ->
  forall st (ops : list mop) r t' st' kept loaded top,
  consistent_root sha256 st r ->
  fst (freeze_root (fold_left (fun x o => apply_mop o x) ops (thaw r))) = Some t' ->
  tree_ok t' -> bounded st ->
  store_update sha256 (Some t') st = (st', kept, loaded, top) -> s_next st' < 2 ^ 64 ->
  erase_root kept = Some (erase t') /\ erase_root loaded = Some (erase t')
  /\ (exists x, root_ref loaded = Some x /\ load_raw st' top = Some (1 :: be64 x)
                /\ loads sha256 st' x (erase t'))
  /\ bounded st'
  /\ (match kept with Some k => consistent sha256 st' k | None => False end)
  /\ (match loaded with Some l => consistent sha256 st' l | None => False end).
Proof. exact modified_state_stores. Qed.
Print Assumptions modified_state_store_roundtrip.

(** [cache] changes neither contents nor locations (on the located trees of [Persist.v] it is
    the identity; the Disk / Memory / Cached statuses are modelled in [CacheStatus.v], see
    "Storage status" below). *)
Theorem cache_is_identity : forall r, cache r = r.
Proof. exact (fun r => eq_refl). Qed.
Print Assumptions cache_is_identity.

(** ** Storage format *)

(** What [store_update_buf] writes for a node ([Hashed<Node>]: hash, tag byte with value
    bit and inline stem length or BE32 length, stem bytes, inline value or hash+reference,
    child count, nibble+reference per child) is read back by [Loadable for Hashed<Node>]. *)
Theorem node_record_roundtrip : forall r rest, rec_ok r -> dec_rec (enc_rec r ++ rest) = Some (r, rest).
Proof. exact dec_rec_enc. Qed.
Print Assumptions node_record_roundtrip.

(** [store_update] of a state that is consistent with the backing store ([consistent]: every
    node / long value that carries a reference really is at that reference - true for a state
    in memory, and re-established by this very theorem for the state kept in memory and for
    the state [load_from_location] returns, so it covers chains of store / load / store):
    the top record names the root record, following the references from it loads the same
    tree, and the hash stored with the root (and, since [loads] holds for every stored
    subtree, with every node) is the hash of the tree.  (That [freeze] after modifications
    of a stored state yields a consistent state again: [thaw_modify_freeze_consistent].) *)
Theorem store_load_roundtrip : forall (sha256 : list N -> list N),
  (forall x, length (sha256 x) = 32%nat) ->
  forall t st st' kept loaded top,
  store_update sha256 (Some t) st = (st', kept, loaded, top) ->
  tree_ok t -> bounded st -> consistent sha256 st t -> s_next st' < 2 ^ 64 ->
  erase_root kept = Some (erase t) /\ erase_root loaded = Some (erase t)
  /\ (exists x, root_ref loaded = Some x /\ load_raw st' top = Some (1 :: be64 x)
                /\ loads sha256 st' x (erase t))
  /\ bounded st'
  /\ (match kept with Some k => consistent sha256 st' k | None => False end)
  /\ (match loaded with Some l => consistent sha256 st' l | None => False end).
Proof. exact store_update_incremental. Qed.
Print Assumptions store_load_roundtrip.

Theorem in_memory_is_consistent : forall (sha256 : list N -> list N) st t,
  in_memory t = true -> consistent sha256 st t.
Proof. exact (fun sha st => proj1 (in_memory_consistent_mut sha st)). Qed.
Print Assumptions in_memory_is_consistent.

(** The record-level store and the bytes: in a store built by [store_raw] (records below
    2^64 bytes) the byte-level loader ([Loader::load_raw]: seek, BE64 length, slice) finds
    every record at its reference. *)
Theorem store_bytes_readable : forall st, built st ->
  forall r d, load_raw st r = Some d -> read_at (flatten st) r = Some d.
Proof. exact read_at_load. Qed.
Print Assumptions store_bytes_readable.

(** [migrate] writes the whole tree to the new store; the migrated state has the same
    contents, and loading it from the new store gives the same tree with the same hashes. *)
Theorem migrate_preserves : forall (sha256 : list N -> list N),
  (forall x, length (sha256 x) = 32%nat) ->
  forall r st' r',
  migrate sha256 r empty_store = (st', r') -> root_ok r -> s_next st' < 2 ^ 64 ->
  erase_root r' = erase_root r
  /\ match r' with
     | None => r = None
     | Some t' =>
         exists x, root_ref r' = Some x
         /\ forall fuel, (theight (erase t') <= fuel)%nat ->
              load_node fuel st' x = Some (erase t', hash_node sha256 (erase t'))
     end.
Proof. exact migrate_loads. Qed.
Print Assumptions migrate_preserves.

Theorem migrate_bytes_readable : forall (sha256 : list N -> list N) r st' r',
  migrate sha256 r empty_store = (st', r') -> s_next st' < 2 ^ 64 ->
  forall x d, load_raw st' x = Some d -> read_at (flatten st') x = Some d.
Proof. exact PersistProofs.migrate_bytes_readable. Qed.
Print Assumptions migrate_bytes_readable.

(** [deserialize (serialize t) = t]: the breadth-first record stream is read back and
    reassembled into exactly the serialised tree, nothing is left over, and the hash read
    for the root is the hash of the tree - so contents and hash are preserved.  (Side
    conditions: nibbles < 16, stems / values / node count below 2^32, as the format needs.) *)
Theorem serialize_deserialize_roundtrip : forall (sha256 : list N -> list N),
  (forall x, length (sha256 x) = 32%nat) ->
  (forall t, tok t -> N.of_nat (tsize t) < 2 ^ 32 ->
     deserialize (serialize sha256 (Some t)) = Some (Some (t, hash_node sha256 t), []))
  /\ deserialize (serialize sha256 None) = Some (None, []).
Proof.
  exact (fun sha len => conj (deserialize_serialize sha len) (deserialize_serialize_empty sha)).
Qed.
Print Assumptions serialize_deserialize_roundtrip.

(** ... and record by record: what [serialize] writes for a node is what the record reader
    of [deserialize] returns. *)
Theorem serialize_record_roundtrip : forall (sha256 : list N -> list N),
  (forall x, length (sha256 x) = 32%nat) ->
  forall back p ov cs rest,
  back < 2 ^ 32 -> path_ok p -> (match ov with Some v => lenN v < 2 ^ 32 | None => True end) ->
  dec_ser_record (ser_record sha256 back (Node p ov cs) ++ rest)
  = Some (mkD back (hash_node sha256 (Node p ov cs)) p (ser_value_dec sha256 ov) (flabels cs), rest).
Proof. exact dec_ser_record_enc. Qed.
Print Assumptions serialize_record_roundtrip.

(** ** Reachable states: the side conditions are derived from the operation history *)

(** The machine [c_step] (insert / delete / delete_prefix / lookup / get_mut+write / iterate /
    new_generation / normalize / freeze / store / load / cache / serialize / migrate, in any
    order) started in the empty state.  [reach sha B s]: [s] is the state after some list of
    operations in which every INSERTED key is a byte string of at most [B / 2] bytes and every
    written value is shorter than 2^32 bytes (the keys of delete / delete_prefix / lookups are
    arbitrary), every intermediate backing store staying below 2^64 bytes.
    With [B = 2^32 - 1] (the largest stem length [write_node_path_and_value_tag] can encode:
    it writes [stem_len as u32]) the bound on inserted keys is exactly [lenN k <= 2^31 - 1]. *)
Theorem key_bound_is_u32_stem : forall k,
  key_ok (2 ^ 32 - 1) k <-> (bytes_ok k = true /\ lenN k <= 2 ^ 31 - 1).
Proof. exact key_bound_exact. Qed.
Print Assumptions key_bound_is_u32_stem.

(** In every reachable state the persistent tree and the tree the current generation freezes to
    satisfy [tree_ok] (nibbles < 16, stems < 2^32) and [tok] (also values < 2^32), the store is
    [bounded] and the frozen state is [consistent] with it - the hypotheses of
    [store_load_roundtrip], [migrate_preserves], [serialize_deserialize_roundtrip]. *)
Theorem reachable_frozen_tree_ok : forall (sha256 : list N -> list N),
  (forall x, length (sha256 x) = 32%nat) ->
  forall s, reach sha256 (2 ^ 32 - 1) s ->
  root_ok (c_pers s) /\ root_ok (c_pers (settle s))
  /\ (forall t, c_pers (settle s) = Some t -> tok (erase t))
  /\ bounded (c_store s) /\ consistent_root sha256 (c_store (settle s)) (c_pers (settle s)).
Proof. exact (fun sha len => reach_tree_ok sha len (2 ^ 32 - 1) eq_refl). Qed.
Print Assumptions reachable_frozen_tree_ok.

(** [store_load_roundtrip] without [tree_ok] / [bounded] / [consistent]: for the frozen state
    of ANY reachable machine state. *)
Theorem store_load_roundtrip_reachable : forall (sha256 : list N -> list N),
  (forall x, length (sha256 x) = 32%nat) ->
  forall s t st' kept loaded top,
  reach sha256 (2 ^ 32 - 1) s -> c_pers (settle s) = Some t ->
  store_update sha256 (Some t) (c_store (settle s)) = (st', kept, loaded, top) -> s_next st' < 2 ^ 64 ->
  erase_root kept = Some (erase t) /\ erase_root loaded = Some (erase t)
  /\ (exists x, root_ref loaded = Some x /\ load_raw st' top = Some (1 :: be64 x)
                /\ loads sha256 st' x (erase t))
  /\ bounded st'
  /\ (match kept with Some k => consistent sha256 st' k | None => False end)
  /\ (match loaded with Some l => consistent sha256 st' l | None => False end).
Proof. exact (fun sha len => store_load_reachable sha len (2 ^ 32 - 1) eq_refl). Qed.
Print Assumptions store_load_roundtrip_reachable.

(** [serialize_deserialize_roundtrip] without [tok] (the node count below 2^32 stays: parent
    distances are BE32 - a resource bound like the store size, not a property of the keys). *)
Theorem serialize_deserialize_roundtrip_reachable : forall (sha256 : list N -> list N),
  (forall x, length (sha256 x) = 32%nat) ->
  forall s t, reach sha256 (2 ^ 32 - 1) s -> c_pers (settle s) = Some t ->
  N.of_nat (tsize (erase t)) < 2 ^ 32 ->
  deserialize (serialize sha256 (Some (erase t))) = Some (Some (erase t, hash_node sha256 (erase t)), []).
Proof. exact (fun sha len => serialize_reachable sha len (2 ^ 32 - 1) eq_refl). Qed.
Print Assumptions serialize_deserialize_roundtrip_reachable.

(** [migrate_preserves] without [root_ok]. *)
Theorem migrate_preserves_reachable : forall (sha256 : list N -> list N),
  (forall x, length (sha256 x) = 32%nat) ->
  forall s st' r', reach sha256 (2 ^ 32 - 1) s ->
  migrate sha256 (c_pers (settle s)) empty_store = (st', r') -> s_next st' < 2 ^ 64 ->
  erase_root r' = erase_root (c_pers (settle s))
  /\ match r' with
     | None => c_pers (settle s) = None
     | Some t' =>
         exists x, root_ref r' = Some x
         /\ forall fuel, (theight (erase t') <= fuel)%nat ->
              load_node fuel st' x = Some (erase t', hash_node sha256 (erase t'))
     end.
Proof. exact (fun sha len => migrate_reachable sha len (2 ^ 32 - 1) eq_refl). Qed.
Print Assumptions migrate_preserves_reachable.

(** ** Storage status: [CachedRef::{Disk, Memory, Cached}] as a state machine *)

(** The status trees of [CacheStatus.v] refine the located trees: every persistence step of
    the status machine ([store_update] keeping the state, [store_update] + reload, [cache],
    [migrate], [serialize] + [deserialize]) IS the step of the C04 machine [c_step] after
    forgetting the difference between Disk and Cached ([to_a]). *)
Theorem status_machine_refines : forall (sha256 : list N -> list N) o s,
  fst (c_step sha256 (cop_of o) (mkC (ss_store s) (to_a_root (ss_root s)) None))
  = mkC (ss_store (s_step sha256 o s)) (to_a_root (ss_root (s_step sha256 o s))) None.
Proof. exact s_step_refines. Qed.
Print Assumptions status_machine_refines.

(** Caching the whole state ([PersistentState::cache]: Disk -> Cached everywhere) and one
    [load_and_cache] of a link change neither the contents, nor any location, nor the hash;
    references that were valid stay valid; after [cache] nothing is Disk. *)
Theorem cache_and_load_preserve : forall (sha256 : list N -> list N) st t,
  (to_a (s_cache t) = to_a t
   /\ erase (to_a (s_cache t)) = erase (to_a t)
   /\ hash_node sha256 (erase (to_a (s_cache t))) = hash_node sha256 (erase (to_a t))
   /\ (consistent sha256 st (to_a t) -> consistent sha256 st (to_a (s_cache t)))
   /\ no_disk (s_cache t) = true)
  /\ (to_a (s_load1 t) = to_a t
      /\ hash_node sha256 (erase (to_a (s_load1 t))) = hash_node sha256 (erase (to_a t))
      /\ (consistent sha256 st (to_a t) -> consistent sha256 st (to_a (s_load1 t)))).
Proof. exact (fun sha st t => conj (cache_preserves sha st t) (load1_preserves sha st t)). Qed.
Print Assumptions cache_and_load_preserve.

(** [good] ("below a link that has a reference nothing lives in memory only", the invariant
    the code relies on at low_level.rs 1649-1652) holds for every state purely in memory and
    is kept by every step of the status machine. *)
Theorem status_invariant : forall (sha256 : list N -> list N),
  (forall t, good (s_of_tree t) = true)
  /\ (forall o s, good_root (ss_root s) = true -> good_root (ss_root (s_step sha256 o s)) = true).
Proof. exact (fun sha => conj (proj1 good_of_tree_mut) (s_step_good sha)). Qed.
Print Assumptions status_invariant.

(** After [store_update]: in the state kept in memory every link below the root is Disk or
    Cached and no long value is Memory ([located_below]); the reloaded state is a Disk root;
    the census (what can be observed of the implementation) shows at most the root as
    Memory node. *)
Theorem store_update_settles_status : forall (sha256 : list N -> list N) t st st' k l top,
  good t = true -> s_store_update sha256 (Some t) st = (st', k, l, top) ->
  exists k0 l0, k = Some k0 /\ l = Some l0
    /\ located_below k0 = true /\ located l0 = true /\ good k0 = true /\ good l0 = true
    /\ n_mem (census k0) <= 1 /\ census l0 = mkCens 1 0 0 0 0 0 0.
Proof. exact store_update_settles. Qed.
Print Assumptions store_update_settles_status.

(** ... with valid references: both states are [consistent] with the new store (every node
    link / long value with a reference IS at that reference and loads the right subtree with
    the right hash) and have the stored contents. *)
Theorem store_update_references_valid : forall (sha256 : list N -> list N),
  (forall x, length (sha256 x) = 32%nat) ->
  forall t st st' k l top,
  s_store_update sha256 (Some t) st = (st', Some k, Some l, top) ->
  tree_ok (to_a t) -> bounded st -> consistent sha256 st (to_a t) -> s_next st' < 2 ^ 64 ->
  consistent sha256 st' (to_a k) /\ consistent sha256 st' (to_a l)
  /\ erase (to_a k) = erase (to_a t) /\ erase (to_a l) = erase (to_a t) /\ bounded st'.
Proof. exact store_update_valid. Qed.
Print Assumptions store_update_references_valid.

(** A second [store_update] writes nothing new: on a state with nothing in memory below the
    root (what [store_update] leaves) it appends the root record and the top record (Memory
    root), or the top record only (Disk / Cached root) - no child node, no value. *)
Theorem second_store_update_writes_nothing : forall (sha256 : list N -> list N) t st st2 k2 l2 top2,
  located_below t = true -> s_store_update sha256 (Some t) st = (st2, k2, l2, top2) ->
  (exists x body, s_recs st2 = (top2, 1 :: be64 x) :: (x, body) :: s_recs st)
  \/ (exists x, s_recs st2 = (top2, 1 :: be64 x) :: s_recs st).
Proof. exact second_store_writes_nothing. Qed.
Print Assumptions second_store_update_writes_nothing.

(** ** Non-vacuity *)

Definition toy_sha (l : list N) : list N := repeat (lenN l mod 251) 32.

(** two insertion orders (and an insert + delete of another key) of the same contents *)
Example same_contents_same_tree :
  let a := nib [18; 52] in let b := nib [18; 63] in let c := nib [18] in let d := nib [18; 52; 0] in
  let t1 := insert_root a [1] (Some (insert_root b [2] (Some (insert_root c [3] None)))) in
  let t2 := delete_root d (Some (insert_root c [3] (Some (insert_root d [9]
              (Some (insert_root b [2] (Some (insert_root a [1] None)))))))) in
  wfb t1 = true /\ Some t1 = t2 /\ to_list t1 = [(c, [3]); (a, [1]); (b, [2])]
  /\ hash_node toy_sha t1 = repeat 74 32.
Proof. vm_compute. repeat split. Qed.
Print Assumptions same_contents_same_tree.

(** histories with a rollback and a freeze/thaw cycle ending in the same contents *)
Example histories_with_equal_contents :
  let h1 := [OInsert [1; 2] [7]; OInsert [1] [8]; OFreeze] in
  let h2 := [OInsert [1] [0]; OThaw; ONewGen; ODelete [1]; ONormalize 0; OInsert [9] [9];
             OInsert [1; 2] [7]; ODelete [9]; OGet [1]; OSet 2 [8]] in
  final_contents h1 = final_contents h2 /\ final_contents h1 = [([1], Some [8]); ([1; 2], Some [7])]
  /\ frozen (final_gen h1) = frozen (final_gen h2).
Proof. vm_compute. repeat split. Qed.
Print Assumptions histories_with_equal_contents.

(** freeze charges the modified path only; a refreeze charges nothing *)
Example freeze_charges_the_path :
  let r0 := Some (a_insert_root (nib [171; 1]) [1] (Some (a_insert_root (nib [171; 2]) [2]
              (Some (a_insert_root (nib [16]) (repeat 7 65) None))))) in
  let '(r1, n1) := freeze_root r0 in
  let r2 := option_map (a_insert (nib [171; 1]) [5]) (thaw r1) in
  let '(r3, n3) := freeze_root r2 in
  let '(r4, n4) := freeze_root (thaw r3) in
  n1 = 207 /\ n3 = 74 /\ n4 = 0 /\ r4 = r3 /\ all_orig_root r3 = true.
Proof. vm_compute. repeat split. Qed.
Print Assumptions freeze_charges_the_path.

(** store + load, migrate, serialize + deserialize on a tree with an indirect value, an
    odd stem and a long stem (toy hash with 32-byte output) *)
Example persistence_roundtrips :
  let r0 := Some (a_insert_root (nib [171; 1]) [1] (Some (a_insert_root (nib [171; 2]) [2]
              (Some (a_insert_root (nib (repeat 16 40)) (repeat 7 65) None))))) in
  let r1 := fst (freeze_root r0) in
  let t := match erase_root r1 with Some t => t | None => Node [] None FNil end in
  let '(st, kept, loaded, top) := store_update toy_sha r1 empty_store in
  let '(st2, r2) := migrate toy_sha loaded empty_store in
  (match root_ref loaded with Some x => load_node 10 st x | None => None end) = Some (t, hash_node toy_sha t)
  /\ (match root_ref r2 with Some x => load_node 10 st2 x | None => None end) = Some (t, hash_node toy_sha t)
  /\ (match root_ref loaded with Some x => read_at (flatten st) x | None => None end)
     = (match root_ref loaded with Some x => load_raw st x | None => None end)
  /\ deserialize (serialize toy_sha (Some t)) = Some (Some (t, hash_node toy_sha t), [])
  /\ in_memory (match r1 with Some a => a | None => AN None [] None ANil end) = true
  /\ root_ok r1 /\ wfb t = true.
Proof. vm_compute. repeat split; try reflexivity; try discriminate. Qed.
Print Assumptions persistence_roundtrips.

(** a reachable state (insert, store, insert of a 40-byte key, delete, freeze) *)
Example reachable_state :
  let s := fst (c_step toy_sha CFreeze (fst (c_step toy_sha (CDelete [1])
             (fst (c_step toy_sha (CInsert (repeat 171 40) (repeat 9 70))
             (fst (c_step toy_sha CStore (fst (c_step toy_sha (CInsert [1; 2] [7]) c_init))))))))) in
  reach toy_sha (2 ^ 32 - 1) s /\ c_pers (settle s) <> None.
Proof.
  split; [|vm_compute; discriminate].
  repeat (apply reach_step; [| first [exact I | vm_compute; repeat split; discriminate] | vm_compute; reflexivity]).
  apply reach_init.
Qed.
Print Assumptions reachable_state.

(** the status machine: store, store again (root + top record only), cache, reload, ... *)
Example status_machine_run :
  good (s_of_tree status_run_tree) = true
  /\ map (fun x => cens_list (fst x))
        (s_run toy_sha_c [SoStore; SoStore; SoCache; SoLoad; SoCache; SoStore; SoMigrate; SoSerial]
               (mkS empty_store (Some (s_of_tree status_run_tree))))
     = [[2; 1; 0; 0; 0; 0; 0]; [2; 1; 0; 0; 0; 0; 0]; [0; 1; 3; 0; 0; 1; 2]; [1; 0; 0; 0; 0; 0; 0];
        [0; 0; 4; 0; 0; 1; 2]; [0; 0; 4; 0; 0; 1; 2]; [1; 0; 0; 0; 0; 0; 0]; [0; 4; 0; 0; 1; 0; 2]].
Proof. exact (conj eq_refl status_run). Qed.
Print Assumptions status_machine_run.
