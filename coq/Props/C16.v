(** C16 - property theorems only.  Each is closed by [exact] and followed by
    [Print Assumptions]. *)
From Coq Require Import NArith ZArith List Bool.
From CB Require Import Contract.Text Contract.TextProofs Contract.TimeProofs Contract.Names Contract.NamesProofs
  Contract.CheckedArith Contract.CheckedArithProofs
  Contract.CcCodec Contract.CcCodecProofs Contract.CcTypes Contract.CcTypesProofs
  Contract.Base58 Contract.Base58Proofs.
Import ListNotations.
Local Open Scope N_scope.

(** * Textual forms parse back to the value they were printed from (all u64 values) *)

Theorem amount_parse_print : forall m, m < Text.W64 -> parse_amount (print_amount m) = Ok m.
Proof. exact amount_parse_print_all. Qed.
Print Assumptions amount_parse_print.

Theorem duration_parse_print : forall m, m < Text.W64 -> parse_duration (print_duration m) = Ok m.
Proof. exact duration_parse_print_all. Qed.
Print Assumptions duration_parse_print.

Theorem contract_address_parse_print : forall i j, i < Text.W64 -> j < Text.W64 ->
  parse_contract_address (print_contract_address (i, j)) = Ok (i, j).
Proof. exact contract_address_parse_print_all. Qed.
Print Assumptions contract_address_parse_print.

(** every u64 number of milliseconds; after the repair of [Display for Timestamp] (F5) *)
Theorem timestamp_parse_print : forall ms, ms < Text.W64 -> parse_timestamp (print_timestamp ms) = Ok ms.
Proof. exact timestamp_parse_print_all. Qed.
Print Assumptions timestamp_parse_print.

(** the proleptic Gregorian calendar behind it: civil date of a day number and back, for every day *)
Theorem calendar_roundtrip : forall z y m d, civil_from_shifted z = (y, m, d) ->
  shifted_from_civil y m d = z /\ valid_date y m d = true
  /\ (z < 3652365 -> y <= 9999) /\ (719468 <= z -> 1600 <= y).
Proof. exact civil_roundtrip. Qed.
Print Assumptions calendar_roundtrip.

(** the printer before the repair ([timestamp_millis() as i64]) is refuted: kept so that a
    regression is understood (witness 2^64 - 1 prints as 1969-12-31T23:59:59.999+00:00) *)
Theorem timestamp_roundtrip_refuted_before_fix :
  exists ms, ms < Text.W64 /\ parse_timestamp (print_timestamp_prefix ms) <> Ok ms.
Proof. exact timestamp_prefix_roundtrip_refuted. Qed.
Print Assumptions timestamp_roundtrip_refuted_before_fix.

Theorem timestamp_before_fix_witnesses :
  parse_timestamp (print_timestamp_prefix 18446744073709551615) = Err TBeforeUnixEpoch
  /\ parse_timestamp (print_timestamp_prefix 253402300800000) = Err TParseError.
Proof. exact (conj (proj2 timestamp_prefix_refuted_max) timestamp_prefix_refuted_year10000). Qed.
Print Assumptions timestamp_before_fix_witnesses.

(** * AccountAddress: Base58Check with version byte 1; the checksum function (first four
      bytes of SHA-256 of SHA-256) is abstract: any function returning four bytes *)

Theorem account_address_parse_print : forall (H4 : list N -> list N),
  (forall p, length (H4 p) = 4%nat) -> (forall p, Forall (fun d => d < 256) (H4 p)) ->
  forall a, length a = 32%nat -> Forall (fun d => d < 256) a ->
  parse_account_address H4 (print_account_address H4 a) = Some a.
Proof. exact account_address_parse_print_all. Qed.
Print Assumptions account_address_parse_print.

(** the parser accepts exactly the printed strings (so: canonical text, and every string
    with a wrong checksum, version or length is rejected) *)
Theorem account_address_accepts_exactly_printed : forall (H4 : list N -> list N),
  (forall p, length (H4 p) = 4%nat) -> (forall p, Forall (fun d => d < 256) (H4 p)) ->
  forall s a, parse_account_address H4 s = Some a <->
              s = print_account_address H4 a /\ length a = 32%nat /\ Forall (fun d => d < 256) a.
Proof. exact account_address_accepts_iff. Qed.
Print Assumptions account_address_accepts_exactly_printed.

Theorem account_address_wrong_checksum_rejected : forall (H4 : list N -> list N),
  (forall p, length (H4 p) = 4%nat) -> (forall p, Forall (fun d => d < 256) (H4 p)) ->
  forall p ck, Forall (fun d => d < 256) p -> Forall (fun d => d < 256) ck -> length ck = 4%nat ->
  ck <> H4 p -> parse_account_address H4 (b58_encode (p ++ ck)) = None.
Proof. exact account_address_rejects_checksum. Qed.
Print Assumptions account_address_wrong_checksum_rejected.

Theorem account_address_wrong_version_rejected : forall (H4 : list N -> list N),
  (forall p, length (H4 p) = 4%nat) -> (forall p, Forall (fun d => d < 256) (H4 p)) ->
  forall v a, Forall (fun d => d < 256) (v :: a) -> v <> 1 ->
  parse_account_address H4 (b58_encode ((v :: a) ++ H4 (v :: a))) = None.
Proof. exact account_address_rejects_version. Qed.
Print Assumptions account_address_wrong_version_rejected.

Theorem account_address_wrong_length_rejected : forall (H4 : list N -> list N),
  (forall p, length (H4 p) = 4%nat) -> (forall p, Forall (fun d => d < 256) (H4 p)) ->
  forall a, Forall (fun d => d < 256) a -> length a <> 32%nat ->
  parse_account_address H4 (b58_encode ((1 :: a) ++ H4 (1 :: a))) = None.
Proof. exact account_address_rejects_length. Qed.
Print Assumptions account_address_wrong_length_rejected.

(** Base58 is a bijection between byte strings and strings over the alphabet *)
Theorem base58_decode_encode : forall bs, Forall (fun d => d < 256) bs -> b58_decode (b58_encode bs) = Some bs.
Proof. exact b58_decode_encode. Qed.
Print Assumptions base58_decode_encode.

Theorem base58_encode_decode : forall s raw, b58_decode s = Some raw ->
  b58_encode raw = s /\ Forall (fun d => d < 256) raw.
Proof. exact b58_encode_decode. Qed.
Print Assumptions base58_encode_decode.

Theorem radix_conversion_inverse : forall b1 b2 ds, 2 <= b1 -> 2 <= b2 -> Forall (fun d => d < b1) ds ->
  convert b2 b1 (convert b1 b2 ds) = ds.
Proof. exact convert_inverse. Qed.
Print Assumptions radix_conversion_inverse.

(** * Hexadecimal forms: hashes (hex::decode, both cases accepted) and keys / signatures *)
Theorem hash_parse_print : forall h, length h = 32%nat -> Forall (fun d => d < 256) h ->
  parse_hash (hex_print h) = Some h.
Proof. exact hash_parse_print_all. Qed.
Print Assumptions hash_parse_print.

Theorem hash_parse_upper_case : forall h, length h = 32%nat -> Forall (fun d => d < 256) h ->
  parse_hash (hex_print_upper h) = Some h.
Proof. exact hash_parse_print_upper. Qed.
Print Assumptions hash_parse_upper_case.

Theorem hash_parse_needs_64_characters : forall s h, parse_hash s = Some h -> length s = 64%nat /\ length h = 32%nat.
Proof. exact hash_parse_length. Qed.
Print Assumptions hash_parse_needs_64_characters.

Theorem key_parse_print : forall n k, length k = n -> Forall (fun d => d < 256) k ->
  parse_key n (hex_print k) = Some k.
Proof. exact key_parse_print_all. Qed.
Print Assumptions key_parse_print.

Theorem u64_parse_print : forall n, n < Text.W64 -> parse_u64 (print_dec n) = Some n.
Proof. exact parse_u64_print_dec. Qed.
Print Assumptions u64_parse_print.

(** * Validators accept exactly the documented grammar *)

Theorem validator_iff_grammar_contract_name : forall s,
  valid_contract_name s = true <->
  (exists rest, s = INIT_PREFIX ++ rest) /\ N.of_nat (length s) <= 100
  /\ Forall (fun c => 33 <= c <= 126 /\ c <> 46) s.
Proof. exact contract_name_iff_grammar. Qed.
Print Assumptions validator_iff_grammar_contract_name.

Theorem validator_iff_grammar_receive_name : forall s,
  valid_receive_name s = true <->
  In 46 s /\ N.of_nat (length s) <= 100 /\ Forall (fun c => 33 <= c <= 126) s.
Proof. exact receive_name_iff_grammar. Qed.
Print Assumptions validator_iff_grammar_receive_name.

Theorem validator_iff_grammar_entrypoint_name : forall s,
  valid_entrypoint_name s = true <->
  N.of_nat (length s) <= 99 /\ Forall (fun c => 33 <= c <= 126) s.
Proof. exact entrypoint_name_iff_grammar. Qed.
Print Assumptions validator_iff_grammar_entrypoint_name.

Theorem receive_name_construct_parts : forall c e,
  contract_name_grammar c ->
  split_dot (construct_receive_name c e) = (skipn 5 c, e).
Proof. exact construct_receive_name_parts. Qed.
Print Assumptions receive_name_construct_parts.

Theorem receive_name_construct_valid : forall c e,
  contract_name_grammar c -> entrypoint_name_grammar e ->
  N.of_nat (length c) + N.of_nat (length e) <= 104 ->
  receive_name_grammar (construct_receive_name c e).
Proof. exact construct_receive_name_valid. Qed.
Print Assumptions receive_name_construct_valid.

(** * Checked arithmetic is exact or reports overflow *)

Theorem checked_add_exact_or_none : forall x y z,
  checked_add x y = Some z <-> z = x + y /\ z < CheckedArith.W64.
Proof. exact checked_add_spec. Qed.
Print Assumptions checked_add_exact_or_none.

Theorem checked_add_none_iff_overflow : forall x y,
  checked_add x y = None <-> CheckedArith.W64 <= x + y.
Proof. exact checked_add_none. Qed.
Print Assumptions checked_add_none_iff_overflow.

Theorem checked_sub_exact_or_none : forall x y z,
  checked_sub x y = Some z <-> y <= x /\ z + y = x.
Proof. exact checked_sub_spec. Qed.
Print Assumptions checked_sub_exact_or_none.

Theorem checked_sub_none_iff_underflow : forall x y, checked_sub x y = None <-> x < y.
Proof. exact checked_sub_none. Qed.
Print Assumptions checked_sub_none_iff_underflow.

Theorem quotient_remainder_law : forall x d q r,
  quotient_remainder x d = Some (q, r) <-> d <> 0 /\ x = q * d + r /\ r < d.
Proof. exact CheckedArithProofs.quotient_remainder_law. Qed.
Print Assumptions quotient_remainder_law.

Theorem duration_between_law : forall t o, duration_between t o + N.min t o = N.max t o.
Proof. exact duration_between_spec. Qed.
Print Assumptions duration_between_law.

Theorem euro_cent_conversion_exact : forall num den cents v, den <> 0 ->
  num * cents / (den * 100) < CheckedArith.W64 ->
  convert_euro_cent_to_amount num den cents = Some v ->
  v * (den * 100) <= num * cents < (v + 1) * (den * 100).
Proof. exact convert_euro_cent_exact. Qed.
Print Assumptions euro_cent_conversion_exact.

(** the u128 intermediates of [convert_euro_cent_to_amount] cannot overflow: it never panics *)
Theorem euro_cent_intermediates_fit : forall num den cents,
  num < CheckedArith.W64 -> den < CheckedArith.W64 -> cents < CheckedArith.W64 ->
  num * cents < W128 /\ den * 100 < W128.
Proof. exact euro_cent_no_intermediate_overflow. Qed.
Print Assumptions euro_cent_intermediates_fit.

(** the result is the floor of the rational value exactly when that floor fits into 64 bits
    ([as u64] keeps the low 64 bits otherwise: the overflow is not reported - observation) *)
Theorem euro_cent_conversion_exact_iff : forall num den cents v, den <> 0 ->
  convert_euro_cent_to_amount num den cents = Some v ->
  (v = num * cents / (den * 100) <-> num * cents / (den * 100) < CheckedArith.W64).
Proof. exact euro_cent_exact_iff. Qed.
Print Assumptions euro_cent_conversion_exact_iff.

Theorem rational_floor_law : forall a b, b <> 0 -> (a / b) * b <= a < (a / b + 1) * b.
Proof. exact floor_law. Qed.
Print Assumptions rational_floor_law.

Theorem euro_cent_conversion_monotone : forall num den c1 c2 v1 v2, den <> 0 -> c1 <= c2 ->
  num * c2 / (den * 100) < CheckedArith.W64 ->
  convert_euro_cent_to_amount num den c1 = Some v1 -> convert_euro_cent_to_amount num den c2 = Some v2 ->
  v1 <= v2.
Proof. exact euro_cent_monotone_when_fits. Qed.
Print Assumptions euro_cent_conversion_monotone.

Theorem euro_cent_conversion_truncates_silently :
  convert_euro_cent_to_amount 200 1 9223372036854775807 = Some 18446744073709551614
  /\ convert_euro_cent_to_amount 200 1 9223372036854775808 = Some 0
  /\ 200 * 9223372036854775808 / (1 * 100) = CheckedArith.W64.
Proof. exact euro_cent_truncation_witness. Qed.
Print Assumptions euro_cent_conversion_truncates_silently.

(** [convert_amount_to_euro_cent] reports ([None] = overflow panic of the checked build) exactly
    when the u128 product [micro * 100 * denominator] does not fit (or the numerator is 0) *)
Theorem amount_to_euro_cent_none_iff_u128_overflow : forall num den micro,
  convert_amount_to_euro_cent num den micro = None <-> num = 0 \/ W128 <= micro * 100 * den.
Proof. exact amount_to_euro_cent_none_iff. Qed.
Print Assumptions amount_to_euro_cent_none_iff_u128_overflow.

(** a reported overflow is a real one: the true quotient then exceeds u64 *)
Theorem amount_to_euro_cent_reported_overflow_is_real : forall num den micro,
  num <> 0 -> num < CheckedArith.W64 -> W128 <= micro * 100 * den ->
  CheckedArith.W64 <= micro * 100 * den / num.
Proof. exact amount_to_euro_cent_none_sound. Qed.
Print Assumptions amount_to_euro_cent_reported_overflow_is_real.

Theorem amount_to_euro_cent_exact_iff_fits : forall num den micro v,
  convert_amount_to_euro_cent num den micro = Some v ->
  (v = micro * 100 * den / num <-> micro * 100 * den / num < CheckedArith.W64).
Proof. exact amount_to_euro_cent_exact_iff. Qed.
Print Assumptions amount_to_euro_cent_exact_iff_fits.

Theorem amount_to_euro_cent_monotone : forall num den m1 m2 v1 v2, m1 <= m2 ->
  m2 * 100 * den / num < CheckedArith.W64 ->
  convert_amount_to_euro_cent num den m1 = Some v1 -> convert_amount_to_euro_cent num den m2 = Some v2 ->
  v1 <= v2.
Proof. exact amount_to_euro_cent_monotone_when_fits. Qed.
Print Assumptions amount_to_euro_cent_monotone.

(** ... but an overflow of the 64-bit result below the u128 limit is truncated, not reported *)
Theorem amount_to_euro_cent_truncates_silently :
  convert_amount_to_euro_cent 1 1 9223372036854775808 = Some 0
  /\ 9223372036854775808 * 100 * 1 / 1 = 50 * CheckedArith.W64.
Proof. exact amount_to_euro_cent_truncation_witness. Qed.
Print Assumptions amount_to_euro_cent_truncates_silently.

(** * Binary encodings: round trip, canonicity, shrinking, bounded pre-allocation
      ([Laws K c] = [RT c /\ Canon c /\ Shrinks c /\ AllocOK K c]) *)

Theorem codec_laws_unsigned : forall k, Laws 4096 (c_uint k).
Proof. exact (laws_uint 4096). Qed.
Print Assumptions codec_laws_unsigned.

Theorem codec_laws_signed : forall k, (0 < k)%nat -> Laws 4096 (c_sint k).
Proof. exact (laws_sint 4096). Qed.
Print Assumptions codec_laws_signed.

Theorem codec_laws_bool : Laws 4096 c_bool.
Proof. exact (laws_bool 4096). Qed.
Print Assumptions codec_laws_bool.

Theorem bool_only_0_1 : forall b rest, 2 <= b -> dec c_bool (b :: rest) = None.
Proof. exact bool_rejects_other. Qed.
Print Assumptions bool_only_0_1.

Theorem codec_laws_pair : forall {A B} (ca : codec A) (cb : codec B),
  Laws 4096 ca -> Laws 4096 cb -> Laws 4096 (c_pair ca cb).
Proof. exact (fun A B => @laws_pair A B 4096). Qed.
Print Assumptions codec_laws_pair.

Theorem codec_laws_option : forall {A} (c : codec A), Laws 4096 c -> Laws 4096 (c_option c).
Proof. exact (fun A => @laws_option A 4096). Qed.
Print Assumptions codec_laws_option.

Theorem codec_laws_vec : forall {A} (c : codec A), Laws 4096 c -> NonEmpty c -> Laws 4096 (c_vec32 c).
Proof. exact (fun A c => @laws_vec32 A 4096 c (N.le_refl _)). Qed.
Print Assumptions codec_laws_vec.

Theorem codec_laws_string : Laws 4096 c_string.
Proof. exact (laws_string 4096 (N.le_refl _)). Qed.
Print Assumptions codec_laws_string.

Theorem codec_laws_bytes : forall n, Laws 4096 (c_bytes n).
Proof. exact (laws_bytes 4096). Qed.
Print Assumptions codec_laws_bytes.

Theorem codec_laws_ordered_set : forall k ck, Laws 4096 ck -> NonEmpty ck -> Laws 4096 (c_set_ordered (S k) ck).
Proof. exact (laws_set_ordered 4096). Qed.
Print Assumptions codec_laws_ordered_set.

Theorem codec_laws_ordered_map : forall {V} k ck (cv : codec V),
  Laws 4096 ck -> NonEmpty ck -> Laws 4096 cv -> Laws 4096 (c_map_ordered (S k) ck cv).
Proof. exact (fun V => @laws_map_ordered V 4096). Qed.
Print Assumptions codec_laws_ordered_map.

(** the standard [Deserial] of BTreeSet/BTreeMap/HashSet/HashMap: no canonicity *)
Theorem codec_laws_unordered_set : forall ck, Laws 4096 ck -> NonEmpty ck -> LawsNC 4096 (c_set32 ck).
Proof. exact (fun ck => laws_set32 4096 ck (N.le_refl _)). Qed.
Print Assumptions codec_laws_unordered_set.

Theorem codec_laws_unordered_map : forall {V} ck (cv : codec V),
  Laws 4096 ck -> NonEmpty ck -> Laws 4096 cv -> LawsNC 4096 (c_map32 ck cv).
Proof. exact (fun V ck cv => @laws_map32 V 4096 ck cv (N.le_refl _)). Qed.
Print Assumptions codec_laws_unordered_map.

Theorem unordered_decoder_rejects_duplicates : forall {A} (ltb : A -> A -> bool) cv bs xs r,
  dec (c_unordered ltb cv) bs = Some (xs, r) -> strict_sorted ltb xs = true.
Proof. exact (fun A => @unordered_sound A). Qed.
Print Assumptions unordered_decoder_rejects_duplicates.

(** ordered collections reject duplicate or unordered input *)
Theorem ordered_reject_set : forall k ck xs rest, RT ck -> NonEmpty ck ->
  N.of_nat (length xs) < 256 ^ N.of_nat k -> Forall (wf ck) xs ->
  strict_sorted N.ltb xs = false ->
  dec (c_set_ordered k ck) (le_bytes k (N.of_nat (length xs)) ++ enc_elems ck xs ++ rest) = None.
Proof. exact set_ordered_reject. Qed.
Print Assumptions ordered_reject_set.

Theorem ordered_reject_map : forall {V} k ck (cv : codec V) xs rest, RT ck -> NonEmpty ck -> RT cv ->
  N.of_nat (length xs) < 256 ^ N.of_nat k -> Forall (wf (c_pair ck cv)) xs ->
  strict_sorted key_ltb xs = false ->
  dec (c_map_ordered k ck cv) (le_bytes k (N.of_nat (length xs)) ++ enc_elems (c_pair ck cv) xs ++ rest) = None.
Proof. exact (fun V => @map_ordered_reject V). Qed.
Print Assumptions ordered_reject_map.

Theorem strict_sorted_is_strictly_ascending : forall xs, strict_sorted N.ltb xs = true <->
  (forall i, (S i < length xs)%nat -> nth i xs 0 < nth (S i) xs 0).
Proof. exact strict_sorted_spec. Qed.
Print Assumptions strict_sorted_is_strictly_ascending.

Theorem vector_reserve_bounded : forall n, rsv_std n <= MAX_PREALLOCATED_CAPACITY.
Proof. exact vec_reserve_le_max. Qed.
Print Assumptions vector_reserve_bounded.

(** chain types *)
Theorem codec_laws_address : Laws 4096 c_address.
Proof. exact (laws_address 4096). Qed.
Print Assumptions codec_laws_address.

Theorem address_unknown_tag_rejected : forall t r, 2 <= t -> dec c_address (t :: r) = None.
Proof. exact address_bad_tag. Qed.
Print Assumptions address_unknown_tag_rejected.

Theorem codec_laws_account_balance : Laws 4096 c_account_balance.
Proof. exact (laws_account_balance 4096). Qed.
Print Assumptions codec_laws_account_balance.

Theorem codec_laws_exchange_rates : Laws 4096 c_exchange_rates.
Proof. exact (laws_exchange_rates 4096). Qed.
Print Assumptions codec_laws_exchange_rates.

Theorem codec_laws_threshold : Laws 4096 c_threshold.
Proof. exact (laws_threshold 4096). Qed.
Print Assumptions codec_laws_threshold.

Theorem codec_laws_contract_name : Laws 4096 c_contract_name.
Proof. exact (laws_contract_name 4096 (N.le_refl _)). Qed.
Print Assumptions codec_laws_contract_name.

Theorem codec_laws_receive_name : Laws 4096 c_receive_name.
Proof. exact (laws_receive_name 4096 (N.le_refl _)). Qed.
Print Assumptions codec_laws_receive_name.

Theorem codec_laws_entrypoint_name : Laws 4096 c_entrypoint_name.
Proof. exact (laws_entrypoint_name 4096 (N.le_refl _)). Qed.
Print Assumptions codec_laws_entrypoint_name.

Theorem codec_laws_parameter : Laws 4096 c_parameter.
Proof. exact (laws_parameter 4096 (N.le_refl _)). Qed.
Print Assumptions codec_laws_parameter.

Theorem codec_laws_attribute_value : Laws 4096 c_attribute_value.
Proof. exact (laws_attribute_value 4096). Qed.
Print Assumptions codec_laws_attribute_value.

(** the policy decoder reserves the declared u16 count: bounded by 65535 slots *)
Theorem codec_laws_policy : Laws 65535 c_policy.
Proof. exact laws_policy. Qed.
Print Assumptions codec_laws_policy.

(** * Non-vacuity *)
Example amount_max_prints : print_amount 18446744073709551615
  = [49;56;52;52;54;55;52;52;48;55;51;55;48;57;46;53;53;49;54;49;53] /\ 18446744073709551615 < Text.W64.
Proof. split; reflexivity. Qed.
Print Assumptions amount_max_prints.

Example timestamp_examples :
  print_timestamp 951782400000 = [50;48;48;48;45;48;50;45;50;57;84;48;48;58;48;48;58;48;48;43;48;48;58;48;48]
  /\ print_timestamp 18446744073709551615 = print_dec 18446744073709551615
  /\ parse_timestamp [49;57;54;57;45;49;50;45;51;49;84;50;51;58;48;48;58;48;48;45;48;49;58;48;48] = Ok 0.
Proof. repeat split; vm_compute; reflexivity. Qed.
Print Assumptions timestamp_examples.

Example account_address_nonvacuous :
  let H4 := fun _ : list N => [30; 99; 119; 166] in      (* the real checksum of 01 || 0^32 *)
  print_account_address H4 (repeat 0 32)
    = [50;119;107;66;69;84;50;114;82;103;69;56;112;97;104;117;97;99;122;120;75;98;109;118;55;99;105;101;104;113;115;110;101;53;55;70;57;103;116;122;102;49;80;86;100;114;50;86;80;51]
  /\ parse_account_address H4 (print_account_address H4 (repeat 0 32)) = Some (repeat 0 32)
  /\ parse_account_address (fun _ => [30; 99; 119; 167]) (print_account_address H4 (repeat 0 32)) = None.
Proof. repeat split; vm_compute; reflexivity. Qed.
Print Assumptions account_address_nonvacuous.

Example ordered_reject_nonvacuous :
  strict_sorted N.ltb [1; 3; 2] = false /\ strict_sorted N.ltb [1; 2; 2] = false
  /\ dec (c_set_ordered 1 c_u8) [3; 1; 3; 2] = None /\ dec (c_set_ordered 1 c_u8) [3; 1; 2; 2] = None
  /\ dec (c_set_ordered 1 c_u8) [3; 1; 2; 3; 9] = Some ([1; 2; 3], [9]).
Proof. repeat split; reflexivity. Qed.
Print Assumptions ordered_reject_nonvacuous.

Example names_nonvacuous :
  valid_contract_name (INIT_PREFIX ++ [97]) = true /\ valid_contract_name (INIT_PREFIX ++ [97; 46]) = false
  /\ valid_receive_name [97; 46; 98] = true /\ valid_entrypoint_name [] = true.
Proof. repeat split; reflexivity. Qed.
Print Assumptions names_nonvacuous.
