(** C17 - property theorems (placeholder while the proofs are being written). *)
From Coq Require Import NArith List.
From CB Require Import Cbor.CborCore.
Import ListNotations.
Local Open Scope N_scope.

Example model_vector_map_order :
  encode (VMap false [(VText [107;101;121;50], VPos 0); (VPos 256, VPos 0); (VPos 1, VPos 0)])
  = [163; 1; 0; 25; 1; 0; 0; 100; 107; 101; 121; 50; 0].
Proof. reflexivity. Qed.
Print Assumptions model_vector_map_order.
