(** C17 - property theorems only.  Each is closed by [exact] and followed by [Print Assumptions].
    Model: Cbor/CborCore.v (RFC 8949 items as ciborium-ll + Decoder/Encoder + value::Value),
    Cbor/CborSchema.v (derive-generated codecs), Cbor/TokenSchemas.v, Cbor/TokenAmount.v. *)
From Coq Require Import NArith ZArith List Bool String.
From CB Require Import Cbor.CborCore Cbor.CborProofs Cbor.CborTotal Cbor.CborNorm
  Cbor.CborSchema Cbor.SchemaProofs Cbor.SchemaTyping Cbor.SchemaRoundtrip Cbor.TokenSchemas Cbor.TokenRoundtrip
  Cbor.TokenAmount Cbor.TokenAmountProofs Gen.CborSchemas Cbor.GenTie.
Import ListNotations.
Local Open Scope N_scope.

(** ** Generic data model *)

(** Every well-formed value (any nesting depth) decodes back to itself from the front of any
    input, the rest being left untouched. *)
Theorem cbor_value_roundtrip : forall v rest, value_wfb v = true ->
  exists a, decode_prefix (encode v ++ rest) = Ok v rest a.
Proof. exact decode_encode_prefix. Qed.
Print Assumptions cbor_value_roundtrip.

Theorem cbor_value_roundtrip_top : forall v, value_wfb v = true ->
  exists a, decode_top (encode v) = Ok v [] a.
Proof. exact decode_encode_top. Qed.
Print Assumptions cbor_value_roundtrip_top.

(** For an arbitrary Rust [Value] (maps in any order) the round trip yields the same value with
    every map in the deterministic order ([norm]); [norm] is the identity exactly on sorted values. *)
Theorem cbor_value_roundtrip_any_order : forall v, value_okb v = true ->
  exists a, decode_top (encode v) = Ok (norm v) [] a.
Proof. exact decode_encode_norm. Qed.
Print Assumptions cbor_value_roundtrip_any_order.

Theorem norm_fixes_sorted : forall v, value_okb v = true -> value_sortedb v = true -> norm v = v.
Proof. exact norm_sorted_id. Qed.
Print Assumptions norm_fixes_sorted.

(** Encoding is a function (deterministic by construction); it is injective and prefix-free. *)
Theorem cbor_encode_deterministic : forall v1 v2 r1 r2, value_wfb v1 = true -> value_wfb v2 = true ->
  encode v1 ++ r1 = encode v2 ++ r2 -> v1 = v2 /\ r1 = r2.
Proof. exact encode_prefix_free. Qed.
Print Assumptions cbor_encode_deterministic.

(** The order of map entries does not influence the bytes: a value and its normal form encode alike,
    hence decode . encode is idempotent on encodings (canonical re-encoding). *)
Theorem cbor_reencode_stable : forall v, encode (norm v) = encode v.
Proof. exact encode_norm. Qed.
Print Assumptions cbor_reencode_stable.

(** Heads are minimal: whatever head the decoder accepts for an argument [n], the encoder's head
    for [n] is not longer. *)
Theorem encode_shortest : forall info r n r' m, Forall (fun b => b < 256) r ->
  pull_arg info r = Some (Some n, r') -> (List.length (head m n) + List.length r' <= 1 + List.length r)%nat.
Proof. exact head_shortest. Qed.
Print Assumptions encode_shortest.

(** The decoder is not canonical: non-shortest heads and indefinite lengths are accepted. *)
Theorem decode_accepts_noncanonical_refuted :
  exists bs v, bs <> encode v /\ decode_top bs = Ok v [] 0 /\ decode_top (encode v) = Ok v [] 0.
Proof. exact noncanonical_witness. Qed.
Print Assumptions decode_accepts_noncanonical_refuted.

(** Decoding is total: the fuel (a function of the input length) never runs out. *)
Theorem cbor_decode_total : forall bs, decode_top bs <> OutOfFuel.
Proof. exact decode_top_total. Qed.
Print Assumptions cbor_decode_total.

(** Allocation is bounded linearly in the input length, on success and on every error path. *)
Theorem cbor_decode_alloc_bounded : forall bs, alloc_of (decode_top bs) <= 8256 * N.of_nat (List.length bs) + 4096.
Proof. exact decode_alloc_bounded. Qed.
Print Assumptions cbor_decode_alloc_bounded.

Theorem cbor_decode_alloc_consumed : forall bs v r a, decode_prefix bs = Ok v r a ->
  a + 32 <= 8256 * (N.of_nat (List.length bs) - N.of_nat (List.length r)).
Proof. exact decode_alloc_consumed. Qed.
Print Assumptions cbor_decode_alloc_consumed.

(** Trailing data is rejected. *)
Theorem decode_rejects_trailing : forall v b rest, value_wfb v = true ->
  exists a, decode_top (encode v ++ b :: rest) = Err a.
Proof. exact decode_trailing_rejected. Qed.
Print Assumptions decode_rejects_trailing.

Theorem decode_accepts_only_whole_input : forall bs v r a, decode_top bs = Ok v r a ->
  r = [] /\ decode_prefix bs = Ok v [] a.
Proof. exact decode_top_consumes_all. Qed.
Print Assumptions decode_accepts_only_whole_input.

(** ** Derive-generated codecs (all schemas) *)

(** Round trip for EVERY well-formed schema and every well-typed value, under both decoding options:
    [cbor_decode (cbor_encode x) = x].  ([schema_wfb]: distinct keys / variant names / tags, valid names, ...;
    [typedb]: [x] is a value of the type, embedded generic values and the catch-all map in deterministic order.) *)
Theorem schema_roundtrip : forall s x o, schema_wfb s = true -> typedb s x = true ->
  exists bs, encode_typed s x = Some bs /\ decode_typed s o bs = Some x.
Proof. exact typed_roundtrip. Qed.
Print Assumptions schema_roundtrip.

(** ... stated on items: the decoder applied to the normal form (maps in deterministic order) of what the
    encoder writes returns the value; this is where the entry sort of the map encoder is absorbed
    (the field-assignment loop is invariant under permutations of entries with distinct keys). *)
Theorem schema_roundtrip_item : forall s x o mk, schema_wfb s = true -> typedb s x = true ->
  exists v, senc s x = Some v /\ value_okb v = true /\ sdec o s mk (norm v) = Some x.
Proof. exact schema_roundtrip_norm. Qed.
Print Assumptions schema_roundtrip_item.

(** the schema terms of all protocol-level-token types are well-formed, so the theorem covers operations,
    events, reject reasons, module state, metadata and amounts *)
Theorem token_ops_roundtrip : forall name s x o, In (name, s) token_schemas -> typedb s x = true ->
  exists bs, encode_typed s x = Some bs /\ decode_typed s o bs = Some x.
Proof. exact token_types_roundtrip. Qed.
Print Assumptions token_ops_roundtrip.

(** the hand-written schema terms are the ones the translator regenerates from the Rust declarations
    (#[derive(CborSerialize, CborDeserialize)] with cbor(key, tag, map, tagged, transparent, other)) on every run *)
Theorem generated_schemas_match :
  map snd gen_schemas = map (fun p => schema_of (fst p)) gen_schemas
  /\ forallb (fun p => existsb (String.eqb (fst p)) (map fst gen_schemas)) token_schemas = true.
Proof. exact gen_tie. Qed.
Print Assumptions generated_schemas_match.

(** A missing mandatory field is an error. *)
Theorem missing_mandatory_field_rejected : forall o fields other i entries mk k s,
  In (k, s) fields -> null_of s = None ->
  (forall kx, In kx entries -> key_matches k (fst kx) = false) ->
  sdec o (SStruct fields other) mk (VMap i entries) = None.
Proof. exact struct_missing_mandatory. Qed.
Print Assumptions missing_mandatory_field_rejected.

(** An undeclared field is an error unless the type has a catch-all or the options say Ignore. *)
Theorem undeclared_field_rejected : forall fields i entries mk k x,
  In (k, x) entries -> (forall fk fs, In (fk, fs) fields -> key_matches fk k = false) ->
  sdec Fail (SStruct fields None) mk (VMap i entries) = None.
Proof. exact struct_unknown_key_fail. Qed.
Print Assumptions undeclared_field_rejected.

(** ... and with Ignore it has no influence on the result. *)
Theorem undeclared_field_ignored : forall fields i pre post mk k x,
  is_mapkey k = true -> (forall fk fs, In (fk, fs) fields -> key_matches fk k = false) ->
  sdec Ignore (SStruct fields None) mk (VMap i (pre ++ (k, x) :: post))
  = sdec Ignore (SStruct fields None) mk (VMap i (pre ++ post)).
Proof. exact struct_unknown_key_ignored. Qed.
Print Assumptions undeclared_field_ignored.

(** Unknown variants are preserved where the type is wrapped in CborMaybeKnown / CborUpward:
    decoding keeps the whole item and encoding writes it back. *)
Theorem maybe_known_preserves_unknown : forall o variants k x,
  (forall name s, In (name, s) variants -> list_eqb (bytes_of_string name) k = false) ->
  sdec o (SMaybeKnown (SEnumMap variants false)) false (VMap false [(VText k, x)])
    = Some (XUnknown (VMap false [(VText k, strip x)]))
  /\ senc (SMaybeKnown (SEnumMap variants false)) (XUnknown (VMap false [(VText k, strip x)]))
    = Some (VMap false [(VText k, strip x)]).
Proof. exact maybe_known_map_unknown. Qed.
Print Assumptions maybe_known_preserves_unknown.

Theorem maybe_known_preserves_unknown_tag : forall o variants untagged t x,
  (forall t' c s, In (t', c, s) variants -> (t' =? t) = false) ->
  sdec o (SMaybeKnown (SEnumTagged variants untagged false)) false (VTag t x)
    = Some (XUnknown (VTag t (strip x)))
  /\ senc (SMaybeKnown (SEnumTagged variants untagged false)) (XUnknown (VTag t (strip x)))
    = Some (VTag t (strip x)).
Proof. exact maybe_known_tag_unknown. Qed.
Print Assumptions maybe_known_preserves_unknown_tag.

(** without the wrapper an unknown variant is an error *)
Theorem unknown_variant_rejected : forall o variants k x,
  (forall name s, In (name, s) variants -> list_eqb (bytes_of_string name) k = false) ->
  sdec o (SEnumMap variants false) false (VMap false [(VText k, x)]) = None.
Proof. exact enum_map_unknown_rejected. Qed.
Print Assumptions unknown_variant_rejected.

(** ill-typed items are errors (scalars) *)
Theorem ill_typed_scalar_rejected : forall o mk v,
  (forall b, v <> VBool b) -> sdec o SBool mk v = None.
Proof. exact bool_ill_typed. Qed.
Print Assumptions ill_typed_scalar_rejected.

(** ** Token amounts *)

(** CBOR form: tag 4 [-decimals, value] decodes to exactly (value, decimals). *)
Theorem token_amount_cbor_roundtrip : forall o v d, v < W64 -> d < 256 ->
  decode_typed s_TokenAmount o (encode (VTag 4 (VArray false [amount_exponent d; VPos v])))
  = Some (XList [XZ (- Z.of_N d); XN v]).
Proof. exact amount_cbor_roundtrip. Qed.
Print Assumptions token_amount_cbor_roundtrip.

(** a decimal fraction whose exponent is positive or below -255 is not a token amount *)
Theorem token_amount_exponent_checked : forall o e m mk v,
  sdec o s_UnsignedDecimalFraction mk v = Some (XList [XZ e; XN m]) ->
  ((e < -255)%Z \/ (0 < e)%Z) -> sdec o s_TokenAmount mk v = None.
Proof. exact amount_exponent_rejected. Qed.
Print Assumptions token_amount_exponent_checked.

(** String form: Display's output parses back to the same amount (rust_decimal's maximal scale is 28;
    beyond it from_str rejects every string) ... *)
Theorem token_amount_display_roundtrip : forall a, amount_ok a = true -> amt_decimals a <= 28 ->
  from_str_exact (to_string a) (amt_decimals a) = Some a.
Proof. exact display_roundtrip. Qed.
Print Assumptions token_amount_display_roundtrip.

Theorem token_amount_display_beyond_scale : forall s d, 28 < d -> from_str_exact s d = None.
Proof. exact display_beyond_scale_rejected. Qed.
Print Assumptions token_amount_display_beyond_scale.

(** ... and an exact conversion from any string preserves the number it denotes
    ([same_number m sc v d] is m * 10^d = v * 10^sc), and is rejected otherwise. *)
Theorem token_amount_denotation : forall s d a neg m sc,
  parse_decimal s = Some (neg, m, sc) -> from_str_exact s d = Some a ->
  amt_decimals a = d /\ same_number m sc (amt_value a) d /\ (neg = false \/ m = 0).
Proof. exact from_str_exact_sound. Qed.
Print Assumptions token_amount_denotation.

Theorem token_amount_lossy_rejected : forall s d neg m sc,
  parse_decimal s = Some (neg, m, sc) -> d < sc -> m mod 10 ^ (sc - d) <> 0 -> from_str_exact s d = None.
Proof. exact from_str_exact_lossy. Qed.
Print Assumptions token_amount_lossy_rejected.

(** JSON form: the value string parses back to the value *)
Theorem token_amount_json_roundtrip : forall a, amount_ok a = true ->
  from_json (json_value a) (amt_decimals a) = Some a.
Proof. exact json_roundtrip. Qed.
Print Assumptions token_amount_json_roundtrip.

(** ** Non-vacuity *)
Example roundtrip_nonvacuous :
  value_wfb (VMap false [(VPos 1, VArray false [VText [195; 169]; VNeg 23]); (VText [97], VTag 4 (VFloat 2 15360))]) = true.
Proof. reflexivity. Qed.
Print Assumptions roundtrip_nonvacuous.

Example missing_field_nonvacuous :
  decode_typed s_TokenTransfer Fail (encode (VMap false [(VText (bytes_of_string "amount"), VTag 4 (VArray false [VNeg 2; VPos 5]))])) = None
  /\ null_of s_CborHolderAccount = None.
Proof. split; reflexivity. Qed.
Print Assumptions missing_field_nonvacuous.

Example unknown_operation_nonvacuous :
  decode_typed s_TokenOperations Fail (encode (VArray false [VMap false [(VText (bytes_of_string "freeze"), VMap false [])]]))
  = Some (XList [XUnknown (VMap false [(VText (bytes_of_string "freeze"), VMap false [])])]).
Proof. reflexivity. Qed.
Print Assumptions unknown_operation_nonvacuous.

Example schema_roundtrip_nonvacuous :
  schema_wfb s_TokenModuleState = true /\
  typedb s_TokenModuleState
    (XStruct [XSome (XText [84; 75]); XNone; XNone; XSome (XBool true); XNone; XNone; XNone; XNone]
             [(VText [97], VMap false [(VPos 1, VNull); (VPos 2, VArray false [])]); (VText [122; 122], VNeg 4)]) = true /\
  typedb s_TokenOperations
    (XList [XKnown (XVariant 7 (XStruct [] [])); XUnknown (VMap false [(VText [102], VPos 1)])]) = true.
Proof. repeat split; vm_compute; reflexivity. Qed.
Print Assumptions schema_roundtrip_nonvacuous.

Example amount_nonvacuous :
  from_str_exact (to_string {| amt_value := 12300; amt_decimals := 3 |}) 3 = Some {| amt_value := 12300; amt_decimals := 3 |}
  /\ from_str_exact [49; 46; 50; 51] 1 = None.
Proof. split; reflexivity. Qed.
Print Assumptions amount_nonvacuous.

(** Display output parses back exactly, on boundary amounts (sample, not a universal statement) *)
Example amount_display_roundtrip_samples :
  forallb (fun vd => let a := {| amt_value := fst vd; amt_decimals := snd vd |} in
                     match from_str_exact (to_string a) (snd vd) with
                     | Some b => (amt_value b =? fst vd) && (amt_decimals b =? snd vd)
                     | None => false
                     end)
    [(0, 0); (0, 28); (1, 28); (5, 1); (12300, 3); (18446744073709551615, 0); (18446744073709551615, 9);
     (18446744073709551615, 28); (10, 5); (999, 2); (1000, 3); (4294967296, 10)] = true.
Proof. vm_compute. reflexivity. Qed.
Print Assumptions amount_nonvacuous.
