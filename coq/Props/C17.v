(** C17 - property theorems only.  Each is closed by [exact] and followed by [Print Assumptions].
    Model: Cbor/CborCore.v (RFC 8949 items as ciborium-ll + Decoder/Encoder + value::Value),
    Cbor/CborSchema.v (derive-generated codecs), Cbor/TokenSchemas.v, Cbor/TokenAmount.v. *)
From Coq Require Import NArith ZArith List Bool String.
From CB Require Import Cbor.CborCore Cbor.CborProofs Cbor.CborTotal Cbor.CborNorm
  Cbor.CborSchema Cbor.SchemaProofs Cbor.SchemaTyping Cbor.SchemaRoundtrip Cbor.TokenSchemas Cbor.TokenRoundtrip
  Cbor.TokenAmount Cbor.TokenAmountProofs Gen.CborSchemas Cbor.GenTie
  Cbor.DecimalConv Cbor.DecimalConvProofs Cbor.AmountForms Cbor.Header Cbor.HeaderProofs Cbor.FloatBits Cbor.FloatProofs Cbor.FloatSingle Cbor.CborDepth.
Import ListNotations.
Local Open Scope N_scope.

(** ** Generic data model *)

(** Every well-formed value (any nesting depth) decodes back to itself from the front of any
    input, the rest being left untouched. *)
Theorem cbor_value_roundtrip : forall v rest, value_wfb v = true ->
  exists a, decode_prefix (encode v ++ rest) = Ok v rest a.
Proof. exact decode_encode_prefix. Qed.
Print Assumptions cbor_value_roundtrip.

Theorem cbor_value_roundtrip_top : forall v, value_wfb v = true ->
  exists a, decode_top (encode v) = Ok v [] a.
Proof. exact decode_encode_top. Qed.
Print Assumptions cbor_value_roundtrip_top.

(** For an arbitrary Rust [Value] (maps in any order) the round trip yields the same value with
    every map in the deterministic order ([norm]); [norm] is the identity exactly on sorted values. *)
Theorem cbor_value_roundtrip_any_order : forall v, value_okb v = true ->
  exists a, decode_top (encode v) = Ok (norm v) [] a.
Proof. exact decode_encode_norm. Qed.
Print Assumptions cbor_value_roundtrip_any_order.

Theorem norm_fixes_sorted : forall v, value_okb v = true -> value_sortedb v = true -> norm v = v.
Proof. exact norm_sorted_id. Qed.
Print Assumptions norm_fixes_sorted.

(** Encoding is a function (deterministic by construction); it is injective and prefix-free. *)
Theorem cbor_encode_deterministic : forall v1 v2 r1 r2, value_wfb v1 = true -> value_wfb v2 = true ->
  encode v1 ++ r1 = encode v2 ++ r2 -> v1 = v2 /\ r1 = r2.
Proof. exact encode_prefix_free. Qed.
Print Assumptions cbor_encode_deterministic.

(** The order of map entries does not influence the bytes: a value and its normal form encode alike,
    hence decode . encode is idempotent on encodings (canonical re-encoding). *)
Theorem cbor_reencode_stable : forall v, encode (norm v) = encode v.
Proof. exact encode_norm. Qed.
Print Assumptions cbor_reencode_stable.

(** Heads are minimal: whatever head the decoder accepts for an argument [n], the encoder's head
    for [n] is not longer. *)
Theorem encode_shortest : forall info r n r' m, Forall (fun b => b < 256) r ->
  pull_arg info r = Some (Some n, r') -> (List.length (head m n) + List.length r' <= 1 + List.length r)%nat.
Proof. exact head_shortest. Qed.
Print Assumptions encode_shortest.

(** The decoder is not canonical: non-shortest heads and indefinite lengths are accepted. *)
Theorem decode_accepts_noncanonical_refuted :
  exists bs v, bs <> encode v /\ decode_top bs = Ok v [] 0 /\ decode_top (encode v) = Ok v [] 0.
Proof. exact noncanonical_witness. Qed.
Print Assumptions decode_accepts_noncanonical_refuted.

(** Decoding is total: the fuel (a function of the input length) never runs out. *)
Theorem cbor_decode_total : forall bs, decode_top bs <> OutOfFuel.
Proof. exact decode_top_total. Qed.
Print Assumptions cbor_decode_total.

(** Allocation is bounded linearly in the input length, on success and on every error path. *)
Theorem cbor_decode_alloc_bounded : forall bs, alloc_of (decode_top bs) <= 8256 * N.of_nat (List.length bs) + 4096.
Proof. exact decode_alloc_bounded. Qed.
Print Assumptions cbor_decode_alloc_bounded.

Theorem cbor_decode_alloc_consumed : forall bs v r a, decode_prefix bs = Ok v r a ->
  a + 32 <= 8256 * (N.of_nat (List.length bs) - N.of_nat (List.length r)).
Proof. exact decode_alloc_consumed. Qed.
Print Assumptions cbor_decode_alloc_consumed.

(** Trailing data is rejected. *)
Theorem decode_rejects_trailing : forall v b rest, value_wfb v = true ->
  exists a, decode_top (encode v ++ b :: rest) = Err a.
Proof. exact decode_trailing_rejected. Qed.
Print Assumptions decode_rejects_trailing.

Theorem decode_accepts_only_whole_input : forall bs v r a, decode_top bs = Ok v r a ->
  r = [] /\ decode_prefix bs = Ok v [] a.
Proof. exact decode_top_consumes_all. Qed.
Print Assumptions decode_accepts_only_whole_input.

(** ** Derive-generated codecs (all schemas) *)

(** Round trip for EVERY well-formed schema and every well-typed value, under both decoding options:
    [cbor_decode (cbor_encode x) = x].  ([schema_wfb]: distinct keys / variant names / tags, valid names, ...;
    [typedb]: [x] is a value of the type, embedded generic values and the catch-all map in deterministic order.) *)
Theorem schema_roundtrip : forall s x o, schema_wfb s = true -> typedb s x = true ->
  exists bs, encode_typed s x = Some bs /\ decode_typed s o bs = Some x.
Proof. exact typed_roundtrip. Qed.
Print Assumptions schema_roundtrip.

(** ... stated on items: the decoder applied to the normal form (maps in deterministic order) of what the
    encoder writes returns the value; this is where the entry sort of the map encoder is absorbed
    (the field-assignment loop is invariant under permutations of entries with distinct keys). *)
Theorem schema_roundtrip_item : forall s x o mk, schema_wfb s = true -> typedb s x = true ->
  exists v, senc s x = Some v /\ value_okb v = true /\ sdec o s mk (norm v) = Some x.
Proof. exact schema_roundtrip_norm. Qed.
Print Assumptions schema_roundtrip_item.

(** the schema terms of all protocol-level-token types are well-formed, so the theorem covers operations,
    events, reject reasons, module state, metadata and amounts *)
Theorem token_ops_roundtrip : forall name s x o, In (name, s) token_schemas -> typedb s x = true ->
  exists bs, encode_typed s x = Some bs /\ decode_typed s o bs = Some x.
Proof. exact token_types_roundtrip. Qed.
Print Assumptions token_ops_roundtrip.

(** the hand-written schema terms are the ones the translator regenerates from the Rust declarations
    (#[derive(CborSerialize, CborDeserialize)] with cbor(key, tag, map, tagged, transparent, other)) on every run *)
Theorem generated_schemas_match :
  map snd gen_schemas = map (fun p => schema_of (fst p)) gen_schemas
  /\ forallb (fun p => existsb (String.eqb (fst p)) (map fst gen_schemas)) token_schemas = true.
Proof. exact gen_tie. Qed.
Print Assumptions generated_schemas_match.

(** A missing mandatory field is an error. *)
Theorem missing_mandatory_field_rejected : forall o fields other i entries mk k s,
  In (k, s) fields -> null_of s = None ->
  (forall kx, In kx entries -> key_matches k (fst kx) = false) ->
  sdec o (SStruct fields other) mk (VMap i entries) = None.
Proof. exact struct_missing_mandatory. Qed.
Print Assumptions missing_mandatory_field_rejected.

(** An undeclared field is an error unless the type has a catch-all or the options say Ignore. *)
Theorem undeclared_field_rejected : forall fields i entries mk k x,
  In (k, x) entries -> (forall fk fs, In (fk, fs) fields -> key_matches fk k = false) ->
  sdec Fail (SStruct fields None) mk (VMap i entries) = None.
Proof. exact struct_unknown_key_fail. Qed.
Print Assumptions undeclared_field_rejected.

(** ... and with Ignore it has no influence on the result. *)
Theorem undeclared_field_ignored : forall fields i pre post mk k x,
  is_mapkey k = true -> (forall fk fs, In (fk, fs) fields -> key_matches fk k = false) ->
  sdec Ignore (SStruct fields None) mk (VMap i (pre ++ (k, x) :: post))
  = sdec Ignore (SStruct fields None) mk (VMap i (pre ++ post)).
Proof. exact struct_unknown_key_ignored. Qed.
Print Assumptions undeclared_field_ignored.

(** Unknown variants are preserved where the type is wrapped in CborMaybeKnown / CborUpward:
    decoding keeps the whole item and encoding writes it back. *)
Theorem maybe_known_preserves_unknown : forall o variants k x,
  (forall name s, In (name, s) variants -> list_eqb (bytes_of_string name) k = false) ->
  sdec o (SMaybeKnown (SEnumMap variants false)) false (VMap false [(VText k, x)])
    = Some (XUnknown (VMap false [(VText k, strip x)]))
  /\ senc (SMaybeKnown (SEnumMap variants false)) (XUnknown (VMap false [(VText k, strip x)]))
    = Some (VMap false [(VText k, strip x)]).
Proof. exact maybe_known_map_unknown. Qed.
Print Assumptions maybe_known_preserves_unknown.

Theorem maybe_known_preserves_unknown_tag : forall o variants untagged t x,
  (forall t' c s, In (t', c, s) variants -> (t' =? t) = false) ->
  sdec o (SMaybeKnown (SEnumTagged variants untagged false)) false (VTag t x)
    = Some (XUnknown (VTag t (strip x)))
  /\ senc (SMaybeKnown (SEnumTagged variants untagged false)) (XUnknown (VTag t (strip x)))
    = Some (VTag t (strip x)).
Proof. exact maybe_known_tag_unknown. Qed.
Print Assumptions maybe_known_preserves_unknown_tag.

(** without the wrapper an unknown variant is an error *)
Theorem unknown_variant_rejected : forall o variants k x,
  (forall name s, In (name, s) variants -> list_eqb (bytes_of_string name) k = false) ->
  sdec o (SEnumMap variants false) false (VMap false [(VText k, x)]) = None.
Proof. exact enum_map_unknown_rejected. Qed.
Print Assumptions unknown_variant_rejected.

(** ill-typed items are errors (scalars) *)
Theorem ill_typed_scalar_rejected : forall o mk v,
  (forall b, v <> VBool b) -> sdec o SBool mk v = None.
Proof. exact bool_ill_typed. Qed.
Print Assumptions ill_typed_scalar_rejected.

(** ** Token amounts *)

(** CBOR form: tag 4 [-decimals, value] decodes to exactly (value, decimals). *)
Theorem token_amount_cbor_roundtrip : forall o v d, v < W64 -> d < 256 ->
  decode_typed s_TokenAmount o (encode (VTag 4 (VArray false [amount_exponent d; VPos v])))
  = Some (XList [XZ (- Z.of_N d); XN v]).
Proof. exact amount_cbor_roundtrip. Qed.
Print Assumptions token_amount_cbor_roundtrip.

(** a decimal fraction whose exponent is positive or below -255 is not a token amount *)
Theorem token_amount_exponent_checked : forall o e m mk v,
  sdec o s_UnsignedDecimalFraction mk v = Some (XList [XZ e; XN m]) ->
  ((e < -255)%Z \/ (0 < e)%Z) -> sdec o s_TokenAmount mk v = None.
Proof. exact amount_exponent_rejected. Qed.
Print Assumptions token_amount_exponent_checked.

(** String form: Display's output parses back to the same amount (rust_decimal's maximal scale is 28;
    beyond it from_str rejects every string) ... *)
Theorem token_amount_display_roundtrip : forall a, amount_ok a = true -> amt_decimals a <= 28 ->
  from_str_exact (to_string a) (amt_decimals a) = Some a.
Proof. exact display_roundtrip. Qed.
Print Assumptions token_amount_display_roundtrip.

Theorem token_amount_display_beyond_scale : forall s d, 28 < d -> from_str_exact s d = None.
Proof. exact display_beyond_scale_rejected. Qed.
Print Assumptions token_amount_display_beyond_scale.

(** ... and an exact conversion from any string preserves the number it denotes
    ([same_number m sc v d] is m * 10^d = v * 10^sc), and is rejected otherwise. *)
Theorem token_amount_denotation : forall s d a neg m sc,
  parse_decimal s = Some (neg, m, sc) -> from_str_exact s d = Some a ->
  amt_decimals a = d /\ same_number m sc (amt_value a) d /\ (neg = false \/ m = 0).
Proof. exact from_str_exact_sound. Qed.
Print Assumptions token_amount_denotation.

Theorem token_amount_lossy_rejected : forall s d neg m sc,
  parse_decimal s = Some (neg, m, sc) -> d < sc -> m mod 10 ^ (sc - d) <> 0 -> from_str_exact s d = None.
Proof. exact from_str_exact_lossy. Qed.
Print Assumptions token_amount_lossy_rejected.

(** JSON form: the value string parses back to the value *)
Theorem token_amount_json_roundtrip : forall a, amount_ok a = true ->
  from_json (json_value a) (amt_decimals a) = Some a.
Proof. exact json_roundtrip. Qed.
Print Assumptions token_amount_json_roundtrip.

(** ** Token amounts <-> rust_decimal::Decimal (try_from_rust_decimal / try_to_rust_decimal as coded,
       including the digit-by-digit rescale loops of rust_decimal), for ALL decimals *)

(** Exact: an accepted conversion preserves the number: m * 10^-scale = value * 10^-decimals, not negative *)
Theorem token_amount_decimal_exact_sound : forall x d a, decimal_ok x = true -> try_from_decimal x d Exact = COk a ->
  amt_decimals a = d /\ same_number (d_m x) (d_scale x) (amt_value a) d /\ (d_neg x = false \/ d_m x = 0).
Proof. exact conv_exact_sound. Qed.
Print Assumptions token_amount_decimal_exact_sound.

(** ... and every decimal whose number is v * 10^-d (v a u64, d <= 28, not negative) converts to exactly (v, d), under both rules *)
Theorem token_amount_decimal_exact_complete : forall x d v r, decimal_ok x = true -> d <= MAX_SCALE -> v <= U64MAX ->
  (d_neg x = false \/ d_m x = 0) -> same_number (d_m x) (d_scale x) v d ->
  try_from_decimal x d r = COk {| amt_value := v; amt_decimals := d |}.
Proof. exact conv_exact_complete. Qed.
Print Assumptions token_amount_decimal_exact_complete.

(** Exact rejects every decimal that needs rounding at the requested number of decimals *)
Theorem token_amount_decimal_rounding_rejected : forall x d, decimal_ok x = true -> d < d_scale x ->
  d_m x mod 10 ^ (d_scale x - d) <> 0 -> exists e, try_from_decimal x d Exact = CErr e.
Proof. exact conv_exact_rejects_rounding. Qed.
Print Assumptions token_amount_decimal_rounding_rejected.

(** AllowRounding = round half up on the magnitude (nearest, ties away from zero): full characterisation *)
Theorem token_amount_decimal_allow_rounding : forall x d, decimal_ok x = true -> d < d_scale x ->
  try_from_decimal x d AllowRounding =
  let q := round_half_up (d_m x) (10 ^ (d_scale x - d)) in
  if (d_neg x && negb (q =? 0)) || (U64MAX <? q) then CErr EValueOverflow
  else COk {| amt_value := q; amt_decimals := d |}.
Proof. exact conv_round_spec. Qed.
Print Assumptions token_amount_decimal_allow_rounding.

(** the rounded value is within half a unit in the last place of the exact quotient *)
Theorem token_amount_rounding_nearest : forall m j, 0 < j -> let k := 10 ^ j in let q := round_half_up m k in
  2 * (q * k) <= 2 * m + k /\ 2 * m < 2 * (q * k) + k.
Proof. exact round_half_up_nearest. Qed.
Print Assumptions token_amount_rounding_nearest.

Theorem token_amount_rounding_exact_when_divisible : forall m k, 0 < k -> m mod k = 0 -> round_half_up m k * k = m.
Proof. exact round_half_up_exact. Qed.
Print Assumptions token_amount_rounding_exact_when_divisible.

Theorem token_amount_decimal_rules_agree_without_rounding : forall x d, decimal_ok x = true -> d_scale x <= d ->
  try_from_decimal x d AllowRounding = try_from_decimal x d Exact.
Proof. exact conv_round_is_exact_when_no_rounding. Qed.
Print Assumptions token_amount_decimal_rules_agree_without_rounding.

(** ranges: an accepted result always has decimals = the request <= 28 and a u64 value; more than 28 decimals is always an error *)
Theorem token_amount_decimal_ranges : forall x d r a, try_from_decimal x d r = COk a ->
  amt_decimals a = d /\ d <= MAX_SCALE /\ amt_value a <= U64MAX.
Proof. exact conv_ok_range. Qed.
Print Assumptions token_amount_decimal_ranges.

Theorem token_amount_decimal_beyond_scale : forall x d r, MAX_SCALE < d -> try_from_decimal x d r = CErr ERustDecimal.
Proof. exact conv_beyond_scale. Qed.
Print Assumptions token_amount_decimal_beyond_scale.

(** try_to_rust_decimal and back *)
Theorem token_amount_to_decimal_roundtrip : forall v d r, v <= U64MAX -> d <= MAX_SCALE ->
  let x := {| d_neg := false; d_m := v; d_scale := d |} in
  try_to_decimal {| amt_value := v; amt_decimals := d |} = Some x /\ decimal_ok x = true
  /\ try_from_decimal x d r = COk {| amt_value := v; amt_decimals := d |}.
Proof. exact to_decimal_roundtrip. Qed.
Print Assumptions token_amount_to_decimal_roundtrip.

Theorem token_amount_to_decimal_beyond_scale : forall a, MAX_SCALE < amt_decimals a -> try_to_decimal a = None.
Proof. exact to_decimal_beyond_scale. Qed.
Print Assumptions token_amount_to_decimal_beyond_scale.

(** at a fixed number of decimals the number determines the value: the representation is unique *)
Theorem token_amount_unique_at_decimals : forall v1 v2 d, same_number v1 d v2 d -> v1 = v2.
Proof. exact amount_number_unique. Qed.
Print Assumptions token_amount_unique_at_decimals.

(** CBOR decimal fraction, tag 4 [exponent, mantissa]: both ranges are enforced exactly *)
Theorem token_amount_cbor_neg_exponent_range : forall o mk k m,
  sdec o s_TokenAmount mk (VTag 4 (VArray false [VNeg k; VPos m])) =
  if (k <? 255) && (m <? 2 ^ 64) then Some (XList [XZ (- 1 - Z.of_N k); XN m]) else None.
Proof. exact amount_cbor_neg_exponent. Qed.
Print Assumptions token_amount_cbor_neg_exponent_range.

Theorem token_amount_cbor_pos_exponent_range : forall o mk n m,
  sdec o s_TokenAmount mk (VTag 4 (VArray false [VPos n; VPos m])) =
  if (n =? 0) && (m <? 2 ^ 64) then Some (XList [XZ 0; XN m]) else None.
Proof. exact amount_cbor_pos_exponent. Qed.
Print Assumptions token_amount_cbor_pos_exponent_range.

(** all three forms of one amount convert back to exactly that amount *)
Theorem token_amount_three_forms : forall o v d r, v <= U64MAX -> d <= 28 ->
  let a := {| amt_value := v; amt_decimals := d |} in
  decode_typed s_TokenAmount o (encode (VTag 4 (VArray false [amount_exponent d; VPos v])))
    = Some (XList [XZ (- Z.of_N d); XN v])
  /\ (exists x, try_to_decimal a = Some x /\ d_m x = v /\ d_scale x = d /\ d_neg x = false
                /\ try_from_decimal x d r = COk a)
  /\ from_str_exact (to_string a) d = Some a.
Proof. exact amount_three_forms. Qed.
Print Assumptions token_amount_three_forms.

(** ** Heads (ciborium-ll reader [pull] / writer [encode_hdr]) *)

(** the reader fails on the argument exactly for the reserved additional information 28..30 or a truncated argument *)
Theorem header_arg_rejected_iff : forall info r,
  pull_arg info r = None <->
  (28 <= info /\ info <> 31) \/ (24 <= info <= 27 /\ (List.length r < arg_width info)%nat).
Proof. exact pull_arg_none_iff. Qed.
Print Assumptions header_arg_rejected_iff.

(** an accepted head occupies exactly 1, 2, 3, 5 or 9 bytes, as its additional information says *)
Theorem header_consumes_exactly : forall bs h r, pull bs = Some (h, r) ->
  exists b tl, bs = b :: tl /\ List.length bs = (head_size (b mod 32) + List.length r)%nat
  /\ In (head_size (b mod 32)) [1; 2; 3; 5; 9]%nat.
Proof. exact pull_consumes. Qed.
Print Assumptions header_consumes_exactly.

(** decode (encode h) = h for every header: all 64-bit arguments, indefinite lengths, break, all simple values, all float payloads *)
Theorem header_roundtrip : forall h rest, hdr_okb h = true -> pull (encode_hdr h ++ rest) = Some (h, rest).
Proof. exact pull_encode_hdr. Qed.
Print Assumptions header_roundtrip.

(** the writer's head is the shortest accepted head carrying the header *)
Theorem header_encode_shortest : forall bs h r, Forall (fun b => b < 256) bs -> pull bs = Some (h, r) ->
  (forall w b, h <> HFloat w b) -> (List.length (encode_hdr h) + List.length r <= List.length bs)%nat.
Proof. exact encode_hdr_shortest. Qed.
Print Assumptions header_encode_shortest.

(** the reader has NO preferred-serialisation check: every argument is accepted in every width that holds it *)
Theorem header_accepts_every_width : forall m info n rest h, 24 <= info <= 27 -> m < 7 ->
  n < 256 ^ N.of_nat (arg_width info) -> hdr_of m n = Some h ->
  pull (wide_head m info n ++ rest) = Some (h, rest).
Proof. exact pull_accepts_any_width. Qed.
Print Assumptions header_accepts_every_width.

(** ** Floats as bit patterns *)

(** decode (encode f) = f bit for bit, for EVERY 64-bit pattern, NaNs with any payload included *)
Theorem float_roundtrip_bits : forall b, fdecode (fst (fencode b)) (snd (fencode b)) = b.
Proof. exact float_roundtrip. Qed.
Print Assumptions float_roundtrip_bits.

Theorem float_narrowed_only_if_representable : forall b w p, fencode b = (w, p) ->
  (w = 2 -> widen16 p = b) /\ (w = 4 -> widen32 p = b) /\ (w = 8 -> p = b).
Proof. exact fencode_narrow_only_if_representable. Qed.
Print Assumptions float_narrowed_only_if_representable.

(** every double that a half-precision pattern widens to is written in 2 bytes, as that pattern (sweep of all 65536) *)
Theorem float_half_shortest : forall h, h < 65536 -> is_snan16 h = false -> fencode (widen16 h) = (2, h).
Proof. exact half_shortest. Qed.
Print Assumptions float_half_shortest.

(** a signalling half NaN widens to the quiet NaN (quiet bit set, payload kept): decode is not injective there *)
Theorem float_half_snan_quieted : forall h, h < 65536 -> is_snan16 h = true -> fencode (widen16 h) = (2, h + 512).
Proof. exact half_snan_quieted. Qed.
Print Assumptions float_half_snan_quieted.

(** binary32, normal numbers (exponent field 1..254; structural proof): the double a single widens to is never written
    in 8 bytes, and when it takes 4 the payload is that single.  PARTIAL: single subnormals / infinities / NaNs are not covered
    by a theorem (diffed only), hence the name *)
Theorem float_single_shortest_partial : forall x, x < 2 ^ 32 -> 1 <= N.land (N.shiftr x 23) 255 <= 254 ->
  fst (fencode (widen32 x)) = 2 \/ fencode (widen32 x) = (4, x).
Proof. exact single_normal_not_wide. Qed.
Print Assumptions float_single_shortest_partial.

(** ** Nesting depth: the code has no explicit limit; the input length is the only bound *)

(** the nesting depth of a decoded value is at most the number of bytes it occupies (every level costs a head byte) *)
Theorem nesting_depth_bounded_by_input : forall bs v r a, decode_prefix bs = Ok v r a ->
  (depth v + List.length r <= List.length bs)%nat.
Proof. exact decode_depth_bounded. Qed.
Print Assumptions nesting_depth_bounded_by_input.

(** ... and the bound is reached up to one byte at EVERY depth: d nested one-element arrays around 0 occupy d+1 bytes and round-trip *)
Theorem nesting_no_limit : forall d, exists a,
  decode_top (encode (chain d)) = Ok (chain d) [] a /\ depth (chain d) = d /\ List.length (encode (chain d)) = S d.
Proof. exact no_depth_limit. Qed.
Print Assumptions nesting_no_limit.

(** ** Non-vacuity *)
Example roundtrip_nonvacuous :
  value_wfb (VMap false [(VPos 1, VArray false [VText [195; 169]; VNeg 23]); (VText [97], VTag 4 (VFloat 2 15360))]) = true.
Proof. reflexivity. Qed.
Print Assumptions roundtrip_nonvacuous.

Example missing_field_nonvacuous :
  decode_typed s_TokenTransfer Fail (encode (VMap false [(VText (bytes_of_string "amount"), VTag 4 (VArray false [VNeg 2; VPos 5]))])) = None
  /\ null_of s_CborHolderAccount = None.
Proof. split; reflexivity. Qed.
Print Assumptions missing_field_nonvacuous.

Example unknown_operation_nonvacuous :
  decode_typed s_TokenOperations Fail (encode (VArray false [VMap false [(VText (bytes_of_string "freeze"), VMap false [])]]))
  = Some (XList [XUnknown (VMap false [(VText (bytes_of_string "freeze"), VMap false [])])]).
Proof. reflexivity. Qed.
Print Assumptions unknown_operation_nonvacuous.

Example schema_roundtrip_nonvacuous :
  schema_wfb s_TokenModuleState = true /\
  typedb s_TokenModuleState
    (XStruct [XSome (XText [84; 75]); XNone; XNone; XSome (XBool true); XNone; XNone; XNone; XNone]
             [(VText [97], VMap false [(VPos 1, VNull); (VPos 2, VArray false [])]); (VText [122; 122], VNeg 4)]) = true /\
  typedb s_TokenOperations
    (XList [XKnown (XVariant 7 (XStruct [] [])); XUnknown (VMap false [(VText [102], VPos 1)])]) = true.
Proof. repeat split; vm_compute; reflexivity. Qed.
Print Assumptions schema_roundtrip_nonvacuous.

Example amount_nonvacuous :
  from_str_exact (to_string {| amt_value := 12300; amt_decimals := 3 |}) 3 = Some {| amt_value := 12300; amt_decimals := 3 |}
  /\ from_str_exact [49; 46; 50; 51] 1 = None.
Proof. split; reflexivity. Qed.
Print Assumptions amount_nonvacuous.

(** Display output parses back exactly, on boundary amounts (sample, not a universal statement) *)
Example amount_display_roundtrip_samples :
  forallb (fun vd => let a := {| amt_value := fst vd; amt_decimals := snd vd |} in
                     match from_str_exact (to_string a) (snd vd) with
                     | Some b => (amt_value b =? fst vd) && (amt_decimals b =? snd vd)
                     | None => false
                     end)
    [(0, 0); (0, 28); (1, 28); (5, 1); (12300, 3); (18446744073709551615, 0); (18446744073709551615, 9);
     (18446744073709551615, 28); (10, 5); (999, 2); (1000, 3); (4294967296, 10)] = true.
Proof. vm_compute. reflexivity. Qed.
Print Assumptions amount_nonvacuous.

Example decimal_conv_nonvacuous :
  decimal_ok (mk_dec false 12600 4) = true
  /\ try_from_decimal (mk_dec false 12600 4) 2 Exact = COk (mk_amt 126 2)
  /\ try_from_decimal (mk_dec false 12600 4) 1 Exact = CErr ELossOfPrecision
  /\ try_from_decimal (mk_dec false 12600 4) 1 AllowRounding = COk (mk_amt 13 1)
  /\ try_from_decimal (mk_dec false 12500 4) 1 AllowRounding = COk (mk_amt 13 1)
  /\ try_from_decimal (mk_dec false 12499 4) 1 AllowRounding = COk (mk_amt 12 1)
  /\ try_from_decimal (mk_dec true 4 2) 0 AllowRounding = COk (mk_amt 0 0)
  /\ try_from_decimal (mk_dec true 6 1) 0 AllowRounding = CErr EValueOverflow
  /\ try_from_decimal (mk_dec false 18446744073709551616 0) 0 Exact = CErr EValueOverflow
  /\ try_from_decimal (mk_dec false 79228162514264337593543950335 0) 1 Exact = CErr EValueOverflow
  /\ same_number 12600 4 126 2.
Proof. repeat split; vm_compute; reflexivity. Qed.
Print Assumptions decimal_conv_nonvacuous.

Example header_nonvacuous :
  pull [24; 5; 7] = Some (HPos 5, [7]) /\ encode_hdr (HPos 5) = [5] /\ hdr_okb (HFloat 2 15360) = true
  /\ pull [28] = None /\ pull [25; 1] = None /\ pull [31] = None /\ pull [95] = Some (HBytes None, [])
  /\ hdr_of 3 70000 = Some (HText (Some 70000)) /\ wide_head 3 27 70000 = [123; 0; 0; 0; 0; 0; 1; 17; 112].
Proof. repeat split; vm_compute; reflexivity. Qed.
Print Assumptions header_nonvacuous.

Example float_nonvacuous :
  fencode 4609434218613702656 = (2, 15872)            (* 1.5 *)
  /\ fencode 4607182418800017409 = (8, 4607182418800017409)   (* 1.0 + 1 ulp *)
  /\ fencode 3936146074321813504 = (4, 1)             (* smallest single subnormal 2^-149 *)
  /\ fencode 4499096027743125504 = (2, 1)             (* smallest half subnormal 2^-24 *)
  /\ fencode 4679235614791434240 = (2, 31743)         (* 65504 = largest finite half *)
  /\ fencode 4679237813814689792 = (4, 1199566848)    (* 65520: not a half *)
  /\ fencode 9221120237041090560 = (2, 32256)         (* quiet NaN, zero payload *)
  /\ fencode 9218868437227405313 = (8, 9218868437227405313)   (* signalling NaN: 8 bytes, payload kept *)
  /\ is_snan16 31745 = true /\ is_snan16 15360 = false
  /\ N.land (N.shiftr 1199566848 23) 255 = 142 /\ widen32 1199566848 = 4679237813814689792.
Proof. repeat split; vm_compute; reflexivity. Qed.
Print Assumptions float_nonvacuous.
