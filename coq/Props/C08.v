(** C08 - Identity credentials: issuance verifies, tampering fails, anonymity revocable.
    Property theorems only; each is followed by [Print Assumptions].  The Section variables are
    universally quantified once the sections are closed: the theorems hold for EVERY field of scalars
    and EVERY module over it (nothing about BLS12-381 is used beyond that).

    PARTIAL (see design/C08.md): rejection of tampered credentials is relative to soundness of the
    sigma/range proofs, unforgeability of the PS signature and collision resistance of SHA3/SHA2;
    what is proved is completeness of the composition ([cdi_complete_partial]) and that the transcript
    binds every absorbed field ([cdi_fields_bound]: acceptance of two different statements with one
    proof exhibits a hash collision). *)
From Coq Require Import List NArith ZArith Bool Lia Field Ring.
From CB Require Import Crypto.Alg Crypto.AlgPairing Crypto.Transcript Crypto.SigmaGeneric Crypto.SigmaCodec Crypto.IdCdiComplete.
From CB Require Import Crypto.Shamir Crypto.ElGamalExp Crypto.IdShamirProofs Crypto.IdPipeline Crypto.IdPipelineProofs.
Import ListNotations.

Section C08_Algebra.
  Variable F : Type.
  Variables (f0 f1 : F) (fadd fmul fsub : F -> F -> F) (fopp : F -> F) (fdiv : F -> F -> F) (finv_t : F -> F).
  Hypothesis Ffield : field_theory f0 f1 fadd fmul fsub fopp fdiv finv_t (@eq F).
  Variable finv : F -> option F.                      (* [Field::inverse]: None exactly on zero *)
  Hypothesis finv_zero : finv f0 = None.
  Hypothesis finv_nonzero : forall x, x <> f0 -> finv x = Some (finv_t x).
  Variable G : Type.
  Variables (gzero : G) (gadd : G -> G -> G) (gopp : G -> G) (smul : F -> G -> G).
  Hypothesis gadd_assoc : forall a b c, gadd a (gadd b c) = gadd (gadd a b) c.
  Hypothesis gadd_comm : forall a b, gadd a b = gadd b a.
  Hypothesis gadd_0_l : forall a, gadd gzero a = a.
  Hypothesis gadd_opp : forall a, gadd a (gopp a) = gzero.
  Hypothesis smul_add_l : forall x y a, smul (fadd x y) a = gadd (smul x a) (smul y a).
  Hypothesis smul_add_r : forall x a b, smul x (gadd a b) = gadd (smul x a) (smul x b).
  Hypothesis smul_mul : forall x y a, smul (fmul x y) a = smul x (smul y a).
  Hypothesis smul_1 : forall a, smul f1 a = a.

  (** Every polynomial [secret + c1 X + .. + c_(t-1) X^(t-1)] (t = length coeffs + 1), every list of
      at least t distinct non-zero evaluation points: [reveal] of the shares is the secret. *)
  Theorem shamir_reveal : forall secret coeffs pts,
    NoDup pts -> ~ In f0 pts -> (length coeffs < length pts)%nat ->
    reveal F f0 f1 fadd fsub fmul finv (List.combine pts (share F f0 fadd fmul secret coeffs pts)) = secret.
  Proof. intros; eapply shamir_reveal_field; eassumption. Qed.
  Print Assumptions shamir_reveal.

  (** The same in any module: shares [s_i * P] reconstruct [secret * P]. *)
  Theorem shamir_reveal_in_group : forall secret coeffs pts (P : G),
    NoDup pts -> ~ In f0 pts -> (length coeffs < length pts)%nat ->
    reveal_in_group F f1 fsub fmul finv G gzero gadd smul
      (List.combine pts (map (fun s => smul s P) (share F f0 fadd fmul secret coeffs pts))) = smul secret P.
  Proof. intros; eapply shamir_reveal_group; eassumption. Qed.
  Print Assumptions shamir_reveal_in_group.

  (** Any t-1 shares (t-1 = length pts) are consistent with every candidate secret. *)
  Theorem shamir_fewer_unconstrained : forall pts ys s,
    NoDup pts -> ~ In f0 pts -> length ys = length pts ->
    exists coeffs, length coeffs = length pts /\ share F f0 fadd fmul s coeffs pts = ys.
  Proof. intros; eapply IdShamirProofs.shamir_fewer_unconstrained; eassumption. Qed.
  Print Assumptions shamir_fewer_unconstrained.

  (** Anonymity revocation: the credential carries, for every chosen revoker, an ElGamal encryption
      (in the exponent of [h]; [h = g] for idCredPub) of its share of [secret]; ANY sub-collection
      [sel] of at least threshold of them, decrypted with the revokers' own keys and combined with
      [reveal_id_cred_pub], gives [secret * h] - for every number of revokers, threshold, keys and
      encryption randomness. *)
  Theorem revocation_correct : forall (g h : G) secret coeffs ars ks (sel : list (revoker F * cipher G)),
    incl sel (enc_shares F f0 fadd fmul G gadd smul g h secret coeffs ars ks) ->
    NoDup (map (fun ac => ar_point F (fst ac)) sel) -> ~ In f0 (map (fun ac => ar_point F (fst ac)) sel) ->
    (length coeffs < length sel)%nat ->
    revoke_in_group F f1 fmul fsub finv G gzero gadd gopp smul sel = smul secret h.
  Proof. intros; eapply revocation_correct_subset; eassumption. Qed.
  Print Assumptions revocation_correct.

  (** PRF key: shares decrypted down to scalars, [reveal_prf_key]. *)
  Theorem revocation_correct_prf : forall secret coeffs pts,
    NoDup pts -> ~ In f0 pts -> (length coeffs < length pts)%nat ->
    revoke_scalar F f0 f1 fadd fmul fsub finv (List.combine pts (share F f0 fadd fmul secret coeffs pts)) = secret.
  Proof. intros; eapply revocation_correct_scalar; eassumption. Qed.
  Print Assumptions revocation_correct_prf.

  (** ... and each revoker recovers its share from the eight encrypted 32-bit chunks. *)
  Theorem prf_share_chunks_decrypt : forall (g h : G) (dlog : G -> N),
    (forall x, (x < 2 ^ 32)%N -> dlog (smul (f_of_N F f0 f1 fadd fmul x) h) = x) ->
    forall sk x ks, (x < 2 ^ 256)%N -> length ks = 8%nat ->
    from_chunks (dec_chunks F G gadd gopp smul dlog sk
                   (enc_chunks F f0 f1 fadd fmul G gadd smul g h (pk_of F G smul g sk) (prf_share_chunks x) ks)) = x.
  Proof. intros; eapply prf_share_decrypt; try eassumption. exact (F_R Ffield). Qed.
  Print Assumptions prf_share_chunks_decrypt.

  (** The opening used for the range proof: cmm(b) - cmm(a) commits to b - a. *)
  Theorem range_commitment_opening : forall (g h : G) a b ra rb,
    gsub G gadd gopp (hide F G gadd smul g h b rb) (hide F G gadd smul g h a ra)
    = hide F G gadd smul g h (fsub b a) (fsub rb ra).
  Proof. intros; eapply commitment_difference; eassumption. Qed.
  Print Assumptions range_commitment_opening.
End C08_Algebra.

(** The range statement that [create_credential] proves and [verify_cdi] checks
    ([prove/verify_less_than_or_equal] at width 8 on [max_accounts - cred_counter] and [cred_counter],
    values determined modulo the group order r) is true iff [cred_counter <= max_accounts], for all
    byte values (the types in the code) ... *)
Theorem counter_boundary : forall r a b, (2 ^ 9 <= r)%Z -> (0 <= a < 2 ^ 8)%Z -> (0 <= b < 2 ^ 8)%Z ->
  (range_stmt r counter_width a b <-> (a <= b)%Z).
Proof. exact counter_boundary_thm. Qed.
Print Assumptions counter_boundary.

(** ... and for all 64-bit values it additionally forces both proved values into a byte. *)
Theorem counter_boundary_u64 : forall r a b, (2 ^ 65 <= r)%Z -> (0 <= a < 2 ^ 64)%Z -> (0 <= b < 2 ^ 64)%Z ->
  (range_stmt r counter_width a b <-> (a <= b /\ a < 2 ^ 8 /\ b - a < 2 ^ 8)%Z).
Proof. exact range_stmt_u64. Qed.
Print Assumptions counter_boundary_u64.

(** The executable predicate used in the correspondence run is that statement. *)
Theorem counter_boundary_decision : forall r a b, (2 ^ 9 <= r)%Z -> (0 <= a < 2 ^ 8)%Z -> (0 <= b < 2 ^ 8)%Z ->
  range_stmt_dec r a b = counter_ok a b.
Proof. exact counter_boundary_dec. Qed.
Print Assumptions counter_boundary_decision.

Theorem counter_prover_defined : forall a b,
  (exists d, prover_difference_checked a b = Some d /\ d = (b - a)%Z) <-> (a <= b)%Z.
Proof. exact prover_difference_defined. Qed.
Print Assumptions counter_prover_defined.

Theorem revoker_points_distinct : forall r x y, (2 ^ 32 <= r)%Z -> (0 < x < 2 ^ 32)%Z -> (0 < y < 2 ^ 32)%Z ->
  (x mod r <> 0)%Z /\ (x <> y -> x mod r <> y mod r)%Z.
Proof. exact ar_points_distinct. Qed.
Print Assumptions revoker_points_distinct.

(** (Kept from the first delivery; superseded by [cdi_complete_partial] below, which discharges the
    three sigma-protocol hypotheses with the C07 lemmas.)
    Completeness of the composed credential proof, RELATIVE to the completeness of its parts (named
    hypotheses): com_mult (regId), com_eq_sig (provider's signature), one com_enc_eq per revoker, the
    range proof for a true statement, the account-ownership signatures.  What is proved here is the
    composition: AndAdapter(AndAdapter(com_mult, com_eq_sig), ReplicateAdapter(com_enc_eq..)) under one
    Fiat-Shamir challenge, then the threshold/length check, the range proof and the signatures. *)
Section C08_Complete.
  Variable Chal : Type.
  Variable H : list N -> list N.
  Variable chal : list N -> Chal.
  Variable bytes_eqb : list N -> list N -> bool.
  Hypothesis bytes_eqb_refl : forall x, bytes_eqb x x = true.
  Variables W1 R1 M1 Z1 W2 R2 M2 Z2 W3 R3 M3 Z3 : Type.
  Variable com_mult : sigma Chal W1 R1 M1 Z1.
  Variable com_eq_sig : sigma Chal W2 R2 M2 Z2.
  Variable com_enc_eqs : list (sigma Chal W3 R3 M3 Z3).
  Hypothesis com_mult_complete : complete Chal com_mult.
  Hypothesis com_eq_sig_complete : complete Chal com_eq_sig.
  Hypothesis com_enc_eq_complete : Forall (complete Chal) com_enc_eqs.
  Variables RangeProof SigT Msg : Type.
  Variable range_prove : Z -> Z -> RangeProof.
  Variable range_verify : RangeProof -> bool.
  Hypothesis range_complete : forall a b, counter_ok a b = true -> range_verify (range_prove a b) = true.
  Variable acc_sign : Msg -> SigT.
  Variable acc_verify : Msg -> SigT -> bool.
  Hypothesis acc_sig_complete : forall m, acc_verify m (acc_sign m) = true.

  Theorem cdi_composition_complete_abstract :
    forall (threshold : nat) prefix pub encM (w : (W1 * W2) * list W3) (rho : (R1 * R2) * list R3)
           (counter max_accounts : Z) (msg : Msg),
      s_rel Chal _ _ _ _ com_mult (fst (fst w)) -> s_rel Chal _ _ _ _ com_eq_sig (snd (fst w)) ->
      rep_rel Chal com_enc_eqs (snd w) ->
      s_rok Chal _ _ _ _ com_mult (fst (fst rho)) -> s_rok Chal _ _ _ _ com_eq_sig (snd (fst rho)) ->
      rep_rok Chal com_enc_eqs (snd rho) ->
      (counter <= max_accounts)%Z ->
      verify_cdi_shape Chal H chal bytes_eqb threshold threshold com_mult com_eq_sig com_enc_eqs prefix pub encM
        (fs_prove Chal H chal (and_adapter Chal (and_adapter Chal com_mult com_eq_sig) (replicate_adapter Chal com_enc_eqs))
                  prefix pub encM w rho)
        (range_verify (range_prove counter max_accounts)) (acc_verify msg (acc_sign msg)) = true.
  Proof. intros; eapply cdi_complete_partial_thm; eassumption. Qed.
  Print Assumptions cdi_composition_complete_abstract.

  (** A threshold different from the number of sharing-coefficient commitments is refused whatever
      the proofs are (the first check of [verify_cdi]). *)
  Theorem cdi_threshold_mismatch_rejected : forall (threshold ncoeff : nat) prefix pub encM proof rg sg,
    threshold <> ncoeff ->
    verify_cdi_shape Chal H chal bytes_eqb threshold ncoeff com_mult com_eq_sig com_enc_eqs prefix pub encM proof rg sg = false.
  Proof. intros; eapply threshold_mismatch_rejected; eassumption. Qed.
  Print Assumptions cdi_threshold_mismatch_rejected.
End C08_Complete.

(** Completeness of the credential proof with the ACTUAL C07 protocols: the statement is about
    [and_proto (and_proto com_mult com_eq_sig) (rep_proto com_enc_eq)] (SigmaGeneric.v adapters,
    Sigma_com_mult / Sigma_com_eq_sig / Sigma_com_enc_eq instances) under the legacy transcript; the
    sigma part is closed by C07's [com_mult_complete_], [ces_complete_], [com_enc_eq_complete_],
    [and_complete_], [rep_complete_], [prove_verify_complete_].  Remaining hypotheses (hence PARTIAL):
    the range proof verifies for a true statement (C11) and account-key signatures verify. *)
Section C08_CompleteC07.
  Context (K : FieldOps) (KL : FieldLaws K) (P : PairOps K) (PL : PairLaws P) (MC : ModOps K) (MLC : ModLaws MC)
          (Cd1 : CodecOps (PM1 P)) (Cd2 : CodecOps (PM2 P)) (CdT : CodecOps (PMT P)) (CdC : CodecOps MC).
  Variable H : Transcript.bytes -> Transcript.bytes.
  Variable sfb : Transcript.bytes -> K.
  Variables RangeProof SigT Msg : Type.
  Variable range_prove : Z -> Z -> RangeProof.
  Variable range_verify : RangeProof -> bool.
  Hypothesis range_complete : forall a b, counter_ok a b = true -> range_verify (range_prove a b) = true.
  Variable acc_sign : Msg -> SigT.
  Variable acc_verify : Msg -> SigT -> bool.
  Hypothesis acc_sig_complete : forall m, acc_verify m (acc_sign m) = true.

  Theorem cdi_sigma_complete :
    SigmaGeneric.complete (cdi_proto Cd1 Cd2 CdT CdC) (cdi_rel Cd1 Cd2 CdT CdC) (cdi_rok Cd1 Cd2 CdT CdC).
  Proof. exact (cdi_sigma_complete_ Cd1 Cd2 CdT CdC). Qed.
  Print Assumptions cdi_sigma_complete.

  Theorem cdi_complete_partial : forall (threshold : nat) ctx s w r (counter max_accounts : Z) (msg : Msg),
    cdi_rel Cd1 Cd2 CdT CdC s w -> cdi_rok Cd1 Cd2 CdT CdC s r -> (counter <= max_accounts)%Z ->
    exists pi st, SigmaGeneric.prove H sfb (cdi_proto Cd1 Cd2 CdT CdC) Legacy ctx s w r = Some (pi, st)
      /\ verify_cdi_c07 Cd1 Cd2 CdT CdC H sfb threshold threshold ctx s pi
           (range_verify (range_prove counter max_accounts)) (acc_verify msg (acc_sign msg)) = true.
  Proof. intros; eapply cdi_complete_c07_; eassumption. Qed.
  Print Assumptions cdi_complete_partial.
End C08_CompleteC07.

(** The transcript of [verify_cdi] (domain "credential"; cred_values; address; global_context; the
    [public] data of com_mult, com_eq_sig and of every com_enc_eq, in the order and with the legacy
    framing of the code) determines every absorbed field, given self-delimiting field encoders; so
    accepting two different statements with the same challenge exhibits an explicit hash collision. *)
Section C08_Binding.
  Variables Values Addr Ctx Cmm Key BSig PsKey Ciph Pk : Type.
  Variable enc_values : Values -> bytes.
  Variable enc_addr : option Addr -> bytes.
  Variable enc_ctx : Ctx -> bytes.
  Variable enc_cmm : Cmm -> bytes.
  Variable enc_key : Key -> bytes.
  Variable enc_bsig : BSig -> bytes.
  Variable enc_pskey : PsKey -> bytes.
  Variable enc_ciph : Ciph -> bytes.
  Variable enc_pk : Pk -> bytes.
  Hypothesis sd_values : self_delimiting enc_values.
  Hypothesis sd_addr : self_delimiting enc_addr.
  Hypothesis sd_ctx : self_delimiting enc_ctx.
  Hypothesis sd_cmm : self_delimiting enc_cmm.
  Hypothesis sd_key : self_delimiting enc_key.
  Hypothesis sd_bsig : self_delimiting enc_bsig.
  Hypothesis sd_pskey : self_delimiting enc_pskey.
  Hypothesis sd_ciph : self_delimiting enc_ciph.
  Hypothesis sd_pk : self_delimiting enc_pk.
  Variables (L_domain L_cred_values L_address L_global_context L_cmms L_cmm_key L_blinded_sig
             L_commitments L_ps_pub_key L_comm_key L_cipher L_commitment L_pub_key : bytes).
  Let tr := cdi_transcript Values Addr Ctx Cmm Key BSig PsKey Ciph Pk enc_values enc_addr enc_ctx enc_cmm enc_key
       enc_bsig enc_pskey enc_ciph enc_pk L_domain L_cred_values L_address L_global_context L_cmms L_cmm_key
       L_blinded_sig L_commitments L_ps_pub_key L_comm_key L_cipher L_commitment L_pub_key.

  Theorem cdi_transcript_determines_fields : forall p q r s,
    same_shape Values Addr Ctx Cmm Key BSig PsKey Ciph Pk p q ->
    tr p ++ r = tr q ++ s -> p = q /\ r = s.
  Proof. intros; eapply cdi_transcript_injective; eassumption. Qed.
  Print Assumptions cdi_transcript_determines_fields.

  Theorem cdi_fields_bound : forall (H : bytes -> bytes) p q (tail_p tail_q c : bytes),
    same_shape Values Addr Ctx Cmm Key BSig PsKey Ciph Pk p q -> p <> q ->
    H (tr p ++ tail_p) = c -> H (tr q ++ tail_q) = c ->
    exists x y, x <> y /\ H x = H y.
  Proof. intros H p q tp tq c Hs Hne Hp Hq. eapply cdi_fields_bound_thm with (p := p) (q := q); eassumption. Qed.
  Print Assumptions cdi_fields_bound.
End C08_Binding.

(** Acceptance by the Fiat-Shamir verifier pins the challenge to the hash of (prefix, public data,
    "point", reconstructed first message): the link between [fs_verify] and [cdi_fields_bound]. *)
Theorem fs_acceptance_is_hash : forall (Chal : Type) (H : list N -> list N) (chal : list N -> Chal)
    (bytes_eqb : list N -> list N -> bool),
  (forall x y, bytes_eqb x y = true -> x = y) ->
  forall (W R M Z : Type) (p : sigma Chal W R M Z) prefix pub (encM : M -> list N) proof,
  fs_verify Chal H chal bytes_eqb p prefix pub encM proof = true ->
  exists m, s_extract Chal W R M Z p (chal (fst proof)) (snd proof) = Some m
            /\ H (fs_input prefix pub encM m) = fst proof.
Proof. intros Chal H chal beq Hb W R M Z p prefix pub encM proof. apply fs_verify_hash. exact Hb. Qed.
Print Assumptions fs_acceptance_is_hash.

(** The commitment vector of the signature statement ([pok_sig_verifier]) determines the fields of
    the credential it is built from (given that committing with randomness zero is injective). *)
Theorem cdi_signature_statement_binds : forall (Cmm Scalar : Type) (hide0 : Scalar -> Cmm),
  (forall x y, hide0 x = hide0 y -> x = y) ->
  forall c1 p1 pp1 ars1 tg1 m1 at1 c2 p2 pp2 ars2 tg2 m2 at2,
  length ars1 = length ars2 -> Forall2 (same_kind Cmm Scalar) at1 at2 ->
  sig_commitments Cmm Scalar hide0 c1 p1 pp1 ars1 tg1 m1 at1 = sig_commitments Cmm Scalar hide0 c2 p2 pp2 ars2 tg2 m2 at2 ->
  c1 = c2 /\ p1 = p2 /\ pp1 = pp2 /\ ars1 = ars2 /\ tg1 = tg2 /\ m1 = m2 /\ at1 = at2.
Proof. exact sig_commitments_bind. Qed.
Print Assumptions cdi_signature_statement_binds.

(* ------------------------------------------------------------------------------------------ *)
(** Non-vacuity: the hypotheses are satisfiable and the model computes (Z mod r, r = BLS12-381 order). *)
Local Open Scope Z_scope.
Example shamir_reveal_nonvacuous :
  NoDup [1; 2; 4294967295] /\ ~ In 0 [1; 2; 4294967295] /\ (length [7; 9] < length [1; 2; 4294967295])%nat
  /\ c08_reveal (List.combine [1; 2; 4294967295] (c08_share 42 [7; 9] [1; 2; 4294967295])) = 42.
Proof.
  split; [repeat constructor; cbn; intuition discriminate|].
  split; [cbn; intuition discriminate|]. split; [cbn; lia | vm_compute; reflexivity].
Qed.
Print Assumptions shamir_reveal_nonvacuous.

(** With one share fewer than the threshold the reconstruction is a different value. *)
Example shamir_threshold_is_tight :
  c08_reveal (List.combine [1; 2] (c08_share 42 [7; 9] [1; 2])) <> 42.
Proof. vm_compute. discriminate. Qed.
Print Assumptions shamir_threshold_is_tight.

(** The executable instance's inverse is an inverse (samples; the instance is otherwise validated by the
    correspondence run against the implementation). *)
Example c08_inv_samples :
  forallb (fun x => match c08_inv x with Some y => (x * y) mod c08_r =? 1 | None => false end)
          [1; 2; -1; 4294967295; -4294967294; 52435875175126190479447740508185965837690552500527637822603658699938581184512] = true
  /\ c08_inv 0 = None /\ c08_inv c08_r = None
  /\ c08_lagrange [1; 2; 3] 1 = zr_lagrange c08_r [1; 2; 3] 1.
Proof. vm_compute. repeat split; reflexivity. Qed.
Print Assumptions c08_inv_samples.

Example counter_boundary_nonvacuous :
  c08_range_stmt 255 255 = true /\ c08_range_stmt 0 0 = true /\ c08_range_stmt 1 0 = false
  /\ c08_range_stmt 255 254 = false /\ c08_range_stmt 254 255 = true /\ (2 ^ 9 <= c08_r).
Proof. vm_compute. repeat split; try reflexivity. discriminate. Qed.
Print Assumptions counter_boundary_nonvacuous.

Local Close Scope Z_scope.
Example self_delimiting_nonvacuous : self_delimiting (fun n : N => [n]).
Proof. intros x y r s E. injection E as -> ->. split; reflexivity. Qed.
Print Assumptions self_delimiting_nonvacuous.

Example complete_nonvacuous :
  complete Z {| s_rel := fun _ : unit => True; s_rok := fun _ : unit => True; s_commit := fun _ : unit => tt;
                s_respond := fun _ _ _ => tt; s_extract := fun _ _ => Some tt |}.
Proof. intros w rho c _ _. destruct rho. reflexivity. Qed.
Print Assumptions complete_nonvacuous.
