(** C13 — stored artifacts and interrupted executions behave identically when resumed.
    Property theorems only: each is closed by [exact] and followed by [Print Assumptions].

    Models: [Wasm/ArtifactCodec.v] (the [Output] / [Parseable] format of [Artifact], owned and
    zero-copy view), [Wasm/ArtifactView.v] (what the interpreter reads of a stored artifact),
    [Wasm/Resume.v] ([RunConfig], [run_config] returning [Interrupted], [push_value], the embedder's
    resume loop) over the register machine [Wasm/Machine.v] that C01 ties to machine.rs.

    Proved for ALL artifacts, hosts, schedules (no bounds, no axioms):
    - [artifact_roundtrip], [artifact_reserialise_identical], [artifact_output_injective],
      [borrowed_view_eq] (zero-copy parse = owned parse), [reloaded_behaves_equal],
      [borrowed_behaves_equal];
    - [resume_equiv_generic] (any deterministic step machine with a capture/resume pair that
      satisfies [capture_resume]), [run_config_captures_live_state] (the machine's RunConfig does),
      [resume_equiv], [run_deterministic] (the schedule is unobservable);
    - [direct_refines_machine]: the interruptible model with a stateless host is [Machine.mrun];
    - [stored_and_resumed_equiv]: the three together.
    Documented non-property: [artifact_parser_not_byte_canonical] (over-long LEB128 accepted).
    NOT modelled (correspondence / direct oracles only, see design/C13.md): the v1 engine's
    [resume_receive] / [InstanceState::migrate]; energy is a tick SUM + the sequence of non-zero ticks. *)
From Coq Require Import ZArith NArith List Bool.
From CB Require Import Common.IntN Wasm.Syntax Wasm.Sem Wasm.Compile Wasm.Machine
     Wasm.ArtifactCodec Wasm.ArtifactCodecProofs Wasm.ArtifactView Wasm.Resume Wasm.ResumeProofs
     Wasm.StoredResumedProofs.
Import ListNotations.

(** ** stored artifacts *)
Theorem artifact_roundtrip : forall a rest,
  wf_artifact a -> parse_artifact (output_artifact a ++ rest) = Some (a, rest).
Proof. exact artifact_roundtrip_thm. Qed.
Print Assumptions artifact_roundtrip.

(** serialising the reloaded artifact again is byte-identical *)
Theorem artifact_reserialise_identical : forall a rest, wf_artifact a ->
  exists a', parse_artifact (output_artifact a ++ rest) = Some (a', rest) /\ output_artifact a' = output_artifact a.
Proof. exact artifact_reserialise_identical_thm. Qed.
Print Assumptions artifact_reserialise_identical.

Theorem artifact_output_injective : forall a b,
  wf_artifact a -> wf_artifact b -> output_artifact a = output_artifact b -> a = b.
Proof. exact artifact_output_injective_thm. Qed.
Print Assumptions artifact_output_injective.

(** the zero-copy form: slices into the input resolve to exactly what the copying parser returns,
    on EVERY input (accepted or not) *)
Theorem borrowed_view_eq : forall bs,
  option_map (fun '(b, r) => (resolve bs b, r)) (parse_artifact_borrowed bs) = parse_artifact bs.
Proof. exact borrowed_view_eq_thm. Qed.
Print Assumptions borrowed_view_eq.

Theorem reloaded_behaves_equal : forall a rest a' rest',
  wf_artifact a -> parse_artifact (output_artifact a ++ rest) = Some (a', rest') ->
  a' = a /\ rest' = rest
  /\ (forall mhost fuel entry args,
        mrun (to_machine a') mhost fuel entry args = mrun (to_machine a) mhost fuel entry args)
  /\ (forall (H : Type) hc choose rounds fuel (h : H) st,
        m_drive H (to_machine a') hc choose rounds fuel h st = m_drive H (to_machine a) hc choose rounds fuel h st).
Proof. exact reloaded_behaves_equal_thm. Qed.
Print Assumptions reloaded_behaves_equal.

Theorem borrowed_behaves_equal : forall a rest b rest',
  wf_artifact a -> parse_artifact_borrowed (output_artifact a ++ rest) = Some (b, rest') ->
  resolve (output_artifact a ++ rest) b = a /\ rest' = rest
  /\ (forall mhost fuel entry args,
        mrun (to_machine (resolve (output_artifact a ++ rest) b)) mhost fuel entry args
        = mrun (to_machine a) mhost fuel entry args).
Proof. exact borrowed_behaves_equal_thm. Qed.
Print Assumptions borrowed_behaves_equal.

(** well-formedness is decidable and satisfiable by a non-trivial artifact (non-vacuity of the above) *)
Theorem wf_artifact_decidable : forall a, wf_artifactb a = true <-> wf_artifact a.
Proof. exact wf_artifactb_iff. Qed.
Print Assumptions wf_artifact_decidable.

Example artifact_nonvacuous :
  wf_artifact sample_artifact /\
  parse_artifact (output_artifact sample_artifact) = Some (sample_artifact, []) /\
  (length (output_artifact sample_artifact) = 131)%nat.
Proof. exact artifact_nonvacuous_ex. Qed.
Print Assumptions artifact_nonvacuous.

(** NOT a property of the code: the parser accepts over-long LEB128, so an accepted byte string
    need not be what [output] writes (canonicity holds for serialised artifacts only) *)
Example artifact_parser_not_byte_canonical :
  let bs := [255; 0x80; 0x00; 0; 0; 0; 0; 0; 0]%N in
  parse_artifact bs = Some (empty_artifact, []) /\ output_artifact empty_artifact <> bs
  /\ output_artifact empty_artifact = [255; 0; 0; 0; 0; 0; 0; 0]%N.
Proof. exact artifact_overlong_accepted_ex. Qed.
Print Assumptions artifact_parser_not_byte_canonical.

(** ** interrupted executions *)
(** generic: any step machine, any host with state, any choice of interrupting calls *)
Theorem resume_equiv_generic :
  forall (St K Q L A R Out H Ev : Type) (gstep : St -> gres St Q L Out) (gev : St -> list Ev)
         (gapply : St -> A -> St) (gdirect : St -> L -> R -> St) (gcapture : St -> L -> K)
         (gresume : K -> L -> R -> St) (hcall : H -> nat -> Q -> H * option (A * R)),
  (forall s l r, gresume (gcapture s l) l r = gdirect s l r) ->
  forall choose rounds fuel h n tr s, (fuel <= rounds)%nat ->
  drive St K Q L A R Out H Ev gstep gev gapply gdirect gcapture gresume hcall choose rounds fuel h n tr s
  = run_direct St Q L A R Out H Ev gstep gev gapply gdirect hcall fuel h n tr s.
Proof. exact drive_eq_direct. Qed.
Print Assumptions resume_equiv_generic.

(** the invariant: the captured [RunConfig], after [push_value], is the live state with the
    result register written *)
Theorem run_config_captures_live_state : forall st l r,
  resume_with (capture st l) l r = direct_answer st l r.
Proof. exact capture_resume_machine. Qed.
Print Assumptions run_config_captures_live_state.

(** non-vacuity: a configuration with a stale [return_value_loc] does NOT have that property *)
Example stale_return_value_loc_breaks_it :
  let st := {| ms_pc := 0; ms_idx := O; ms_frames := []; ms_ret := None; ms_mem := None;
               ms_regs := [0; 0]%Z; ms_base := O; ms_globals := []; ms_energy := 0%N |} in
  resume_with (capture st (Some 0%Z)) (Some 1%Z) (Some 7%Z) <> direct_answer st (Some 1%Z) (Some 7%Z).
Proof. exact stale_return_value_loc_differs. Qed.
Print Assumptions stale_return_value_loc_breaks_it.

(** for every artifact, host (with state, may write the caller's memory, may fail), every choice
    function and every start state: interrupt / push_value / run_config reaches the same outcome
    (result state incl. memory, globals, registers; trap), host state, tick sequence and call count
    as the run in which the host answers directly *)
Theorem resume_equiv : forall (H : Type) (art : artifact)
    (hc : H -> nat -> hquery -> H * option (heffect * hresponse))
    (choose : nat -> hquery -> bool) (rounds fuel : nat) (h : H) (st : mstate),
  (fuel <= rounds)%nat ->
  m_drive H art hc choose rounds fuel h st = m_run_direct H art hc fuel h st.
Proof. exact resume_equiv_thm. Qed.
Print Assumptions resume_equiv.

(** executing twice gives the same result (the runs are functions), and the schedule is unobservable *)
Theorem run_deterministic : forall (H : Type) art hc c1 c2 rounds fuel (h : H) st,
  (fuel <= rounds)%nat -> m_drive H art hc c1 rounds fuel h st = m_drive H art hc c2 rounds fuel h st.
Proof. exact schedule_independent_thm. Qed.
Print Assumptions run_deterministic.

(** the interruptible model is the machine model of C01: with a stateless host that leaves the memory
    alone, the direct run is [Machine.mrun] *)
Theorem direct_refines_machine : forall art mhost fuel entry args,
  mrun art mhost fuel entry args =
  match init_state art entry args with
  | None => MTrap TBadCode
  | Some st0 => finish art entry (r_out (m_run_direct unit art (lift_host mhost) fuel tt st0))
  end.
Proof. exact direct_refines_machine_thm. Qed.
Print Assumptions direct_refines_machine.

(** [Machine.step] only consults the host at the calls [host_call_at] recognises *)
Theorem step_host_decomposition : forall art codes mhost st,
  step art mhost codes st =
  match host_call_at art codes st with
  | Some x => host_step mhost st x
  | None => step art no_host codes st
  end.
Proof. exact step_decompose. Qed.
Print Assumptions step_host_decomposition.

(** ** both together *)
Theorem stored_and_resumed_equiv : forall a mhost choose rounds fuel entry args,
  wf_artifact a -> (fuel <= rounds)%nat ->
  match parse_artifact (output_artifact a) with
  | Some (a', []) =>
      match init_state (to_machine a') entry args with
      | Some st0 => finish (to_machine a') entry
                      (r_out (m_drive unit (to_machine a') (lift_host mhost) choose rounds fuel tt st0))
      | None => MTrap TBadCode
      end = mrun (to_machine a) mhost fuel entry args
  | _ => False
  end.
Proof. exact stored_and_resumed_equiv_thm. Qed.
Print Assumptions stored_and_resumed_equiv.
