(** C13 — stored artifacts and interrupted executions behave identically when resumed.
    Property theorems only: each is closed by [exact] and followed by [Print Assumptions].

    Models: [Wasm/ArtifactCodec.v] (the [Output] / [Parseable] format of [Artifact], owned and
    zero-copy view), [Wasm/ArtifactView.v] (what the interpreter reads of a stored artifact),
    [Wasm/Resume.v] ([RunConfig], [run_config] returning [Interrupted], [push_value], the embedder's
    resume loop) over the register machine [Wasm/Machine.v] that C01 ties to machine.rs.

    Proved for ALL artifacts, hosts, schedules (no bounds, no axioms):
    - [artifact_roundtrip], [artifact_reserialise_identical], [artifact_output_injective],
      [borrowed_view_eq] (zero-copy parse = owned parse), [reloaded_behaves_equal],
      [borrowed_behaves_equal];
    - [resume_equiv_generic] (any deterministic step machine with a capture/resume pair that
      satisfies [capture_resume]), [run_config_captures_live_state] (the machine's RunConfig does),
      [resume_equiv], [run_deterministic] (the schedule is unobservable);
    - [direct_refines_machine]: the interruptible model with a stateless host is [Machine.mrun];
    - [stored_and_resumed_equiv]: the three together.
    - [to_machine_of_compiled], [compiled_stored_resumed_equiv]: the stored record of a compiled module
      projects to exactly C01's [build_artifact], so the above composes with C01's layers;
    - the parser's normal form: [parse_yields_wellformed], [parse_output_normal_form],
      [reserialise_idempotent], and the exact characterisation by the strict parser
      ([strict_parser_canonical], [strict_parser_complete], [noncanonical_iff_overlong_or_unsorted]);
    - the v1 engine's resume layer ([Contract/V1Resume.v] over [Trie/InstanceState.v]):
      [response_word_decodable], [response_word_encoding_injective], [response_word_fails_only_on_too_many],
      [resume_preserves_or_invalidates], [migrate_is_instance_state_resume],
      [interrupt_preserves_host_fields], [call_depth_budget], [energy_across_interrupt], [energy_no_double_charge].
    Documented non-properties: [artifact_parser_not_byte_canonical] (over-long LEB128 accepted),
    [reject_code_zero_would_collide] (unreachable: the engine rejects with negative codes only).
    Energy in the machine model [Wasm/Resume.v] is a tick SUM + the sequence of non-zero ticks.
    Fourth round ([Contract/V1Classify.v]): outcome classification [process_receive_result] /
    [process_init_result] ([classification_total_and_characterised], [reject_reason_is_negative_return_code],
    [receive_invalid_return_only_without_i32], [init_classification_characterised],
    [receive_and_init_differ_on_positive_codes]); the machine with the host component it drives itself
    (remaining energy, activation frames: [host_component_captured_and_restored],
    [host_component_is_engine_save_restore], [resume_equiv_with_host_component]); the engine's loop
    ([interrupted_runs_classify_as_uninterrupted]). *)
From Coq Require Import ZArith NArith List Bool.
From CB Require Import Common.IntN Wasm.Syntax Wasm.Sem Wasm.Compile Wasm.Machine
     Wasm.ArtifactCodec Wasm.ArtifactCodecProofs Wasm.ArtifactNormalForm Wasm.ArtifactView Wasm.ArtifactViewProofs
     Wasm.Resume Wasm.ResumeProofs Wasm.StoredResumedProofs
     Trie.Locks Trie.InstanceState Trie.InstanceStateProofs Contract.V1Resume Contract.V1ResumeProofs
     Contract.V1Classify Contract.V1ClassifyProofs.
Import ListNotations.

(** ** stored artifacts *)
Theorem artifact_roundtrip : forall a rest,
  wf_artifact a -> parse_artifact (output_artifact a ++ rest) = Some (a, rest).
Proof. exact artifact_roundtrip_thm. Qed.
Print Assumptions artifact_roundtrip.

(** serialising the reloaded artifact again is byte-identical *)
Theorem artifact_reserialise_identical : forall a rest, wf_artifact a ->
  exists a', parse_artifact (output_artifact a ++ rest) = Some (a', rest) /\ output_artifact a' = output_artifact a.
Proof. exact artifact_reserialise_identical_thm. Qed.
Print Assumptions artifact_reserialise_identical.

Theorem artifact_output_injective : forall a b,
  wf_artifact a -> wf_artifact b -> output_artifact a = output_artifact b -> a = b.
Proof. exact artifact_output_injective_thm. Qed.
Print Assumptions artifact_output_injective.

(** the zero-copy form: slices into the input resolve to exactly what the copying parser returns,
    on EVERY input (accepted or not) *)
Theorem borrowed_view_eq : forall bs,
  option_map (fun '(b, r) => (resolve bs b, r)) (parse_artifact_borrowed bs) = parse_artifact bs.
Proof. exact borrowed_view_eq_thm. Qed.
Print Assumptions borrowed_view_eq.

Theorem reloaded_behaves_equal : forall a rest a' rest',
  wf_artifact a -> parse_artifact (output_artifact a ++ rest) = Some (a', rest') ->
  a' = a /\ rest' = rest
  /\ (forall mhost fuel entry args,
        mrun (to_machine a') mhost fuel entry args = mrun (to_machine a) mhost fuel entry args)
  /\ (forall (H : Type) hc choose rounds fuel (h : H) st,
        m_drive H (to_machine a') hc choose rounds fuel h st = m_drive H (to_machine a) hc choose rounds fuel h st).
Proof. exact reloaded_behaves_equal_thm. Qed.
Print Assumptions reloaded_behaves_equal.

Theorem borrowed_behaves_equal : forall a rest b rest',
  wf_artifact a -> parse_artifact_borrowed (output_artifact a ++ rest) = Some (b, rest') ->
  resolve (output_artifact a ++ rest) b = a /\ rest' = rest
  /\ (forall mhost fuel entry args,
        mrun (to_machine (resolve (output_artifact a ++ rest) b)) mhost fuel entry args
        = mrun (to_machine a) mhost fuel entry args).
Proof. exact borrowed_behaves_equal_thm. Qed.
Print Assumptions borrowed_behaves_equal.

(** well-formedness is decidable and satisfiable by a non-trivial artifact (non-vacuity of the above) *)
Theorem wf_artifact_decidable : forall a, wf_artifactb a = true <-> wf_artifact a.
Proof. exact wf_artifactb_iff. Qed.
Print Assumptions wf_artifact_decidable.

Example artifact_nonvacuous :
  wf_artifact sample_artifact /\
  parse_artifact (output_artifact sample_artifact) = Some (sample_artifact, []) /\
  (length (output_artifact sample_artifact) = 131)%nat.
Proof. exact artifact_nonvacuous_ex. Qed.
Print Assumptions artifact_nonvacuous.

(** NOT a property of the code: the parser accepts over-long LEB128, so an accepted byte string
    need not be what [output] writes (canonicity holds for serialised artifacts only) *)
Example artifact_parser_not_byte_canonical :
  let bs := [255; 0x80; 0x00; 0; 0; 0; 0; 0; 0]%N in
  parse_artifact bs = Some (empty_artifact, []) /\ output_artifact empty_artifact <> bs
  /\ output_artifact empty_artifact = [255; 0; 0; 0; 0; 0; 0; 0]%N.
Proof. exact artifact_overlong_accepted_ex. Qed.
Print Assumptions artifact_parser_not_byte_canonical.

(** ** interrupted executions *)
(** generic: any step machine, any host with state, any choice of interrupting calls *)
Theorem resume_equiv_generic :
  forall (St K Q L A R Out H Ev : Type) (gstep : St -> gres St Q L Out) (gev : St -> list Ev)
         (gapply : St -> A -> St) (gdirect : St -> L -> R -> St) (gcapture : St -> L -> K)
         (gresume : K -> L -> R -> St) (hcall : H -> nat -> Q -> H * option (A * R)),
  (forall s l r, gresume (gcapture s l) l r = gdirect s l r) ->
  forall choose rounds fuel h n tr s, (fuel <= rounds)%nat ->
  drive St K Q L A R Out H Ev gstep gev gapply gdirect gcapture gresume hcall choose rounds fuel h n tr s
  = run_direct St Q L A R Out H Ev gstep gev gapply gdirect hcall fuel h n tr s.
Proof. exact drive_eq_direct. Qed.
Print Assumptions resume_equiv_generic.

(** the invariant: the captured [RunConfig], after [push_value], is the live state with the
    result register written *)
Theorem run_config_captures_live_state : forall st l r,
  resume_with (capture st l) l r = direct_answer st l r.
Proof. exact capture_resume_machine. Qed.
Print Assumptions run_config_captures_live_state.

(** non-vacuity: a configuration with a stale [return_value_loc] does NOT have that property *)
Example stale_return_value_loc_breaks_it :
  let st := {| ms_pc := 0; ms_idx := O; ms_frames := []; ms_ret := None; ms_mem := None;
               ms_regs := [0; 0]%Z; ms_base := O; ms_globals := []; ms_energy := 0%N |} in
  resume_with (capture st (Some 0%Z)) (Some 1%Z) (Some 7%Z) <> direct_answer st (Some 1%Z) (Some 7%Z).
Proof. exact stale_return_value_loc_differs. Qed.
Print Assumptions stale_return_value_loc_breaks_it.

(** for every artifact, host (with state, may write the caller's memory, may fail), every choice
    function and every start state: interrupt / push_value / run_config reaches the same outcome
    (result state incl. memory, globals, registers; trap), host state, tick sequence and call count
    as the run in which the host answers directly *)
Theorem resume_equiv : forall (H : Type) (art : artifact)
    (hc : H -> nat -> hquery -> H * option (heffect * hresponse))
    (choose : nat -> hquery -> bool) (rounds fuel : nat) (h : H) (st : mstate),
  (fuel <= rounds)%nat ->
  m_drive H art hc choose rounds fuel h st = m_run_direct H art hc fuel h st.
Proof. exact resume_equiv_thm. Qed.
Print Assumptions resume_equiv.

(** executing twice gives the same result (the runs are functions), and the schedule is unobservable *)
Theorem run_deterministic : forall (H : Type) art hc c1 c2 rounds fuel (h : H) st,
  (fuel <= rounds)%nat -> m_drive H art hc c1 rounds fuel h st = m_drive H art hc c2 rounds fuel h st.
Proof. exact schedule_independent_thm. Qed.
Print Assumptions run_deterministic.

(** the interruptible model is the machine model of C01: with a stateless host that leaves the memory
    alone, the direct run is [Machine.mrun] *)
Theorem direct_refines_machine : forall art mhost fuel entry args,
  mrun art mhost fuel entry args =
  match init_state art entry args with
  | None => MTrap TBadCode
  | Some st0 => finish art entry (r_out (m_run_direct unit art (lift_host mhost) fuel tt st0))
  end.
Proof. exact direct_refines_machine_thm. Qed.
Print Assumptions direct_refines_machine.

(** [Machine.step] only consults the host at the calls [host_call_at] recognises *)
Theorem step_host_decomposition : forall art codes mhost st,
  step art mhost codes st =
  match host_call_at art codes st with
  | Some x => host_step mhost st x
  | None => step art no_host codes st
  end.
Proof. exact step_decompose. Qed.
Print Assumptions step_host_decomposition.

(** ** both together *)
Theorem stored_and_resumed_equiv : forall a mhost choose rounds fuel entry args,
  wf_artifact a -> (fuel <= rounds)%nat ->
  match parse_artifact (output_artifact a) with
  | Some (a', []) =>
      match init_state (to_machine a') entry args with
      | Some st0 => finish (to_machine a') entry
                      (r_out (m_drive unit (to_machine a') (lift_host mhost) choose rounds fuel tt st0))
      | None => MTrap TBadCode
      end = mrun (to_machine a) mhost fuel entry args
  | _ => False
  end.
Proof. exact stored_and_resumed_equiv_thm. Qed.
Print Assumptions stored_and_resumed_equiv.

(** ** the stored artifact of a compiled module is C01's artifact *)
Theorem to_machine_of_compiled : forall cm m elem_shift names exports code sa,
  view_okb cm m names code = true ->
  s_artifact_of cm m elem_shift names exports code = Some sa ->
  build_artifact cm m elem_shift code = Some (to_machine sa).
Proof. exact to_machine_s_artifact_of_thm. Qed.
Print Assumptions to_machine_of_compiled.

Theorem compiled_stored_resumed_equiv : forall cm m elem_shift names exports code sa art mhost choose rounds fuel entry args,
  view_okb cm m names code = true ->
  s_artifact_of cm m elem_shift names exports code = Some sa ->
  wf_artifact sa -> (fuel <= rounds)%nat ->
  build_artifact cm m elem_shift code = Some art ->
  match parse_artifact (output_artifact sa) with
  | Some (sa', []) =>
      match init_state (to_machine sa') entry args with
      | Some st0 => finish (to_machine sa') entry
                      (r_out (m_drive unit (to_machine sa') (lift_host mhost) choose rounds fuel tt st0))
      | None => MTrap TBadCode
      end = mrun art mhost fuel entry args
  | _ => False
  end.
Proof. exact compiled_stored_resumed_equiv_thm. Qed.
Print Assumptions compiled_stored_resumed_equiv.

(** ** the normal form of accepted bytes *)
(** whatever [parse_artifact] accepts (from bytes that are bytes) is a well-formed artifact *)
Theorem parse_yields_wellformed : forall bs a rest,
  bytes_ok bs -> parse_artifact bs = Some (a, rest) -> wf_artifact a /\ bytes_ok rest.
Proof. exact parse_wf_thm. Qed.
Print Assumptions parse_yields_wellformed.

(** ... so its re-serialisation is accepted with the same result, and parse-then-output is idempotent *)
Theorem parse_output_normal_form : forall bs a rest,
  bytes_ok bs -> parse_artifact bs = Some (a, rest) ->
  parse_artifact (output_artifact a ++ rest) = Some (a, rest).
Proof. exact parse_output_normal_form_thm. Qed.
Print Assumptions parse_output_normal_form.

Theorem reserialise_idempotent : forall bs a rest,
  bytes_ok bs -> parse_artifact bs = Some (a, rest) ->
  forall a' r', parse_artifact (output_artifact a) = Some (a', r') -> a' = a /\ r' = [].
Proof. exact reserialise_idempotent_strong_thm. Qed.
Print Assumptions reserialise_idempotent.

(** the exact normal form: [parse_artifact_strict] is [parse_artifact] with every LEB128 number
    required to be in its shortest form and the export list required to be strictly sorted; it accepts
    exactly the serialisations of well-formed artifacts *)
Theorem strict_parser_sound : forall bs x, parse_artifact_strict bs = Some x -> parse_artifact bs = Some x.
Proof. exact strict_sound_thm. Qed.
Print Assumptions strict_parser_sound.

Theorem strict_parser_canonical : forall bs a rest,
  parse_artifact_strict bs = Some (a, rest) -> bs = output_artifact a ++ rest.
Proof. exact strict_canonical_gen_thm. Qed.
Print Assumptions strict_parser_canonical.

Theorem strict_parser_complete : forall a rest,
  wf_artifact a -> parse_artifact_strict (output_artifact a ++ rest) = Some (a, rest).
Proof. exact strict_complete_thm. Qed.
Print Assumptions strict_parser_complete.

(** an accepted input differs from its re-serialisation exactly when it contains an over-long
    LEB128 number or exports out of order *)
Theorem noncanonical_iff_overlong_or_unsorted : forall bs a rest,
  bytes_ok bs -> parse_artifact bs = Some (a, rest) ->
  (bs = output_artifact a ++ rest <-> parse_artifact_strict bs = Some (a, rest)).
Proof. exact noncanonical_iff_not_strict_thm. Qed.
Print Assumptions noncanonical_iff_overlong_or_unsorted.

Example unsorted_exports_normalised :
  let bs := [255; 0; 0; 0; 0; 0; 2; 1; 98; 1; 1; 97; 2; 0]%N in
  let a := two_exports [([97], 2); ([98], 1)]%N in
  parse_artifact bs = Some (a, []) /\ parse_artifact_strict bs = None
  /\ output_artifact a = [255; 0; 0; 0; 0; 0; 2; 1; 97; 2; 1; 98; 1; 0]%N
  /\ parse_artifact_strict (output_artifact a) = Some (a, []).
Proof. exact strict_rejects_unsorted_ex. Qed.
Print Assumptions unsorted_exports_normalised.

(** ** the v1 engine's resume layer *)
(** the word pushed by [resume_receive] determines the kind of response, the state-updated bit, the
    parameter index and the reject code *)
Theorem response_word_decodable : forall su params r w ps,
  params <> [] -> reject_code_nonzero r ->
  response_word su params r = Some (w, ps) -> decode_word w = shape_of su params r.
Proof. exact decode_response_word. Qed.
Print Assumptions response_word_decodable.

(** distinct responses give distinct words *)
Theorem response_word_encoding_injective : forall su1 ps1 r1 su2 ps2 r2 w p1 p2,
  ps1 <> [] -> ps2 <> [] -> reject_code_nonzero r1 -> reject_code_nonzero r2 ->
  response_word su1 ps1 r1 = Some (w, p1) -> response_word su2 ps2 r2 = Some (w, p2) ->
  shape_of su1 ps1 r1 = shape_of su2 ps2 r2.
Proof. exact response_word_encoding_injective_thm. Qed.
Print Assumptions response_word_encoding_injective.

Theorem response_word_fails_only_on_too_many : forall su params r,
  response_word su params r = None <->
  (MAX_PARAM_INDEX < N.of_nat (length params))%N
   /\ match r with RSuccess _ (Some _) | RFailure (FContractReject _ _) => True | _ => False end.
Proof. exact response_word_total. Qed.
Print Assumptions response_word_fails_only_on_too_many.

(** the side condition of injectivity is needed (documented non-property; a reject code is negative) *)
Example reject_code_zero_would_collide :
  response_word false [[]] (RFailure (FContractReject 0 [1%N])) = Some (1099511627776%N, [[]; [1%N]])
  /\ response_word false [[]] (RSuccess 0 (Some [1%N])) = Some (1099511627776%N, [[]; [1%N]]).
Proof. exact reject_code_zero_collides. Qed.
Print Assumptions reject_code_zero_would_collide.

(** [InstanceState::migrate]: a handle valid at the interrupt is valid after the resume iff the
    state was not updated, and then denotes the same entry with the same contents *)
Theorem resume_preserves_or_invalidates : forall state_updated cur outer id x,
  entry_of (fst outer) (snd outer) id = Some x ->
  let f := migrate state_updated cur outer in
  (state_updated = false -> entry_of (fst f) (snd f) id = Some x)
  /\ (state_updated = true -> entry_of (fst f) (snd f) id = None)
  /\ (entry_of (fst f) (snd f) id <> None <-> state_updated = false).
Proof. exact resume_preserves_or_invalidates_thm. Qed.
Print Assumptions resume_preserves_or_invalidates.

(** it is the [resume] of the C03/C15 handle-layer model, with the flag computed there *)
Theorem migrate_is_instance_state_resume : forall commit inner outer,
  resume commit inner outer = migrate (commit && touched inner) (snd inner) outer.
Proof. exact resume_is_migrate. Qed.
Print Assumptions migrate_is_instance_state_resume.

(** every host field that survives an interrupt ([StateLessReceiveHost] conversion + [SavedHost] +
    [resume_receive]): activation frames, energy, return value unchanged; logs handed out ++ logs kept =
    logs produced; parameters grow as the word says; balance set on success only; state migrated *)
Theorem interrupt_preserves_host_fields : forall clear h su cur r h' w,
  resume_in (snd (interrupt_out clear h)) (fst (fst (interrupt_out clear h))) su cur r = Some (h', w) ->
  rh_activation_frames h' = rh_activation_frames h
  /\ rh_energy h' = rh_energy h
  /\ rh_return_value h' = rh_return_value h
  /\ snd (fst (interrupt_out clear h)) ++ rh_logs h' = rh_logs h
  /\ response_word su (rh_params h) r = Some (w, rh_params h')
  /\ rh_self_balance h' = match r with RSuccess b _ => b | RFailure _ => rh_self_balance h end
  /\ rh_frame h' = migrate su cur (rh_frame h).
Proof. exact interrupt_preserves_host_fields_thm. Qed.
Print Assumptions interrupt_preserves_host_fields.

(** the call-depth budget that must survive: [n] nested calls succeed iff [n] frames are left *)
Theorem call_depth_budget : forall h n,
  (enter_calls h n <> None <-> (n <= rh_activation_frames h)%N)
  /\ (forall h1, enter_calls h n = Some h1 -> leave_calls h1 n = h).
Proof. exact enter_leave_calls. Qed.
Print Assumptions call_depth_budget.

(** energy at the interrupt = energy at the resume: [resume_receive] charges nothing before [run_config] *)
Theorem energy_across_interrupt : forall clear h su cur r h' w,
  resume_in (snd (interrupt_out clear h)) (fst (fst (interrupt_out clear h))) su cur r = Some (h', w) ->
  rh_energy h' = rh_energy h.
Proof. exact energy_across_interrupt_thm. Qed.
Print Assumptions energy_across_interrupt.

(** and in the machine: with energy as host state charged per host call, the remaining energy after
    an interrupted run is that of the direct run (no double charge) *)
Theorem energy_no_double_charge : forall (H : Type) art (cost : hquery -> N) hc choose rounds fuel (e : N) (h : H) st,
  (fuel <= rounds)%nat ->
  fst (r_host (m_drive (N * H) art (metered_host cost hc) choose rounds fuel (e, h) st))
  = fst (r_host (m_run_direct (N * H) art (metered_host cost hc) fuel (e, h) st)).
Proof. exact energy_no_double_charge_thm. Qed.
Print Assumptions energy_no_double_charge.

(** ** outcome classification and the host component of the machine (fourth round) *)

(** [process_receive_result] followed by the [InvalidReturnCodeError] conversion is a total function
    (a Gallina function: deterministic by construction) with this value in every case: a non-negative
    i32 succeeds, a negative one rejects with that reason, a missing / non-i32 result is a trap that
    consumes all energy, an interrupt hands the logs out iff [should_clear_logs], a machine error is
    [OutOfEnergy] or a trap with the energy left *)
Theorem classification_total_and_characterised : forall h r,
  finalise (process_receive_result h r) =
  match r with
  | MSuccess (Some (VI32 z)) =>
      if (0 <=? i32_signed z)%Z then RRSuccess (hv_logs h) (hv_changed h) (hv_retval h) (hv_energy h)
      else RRReject (i32_signed z) (hv_retval h) (hv_energy h)
  | MSuccess _ => RRTrap 0%N
  | MInterrupted k =>
      if should_clear_logs k then RRInterrupt (hv_energy h) (hv_changed h) (hv_logs h) k []
      else RRInterrupt (hv_energy h) (hv_changed h) [] k (hv_logs h)
  | MErr true => RROutOfEnergy
  | MErr false => RRTrap (hv_energy h)
  end.
Proof. exact classify_receive_spec. Qed.
Print Assumptions classification_total_and_characterised.

(** reject reasons are exactly the negative return codes (as i32), with the host's return value and energy *)
Theorem reject_reason_is_negative_return_code : forall h r reason v e,
  finalise (process_receive_result h r) = RRReject reason v e <->
  (exists z, r = MSuccess (Some (VI32 z)) /\ reason = i32_signed z /\ (-2147483648 <= reason < 0)%Z
             /\ v = hv_retval h /\ e = hv_energy h).
Proof. exact reject_reason_rule. Qed.
Print Assumptions reject_reason_is_negative_return_code.

(** the [Err(InvalidReturnCodeError)] path of [process_receive_result] is taken exactly for a missing or
    non-i32 result: the [Err] branch of [reason_from_wasm_error_code] is unreachable from it *)
Theorem receive_invalid_return_only_without_i32 : forall h r,
  (exists v, process_receive_result h r = inl v) <->
  (r = MSuccess None \/ exists z, r = MSuccess (Some (VI64 z))).
Proof. exact receive_invalid_iff. Qed.
Print Assumptions receive_invalid_return_only_without_i32.

(** the tail of [invoke_init]: 0 succeeds, negative rejects, positive is a protocol violation
    ([Err(InvalidReturnCodeError { value: Some(n) })], which the FFI turns into a null result) *)
Theorem init_classification_characterised : forall h r,
  process_init_result h r =
  match r with
  | MSuccess (Some (VI32 z)) =>
      if (i32_signed z =? 0)%Z then inr (IRSuccess (hv_logs h) (hv_retval h) (hv_energy h))
      else if (i32_signed z <? 0)%Z then inr (IRReject (i32_signed z) (hv_retval h) (hv_energy h))
      else inl (Some (i32_signed z))
  | MSuccess _ => inl None
  | MInterrupted _ => inl None
  | MErr true => inr IROutOfEnergy
  | MErr false => inr (IRTrap (hv_energy h))
  end.
Proof. exact classify_init_spec. Qed.
Print Assumptions init_classification_characterised.

(** a POSITIVE return code: success for a receive method, protocol violation for an init method *)
Theorem receive_and_init_differ_on_positive_codes : forall h z,
  (variant_of (finalise (process_receive_result h (MSuccess (Some (VI32 z))))) = VSuccess
   /\ process_init_result h (MSuccess (Some (VI32 z))) = inl (Some (i32_signed z)))
  <-> (0 < i32_signed z)%Z.
Proof. exact receive_init_differ_exactly_on_positive. Qed.
Print Assumptions receive_and_init_differ_on_positive_codes.

Example classification_nonvacuous :
  let h := {| hv_energy := 77; hv_logs := [[1%N]]; hv_retval := [2%N]; hv_changed := false |} in
  finalise (process_receive_result h (MSuccess (Some (VI32 4294967295)))) = RRReject (-1) [2%N] 77
  /\ finalise (process_receive_result h (MSuccess (Some (VI32 2147483648)))) = RRReject (-2147483648) [2%N] 77
  /\ finalise (process_receive_result h (MSuccess (Some (VI32 1)))) = RRSuccess [[1%N]] false [2%N] 77
  /\ finalise (process_receive_result h (MSuccess None)) = RRTrap 0
  /\ finalise (process_receive_result h (MErr true)) = RROutOfEnergy
  /\ finalise (process_receive_result h (MErr false)) = RRTrap 77
  /\ process_init_result h (MSuccess (Some (VI32 1))) = inl (Some 1%Z)
  /\ process_init_result h (MSuccess (Some (VI32 0))) = inr (IRSuccess [[1%N]] [2%N] 77)
  /\ process_init_result h (MSuccess (Some (VI32 4294967295))) = inr (IRReject (-1) [2%N] 77).
Proof. exact classify_samples. Qed.
Print Assumptions classification_nonvacuous.

(** the machine with the host component the interpreter drives itself (remaining energy: [tick_energy];
    [activation_frames]: [track_call] / [track_return]): the configuration captured at an interrupt,
    with the energy handed out and the activation frames saved, resumes to exactly the live state *)
Theorem host_component_captured_and_restored : forall s l r, tresume (tcapture s l) l r = tdirect s l r.
Proof. exact t_capture_resume. Qed.
Print Assumptions host_component_captured_and_restored.

(** and that save / restore pair is the [Interrupted] branch of [process_receive_result] +
    [resume_receive] of [Contract/V1Resume.v] on these two fields *)
Theorem host_component_is_engine_save_restore : forall clear rh su cur r rh' w,
  resume_in (snd (interrupt_out clear rh)) (fst (fst (interrupt_out clear rh))) su cur r = Some (rh', w) ->
  tsave (hostc_of rh) = (fst (fst (interrupt_out clear rh)), sv_activation_frames (snd (interrupt_out clear rh)))
  /\ hostc_of rh' = trestore (tsave (hostc_of rh)).
Proof. exact tsave_is_interrupt_out. Qed.
Print Assumptions host_component_is_engine_save_restore.

Example saved_frames_reset_breaks_it :
  let h := {| hc_energy := 5%N; hc_frames := 1019%N |} in
  trestore (hc_energy h, MAX_ACTIVATION_FRAMES) <> h.
Proof. exact reset_frames_not_restored. Qed.
Print Assumptions saved_frames_reset_breaks_it.

(** the full run: interrupting at ANY subset of the dynamic host calls and resuming gives the final
    machine state or trap (incl. "too many nested functions" and out of energy), the host component at
    the end (remaining energy, activation frames), the world of the host functions (all logs, return
    value, state-changed flag), the tick trace and the number of host calls of the uninterrupted run *)
Theorem resume_equiv_with_host_component : forall art (X : Type) (hfun : X -> nat -> hquery -> N -> X * hanswer)
    choose rounds fuel w n tr s,
  (fuel <= rounds)%nat ->
  t_drive art X hfun choose rounds fuel w n tr s = t_run_direct art X hfun fuel w n tr s.
Proof. exact t_resume_equiv. Qed.
Print Assumptions resume_equiv_with_host_component.

(** the engine's loop ([invoke_receive], then [resume_receive] after every [Interrupt], every
    [run_config] result classified by [process_receive_result]; the host's [logs] field = the logs not
    yet handed out): for any artifact, host functions, interrupt kinds, schedule and number of
    interrupts, the results are [Interrupt]s followed by the classification of the uninterrupted run -
    same variant, reject reason, return value, remaining energy ([strip_logs] removes what is reported per
    section: logs and the state-changed flag, which [InstanceState::migrate] resets at every resume) - and
    on success the logs handed out with the interrupts ++ the final logs = the logs of the uninterrupted
    run, and the state changed in some section iff it changed in the uninterrupted run; the interrupted
    execution has a result iff the uninterrupted one has (the fuel is a model artefact) *)
Theorem interrupted_runs_classify_as_uninterrupted :
  forall art (X : Type) (hfun : X -> nat -> hquery -> N -> X * hanswer) entry kind_of choose rounds fuel w s,
  (fuel <= rounds)%nat ->
  match e_drive art X hfun entry kind_of choose rounds fuel w O [] s O O [] with
  | Some rs =>
      exists ints final d,
        rs = ints ++ [final]
        /\ Forall (fun r => variant_of r = VInterrupt) ints
        /\ e_direct art X hfun entry fuel w s = Some d
        /\ strip_logs final = strip_logs d
        /\ (variant_of d = VSuccess ->
            concat (map logs_of ints) ++ logs_of final = logs_of d
            /\ (existsb changed_of ints || changed_of final) = changed_of d)
  | None => e_direct art X hfun entry fuel w s = None
  end.
Proof. exact e_drive_classifies_as_direct. Qed.
Print Assumptions interrupted_runs_classify_as_uninterrupted.

(** non-vacuity: a contract calling one import; transfer (logs handed out), query (logs kept), reject *)
Example interrupted_runs_nonvacuous :
  demo_run ITransfer 0 = Some [RRInterrupt 95 true [[1; 2]%N] ITransfer []; RRSuccess [] false [9%N] 95]
  /\ demo_run IQueryExchangeRates 0
     = Some [RRInterrupt 95 true [] IQueryExchangeRates [[1; 2]%N]; RRSuccess [[1; 2]%N] false [9%N] 95]
  /\ demo_run ITransfer (-3) = Some [RRInterrupt 95 true [[1; 2]%N] ITransfer []; RRReject (-3) [9%N] 95]
  /\ demo_run ITransfer 7 = Some [RRInterrupt 95 true [[1; 2]%N] ITransfer []; RRSuccess [] false [9%N] 95]
  /\ demo_direct 0 = Some (RRSuccess [[1; 2]%N] true [9%N] 95)
  /\ demo_direct (-3) = Some (RRReject (-3) [9%N] 95).
Proof. exact demo_runs. Qed.
Print Assumptions interrupted_runs_nonvacuous.
