(** C20 - property theorems only.  Each is closed by [exact] and followed by [Print Assumptions]. *)
From Coq Require Import ZArith List.
From CB Require Import Crypto.Wnaf.
From CB Require Import Crypto.WnafProofs.
Import ListNotations.
Local Open Scope Z_scope.

(** ** wNAF recoding ([GenericMultiExp::multiexp], first half) *)

(** For every window size the code admits (1 <= w < 62), every vector of 64-bit limbs whose top
    bit is clear: the digit vector encodes the integer value of the scalar. *)
Theorem wnaf_sum : forall w ls, 1 <= w < 62 -> wf_limbs ls ->
  limbs_val ls < 2 ^ (64 * Z.of_nat (length ls) - 1) ->
  digits_val (wnaf w ls) = limbs_val ls.
Proof. exact wnaf_sum_lemma. Qed.
Print Assumptions wnaf_sum.

(** The side condition of [wnaf_sum] is necessary: for the all-ones 256-bit limb vector the
    final carry is lost (the digit vector evaluates to -1 instead of 2^256 - 1).  Reduced scalars
    never have the top bit set (r < 2^255, l < 2^253). *)
Theorem wnaf_sum_top_bit_example :
  wf_limbs (to_limbs 4 (2 ^ 256 - 1)) /\
  limbs_val (to_limbs 4 (2 ^ 256 - 1)) = 2 ^ 256 - 1 /\
  digits_val (wnaf 4 (to_limbs 4 (2 ^ 256 - 1))) = -1.
Proof. split; [repeat constructor; vm_compute; intuition discriminate|split; vm_compute; reflexivity]. Qed.
Print Assumptions wnaf_sum_top_bit_example.

(** Every non-zero digit is odd and |d| < 2^w. *)
Theorem wnaf_digit_bounds : forall w ls, 1 <= w < 62 -> wf_limbs ls ->
  Forall (fun d => d = 0 \/ (Z.odd d = true /\ - 2 ^ w < d < 2 ^ w)) (wnaf w ls).
Proof. exact wnaf_digit_bounds_lemma. Qed.
Print Assumptions wnaf_digit_bounds.

(** ... hence [d / 2] indexes the table of odd multiples in range. *)
Theorem wnaf_table_index_in_range : forall (G : Type) (gadd : G -> G -> G) w ls g d,
  1 <= w < 62 -> wf_limbs ls -> In d (wnaf w ls) -> d <> 0 ->
  Z.odd d = true /\ (Z.to_nat (Z.quot (Z.abs d) 2) < length (table G gadd w g))%nat.
Proof. exact @wnaf_table_index_lemma. Qed.
Print Assumptions wnaf_table_index_in_range.

(** If the scalar is below 2^nb, every digit at an index above nb is zero: the evaluation loop
    [for j in (0..=NUM_BITS).rev()] visits every non-zero digit. *)
Theorem wnaf_top : forall w ls nb, 1 <= w < 62 -> wf_limbs ls -> 0 <= nb ->
  limbs_val ls < 2 ^ nb ->
  forall j, (Z.to_nat nb < j)%nat -> nth j (wnaf w ls) 0 = 0.
Proof. exact wnaf_top_lemma. Qed.
Print Assumptions wnaf_top.

(** ** Multi-exponentiation *)

(** In every abelian group (laws: [abelian_group_laws]), for every window size, all vectors of
    points (any length, repeated and identity points included) and all vectors of scalars that are
    below 2^NUM_BITS with NUM_BITS < 64 * limbs: [multiexp] returns the sum of the scalar
    multiples [limbs_val s_i * g_i] over the zipped inputs ([msum], [zmul]). *)
Theorem multiexp_correct : forall (G : Type) (gzero : G) (gadd gsub : G -> G -> G) (gdbl gneg : G -> G),
  abelian_group_laws gzero gadd gsub gdbl gneg ->
  forall w field_bits gs ss, 1 <= w < 62 ->
    Forall (fun s => wf_limbs s /\ limbs_val s < 2 ^ Z.of_nat field_bits
                     /\ Z.of_nat field_bits < 64 * Z.of_nat (length s)) ss ->
    multiexp G gzero gadd gsub gdbl w field_bits gs ss
    = msum G gzero gadd gneg limbs_val (combine ss gs).
Proof. exact multiexp_correct_lemma. Qed.
Print Assumptions multiexp_correct.

(** Non-vacuity: the hypotheses hold for the integers with the default window and the largest
    BLS12-381 scalar r - 1 (NUM_BITS = 255, 4 limbs), and the conclusion computes r - 1 times 5. *)
Example multiexp_correct_nonvacuous :
  abelian_group_laws 0 Z.add Z.sub (fun a => a + a) Z.opp /\
  (let s := to_limbs 4 52435875175126190479447740508185965837690552500527637822603658699938581184512 in
   wf_limbs s /\ limbs_val s < 2 ^ Z.of_nat 255 /\ Z.of_nat 255 < 64 * Z.of_nat (length s)
   /\ multiexp Z 0 Z.add Z.sub (fun a => a + a) 4 255 [5] [s]
      = 5 * 52435875175126190479447740508185965837690552500527637822603658699938581184512).
Proof.
  split.
  - unfold abelian_group_laws. repeat split; intros; ring.
  - cbv zeta. split; [repeat constructor; vm_compute; intuition discriminate|].
    split; [vm_compute; reflexivity|]. split; [vm_compute; reflexivity|]. vm_compute. reflexivity.
Qed.
Print Assumptions multiexp_correct_nonvacuous.

(** ** Pedersen commitments ([pedersen_commitment/key.rs]) as corollaries of [multiexp_correct] *)
From CB Require Import Crypto.VecCommit.

(** [VecCommitmentKey::hide_worker] (bases [gs.iter().take(values.len())] then [h]; scalars the values then
    the randomness): for at most as many values as bases the commitment is
    [sum_{i < |vs|} vs_i * gs_i + r * h] in every abelian group ([vec_commit_spec]). *)
Theorem vec_commit_correct : forall (G : Type) (gzero : G) (gadd gsub : G -> G -> G) (gdbl gneg : G -> G),
  abelian_group_laws gzero gadd gsub gdbl gneg ->
  forall w field_bits gs h vs r, 1 <= w < 62 ->
    Forall (scalar_ok field_bits) vs -> scalar_ok field_bits r ->
    (length vs <= length gs)%nat ->
    vec_commit G gzero gadd gsub gdbl w field_bits gs h vs r
    = Some (gadd (msum G gzero gadd gneg limbs_val (combine vs gs)) (zmul G gzero gadd gneg (limbs_val r) h)).
Proof. exact vec_commit_lemma. Qed.
Print Assumptions vec_commit_correct.

(** More values than bases: [None]. *)
Theorem vec_commit_too_many_values : forall (G : Type) (gzero : G) (gadd gsub : G -> G -> G) (gdbl : G -> G) w fb gs h vs r,
  (length gs < length vs)%nat -> vec_commit G gzero gadd gsub gdbl w fb gs h vs r = None.
Proof. exact vec_commit_too_many. Qed.
Print Assumptions vec_commit_too_many_values.

(** [CommitmentKey::hide_worker]: [v * g + r * h]. *)
Theorem commit_correct : forall (G : Type) (gzero : G) (gadd gsub : G -> G -> G) (gdbl gneg : G -> G),
  abelian_group_laws gzero gadd gsub gdbl gneg ->
  forall w field_bits g h v r, 1 <= w < 62 -> scalar_ok field_bits v -> scalar_ok field_bits r ->
    commit G gzero gadd gsub gdbl w field_bits g h v r
    = gadd (zmul G gzero gadd gneg (limbs_val v) g) (zmul G gzero gadd gneg (limbs_val r) h).
Proof. exact commit_lemma. Qed.
Print Assumptions commit_correct.

(** Non-vacuity and necessity of the [take]: integers, bases 1 and 10, h = 100, no values, randomness 1:
    the model gives 100 = r*h; the variant without [take] ([vec_commit_notake]) gives 1 = r*g_0. *)
Example vec_commit_without_take_refuted :
  let one := to_limbs 4 1 in
  scalar_ok 255 one /\
  vec_commit Z 0 Z.add Z.sub (fun a => a + a) 4 255 [1; 10] 100 [] one = Some 100 /\
  vec_commit_spec Z 0 Z.add Z.opp [1; 10] 100 [] one = 100 /\
  vec_commit_notake Z 0 Z.add Z.sub (fun a => a + a) 4 255 [1; 10] 100 [] one = Some 1.
Proof. exact vec_commit_notake_refuted. Qed.
Print Assumptions vec_commit_without_take_refuted.

(** ** Secret sharing ([secret_sharing::share / reveal / reveal_in_group]) *)
From Coq Require Import Field_theory.
From Coq Require Import Qcanon.
From CB Require Import Crypto.Shamir.
From CB Require Import Crypto.ShamirProofs.

(** Over every field: for every secret, every t-1 further coefficients (degree-(t-1) sharing
    polynomial, secret as constant term, evaluated as in [share]) and every list of at least t
    shares at pairwise distinct points, [reveal] - with [lagrange] exactly as coded - returns the
    secret.  (Non-zero points are not needed for reconstruction, only for secrecy.) *)
Theorem shamir_reveal : forall (F : Type) (f0 f1 : F) (fadd fsub fmul fdiv : F -> F -> F)
    (fopp finvf : F -> F) (finv : F -> option F),
  scalar_field_laws f0 f1 fadd fsub fmul fdiv fopp finvf finv ->
  (forall x y : F, {x = y} + {x <> y}) ->
  forall (secret : F) (coeffs xs : list F),
  NoDup xs -> (S (length coeffs) <= length xs)%nat ->
  reveal F f0 f1 fadd fsub fmul finv
    (map (fun x => (x, eval_share F f0 fadd fmul secret coeffs x)) xs) = secret.
Proof. exact shamir_reveal_closed. Qed.
Print Assumptions shamir_reveal.

(** The same in any module over the field (the group written additively): the shares are the
    values of a polynomial with coefficients in the module; [reveal_in_group] returns its constant
    term. *)
Theorem shamir_reveal_in_group : forall (F : Type) (f0 f1 : F) (fadd fsub fmul fdiv : F -> F -> F)
    (fopp finvf : F -> F) (finv : F -> option F),
  scalar_field_laws f0 f1 fadd fsub fmul fdiv fopp finvf finv ->
  (forall x y : F, {x = y} + {x <> y}) ->
  forall (M : Type) (gzero : M) (gadd : M -> M -> M) (smul : F -> M -> M),
  module_laws f0 f1 fadd fmul gzero gadd smul ->
  forall (m0 : M) (ms : list M) (xs : list F),
  NoDup xs -> (S (length ms) <= length xs)%nat ->
  reveal_in_group F f1 fsub fmul finv M gzero gadd smul
    (map (fun x => (x, geval F M gzero gadd smul (m0 :: ms) x)) xs) = m0.
Proof. exact shamir_reveal_in_group_closed. Qed.
Print Assumptions shamir_reveal_in_group.

(** In the exponent: the group shares [share_i * h] of a field sharing reconstruct [secret * h]. *)
Theorem shamir_reveal_in_exponent : forall (F : Type) (f0 f1 : F) (fadd fsub fmul fdiv : F -> F -> F)
    (fopp finvf : F -> F) (finv : F -> option F),
  scalar_field_laws f0 f1 fadd fsub fmul fdiv fopp finvf finv ->
  (forall x y : F, {x = y} + {x <> y}) ->
  forall (M : Type) (gzero : M) (gadd : M -> M -> M) (smul : F -> M -> M),
  module_laws f0 f1 fadd fmul gzero gadd smul ->
  forall (h : M) (secret : F) (coeffs xs : list F),
  NoDup xs -> (S (length coeffs) <= length xs)%nat ->
  reveal_in_group F f1 fsub fmul finv M gzero gadd smul
    (map (fun x => (x, smul (eval_share F f0 fadd fmul secret coeffs x) h)) xs) = smul secret h.
Proof. exact shamir_reveal_exponent_closed. Qed.
Print Assumptions shamir_reveal_in_exponent.

(** Fewer shares carry no information: for any t-1 shares at distinct non-zero points and ANY
    candidate secret there are t-1 coefficients of a sharing polynomial consistent with both. *)
Theorem shamir_fewer_unconstrained : forall (F : Type) (f0 f1 : F) (fadd fsub fmul fdiv : F -> F -> F)
    (fopp finvf : F -> F) (finv : F -> option F),
  scalar_field_laws f0 f1 fadd fsub fmul fdiv fopp finvf finv ->
  (forall x y : F, {x = y} + {x <> y}) ->
  forall (xs ys : list F) (s : F),
  NoDup xs -> (forall x, In x xs -> x <> f0) -> length ys = length xs ->
  exists coeffs, length coeffs = length xs /\
    forall x y, In (x, y) (combine xs ys) -> eval_share F f0 fadd fmul s coeffs x = y.
Proof. exact shamir_fewer_closed. Qed.
Print Assumptions shamir_fewer_unconstrained.

(** ... and exactly t-1 >= 1 shares of a polynomial of degree exactly t-1 ([share] draws a
    non-zero top coefficient) at distinct non-zero points never reconstruct the secret. *)
Theorem shamir_one_fewer_differs : forall (F : Type) (f0 f1 : F) (fadd fsub fmul fdiv : F -> F -> F)
    (fopp finvf : F -> F) (finv : F -> option F),
  scalar_field_laws f0 f1 fadd fsub fmul fdiv fopp finvf finv ->
  (forall x y : F, {x = y} + {x <> y}) ->
  forall (secret : F) (coeffs xs : list F),
  NoDup xs -> (forall x, In x xs -> x <> f0) -> length xs = length coeffs -> last coeffs f0 <> f0 ->
  reveal F f0 f1 fadd fsub fmul finv
    (map (fun x => (x, eval_share F f0 fadd fmul secret coeffs x)) xs) <> secret.
Proof. exact shamir_one_fewer_closed. Qed.
Print Assumptions shamir_one_fewer_differs.

(** Non-vacuity: the rationals are an instance of the field and module hypotheses. *)
Example shamir_hypotheses_satisfiable :
  let finv := fun x : Qc => if Qc_eq_dec x 0%Qc then None else Some (Qcinv x) in
  scalar_field_laws 0%Qc 1%Qc Qcplus Qcminus Qcmult Qcdiv Qcopp Qcinv finv /\
  module_laws 0%Qc 1%Qc Qcplus Qcmult 0%Qc Qcplus Qcmult /\
  NoDup [1%Qc; (1 + 1)%Qc; (1 + 1 + 1)%Qc].
Proof.
  cbv zeta. split; [|split].
  - split; [exact Qcft|]. split.
    + destruct (Qc_eq_dec 0 0); [reflexivity|congruence].
    + intros x Hx. destruct (Qc_eq_dec x 0); [contradiction|reflexivity].
  - unfold module_laws. repeat split; intros; ring.
  - repeat constructor; cbn [In]; intros H; repeat destruct H as [H|H]; try discriminate; assumption.
Qed.
Print Assumptions shamir_hypotheses_satisfiable.

(** ** Scalar encodings *)
From Coq Require Import NArith.
From CB Require Import Crypto.ScalarCodec.
From CB Require Import Crypto.ScalarCodecProofs.

(** 32 bytes big-endian, reject >= r: round trip, canonicity, rejection (for every modulus
    r <= 2^256, in particular [bls_r]). *)
Theorem scalar_codec_canonical : forall r : N, (r <= 2 ^ 256)%N ->
  (forall x, (x < r)%N -> scalar_decode r (scalar_encode x) = Some x) /\
  (forall bs x, bytes_ok bs -> scalar_decode r bs = Some x ->
                bs = scalar_encode x /\ (x < r)%N /\ length bs = 32%nat) /\
  (forall bs, (r <= be_val bs)%N -> scalar_decode r bs = None).
Proof. exact scalar_codec_canonical_lemma. Qed.
Print Assumptions scalar_codec_canonical.

(** the little-endian codec of ristretto scalars *)
Theorem scalar_codec_le_canonical : forall r : N, (r <= 2 ^ 256)%N ->
  (forall x, (x < r)%N -> scalar_decode_le r (scalar_encode_le x) = Some x) /\
  (forall bs x, bytes_ok bs -> scalar_decode_le r bs = Some x ->
                bs = scalar_encode_le x /\ (x < r)%N /\ length bs = 32%nat).
Proof. exact scalar_codec_le_canonical_lemma. Qed.
Print Assumptions scalar_codec_le_canonical.

(** [scalar_from_bytes] takes exactly CAPACITY bits (254 for BLS12-381, 252 for ristretto) of the
    little-endian value of the first 32 bytes, for byte strings of every length; the
    [from_repr] inside never fails. *)
Theorem scalar_from_bytes_capacity : forall bs, bytes_ok bs ->
  bls_scalar_from_bytes bs = Some (le_val (firstn 32 bs) mod 2 ^ 254)%N /\
  ed_scalar_from_bytes bs = Some (le_val (firstn 32 bs) mod 2 ^ 252)%N.
Proof. exact scalar_from_bytes_capacity_lemma. Qed.
Print Assumptions scalar_from_bytes_capacity.

(** ** keygen_bls *)
(** For every 48-byte HKDF output the 31/17-byte split with the 2^248 shift computes
    OS2IP(okm) mod r; the loop returns only a non-zero scalar: the reduction of the first round
    whose reduction is non-zero. *)
Theorem keygen_bls_is_os2ip_mod_r :
  (forall okm, bytes_ok okm -> length okm = 48%nat -> keygen_round okm = Some (be_val okm mod bls_r)%N) /\
  (forall okms, (forall i, bytes_ok (okms i) /\ length (okms i) = 48%nat) ->
     forall fuel start sk, keygen_loop fuel okms start = Some sk ->
       sk <> 0%N /\ exists i, (start <= i)%nat /\ sk = (be_val (okms i) mod bls_r)%N /\
                              forall j, (start <= j < i)%nat -> (be_val (okms j) mod bls_r = 0)%N).
Proof. exact keygen_bls_lemma. Qed.
Print Assumptions keygen_bls_is_os2ip_mod_r.

(** ** Derivation paths *)
From CB Require Import Crypto.Paths.
From CB Require Import Crypto.PathsProofs.

(** [checked_harden] accepts exactly the u32 indices below 2^31 *)
Theorem checked_harden_rejects_hardened : forall i : N, (i < 2 ^ 32)%N ->
  checked_harden i = if (i <? 2 ^ 31)%N then Some (i + 2 ^ 31)%N else None.
Proof. exact checked_harden_spec_lemma. Qed.
Print Assumptions checked_harden_rejects_hardened.

(** distinct (network, key kind, indices) give distinct lists of hardened indices, hence distinct
    chains of HMAC inputs *)
Theorem paths_injective : forall n1 k1 n2 k2 p, wf_kind k1 -> wf_kind k2 ->
  path_of n1 k1 = Some p -> path_of n2 k2 = Some p -> n1 = n2 /\ k1 = k2.
Proof. exact paths_injective_lemma. Qed.
Print Assumptions paths_injective.

(** no derivation path is a proper prefix of another one *)
Theorem paths_prefix_free : forall n1 k1 n2 k2 p1 p2 q, wf_kind k1 -> wf_kind k2 ->
  path_of n1 k1 = Some p1 -> path_of n2 k2 = Some p2 -> p2 = p1 ++ q ->
  n1 = n2 /\ k1 = k2 /\ q = [].
Proof. exact paths_prefix_free_lemma. Qed.
Print Assumptions paths_prefix_free.

(** the wrappers of [CredentialContext] derive along the paths of the direct getters for the same
    (identity provider, identity, credential, tag) ... *)
Theorem context_paths_agree : forall (c : credential_context) (tag : N),
  ctx_attribute_randomness_path c tag
  = path_of (ctx_net c) (AttributeCommitmentRandomness (ctx_ip c) (ctx_id c) (ctx_cred c) tag)
  /\ ctx_cred_id_prf_path c = path_of (ctx_net c) (PrfKey (ctx_ip c) (ctx_id c)).
Proof. exact context_paths_agree_lemma. Qed.
Print Assumptions context_paths_agree.

(** ... and the order of identity provider index and identity index matters whenever they differ *)
Theorem context_paths_order_sensitive : forall n ip id cred tag p,
  u32 ip -> u32 id -> u32 cred -> (tag < 256)%N ->
  path_of n (AttributeCommitmentRandomness ip id cred tag) = Some p ->
  path_of n (AttributeCommitmentRandomness id ip cred tag) = Some p -> ip = id.
Proof. exact context_paths_order_sensitive_lemma. Qed.
Print Assumptions context_paths_order_sensitive.

Example paths_nonvacuous :
  wf_kind (AccountSigningKey 0 55 7) /\
  path_of Mainnet (AccountSigningKey 0 55 7)
  = Some [2147483692; 2147484567; 2147483648; 2147483703; 2147483648; 2147483655]%N /\
  path_of Mainnet (AccountSigningKey 0 2147483648 7) = None.
Proof. split; [cbn; unfold u32; repeat split; reflexivity|split; reflexivity]. Qed.
Print Assumptions paths_nonvacuous.

(** ** Compressed G1 point codec (model of [Deserial]/[Serial] for [ArkGroup<G1Projective>]) *)
From CB Require Import Crypto.G1Decode.
From CB Require Import Crypto.G1DecodeProofs.

(** Every byte string the decoder accepts re-encodes to itself (no non-canonical encoding is
    accepted: flags, x >= p, the unused sort flag of infinity, junk under the infinity flag). *)
Theorem g1_decode_canonical : forall bs P, g1_decode bs = Some P -> g1_encode P = bs.
Proof. exact g1_decode_canonical_lemma. Qed.
Print Assumptions g1_decode_canonical.

(** Everything the decoder returns is a valid point: reduced coordinates, on the curve
    y^2 = x^3 + 4, and it passes the subgroup check [r]P = O. *)
Theorem g1_decode_valid : forall bs P, g1_decode bs = Some P -> g1_valid P.
Proof. exact g1_decode_valid_lemma. Qed.
Print Assumptions g1_decode_valid.

(** The point at infinity has exactly one accepted encoding, c0 00 ... 00. *)
Theorem g1_infinity_unique_encoding : forall bs,
  g1_decode bs = Some G1Inf <-> bs = 192%N :: repeat 0%N 47.
Proof. exact g1_infinity_unique_lemma. Qed.
Print Assumptions g1_infinity_unique_encoding.

(** Round trip for every valid point.  Premises [g1_field_facts]: p is prime and Fermat's little
    theorem holds for p - two facts of arithmetic about the constant that are not proved in Coq. *)
Theorem g1_decode_encode : g1_field_facts -> forall P, g1_valid P -> g1_decode (g1_encode P) = Some P.
Proof. exact g1_decode_encode_lemma. Qed.
Print Assumptions g1_decode_encode.

(** Non-vacuity: the point at infinity is valid and round-trips by computation (affine
    inhabitants of [g1_valid] are exhibited by the correspondence runs, see G1DecodeProofs.v). *)
Example g1_valid_nonvacuous : g1_valid G1Inf /\ g1_decode (g1_encode G1Inf) = Some G1Inf.
Proof. exact g1_inf_valid. Qed.
Print Assumptions g1_valid_nonvacuous.
