(** C20 - property theorems only.  Each is closed by [exact] and followed by [Print Assumptions]. *)
From Coq Require Import ZArith List.
From CB Require Import Crypto.Wnaf.
From CB Require Import Crypto.WnafProofs.
Import ListNotations.
Local Open Scope Z_scope.

(** ** wNAF recoding ([GenericMultiExp::multiexp], first half) *)

(** For every window size the code admits (1 <= w < 62), every vector of 64-bit limbs whose top
    bit is clear: the digit vector encodes the integer value of the scalar. *)
Theorem wnaf_sum : forall w ls, 1 <= w < 62 -> wf_limbs ls ->
  limbs_val ls < 2 ^ (64 * Z.of_nat (length ls) - 1) ->
  digits_val (wnaf w ls) = limbs_val ls.
Proof. exact wnaf_sum_lemma. Qed.
Print Assumptions wnaf_sum.

(** The side condition of [wnaf_sum] is necessary: for the all-ones 256-bit limb vector the
    final carry is lost (the digit vector evaluates to -1 instead of 2^256 - 1).  Reduced scalars
    never have the top bit set (r < 2^255, l < 2^253). *)
Theorem wnaf_sum_top_bit_example :
  wf_limbs (to_limbs 4 (2 ^ 256 - 1)) /\
  limbs_val (to_limbs 4 (2 ^ 256 - 1)) = 2 ^ 256 - 1 /\
  digits_val (wnaf 4 (to_limbs 4 (2 ^ 256 - 1))) = -1.
Proof. split; [repeat constructor; vm_compute; intuition discriminate|split; vm_compute; reflexivity]. Qed.
Print Assumptions wnaf_sum_top_bit_example.

(** Every non-zero digit is odd and |d| < 2^w. *)
Theorem wnaf_digit_bounds : forall w ls, 1 <= w < 62 -> wf_limbs ls ->
  Forall (fun d => d = 0 \/ (Z.odd d = true /\ - 2 ^ w < d < 2 ^ w)) (wnaf w ls).
Proof. exact wnaf_digit_bounds_lemma. Qed.
Print Assumptions wnaf_digit_bounds.

(** ... hence [d / 2] indexes the table of odd multiples in range. *)
Theorem wnaf_table_index_in_range : forall (G : Type) (gadd : G -> G -> G) w ls g d,
  1 <= w < 62 -> wf_limbs ls -> In d (wnaf w ls) -> d <> 0 ->
  Z.odd d = true /\ (Z.to_nat (Z.quot (Z.abs d) 2) < length (table G gadd w g))%nat.
Proof. exact @wnaf_table_index_lemma. Qed.
Print Assumptions wnaf_table_index_in_range.

(** If the scalar is below 2^nb, every digit at an index above nb is zero: the evaluation loop
    [for j in (0..=NUM_BITS).rev()] visits every non-zero digit. *)
Theorem wnaf_top : forall w ls nb, 1 <= w < 62 -> wf_limbs ls -> 0 <= nb ->
  limbs_val ls < 2 ^ nb ->
  forall j, (Z.to_nat nb < j)%nat -> nth j (wnaf w ls) 0 = 0.
Proof. exact wnaf_top_lemma. Qed.
Print Assumptions wnaf_top.

(** ** Multi-exponentiation *)

(** In every abelian group (laws: [abelian_group_laws]), for every window size, all vectors of
    points (any length, repeated and identity points included) and all vectors of scalars that are
    below 2^NUM_BITS with NUM_BITS < 64 * limbs: [multiexp] returns the sum of the scalar
    multiples [limbs_val s_i * g_i] over the zipped inputs ([msum], [zmul]). *)
Theorem multiexp_correct : forall (G : Type) (gzero : G) (gadd gsub : G -> G -> G) (gdbl gneg : G -> G),
  abelian_group_laws gzero gadd gsub gdbl gneg ->
  forall w field_bits gs ss, 1 <= w < 62 ->
    Forall (fun s => wf_limbs s /\ limbs_val s < 2 ^ Z.of_nat field_bits
                     /\ Z.of_nat field_bits < 64 * Z.of_nat (length s)) ss ->
    multiexp G gzero gadd gsub gdbl w field_bits gs ss
    = msum G gzero gadd gneg limbs_val (combine ss gs).
Proof. exact multiexp_correct_lemma. Qed.
Print Assumptions multiexp_correct.

(** Non-vacuity: the hypotheses hold for the integers with the default window and the largest
    BLS12-381 scalar r - 1 (NUM_BITS = 255, 4 limbs), and the conclusion computes r - 1 times 5. *)
Example multiexp_correct_nonvacuous :
  abelian_group_laws 0 Z.add Z.sub (fun a => a + a) Z.opp /\
  (let s := to_limbs 4 52435875175126190479447740508185965837690552500527637822603658699938581184512 in
   wf_limbs s /\ limbs_val s < 2 ^ Z.of_nat 255 /\ Z.of_nat 255 < 64 * Z.of_nat (length s)
   /\ multiexp Z 0 Z.add Z.sub (fun a => a + a) 4 255 [5] [s]
      = 5 * 52435875175126190479447740508185965837690552500527637822603658699938581184512).
Proof.
  split.
  - unfold abelian_group_laws. repeat split; intros; ring.
  - cbv zeta. split; [repeat constructor; vm_compute; intuition discriminate|].
    split; [vm_compute; reflexivity|]. split; [vm_compute; reflexivity|]. vm_compute. reflexivity.
Qed.
Print Assumptions multiexp_correct_nonvacuous.
