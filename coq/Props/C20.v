(** C20 - property theorems only. *)
From Coq Require Import ZArith List.
From CB Require Import Crypto.Wnaf.
Import ListNotations.
Local Open Scope Z_scope.

(** The side condition of [wnaf_sum] is necessary: for the all-ones 256-bit limb vector the
    final carry is lost (the digit vector evaluates to -1 instead of 2^256 - 1). *)
Theorem wnaf_sum_top_bit_example :
  limbs_val (to_limbs 4 (2 ^ 256 - 1)) = 2 ^ 256 - 1 /\
  digits_val (wnaf 4 (to_limbs 4 (2 ^ 256 - 1))) = -1.
Proof. split; vm_compute; reflexivity. Qed.
Print Assumptions wnaf_sum_top_bit_example.
