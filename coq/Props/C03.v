(** C03 - property theorems only.  Each is closed by [exact] and followed by
    [Print Assumptions]. *)
From Coq Require Import NArith List Bool Sorted.
From CB Require Import Trie.Radix.
From CB Require Import Trie.RadixProofs.
Import ListNotations.
Local Open Scope N_scope.

(** Each operation of the radix tree is the operation of the ordered map, stated on the
    lookup function ... *)
Theorem lookup_insert_spec : forall (V : Type) (t : tree V) k v k',
  wfb t = true ->
  lookup k' (insert k v t) = if list_eqb k k' then Some v else lookup k' t.
Proof. exact (@lookup_insert). Qed.
Print Assumptions lookup_insert_spec.

Theorem lookup_delete_spec : forall (V : Type) (t : tree V) k k',
  wfb t = true ->
  lookup_root k' (delete k t) = if list_eqb k k' then None else lookup k' t.
Proof. exact (@lookup_delete). Qed.
Print Assumptions lookup_delete_spec.

Theorem lookup_delete_prefix_spec : forall (V : Type) (t : tree V) p k',
  wfb t = true ->
  lookup_root k' (delete_prefix p t) = if is_prefix p k' then None else lookup k' t.
Proof. exact (@lookup_delete_prefix). Qed.
Print Assumptions lookup_delete_prefix_spec.
