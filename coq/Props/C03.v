(** C03 - contract state behaves as an ordered map under every operation history.
    Property theorems only: each is closed by [exact] and followed by [Print Assumptions].

    Levels.  A = sorted association list [amap] (Radix.v) and the specification machine
    [s_step] (Locks.v); B = the functional radix tree (Radix.v) and the model machine
    [m_step] (Locks.v).  The theorems relate B to A for all keys, values and histories.
    The copy-on-write arena of the implementation is tied to B by the differential
    correspondence of the check (see design/C03.md). *)
From Coq Require Import NArith List Bool Sorted.
From CB Require Import Trie.Radix.
From CB Require Import Trie.RadixProofs.
From CB Require Import Trie.PrefixMap.
From CB Require Import Trie.Locks.
From CB Require Import Trie.LocksProofs.
From CB Require Import Trie.Nibbles.
From CB Require Import Trie.NibblesProofs.
From CB Require Import Trie.Arena.
From CB Require Import Trie.ArenaProofs.
From CB Require Import Trie.ArenaCow.
From CB Require Import Trie.ArenaTree.
From CB Require Import Trie.ArenaView.
From CB Require Import Trie.ArenaEnt.
From CB Require Import Trie.ArenaSep.
From CB Require Import Trie.ArenaInsert.
From CB Require Import Trie.ArenaHist.
From CB Require Import Trie.ArenaSet.
From CB Require Import Trie.ArenaNewGen.
Import ListNotations.
Local Open Scope N_scope.

(** ** Each operation of the radix tree is the operation of the ordered map *)

Theorem lookup_insert_spec : forall (V : Type) (t : tree V) k v k',
  wfb t = true ->
  lookup k' (insert k v t) = if list_eqb k k' then Some v else lookup k' t.
Proof. exact (@lookup_insert). Qed.
Print Assumptions lookup_insert_spec.

Theorem lookup_delete_spec : forall (V : Type) (t : tree V) k k',
  wfb t = true ->
  lookup_root k' (delete k t) = if list_eqb k k' then None else lookup k' t.
Proof. exact (@lookup_delete). Qed.
Print Assumptions lookup_delete_spec.

Theorem lookup_delete_prefix_spec : forall (V : Type) (t : tree V) p k',
  wfb t = true ->
  lookup_root k' (delete_prefix p t) = if is_prefix p k' then None else lookup k' t.
Proof. exact (@lookup_delete_prefix). Qed.
Print Assumptions lookup_delete_prefix_spec.

(** ... and on the denoted sorted association list ([to_list] = in-order traversal). *)
Theorem lookup_spec : forall (V : Type) (t : tree V) k,
  wfb t = true -> a_lookup k (to_list t) = lookup k t.
Proof. exact (@a_lookup_to_list). Qed.
Print Assumptions lookup_spec.

Theorem insert_spec : forall (V : Type) (r : option (tree V)) k v,
  wfb_root r = true -> to_list (insert_root k v r) = a_insert k v (to_list_root r).
Proof. exact (@to_list_insert_root). Qed.
Print Assumptions insert_spec.

Theorem delete_spec : forall (V : Type) (t : tree V) k,
  wfb t = true -> to_list_root (delete k t) = a_delete k (to_list t).
Proof. exact (@to_list_delete). Qed.
Print Assumptions delete_spec.

Theorem delete_prefix_spec : forall (V : Type) (t : tree V) p,
  wfb t = true -> to_list_root (delete_prefix p t) = a_delete_prefix p (to_list t).
Proof. exact (@to_list_delete_prefix). Qed.
Print Assumptions delete_prefix_spec.

(** Iteration yields exactly the entries under the prefix, in strictly ascending
    lexicographic order. *)
Theorem iterate_spec : forall (V : Type) (t : tree V) p,
  wfb t = true ->
  StronglySorted (fun a b => lex_ltb a b = true) (map fst (iterate p t))
  /\ forall k v, In (k, v) (iterate p t) <-> (is_prefix p k = true /\ lookup k t = Some v).
Proof. exact (@iterate_sorted_exact). Qed.
Print Assumptions iterate_spec.

(** The denoted list is strictly sorted, and a strictly sorted list is determined by its
    lookup function (so the tree denotes exactly one ordered map). *)
Theorem to_list_sorted : forall (V : Type) (t : tree V),
  wfb t = true -> StronglySorted (fun a b => lex_ltb (fst a) (fst b) = true) (to_list t).
Proof. exact (@ksorted_to_list). Qed.
Print Assumptions to_list_sorted.

Theorem sorted_map_canonical : forall (V : Type) (l1 l2 : amap V),
  StronglySorted (fun a b => lex_ltb (fst a) (fst b) = true) l1 ->
  StronglySorted (fun a b => lex_ltb (fst a) (fst b) = true) l2 ->
  (forall k, a_lookup k l1 = a_lookup k l2) -> l1 = l2.
Proof. exact (@ksorted_ext). Qed.
Print Assumptions sorted_map_canonical.

(** ** Well-formedness (children strictly sorted, no value-less node with fewer than
    two children) is preserved by every operation *)
Theorem wf_preserved : forall (V : Type),
  (forall (r : option (tree V)) k v, wfb_root r = true -> wfb (insert_root k v r) = true)
  /\ (forall (t : tree V) k, wfb t = true -> wfb_root (delete k t) = true)
  /\ (forall (t : tree V) p, wfb t = true -> wfb_root (delete_prefix p t) = true).
Proof.
  exact (fun V => conj (@wfb_insert_root V) (conj (@wfb_delete V) (@wfb_delete_prefix V))).
Qed.
Print Assumptions wf_preserved.

(** ** Byte strings and nibble strings: [nib] is an embedding for equality, prefix and
    lexicographic order, so statements about nibble keys are statements about byte keys *)
Theorem nib_embedding : forall a b,
  list_eqb (nib a) (nib b) = list_eqb a b
  /\ is_prefix (nib a) (nib b) = is_prefix a b
  /\ lex_ltb (nib a) (nib b) = lex_ltb a b
  /\ unnib (nib a) = a.
Proof. exact (fun a b => conj (nib_eqb a b) (conj (nib_prefix a b) (conj (nib_lex a b) (unnib_nib a)))). Qed.
Print Assumptions nib_embedding.

(** ** Histories: for every list of operations (insert / get / read / set / get_mut /
    delete / delete_prefix / iter / next / delete_iter / new_generation / normalize /
    freeze / thaw, arbitrary keys and values) the outputs of the model machine are the
    outputs of the ordered-map specification machine *)
Theorem history_refines : forall ops : list op, m_run ops m_init = s_run ops s_init.
Proof. exact history_refines_all. Qed.
Print Assumptions history_refines.

(** ... and the invariants (well-formed tree, well-formed lock map) hold in every
    generation after every history. *)
Theorem wf_every_history : forall ops : list op, m_wf (m_exec ops m_init) = true.
Proof. exact wf_preserved_all. Qed.
Print Assumptions wf_every_history.

(** ** Generations.  After [new_generation], any operations that do not roll back below
    the checkpoint ([keeps]) leave the older generations literally unchanged
    ([no_leak]), and rolling back restores exactly the state at the checkpoint,
    including its handles, iterators and locks ([rollback_restores]).  Stated for the
    model and for the specification. *)
Theorem no_leak : forall ops (base : state),
  base <> [] -> Forall (keeps (length base)) ops ->
  exists newer, newer <> [] /\ m_exec (ONewGen :: ops) base = newer ++ base.
Proof. exact m_no_leak. Qed.
Print Assumptions no_leak.

Theorem rollback_restores : forall ops (base : state),
  base <> [] -> Forall (keeps (length base)) ops ->
  m_exec (ONewGen :: ops ++ [ONormalize (length base - 1)]) base = base.
Proof. exact m_rollback_restores. Qed.
Print Assumptions rollback_restores.

Theorem spec_no_leak : forall ops (base : sstate),
  base <> [] -> Forall (keeps (length base)) ops ->
  exists newer, newer <> [] /\ s_exec (ONewGen :: ops) base = newer ++ base.
Proof. exact s_no_leak. Qed.
Print Assumptions spec_no_leak.

Theorem spec_rollback_restores : forall ops (base : sstate),
  base <> [] -> Forall (keeps (length base)) ops ->
  s_exec (ONewGen :: ops ++ [ONormalize (length base - 1)]) base = base.
Proof. exact s_rollback_restores. Qed.
Print Assumptions spec_rollback_restores.

(** ** The nibble paths as the code stores them (Nibbles.v: byte vector + [last_partial],
    transcribed with the [u8] operations of the code).  Each function is the obvious
    operation on the list of nibbles - including odd nibble boundaries - and keeps the
    stored form well-formed ([st_wf]: bytes are bytes, the unused low nibble of a partial
    last byte is zero). *)
Theorem stem_push_spec : forall s c,
  st_wf s = true -> c < 16 ->
  nibbles (ms_push s c) = nibbles s ++ [c] /\ st_wf (ms_push s c) = true.
Proof. exact ms_push_spec. Qed.
Print Assumptions stem_push_spec.

Theorem stem_truncate_spec : forall s n,
  st_wf s = true -> (n <= st_len s)%nat ->
  nibbles (ms_truncate s n) = firstn n (nibbles s) /\ st_wf (ms_truncate s n) = true.
Proof. exact ms_truncate_spec. Qed.
Print Assumptions stem_truncate_spec.

Theorem stem_extend_spec : forall s t,
  st_wf s = true -> st_wf t = true ->
  nibbles (ms_extend s t) = nibbles s ++ nibbles t /\ st_wf (ms_extend s t) = true.
Proof. exact ms_extend_spec. Qed.
Print Assumptions stem_extend_spec.

Theorem stem_prepend_parts_spec : forall self first mid,
  st_wf self = true -> st_wf first = true -> mid < 16 ->
  nibbles (prepend_parts self first mid) = nibbles first ++ mid :: nibbles self
  /\ st_wf (prepend_parts self first mid) = true.
Proof. exact prepend_parts_spec. Qed.
Print Assumptions stem_prepend_parts_spec.

Theorem stem_iter_next_spec : forall s pos,
  st_wf s = true ->
  it_next (it_of s pos) =
  if Nat.ltb pos (st_len s) then (Some (nth pos (nibbles s) 0), it_of s (S pos)) else (None, it_of s pos).
Proof. exact it_next_spec. Qed.
Print Assumptions stem_iter_next_spec.

Theorem stem_last_to_stem_spec : forall s pos p,
  st_wf s = true -> (p <= st_len s)%nat ->
  nibbles (last_to_stem (it_of s pos) p) = skipn p (nibbles s)
  /\ st_wf (last_to_stem (it_of s pos) p) = true.
Proof. exact last_to_stem_spec. Qed.
Print Assumptions stem_last_to_stem_spec.

Theorem stem_consumed_to_stem_spec : forall s pos,
  st_wf s = true -> (pos <= st_len s)%nat ->
  nibbles (consumed_to_stem (it_of s pos)) = firstn (pos - 1) (nibbles s)
  /\ st_wf (consumed_to_stem (it_of s pos)) = true.
Proof. exact consumed_to_stem_spec. Qed.
Print Assumptions stem_consumed_to_stem_spec.

(** [follow_stem] on the iterators of the code classifies exactly like [follow_stem] on
    the nibble lists (the function the radix-tree model uses), and the stems the callers
    rebuild from the two iterators denote the remaining key, the remaining stem, the
    common part and the key from the checkpoint. *)
Theorem follow_stem_on_iterators : forall key kpos st,
  Forall (fun b => b < 256) key -> st_wf st = true -> (kpos <= 2 * length key)%nat ->
  let K := skipn kpos (nib key) in
  let P := nibbles st in
  let '(r, k', s') := follow_iter (it_of (mkStem key false) kpos) (stem_iter st) in
  nibbles (last_to_stem k' kpos) = K /\
  match follow_stem K P with
  | FEqual => r = IEqual
  | FKeyIsPrefix c ps => r = IKeyIsPrefix c /\ nibbles (to_stem s') = ps
  | FStemIsPrefix c kr => r = IStemIsPrefix c /\ nibbles (to_stem k') = kr
  | FDiff cm kc kr sc sr =>
      r = IDiff kc sc /\ nibbles (consumed_to_stem s') = cm
      /\ nibbles (to_stem k') = kr /\ nibbles (to_stem s') = sr
  end.
Proof. exact follow_iter_correct. Qed.
Print Assumptions follow_stem_on_iterators.

Example stem_odd_boundaries :
  let s := stem_of_nibbles [1; 2; 3] in            (* stored 0x12 0x30, partial *)
  let t := stem_of_nibbles [4; 5; 6] in
  st_wf s = true /\ st_wf t = true
  /\ ms_extend s t = mkStem [18; 52; 86] false     (* 0x12 0x34 0x56 *)
  /\ prepend_parts t s 15 = mkStem [18; 63; 69; 96] true   (* 1 2 3 f 4 5 6 *)
  /\ ms_truncate (ms_extend s t) 3 = s
  /\ fst (fst (follow_iter (iter_new [18; 63]) (stem_iter (ms_extend s t)))) = IDiff 15 4.
Proof. vm_compute. repeat split. Qed.
Print Assumptions stem_odd_boundaries.

(** ** The arena (level C, first model: Arena.v).  The generation bookkeeping of the
    vectors: [new_generation] only appends and records the lengths as checkpoint;
    [make_owned] only appends and touches no node below a bound under the node it is
    applied to; rolling back to the generation a checkpoint was taken from restores the
    arena exactly, and so does rolling back after anything that left the vectors below the
    checkpoint alone. *)
Theorem arena_new_generation_appends : forall a,
  a_gens a <> [] ->
  let a' := a_new_generation a in
  exists g, a_gens a' = a_gens a ++ [g]
    /\ ag_nodes g = length (a_nodes a) /\ ag_values g = length (a_values a) /\ ag_entries g = length (a_entries a)
    /\ firstn (length (a_nodes a)) (a_nodes a') = a_nodes a
    /\ firstn (length (a_entries a)) (a_entries a') = a_entries a
    /\ a_values a' = a_values a.
Proof. exact new_generation_appends. Qed.
Print Assumptions arena_new_generation_appends.

Theorem arena_make_owned_copy_on_write : forall a idx cp,
  (cp <= idx)%nat -> (cp <= length (a_nodes a))%nat ->
  let a' := make_owned a idx in
  a_gens a' = a_gens a /\ a_values a' = a_values a
  /\ (exists es, a_entries a' = a_entries a ++ es)
  /\ firstn cp (a_nodes a') = firstn cp (a_nodes a)
  /\ (length (a_nodes a) <= length (a_nodes a'))%nat.
Proof. exact make_owned_shape. Qed.
Print Assumptions arena_make_owned_copy_on_write.

Theorem arena_normalize_undoes_new_generation : forall a,
  a_gens a <> [] -> a_normalize (length (a_gens a) - 1) (a_new_generation a) = a.
Proof. exact normalize_undoes_new_generation. Qed.
Print Assumptions arena_normalize_undoes_new_generation.

Theorem arena_normalize_restores_prefix : forall a b g newer,
  a_gens b = a_gens a ++ g :: newer -> a_gens a <> [] ->
  ag_nodes g = length (a_nodes a) -> ag_values g = length (a_values a) -> ag_entries g = length (a_entries a) ->
  firstn (length (a_nodes a)) (a_nodes b) = a_nodes a ->
  firstn (length (a_entries a)) (a_entries b) = a_entries a ->
  firstn (length (a_values a)) (a_values b) = a_values a ->
  a_normalize (length (a_gens a) - 1) b = a.
Proof. exact normalize_restores_prefix. Qed.
Print Assumptions arena_normalize_restores_prefix.

Example arena_copy_on_write_example :
  (* generation 0: keys 0x12, 0x13; generation 1 overwrites 0x12 and deletes 0x13; rollback *)
  let run := fix run ops s := match ops with [] => s | o :: r => run r (fst (as_step o s)) end in
  let s0 := run [OInsert [18] [1]; OInsert [19] [2]] as_init in
  let s1 := run [ONewGen; OInsert [18] [9]; ODelete [19]; OGet [18]] s0 in
  sizes (as_arena s0) = [3; 2; 2; 1]%nat
  /\ sizes (as_arena s1) = [6; 4; 3; 2]%nat
  /\ as_arena (fst (as_step (ONormalize 0) s1)) = as_arena s0.
Proof. vm_compute. repeat split. Qed.
Print Assumptions arena_copy_on_write_example.

(** ** Copy-on-write at arena level, proved (ArenaCow.v).  [SInv] is the ownership
    invariant of the arena machine: what lies above the checkpoint of the current
    generation belongs to it - children vectors tagged with the node's own generation
    only point above the checkpoint, shared ones are copied by [make_owned] before a walk
    descends, entries of such nodes and the values of their [Mutable] entries lie above
    the checkpoint, and so do the handles of the generation.
    [TInv] (ArenaTree.v) is the tree-shape invariant: counting the root pointer and the
    children vectors of the nodes above the checkpoint that are tagged with the node's own
    generation, every node index is referenced at most once; whatever is referenced lies
    inside the node vector and carries the number of the current generation; shared
    children vectors and the nodes below the checkpoint only point below the checkpoint.
    Nodes emptied by [mem::take] (the default node left behind by a collapse) are never
    referenced.  That the generation tag of the root equals the number of the current
    generation (which [new_generation] relies on) is a consequence. *)

(** Every operation other than [new_generation] / [normalize] - insert, lookup (which
    copies on the way down), read, set, get_mut, delete with its collapses, delete_prefix
    with its invalidation walk - leaves every node, value and entry below the checkpoint of
    the current generation, and all older generations, unchanged, and preserves the
    invariant. *)
Theorem arena_cow_below_checkpoint : forall o s,
  SInv s -> gen_op o = false ->
  Below (as_arena s) (as_arena (fst (as_step o s))) /\ SInv (fst (as_step o s)).
Proof.
  exact (fun o s HS Hg => match as_step_cow o s HS Hg with
                          | conj (conj _ (conj B _)) (conj S' _) => conj B S' end).
Qed.
Print Assumptions arena_cow_below_checkpoint.

Theorem arena_new_generation_invariant : forall a,
  AInv a -> a_gens a <> [] -> tag_ok a = true -> AInv (a_new_generation a).
Proof. exact new_generation_inv. Qed.
Print Assumptions arena_new_generation_invariant.

(** The tree-shape invariant is preserved by every operation other than [new_generation] /
    [normalize] ... *)
Theorem arena_tree_invariant_step : forall o s,
  SInv s -> TInv (as_arena s) -> gen_op o = false -> TInv (as_arena (fst (as_step o s))).
Proof. exact as_step_t. Qed.
Print Assumptions arena_tree_invariant_step.

(** ... it implies that the root carries the number of the current generation ... *)
Theorem arena_tree_invariant_tag : forall a, TInv a -> root_tag_ok a = true.
Proof. exact tinv_tag_ok. Qed.
Print Assumptions arena_tree_invariant_tag.

(** ... and [new_generation] establishes it for the new generation (no side condition). *)
Theorem arena_new_generation_tree_invariant : forall a,
  AInv a -> TInv a -> a_gens a <> [] -> TInv (a_new_generation a).
Proof. exact new_generation_t. Qed.
Print Assumptions arena_new_generation_tree_invariant.

(** Every state reached by any history from the initial state satisfies the ownership
    invariant, the tree-shape invariant, and has a stack of saved states (one per older
    generation) satisfying the same. *)
Theorem arena_reachable_invariant : forall ops, Reach (as_run ops as_init).
Proof. exact (fun ops => Reach_run ops as_init Reach_init). Qed.
Print Assumptions arena_reachable_invariant.

(** The assertion of the extracted runner ([!TAG]) is a lemma: in every reachable state the
    generation tag of the root is the number of the current generation; hence the checked
    run [as_exec] of ArenaCow.v is the plain run. *)
Theorem arena_root_tag_reachable : forall ops, root_tag_ok (as_arena (as_run ops as_init)) = true.
Proof. exact reachable_tag_ok. Qed.
Print Assumptions arena_root_tag_reachable.

Theorem arena_checked_run_is_run : forall pre ops,
  as_exec ops (as_run pre as_init) = Some (as_run ops (as_run pre as_init)).
Proof. exact (fun pre ops => as_exec_run ops _ (Reach_run pre as_init Reach_init)). Qed.
Print Assumptions arena_checked_run_is_run.

(** No leak: in every reachable state, after a checkpoint and any operations that do not
    roll back below it (including nested checkpoints and rollbacks), the node, value,
    entry and generation vectors of the state at the checkpoint are still a prefix of the
    current ones. *)
Theorem arena_no_leak : forall pre ops,
  let s := as_run pre as_init in
  let c := as_run (ONewGen :: ops) s in
  Forall (keeps (length (a_gens (as_arena s)))) ops ->
  firstn (length (a_nodes (as_arena s))) (a_nodes (as_arena c)) = a_nodes (as_arena s)
  /\ firstn (length (a_values (as_arena s))) (a_values (as_arena c)) = a_values (as_arena s)
  /\ firstn (length (a_entries (as_arena s))) (a_entries (as_arena c)) = a_entries (as_arena s)
  /\ firstn (length (a_gens (as_arena s))) (a_gens (as_arena c)) = a_gens (as_arena s).
Proof. exact arena_no_leak_run. Qed.
Print Assumptions arena_no_leak.

(** Rollback restores: ... and rolling back to the checkpoint gives back exactly the arena
    (all four vectors) and the handle tables of the state at the checkpoint. *)
Theorem arena_rollback_restores : forall pre ops,
  let s := as_run pre as_init in
  Forall (keeps (length (a_gens (as_arena s)))) ops ->
  as_run (ONewGen :: ops ++ [ONormalize (length (a_gens (as_arena s)) - 1)]) s = s.
Proof. exact arena_rollback_run. Qed.
Print Assumptions arena_rollback_restores.

Example arena_rollback_nonvacuous :
  let pre := [OInsert [18] [1]; OInsert [19] [2]; ONewGen; OInsert [20] []] in
  let ops := [OInsert [18] [9]; ODelete [19]; ONewGen; ODeletePrefix []; ONormalize 2; OGet [18]] in
  let s := as_run pre as_init in
  Forall (keeps (length (a_gens (as_arena s)))) ops
  /\ sizes (as_arena s) = [7; 5; 3; 2]%nat
  /\ sizes (as_arena (as_run (ONewGen :: ops) s)) = [11; 8; 4; 3]%nat
  /\ as_run (ONewGen :: ops ++ [ONormalize (length (a_gens (as_arena s)) - 1)]) s = s.
Proof. split; [repeat constructor | vm_compute; repeat split]. Qed.
Print Assumptions arena_rollback_nonvacuous.

(** ** Towards [arena_refines_radix] (PARTIAL: abstraction function + lookup only).
    [abs_t d a idx] unfolds the arena below node [idx] into a radix tree of entry indices (to
    depth [d]); [vview] resolves the entries to their values.  [EInv]: the entries referenced
    by nodes exist (an assumption of the first two theorems; it holds in every reachable
    state, [arena_reachable_entries_exist], so the third theorem has no assumption).
    The commutation for insert / delete / delete_prefix is NOT covered (see design notes). *)

(** [make_owned] - the copying of a shared children vector, which renumbers nodes and
    entries - changes neither the view of any existing node nor the value of any existing
    entry. *)
Theorem arena_make_owned_keeps_view_partial : forall a idx,
  AInv a -> TInv a -> EInv a -> (cpn a <= idx)%nat -> (idx < length (a_nodes a))%nat ->
  (forall d j, (j < length (a_nodes a))%nat -> vview d (make_owned a idx) j = vview d a j)
  /\ (forall e, (e < length (a_entries a))%nat -> a_with_entry (make_owned a idx) e = a_with_entry a e)
  /\ EInv (make_owned a idx).
Proof. exact make_owned_view. Qed.
Print Assumptions arena_make_owned_keeps_view_partial.

(** The copying lookup of the arena returns exactly what [Radix.lookup] finds in the radix
    tree assigned to the root by the abstraction function, and leaves all views and entry
    values as they were. *)
Theorem arena_lookup_refines_radix_partial : forall a key r,
  AInv a -> TInv a -> EInv a -> cur_root a = Some r ->
  let res := a_lookup_key a key in
  option_map (a_with_entry (fst res)) (snd res) = lookup (nib key) (vview (S (length (nib key))) a r)
  /\ (forall d j, (j < length (a_nodes a))%nat -> vview d (fst res) j = vview d a j)
  /\ (forall e, (e < length (a_entries a))%nat -> a_with_entry (fst res) e = a_with_entry a e)
  /\ EInv (fst res).
Proof. exact ArenaView.arena_lookup_refines_radix_partial. Qed.
Print Assumptions arena_lookup_refines_radix_partial.

(** Every reachable state satisfies the ownership invariant, the tree-shape invariant and
    [EInv] (and so do the saved states of its older generations). *)
Theorem arena_reachable_entries_exist : forall ops, ReachE (as_run ops as_init).
Proof. exact (fun ops => ReachE_run ops as_init ReachE_init). Qed.
Print Assumptions arena_reachable_entries_exist.

(** Hence, in every state the arena machine can reach, its lookup is [Radix.lookup] on the
    abstraction of the current root and changes no view and no entry value. *)
Theorem arena_reachable_lookup_refines_radix_partial : forall ops key r,
  let a := as_arena (as_run ops as_init) in
  cur_root a = Some r ->
  let res := a_lookup_key a key in
  option_map (a_with_entry (fst res)) (snd res) = lookup (nib key) (vview (S (length (nib key))) a r)
  /\ (forall d j, (j < length (a_nodes a))%nat -> vview d (fst res) j = vview d a j)
  /\ (forall e, (e < length (a_entries a))%nat -> a_with_entry (fst res) e = a_with_entry a e).
Proof. exact reachable_lookup_refines_radix_partial. Qed.
Print Assumptions arena_reachable_lookup_refines_radix_partial.

Example arena_view_nonvacuous :
  let s := as_run [OInsert [18] [1]; OInsert [19] [2]; ONewGen] as_init in
  let a := as_arena s in
  exists r, cur_root a = Some r
    /\ lookup (nib [19]) (vview 3 a r) = Some (Some [2])
    /\ option_map (a_with_entry (fst (a_lookup_key a [19]))) (snd (a_lookup_key a [19])) = Some (Some [2])
    /\ length (a_nodes (fst (a_lookup_key a [19]))) = (length (a_nodes a) + 2)%nat.
Proof. exact view_example. Qed.
Print Assumptions arena_view_nonvacuous.

(** ** Arena (level C): the mutating operation [insert] commutes with the abstraction
    (gap (b), first part; files Trie/ArenaSep.v, ArenaInsert.v, ArenaHist.v).

    [Tr a idx t fp]: node [idx] of the arena unfolds to the finite radix tree [t] of entry
    indices, visiting exactly the node indices [fp]; [NoDup fp] is the disjointness of the
    sub-arenas of distinct children, the existence of [t] is the height bound. *)

(** The relation determines the depth-indexed view of [ArenaView.v] for every depth from the
    height of the tree on. *)
Theorem arena_sep_determines_view : forall a t idx fp d,
  Tr a idx t fp -> (theight t <= d)%nat -> vview d a idx = tmap (a_with_entry a) t.
Proof. exact Tr_vview. Qed.
Print Assumptions arena_sep_determines_view.

(** [make_owned] (copying the children of a node into its generation, which renumbers nodes
    and entries) keeps the separated-tree relation, the values of the view and the
    separation of the entries, and touches no other existing node. *)
Theorem arena_make_owned_keeps_separation : forall a idx t fp R,
  Tr a idx t fp -> NoDup fp -> Forall (fun j => (j < length (a_nodes a))%nat) fp ->
  ESep a (tentries t ++ R) ->
  let a1 := make_owned a idx in
  exists t1 fp1, Tr a1 idx t1 fp1 /\ NoDup fp1
    /\ Forall (fun j => (j < length (a_nodes a1))%nat) fp1
    /\ (forall j, In j fp1 -> In j fp \/ (length (a_nodes a) <= j)%nat)
    /\ tmap (a_with_entry a1) t1 = tmap (a_with_entry a) t
    /\ ESep a1 (tentries t1 ++ R)
    /\ (forall x, In x R -> edat a1 x = edat a x /\ a_with_entry a1 x = a_with_entry a x)
    /\ (forall j, (j < length (a_nodes a))%nat -> j <> idx -> node_at a1 j = node_at a j)
    /\ (length (a_nodes a) <= length (a_nodes a1))%nat
    /\ a_gens a1 = a_gens a.
Proof. exact mo_sep. Qed.
Print Assumptions arena_make_owned_keeps_separation.

(** [insert] of the arena (all four [follow_stem] cases, the copying walk, parent relinking,
    [set_entry_value] on an existing key) is [Radix.insert] on the view: for every arena
    satisfying the separation invariant [Sep], the view of the new root equals
    [insert_root key (Some v)] of the view before (at every depth from some bound on), the
    returned entry denotes the inserted value, the "existed" flag is "the key was present",
    and [Sep] is preserved. *)
Theorem arena_insert_refines_radix : forall a key v,
  Sep a ->
  let '(a', e, existed) := ar_insert a key v in
  Sep a' /\ a_with_entry a' e = Some v
  /\ exists r', cur_root a' = Some r'
  /\ exists D, forall d, (D <= d)%nat ->
       vview d a' r' = insert_root (nib key) (Some v) (rview d a)
       /\ existed = is_some (lookup_root (nib key) (rview d a)).
Proof. exact insert_refines. Qed.
Print Assumptions arena_insert_refines_radix.

(** The copying lookup under the same invariant: the view is unchanged, the result is
    [Radix.lookup_root] on it, [Sep] is preserved. *)
Theorem arena_lookup_refines_radix_sep : forall a key,
  Sep a ->
  let '(a', oe) := a_lookup_key a key in
  Sep a' /\ cur_root a' = cur_root a
  /\ exists D, forall d, (D <= d)%nat ->
       rview d a' = rview d a
       /\ option_map (a_with_entry a') oe = lookup_root (nib key) (rview d a).
Proof. exact lookup_refines. Qed.
Print Assumptions arena_lookup_refines_radix_sep.

(** Histories: for EVERY list of insert / lookup operations from the empty arena, the
    outputs of the arena machine (handle numbers, "existed" flags, values found) are those
    of the machine that applies [Radix.insert_root] / [Radix.lookup_root] to a radix tree of
    values, the final view is that machine's final tree, and [Sep] holds at the end. *)
Theorem arena_insert_lookup_history_refines_radix : forall ops,
  forallb ins_get_op ops = true ->
  as_outs ops as_init = r_outs ops r_init
  /\ Sep (as_arena (as_run ops as_init))
  /\ exists D, forall d, (D <= d)%nat -> rview d (as_arena (as_run ops as_init)) = fst (r_run ops r_init).
Proof. exact arena_insert_lookup_history. Qed.
Print Assumptions arena_insert_lookup_history_refines_radix.

(** Non-vacuity: [Sep] holds initially; a history with a split at an odd nibble, an
    overwrite of an existing key, a key that is a prefix of another, and lookups. *)
Example arena_sep_nonvacuous : Sep a_empty.
Proof. exact Sep_empty. Qed.
Print Assumptions arena_sep_nonvacuous.

Example arena_insert_lookup_history_nonvacuous :
  let ops := [OInsert [18; 52] [1]; OInsert [18; 63] [2]; OGet [18; 52];
              OInsert [18; 52] [3]; OGet [18; 52]; OGet [18]; OInsert [18] [4]; OGet [18]] in
  forallb ins_get_op ops = true
  /\ as_outs ops as_init =
     [RHandle 0 false; RHandle 1 false; RFound 2 (Some [1]); RHandle 3 true; RFound 4 (Some [3]); RNone;
      RHandle 5 false; RFound 6 (Some [4])].
Proof. exact insert_lookup_history_example. Qed.
Print Assumptions arena_insert_lookup_history_nonvacuous.

(** [set] / [get_mut]+overwrite on an entry of the CURRENT tree (PARTIAL: the handles of the
    arena machine are not tied to the tree): only the value denoted by that entry changes
    in the view, the tree of entry indices and [Sep] are kept, [get_mut] returns the old
    value, and a deleted entry is refused without any change. *)
Theorem arena_set_refines_radix_partial : forall a e v r t fp,
  Sep a -> cur_root a = Some r -> Tr a r t fp -> In e (tentries t) ->
  let a' := fst (a_set a e v) in
  let alive := snd (a_set a e v) in
  Sep a' /\ cur_root a' = Some r /\ Tr a' r t fp
  /\ alive = is_some (a_with_entry a e)
  /\ tmap (a_with_entry a') t = tmap (fun x => if Nat.eqb x e && alive then Some v else a_with_entry a x) t
  /\ fst (a_mut a e v) = a' /\ snd (a_mut a e v) = a_with_entry a e.
Proof. exact set_refines_partial. Qed.
Print Assumptions arena_set_refines_radix_partial.

Example arena_set_nonvacuous :
  let a := fst (fst (ar_insert (fst (fst (ar_insert a_empty [18] [1]))) [19] [2])) in
  exists r, cur_root a = Some r
    /\ abs_t 3 a r = Node [1] None (FCons 2 (Node [] (Some 0%nat) FNil) (FCons 3 (Node [] (Some 1%nat) FNil) FNil))
    /\ a_set a 1 [7] = (fst (a_set a 1 [7]), true)
    /\ vview 3 (fst (a_set a 1 [7])) r
       = Node [1] None (FCons 2 (Node [] (Some (Some [1])) FNil) (FCons 3 (Node [] (Some (Some [7])) FNil) FNil)).
Proof. exact set_example. Qed.
Print Assumptions arena_set_nonvacuous.

(** [new_generation] (the root is migrated into the new generation: a copy with a fresh
    read-only entry that shares the children vector; a checkpoint is pushed) keeps the view of
    the current root and the invariant [Sep]. *)
Theorem arena_new_generation_keeps_view : forall a,
  Sep a ->
  let a' := a_new_generation a in
  Sep a' /\ length (a_gens a') = S (length (a_gens a))
  /\ exists D, forall d, (D <= d)%nat -> rview d a' = rview d a.
Proof. exact new_generation_refines. Qed.
Print Assumptions arena_new_generation_keeps_view.

(** Histories with checkpoints (no rollback): for EVERY list of insert / lookup /
    new_generation operations from the empty arena the outputs of the arena machine equal
    those of the value-level machine [r2_step] (a checkpoint keeps the tree, restarts the
    handle numbering and reports the number of generations), the final view is that
    machine's tree and [Sep] holds.  (Lookups and inserts after a checkpoint walk through
    shared children vectors, i.e. this covers the copy-on-write path of [make_owned].) *)
Theorem arena_insert_lookup_newgen_history_refines_radix : forall ops,
  forallb ins_get_new_op ops = true ->
  as_outs ops as_init = r2_outs ops r2_init
  /\ Sep (as_arena (as_run ops as_init))
  /\ exists D, forall d, (D <= d)%nat ->
       rview d (as_arena (as_run ops as_init)) = fst (fst (r2_run ops r2_init)).
Proof. exact arena_insert_lookup_newgen_history. Qed.
Print Assumptions arena_insert_lookup_newgen_history_refines_radix.

(** [normalize]: rolling back to a checkpoint restores the view of the older generation at every
    depth (and [Sep], if it held), whatever was done in the newer generations - corollary of
    [arena_rollback_restores] (the arena is given back literally); for every reachable state.
    Non-vacuity of the hypothesis: [arena_rollback_nonvacuous] above. *)
Theorem arena_rollback_restores_view : forall pre ops d,
  let s := as_run pre as_init in
  Forall (keeps (length (a_gens (as_arena s)))) ops ->
  let s' := as_run (ONewGen :: ops ++ [ONormalize (length (a_gens (as_arena s)) - 1)]) s in
  rview d (as_arena s') = rview d (as_arena s)
  /\ (forall j, vview d (as_arena s') j = vview d (as_arena s) j)
  /\ (Sep (as_arena s) -> Sep (as_arena s')).
Proof. exact rollback_restores_view. Qed.
Print Assumptions arena_rollback_restores_view.

Example arena_newgen_history_nonvacuous :
  let ops := [OInsert [18; 52] [1]; OInsert [18; 63] [2]; ONewGen; OGet [18; 63];
              OInsert [18; 52] [3]; ONewGen; OInsert [18] [4]; OGet [18; 52]] in
  forallb ins_get_new_op ops = true
  /\ as_outs ops as_init =
     [RHandle 0 false; RHandle 1 false; RGens 2; RFound 0 (Some [2]); RHandle 1 true; RGens 3;
      RHandle 0 false; RFound 1 (Some [3])].
Proof. exact newgen_history_example. Qed.
Print Assumptions arena_newgen_history_nonvacuous.

(** ** Non-vacuity: concrete histories exercising the interesting shapes *)

(** odd-nibble split: 0x12 0x34 and 0x12 0x3f differ in the low nibble of the 2nd byte *)
Example split_at_odd_nibble :
  let t := insert_root (nib [18; 63]) 2%nat (Some (insert_root (nib [18; 52]) 1%nat None)) in
  wfb t = true
  /\ t = Node [1; 2; 3] None (FCons 4 (Node [] (Some 1%nat) FNil) (FCons 15 (Node [] (Some 2%nat) FNil) FNil))
  /\ map fst (iterate (nib [18]) t) = [nib [18; 52]; nib [18; 63]].
Proof. vm_compute. repeat split. Qed.
Print Assumptions split_at_odd_nibble.

(** father and grandfather collapse: deleting 0xab 0xc1 from {0xab 0xc1, 0xab 0xc2}
    merges the branch node with the remaining leaf, which becomes the root again *)
Example father_collapse :
  let t := insert_root (nib [171; 194]) 2%nat (Some (insert_root (nib [171; 193]) 1%nat None)) in
  delete (nib [171; 193]) t = Some (Node (nib [171; 194]) (Some 2%nat) FNil)
  /\ delete_root (nib [171; 194]) (delete (nib [171; 193]) t) = None.
Proof. vm_compute. split; reflexivity. Qed.
Print Assumptions father_collapse.

Example grandfather_collapse :
  let t := insert_root (nib [16; 32]) 3%nat (Some (insert_root (nib [16; 17]) 2%nat
             (Some (insert_root (nib [16; 16]) 1%nat None)))) in
  wfb t = true
  /\ to_list_root (delete (nib [16; 32]) t) = [(nib [16; 16], 1%nat); (nib [16; 17], 2%nat)]
  /\ wfb_root (delete (nib [16; 32]) t) = true
  /\ delete_root (nib [16; 17]) (delete (nib [16; 32]) t) = Some (Node (nib [16; 16]) (Some 1%nat) FNil).
Proof. vm_compute. repeat split. Qed.
Print Assumptions grandfather_collapse.

(** empty key, a 65-byte value, a rollback and a freeze in one history *)
Example history_with_empty_key_and_long_value :
  let v65 := repeat 7 65 in
  m_run [OInsert [] v65; OInsert [0] [1]; ONewGen; ODelete []; OGet []; ONormalize 0; OGet []; OFreeze] m_init
  = [RHandle 0 false; RHandle 1 false; RGens 2; RBool true; RNone; RGens 1; RFound 2 (Some v65);
     RDump [([], Some v65); ([0], Some [1])]].
Proof. vm_compute. reflexivity. Qed.
Print Assumptions history_with_empty_key_and_long_value.

(** the hypotheses of [rollback_restores] are satisfiable by a non-trivial history *)
Example rollback_nonvacuous :
  m_init <> [] /\ Forall (keeps (length m_init)) [OInsert [1] [2]; ONewGen; ODelete [1]; ONormalize 1; OFreeze].
Proof. split; [discriminate|]. repeat constructor. Qed.
Print Assumptions rollback_nonvacuous.
