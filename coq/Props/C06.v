(** C06 - Transaction and update authorisation is exactly the threshold policy.
    Property theorems only; each is closed by [exact] and followed by [Print Assumptions].
    Abstract parameters (universally quantified after the sections close): signature validity
    [sig_valid], signing [sign]/[pub], the hash [H].  Nothing is assumed about them except where a
    hypothesis says so ([sign_correct], decidable equality of digests). *)
From Coq Require Import NArith List Bool String Lia.
From CB Require Import Chain.Auth Chain.AuthProofs Chain.Digest Chain.DigestProofs Gen.TxCost Chain.TxCostProofs.
Import ListNotations.
Local Open Scope N_scope.

(** ------------------------------------------------------------------ acceptance = policy *)

(** [verify_data_signature] (= [verify_signature_transaction_sign_hash]) accepts exactly when: there are
    at least [account threshold] credential entries, and EVERY supplied credential entry is registered,
    carries at least that credential's threshold of signatures, and EVERY supplied signature sits at a
    registered key index and is valid for the data under that key.  (More than the thresholds is
    accepted; duplicates are impossible by the map type; an unknown or under-signed extra credential
    rejects the whole signature.) *)
Theorem verify_iff_policy : forall (PK SIG DATA : Type) (sig_valid : PK -> DATA -> SIG -> bool)
    (a : access PK) (d : DATA) (sm : sig_map SIG),
  verify_data_signature sig_valid a d sm = true <->
  (as_threshold a <= len sm /\
   forall ci cs, In (ci, cs) sm ->
     exists ck, lookup ci (as_creds a) = Some ck /\ ck_threshold ck <= len cs /\
       forall ki s, In (ki, s) cs -> exists pk, lookup ki (ck_keys ck) = Some pk /\ sig_valid pk d s = true).
Proof. exact verify_iff_policy_l. Qed.
Print Assumptions verify_iff_policy.

(** the same in map vocabulary, for signature maps that are BTreeMaps (strictly increasing keys) *)
Theorem verify_iff_policy_map : forall (PK SIG DATA : Type) (sig_valid : PK -> DATA -> SIG -> bool)
    (a : access PK) (d : DATA) (sm : sig_map SIG),
  wf_map sm = true -> (forall ci cs, In (ci, cs) sm -> wf_map cs = true) ->
  (verify_data_signature sig_valid a d sm = true <->
   (as_threshold a <= len sm /\
    forall ci cs, lookup ci sm = Some cs ->
      exists ck, lookup ci (as_creds a) = Some ck /\ ck_threshold ck <= len cs /\
        forall ki s, lookup ki cs = Some s -> exists pk, lookup ki (ck_keys ck) = Some pk /\ sig_valid pk d s = true)).
Proof. exact verify_iff_policy_map_l. Qed.
Print Assumptions verify_iff_policy_map.

(** sponsored (v1) transactions: sender policy, and sponsor policy for the sponsor signature IF ONE IS
    SUPPLIED *)
Theorem verify_v1_iff_policy : forall (PK SIG DATA : Type) (sig_valid : PK -> DATA -> SIG -> bool)
    (sender sponsor : access PK) (d : DATA) (ssig : sig_map SIG) (psig : option (sig_map SIG)),
  verify_v1 sig_valid sender sponsor d ssig psig = true <->
  (policy PK SIG DATA sig_valid sender d ssig /\ forall sg, psig = Some sg -> policy PK SIG DATA sig_valid sponsor d sg).
Proof. exact verify_v1_iff_l. Qed.
Print Assumptions verify_v1_iff_policy.

(** Transaction-level v1 verification ([AccountTransactionV1::verify_transaction_signature], with the
    guard of /repo commit 12eb729ed): acceptance is the sender policy, AND the sponsor policy for the
    sponsor signature if one is supplied, AND a sponsor signature is supplied whenever the header names
    a sponsor.  No side condition on the shape of the transaction. *)
Theorem verify_tx_v1_iff_policy : forall (PK SIG DATA : Type) (sig_valid : PK -> DATA -> SIG -> bool)
    (hs : option N) (sender sponsor : access PK) (d : DATA) (ssig : sig_map SIG) (psig : option (sig_map SIG)),
  verify_tx_v1 sig_valid hs sender sponsor d ssig psig = true <->
  (policy PK SIG DATA sig_valid sender d ssig /\
   (hs <> None -> psig <> None) /\
   forall sg, psig = Some sg -> policy PK SIG DATA sig_valid sponsor d sg).
Proof.
  intros PK SIG DATA sv hs sender sponsor d ssig psig. unfold verify_tx_v1.
  destruct hs as [a|], psig as [sg|]; try rewrite verify_v1_iff_l.
  - split.
    + intros [H1 H2]. split; [exact H1|]. split; [discriminate|exact H2].
    + intros [H1 [_ H2]]. split; assumption.
  - split; [discriminate|]. intros [_ [H _]]. exfalso. apply H; [discriminate|reflexivity].
  - split.
    + intros [H1 H2]. split; [exact H1|]. split; [intros C; exfalso; apply C; reflexivity|exact H2].
    + intros [H1 [_ H2]]. split; assumption.
  - split.
    + intros [H1 H2]. split; [exact H1|]. split; [intros C; exfalso; apply C; reflexivity|exact H2].
    + intros [H1 [_ H2]]. split; assumption.
Qed.
Print Assumptions verify_tx_v1_iff_policy.

(** the property's demand for sponsored transactions: a transaction that names a sponsor verifies only
    if the sponsor signed and the sponsor's signature map satisfies the sponsor's threshold policy *)
Theorem sponsored_requires_sponsor_policy : forall (PK SIG DATA : Type) (sig_valid : PK -> DATA -> SIG -> bool)
    (hs : option N) (sender sponsor : access PK) (d : DATA) (ssig : sig_map SIG) (psig : option (sig_map SIG)),
  hs <> None -> verify_tx_v1 sig_valid hs sender sponsor d ssig psig = true ->
  policy PK SIG DATA sig_valid sender d ssig /\ exists sg, psig = Some sg /\ policy PK SIG DATA sig_valid sponsor d sg.
Proof.
  intros PK SIG DATA sv hs sender sponsor d ssig psig Hn V.
  apply verify_tx_v1_iff_policy in V as [H1 [H2 H3]]. split; [exact H1|].
  destruct psig as [sg|]; [exists sg; auto|exfalso; apply (H2 Hn); reflexivity].
Qed.
Print Assumptions sponsored_requires_sponsor_policy.

(** REGRESSION WITNESS (was finding KF-C06-1, repaired by /repo commit 12eb729ed): the function WITHOUT
    the guard ([verify_tx_v1_prefix], the code before the fix) accepts a transaction whose header names
    a sponsor, carrying no sponsor signature, with the sender's signature alone - against ANY sponsor
    access structure; the repaired function rejects the same input. *)
Theorem prefix_verify_tx_v1_refuted :
  exists (header_sponsor : option N) (sender sponsor : access unit) (ssig : sig_map bool) (psig : option (sig_map bool)),
    header_sponsor <> None /\ psig = None /\ as_creds sponsor = [] /\
    verify_tx_v1_prefix (fun _ _ (b : bool) => b) header_sponsor sender sponsor tt ssig psig = true /\
    verify_tx_v1 (fun _ _ (b : bool) => b) header_sponsor sender sponsor tt ssig psig = false.
Proof.
  exists (Some 7), (mkAccess [(0, mkCred [(0, tt)] 1)] 1), (mkAccess [] 1), [(0, [(0, true)])], None.
  split; [discriminate|]. split; [reflexivity|]. split; [reflexivity|]. split; vm_compute; reflexivity.
Qed.
Print Assumptions prefix_verify_tx_v1_refuted.

(** both shapes are inhabited: named sponsor with a sufficient sponsor signature accepts; an UNNAMED
    sponsor with a sponsor signature is decided by the sponsor policy against the caller's sponsor keys *)
Example verify_tx_v1_nonvacuous :
  let a := mkAccess [(0, mkCred [(0, tt)] 1)] 1 in
  verify_tx_v1_bits true a a [(0, [(0, true)])] (Some [(0, [(0, true)])]) = true /\
  verify_tx_v1_bits true a a [(0, [(0, true)])] None = false /\
  verify_tx_v1_bits true a a [(0, [(0, true)])] (Some [(0, [(0, false)])]) = false /\
  verify_tx_v1_bits false a a [(0, [(0, true)])] None = true /\
  verify_tx_v1_bits false a a [(0, [(0, true)])] (Some [(0, [(0, true)])]) = true /\
  verify_tx_v1_bits false a a [(0, [(0, true)])] (Some [(0, [(0, false)])]) = false.
Proof. vm_compute. repeat split. Qed.
Print Assumptions verify_tx_v1_nonvacuous.

(** ------------------------------------------------------------------ completeness *)
Theorem sign_sufficient_verifies : forall (PK SIG DATA : Type) (sig_valid : PK -> DATA -> SIG -> bool)
    (SK : Type) (pub : SK -> PK) (sign : SK -> DATA -> SIG),
  (forall sk d, sig_valid (pub sk) d (sign sk d) = true) ->
  forall (a : access PK) (ks : amap (amap SK)) (d : DATA),
    (as_threshold a <= len ks /\
     forall ci kk, In (ci, kk) ks ->
       exists ck, lookup ci (as_creds a) = Some ck /\ ck_threshold ck <= len kk /\
         forall ki sk, In (ki, sk) kk -> lookup ki (ck_keys ck) = Some (pub sk)) ->
    verify_data_signature sig_valid a d (sign_map sign ks d) = true.
Proof. exact sign_sufficient_verifies_l. Qed.
Print Assumptions sign_sufficient_verifies.

(** the [AccountKeys] signer (first [threshold] credentials, first [threshold] keys of each) verifies
    against the access structure derived from the same keys, and signs with exactly [num_keys] keys *)
Theorem account_keys_sign_verifies : forall (PK SIG DATA : Type) (sig_valid : PK -> DATA -> SIG -> bool)
    (SK : Type) (pub : SK -> PK) (sign : SK -> DATA -> SIG),
  (forall sk d, sig_valid (pub sk) d (sign sk d) = true) ->
  forall (ak : account_keys SK) (d : DATA), account_keys_wf SK ak ->
    verify_data_signature sig_valid (access_of_keys pub ak) d (account_keys_sign sign ak d) = true
    /\ num_signatures (account_keys_sign sign ak d) = account_keys_num_keys ak.
Proof.
  intros PK SIG DATA sv SK pub sign Hc ak d W. split.
  - exact (account_keys_sign_verifies_l PK SIG DATA sv SK pub sign Hc ak d W).
  - exact (account_keys_num_keys_exact SIG DATA SK sign ak d W).
Qed.
Print Assumptions account_keys_sign_verifies.

(** ------------------------------------------------------------------ rejection corollaries *)
Theorem extra_unknown_credential_rejects : forall (PK SIG DATA : Type) (sig_valid : PK -> DATA -> SIG -> bool)
    (a : access PK) (d : DATA) (sm : sig_map SIG) ci cs,
  In (ci, cs) sm -> lookup ci (as_creds a) = None -> verify_data_signature sig_valid a d sm = false.
Proof. exact extra_unknown_credential_rejects_l. Qed.
Print Assumptions extra_unknown_credential_rejects.

Theorem one_invalid_signature_rejects : forall (PK SIG DATA : Type) (sig_valid : PK -> DATA -> SIG -> bool)
    (a : access PK) (d : DATA) (sm : sig_map SIG) ci cs ck ki s pk,
  In (ci, cs) sm -> lookup ci (as_creds a) = Some ck -> In (ki, s) cs -> lookup ki (ck_keys ck) = Some pk ->
  sig_valid pk d s = false -> verify_data_signature sig_valid a d sm = false.
Proof. exact one_invalid_signature_rejects_l. Qed.
Print Assumptions one_invalid_signature_rejects.

Theorem unknown_key_index_rejects : forall (PK SIG DATA : Type) (sig_valid : PK -> DATA -> SIG -> bool)
    (a : access PK) (d : DATA) (sm : sig_map SIG) ci cs ck ki s,
  In (ci, cs) sm -> lookup ci (as_creds a) = Some ck -> In (ki, s) cs -> lookup ki (ck_keys ck) = None ->
  verify_data_signature sig_valid a d sm = false.
Proof. exact unknown_key_index_rejects_l. Qed.
Print Assumptions unknown_key_index_rejects.

Theorem too_few_signatures_rejects : forall (PK SIG DATA : Type) (sig_valid : PK -> DATA -> SIG -> bool)
    (a : access PK) (d : DATA) (sm : sig_map SIG) ci cs ck,
  In (ci, cs) sm -> lookup ci (as_creds a) = Some ck -> len cs < ck_threshold ck ->
  verify_data_signature sig_valid a d sm = false.
Proof. exact too_few_signatures_rejects_l. Qed.
Print Assumptions too_few_signatures_rejects.

Theorem too_few_credentials_rejects : forall (PK SIG DATA : Type) (sig_valid : PK -> DATA -> SIG -> bool)
    (a : access PK) (d : DATA) (sm : sig_map SIG),
  len sm < as_threshold a -> verify_data_signature sig_valid a d sm = false.
Proof. exact too_few_credentials_rejects_l. Qed.
Print Assumptions too_few_credentials_rejects.

(** ------------------------------------------------------------------ chain updates *)
(** Reference acceptance rule for update instructions (rust-src has no verifier; this is the node's
    rule): at least [threshold] signatures, every signing index authorised for the update type, every
    signature valid under [keys[index]]. *)
Theorem update_verify_iff_policy : forall (PK SIG DATA : Type) (sig_valid : PK -> DATA -> SIG -> bool)
    (keys : list PK) (acc : access_structure) (d : DATA) (sigs : amap SIG),
  update_verify sig_valid keys acc d sigs = true <->
  (au_threshold acc <= len sigs /\
   forall ki s, In (ki, s) sigs ->
     In ki (au_keys acc) /\ exists pk, nth_error keys (N.to_nat ki) = Some pk /\ sig_valid pk d s = true).
Proof. exact update_verify_iff_policy_l. Qed.
Print Assumptions update_verify_iff_policy.

(** [find_authorized_keys] + [sign_update_hash]: a signer built from at least [threshold] key pairs,
    all authorised for the update type and pairwise distinct, is accepted by the rule above. *)
Theorem update_sign_sufficient_verifies : forall (PK SIG DATA : Type) (sig_valid : PK -> DATA -> SIG -> bool)
    (SK : Type) (pub : SK -> PK) (sign : SK -> DATA -> SIG),
  (forall sk d, sig_valid (pub sk) d (sign sk d) = true) ->
  forall (pk_eqb : PK -> PK -> bool), (forall x y, pk_eqb x y = true <-> x = y) ->
  forall (keys : list PK) (acc : access_structure) (actual : list SK) (m : amap SK) (d : DATA),
    len keys <= 65536 ->
    find_authorized_keys pub pk_eqb keys acc actual = Some m ->
    au_threshold acc <= len actual ->
    update_verify sig_valid keys acc d (sign_update sign m d) = true.
Proof. exact update_sign_sufficient_verifies_l. Qed.
Print Assumptions update_sign_sufficient_verifies.

(** what [find_authorized_keys] returns: one entry per supplied key pair, each at an authorised index
    that holds that key pair's public key *)
Theorem find_authorized_keys_sound : forall (PK SK : Type) (pub : SK -> PK) (pk_eqb : PK -> PK -> bool),
  (forall x y, pk_eqb x y = true <-> x = y) ->
  forall (keys : list PK) (acc : access_structure) (actual : list SK) (m : amap SK),
    find_authorized_keys pub pk_eqb keys acc actual = Some m ->
    len m = len actual /\
    forall ki sk, In (ki, sk) m ->
      In sk actual /\ In ki (au_keys acc) /\ exists j, ki = j mod 65536 /\ nth_error keys (N.to_nat j) = Some (pub sk).
Proof.
  intros PK SK pub pk_eqb Hs keys acc actual m H.
  destruct (find_authorized_from_sound PK SK pub pk_eqb Hs keys acc actual [] m H) as [L P]. split.
  - rewrite L. reflexivity.
  - intros ki sk Hin. destruct (P ki sk Hin) as [[]|R]. exact R.
Qed.
Print Assumptions find_authorized_keys_sound.

(** the threshold condition under which [AccessStructure] / [HigherLevelAccessStructure] deserialize:
    exactly 1 <= threshold <= number of keys - in particular n-of-n (and 1-of-1) structures are legal *)
Theorem access_structure_wf_iff : forall acc,
  access_structure_wf acc = true <-> 1 <= au_threshold acc <= len (au_keys acc).
Proof.
  intros acc. unfold access_structure_wf. rewrite andb_true_iff, N.ltb_lt, N.leb_le. lia.
Qed.
Print Assumptions access_structure_wf_iff.

(** n-of-n: decodable, accepted when all n authorised keys sign, rejected with n-1 signatures; (n+1)-of-n is
    not decodable and never accepted *)
Example update_n_of_n_nonvacuous :
  access_structure_wf (mkAS [0] 1) = true /\ update_verify_bits 1 (mkAS [0] 1) [(0, true)] = true /\
  access_structure_wf (mkAS [0; 1] 2) = true /\ update_verify_bits 2 (mkAS [0; 1] 2) [(0, true); (1, true)] = true /\
  update_verify_bits 2 (mkAS [0; 1] 2) [(1, true)] = false /\
  access_structure_wf (mkAS [0; 1; 2] 3) = true /\ update_verify_bits 3 (mkAS [0; 1; 2] 3) [(0, true); (1, true); (2, true)] = true /\
  update_verify_bits 3 (mkAS [0; 1; 2] 3) [(0, true); (2, true)] = false /\
  access_structure_wf (mkAS [0; 1; 2] 4) = false /\ update_verify_bits 3 (mkAS [0; 1; 2] 4) [(0, true); (1, true); (2, true)] = false /\
  access_structure_wf (mkAS [0] 2) = false /\ access_structure_wf (mkAS [] 1) = false.
Proof. vm_compute. repeat split. Qed.
Print Assumptions update_n_of_n_nonvacuous.

(** ------------------------------------------------------------------ digest binding *)
(** distinct (header, payload) give distinct hash inputs - v0, v1 (with the domain prefix) and updates *)
Theorem digest_injective_preimage :
  (forall h1 p1 h2 p2, header_wf h1 -> header_wf h2 -> (h1, p1) <> (h2, p2) -> preimage_v0 h1 p1 <> preimage_v0 h2 p2) /\
  (forall h1 p1 h2 p2, header_v1_wf h1 -> header_v1_wf h2 -> (h1, p1) <> (h2, p2) -> preimage_v1 h1 p1 <> preimage_v1 h2 p2) /\
  (forall h1 p1 h2 p2, update_header_wf h1 -> update_header_wf h2 -> (h1, p1) <> (h2, p2) ->
     preimage_update h1 p1 <> preimage_update h2 p2) /\
  (forall h p h' p', header_wf h -> h_sender h <> prefix_v1 -> preimage_v0 h p <> preimage_v1 h' p').
Proof.
  split; [|split; [|split]].
  - exact (distinct_inputs_distinct_preimages header header_wf enc_header [] enc_header_pfree).
  - exact (distinct_inputs_distinct_preimages header_v1 header_v1_wf enc_header_v1 prefix_v1 enc_header_v1_pfree).
  - exact (distinct_inputs_distinct_preimages update_header update_header_wf enc_update_header [] enc_update_header_pfree).
  - exact cross_version_disjoint.
Qed.
Print Assumptions digest_injective_preimage.

(** PARTIAL by nature ("changing any bit makes verification fail" holds only relative to the hash and
    the signature scheme): if a signature map verifies for two different (header, payload) pairs then
    either the two hash inputs are an explicit collision of [H], or some supplied signature is valid,
    under one registered key, on two different digests.  Stated for an arbitrary prefix-free header
    encoder and instantiated below for the three concrete encoders. *)
Theorem tamper_needs_collision_or_forgery_partial :
  forall (HASH HDR : Type) (H : list N -> HASH) (hash_eq_dec : forall x y : HASH, {x = y} + {x <> y})
         (wf : HDR -> Prop) (enc : HDR -> list N) (tag : list N), pfree wf enc ->
  forall (PK SIG : Type) (sig_valid : PK -> HASH -> SIG -> bool) (a : access PK) (sm : sig_map SIG) h1 p1 h2 p2,
    wf h1 -> wf h2 -> thresholds_positive PK a -> (h1, p1) <> (h2, p2) ->
    verify_data_signature sig_valid a (H (tag ++ enc h1 ++ p1)) sm = true ->
    verify_data_signature sig_valid a (H (tag ++ enc h2 ++ p2)) sm = true ->
    ((tag ++ enc h1 ++ p1) <> (tag ++ enc h2 ++ p2) /\ H (tag ++ enc h1 ++ p1) = H (tag ++ enc h2 ++ p2))
    \/ (H (tag ++ enc h1 ++ p1) <> H (tag ++ enc h2 ++ p2) /\
        exists ci cs ck ki s pk,
          In (ci, cs) sm /\ In (ki, s) cs /\ lookup ci (as_creds a) = Some ck /\ lookup ki (ck_keys ck) = Some pk /\
          sig_valid pk (H (tag ++ enc h1 ++ p1)) s = true /\ sig_valid pk (H (tag ++ enc h2 ++ p2)) s = true).
Proof. exact tamper_needs_collision_or_forgery. Qed.
Print Assumptions tamper_needs_collision_or_forgery_partial.

Theorem header_encoders_prefix_free :
  pfree header_wf enc_header /\ pfree header_v1_wf enc_header_v1 /\ pfree update_header_wf enc_update_header.
Proof. exact (conj enc_header_pfree (conj enc_header_v1_pfree enc_update_header_pfree)). Qed.
Print Assumptions header_encoders_prefix_free.

(** ------------------------------------------------------------------ declared size, energy *)
Theorem declared_size_correct : forall sender nonce expiry payload energy rest,
  h_payload_size (construct_header sender nonce expiry payload energy) = len payload /\
  split_body (construct_header sender nonce expiry payload energy) (payload ++ rest) = (payload, rest) /\
  (header_wf (construct_header sender nonce expiry payload energy) ->
   skipn 60 (enc_header (construct_header sender nonce expiry payload energy) ++ payload ++ rest) = payload ++ rest).
Proof.
  intros. split; [reflexivity|]. split; [apply split_body_constructed|apply body_after_header].
Qed.
Print Assumptions declared_size_correct.

Theorem energy_formula :
  (forall size nsigs, base_cost size nsigs = 1 * size + 100 * nsigs) /\
  (forall type_cost payload_size num_sigs,
     builder_energy type_cost payload_size num_sigs = 1 * (60 + payload_size) + 100 * num_sigs + type_cost) /\
  (forall size n1 n2, n1 < n2 -> base_cost size n1 < base_cost size n2) /\
  (forall s1 s2 n, s1 < s2 -> base_cost s1 n < base_cost s2 n) /\
  (forall size nsigs, size < 2 ^ 33 -> nsigs < 2 ^ 32 -> base_cost size nsigs < 2 ^ 64).
Proof.
  exact (conj base_cost_formula_l (conj energy_formula_l (conj base_cost_sigs_strict_l
        (conj base_cost_size_strict_l base_cost_no_overflow_l)))).
Qed.
Print Assumptions energy_formula.

Theorem documented_type_costs :
  cost_transfer = 300 /\ cost_transfer_with_memo = 300 /\
  cost_encrypted_transfer = 27000 /\ cost_encrypted_transfer_with_memo = 27000 /\
  cost_transfer_to_encrypted = 600 /\ cost_transfer_to_public = 14850 /\
  cost_add_baker = 4050 /\ cost_update_baker_keys = 4050 /\ cost_remove_baker = 300 /\
  cost_update_baker_stake = 300 /\ cost_update_baker_restake_earnings = 300 /\
  cost_register_data = 300 /\ cost_configure_delegation = 300 /\
  cost_configure_baker true = 4050 /\ cost_configure_baker false = 300 /\
  (forall e, cost_init_contract e = e) /\ (forall e, cost_update_contract e = e) /\
  (forall n, cost_transfer_with_schedule n = n * 364) /\
  (forall n, cost_transfer_with_schedule_and_memo n = n * 364) /\
  (forall s, cost_deploy_module s = s / 10) /\
  (forall c k, cost_update_credential_keys c k = 500 * c + 100 * k) /\
  (forall c ks, cost_update_credentials c ks = 500 + (500 * c + fold_right N.add 0 (map (fun k => 54000 + 100 * k) ks))) /\
  (forall ops, cost_token_update_operations ops = 300 + fold_right N.add 0 (map token_op_cost ops)) /\
  map token_op_cost ["Transfer"; "Mint"; "Burn"; "AddAllowList"; "RemoveAllowList"; "AddDenyList";
                     "RemoveDenyList"; "Pause"; "Unpause"; "SomethingElse"]%string
    = [100; 50; 50; 50; 50; 50; 50; 50; 50; 0].
Proof. exact documented_type_costs_l. Qed.
Print Assumptions documented_type_costs.

Theorem sponsored_energy : forall h sponsor n h',
  add_sponsor A (extend_header h) sponsor n = Some h' ->
  h_energy (h1_base h') = h_energy h + 2 + (32 + 100 * n) /\ h1_sponsor h' = Some sponsor /\
  h_payload_size (h1_base h') = h_payload_size h /\ h_sender (h1_base h') = h_sender h /\
  h_nonce (h1_base h') = h_nonce h /\ h_expiry (h1_base h') = h_expiry h.
Proof. exact sponsored_energy_l. Qed.
Print Assumptions sponsored_energy.

(** ------------------------------------------------------------------ non-vacuity *)
(** a 2-of-3 account whose credential 0 needs 2 of its 2 keys and credential 2 needs 1 of 2:
    an accepting signature map (with one signature more than needed), and rejecting neighbours *)
Definition ex_access : access unit :=
  mkAccess [(0, mkCred [(0, tt); (1, tt)] 2); (2, mkCred [(0, tt); (5, tt)] 1); (7, mkCred [(3, tt)] 1)] 2.
Example verify_nonvacuous :
  verify_bits ex_access [(0, [(0, true); (1, true)]); (2, [(0, true); (5, true)])] = true /\
  verify_bits ex_access [(0, [(0, true); (1, true)])] = false /\
  verify_bits ex_access [(0, [(0, true)]); (2, [(5, true)])] = false /\
  verify_bits ex_access [(0, [(0, true); (1, true)]); (2, [(5, true)]); (9, [(0, true)])] = false /\
  verify_bits ex_access [(0, [(0, true); (1, false)]); (2, [(5, true)])] = false /\
  verify_bits ex_access [(0, [(0, true); (1, true)]); (2, [(4, true)])] = false.
Proof. vm_compute. repeat split. Qed.
Print Assumptions verify_nonvacuous.

(** the hypotheses of [sign_sufficient_verifies] and [account_keys_sign_verifies] are satisfiable
    (keys are numbers, a signature is the pair (key, data), valid when it matches) *)
Example sign_sufficient_nonvacuous :
  let sv := fun (pk : N) (d : N) (s : N * N) => N.eqb (fst s) pk && N.eqb (snd s) d in
  let a := mkAccess [(0, mkCred [(0, 10); (1, 11)] 2); (3, mkCred [(4, 12)] 1)] 2 in
  let ks := [(0, [(0, 10); (1, 11)]); (3, [(4, 12)])] in
  (forall sk d, sv sk d (sk, d) = true) /\
  signer_sufficient N N (fun x : N => x) a ks /\
  verify_data_signature sv a 99 (sign_map (fun sk d => (sk, d)) ks 99) = true /\
  account_keys_wf N (mkAccountKeys [(0, mkCredData [(0, 10); (1, 11)] 2); (3, mkCredData [(4, 12)] 1)] 2).
Proof.
  cbn zeta. split; [intros; cbn [fst snd]; rewrite !N.eqb_refl; reflexivity|]. split.
  - split; [vm_compute; discriminate|]. intros ci kk [E|[E|[]]]; inversion E; subst.
    + eexists; split; [reflexivity|]. split; [vm_compute; discriminate|].
      intros ki sk [E'|[E'|[]]]; inversion E'; subst; reflexivity.
    + eexists; split; [reflexivity|]. split; [vm_compute; discriminate|].
      intros ki sk [E'|[]]; inversion E'; subst; reflexivity.
  - split; [vm_compute; reflexivity|]. split; [reflexivity|]. split; [vm_compute; discriminate|].
    intros ci cd [E|[E|[]]]; inversion E; subst; split; try reflexivity; vm_compute; discriminate.
Qed.
Print Assumptions sign_sufficient_nonvacuous.

Example update_nonvacuous :
  let acc := mkAS [1; 2; 4] 2 in
  find_authorized_ids [100; 101; 102; 103; 104] acc [104; 101] = Some [(1, 101); (4, 104)] /\
  find_authorized_ids [100; 101; 102; 103; 104] acc [104; 100] = None /\
  find_authorized_ids [100; 101; 102; 103; 104] acc [104; 104] = None /\
  update_verify_bits 5 acc [(1, true); (4, true)] = true /\
  update_verify_bits 5 acc [(1, true)] = false /\
  update_verify_bits 5 acc [(1, true); (3, true)] = false /\
  update_verify_bits 5 acc [(1, true); (4, false)] = false.
Proof. vm_compute. repeat split. Qed.
Print Assumptions update_nonvacuous.

(** two different headers, both well formed, positive thresholds: the hypotheses of the binding
    theorem are satisfiable *)
Example binding_nonvacuous :
  let h1 := mkHeader (repeat 7 32) 1 500 3 1000 in
  let h2 := mkHeader (repeat 7 32) 2 500 3 1000 in
  header_wf h1 /\ header_wf h2 /\ (h1, [1; 2; 3]) <> (h2, [1; 2; 3]) /\
  thresholds_positive unit ex_access /\ List.length (preimage_v0 h1 [1; 2; 3]) = 63%nat.
Proof.
  cbn zeta. split; [|split; [|split; [|split]]].
  - repeat split; vm_compute; reflexivity.
  - repeat split; vm_compute; reflexivity.
  - intros E. inversion E.
  - split; [vm_compute; discriminate|]. intros ci ck Hl. unfold ex_access in Hl. cbn [as_creds lookup] in Hl.
    destruct (N.eqb ci 0); [inversion Hl; vm_compute; discriminate|].
    destruct (N.eqb ci 2); [inversion Hl; vm_compute; discriminate|].
    destruct (N.eqb ci 7); [inversion Hl; vm_compute; discriminate|discriminate].
  - reflexivity.
Qed.
Print Assumptions binding_nonvacuous.
