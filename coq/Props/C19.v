(** C19 - consensus signature primitives (BLS aggregation, proof of possession, PS signatures,
    ECVRF): property theorems only.  Each is closed by [exact] and followed by
    [Print Assumptions].  Every theorem is universally quantified over the pairing setting
    [A : pops] with its laws [plaws A] (resp. over the abelian group with integer action for the
    VRF) and over all hash functions.  Unforgeability, pseudorandomness and full VRF uniqueness
    are computational and are NOT stated here; what is stated instead are the exact acceptance
    conditions (the "forgery event" made explicit) and binding as explicit hash collisions. *)
From Coq Require Import ZArith List Permutation Bool.
From CB Require Import Crypto.PairingAlg Crypto.Bls Crypto.BlsProofs Crypto.Ps Crypto.PsProofs
  Crypto.Vrf Crypto.VrfProofs Crypto.VrfInst
  Crypto.DupSort Crypto.ParReduce Crypto.BlsPar Crypto.VrfBytes Crypto.VrfBytesProofs Crypto.VrfBytesTheorems.
Import ListNotations.

(** an honest signature verifies under its key and message *)
Theorem bls_complete :
  forall A : pops,
  plaws A ->
  forall (Msg : Type) (H1 : Msg -> P1 A) (sk : PF A) (m : Msg),
  verify A Msg H1 (pk_of A sk) m (sign A Msg H1 sk m) = true.
Proof. exact bls_complete_l. Qed.
Print Assumptions bls_complete.

(** [verify] accepts exactly when the pairing equation holds *)
Theorem bls_verify_iff :
  forall A : pops,
  plaws A ->
  forall (Msg : Type) (H1 : Msg -> P1 A) (pk : P2 A) (m : Msg) (sig : P1 A),
  verify A Msg H1 pk m sig = true <-> pair A sig (gen2 A) = pair A (H1 m) pk.
Proof. exact verify_iff. Qed.
Print Assumptions bls_verify_iff.

(** an honest signature is accepted under (pk', m') iff sk*h(m) = sk'*h(m') in the exponent: the forgery event, explicit *)
Theorem bls_forgery_event :
  forall A : pops,
  plaws A ->
  forall (Msg : Type) (H1 : Msg -> P1 A) (sk : PF A) (m : Msg) (pk' : P2 A) (m' : Msg),
  verify A Msg H1 pk' m' (sign A Msg H1 sk m) = true <->
  fmul (PF A) sk (dl1 A (H1 m)) = fmul (PF A) (dl1 A (H1 m')) (dl2 A pk').
Proof. exact bls_forgery_event_l. Qed.
Print Assumptions bls_forgery_event.

(** same message, any other key: rejected (H1 m is not the identity) *)
Theorem bls_wrong_key_rejected :
  forall A : pops,
  plaws A ->
  forall (Msg : Type) (H1 : Msg -> P1 A) (sk : PF A) (m : Msg) (pk' : P2 A),
  H1 m <> m0 (P1 A) -> pk' <> pk_of A sk -> verify A Msg H1 pk' m (sign A Msg H1 sk m) = false.
Proof. exact bls_wrong_key_rejected_l. Qed.
Print Assumptions bls_wrong_key_rejected.

(** same key, other message accepted ==> H1 collides on the two messages *)
Theorem bls_wrong_message_is_H1_collision :
  forall A : pops,
  plaws A ->
  forall (Msg : Type) (H1 : Msg -> P1 A) (sk : PF A) (m m' : Msg),
  sk <> f0 (PF A) ->
  verify A Msg H1 (pk_of A sk) m' (sign A Msg H1 sk m) = true -> H1 m' = H1 m.
Proof. exact bls_wrong_message_collision_l. Qed.
Print Assumptions bls_wrong_message_is_H1_collision.

(** any number of signers, pairs listed in any order, signatures aggregated in any order *)
Theorem aggregate_verifies_its_multiset :
  forall A : pops,
  plaws A ->
  forall (Msg Dg : Type) (dg_eqb : Dg -> Dg -> bool),
  (forall a b : Dg, dg_eqb a b = true <-> a = b) ->
  forall (hm : Msg -> Dg) (H1 : Msg -> P1 A) (signers order : list (PF A * Msg))
    (sigs' : list (P1 A)),
  signers <> [] ->
  NoDup (map (fun s : PF A * Msg => hm (snd s)) signers) ->
  Permutation signers order ->
  Permutation (sigs_of A Msg H1 signers) sigs' ->
  verify_aggregate_sig A Msg Dg dg_eqb hm H1 (pairs_of A Msg order) (aggregate_list A sigs') =
  true.
Proof. exact aggregate_verifies_its_multiset_l. Qed.
Print Assumptions aggregate_verifies_its_multiset.

(** an honest aggregate is accepted for a claimed list iff the explicit exponent equation holds *)
Theorem aggregate_accept_iff :
  forall A : pops,
  plaws A ->
  forall (Msg Dg : Type) (dg_eqb : Dg -> Dg -> bool) (hm : Msg -> Dg) 
    (H1 : Msg -> P1 A) (signers : list (PF A * Msg)) (claimed : list (Msg * P2 A)),
  verify_aggregate_sig A Msg Dg dg_eqb hm H1 claimed
    (aggregate_list A (sigs_of A Msg H1 signers)) = true <->
  has_dup Dg dg_eqb (map (fun p : Msg * P2 A => hm (fst p)) claimed) = false /\
  claimed <> [] /\ signer_sum A Msg H1 signers = exp_sum A Msg H1 claimed.
Proof. exact aggregate_accept_iff_l. Qed.
Print Assumptions aggregate_accept_iff.

(** dropping a signer makes verification fail *)
Theorem aggregate_missing_signer_rejected :
  forall A : pops,
  plaws A ->
  forall (Msg Dg : Type) (dg_eqb : Dg -> Dg -> bool) (hm : Msg -> Dg) 
    (H1 : Msg -> P1 A) (s : PF A * Msg) (signers : list (PF A * Msg)),
  fst s <> f0 (PF A) ->
  H1 (snd s) <> m0 (P1 A) ->
  verify_aggregate_sig A Msg Dg dg_eqb hm H1 (pairs_of A Msg signers)
    (aggregate_list A (sigs_of A Msg H1 (s :: signers))) = false.
Proof. exact aggregate_missing_signer_rejected_l. Qed.
Print Assumptions aggregate_missing_signer_rejected.

(** adding a foreign (message, key) pair makes verification fail *)
Theorem aggregate_extra_pair_rejected :
  forall A : pops,
  plaws A ->
  forall (Msg Dg : Type) (dg_eqb : Dg -> Dg -> bool) (hm : Msg -> Dg) 
    (H1 : Msg -> P1 A) (p : Msg * P2 A) (signers : list (PF A * Msg)),
  dl2 A (snd p) <> f0 (PF A) ->
  H1 (fst p) <> m0 (P1 A) ->
  verify_aggregate_sig A Msg Dg dg_eqb hm H1 (p :: pairs_of A Msg signers)
    (aggregate_list A (sigs_of A Msg H1 signers)) = false.
Proof. exact aggregate_extra_pair_rejected_l. Qed.
Print Assumptions aggregate_extra_pair_rejected.

(** aggregation is insensitive to order (associative, commutative) *)
Theorem aggregate_order_irrelevant :
  forall A : pops,
  plaws A ->
  forall sigs sigs' : list (P1 A),
  Permutation sigs sigs' -> aggregate_list A sigs = aggregate_list A sigs'.
Proof. exact aggregate_perm_l. Qed.
Print Assumptions aggregate_order_irrelevant.

(** plain / hybrid / trusted-keys coincide where each is defined; rayon fold+reduce paths = sequential folds *)
Theorem aggregate_variants_agree :
  forall A : pops,
  plaws A ->
  forall (Msg Dg : Type) (dg_eqb : Dg -> Dg -> bool) (hm : Msg -> Dg) (H1 : Msg -> P1 A),
  (forall (pairs : list (Msg * P2 A)) (sig : P1 A),
   has_dup Dg dg_eqb (map (fun p : Msg * P2 A => hm (fst p)) pairs) = false ->
   pairs <> [] ->
   verify_aggregate_sig A Msg Dg dg_eqb hm H1 pairs sig =
   verify_aggregate_sig_hybrid A Msg H1 (singletons A Msg pairs) sig) /\
  (forall (m : Msg) (pks : list (P2 A)) (sig : P1 A),
   pks <> [] ->
   verify_aggregate_sig_trusted_keys A Msg H1 m pks sig =
   verify_aggregate_sig_hybrid A Msg H1 [(m, pks)] sig) /\
  (forall (groups : list (Msg * list (P2 A))) (sig : P1 A),
   verify_aggregate_sig_hybrid A Msg H1 groups sig = true <->
   dl1 A sig = exp_sum A Msg H1 (flatten A Msg groups)) /\
  (forall chunks : list (list (Msg * P2 A)),
   par_prod A Msg H1 chunks = prod_pairs A Msg H1 (concat chunks)) /\
  (forall chunks : list (list (Msg * list (P2 A))),
   par_prod_groups A Msg H1 chunks = prod_groups A Msg H1 (concat chunks)) /\
  (forall chunks : list (list (P2 A)), par_sum A chunks = sum_pks A (concat chunks)).
Proof. exact aggregate_variants_agree_l. Qed.
Print Assumptions aggregate_variants_agree.

(** empty signer sets and duplicate messages are rejected *)
Theorem duplicates_and_empty_rejected :
  forall (A : pops) (Msg Dg : Type) (dg_eqb : Dg -> Dg -> bool),
  (forall a b : Dg, dg_eqb a b = true <-> a = b) ->
  forall (hm : Msg -> Dg) (H1 : Msg -> P1 A),
  (forall sig : P1 A, verify_aggregate_sig A Msg Dg dg_eqb hm H1 [] sig = false) /\
  (forall (m : Msg) (sig : P1 A), verify_aggregate_sig_trusted_keys A Msg H1 m [] sig = false) /\
  (forall (l1 l2 l3 : list (Msg * P2 A)) (m : Msg) (pk pk' : P2 A) (sig : P1 A),
   verify_aggregate_sig A Msg Dg dg_eqb hm H1 (l1 ++ (m, pk) :: l2 ++ (m, pk') :: l3) sig =
   false) /\
  (forall (pairs : list (Msg * P2 A)) (sig : P1 A),
   ~ NoDup (map (fun p : Msg * P2 A => hm (fst p)) pairs) ->
   verify_aggregate_sig A Msg Dg dg_eqb hm H1 pairs sig = false).
Proof. exact duplicates_and_empty_rejected_l. Qed.
Print Assumptions duplicates_and_empty_rejected.

Theorem aggregate_same_message_trusted_keys_complete :
  forall A : pops,
  plaws A ->
  forall (Msg : Type) (H1 : Msg -> P1 A) (m : Msg) (sks : list (PF A)),
  sks <> [] ->
  verify_aggregate_sig_trusted_keys A Msg H1 m (map (pk_of A) sks)
    (aggregate_list A (map (fun sk : PF A => sign A Msg H1 sk m) sks)) = true.
Proof. exact trusted_complete_l. Qed.
Print Assumptions aggregate_same_message_trusted_keys_complete.

Theorem verify_aggregate_iff :
  forall A : pops,
  plaws A ->
  forall (Msg Dg : Type) (dg_eqb : Dg -> Dg -> bool) (hm : Msg -> Dg) 
    (H1 : Msg -> P1 A) (pairs : list (Msg * P2 A)) (sig : P1 A),
  verify_aggregate_sig A Msg Dg dg_eqb hm H1 pairs sig = true <->
  has_dup Dg dg_eqb (map (fun p : Msg * P2 A => hm (fst p)) pairs) = false /\
  pairs <> [] /\ dl1 A sig = exp_sum A Msg H1 pairs.
Proof. exact verify_aggregate_iff_l. Qed.
Print Assumptions verify_aggregate_iff.

Theorem pop_complete :
  forall A : pops,
  plaws A ->
  forall (Ctx Ch : Type) (ch_eqb : Ch -> Ch -> bool),
  (forall a b : Ch, ch_eqb a b = true <-> a = b) ->
  forall (Hc : Ctx * P2 A * P2 A * P2 A -> Ch) (ch_scalar : Ch -> PF A) 
    (ctx : Ctx) (sk w : PF A),
  pop_check A Ctx Ch ch_eqb Hc ch_scalar ctx (pk_of A sk)
    (pop_prove A Ctx Ch Hc ch_scalar ctx sk w) = true.
Proof. exact pop_complete_l. Qed.
Print Assumptions pop_complete.

Theorem pop_check_iff :
  forall (A : pops) (Ctx Ch : Type) (ch_eqb : Ch -> Ch -> bool),
  (forall a b : Ch, ch_eqb a b = true <-> a = b) ->
  forall (Hc : Ctx * P2 A * P2 A * P2 A -> Ch) (ch_scalar : Ch -> PF A) 
    (ctx : Ctx) (pk : P2 A) (ch : Ch) (resp : PF A),
  pop_check A Ctx Ch ch_eqb Hc ch_scalar ctx pk (ch, resp) = true <->
  Hc
    (ctx, pk, gen2 A,
     msub (P2 A) (msmul (P2 A) resp (gen2 A)) (msmul (P2 A) (ch_scalar ch) pk)) = ch.
Proof. exact pop_check_iff_l. Qed.
Print Assumptions pop_check_iff.

Theorem pop_binds_key_and_context :
  forall (A : pops) (Ctx Ch : Type) (ch_eqb : Ch -> Ch -> bool),
  (forall a b : Ch, ch_eqb a b = true <-> a = b) ->
  forall (Hc : Ctx * P2 A * P2 A * P2 A -> Ch) (ch_scalar : Ch -> PF A) 
    (ctx : Ctx) (pk : P2 A) (ctx' : Ctx) (pk' : P2 A) (proof : Ch * PF A),
  pop_check A Ctx Ch ch_eqb Hc ch_scalar ctx pk proof = true ->
  pop_check A Ctx Ch ch_eqb Hc ch_scalar ctx' pk' proof = true ->
  (ctx, pk) <> (ctx', pk') -> exists x y : Ctx * P2 A * P2 A * P2 A, x <> y /\ Hc x = Hc y.
Proof. exact pop_binding_l. Qed.
Print Assumptions pop_binds_key_and_context.

Theorem pop_special_soundness :
  forall A : pops,
  plaws A ->
  forall (pk P : P2 A) (c1 r1 c2 r2 : PF A),
  c1 <> c2 ->
  msub (P2 A) (msmul (P2 A) r1 (gen2 A)) (msmul (P2 A) c1 pk) = P ->
  msub (P2 A) (msmul (P2 A) r2 (gen2 A)) (msmul (P2 A) c2 pk) = P ->
  pk = pk_of A (fdiv (PF A) (fsub (PF A) r1 r2) (fsub (PF A) c1 c2)).
Proof. exact pop_extract_l. Qed.
Print Assumptions pop_special_soundness.

Theorem ps_sign_verify :
  forall A : pops,
  plaws A ->
  forall (ys : list (PF A)) (x : PF A) (ms : list (PF A)) (r : PF A) (sig : P1 A * P1 A),
  r <> f0 (PF A) ->
  ps_sign_known A (ps_keygen A ys x) ms r = Some sig ->
  ps_verify A (ps_pk_of A (ps_keygen A ys x)) sig ms = true.
Proof. exact ps_sign_verify_l. Qed.
Print Assumptions ps_sign_verify.

Theorem ps_verify_iff :
  forall A : pops,
  plaws A ->
  forall (pk : ps_pk A) (a b : P1 A) (ms : list (PF A)),
  ps_verify A pk (a, b) ms = true <->
  a <> m0 (P1 A) /\
  length ms <= length (pk_yts A pk) /\
  fmul (PF A) (dl1 A a) (fadd (PF A) (wsum2 A (pk_yts A pk) ms) (dl2 A (pk_xt A pk))) =
  fmul (PF A) (dl1 A b) (dl2 A (pk_gt A pk)).
Proof. exact ps_verify_iff_l. Qed.
Print Assumptions ps_verify_iff.

Theorem ps_blind_issue_unblind_verifies :
  forall A : pops,
  plaws A ->
  forall (ys : list (PF A)) (x mask r : PF A) (ms : list (PF A)),
  r <> f0 (PF A) ->
  length ms <= length ys ->
  ps_verify A (ps_pk_of A (ps_keygen A ys x)) (ps_issue A ys x mask r ms) ms = true.
Proof. exact ps_blind_issue_unblind_verifies_l. Qed.
Print Assumptions ps_blind_issue_unblind_verifies.

(** the unblinded signature verifies on ms' iff sum m'_i y_i = sum m_i y_i (and the length fits) *)
Theorem ps_blind_issue_valid_on_exactly :
  forall A : pops,
  plaws A ->
  forall (ys : list (PF A)) (x mask r : PF A) (ms ms' : list (PF A)),
  r <> f0 (PF A) ->
  ps_verify A (ps_pk_of A (ps_keygen A ys x)) (ps_issue A ys x mask r ms) ms' = true <->
  length ms' <= length ys /\ dot A ms' ys = dot A ms ys.
Proof. exact ps_blind_issue_unblind_iff_l. Qed.
Print Assumptions ps_blind_issue_valid_on_exactly.

Theorem ps_blind_preserves_validity :
  forall A : pops,
  plaws A ->
  forall (pk : ps_pk A) (sig : P1 A * P1 A) (ms : list (PF A)) (r t : PF A),
  r <> f0 (PF A) -> ps_verify_blinded A pk (ps_blind A sig r t) ms t = ps_verify A pk sig ms.
Proof. exact ps_blind_preserves_validity_l. Qed.
Print Assumptions ps_blind_preserves_validity.

(** OBSERVATION: a trailing zero message does not change acceptance (vectors are zero padded) *)
Theorem ps_zero_padding :
  forall A : pops,
  plaws A ->
  forall (pk : ps_pk A) (sig : P1 A * P1 A) (ms : list (PF A)),
  length ms < length (pk_yts A pk) ->
  ps_verify A pk sig (ms ++ [f0 (PF A)]) = ps_verify A pk sig ms.
Proof. exact ps_zero_padding_l. Qed.
Print Assumptions ps_zero_padding.

Theorem vrf_complete :
  forall (G : Type) (gzero : G) (gadd : G -> G -> G) (gopp : G -> G) (zmul : Z -> G -> G),
  (forall a b c : G, gadd a (gadd b c) = gadd (gadd a b) c) ->
  (forall a b : G, gadd a b = gadd b a) ->
  (forall a : G, gadd gzero a = a) ->
  (forall a : G, gadd a (gopp a) = gzero) ->
  (forall (x y : Z) (a : G), zmul (x + y)%Z a = gadd (zmul x a) (zmul y a)) ->
  (forall (x : Z) (a b : G), zmul x (gadd a b) = gadd (zmul x a) (zmul x b)) ->
  (forall (x y : Z) (a : G), zmul (x * y)%Z a = zmul x (zmul y a)) ->
  forall l : Z,
  (0 < l)%Z ->
  forall B : G,
  (forall n : Z, zmul n B = gzero <-> (l | n)%Z) ->
  forall (Msg Nonce : Type) (h2c : G -> Msg -> option G),
  (forall (Y : G) (a : Msg) (H : G), h2c Y a = Some H -> zmul l H = gzero) ->
  forall (hpoints : G * G * G * G -> Z) (noncegen : Nonce -> G -> Z) 
    (x : Z) (nonce : Nonce) (alpha : Msg) (pi : G * Z * Z),
  vrf_prove G zmul l B Msg Nonce h2c hpoints noncegen x nonce (vrf_pk_of G zmul B x) alpha =
  Some pi ->
  vrf_verify G gadd gopp zmul B Msg h2c hpoints (vrf_pk_of G zmul B x) pi alpha = true.
Proof. exact vrf_complete_l. Qed.
Print Assumptions vrf_complete.

Theorem vrf_output_deterministic :
  forall (G : Type) (zmul : Z -> G -> G) (l : Z) (B : G) (Msg Out Nonce : Type)
    (h2c : G -> Msg -> option G) (hpoints : G * G * G * G -> Z) (hout : G -> Out)
    (noncegen : Nonce -> G -> Z) (x : Z) (nonce nonce' : Nonce) (Y : G) 
    (alpha : Msg) (pi pi' : G * Z * Z),
  vrf_prove G zmul l B Msg Nonce h2c hpoints noncegen x nonce Y alpha = Some pi ->
  vrf_prove G zmul l B Msg Nonce h2c hpoints noncegen x nonce' Y alpha = Some pi' ->
  vrf_to_hash G zmul Out hout pi = vrf_to_hash G zmul Out hout pi'.
Proof. exact vrf_output_deterministic_l. Qed.
Print Assumptions vrf_output_deterministic.

Theorem vrf_verify_iff :
  forall (G : Type) (gadd : G -> G -> G) (gopp : G -> G) (zmul : Z -> G -> G) 
    (B : G) (Msg : Type) (h2c : G -> Msg -> option G) (hpoints : G * G * G * G -> Z)
    (Y gamma : G) (c s : Z) (alpha : Msg),
  vrf_verify G gadd gopp zmul B Msg h2c hpoints Y (gamma, c, s) alpha = true <->
  (exists H : G,
     h2c Y alpha = Some H /\
     c =
     hpoints
       (H, gamma, gsub G gadd gopp (zmul s B) (zmul c Y),
        gsub G gadd gopp (zmul s H) (zmul c gamma))).
Proof. exact vrf_verify_iff_l. Qed.
Print Assumptions vrf_verify_iff.

(** all Gammas satisfying the attested DLEQ relation for (Y, H) give the same output *)
Theorem vrf_unique_given_dleq :
  forall (G : Type) (gzero : G) (gadd : G -> G -> G) (gopp : G -> G) (zmul : Z -> G -> G),
  (forall a b c : G, gadd a (gadd b c) = gadd (gadd a b) c) ->
  (forall a b : G, gadd a b = gadd b a) ->
  (forall a : G, gadd gzero a = a) ->
  (forall a : G, gadd a (gopp a) = gzero) ->
  (forall (x y : Z) (a : G), zmul (x + y)%Z a = gadd (zmul x a) (zmul y a)) ->
  (forall (x : Z) (a b : G), zmul x (gadd a b) = gadd (zmul x a) (zmul x b)) ->
  (forall (x y : Z) (a : G), zmul (x * y)%Z a = zmul x (zmul y a)) ->
  forall (l : Z) (B : G),
  (forall n : Z, zmul n B = gzero <-> (l | n)%Z) ->
  forall (Out : Type) (hout : G -> Out) (Y H gamma1 : G) (c1 s1 : Z) (gamma2 : G) (c2 s2 : Z),
  zmul l H = gzero ->
  dleq G zmul B Y H gamma1 ->
  dleq G zmul B Y H gamma2 ->
  vrf_to_hash G zmul Out hout (gamma1, c1, s1) = vrf_to_hash G zmul Out hout (gamma2, c2, s2).
Proof. exact vrf_unique_given_dleq_l. Qed.
Print Assumptions vrf_unique_given_dleq.

(** a small-order component of Gamma does not change the output (this is what the cofactor multiplication is for) *)
Theorem vrf_cofactor_clears_small_order :
  forall (G : Type) (gzero : G) (gadd : G -> G -> G) (zmul : Z -> G -> G),
  (forall a b : G, gadd a b = gadd b a) ->
  (forall a : G, gadd gzero a = a) ->
  (forall (x : Z) (a b : G), zmul x (gadd a b) = gadd (zmul x a) (zmul x b)) ->
  forall (Out : Type) (hout : G -> Out) (gamma T : G) (c s c' s' : Z),
  zmul 8%Z T = gzero ->
  vrf_to_hash G zmul Out hout (gadd gamma T, c, s) =
  vrf_to_hash G zmul Out hout (gamma, c', s').
Proof. exact vrf_torsion_same_output_l. Qed.
Print Assumptions vrf_cofactor_clears_small_order.

Theorem vrf_output_function_of_public_key :
  forall (G : Type) (gzero : G) (gadd : G -> G -> G) (gopp : G -> G) (zmul : Z -> G -> G),
  (forall a b c : G, gadd a (gadd b c) = gadd (gadd a b) c) ->
  (forall a b : G, gadd a b = gadd b a) ->
  (forall a : G, gadd gzero a = a) ->
  (forall a : G, gadd a (gopp a) = gzero) ->
  (forall (x y : Z) (a : G), zmul (x + y)%Z a = gadd (zmul x a) (zmul y a)) ->
  (forall (x : Z) (a b : G), zmul x (gadd a b) = gadd (zmul x a) (zmul x b)) ->
  (forall (x y : Z) (a : G), zmul (x * y)%Z a = zmul x (zmul y a)) ->
  forall (l : Z) (B : G),
  (forall n : Z, zmul n B = gzero <-> (l | n)%Z) ->
  forall (x x' : Z) (H : G),
  zmul l H = gzero ->
  vrf_pk_of G zmul B x = vrf_pk_of G zmul B x' -> zmul 8%Z (zmul x H) = zmul 8%Z (zmul x' H).
Proof. exact vrf_output_of_key_l. Qed.
Print Assumptions vrf_output_function_of_public_key.

Theorem vrf_challenge_binds_gamma :
  forall (G : Type) (gadd : G -> G -> G) (gopp : G -> G) (zmul : Z -> G -> G) 
    (B : G) (Msg : Type) (h2c : G -> Msg -> option G) (hpoints : G * G * G * G -> Z) 
    (Y : G) (alpha : Msg) (gamma1 gamma2 : G) (c s1 s2 : Z),
  vrf_verify G gadd gopp zmul B Msg h2c hpoints Y (gamma1, c, s1) alpha = true ->
  vrf_verify G gadd gopp zmul B Msg h2c hpoints Y (gamma2, c, s2) alpha = true ->
  gamma1 <> gamma2 -> exists u v : G * G * G * G, u <> v /\ hpoints u = hpoints v.
Proof. exact vrf_challenge_binds_gamma_l. Qed.
Print Assumptions vrf_challenge_binds_gamma.

Theorem vrf_challenge_binds_key_and_input :
  forall (G : Type) (gadd : G -> G -> G) (gopp : G -> G) (zmul : Z -> G -> G) 
    (B : G) (Msg : Type) (h2c : G -> Msg -> option G) (hpoints : G * G * G * G -> Z) 
    (Y : G) (alpha : Msg) (Y' : G) (alpha' : Msg) (H H' : G) (pi : G * Z * Z),
  h2c Y alpha = Some H ->
  h2c Y' alpha' = Some H' ->
  H <> H' ->
  vrf_verify G gadd gopp zmul B Msg h2c hpoints Y pi alpha = true ->
  vrf_verify G gadd gopp zmul B Msg h2c hpoints Y' pi alpha' = true ->
  exists u v : G * G * G * G, u <> v /\ hpoints u = hpoints v.
Proof. exact vrf_challenge_binds_input_l. Qed.
Print Assumptions vrf_challenge_binds_key_and_input.

(** a public key of small order (d*Y = 0, d | 8) admits a forged proof (Gamma = 0, needs no secret) that verify accepts for EVERY input as soon as d divides the challenge, with the same output for all inputs: key validity (checked by Deserial for PublicKey) is a genuine precondition *)
Theorem vrf_small_order_key_forgeable :
  forall (G : Type) (gzero : G) (gadd : G -> G -> G) (gopp : G -> G) (zmul : Z -> G -> G),
  (forall a b c : G, gadd a (gadd b c) = gadd (gadd a b) c) ->
  (forall a b : G, gadd a b = gadd b a) ->
  (forall a : G, gadd gzero a = a) ->
  (forall a : G, gadd a (gopp a) = gzero) ->
  (forall (x : Z) (a b : G), zmul x (gadd a b) = gadd (zmul x a) (zmul x b)) ->
  (forall (x y : Z) (a : G), zmul (x * y)%Z a = zmul x (zmul y a)) ->
  forall (B : G) (Msg Out : Type) (h2c : G -> Msg -> option G) (hpoints : G * G * G * G -> Z)
    (hout : G -> Out) (Y : G) (alpha : Msg) (H : G) (k d : Z),
  h2c Y alpha = Some H ->
  zmul d Y = gzero ->
  (d | hpoints (H, gzero, zmul k B, zmul k H))%Z ->
  vrf_verify G gadd gopp zmul B Msg h2c hpoints Y
    (gzero, hpoints (H, gzero, zmul k B, zmul k H), k) alpha = true /\
  vrf_to_hash G zmul Out hout (gzero, hpoints (H, gzero, zmul k B, zmul k H), k) = hout gzero.
Proof. exact vrf_small_order_key_forgeable_l. Qed.
Print Assumptions vrf_small_order_key_forgeable.

(** for the identity key the forgery is unconditional *)
Theorem vrf_identity_key_forgeable :
  forall (G : Type) (gzero : G) (gadd : G -> G -> G) (gopp : G -> G) (zmul : Z -> G -> G),
  (forall a b c : G, gadd a (gadd b c) = gadd (gadd a b) c) ->
  (forall a b : G, gadd a b = gadd b a) ->
  (forall a : G, gadd gzero a = a) ->
  (forall a : G, gadd a (gopp a) = gzero) ->
  (forall (x : Z) (a b : G), zmul x (gadd a b) = gadd (zmul x a) (zmul x b)) ->
  (forall (x y : Z) (a : G), zmul (x * y)%Z a = zmul x (zmul y a)) ->
  (forall a : G, zmul 1%Z a = a) ->
  forall (B : G) (Msg Out : Type) (h2c : G -> Msg -> option G) (hpoints : G * G * G * G -> Z),
  (G -> Out) ->
  forall (alpha : Msg) (H : G) (k : Z),
  h2c gzero alpha = Some H ->
  vrf_verify G gadd gopp zmul B Msg h2c hpoints gzero
    (gzero, hpoints (H, gzero, zmul k B, zmul k H), k) alpha = true.
Proof. exact vrf_identity_key_forgeable_l. Qed.
Print Assumptions vrf_identity_key_forgeable.

(** for a small-order key the attested relation holds for Gamma = 0 *)
Theorem vrf_small_order_key_dleq_trivial :
  forall (G : Type) (gzero : G) (gadd : G -> G -> G) (gopp : G -> G) (zmul : Z -> G -> G),
  (forall a b c : G, gadd a (gadd b c) = gadd (gadd a b) c) ->
  (forall a b : G, gadd a b = gadd b a) ->
  (forall a : G, gadd gzero a = a) ->
  (forall a : G, gadd a (gopp a) = gzero) ->
  (forall (x y : Z) (a : G), zmul (x + y)%Z a = gadd (zmul x a) (zmul y a)) ->
  (forall (x : Z) (a b : G), zmul x (gadd a b) = gadd (zmul x a) (zmul x b)) ->
  forall B Y H : G, zmul 8%Z Y = gzero -> dleq G zmul B Y H gzero.
Proof. exact dleq_small_order_key_l. Qed.
Print Assumptions vrf_small_order_key_dleq_trivial.

(** POSITIVE, needs key validity 8*Y <> 0: no Gamma of small order satisfies the attested relation, so the output of a valid key is never the degenerate constant *)
Theorem vrf_valid_key_excludes_small_order_gamma :
  forall (G : Type) (gzero : G) (zmul : Z -> G -> G) (l : Z) (B : G),
  (forall n : Z, zmul n B = gzero <-> (l | n)%Z) ->
  forall Y H gamma : G,
  zmul 8%Z Y <> gzero ->
  (forall n : Z, zmul n H = gzero <-> (l | n)%Z) ->
  dleq G zmul B Y H gamma -> zmul 8%Z gamma <> gzero.
Proof. exact vrf_valid_key_excludes_small_order_gamma_l. Qed.
Print Assumptions vrf_valid_key_excludes_small_order_gamma.

(** ** Non-vacuity: the hypotheses are satisfiable, with concrete accepting and rejecting runs *)
Example pairing_laws_satisfiable : plaws F5P.
Proof. exact F5P_laws. Qed.
Print Assumptions pairing_laws_satisfiable.

Definition ex_H1 (m : bool) : P1 F5P := if m then V2 else V3.

Example aggregate_nonvacuous :
  let signers : list (PF F5P * bool) := [(V2, true); (V3, false)] in
  signers <> [] /\ NoDup (map (fun s : PF F5P * bool => id (snd s)) signers) /\
  Permutation signers (rev signers) /\
  verify_aggregate_sig F5P bool bool Bool.eqb id ex_H1 (pairs_of F5P bool (rev signers))
    (aggregate_list F5P (sigs_of F5P bool ex_H1 signers)) = true /\
  verify_aggregate_sig F5P bool bool Bool.eqb id ex_H1 (pairs_of F5P bool [(V2, true)])
    (aggregate_list F5P (sigs_of F5P bool ex_H1 signers)) = false.
Proof.
  cbv zeta. split; [discriminate|]. split.
  - cbn. constructor; [intros [E|[]]; discriminate | constructor; [intros [] | constructor]].
  - split; [apply Permutation_rev|]. split; reflexivity.
Qed.
Print Assumptions aggregate_nonvacuous.

Example bls_wrong_key_nonvacuous :
  ex_H1 true <> m0 (P1 F5P) /\ pk_of F5P V3 <> pk_of F5P V2 /\
  verify F5P bool ex_H1 (pk_of F5P V3) true (sign F5P bool ex_H1 V2 true) = false /\
  verify F5P bool ex_H1 (pk_of F5P V2) true (sign F5P bool ex_H1 V2 true) = true.
Proof. repeat split; try discriminate; reflexivity. Qed.
Print Assumptions bls_wrong_key_nonvacuous.

Example ps_nonvacuous :
  let ys : list (PF F5P) := [V2; V3] in
  let ms : list (PF F5P) := [V1; V2] in
  (V2 : PF F5P) <> f0 (PF F5P) /\ (length ms <= length ys)%nat /\
  ps_verify F5P (ps_pk_of F5P (ps_keygen F5P ys V4)) (ps_issue F5P ys V4 V3 V2 ms) ms = true /\
  ps_verify F5P (ps_pk_of F5P (ps_keygen F5P ys V4)) (ps_issue F5P ys V4 V3 V2 ms) [V1; V3] = false.
Proof. cbv zeta. repeat split; try discriminate; try reflexivity. Qed.
Print Assumptions ps_nonvacuous.

(** the VRF hypotheses hold for the cyclic group of order 5 (l = 5, B of exact order 5) *)
Example vrf_nonvacuous :
  let h2c := fun (_ : five) (_ : unit) => Some V2 in
  let hpoints := fun (_ : five * five * five * five) => 3%Z in
  let noncegen := fun (_ : unit) (_ : five) => 4%Z in
  forall pi,
    vrf_prove five g5_zmul 5 V1 unit unit h2c hpoints noncegen 2 tt (vrf_pk_of five g5_zmul V1 2) tt = Some pi ->
    vrf_verify five g5_add g5_opp g5_zmul V1 unit h2c hpoints (vrf_pk_of five g5_zmul V1 2) pi tt = true.
Proof.
  cbv zeta. intros pi.
  apply (vrf_complete five V0 g5_add g5_opp g5_zmul);
    first [ exact g5_zmul_add_l | exact g5_zmul_add_r | exact g5_zmul_mul | exact g5_zmul_1 | exact g5_B_order
          | (intros Y a H E; apply g5_kills)
          | (intros [] [] []; reflexivity) | (intros [] []; reflexivity) | (intros []; reflexivity) | reflexivity ].
Qed.
Print Assumptions vrf_nonvacuous.

(** the hypotheses of the forgery theorem are satisfiable (identity key in the group of order 5) *)
Example vrf_small_order_key_nonvacuous :
  let h2c := fun (_ : five) (_ : unit) => Some V2 in
  let hpoints := fun (_ : five * five * five * five) => 3%Z in
  h2c V0 tt = Some V2 /\ g5_zmul 1 V0 = V0 /\ (1 | hpoints (V2, V0, g5_zmul 4 V1, g5_zmul 4 V2))%Z /\
  vrf_verify five g5_add g5_opp g5_zmul V1 unit h2c hpoints V0 (V0, 3%Z, 4%Z) tt = true.
Proof. cbv zeta. repeat split; try reflexivity. apply Z.divide_1_l. Qed.
Print Assumptions vrf_small_order_key_nonvacuous.

(** ** has_duplicates as coded (sort, then compare neighbours) *)

(** for EVERY correct sorting function (in particular whatever [sort_unstable] does) and every list
    (lengths 0, 1, 2 included): the scan reports a duplicate iff two different positions hold the same key *)
Theorem has_duplicates_sort_and_scan_iff :
  forall (K : Type) (leb eqb : K -> K -> bool),
  (forall a b, eqb a b = true <-> a = b) ->
  (forall a b, leb a b = true -> leb b a = true -> a = b) ->
  forall (srt : list K -> list K) (l : list K),
  sorts K leb srt ->
  (has_duplicates_with K eqb srt l = true <->
   exists i j x, i < j /\ nth_error l i = Some x /\ nth_error l j = Some x).
Proof. exact has_duplicates_with_positions. Qed.
Print Assumptions has_duplicates_sort_and_scan_iff.

(** the executable instance (insertion sort) is a correct sort, hence the same statement holds for it,
    and it coincides with the quadratic model [Bls.has_dup] used by the aggregate theorems *)
Theorem has_duplicates_coded_iff :
  forall (K : Type) (leb eqb : K -> K -> bool),
  (forall a b, eqb a b = true <-> a = b) ->
  (forall a b, leb a b = true \/ leb b a = true) ->
  (forall a b c, leb a b = true -> leb b c = true -> leb a c = true) ->
  (forall a b, leb a b = true -> leb b a = true -> a = b) ->
  forall l : list K,
  (has_duplicates_coded K leb eqb l = true <->
   exists i j x, i < j /\ nth_error l i = Some x /\ nth_error l j = Some x) /\
  has_duplicates_coded K leb eqb l = has_dup K eqb l.
Proof.
  intros K leb eqb H1 H2 H3 H4 l. split.
  - exact (has_duplicates_coded_positions K leb eqb H1 H2 H3 H4 l).
  - rewrite (has_duplicates_coded_ref K leb eqb H1 H2 H3 H4 l). apply has_dup_ref_is_has_dup.
Qed.
Print Assumptions has_duplicates_coded_iff.

(** the algorithm behind the sort is irrelevant *)
Theorem has_duplicates_sort_irrelevant_thm :
  forall (K : Type) (leb eqb : K -> K -> bool),
  (forall a b, eqb a b = true <-> a = b) ->
  (forall a b, leb a b = true -> leb b a = true -> a = b) ->
  forall (srt srt' : list K -> list K) (l : list K),
  sorts K leb srt -> sorts K leb srt' -> has_duplicates_with K eqb srt l = has_duplicates_with K eqb srt' l.
Proof. exact has_duplicates_sort_irrelevant. Qed.
Print Assumptions has_duplicates_sort_irrelevant_thm.

(** ** rayon fold/reduce: every split tree, every chunk size, every threshold, every length *)
Theorem par_reduce_any_tree_is_sequential :
  forall (A T : Type) (op : T -> T -> T) (e : T) (g : A -> T),
  (forall a b c, op a (op b c) = op (op a b) c) -> (forall a, op e a = a) -> (forall a, op a e = a) ->
  (forall t : ptree A, peval A T op e g t = seqfold A T op e g (pflatten A t)) /\
  (forall (n : nat) (l : list A), 0 < n -> chunked_eval A T op e g n l = seqfold A T op e g l) /\
  (forall (n : nat) (l : list A), 0 < n -> concat (chunks_of A n l) = l) /\
  (forall (d : nat) (l : list A), peval A T op e g (msplit A d l) = seqfold A T op e g l) /\
  (forall (thr : nat) (split : list A -> ptree A) (l : list A),
     (forall l, pflatten A (split l) = l) -> thresh_eval A T op e g thr split l = seqfold A T op e g l).
Proof.
  intros A T op e g Ha Hl Hr. split; [exact (peval_seq A T op e g Ha Hl Hr)|].
  split; [exact (chunked_eval_seq A T op e g Ha Hl Hr)|]. split; [exact (chunks_of_concat A)|].
  split; [intros d l; rewrite (peval_seq A T op e g Ha Hl Hr), msplit_flatten; reflexivity|].
  exact (thresh_eval_seq A T op e g Ha Hl Hr).
Qed.
Print Assumptions par_reduce_any_tree_is_sequential.

(** the three verifiers as coded (sort-and-scan, rayon trees, "sequential below thr keys") = the sequential models,
    for every lawful pairing setting, every threshold [thr] (150 in the code) and every splitter *)
Theorem aggregate_verifiers_as_coded_agree :
  forall A : pops, plaws A ->
  forall (Msg Dg : Type) (dg_eqb dg_leb : Dg -> Dg -> bool) (hm : Msg -> Dg) (H1 : Msg -> P1 A),
  (forall (thr : nat) (split : list (P2 A) -> ptree (P2 A)) (pks : list (P2 A)),
     (forall l, pflatten (P2 A) (split l) = l) -> sum_pks_coded A thr split pks = sum_pks A pks) /\
  (forall (thr : nat) (split : list (P2 A) -> ptree (P2 A)) (t : ptree (Msg * list (P2 A))) (sig : P1 A),
     (forall l, pflatten (P2 A) (split l) = l) ->
     verify_hybrid_coded A Msg H1 thr split t sig = verify_aggregate_sig_hybrid A Msg H1 (pflatten (Msg * list (P2 A)) t) sig) /\
  (forall (thr : nat) (split : list (P2 A) -> ptree (P2 A)) (m : Msg) (pks : list (P2 A)) (sig : P1 A),
     (forall l, pflatten (P2 A) (split l) = l) ->
     verify_trusted_coded A Msg H1 thr split m pks sig = verify_aggregate_sig_trusted_keys A Msg H1 m pks sig) /\
  ((forall a b, dg_eqb a b = true <-> a = b) -> (forall a b, dg_leb a b = true -> dg_leb b a = true -> a = b) ->
   forall (srt : list Dg -> list Dg) (t : ptree (Msg * P2 A)) (sig : P1 A),
     sorts Dg dg_leb srt ->
     verify_plain_coded A Msg Dg dg_eqb hm H1 srt t sig =
     verify_aggregate_sig A Msg Dg dg_eqb hm H1 (pflatten (Msg * P2 A) t) sig).
Proof.
  intros A L Msg Dg dg_eqb dg_leb hm H1.
  split; [exact (sum_pks_coded_seq A L)|]. split; [exact (verify_hybrid_coded_seq A L Msg H1)|].
  split; [exact (verify_trusted_coded_seq A L Msg H1)|].
  intros E1 E2 srt t sig S. exact (verify_plain_coded_seq A L Msg Dg dg_eqb dg_leb hm H1 E1 E2 srt t sig S).
Qed.
Print Assumptions aggregate_verifiers_as_coded_agree.

(** non-vacuity / concrete runs of the new definitions *)
Example has_duplicates_nonvacuous :
  sorts nat Nat.leb (isort nat Nat.leb) /\
  has_duplicates_coded nat Nat.leb Nat.eqb [] = false /\ has_duplicates_coded nat Nat.leb Nat.eqb [7] = false /\
  has_duplicates_coded nat Nat.leb Nat.eqb [7; 7] = true /\ has_duplicates_coded nat Nat.leb Nat.eqb [7; 3] = false /\
  has_duplicates_coded nat Nat.leb Nat.eqb [5; 1; 9; 1; 4] = true /\ has_duplicates_coded nat Nat.leb Nat.eqb [5; 1; 9; 2; 4] = false.
Proof.
  split; [|repeat split; reflexivity].
  apply isort_sorts.
  - intros a b. destruct (Nat.leb_spec a b), (Nat.leb_spec b a); auto. exfalso. eapply Nat.lt_irrefl, Nat.lt_trans; eassumption.
  - intros a b c H1 H2. apply Nat.leb_le in H1, H2. apply Nat.leb_le. eapply Nat.le_trans; eassumption.
Qed.
Print Assumptions has_duplicates_nonvacuous.

Example par_reduce_nonvacuous :
  let xs := [3; 1; 4; 1; 5; 9; 2; 6; 5; 3; 5] in
  chunks_of nat 4 xs = [[3; 1; 4; 1]; [5; 9; 2; 6]; [5; 3; 5]] /\
  chunked_eval nat nat Nat.add 0 (fun x => x) 4 xs = 44 /\ seqfold nat nat Nat.add 0 (fun x => x) xs = 44 /\
  peval nat nat Nat.add 0 (fun x => x) (msplit nat 3 xs) = 44 /\
  thresh_eval nat nat Nat.add 0 (fun x => x) 11 (msplit nat 2) xs = 44 /\
  thresh_eval nat nat Nat.add 0 (fun x => x) 12 (msplit nat 2) xs = 44.
Proof. cbv zeta. repeat split; reflexivity. Qed.
Print Assumptions par_reduce_nonvacuous.

Local Open Scope Z_scope.

(** ** ECVRF on bytes (VrfBytes.v): framing, challenge truncation, proof format, completeness *)

(** the 16-byte challenge: the coded "first 16 digest bytes, zero padded, reduced mod l" is the 128-bit
    little-endian value (no reduction happens), its 16-byte encoding is injective on [0, 2^128) and
    is inverted by decoding *)
Theorem ecvrf_challenge_truncation :
  (forall d, bytes_ok d ->
     challenge_of_digest d = le_decode (firstn 16 d) /\ (0 <= challenge_of_digest d < 2 ^ 128)%Z) /\
  (forall c c', (0 <= c < 2 ^ 128)%Z -> (0 <= c' < 2 ^ 128)%Z -> le_encode 16 c = le_encode 16 c' -> c = c') /\
  (forall c, (0 <= c < 2 ^ 128)%Z -> le_decode (le_encode 16 c) = c) /\
  (forall t, bytes_ok t -> (length t <= 16)%nat -> scalar_from_canonical (t ++ repeat 0%N 16) = Some (le_decode t)).
Proof.
  split; [exact challenge_of_digest_spec|]. split; [exact challenge_encoding_injective|].
  split; [|exact challenge_field_canonical].
  intros c Hc. rewrite le_decode_encode, p256_16. apply Z.mod_small. exact Hc.
Qed.
Print Assumptions ecvrf_challenge_truncation.

(** proof format: decode inverts encode; decode accepts exactly 80+ bytes with a decompressible Gamma and s < l *)
Theorem ecvrf_proof_codec :
  forall (G : Type) (compress : G -> list N) (decompress : list N -> option G),
  (forall P, length (compress P) = 32%nat) -> (forall P, decompress (compress P) = Some P) ->
  (forall gm c s pib, (0 <= c)%Z -> (0 <= s < ed_l)%Z ->
     encode_proof G compress (gm, c, s) = Some pib -> decode_proof G decompress pib = Some (gm, c, s)) /\
  (forall bs gm c s, bytes_ok bs ->
     (decode_proof G decompress bs = Some (gm, c, s) <->
      (80 <= length bs)%nat /\ decompress (firstn 32 bs) = Some gm /\
      c = le_decode (firstn 16 (skipn 32 bs)) /\ s = le_decode (firstn 32 (skipn 48 bs)) /\ (s < ed_l)%Z)) /\
  (forall bs, bytes_ok bs -> (ed_l <= le_decode (firstn 32 (skipn 48 bs)))%Z -> decode_proof G decompress bs = None).
Proof.
  intros G compress decompress H1 H2. split; [exact (decode_encode G compress decompress H1 H2)|].
  split; [exact (decode_proof_iff G decompress) | exact (decode_rejects_large_s G decompress)].
Qed.
Print Assumptions ecvrf_proof_codec.

(** completeness on bytes: the 80 bytes made by prove (framing, truncation, encoding as coded) are
    accepted by deserialize-then-verify under the key derived from the same secret key bytes *)
Theorem ecvrf_bytes_complete :
  forall (G : Type) (gzero : G) (gadd : G -> G -> G) (gopp : G -> G) (zmul : Z -> G -> G) (geqb : G -> G -> bool),
  (forall a b c, gadd a (gadd b c) = gadd (gadd a b) c) -> (forall a b, gadd a b = gadd b a) ->
  (forall a, gadd gzero a = a) -> (forall a, gadd a (gopp a) = gzero) ->
  (forall x y a, zmul (x + y) a = gadd (zmul x a) (zmul y a)) ->
  (forall x a b, zmul x (gadd a b) = gadd (zmul x a) (zmul x b)) ->
  (forall x y a, zmul (x * y) a = zmul x (zmul y a)) ->
  forall B : G, (forall n, zmul n B = gzero <-> (ed_l | n)%Z) -> (forall P, zmul (ed_l * 8) P = gzero) ->
  forall (compress : G -> list N) (decompress : list N -> option G),
  (forall P, length (compress P) = 32%nat) -> (forall P, decompress (compress P) = Some P) ->
  forall sha512 : list N -> list N, (forall m, bytes_ok (sha512 m)) ->
  forall skb alpha pib,
  ecvrf_prove_bytes G gzero zmul geqb B compress decompress sha512 skb (pk_of_secret G zmul B compress sha512 skb) alpha = Some pib ->
  ecvrf_verify_bytes G gzero gadd gopp zmul geqb B compress decompress sha512 (pk_of_secret G zmul B compress sha512 skb) pib alpha = true.
Proof. exact ecvrf_bytes_complete_l. Qed.
Print Assumptions ecvrf_bytes_complete.

(** determinism: prove takes the secret key bytes, the key and the input and nothing else (it is a
    function), its assertion never fails, and the output bytes depend only on the secret scalar and H *)
Theorem ecvrf_bytes_output_deterministic :
  forall (G : Type) (gzero : G) (zmul : Z -> G -> G) (geqb : G -> G -> bool) (B : G)
    (compress : G -> list N) (decompress : list N -> option G),
  (forall P, length (compress P) = 32%nat) -> (forall P, decompress (compress P) = Some P) ->
  forall sha512 : list N -> list N, (forall m, bytes_ok (sha512 m)) ->
  forall skb pk alpha pib,
  ecvrf_prove_bytes G gzero zmul geqb B compress decompress sha512 skb pk alpha = Some pib ->
  exists H, h2c_bytes G gzero zmul geqb decompress sha512 (fst pk) alpha = Some H /\
    ecvrf_hash_bytes G zmul compress decompress sha512 pib =
    Some (sha512 (beta_input (compress (zmul 8 (zmul (fst (expand_key (sha512 skb))) H))))).
Proof. exact ecvrf_bytes_output_l. Qed.
Print Assumptions ecvrf_bytes_output_deterministic.

(** uniqueness on bytes: two byte strings that parse to proofs whose Gammas satisfy the DLEQ relation for the
    same key and H have the same output *)
Theorem ecvrf_bytes_unique_given_dleq :
  forall (G : Type) (gzero : G) (gadd : G -> G -> G) (gopp : G -> G) (zmul : Z -> G -> G),
  (forall a b c, gadd a (gadd b c) = gadd (gadd a b) c) -> (forall a b, gadd a b = gadd b a) ->
  (forall a, gadd gzero a = a) -> (forall a, gadd a (gopp a) = gzero) ->
  (forall x y a, zmul (x + y) a = gadd (zmul x a) (zmul y a)) ->
  (forall x a b, zmul x (gadd a b) = gadd (zmul x a) (zmul x b)) ->
  (forall x y a, zmul (x * y) a = zmul x (zmul y a)) ->
  forall B : G, (forall n, zmul n B = gzero <-> (ed_l | n)%Z) ->
  forall (compress : G -> list N) (decompress : list N -> option G) (sha512 : list N -> list N),
  forall Y H pib1 pib2 gm1 c1 s1 gm2 c2 s2,
  zmul ed_l H = gzero ->
  decode_proof G decompress pib1 = Some (gm1, c1, s1) -> decode_proof G decompress pib2 = Some (gm2, c2, s2) ->
  dleq G zmul B Y H gm1 -> dleq G zmul B Y H gm2 ->
  ecvrf_hash_bytes G zmul compress decompress sha512 pib1 = ecvrf_hash_bytes G zmul compress decompress sha512 pib2.
Proof. exact ecvrf_bytes_unique_given_dleq_l. Qed.
Print Assumptions ecvrf_bytes_unique_given_dleq.

(** exact acceptance condition on bytes, with the transcript spelled out *)
Theorem ecvrf_verify_bytes_iff :
  forall (G : Type) (gzero : G) (gadd : G -> G -> G) (gopp : G -> G) (zmul : Z -> G -> G) (geqb : G -> G -> bool) (B : G)
    (compress : G -> list N) (decompress : list N -> option G) (sha512 : list N -> list N) pk pib alpha,
  ecvrf_verify_bytes G gzero gadd gopp zmul geqb B compress decompress sha512 pk pib alpha = true <->
  exists gm c s H, decode_proof G decompress pib = Some (gm, c, s) /\
    h2c_bytes G gzero zmul geqb decompress sha512 (fst pk) alpha = Some H /\
    c = challenge_of_digest (sha512 (challenge_input (compress H) (compress gm)
          (compress (gsub G gadd gopp (zmul s B) (zmul c (snd pk))))
          (compress (gsub G gadd gopp (zmul s H) (zmul c gm))))).
Proof. exact ecvrf_verify_bytes_iff_l. Qed.
Print Assumptions ecvrf_verify_bytes_iff.

(** the codec on concrete bytes (points = their encodings): an 80-byte proof with s = l - 1 is accepted and
    re-encodes to itself, s = l is rejected, 79 bytes are rejected, a set bit above 2^128 in c makes encode fail *)
Example ecvrf_codec_nonvacuous :
  let gm := repeat 9%N 32 in
  let dec := fun b : list N => Some b in
  encode_proof (list N) (fun p => p) (gm, 5%Z, (ed_l - 1)%Z) <> None /\
  (forall pib, encode_proof (list N) (fun p => p) (gm, 5%Z, (ed_l - 1)%Z) = Some pib ->
     length pib = 80%nat /\ decode_proof (list N) dec pib = Some (gm, 5%Z, (ed_l - 1)%Z) /\
     decode_proof (list N) dec (firstn 79 pib) = None) /\
  decode_proof (list N) dec (gm ++ le_encode 16 5 ++ le_encode 32 ed_l) = None /\
  encode_proof (list N) (fun p => p) (gm, (2 ^ 128)%Z, 0%Z) = None.
Proof.
  cbv zeta. split; [vm_compute; discriminate|]. split; [|split; vm_compute; reflexivity].
  intros pib E. vm_compute in E. injection E as <-. repeat split; vm_compute; reflexivity.
Qed.
Print Assumptions ecvrf_codec_nonvacuous.
