(** * C02 — Energy metering is exact, never undercharges, and bounds execution.
    Property theorems only; models in Wasm/Meter.v, Wasm/SemTrace.v, generated schedules in Gen/CostV*.v. *)
From Coq Require Import ZArith NArith List Bool.
From CB Require Import Wasm.Syntax Wasm.CostCtx Wasm.CostProofs.
From CB Require Gen.CostV0 Gen.CostV1.
Import ListNotations.
Local Open Scope N_scope.

(** ** cost_positive: in the GENERATED schedules the zero-cost opcodes are exactly the structural ones
    (V0) / the structural ones and those for which the compiler emits no instruction (V1); every
    other opcode - in particular every branch and call - costs at least 1. *)
Theorem cost_positive_v0 : forall o L cx c, CostV0.get_cost o L cx = Some c ->
  (structural o = true -> c = 0) /\ (structural o = false -> 1 <= c).
Proof. exact v0_table. Qed.
Print Assumptions cost_positive_v0.

Theorem cost_positive_v1 : forall o L cx c, CostV1.get_cost o L cx = Some c ->
  (structural o || erased o = true -> c = 0) /\ (structural o || erased o = false -> 1 <= c).
Proof. exact v1_table. Qed.
Print Assumptions cost_positive_v1.

Theorem branches_and_calls_cost_v0 : forall o L cx c,
  CostV0.get_cost o L cx = Some c -> is_branch_or_call o = true -> 1 <= c.
Proof. exact v0_total. Qed.
Print Assumptions branches_and_calls_cost_v0.

Theorem branches_and_calls_cost_v1 : forall o L cx c,
  CostV1.get_cost o L cx = Some c -> is_branch_or_call o = true -> 1 <= c.
Proof. exact v1_total. Qed.
Print Assumptions branches_and_calls_cost_v1.

Theorem taken_branch_cost : (forall a, 1 <= CostV0.cfg_branch a) /\ (forall a, 1 <= CostV1.cfg_branch a).
Proof. exact (conj v0_branch v1_branch). Qed.
Print Assumptions taken_branch_cost.

(** ** memgrow_announced: in every function body of [inject m] each [memory.grow] is immediately
    preceded by the call of import 0 ([account_memory], which returns its argument: [SemTrace.mhost]),
    so the host is told the number of pages before the memory grows. *)
From CB Require Import Wasm.Sem Wasm.Meter Wasm.SemTrace Wasm.MeterRun Wasm.MeterProofs Wasm.SemTraceProofs.

Theorem memgrow_announced : forall cfg m m',
  inject cfg m = Some m' -> Forall (fun f => Announced (f_body f)) (m_funcs m').
Proof. exact memgrow_announced_module. Qed.
Print Assumptions memgrow_announced.

Example announced_shape :
  Announced [Basic (BConst T_i32 1%Z); Basic (BCall 0); Basic BMemoryGrow; Basic BDrop]
  /\ ~ Announced [Basic (BConst T_i32 1%Z); Basic BMemoryGrow].
Proof.
  split.
  - apply A_basic; [discriminate|]. apply A_grow. apply A_basic; [discriminate|]. constructor.
  - intro H. inversion H; subst. inversion H3; subst. congruence.
Qed.
Print Assumptions announced_shape.

(** ** budget_monotone (InterpreterEnergy model [MeterRun.pay]: tick_energy / charge_memory_alloc
    zero the remaining energy on failure): a run that does not run out of energy with budget [B]
    has, with any larger budget [B'], the same charges paid and remaining energy larger by exactly
    [B' - B]; out of energy happens exactly when the sum of the charges exceeds the budget. *)
Theorem budget_monotone : forall cs B B' rem,
  pay B cs = (true, rem) -> B <= B' -> pay B' cs = (true, rem + (B' - B)).
Proof. exact budget_monotone_pay. Qed.
Print Assumptions budget_monotone.

Theorem out_of_energy_exactly_when_need_exceeds_budget : forall cs B,
  fst (pay B cs) = false <-> B < sum_charges cs.
Proof. exact out_of_energy_iff. Qed.
Print Assumptions out_of_energy_exactly_when_need_exceeds_budget.

Theorem budget_accounting : forall cs B,
  (sum_charges cs <= B -> pay B cs = (true, B - sum_charges cs)) /\
  (B < sum_charges cs -> pay B cs = (false, 0)).
Proof. exact pay_spec. Qed.
Print Assumptions budget_accounting.

Example budget_nonvacuous : pay 10 [3; 4] = (true, 3) /\ pay 6 [3; 4] = (false, 0).
Proof. split; reflexivity. Qed.
Print Assumptions budget_nonvacuous.

(** ** the instrumented interpreter IS the reference interpreter (same fuel, same outcome):
    every statement about [SemTrace.trun] is a statement about [Sem.run] of the erased module. *)
Theorem sem_trace_erase : forall host cap m afs, m_funcs m = map erase_func afs ->
  forall fuel fi args, snd (trun host cap m afs fuel fi args) = run host cap m fuel fi args.
Proof. exact trun_erase. Qed.
Print Assumptions sem_trace_erase.

(** ** meter_prepaid and meter_exact, for ALL modules, entry points, arguments, hosts, fuel:
    on the event trace [T] of running the metered module [inject cfg m]
    - every prefix [p] of [T] satisfies  work p <= ticks p  (energy is charged BEFORE the work:
      a trap, an out-of-energy stop or any other interruption can never leave work unpaid), and
    - if the invocation returns, ticks T = work T exactly.
    [work] sums the annotations of the executed instructions: the cost the schedule gives the SOURCE
    instruction in its source context, [branch] for a taken [br_if], [invoke_after] per entered
    function ([Meter.mi], [Meter.ameter_body]).  By [sem_trace_erase] and [inject_is_erasure] the
    run is exactly [Sem.run] of [inject cfg m]. *)
From CB Require Import Wasm.MeterSafe.

Theorem meter_prepaid_exact : forall cfg m m' afs host cap fuel fi args T o,
  inject cfg m = Some m' -> ameter_funcs cfg m = Some afs ->
  trun host cap m' afs fuel fi args = (T, o) ->
  (forall p q, T = p ++ q -> work p <= ticks p) /\
  (forall r mem g, o = Done r mem g -> ticks T = work T).
Proof. exact metered_run_prepaid_exact. Qed.
Print Assumptions meter_prepaid_exact.

Theorem inject_is_erasure : forall cfg m m' afs,
  inject cfg m = Some m' -> ameter_funcs cfg m = Some afs -> m_funcs m' = map erase_func afs.
Proof. exact inject_erase. Qed.
Print Assumptions inject_is_erasure.

(** the metered run observed through the reference semantics: same outcome as [Sem.run (inject m)] *)
Theorem metered_run_is_sem_run : forall cfg m m' afs host cap fuel fi args,
  inject cfg m = Some m' -> ameter_funcs cfg m = Some afs ->
  snd (trun host cap m' afs fuel fi args) = run host cap m' fuel fi args.
Proof. exact MeterSafe.run_is_sem_run. Qed.
Print Assumptions metered_run_is_sem_run.

(** the number of executed instructions of non-zero cost in ANY PREFIX is bounded by the energy
    ticked so far (hence by the budget) *)
Theorem costed_steps_le_ticks : forall cfg m m' afs host cap fuel fi args T o,
  inject cfg m = Some m' -> ameter_funcs cfg m = Some afs ->
  trun host cap m' afs fuel fi args = (T, o) ->
  forall p q, T = p ++ q -> N.of_nat (length (works p)) <= ticks p.
Proof. exact MeterSafe.costed_steps. Qed.
Print Assumptions costed_steps_le_ticks.

(** non-vacuity: a concrete module with a loop, a br_if, a call and memory.grow is metered by both
    schedules and its run returns with ticks = work > 0 *)
Definition ex_module : module :=
  {| m_types := [ {| ft_params := []; ft_result := Some T_i32 |}; {| ft_params := [T_i32]; ft_result := Some T_i32 |} ];
     m_imports := [];
     m_funcs := [ {| f_type := 1%nat; f_locals := [T_i32];
                     f_body := [Basic (BLocalGet 0); Basic (BConst T_i32 1%Z); Basic (BBinop T_i32 Add)] |};
                  {| f_type := 0%nat; f_locals := [T_i32];
                     f_body := [Basic (BConst T_i32 3%Z); Basic (BLocalSet 0);
                                Loop None [Basic (BLocalGet 0); Basic (BConst T_i32 1%Z); Basic (BBinop T_i32 Sub);
                                           Basic (BLocalTee 0); Basic (BBrIf 0)];
                                Basic (BConst T_i32 1%Z); Basic BMemoryGrow; Basic BDrop;
                                Basic (BConst T_i32 5%Z); Basic (BCall 0)] |} ];
     m_table := None; m_elems := []; m_mem := Some {| l_min := 1; l_max := Some 4 |}; m_data := []; m_globals := [] |}.

Example metered_example :
  forall v1 : bool,
  match model_events v1 512 ex_module 200 1 [] with
  | Some (T, Done (Some (VI32 6)) _ _) => ticks T = work T /\ 0 < ticks T /\ bal 0 T = Some 0
  | _ => False
  end.
Proof. intros [|]; vm_compute; repeat split; reflexivity. Qed.
Print Assumptions metered_example.

(** ** meter_transparent: erasing the ticks and the [account_memory] call, the metered module behaves
    as the source module.  If [Sem.run m] of function [fi] ends (result / trap; not stuck, not out of
    fuel) then for all sufficiently large fuel [Sem.run (inject cfg m)] of function [fi + 1] under the
    host [mhost h] (import 0 = account_memory returning its argument, import i+1 = import i of [m])
    ends with the SAME outcome: same result value, same final memory, same globals, trap iff trap. *)
From CB Require Import Wasm.MeterSim Wasm.MeterFlat Wasm.MeterBound Wasm.CostPositive.

Theorem meter_transparent : forall cfg m m' h cap fuel fi args o,
  inject cfg m = Some m' ->
  run h cap m fuel fi args = o -> o <> OutOfFuel -> o <> Stuck ->
  exists f0, forall f, (f0 <= f)%nat -> run (mhost h) cap m' f (S fi) args = o.
Proof. exact meter_transparent_sem. Qed.
Print Assumptions meter_transparent.

(** ... and the work that [meter_prepaid_exact] sums on the metered trace IS the cost schedule summed
    over the instructions the SOURCE run executes: the source module annotated with its own costs
    ([annot_funcs]: [get_cost] of every instruction in its context, [branch] on a taken br_if,
    [invoke_after] per entered function; [annot_is_source]) produces the same sequence of non-zero
    work items, the same total, and the same host calls with the same arguments in the same order
    (the metered trace's calls of import 0 removed, the others re-indexed). *)
Theorem metered_work_is_source_work : forall cfg m m' afs_s afs_m h cap fuel fi args W o,
  inject cfg m = Some m' -> annot_funcs cfg m = Some afs_s -> ameter_funcs cfg m = Some afs_m ->
  trun h cap m afs_s fuel fi args = (W, o) -> o <> OutOfFuel -> o <> Stuck ->
  exists f0 T, (forall f, (f0 <= f)%nat -> trun (mhost h) cap m' afs_m f (S fi) args = (T, o)) /\
               works T = works W /\ work T = work W /\ src_hostcalls T = hostcalls W.
Proof. exact MeterSim.metered_work_is_source_work. Qed.
Print Assumptions metered_work_is_source_work.

Theorem annot_is_source : forall cfg m afs_s,
  annot_funcs cfg m = Some afs_s -> m_funcs m = map erase_func afs_s.
Proof. exact annot_funcs_erase. Qed.
Print Assumptions annot_is_source.

(** hence: energy ticked by the metered run = cost schedule summed over the source run *)
Theorem meter_exact_wrt_source : forall cfg m m' afs_s afs_m h cap fuel fi args W r mem g,
  inject cfg m = Some m' -> annot_funcs cfg m = Some afs_s -> ameter_funcs cfg m = Some afs_m ->
  trun h cap m afs_s fuel fi args = (W, Done r mem g) ->
  exists f0 T, (forall f, (f0 <= f)%nat -> trun (mhost h) cap m' afs_m f (S fi) args = (T, Done r mem g)) /\
               ticks T = work W.
Proof. exact MeterSim.exact_wrt_source. Qed.
Print Assumptions meter_exact_wrt_source.

(** ** flat_structured_agree: the transcription of [InstrSeqTransformer::run] on the opcode stream of
    every well-nested body equals the flattening of the structured transformer's output (both schedules
    price [End]/[Else] at 0). *)
Theorem flat_structured_agree : forall cfg m m',
  (forall L, c_cost cfg OEnd L (ctx_of_module m) = Some 0) ->
  (forall L, c_cost cfg OElse L (ctx_of_module m) = Some 0) ->
  inject cfg m = Some m' ->
  inject_flat cfg m (map (fun f => flatten_body (f_body f)) (m_funcs m)) =
  Some (map (fun f => flatten_body (f_body f)) (m_funcs m')).
Proof. exact MeterFlat.flat_structured_agree. Qed.
Print Assumptions flat_structured_agree.

Theorem flat_structured_agree_v0_v1 : forall m m',
  (inject CostV0.cfg m = Some m' ->
   inject_flat CostV0.cfg m (map (fun f => flatten_body (f_body f)) (m_funcs m)) =
   Some (map (fun f => flatten_body (f_body f)) (m_funcs m'))) /\
  (inject CostV1.cfg m = Some m' ->
   inject_flat CostV1.cfg m (map (fun f => flatten_body (f_body f)) (m_funcs m)) =
   Some (map (fun f => flatten_body (f_body f)) (m_funcs m'))).
Proof. exact CostPositive.flat_agree_v0_v1. Qed.
Print Assumptions flat_structured_agree_v0_v1.

(** ** meter_bounds_steps and metered_run_terminates_within.
    [M = module_bound afs] = 2 + the size of the largest metered function body.  For every run of a
    metered module (any fuel, any outcome - also a run cut off by lack of fuel, i.e. every fuel-cut
    prefix): the number of events (every executed source instruction emits one) is at most
    M (1 + 2 ticks).  And a run that was cut off by lack of fuel had fuel <= M (1 + 2 ticks): so under
    an energy budget B, fuel M (1 + 2B) + 1 suffices - the run ends (success or trap) or has ticked more
    than B, i.e. has been stopped by out-of-energy, within M (1 + 2B) events. *)
Theorem meter_bounds_steps : forall cfg m m' afs host cap fuel fi args T o,
  positive_cfg cfg (ctx_of_module m) ->
  inject cfg m = Some m' -> ameter_funcs cfg m = Some afs ->
  trun host cap m' afs fuel fi args = (T, o) ->
  evs T <= module_bound afs * (1 + 2 * ticks T).
Proof. exact MeterBound.bounds_steps. Qed.
Print Assumptions meter_bounds_steps.

Theorem metered_run_terminates_within : forall cfg m m' afs host cap fuel fi args T B,
  positive_cfg cfg (ctx_of_module m) ->
  inject cfg m = Some m' -> ameter_funcs cfg m = Some afs ->
  module_bound afs * (1 + 2 * B) < N.of_nat fuel ->
  trun host cap m' afs fuel fi args = (T, OutOfFuel) -> B < ticks T.
Proof. exact MeterBound.terminates_within. Qed.
Print Assumptions metered_run_terminates_within.

(** both generated schedules satisfy the positivity hypothesis *)
Theorem generated_schedules_positive : forall cx, positive_cfg CostV0.cfg cx /\ positive_cfg CostV1.cfg cx.
Proof. exact CostPositive.schedules_positive. Qed.
Print Assumptions generated_schedules_positive.

(** non-vacuity: an endless loop and an endless recursion are metered, and with fuel 2000 their runs
    are cut off by fuel only after more than 100 energy has been ticked *)
Definition spin_module : module :=
  {| m_types := [ {| ft_params := []; ft_result := None |} ];
     m_imports := [];
     m_funcs := [ {| f_type := 0%nat; f_locals := []; f_body := [Loop None [Basic (BBr 0)]] |};
                  {| f_type := 0%nat; f_locals := []; f_body := [Basic (BCall 1)] |} ];
     m_table := None; m_elems := []; m_mem := None; m_data := []; m_globals := [] |}.
Example spin_example : forall v1 : bool,
  match model_events v1 512 spin_module 2000 0 [], model_events v1 512 spin_module 2000 1 [] with
  | Some (T1, OutOfFuel), Some (T2, OutOfFuel) => 100 < ticks T1 /\ 100 < ticks T2
  | _, _ => False
  end.
Proof. intros [|]; vm_compute; split; reflexivity. Qed.
Print Assumptions spin_example.
