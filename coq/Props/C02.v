(** * C02 — Energy metering is exact, never undercharges, and bounds execution.
    Property theorems only; models in Wasm/Meter.v, Wasm/SemTrace.v, generated schedules in Gen/CostV*.v. *)
From Coq Require Import ZArith NArith List Bool.
From CB Require Import Wasm.Syntax Wasm.CostCtx Wasm.CostProofs.
From CB Require Gen.CostV0 Gen.CostV1.
Import ListNotations.
Local Open Scope N_scope.

(** ** cost_positive: in the GENERATED schedules the zero-cost opcodes are exactly the structural ones
    (V0) / the structural ones and those for which the compiler emits no instruction (V1); every
    other opcode - in particular every branch and call - costs at least 1. *)
Theorem cost_positive_v0 : forall o L cx c, CostV0.get_cost o L cx = Some c ->
  (structural o = true -> c = 0) /\ (structural o = false -> 1 <= c).
Proof. exact v0_table. Qed.
Print Assumptions cost_positive_v0.

Theorem cost_positive_v1 : forall o L cx c, CostV1.get_cost o L cx = Some c ->
  (structural o || erased o = true -> c = 0) /\ (structural o || erased o = false -> 1 <= c).
Proof. exact v1_table. Qed.
Print Assumptions cost_positive_v1.

Theorem branches_and_calls_cost_v0 : forall o L cx c,
  CostV0.get_cost o L cx = Some c -> is_branch_or_call o = true -> 1 <= c.
Proof. exact v0_total. Qed.
Print Assumptions branches_and_calls_cost_v0.

Theorem branches_and_calls_cost_v1 : forall o L cx c,
  CostV1.get_cost o L cx = Some c -> is_branch_or_call o = true -> 1 <= c.
Proof. exact v1_total. Qed.
Print Assumptions branches_and_calls_cost_v1.

Theorem taken_branch_cost : (forall a, 1 <= CostV0.cfg_branch a) /\ (forall a, 1 <= CostV1.cfg_branch a).
Proof. exact (conj v0_branch v1_branch). Qed.
Print Assumptions taken_branch_cost.
