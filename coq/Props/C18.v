(** C18 - property theorems only.  Each is closed by [exact]/a one-line application and followed
    by [Print Assumptions].

    Scope (see design/C18.md): the exact scalar encoding of attribute values (injectivity, all
    collisions between kinds, agreement of the scalar order with the attribute order), decidable
    truth of atomic statements, the exact arithmetic of the in-range statement, the honest prover's
    refusal / acceptance as a function of truth (with the two completeness gaps of the implementation
    exhibited as witnesses), completeness relative to the sub-protocols (C07/C11), and injectivity
    of the transcripts and of the linking message (accept-after-alter => explicit hash collision).
    Soundness against arbitrary provers is computational and NOT claimed. *)
From Coq Require Import ZArith NArith List Bool.
From CB Require Import Crypto.Statements Crypto.StatementsProofs.
Import ListNotations.

(** * encoding *)
Theorem encoding_closed_form : forall a, wf_attr a = true ->
  encode a = encode_closed a /\ (encode a < 2 ^ 253)%N /\ (Z.of_N (encode a) < R_BLS)%Z.
Proof.
  intros a H. split; [exact (encode_closed_eq a H)|]. split; [exact (encode_lt_2_253 a H)|].
  pose proof (enc_bounds a H) as B. pose proof r_bls_gt as R.
  apply Z.lt_trans with (2 ^ 254)%Z; [|exact R]. apply Z.lt_trans with (2 ^ 253)%Z; [apply B|reflexivity].
Qed.
Print Assumptions encoding_closed_form.

Theorem encoding_injective : forall a b,
  wf_attr a = true -> wf_attr b = true -> same_kind a b = true -> encode a = encode b -> a = b.
Proof. exact encode_injective_same_kind. Qed.
Print Assumptions encoding_injective.

Theorem encoding_collisions_exact : forall a b,
  wf_attr a = true -> wf_attr b = true -> (encode a = encode b <-> canon a = canon b).
Proof. exact encode_eq_iff_canon. Qed.
Print Assumptions encoding_collisions_exact.

Theorem encoding_order_preserving : forall a b,
  wf_attr a = true -> wf_attr b = true ->
  match a, b with
  | AStr x, AStr y =>
      ((encode a < encode b)%N <-> shortlex_lt x y)
      /\ (length x = length y -> ((encode a < encode b)%N <-> attr_cmp a b = Lt))
  | ANum _, ANum _ | ATime _, ATime _ => ((encode a < encode b)%N <-> attr_cmp a b = Lt)
  | AStr x, _ => (x <> [] -> (encode b < encode a)%N) /\ (x = [] -> (encode a <= encode b)%N)
  | _, AStr y => (y <> [] -> (encode a < encode b)%N) /\ (y = [] -> (encode b <= encode a)%N)
  | ANum n, ATime m | ATime n, ANum m => ((encode a < encode b)%N <-> (n < m)%N)
  end.
Proof.
  intros [x|n|n] [y|m|m] Ha Hb;
    try (split; [apply encode_str_order; assumption|apply encode_str_order_same_length; assumption]);
    try (apply encode_mixed_order; [assumption|assumption|reflexivity]);
    try (apply encode_num_order); try (cbn [encode]; tauto).
Qed.
Print Assumptions encoding_order_preserving.

Theorem encoding_order_differs_across_string_lengths :
  exists a b, wf_attr a = true /\ wf_attr b = true /\ attr_cmp a b = Lt /\ (encode b < encode a)%N.
Proof. exact attr_order_vs_scalar_order_refuted. Qed.
Print Assumptions encoding_order_differs_across_string_lengths.

(** * truth *)
Theorem statement_truth_decidable : forall al s,
  (holds al s = true <-> Holds al s) /\ (Holds al s \/ ~ Holds al s).
Proof. intros al s. split; [exact (holds_spec al s)|destruct (holds_decidable al s); tauto]. Qed.
Print Assumptions statement_truth_decidable.

(** * in-range arithmetic of the code *)
Theorem in_range_arith_exact : forall r v a b,
  (2 ^ 254 < r -> 0 <= v < 2 ^ 253 -> 0 <= a < 2 ^ 253 -> 0 <= b < 2 ^ 253 ->
   (range_scalars_ok r v a b = true <-> (a <= v < b /\ v - a < W64 /\ b - v <= W64))
   /\ range_verifies r v a b = range_scalars_ok r v a b)%Z.
Proof.
  intros r v a b Hr Hv Ha Hb. split; [apply range_scalars_ok_iff; assumption|].
  apply range_verifies_eq_ok. apply Z.lt_trans with (2 ^ 254)%Z; [reflexivity|exact Hr].
Qed.
Print Assumptions in_range_arith_exact.

Theorem in_range_arith_exact_u64 : forall r v a b,
  (2 ^ 254 < r -> 0 <= v < W64 -> 0 <= a < W64 -> 0 <= b < W64 ->
   (range_verifies r v a b = true <-> a <= v < b))%Z.
Proof. exact range_verifies_u64. Qed.
Print Assumptions in_range_arith_exact_u64.

(** * the honest prover *)
Theorem prove_some_iff_true_exact : forall r gens al s,
  (2 ^ 254 < r)%Z -> wf_alist al = true -> wf_stmt s = true ->
  accepts r gens al s = holds al s && supported_al gens al s.
Proof. exact accepts_exact. Qed.
Print Assumptions prove_some_iff_true_exact.

Theorem prove_some_iff_true : forall r gens al ss,
  (2 ^ 254 < r)%Z -> wf_alist al = true -> forallb wf_stmt ss = true ->
  forallb (supported_al gens al) ss = true ->
  (accepts_all r gens al ss = true <-> all_hold al ss = true).
Proof. exact prove_all_iff_true_supported. Qed.
Print Assumptions prove_some_iff_true.

Theorem honest_prover_never_accepts_false : forall r gens al s,
  (2 ^ 254 < r)%Z -> wf_alist al = true -> wf_stmt s = true ->
  accepts r gens al s = true -> holds al s = true.
Proof. exact accepts_implies_holds. Qed.
Print Assumptions honest_prover_never_accepts_false.

(** the unguarded statement is refuted on the faithful model: two classes of TRUE statements for
    which the implementation yields no verifying proof (KF-C18-1, KF-C18-2) *)
Theorem prove_some_iff_true_refuted :
  (let (al, s) := gap_witness_empty_set in
   wf_alist al = true /\ wf_stmt s = true /\ holds al s = true /\ outcome_of R_BLS 256 al s = Refuse)
  /\ (let (al, s) := gap_witness_wide_range in
   wf_alist al = true /\ wf_stmt s = true /\ holds al s = true /\ outcome_of R_BLS 256 al s = ProofBad).
Proof. exact prove_iff_true_refuted. Qed.
Print Assumptions prove_some_iff_true_refuted.

Theorem range_numeric_provable_iff_true : forall r gens t v lo hi,
  (2 ^ 254 < r)%Z -> (128 <= gens)%nat ->
  is_u64_attr v = true -> is_u64_attr lo = true -> is_u64_attr hi = true ->
  (is_ok (prover_outcome r gens v (SRange t lo hi)) = true <-> (encode lo <= encode v < encode hi)%N).
Proof. exact range_numeric_exact. Qed.
Print Assumptions range_numeric_provable_iff_true.

Theorem range_boundary_cases : forall r gens t a b,
  (2 ^ 254 < r)%Z -> (128 <= gens)%nat -> (a < 2 ^ 64)%N -> (b < 2 ^ 64)%N ->
  let ok v := is_ok (prover_outcome r gens (ANum v) (SRange t (ANum a) (ANum b))) in
  ((a < b)%N -> ok a = true /\ ok (b - 1)%N = true)
  /\ ok b = false
  /\ ((0 < a)%N -> ok (a - 1)%N = false)
  /\ ((b <= a)%N -> forall v, (v < 2 ^ 64)%N -> ok v = false).
Proof. exact range_boundaries_numeric. Qed.
Print Assumptions range_boundary_cases.

Theorem set_boundary_cases : forall r gens t v, (1 <= gens)%nat ->
  prover_outcome r gens v (SInSet t []) = Refuse
  /\ holds_value v (SInSet t []) = false
  /\ prover_outcome r gens v (SNotInSet t []) = Refuse
  /\ holds_value v (SNotInSet t []) = true
  /\ (forall x, is_ok (prover_outcome r gens v (SInSet t [x])) = (encode x =? encode v)%N)
  /\ (forall x, is_ok (prover_outcome r gens v (SNotInSet t [x])) = negb (encode x =? encode v)%N).
Proof. exact set_boundaries. Qed.
Print Assumptions set_boundary_cases.

Theorem set_padding_preserves_truth : forall v set, mem_enc v (pad_pow2 set) = mem_enc v set.
Proof. exact pad_preserves_mem. Qed.
Print Assumptions set_padding_preserves_truth.

(** * completeness relative to the sub-protocols; binding; linking message.
    Everything abstract is a Section variable: universally quantified after [End]. *)
Section C18_Abstract.
  Variable r : Z.
  Variable gens : nat.
  Variable sub_verifies : stmt -> attr -> bool.
  Hypothesis dlog_complete : forall t v, sub_verifies (SReveal t) v = true.
  Hypothesis dlog_value_complete : forall t w v, encode w = encode v -> sub_verifies (SValue t w) v = true.
  Hypothesis range_complete : forall t lo hi v,
    range_scalars_ok r (Z.of_N (encode v)) (Z.of_N (encode lo)) (Z.of_N (encode hi)) = true ->
    sub_verifies (SRange t lo hi) v = true.
  Hypothesis set_member_complete : forall t set v,
    set <> [] -> (padded_len (length set) <= gens)%nat -> mem_enc (encode v) (pad_pow2 set) = true ->
    sub_verifies (SInSet t set) v = true.
  Hypothesis set_nonmember_complete : forall t set v,
    set <> [] -> (padded_len (length set) <= gens)%nat -> mem_enc (encode v) (pad_pow2 set) = false ->
    sub_verifies (SNotInSet t set) v = true.

  Theorem statement_complete : forall al s, (0 < r)%Z ->
    accepts r gens al s = true ->
    verify_model sub_verifies al s = true
    /\ (forall t, s = SReveal t -> exists v, revealed al s = Some v /\ lookup t al = Some v).
  Proof. exact (statement_complete_rel r gens sub_verifies dlog_complete dlog_value_complete
                  range_complete set_member_complete set_nonmember_complete). Qed.
  Print Assumptions statement_complete.

  Variable H : list N -> list N.
  Variables Given Requested Global PV Time Issuer Stmts Net CredId Chal Proofs : Type.
  Variable e_given : Given -> list N.
  Variable e_requested : Requested -> list N.
  Variable e_global : Global -> list N.
  Variable e_pv : PV -> list N.
  Variable e_time : Time -> list N.
  Variable e_issuer : Issuer -> list N.
  Variable e_stmts : Stmts -> list N.
  Variable e_net : Net -> list N.
  Variable e_credid : CredId -> list N.
  Variable e_chal : Chal -> list N.
  Variable e_proofs : Proofs -> list N.
  Hypothesis P_given : prefix_code e_given.
  Hypothesis P_requested : prefix_code e_requested.
  Hypothesis P_global : prefix_code e_global.
  Hypothesis P_pv : prefix_code e_pv.
  Hypothesis P_time : prefix_code e_time.
  Hypothesis P_issuer : prefix_code e_issuer.
  Hypothesis P_stmts : prefix_code e_stmts.
  Hypothesis P_net : prefix_code e_net.
  Hypothesis P_credid : prefix_code e_credid.
  Hypothesis P_chal_inj : forall x y, e_chal x = e_chal y -> x = y.
  Hypothesis P_chal_len : forall x y, length (e_chal x) = length (e_chal y).
  Hypothesis P_proofs : prefix_code e_proofs.
  Variable H512 : list N -> list N.

  Let transcript := v1_account_transcript Given Requested Global PV Time Issuer Stmts Net CredId
                      e_given e_requested e_global e_pv e_time e_issuer e_stmts e_net e_credid.

  (** every field of a v1 request / presentation enters the transcript injectively ... *)
  Theorem request_fields_bound : forall q q' t t',
    transcript q ++ t = transcript q' ++ t' -> q = q' /\ t = t'.
  Proof. exact (v1_account_transcript_injective _ _ _ _ _ _ _ _ _ _ _ _ _ _ _ _ _ _
                  P_given P_requested P_global P_pv P_time P_issuer P_stmts P_net P_credid). Qed.
  Print Assumptions request_fields_bound.

  (** ... hence accepting one proof for two different requests yields an explicit collision *)
  Theorem request_alter_yields_collision : forall q q' t t',
    q <> q' -> H (transcript q ++ t) = H (transcript q' ++ t') -> exists x y, x <> y /\ H x = H y.
  Proof. exact (v1_account_alter_collision H _ _ _ _ _ _ _ _ _ _ _ _ _ _ _ _ _ _
                  P_given P_requested P_global P_pv P_time P_issuer P_stmts P_net P_credid). Qed.
  Print Assumptions request_alter_yields_collision.

  Theorem id_statement_context_bound : forall g c cred g' c' cred' t t',
    id_transcript Global CredId Chal e_global e_credid e_chal g c cred ++ t
    = id_transcript Global CredId Chal e_global e_credid e_chal g' c' cred' ++ t' ->
    g = g' /\ c = c' /\ cred = cred' /\ t = t'.
  Proof. exact (id_transcript_injective _ _ _ _ _ P_global P_credid _ P_chal_inj P_chal_len). Qed.
  Print Assumptions id_statement_context_bound.

  Theorem web3_v0_context_bound : forall g c g' c' t t',
    web3_v0_transcript Global Chal e_global e_chal c g ++ t
    = web3_v0_transcript Global Chal e_global e_chal c' g' ++ t' -> g = g' /\ c = c' /\ t = t'.
  Proof. exact (web3_v0_transcript_injective _ _ _ P_global _ P_chal_inj P_chal_len). Qed.
  Print Assumptions web3_v0_context_bound.

  Theorem linking_message_injective : forall c p c' p',
    linking_msg Chal e_chal H512 Proofs e_proofs c p = linking_msg Chal e_chal H512 Proofs e_proofs c' p' ->
    (c = c' /\ p = p') \/ (exists x y, x <> y /\ H512 x = H512 y).
  Proof. exact (linking_msg_injective _ _ P_chal_inj P_chal_len _ _ _ P_proofs). Qed.
  Print Assumptions linking_message_injective.
End C18_Abstract.

(** * the sub-protocol hypotheses of [statement_complete], discharged by the C07 / C11 developments
    (for every field / module with the laws of Alg.v resp. every [bp_ops] with [bp_laws]) *)
From CB Require Import Crypto.Alg Crypto.Transcript Crypto.SigmaGeneric Crypto.SigmaCodec Crypto.Sigma_dlog.
From CB Require Import Crypto.BpAlg Crypto.Ipa Crypto.RangeProof Crypto.SetProof Crypto.BpTheorems.
From CB Require Crypto.RangeStmt.
From CB Require Import Crypto.StatementsCompose.

Theorem statement_complete_reveal : forall (K : FieldOps) (M : ModOps K) (Cd : CodecOps M) (KL : FieldLaws K) (ML : ModLaws M)
    (H : bytes -> bytes) (sfb : bytes -> K) (g h : M) (x r : K) k ctx rho,
  let C := Gadd M (smul M x g) (smul M r h) in
  exists pi st,
    prove H sfb (dlog_proto Cd) k ctx (reveal_stmt g h C x) r rho = Some (pi, st)
    /\ verify H sfb (dlog_proto Cd) k ctx (reveal_stmt g h C x) pi = (true, st).
Proof. intros K M Cd KL ML H sfb g h x r k ctx rho. exact (reveal_complete_c07 Cd H sfb g h x r k ctx rho). Qed.
Print Assumptions statement_complete_reveal.

Theorem statement_complete_range : forall Ops, bp_laws Ops ->
  forall r v a b rs Gs Hs B Bt sL sR at_ st t1t t2t y yi z x w us,
  let vs := [fst (range_proved r v a b); snd (range_proved r v a b)] in
  length rs = 2%nat ->
  length Gs = Nat.pow 2 (length us) -> length Gs = 128%nat -> length Hs = length Gs ->
  length sL = length Gs -> length sR = length Gs ->
  o_fmul Ops y yi = o_f1 Ops -> inv_ok Ops us ->
  range_verdict Ops 64 (vzip (commit Ops B Bt) (map (fval Ops 64) vs) rs) Gs Hs B Bt
    (range_prove Ops 64 vs rs Gs Hs B Bt sL sR at_ st t1t t2t y yi z x w us) y yi z x w us = VOk
  /\ ((0 < r)%Z -> range_scalars_ok r v a b = true -> range_proved r v a b = range_scalars r v a b).
Proof.
  intros Ops L r v a b rs Gs Hs B Bt sL sR at_ st t1t t2t y yi z x w us vs H1 H2 H3 H4 H5 H6 H7 H8. split.
  - exact (range_stmt_complete_c11 Ops L r v a b rs Gs Hs B Bt sL sR at_ st t1t t2t y yi z x w us H1 H2 H3 H4 H5 H6 H7 H8).
  - exact (range_proved_eq_scalars r v a b).
Qed.
Print Assumptions statement_complete_range.

Theorem statement_complete_in_set : forall Ops, bp_laws Ops -> forall (emb : N -> o_F Ops)
    set v vr Gs Hs B Bt sL sR at_ st t1t t2t y yi z x w us,
  mem_enc (encode v) set = true ->
  length Gs = Nat.pow 2 (length us) -> length Gs = length (RangeStmt.pad_pow2 (enc_set Ops emb set)) -> length Hs = length Gs ->
  length sL = length Gs -> length sR = length Gs ->
  o_fmul Ops y yi = o_f1 Ops -> inv_ok Ops us ->
  exists p, mem_prove Ops (enc_set Ops emb set) (emb (encode v)) vr Gs Hs B Bt sL sR at_ st t1t t2t y yi z x w us = Some p
    /\ mem_verdict Ops (enc_set Ops emb set) (commit Ops B Bt (emb (encode v)) vr) Gs Hs B Bt p y yi z x w us = VOk.
Proof. intros Ops L emb. exact (set_member_stmt_complete_c11 Ops L emb). Qed.
Print Assumptions statement_complete_in_set.

Theorem statement_complete_not_in_set : forall Ops, bp_laws Ops -> forall (emb : N -> o_F Ops)
    set v vr invs Gs Hs B Bt sL sR at_ st t1t t2t y yi z x w us,
  (forall a b, emb a = emb b -> a = b) ->
  mem_enc (encode v) set = false ->
  Forall2 (fun si iv => o_fmul Ops (o_fsub Ops (emb (encode v)) si) iv = o_f1 Ops) (RangeStmt.pad_pow2 (enc_set Ops emb set)) invs ->
  length Gs = Nat.pow 2 (length us) -> length Gs = length (RangeStmt.pad_pow2 (enc_set Ops emb set)) -> length Hs = length Gs ->
  length sL = length Gs -> length sR = length Gs ->
  o_fmul Ops y yi = o_f1 Ops -> inv_ok Ops us ->
  exists p, nonmem_prove Ops (enc_set Ops emb set) (emb (encode v)) vr invs Gs Hs B Bt sL sR at_ st t1t t2t y yi z x w us = Some p
    /\ nonmem_verdict Ops (enc_set Ops emb set) (commit Ops B Bt (emb (encode v)) vr) Gs Hs B Bt p y yi z x w us = VOk.
Proof. intros Ops L emb. exact (set_nonmember_stmt_complete_c11 Ops L emb). Qed.
Print Assumptions statement_complete_not_in_set.

(** the prover's refusals, in the vocabulary of the C11 model *)
Theorem statement_false_set_refused : forall Ops, bp_laws Ops -> forall (emb : N -> o_F Ops)
    set v vr invs Gs Hs B Bt sL sR at_ st t1t t2t y yi z x w us,
  (forall a b, emb a = emb b -> a = b) ->
  (mem_enc (encode v) set = false ->
   mem_prove Ops (enc_set Ops emb set) (emb (encode v)) vr Gs Hs B Bt sL sR at_ st t1t t2t y yi z x w us = None)
  /\ (mem_enc (encode v) set = true ->
   nonmem_prove Ops (enc_set Ops emb set) (emb (encode v)) vr invs Gs Hs B Bt sL sR at_ st t1t t2t y yi z x w us = None).
Proof.
  intros Ops L emb set v vr invs Gs Hs B Bt sL sR at_ st t1t t2t y yi z x w us Hinj. split.
  - exact (set_member_stmt_refused_c11 Ops L emb set v vr Gs Hs B Bt sL sR at_ st t1t t2t y yi z x w us Hinj).
  - exact (set_nonmember_stmt_refused_c11 Ops L emb set v vr invs Gs Hs B Bt sL sR at_ st t1t t2t y yi z x w us).
Qed.
Print Assumptions statement_false_set_refused.

(** * request anchors: the presentation's claims match the anchored request *)
Theorem claims_match_ok_iff : forall rq pc,
  claims_match rq pc = MOk <->
  (In (pc_kind pc) (rq_source rq)
   /\ (exists d, In d (rq_issuers rq) /\ did_ip d = pc_issuer pc /\ did_net d = pc_net pc)
   /\ map to_requested (pc_stmts pc) = rq_stmts rq).
Proof. exact claims_match_ok_iff_. Qed.
Print Assumptions claims_match_ok_iff.

Theorem issuer_match_is_entrywise_not_fieldwise :
  (forall rq pc, issuer_allowed rq pc = true -> issuer_allowed_fieldwise rq pc = true)
  /\ (exists rq pc, issuer_allowed_fieldwise rq pc = true /\ issuer_allowed rq pc = false
                    /\ claims_match rq pc = MFailIssuer).
Proof. exact issuer_allowed_fieldwise_weaker_. Qed.
Print Assumptions issuer_match_is_entrywise_not_fieldwise.

Theorem claims_list_match_ok_iff : forall rqs pcs,
  claims_list_match rqs pcs = MOk <-> Forall2 (fun rq pc => claims_match rq pc = MOk) rqs pcs.
Proof. exact claims_list_match_ok_iff_. Qed.
Print Assumptions claims_list_match_ok_iff.

(** every credential of a presentation has to be valid at the verification time - not just the last *)
Theorem all_valid_at_iff : forall now vs,
  all_valid_at now vs = true <-> Forall (fun v => (fst v <= now < snd v)%N) vs.
Proof. exact all_valid_at_iff_. Qed.
Print Assumptions all_valid_at_iff.

Theorem all_valid_is_not_last_only :
  (forall now vs, all_valid_at now vs = true -> last_valid_at now vs = true)
  /\ (exists now vs, last_valid_at now vs = true /\ all_valid_at now vs = false).
Proof. exact all_valid_not_last_only_. Qed.
Print Assumptions all_valid_is_not_last_only.

(** identity attribute credentials: exactly [threshold] sharing-coefficient commitments *)
Theorem identity_attributes_threshold_exact : forall ip t n sg,
  identity_attributes_verdict ip t n sg = IAOk <-> (ip = true /\ t = n /\ sg = true).
Proof. exact identity_attributes_threshold_exact_. Qed.
Print Assumptions identity_attributes_threshold_exact.

Theorem identity_attributes_threshold_not_only_lower_bound :
  (forall t n, (t =? n)%N = true -> threshold_check_gt t n = true)
  /\ (exists t n, threshold_check_gt t n = true /\ t <> n
                  /\ identity_attributes_verdict true t n true = IAFailAr).
Proof. exact threshold_check_gt_weaker_. Qed.
Print Assumptions identity_attributes_threshold_not_only_lower_bound.

(** * non-vacuity *)
Local Open Scope N_scope.
Example encoding_examples :
  wf_attr (AStr [68; 75]) = true
  /\ encode (AStr [68; 75]) = (2 * 2 ^ 248 + 68 * 256 + 75)%N
  /\ encode_bytes (AStr [68; 75]) = [2;0;0;0;0;0;0;0;0;0;0;0;0;0;0;0;0;0;0;0;0;0;0;0;0;0;0;0;0;0;68;75]%N
  /\ encode (AStr []) = encode (ANum 0) /\ canon (AStr []) = canon (ATime 0)
  /\ wf_attr (AStr (repeat 255%N 31)) = true /\ (Z.of_N (encode (AStr (repeat 255%N 31))) < R_BLS)%Z.
Proof. vm_compute. repeat split; reflexivity. Qed.
Print Assumptions encoding_examples.

Example prover_examples :
  let al := [(3%N, ANum 137); (1%N, AStr [97; 97])] in
  wf_alist al = true
  /\ accepts R_BLS 256 al (SRange 3 (ANum 137) (ANum 138)) = true
  /\ accepts R_BLS 256 al (SRange 3 (ANum 80) (ANum 137)) = false
  /\ accepts R_BLS 256 al (SInSet 1 [AStr [97; 97]; AStr [102; 102]; AStr [122; 122]]) = true
  /\ accepts R_BLS 256 al (SNotInSet 1 [AStr [102; 102]]) = true
  /\ accepts R_BLS 256 al (SValue 3 (ATime 137)) = true
  /\ forallb (supported_al 256 al) [SRange 3 (ANum 80) (ANum 1237); SReveal 1] = true
  /\ (2 ^ 254 < R_BLS)%Z.
Proof. vm_compute. repeat split; reflexivity. Qed.
Print Assumptions prover_examples.

(** the hypotheses of the binding theorems are satisfiable: a fixed-width encoder is a prefix code,
    and with it two different requests have different transcripts *)
Example prefix_code_example :
  prefix_code (fun b : bool => [if b then 1 else 0]%N)
  /\ frame_v1 (v1_account [17] [0] [1] [5]%N) <> frame_v1 (v1_account [18] [0] [1] [5]%N).
Proof.
  split.
  - intros [|] [|] r1 r2 E; try reflexivity; discriminate E.
  - vm_compute. discriminate.
Qed.
Print Assumptions prefix_code_example.
