(** C01 — property theorems only.  Each is closed by [exact] and followed by [Print Assumptions].

    What is proved here (all inputs, no bounds):
    - the numeric layer of the specification ([Common/IntN.v]): every operator is total on its
      domain, closed on [0,2^N), and satisfies the WebAssembly 1.0 definitions (wrap-around
      arithmetic, the two corner cases of signed division, shift counts modulo the width,
      rotl/rotr inverse, bounds of clz/ctz/popcnt, wrap/extend laws, little-endian bytes);
    - the reference interpreter ([Wasm/Sem.v]): fuel monotonicity (an outcome other than
      out-of-fuel never changes with more fuel — so "the" outcome of a terminating run is
      well defined), memory store/load round trip, bounds and frame, memory.grow;
    - [structure_body] inverts [flatten_body] (the structured program the specification runs
      is exactly the flat program the engine compiles);
    - the faithful model of the engine ([Wasm/Compile.v], [Wasm/Machine.v]) REFUTES the
      unguarded conformance statement: witnesses for findings F1, F2 (if and loop form) and F3.
    NOT proved (correspondence-only, see design/C01.md): the simulation
    [compile_straightline_correct] / [compile_correct]. *)
From Coq Require Import ZArith NArith List Bool.
From CB Require Import Common.IntN Common.IntNProofs Wasm.Syntax Wasm.SyntaxProofs Wasm.Sem Wasm.SemProofs
     Wasm.Compile Wasm.Machine Wasm.KnownClasses Wasm.Engine Wasm.Witnesses Wasm.EngineProofs Wasm.NumOpsProofs.
Import ListNotations.
Local Open Scope Z_scope.

(** ** numeric specification *)
Theorem intn_closed : forall n x y, 0 < n -> in_range n x -> in_range n y ->
  in_range n (iadd n x y) /\ in_range n (isub n x y) /\ in_range n (imul n x y)
  /\ in_range n (ishl n x y) /\ in_range n (ishr_u n x y) /\ in_range n (ishr_s n x y)
  /\ in_range n (irotl n x y)
  /\ (forall r, idiv_u n x y = Some r -> in_range n r) /\ (forall r, irem_u n x y = Some r -> in_range n r)
  /\ (forall r, idiv_s n x y = Some r -> in_range n r) /\ (forall r, irem_s n x y = Some r -> in_range n r)
  /\ 0 <= iclz n x <= n /\ 0 <= ictz n x <= n /\ 0 <= ipopcnt n x <= n.
Proof.
  exact (fun n x y Hn Hx Hy =>
    conj (iadd_range n x y (Z.lt_le_incl _ _ Hn)) (conj (isub_range n x y (Z.lt_le_incl _ _ Hn))
    (conj (imul_range n x y (Z.lt_le_incl _ _ Hn)) (conj (ishl_range n x y (Z.lt_le_incl _ _ Hn))
    (conj (ishr_u_range n x y Hn Hx) (conj (ishr_s_range n x y (Z.lt_le_incl _ _ Hn))
    (conj (irotl_range n x y Hn Hx)
    (conj (fun r => idiv_u_range n x y r Hx Hy) (conj (fun r => irem_u_range n x y r Hx Hy)
    (conj (fun r => idiv_s_range n x y r (Z.lt_le_incl _ _ Hn)) (conj (fun r => irem_s_range n x y r (Z.lt_le_incl _ _ Hn))
    (conj (iclz_range n x Hn Hx) (conj (ictz_range n x Hn Hx) (ipopcnt_range n x Hn Hx)))))))))))))).
Qed.
Print Assumptions intn_closed.

Theorem intn_arith_spec : forall n x y, 0 <= n ->
  iadd n x y = (x + y) mod 2 ^ n /\ isub n x y = (x - y) mod 2 ^ n /\ imul n x y = (x * y) mod 2 ^ n.
Proof. exact (fun n x y Hn => conj (iadd_spec n x y) (conj (isub_spec n x y Hn) (imul_spec n x y))). Qed.
Print Assumptions intn_arith_spec.

Theorem signed_unsigned_inverse : forall n, 0 < n ->
  (forall x, in_range n x -> unsigned n (signed n x) = x /\ - half_modulus n <= signed n x < half_modulus n)
  /\ (forall y, - half_modulus n <= y < half_modulus n -> signed n (unsigned n y) = y).
Proof.
  exact (fun n Hn => conj (fun x Hx => conj (unsigned_signed n x Hn Hx) (signed_range n x Hn Hx))
                         (fun y Hy => signed_unsigned n y Hn Hy)).
Qed.
Print Assumptions signed_unsigned_inverse.

(** MIN / -1 traps, MIN rem -1 is 0, division by zero is undefined (for every width > 1) *)
Theorem signed_division_corner_cases : forall n, 1 < n ->
  idiv_s n (half_modulus n) (modulus n - 1) = None
  /\ irem_s n (half_modulus n) (modulus n - 1) = Some 0
  /\ (forall x, idiv_u n x 0 = None /\ idiv_s n x 0 = None /\ irem_u n x 0 = None /\ irem_s n x 0 = None).
Proof. exact (fun n Hn => conj (idiv_s_min_m1 n Hn) (conj (irem_s_min_m1 n Hn) (fun x => idiv_zero n x))). Qed.
Print Assumptions signed_division_corner_cases.

Theorem shift_count_mod_width : forall n x k, 0 < n ->
  ishl n x (k + n) = ishl n x k /\ ishr_u n x (k + n) = ishr_u n x k /\ ishr_s n x (k + n) = ishr_s n x k.
Proof. exact (fun n x k Hn => conj (ishl_count_mod n x k Hn) (conj (ishr_u_count_mod n x k Hn) (ishr_s_count_mod n x k Hn))). Qed.
Print Assumptions shift_count_mod_width.

Theorem rotr_rotl_inverse : forall n x k, 0 < n -> in_range n x -> irotr n (irotl n x k) k = x.
Proof. exact irotr_irotl. Qed.
Print Assumptions rotr_rotl_inverse.

Theorem rotl_formula : forall n x k, 0 < n -> in_range n x -> 0 <= k < n ->
  irotl n x k = (x mod 2 ^ (n - k)) * 2 ^ k + x / 2 ^ (n - k).
Proof. exact irotl_formula. Qed.
Print Assumptions rotl_formula.

Theorem count_ops_corner : forall n x, 0 < n -> in_range n x ->
  iclz n 0 = n /\ ictz n 0 = n /\ (half_modulus n <= x -> iclz n x = 0) /\ (x mod 2 = 1 -> ictz n x = 0).
Proof.
  exact (fun n x Hn Hx => conj (iclz_zero n) (conj (ictz_zero n)
          (conj (iclz_top_bit n x Hn Hx) (fun Ho => ictz_odd n x Ho (proj1 Hx))))).
Qed.
Print Assumptions count_ops_corner.

Theorem wrap_extend_laws : forall m n x, 0 < m <= n -> in_range m x ->
  iwrap n m (iextend_u m n x) = x /\ iwrap n m (iextend_s m n x) = x
  /\ signed n (iextend_s m n x) = signed m x /\ in_range n (iextend_u m n x) /\ in_range n (iextend_s m n x).
Proof.
  exact (fun m n x H Hx => conj (iwrap_iextend_u m n x Hx) (conj (iwrap_iextend_s m n x H Hx)
          (conj (iextend_s_signed m n x H Hx)
          (conj (iextend_u_range m n x (conj (Z.lt_le_incl _ _ (proj1 H)) (proj2 H)) Hx)
                (iextend_s_range m n x (Z.le_trans _ _ _ (Z.lt_le_incl _ _ (proj1 H)) (proj2 H))))))).
Qed.
Print Assumptions wrap_extend_laws.

Theorem sign_extension_idempotent : forall m n x, 0 < m <= n -> iextendM_s m n (iextendM_s m n x) = iextendM_s m n x.
Proof. exact iextendM_s_idem. Qed.
Print Assumptions sign_extension_idempotent.

Theorem little_endian_bytes : forall k x, 0 <= x ->
  of_bytes (bytes_of k x) = x mod 256 ^ Z.of_nat k /\ length (bytes_of k x) = k
  /\ Forall (fun b => 0 <= b < 256) (bytes_of k x).
Proof. exact (fun k x Hx => conj (of_bytes_bytes_of k x Hx) (conj (bytes_of_length k x) (bytes_of_range k x))). Qed.
Print Assumptions little_endian_bytes.

(** ** reference interpreter *)
Theorem sem_run_fuel_monotone : forall host cap m f f' fi args,
  (f <= f')%nat -> run host cap m f fi args <> OutOfFuel -> run host cap m f' fi args = run host cap m f fi args.
Proof. exact run_fuel_monotone. Qed.
Print Assumptions sem_run_fuel_monotone.

Theorem memory_store_load_roundtrip : forall mm ea k x mm',
  0 <= x -> mem_store mm ea k x = Some mm' -> mem_load mm' ea k = Some (x mod 256 ^ Z.of_nat k).
Proof. exact store_load_roundtrip. Qed.
Print Assumptions memory_store_load_roundtrip.

Theorem memory_access_traps_exactly_out_of_bounds : forall mm ea k x,
  (mem_load mm ea k = None <-> (mem_len mm < ea + N.of_nat k)%N) /\
  (mem_store mm ea k x = None <-> (mem_len mm < ea + N.of_nat k)%N).
Proof. exact load_store_bounds. Qed.
Print Assumptions memory_access_traps_exactly_out_of_bounds.

Theorem memory_store_frame : forall mm ea k x mm' a,
  mem_store mm ea k x = Some mm' -> (a < ea \/ ea + N.of_nat k <= a)%N ->
  mem_get mm' a = mem_get mm a /\ mem_pages mm' = mem_pages mm.
Proof. exact store_frame. Qed.
Print Assumptions memory_store_frame.

Theorem memory_grow_spec : forall cap mm n, 0 <= n ->
  let '(mm', r) := mem_grow cap mm n in
  ((mem_pages mm + Z.to_N n <= grow_limit cap mm)%N ->
     mem_pages mm' = (mem_pages mm + Z.to_N n)%N /\ r = Z.of_N (mem_pages mm) /\ mem_data mm' = mem_data mm) /\
  ((grow_limit cap mm < mem_pages mm + Z.to_N n)%N -> mm' = mm /\ r = 4294967295).
Proof. exact mem_grow_spec. Qed.
Print Assumptions memory_grow_spec.

Theorem structure_inverts_flatten : forall is, structure_body (flatten_body is) = Some is.
Proof. exact structure_flatten. Qed.
Print Assumptions structure_inverts_flatten.

(** ** the engine model refutes unguarded conformance (findings F1-F3) *)
Theorem f1_refuted : exists m args, disagree m args /\ known_class m = (true, false).
Proof. exact (ex_intro _ w_f1a (ex_intro _ [VI32 0] f1a_disagree)). Qed.
Print Assumptions f1_refuted.

Theorem f1_function_label_refuted : exists m args, disagree m args /\ known_class m = (true, false).
Proof. exact (ex_intro _ w_f1b (ex_intro _ [VI32 1] f1b_disagree)). Qed.
Print Assumptions f1_function_label_refuted.

Theorem f2_refuted : exists m args, disagree m args /\ known_class m = (false, true).
Proof. exact (ex_intro _ w_f2a (ex_intro _ [VI32 7; VI32 0] f2a_disagree)). Qed.
Print Assumptions f2_refuted.

Theorem f2_loop_refuted : exists m args, disagree m args /\ known_class m = (false, true).
Proof. exact (ex_intro _ w_f2b (ex_intro _ [VI32 0] f2b_disagree)). Qed.
Print Assumptions f2_loop_refuted.

Theorem rem_s_min_m1_refuted :
  (exists m args, spec_obs m 100 args = Some (ObsDone (Some (VI32 0)) 0 [] [])
                  /\ engine_run m 100 0 args = Some (MTrap TRemSOverflow) /\ known_class m = (false, false))
  /\ rs_binop 32 RemS (as_i32 2147483648) (as_i32 4294967295) 2147483648 4294967295 = inl TRemSOverflow
  /\ irem_s 32 2147483648 4294967295 = Some 0
  /\ rs_binop 64 RemS (as_i64 9223372036854775808) (as_i64 18446744073709551615) 9223372036854775808 18446744073709551615 = inl TRemSOverflow
  /\ irem_s 64 9223372036854775808 18446744073709551615 = Some 0.
Proof.
  exact (conj (ex_intro _ w_f3 (ex_intro _ [VI32 2147483648; VI32 4294967295] f3_disagree))
              (conj (proj1 rem_s_machine_vs_spec_i32) (conj (proj2 rem_s_machine_vs_spec_i32)
              (conj (proj1 rem_s_machine_vs_spec_i64) (proj2 rem_s_machine_vs_spec_i64))))).
Qed.
Print Assumptions rem_s_min_m1_refuted.

(** ** machine operators vs specification operators.  PARTIAL: add, sub, mul, div_u, rem_u, shl,
    shr_u and all ten comparisons; div_s, rem_s (away from MIN,-1), and, or, xor, shr_s, rotl, rotr,
    clz, ctz, popcnt, conversions are correspondence-only (design/C01.md). *)
Theorem numops_agree_partial : forall t op x y,
  In op proved_binops -> in_range (bits t) x -> in_range (bits t) y ->
  match rs_binop (bits t) op (signed (bits t) x) (signed (bits t) y) x y with
  | inr r => app_binop t op x y = Some (r mod 2 ^ bits t)
  | inl _ => app_binop t op x y = None
  end.
Proof. exact rs_binop_agrees. Qed.
Print Assumptions numops_agree_partial.

Theorem relops_agree : forall t op x y, in_range (bits t) x -> in_range (bits t) y ->
  rs_relop op (signed (bits t) x) (signed (bits t) y) x y = app_relop t op x y.
Proof. exact rs_relop_all. Qed.
Print Assumptions relops_agree.

Theorem machine_views_are_signed : forall x,
  (in_range 32 x -> as_i32 x = signed 32 x) /\ (in_range 64 x -> as_i64 x = signed 64 x).
Proof. exact (fun x => conj (as_i32_signed x) (as_i64_signed x)). Qed.
Print Assumptions machine_views_are_signed.

(** non-vacuity: a module outside the classes on which specification and engine model agree *)
Example outside_classes_agree :
  known_class w_plain = (false, false)
  /\ spec_obs w_plain 100 [VI32 3; VI32 4] = engine_obs w_plain 100 [VI32 3; VI32 4]
  /\ spec_obs w_plain 100 [VI32 3; VI32 4] = Some (ObsDone (Some (VI32 49)) 0 [] []).
Proof. exact plain_agree. Qed.
Print Assumptions outside_classes_agree.

Example in_range_nonvacuous : in_range 32 4294967295 /\ ~ in_range 32 4294967296 /\ iadd 32 4294967295 1 = 0.
Proof. exact in_range_example. Qed.
Print Assumptions in_range_nonvacuous.
