(** C01 — property theorems only.  Each is closed by [exact] and followed by [Print Assumptions].

    What is proved here (all inputs, no bounds):
    - the numeric layer of the specification ([Common/IntN.v]): every operator is total on its
      domain, closed on [0,2^N), and satisfies the WebAssembly 1.0 definitions (wrap-around
      arithmetic, the two corner cases of signed division, shift counts modulo the width,
      rotl/rotr inverse, bounds of clz/ctz/popcnt, wrap/extend laws, little-endian bytes);
    - the reference interpreter ([Wasm/Sem.v]): fuel monotonicity (an outcome other than
      out-of-fuel never changes with more fuel — so "the" outcome of a terminating run is
      well defined), memory store/load round trip, bounds and frame, memory.grow;
    - [structure_body] inverts [flatten_body] (the structured program the specification runs
      is exactly the flat program the engine compiles);
    - the faithful model of the engine ([Wasm/Compile.v], [Wasm/Machine.v]) REFUTES the
      unguarded conformance statement: witnesses for findings F1, F2 (if and loop form) and F3.
    - [numops_agree], [unops_agree], [tests_and_conversions_agree], [relops_agree]: every machine numeric
      operator = the specification operator (except rem_s at (MIN,-1), finding F3);
    - [compile_straightline_correct_partial]: the simulation for straight-line code of any length
      (all opcodes without control flow except rem_s).
    - [compile_block_correct_partial]: the simulation for whole function bodies built from the
      constructs accepted by [blocks_ok]: straight-line code, block and if-else (with or without result) /
      loop / one-armed if entered at an empty operand stack, br (also carrying a value to a value-typed
      block or if-else), unreachable and return (last in their body), br_if to result-less labels, any
      nesting depth, back edges to loop labels; forward jump targets are read from the back-patched final
      code, block results travel through the reserved register.
      [compile_loop_correct_partial] is the same statement (loops are part of [blocks_ok]).
    - [compile_fn_result_correct_partial]: the same for functions WITH a result ([blocks_ok_r]): the value
      reaches the final [end] by fall-through or by a br to the function's own label and is moved to
      register 0, where the final Return expects it.
    - [compile_dead_code_correct_partial], [compile_dead_code_fn_result_correct_partial]: the two theorems above
      for bodies WITH DEAD CODE: br / return / unreachable (and br_table) may be followed by arbitrary further
      instructions in the same body, at any nesting depth (fragment [blocks_ok_dead] / [blocks_ok_r_dead] =
      [blocks_ok] / [blocks_ok_r] of the body with the instructions after the first terminator of every live
      body removed, [strip]); [dead_code_fragment_widens]: the new fragments contain the old ones;
      [dead_code_compiles_away]: the compiler's output for a body equals its output for the stripped body.
    NOT proved (correspondence-only, see design/C01.md): calls, br_table as a LIVE instruction, loop results,
    value-typed if-else whose then-branch ends with a jump, blocks entered with operands below them, br_if
    carrying a value (KF-C01-1). *)
From Coq Require Import ZArith NArith List Bool.
From CB Require Import Common.IntN Common.IntNProofs Wasm.Syntax Wasm.SyntaxProofs Wasm.Sem Wasm.SemProofs
     Wasm.Compile Wasm.Machine Wasm.KnownClasses Wasm.Engine Wasm.Witnesses Wasm.EngineProofs Wasm.NumOpsProofs
     Wasm.MachineLemmas Wasm.CompileLemmas Wasm.StraightProofs Wasm.StraightExample
     Wasm.BlockSim Wasm.BlockTheorem Wasm.BlockExample Wasm.BlockDead Wasm.BlockDeadTheorem Wasm.BlockDeadWiden.
From Coq Require Import FMapPositive.
Import ListNotations.
Local Open Scope Z_scope.

(** ** numeric specification *)
Theorem intn_closed : forall n x y, 0 < n -> in_range n x -> in_range n y ->
  in_range n (iadd n x y) /\ in_range n (isub n x y) /\ in_range n (imul n x y)
  /\ in_range n (ishl n x y) /\ in_range n (ishr_u n x y) /\ in_range n (ishr_s n x y)
  /\ in_range n (irotl n x y)
  /\ (forall r, idiv_u n x y = Some r -> in_range n r) /\ (forall r, irem_u n x y = Some r -> in_range n r)
  /\ (forall r, idiv_s n x y = Some r -> in_range n r) /\ (forall r, irem_s n x y = Some r -> in_range n r)
  /\ 0 <= iclz n x <= n /\ 0 <= ictz n x <= n /\ 0 <= ipopcnt n x <= n.
Proof.
  exact (fun n x y Hn Hx Hy =>
    conj (iadd_range n x y (Z.lt_le_incl _ _ Hn)) (conj (isub_range n x y (Z.lt_le_incl _ _ Hn))
    (conj (imul_range n x y (Z.lt_le_incl _ _ Hn)) (conj (ishl_range n x y (Z.lt_le_incl _ _ Hn))
    (conj (ishr_u_range n x y Hn Hx) (conj (ishr_s_range n x y (Z.lt_le_incl _ _ Hn))
    (conj (irotl_range n x y Hn Hx)
    (conj (fun r => idiv_u_range n x y r Hx Hy) (conj (fun r => irem_u_range n x y r Hx Hy)
    (conj (fun r => idiv_s_range n x y r (Z.lt_le_incl _ _ Hn)) (conj (fun r => irem_s_range n x y r (Z.lt_le_incl _ _ Hn))
    (conj (iclz_range n x Hn Hx) (conj (ictz_range n x Hn Hx) (ipopcnt_range n x Hn Hx)))))))))))))).
Qed.
Print Assumptions intn_closed.

Theorem intn_arith_spec : forall n x y, 0 <= n ->
  iadd n x y = (x + y) mod 2 ^ n /\ isub n x y = (x - y) mod 2 ^ n /\ imul n x y = (x * y) mod 2 ^ n.
Proof. exact (fun n x y Hn => conj (iadd_spec n x y) (conj (isub_spec n x y Hn) (imul_spec n x y))). Qed.
Print Assumptions intn_arith_spec.

Theorem signed_unsigned_inverse : forall n, 0 < n ->
  (forall x, in_range n x -> unsigned n (signed n x) = x /\ - half_modulus n <= signed n x < half_modulus n)
  /\ (forall y, - half_modulus n <= y < half_modulus n -> signed n (unsigned n y) = y).
Proof.
  exact (fun n Hn => conj (fun x Hx => conj (unsigned_signed n x Hn Hx) (signed_range n x Hn Hx))
                         (fun y Hy => signed_unsigned n y Hn Hy)).
Qed.
Print Assumptions signed_unsigned_inverse.

(** MIN / -1 traps, MIN rem -1 is 0, division by zero is undefined (for every width > 1) *)
Theorem signed_division_corner_cases : forall n, 1 < n ->
  idiv_s n (half_modulus n) (modulus n - 1) = None
  /\ irem_s n (half_modulus n) (modulus n - 1) = Some 0
  /\ (forall x, idiv_u n x 0 = None /\ idiv_s n x 0 = None /\ irem_u n x 0 = None /\ irem_s n x 0 = None).
Proof. exact (fun n Hn => conj (idiv_s_min_m1 n Hn) (conj (irem_s_min_m1 n Hn) (fun x => idiv_zero n x))). Qed.
Print Assumptions signed_division_corner_cases.

Theorem shift_count_mod_width : forall n x k, 0 < n ->
  ishl n x (k + n) = ishl n x k /\ ishr_u n x (k + n) = ishr_u n x k /\ ishr_s n x (k + n) = ishr_s n x k.
Proof. exact (fun n x k Hn => conj (ishl_count_mod n x k Hn) (conj (ishr_u_count_mod n x k Hn) (ishr_s_count_mod n x k Hn))). Qed.
Print Assumptions shift_count_mod_width.

Theorem rotr_rotl_inverse : forall n x k, 0 < n -> in_range n x -> irotr n (irotl n x k) k = x.
Proof. exact irotr_irotl. Qed.
Print Assumptions rotr_rotl_inverse.

Theorem rotl_formula : forall n x k, 0 < n -> in_range n x -> 0 <= k < n ->
  irotl n x k = (x mod 2 ^ (n - k)) * 2 ^ k + x / 2 ^ (n - k).
Proof. exact irotl_formula. Qed.
Print Assumptions rotl_formula.

Theorem count_ops_corner : forall n x, 0 < n -> in_range n x ->
  iclz n 0 = n /\ ictz n 0 = n /\ (half_modulus n <= x -> iclz n x = 0) /\ (x mod 2 = 1 -> ictz n x = 0).
Proof.
  exact (fun n x Hn Hx => conj (iclz_zero n) (conj (ictz_zero n)
          (conj (iclz_top_bit n x Hn Hx) (fun Ho => ictz_odd n x Ho (proj1 Hx))))).
Qed.
Print Assumptions count_ops_corner.

Theorem wrap_extend_laws : forall m n x, 0 < m <= n -> in_range m x ->
  iwrap n m (iextend_u m n x) = x /\ iwrap n m (iextend_s m n x) = x
  /\ signed n (iextend_s m n x) = signed m x /\ in_range n (iextend_u m n x) /\ in_range n (iextend_s m n x).
Proof.
  exact (fun m n x H Hx => conj (iwrap_iextend_u m n x Hx) (conj (iwrap_iextend_s m n x H Hx)
          (conj (iextend_s_signed m n x H Hx)
          (conj (iextend_u_range m n x (conj (Z.lt_le_incl _ _ (proj1 H)) (proj2 H)) Hx)
                (iextend_s_range m n x (Z.le_trans _ _ _ (Z.lt_le_incl _ _ (proj1 H)) (proj2 H))))))).
Qed.
Print Assumptions wrap_extend_laws.

Theorem sign_extension_idempotent : forall m n x, 0 < m <= n -> iextendM_s m n (iextendM_s m n x) = iextendM_s m n x.
Proof. exact iextendM_s_idem. Qed.
Print Assumptions sign_extension_idempotent.

Theorem little_endian_bytes : forall k x, 0 <= x ->
  of_bytes (bytes_of k x) = x mod 256 ^ Z.of_nat k /\ length (bytes_of k x) = k
  /\ Forall (fun b => 0 <= b < 256) (bytes_of k x).
Proof. exact (fun k x Hx => conj (of_bytes_bytes_of k x Hx) (conj (bytes_of_length k x) (bytes_of_range k x))). Qed.
Print Assumptions little_endian_bytes.

(** ** reference interpreter *)
Theorem sem_run_fuel_monotone : forall host cap m f f' fi args,
  (f <= f')%nat -> run host cap m f fi args <> OutOfFuel -> run host cap m f' fi args = run host cap m f fi args.
Proof. exact run_fuel_monotone. Qed.
Print Assumptions sem_run_fuel_monotone.

Theorem memory_store_load_roundtrip : forall mm ea k x mm',
  0 <= x -> mem_store mm ea k x = Some mm' -> mem_load mm' ea k = Some (x mod 256 ^ Z.of_nat k).
Proof. exact store_load_roundtrip. Qed.
Print Assumptions memory_store_load_roundtrip.

Theorem memory_access_traps_exactly_out_of_bounds : forall mm ea k x,
  (mem_load mm ea k = None <-> (mem_len mm < ea + N.of_nat k)%N) /\
  (mem_store mm ea k x = None <-> (mem_len mm < ea + N.of_nat k)%N).
Proof. exact load_store_bounds. Qed.
Print Assumptions memory_access_traps_exactly_out_of_bounds.

Theorem memory_store_frame : forall mm ea k x mm' a,
  mem_store mm ea k x = Some mm' -> (a < ea \/ ea + N.of_nat k <= a)%N ->
  mem_get mm' a = mem_get mm a /\ mem_pages mm' = mem_pages mm.
Proof. exact store_frame. Qed.
Print Assumptions memory_store_frame.

Theorem memory_grow_spec : forall cap mm n, 0 <= n ->
  let '(mm', r) := mem_grow cap mm n in
  ((mem_pages mm + Z.to_N n <= grow_limit cap mm)%N ->
     mem_pages mm' = (mem_pages mm + Z.to_N n)%N /\ r = Z.of_N (mem_pages mm) /\ mem_data mm' = mem_data mm) /\
  ((grow_limit cap mm < mem_pages mm + Z.to_N n)%N -> mm' = mm /\ r = 4294967295).
Proof. exact mem_grow_spec. Qed.
Print Assumptions memory_grow_spec.

Theorem structure_inverts_flatten : forall is, structure_body (flatten_body is) = Some is.
Proof. exact structure_flatten. Qed.
Print Assumptions structure_inverts_flatten.

(** ** the engine model refutes unguarded conformance (findings F1-F3) *)
Theorem f1_refuted : exists m args, disagree m args /\ known_class m = (true, false).
Proof. exact (ex_intro _ w_f1a (ex_intro _ [VI32 0] f1a_disagree)). Qed.
Print Assumptions f1_refuted.

Theorem f1_function_label_refuted : exists m args, disagree m args /\ known_class m = (true, false).
Proof. exact (ex_intro _ w_f1b (ex_intro _ [VI32 1] f1b_disagree)). Qed.
Print Assumptions f1_function_label_refuted.

Theorem f2_refuted : exists m args, disagree m args /\ known_class m = (false, true).
Proof. exact (ex_intro _ w_f2a (ex_intro _ [VI32 7; VI32 0] f2a_disagree)). Qed.
Print Assumptions f2_refuted.

Theorem f2_loop_refuted : exists m args, disagree m args /\ known_class m = (false, true).
Proof. exact (ex_intro _ w_f2b (ex_intro _ [VI32 0] f2b_disagree)). Qed.
Print Assumptions f2_loop_refuted.

Theorem rem_s_min_m1_refuted :
  (exists m args, spec_obs m 100 args = Some (ObsDone (Some (VI32 0)) 0 [] [])
                  /\ engine_run m 100 0 args = Some (MTrap TRemSOverflow) /\ known_class m = (false, false))
  /\ rs_binop 32 RemS (as_i32 2147483648) (as_i32 4294967295) 2147483648 4294967295 = inl TRemSOverflow
  /\ irem_s 32 2147483648 4294967295 = Some 0
  /\ rs_binop 64 RemS (as_i64 9223372036854775808) (as_i64 18446744073709551615) 9223372036854775808 18446744073709551615 = inl TRemSOverflow
  /\ irem_s 64 9223372036854775808 18446744073709551615 = Some 0.
Proof.
  exact (conj (ex_intro _ w_f3 (ex_intro _ [VI32 2147483648; VI32 4294967295] f3_disagree))
              (conj (proj1 rem_s_machine_vs_spec_i32) (conj (proj2 rem_s_machine_vs_spec_i32)
              (conj (proj1 rem_s_machine_vs_spec_i64) (proj2 rem_s_machine_vs_spec_i64))))).
Qed.
Print Assumptions rem_s_min_m1_refuted.

(** ** machine operators ([Machine.rs_*], transcribed from the Rust integer methods) vs the
    specification's operators ([IntN]): ALL numeric opcodes, all operands.  The only exception is
    finding F3: [rem_s] at (MIN, -1) ([rem_s_min_m1_refuted] above), excluded by [f3_operands]. *)
Theorem numops_agree : forall t op x y,
  in_range (bits t) x -> in_range (bits t) y -> (op = RemS -> ~ f3_operands (bits t) x y) ->
  match rs_binop (bits t) op (signed (bits t) x) (signed (bits t) y) x y with
  | inr r => app_binop t op x y = Some (r mod 2 ^ bits t)
  | inl _ => app_binop t op x y = None
  end.
Proof. exact rs_binop_agrees_all. Qed.
Print Assumptions numops_agree.

Theorem unops_agree :
  (forall op x, in_range 32 x -> op <> Extend32S -> app_unop T_i32 op x = Some (rs_unop32 op x mod 2 ^ 32))
  /\ (forall op x, in_range 64 x -> app_unop T_i64 op x = Some (rs_unop64 op x mod 2 ^ 64)).
Proof. exact (conj rs_unop32_agrees rs_unop64_agrees). Qed.
Print Assumptions unops_agree.

Theorem tests_and_conversions_agree : forall x,
  ((in_range 32 x -> rs_eqz32 x = ieqz 32 x) /\ (in_range 64 x -> rs_eqz64 x = ieqz 64 x))
  /\ (in_range 64 x -> rs_cvt WrapI64 x mod 2 ^ 32 = iwrap 64 32 x)
  /\ (in_range 32 x -> rs_cvt ExtendI32S x mod 2 ^ 64 = iextend_s 32 64 x)
  /\ (in_range 32 x -> rs_cvt ExtendI32U x mod 2 ^ 64 = iextend_u 32 64 x).
Proof. exact (fun x => conj (rs_eqz_agrees x) (rs_cvt_agrees x)). Qed.
Print Assumptions tests_and_conversions_agree.

Theorem relops_agree : forall t op x y, in_range (bits t) x -> in_range (bits t) y ->
  rs_relop op (signed (bits t) x) (signed (bits t) y) x y = app_relop t op x y.
Proof. exact rs_relop_all. Qed.
Print Assumptions relops_agree.

Theorem machine_views_are_signed : forall x,
  (in_range 32 x -> as_i32 x = signed 32 x) /\ (in_range 64 x -> as_i64 x = signed 64 x).
Proof. exact (fun x => conj (as_i32_signed x) (as_i64_signed x)). Qed.
Print Assumptions machine_views_are_signed.

(** ** compile_straightline_correct (DESIGN 7.C01 theorem 2) — PARTIAL in the opcode subset only.

    For every sequence [bs] of basic instructions accepted by [straight_ok] — nop, drop, select,
    consts (in range), local.get/set/tee, global.get/set, every unary/binary/relational/conversion
    operator and the sign-extension operators, memory loads and stores of every width (sign- and
    zero-extending), memory.size, memory.grow; EXCLUDED: [rem_s] (finding F3), calls and control
    instructions (and the ill-typed combinations i32.extend32_s / i32 with a 32-bit pack) — of ANY
    length, that [Compile.v]
    accepts from an empty provider stack: running the emitted bytes on [Machine.v] from any state
    related to the specification state ([rel]: registers [0,nl) represent the locals, globals and
    memory agree) reaches a state related to the specification's result: every provider on the final
    compile-time stack denotes the value at that position of the operand stack, locals, globals and
    memory agree; and the machine traps whenever the specification traps.
    The statement is about the same [compile_ops] / [step] functions that correspondence layers
    (i) and (ii) tie to artifact.rs and machine.rs. *)
Theorem compile_straightline_correct_partial :
  forall (art : artifact) (mhost : nat -> list Z -> option (option Z)) (cap : N) (cx : cctx)
         (bs : list binstr) (ret : blocktype) (nl next : Z) (v' : vstate) (sf : cstate),
    forallb straight_ok bs = true ->
    0 <= nl <= next ->
    compile_ops cx (map OBasic bs) (init_vstate ret) (init_cstate next) = Some (v', sf) ->
    c_next sf < 2147483648 -> Z.of_nat (length (c_consts sf)) < 2147483648 ->
    forall (codes : list (code_map * list Z)) (fidx : nat) (rest_code : list N),
      nth_error codes fidx
        = Some (build_code (c_out sf ++ rest_code) xH (PositiveMap.empty N), map fst (c_consts sf)) ->
      forall (st : store) (locals : list val) (M : mstate),
        rel art fidx (map fst (c_consts sf)) nl (c_next sf) cap (init_cstate next) st locals [] M ->
        sim_result art mhost codes fidx (map fst (c_consts sf)) nl (c_next sf) cap M sf
                   (straight_sem cap bs st locals []).
Proof. exact straightline_correct. Qed.
Print Assumptions compile_straightline_correct_partial.

(** [straight_sem] is the reference interpreter on such code *)
Theorem straight_sem_is_exec_seq : forall host cap m bs fuel s locals vs,
  forallb straight_ok bs = true -> (length bs + 2 <= fuel)%nat ->
  exec_seq host cap m fuel s locals vs (map Basic bs) =
  match straight_sem cap bs s locals vs with
  | inr (s', l', vs') => RNormal s' l' vs'
  | inl true => RTrap
  | inl false => RStuck
  end.
Proof. exact exec_seq_straight. Qed.
Print Assumptions straight_sem_is_exec_seq.

(** non-vacuity of the hypotheses: register reuse, constant pooling, a preservation copy and a
    short-circuited local.set in one accepted sequence *)
Example straightline_nonvacuous :
  forallb straight_ok ex_bs = true
  /\ exists v' sf, compile_ops ex_cx (map OBasic ex_bs) (init_vstate (Some T_i32)) (init_cstate 2) = Some (v', sf)
       /\ c_stack sf = [PDyn 2] /\ c_next sf = 3
       /\ map fst (c_consts sf) = [5; 7]
       /\ firstn 9 (c_out sf) = [ICopy; 0; 0; 0; 0; 2; 0; 0; 0]%N
       /\ nth 31 (c_out sf) 0%N = 61%N /\ nth 40 (c_out sf) 0%N = 1%N
       /\ c_next sf < 2147483648 /\ Z.of_nat (length (c_consts sf)) < 2147483648.
Proof. exact ex_straight. Qed.
Print Assumptions straightline_nonvacuous.

Example straightline_memory_nonvacuous :
  forallb straight_ok ex_bs_mem = true
  /\ exists v' sf, compile_ops ex_cx (map OBasic ex_bs_mem) (init_vstate (Some T_i32)) (init_cstate 2) = Some (v', sf)
       /\ length (c_stack sf) = 1%nat /\ map fst (c_consts sf) = [16; 1]
       /\ c_next sf < 2147483648 /\ Z.of_nat (length (c_consts sf)) < 2147483648.
Proof. exact ex_straight_mem. Qed.
Print Assumptions straightline_memory_nonvacuous.

(** ** Stage B: structured control without loops and calls.
    For a function without result whose body [is] consists of the constructs accepted by [blocks_ok]
    ([Wasm/BlockSim.v], [ctl_ok]: instructions accepted by [straight_ok] with local indices below [nl];
    [block] and [if-else] with or without result type, [loop] and one-armed [if] without result type (an [if]
    with a result must have an else: [syn]), all entered when the operand stack is empty (the body of a
    then-branch of a value-typed if-else must reach its [else]; value-typed blocks, else-branches and
    function bodies may end with a jump); [br l] (to any
    label; to a value-typed label it carries the top of the stack into the frame's reserved register),
    [unreachable] and [return] as the last instruction of their body, and [br_if l] to result-less labels
    only - so neither
    KF-C01-1 (br_if carrying a value) nor KF-C01-2 (local.set below an open conditional region with the
    local on the stack) can occur, which is what [~ KnownClass] would exclude), compiled by
    [compile_ops] from the function-entry state including the final [end] (which back-patches the jumps
    to the function label), the machine started at pc 0 in a state related to the specification state:
    - reaches the position after the compiled body (where [Module::compile] puts the final Return)
      in a state related to the specification's final state whenever the reference interpreter
      finishes the body (normally or by a branch to the function label) - every jump went to the
      instruction after the matching [end] / at the start of the else branch;
    - traps whenever the reference interpreter traps;
    - and the reference interpreter never branches out of the body.
    Out-of-fuel and stuck (ill-typed) runs of the interpreter are not constrained: for a diverging loop the
    theorem says nothing (the induction is on the interpreter's fuel; each back edge is one more unfolding). *)
Theorem compile_block_correct_partial :
  forall (art : artifact) (mhost : nat -> list Z -> option (option Z)) (cap : N)
         (host : nat -> list val -> option memory -> host_result) (m : module) (cx : cctx)
         (is : list instr) (nl next : Z) (v' : vstate) (sF : cstate) (rest_code : list N),
    blocks_ok nl cx is = true -> 0 <= nl <= next ->
    compile_ops cx (flatten_body is) (init_vstate None) (init_fstate next) = Some (v', sF) ->
    c_next sF < 2147483648 -> Z.of_nat (length (c_consts sF)) < 2147483648 ->
    Z.of_nat (length (c_out sF ++ rest_code)) < 4294967296 ->
    forall (codes : list (code_map * list Z)) (fidx : nat),
      nth_error codes fidx
        = Some (build_code (c_out sF ++ rest_code) xH (PositiveMap.empty N), map fst (c_consts sF)) ->
      forall (st : store) (locals : list val) (M : mstate) (fuel : nat),
        rel art fidx (map fst (c_consts sF)) nl (c_next sF) cap (init_fstate next) st locals [] M ->
        match exec_instr host cap m fuel st locals [] (Block None is) with
        | RNormal st' l' vs' =>
            vs' = [] /\ exists n M', nsteps art mhost codes n M = SNext M'
                       /\ rel art fidx (map fst (c_consts sF)) nl (c_next sF) cap sF st' l' [] M' /\ frame_eq M M'
        | RReturn st' vs' =>
            exists n M', nsteps art mhost codes n M = SNext M' /\ frame_eq M M' /\ ms_idx M' = fidx
              /\ code_at (build_code (c_out sF ++ rest_code) xH (PositiveMap.empty N)) (ms_pc M') [IReturn]
              /\ Forall2 repr (ms_globals M') (s_globals st') /\ mem_rel art cap (ms_mem M') (s_mem st')
              /\ match cx_return cx with
                 | Some _ => exists v vs0, vs' = v :: vs0 /\ repr (reg M' 0) v
                 | None => True
                 end
        | RTrap => exists n e, nsteps art mhost codes n M = STrap e
        | RBr _ _ _ _ => False
        | _ => True
        end.
Proof. exact compile_block_correct. Qed.
Print Assumptions compile_block_correct_partial.

(** the same statement under the name the design uses for loops: [blocks_ok] accepts [loop] without result
    entered at an empty operand stack, with back edges [br] / [br_if] to the loop label *)
Theorem compile_loop_correct_partial :
  forall (art : artifact) (mhost : nat -> list Z -> option (option Z)) (cap : N)
         (host : nat -> list val -> option memory -> host_result) (m : module) (cx : cctx)
         (is : list instr) (nl next : Z) (v' : vstate) (sF : cstate) (rest_code : list N),
    blocks_ok nl cx is = true -> 0 <= nl <= next ->
    compile_ops cx (flatten_body is) (init_vstate None) (init_fstate next) = Some (v', sF) ->
    c_next sF < 2147483648 -> Z.of_nat (length (c_consts sF)) < 2147483648 ->
    Z.of_nat (length (c_out sF ++ rest_code)) < 4294967296 ->
    forall (codes : list (code_map * list Z)) (fidx : nat),
      nth_error codes fidx
        = Some (build_code (c_out sF ++ rest_code) xH (PositiveMap.empty N), map fst (c_consts sF)) ->
      forall (st : store) (locals : list val) (M : mstate) (fuel : nat),
        rel art fidx (map fst (c_consts sF)) nl (c_next sF) cap (init_fstate next) st locals [] M ->
        match exec_instr host cap m fuel st locals [] (Block None is) with
        | RNormal st' l' vs' =>
            vs' = [] /\ exists n M', nsteps art mhost codes n M = SNext M'
                       /\ rel art fidx (map fst (c_consts sF)) nl (c_next sF) cap sF st' l' [] M' /\ frame_eq M M'
        | RReturn st' vs' =>
            exists n M', nsteps art mhost codes n M = SNext M' /\ frame_eq M M' /\ ms_idx M' = fidx
              /\ code_at (build_code (c_out sF ++ rest_code) xH (PositiveMap.empty N)) (ms_pc M') [IReturn]
              /\ Forall2 repr (ms_globals M') (s_globals st') /\ mem_rel art cap (ms_mem M') (s_mem st')
              /\ match cx_return cx with
                 | Some _ => exists v vs0, vs' = v :: vs0 /\ repr (reg M' 0) v
                 | None => True
                 end
        | RTrap => exists n e, nsteps art mhost codes n M = STrap e
        | RBr _ _ _ _ => False
        | _ => True
        end.
Proof. exact compile_block_correct. Qed.
Print Assumptions compile_loop_correct_partial.

(** Functions WITH a result.  Same constructs ([blocks_ok_r] additionally replays the final [end];
    [return] carries the top of the stack into register 0), compiled from the entry state of a function with a
    result (the function frame's result location is register 0).  When the reference interpreter finishes
    the body - by fall-through or by a [br] to the function label carrying the value - the machine reaches
    the offset of the final Return with the result in register 0 and globals and memory related to the
    specification's (local 0 has been overwritten by the result, so locals are no longer related); on [return]
    it reaches a Return opcode with the returned value in register 0. *)
Theorem compile_fn_result_correct_partial :
  forall (art : artifact) (mhost : nat -> list Z -> option (option Z)) (cap : N)
         (host : nat -> list val -> option memory -> host_result) (m : module) (cx : cctx)
         (is : list instr) (t : valtype) (nl next : Z) (v' : vstate) (sF : cstate) (rest_code : list N),
    blocks_ok_r nl cx t is = true -> 0 <= nl <= next -> 0 < next ->
    compile_ops cx (flatten_body is) (init_vstate (Some t)) (init_fstate_r next) = Some (v', sF) ->
    c_next sF < 2147483648 -> Z.of_nat (length (c_consts sF)) < 2147483648 ->
    Z.of_nat (length (c_out sF ++ rest_code)) < 4294967296 ->
    forall (codes : list (code_map * list Z)) (fidx : nat),
      nth_error codes fidx
        = Some (build_code (c_out sF ++ rest_code) xH (PositiveMap.empty N), map fst (c_consts sF)) ->
      forall (st : store) (locals : list val) (M : mstate) (fuel : nat),
        rel art fidx (map fst (c_consts sF)) nl (c_next sF) cap (init_fstate_r next) st locals [] M ->
        match exec_instr host cap m fuel st locals [] (Block (Some t) is) with
        | RNormal st' l' vs' =>
            exists v, vs' = [v] /\ exists n M', nsteps art mhost codes n M = SNext M' /\ frame_eq M M'
              /\ ms_idx M' = fidx /\ ms_pc M' = cur_off sF
              /\ Forall2 repr (ms_globals M') (s_globals st') /\ mem_rel art cap (ms_mem M') (s_mem st')
              /\ repr (reg M' 0) v
        | RReturn st' vs' =>
            exists n M', nsteps art mhost codes n M = SNext M' /\ frame_eq M M' /\ ms_idx M' = fidx
              /\ code_at (build_code (c_out sF ++ rest_code) xH (PositiveMap.empty N)) (ms_pc M') [IReturn]
              /\ Forall2 repr (ms_globals M') (s_globals st') /\ mem_rel art cap (ms_mem M') (s_mem st')
              /\ match cx_return cx with
                 | Some _ => exists v vs0, vs' = v :: vs0 /\ repr (reg M' 0) v
                 | None => True
                 end
        | RTrap => exists n e, nsteps art mhost codes n M = STrap e
        | RBr _ _ _ _ => False
        | _ => True
        end.
Proof. exact compile_fn_result_correct. Qed.
Print Assumptions compile_fn_result_correct_partial.

(** non-vacuity for function results: the value reaches the final end by a br to the function label
    (out of an if), by fall-through, and a return with a value *)
Example fn_result_nonvacuous :
  blocks_ok_r 2 fn_cx T_i32 fn_body = true
  /\ (exists v' sF, compile_ops fn_cx (flatten_body fn_body) (init_vstate (Some T_i32)) (init_fstate_r 2) = Some (v', sF)
       /\ c_bp sF = [] /\ c_stack sF = [PLocal 0]
       /\ c_next sF < 2147483648 /\ Z.of_nat (length (c_consts sF)) < 2147483648
       /\ Z.of_nat (length (c_out sF ++ [IReturn])) < 4294967296)
  /\ (forall host cap m st,
        exec_instr host cap m 50 st [VI32 1; VI32 5] [] (Block (Some T_i32) fn_body) = RNormal st [VI32 1; VI32 5] [VI32 7]
        /\ exec_instr host cap m 50 st [VI32 0; VI32 5] [] (Block (Some T_i32) fn_body) = RNormal st [VI32 0; VI32 5] [VI32 6]
        /\ exec_instr host cap m 50 st [VI32 0; VI32 9] [] (Block (Some T_i32) fn_body) = RReturn st [VI32 42]).
Proof. exact ex_fn. Qed.
Print Assumptions fn_result_nonvacuous.

(** non-vacuity for bodies ending with a jump: a value-typed block whose body ends with a br carrying the
    value, a function body ending with return *)
Example jump_ending_nonvacuous :
  blocks_ok_r 2 fn_cx T_i32 fn_body2 = true
  /\ (exists v' sF, compile_ops fn_cx (flatten_body fn_body2) (init_vstate (Some T_i32)) (init_fstate_r 2) = Some (v', sF)
       /\ c_bp sF = []
       /\ c_next sF < 2147483648 /\ Z.of_nat (length (c_consts sF)) < 2147483648
       /\ Z.of_nat (length (c_out sF ++ [IReturn])) < 4294967296)
  /\ (forall host cap m st,
        exec_instr host cap m 50 st [VI32 3; VI32 4] [] (Block (Some T_i32) fn_body2) = RReturn st [VI32 7]).
Proof. exact ex_fn2. Qed.
Print Assumptions jump_ending_nonvacuous.

(** non-vacuity for block results: a value-typed block reached by fall-through and by a [br] carrying a
    value out of a nested [if]; an if-else with a result; another value-typed block inside a loop body *)
Example block_result_nonvacuous :
  blocks_ok 2 blk_cx val_body = true
  /\ (exists v' sF, compile_ops blk_cx (flatten_body val_body) (init_vstate None) (init_fstate 2) = Some (v', sF)
       /\ c_bp sF = [] /\ c_stack sF = []
       /\ c_next sF < 2147483648 /\ Z.of_nat (length (c_consts sF)) < 2147483648
       /\ Z.of_nat (length (c_out sF ++ [IReturn])) < 4294967296)
  /\ (forall host cap m st,
        exec_instr host cap m 200 st [VI32 3; VI32 0] [] (Block None val_body) = RNormal st [VI32 0; VI32 18] []
        /\ exec_instr host cap m 200 st [VI32 0; VI32 5] [] (Block None val_body) = RNormal st [VI32 0; VI32 24] []).
Proof. exact ex_val. Qed.
Print Assumptions block_result_nonvacuous.

(** non-vacuity for loops: a counting loop (back edge [br 0], exit [br_if 1] out of loop and block) followed
    by a guarded [unreachable]; runs that iterate 4 and 0 times, one that traps, one that runs out of fuel *)
Example loops_nonvacuous :
  blocks_ok 2 blk_cx loop_body = true
  /\ (exists v' sF, compile_ops blk_cx (flatten_body loop_body) (init_vstate None) (init_fstate 2) = Some (v', sF)
       /\ c_bp sF = [] /\ c_stack sF = []
       /\ c_next sF < 2147483648 /\ Z.of_nat (length (c_consts sF)) < 2147483648
       /\ Z.of_nat (length (c_out sF ++ [IReturn])) < 4294967296)
  /\ (forall host cap m st,
        exec_instr host cap m 200 st [VI32 4; VI32 0] [] (Block None loop_body) = RNormal st [VI32 0; VI32 10] []
        /\ exec_instr host cap m 200 st [VI32 0; VI32 7] [] (Block None loop_body) = RNormal st [VI32 0; VI32 7] []
        /\ exec_instr host cap m 200 st [VI32 3; VI32 0] [] (Block None loop_body) = RReturn st []
        /\ exec_instr host cap m 200 st [VI32 20; VI32 0] [] (Block None loop_body) = RTrap
        /\ exec_instr host cap m 20 st [VI32 20; VI32 0] [] (Block None loop_body) = RFuel).
Proof. exact ex_loop. Qed.
Print Assumptions loops_nonvacuous.

(** non-vacuity: two nested blocks, a br_if out of both, an if/else whose then-branch ends with a br
    out of the if and both blocks, a one-armed if; the hypotheses hold and three runs of the reference
    interpreter end normally through three different paths *)
Example blocks_nonvacuous :
  blocks_ok 2 blk_cx blk_body = true
  /\ (exists v' sF, compile_ops blk_cx (flatten_body blk_body) (init_vstate None) (init_fstate 2) = Some (v', sF)
       /\ c_bp sF = [] /\ c_stack sF = []
       /\ c_next sF < 2147483648 /\ Z.of_nat (length (c_consts sF)) < 2147483648
       /\ Z.of_nat (length (c_out sF ++ [IReturn])) < 4294967296)
  /\ (forall host cap m st,
        exec_instr host cap m 30 st [VI32 0; VI32 1] [] (Block None blk_body) = RNormal st [VI32 7; VI32 5] []
        /\ exec_instr host cap m 30 st [VI32 0; VI32 0] [] (Block None blk_body) = RNormal st [VI32 3; VI32 5] []
        /\ exec_instr host cap m 30 st [VI32 4; VI32 0] [] (Block None blk_body) = RNormal st [VI32 4; VI32 0] []).
Proof. exact ex_blocks. Qed.
Print Assumptions blocks_nonvacuous.

(** ** Dead code (the compiler's unreachable-marking path).  [strip] removes, in every body in live
    position, the instructions after the first br / br_table / return / unreachable.  The compiler skips exactly
    these instructions ([UnreachableInstruction] / [UnreachableFrame] in [handle_opcode]); what they do to the
    validator's operand height is undone by the closing end / else.  Hence (for EVERY body, no fragment
    restriction) compiling a function body gives the same compiler state - bytes, back-patch stack, provider
    stack, registers, constants - and the same validation state as compiling the stripped body. *)
Theorem dead_code_compiles_away : forall cx is v s v' s',
  v_unreach v = None -> (0 < clen v)%nat ->
  compile_ops cx (flatten_body is) v s = Some (v', s') ->
  compile_ops cx (flatten_body (strip is)) v s = Some (v', s').
Proof. exact strip_compile_body. Qed.
Print Assumptions dead_code_compiles_away.

(** ... and the reference interpreter never executes them (same result for every fuel). *)
Theorem dead_code_never_executed : forall host cap m fuel st l vs bt is,
  exec_instr host cap m fuel st l vs (Block bt (strip is)) = exec_instr host cap m fuel st l vs (Block bt is).
Proof. exact exec_strip_block. Qed.
Print Assumptions dead_code_never_executed.

(** The new fragments contain the old ones (a body of the old fragment has no dead code). *)
Theorem dead_code_fragment_widens : forall nl cx is,
  (blocks_ok nl cx is = true -> blocks_ok_dead nl cx is = true)
  /\ (forall t, blocks_ok_r nl cx t is = true -> blocks_ok_r_dead nl cx t is = true).
Proof. exact (fun nl cx is => conj (blocks_ok_widen nl cx is) (fun t => blocks_ok_r_widen nl cx t is)). Qed.
Print Assumptions dead_code_fragment_widens.

(** [compile_block_correct_partial] for bodies with dead code: the hypothesis is [blocks_ok_dead]
    (= [blocks_ok] of the stripped body); compilation and the reference run are those of the ORIGINAL body. *)
Theorem compile_dead_code_correct_partial :
  forall (art : artifact) (mhost : nat -> list Z -> option (option Z)) (cap : N)
         (host : nat -> list val -> option memory -> host_result) (m : module) (cx : cctx)
         (is : list instr) (nl next : Z) (v' : vstate) (sF : cstate) (rest_code : list N),
    blocks_ok_dead nl cx is = true -> 0 <= nl <= next ->
    compile_ops cx (flatten_body is) (init_vstate None) (init_fstate next) = Some (v', sF) ->
    c_next sF < 2147483648 -> Z.of_nat (length (c_consts sF)) < 2147483648 ->
    Z.of_nat (length (c_out sF ++ rest_code)) < 4294967296 ->
    forall (codes : list (code_map * list Z)) (fidx : nat),
      nth_error codes fidx
        = Some (build_code (c_out sF ++ rest_code) xH (PositiveMap.empty N), map fst (c_consts sF)) ->
      forall (st : store) (locals : list val) (M : mstate) (fuel : nat),
        rel art fidx (map fst (c_consts sF)) nl (c_next sF) cap (init_fstate next) st locals [] M ->
        match exec_instr host cap m fuel st locals [] (Block None is) with
        | RNormal st' l' vs' =>
            vs' = [] /\ exists n M', nsteps art mhost codes n M = SNext M'
                       /\ rel art fidx (map fst (c_consts sF)) nl (c_next sF) cap sF st' l' [] M' /\ frame_eq M M'
        | RReturn st' vs' =>
            exists n M', nsteps art mhost codes n M = SNext M' /\ frame_eq M M' /\ ms_idx M' = fidx
              /\ code_at (build_code (c_out sF ++ rest_code) xH (PositiveMap.empty N)) (ms_pc M') [IReturn]
              /\ Forall2 repr (ms_globals M') (s_globals st') /\ mem_rel art cap (ms_mem M') (s_mem st')
              /\ match cx_return cx with
                 | Some _ => exists v vs0, vs' = v :: vs0 /\ repr (reg M' 0) v
                 | None => True
                 end
        | RTrap => exists n e, nsteps art mhost codes n M = STrap e
        | RBr _ _ _ _ => False
        | _ => True
        end.
Proof. exact compile_dead_correct. Qed.
Print Assumptions compile_dead_code_correct_partial.

(** [compile_fn_result_correct_partial] for bodies with dead code. *)
Theorem compile_dead_code_fn_result_correct_partial :
  forall (art : artifact) (mhost : nat -> list Z -> option (option Z)) (cap : N)
         (host : nat -> list val -> option memory -> host_result) (m : module) (cx : cctx)
         (is : list instr) (t : valtype) (nl next : Z) (v' : vstate) (sF : cstate) (rest_code : list N),
    blocks_ok_r_dead nl cx t is = true -> 0 <= nl <= next -> 0 < next ->
    compile_ops cx (flatten_body is) (init_vstate (Some t)) (init_fstate_r next) = Some (v', sF) ->
    c_next sF < 2147483648 -> Z.of_nat (length (c_consts sF)) < 2147483648 ->
    Z.of_nat (length (c_out sF ++ rest_code)) < 4294967296 ->
    forall (codes : list (code_map * list Z)) (fidx : nat),
      nth_error codes fidx
        = Some (build_code (c_out sF ++ rest_code) xH (PositiveMap.empty N), map fst (c_consts sF)) ->
      forall (st : store) (locals : list val) (M : mstate) (fuel : nat),
        rel art fidx (map fst (c_consts sF)) nl (c_next sF) cap (init_fstate_r next) st locals [] M ->
        match exec_instr host cap m fuel st locals [] (Block (Some t) is) with
        | RNormal st' l' vs' =>
            exists v, vs' = [v] /\ exists n M', nsteps art mhost codes n M = SNext M' /\ frame_eq M M'
              /\ ms_idx M' = fidx /\ ms_pc M' = cur_off sF
              /\ Forall2 repr (ms_globals M') (s_globals st') /\ mem_rel art cap (ms_mem M') (s_mem st')
              /\ repr (reg M' 0) v
        | RReturn st' vs' =>
            exists n M', nsteps art mhost codes n M = SNext M' /\ frame_eq M M' /\ ms_idx M' = fidx
              /\ code_at (build_code (c_out sF ++ rest_code) xH (PositiveMap.empty N)) (ms_pc M') [IReturn]
              /\ Forall2 repr (ms_globals M') (s_globals st') /\ mem_rel art cap (ms_mem M') (s_mem st')
              /\ match cx_return cx with
                 | Some _ => exists v vs0, vs' = v :: vs0 /\ repr (reg M' 0) v
                 | None => True
                 end
        | RTrap => exists n e, nsteps art mhost codes n M = STrap e
        | RBr _ _ _ _ => False
        | _ => True
        end.
Proof. exact compile_dead_fn_result_correct. Qed.
Print Assumptions compile_dead_code_fn_result_correct_partial.

(** non-vacuity: dead code after br (incl. stack-polymorphic pops from the empty stack, a whole dead
    value-typed frame with a br_if to a value-typed label inside), after return (then-branch of an if) and
    after unreachable (else-branch); the body is NOT in the old fragment; the run returns / traps *)
Example dead_code_nonvacuous :
  blocks_ok_dead 2 dead_cx dead_body = true /\ blocks_ok 2 dead_cx dead_body = false
  /\ (exists v' sF, compile_ops dead_cx (flatten_body dead_body) (init_vstate None) (init_fstate 2) = Some (v', sF)
       /\ c_bp sF = [] /\ c_stack sF = []
       /\ c_next sF < 2147483648 /\ Z.of_nat (length (c_consts sF)) < 2147483648
       /\ Z.of_nat (length (c_out sF ++ [IReturn])) < 4294967296)
  /\ (forall host cap m st,
        exec_instr host cap m 30 st [VI32 0; VI32 1] [] (Block None dead_body) = RReturn st []
        /\ exec_instr host cap m 30 st [VI32 0; VI32 0] [] (Block None dead_body) = RTrap).
Proof. exact ex_dead. Qed.
Print Assumptions dead_code_nonvacuous.

(** non-vacuity for functions with a result: dead code after a br to the function label and after return *)
Example dead_code_fn_nonvacuous :
  blocks_ok_r_dead 2 dead_fn_cx T_i32 dead_fn_body = true /\ blocks_ok_r 2 dead_fn_cx T_i32 dead_fn_body = false
  /\ (exists v' sF, compile_ops dead_fn_cx (flatten_body dead_fn_body) (init_vstate (Some T_i32)) (init_fstate_r 2) = Some (v', sF)
       /\ c_bp sF = []
       /\ c_next sF < 2147483648 /\ Z.of_nat (length (c_consts sF)) < 2147483648
       /\ Z.of_nat (length (c_out sF ++ [IReturn])) < 4294967296)
  /\ (forall host cap m st,
        exec_instr host cap m 30 st [VI32 1; VI32 5] [] (Block (Some T_i32) dead_fn_body) = RNormal st [VI32 1; VI32 5] [VI32 7]
        /\ exec_instr host cap m 30 st [VI32 0; VI32 5] [] (Block (Some T_i32) dead_fn_body) = RReturn st [VI32 5]).
Proof. exact ex_dead_fn. Qed.
Print Assumptions dead_code_fn_nonvacuous.

(** non-vacuity: a module outside the classes on which specification and engine model agree *)
Example outside_classes_agree :
  known_class w_plain = (false, false)
  /\ spec_obs w_plain 100 [VI32 3; VI32 4] = engine_obs w_plain 100 [VI32 3; VI32 4]
  /\ spec_obs w_plain 100 [VI32 3; VI32 4] = Some (ObsDone (Some (VI32 49)) 0 [] []).
Proof. exact plain_agree. Qed.
Print Assumptions outside_classes_agree.

Example in_range_nonvacuous : in_range 32 4294967295 /\ ~ in_range 32 4294967296 /\ iadd 32 4294967295 1 = 0.
Proof. exact in_range_example. Qed.
Print Assumptions in_range_nonvacuous.
