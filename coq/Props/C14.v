(** C14 - property theorems (placeholder while the development is being built). *)
From Coq Require Import NArith.
From CB Require Import Contract.HostRun.
Theorem c14_stub : (1 + 1 = 2)%N.
Proof. reflexivity. Qed.
Print Assumptions c14_stub.
