(** C14 - Contract host functions are memory-safe, total and enforce protocol limits.
    Property theorems only: each is closed by [exact] and followed by [Print Assumptions].
    Model: Contract/HostBase.v, HostV0.v, HostV1.v, HostRun.v; costs and limits: Gen/HostCosts.v
    (generated from constants.rs on every run). *)
From Coq Require Import NArith List Bool.
From CB Require Import Gen.HostCosts Contract.HostBase Contract.HostBaseProofs Contract.HostV0 Contract.HostV0Proofs
  Contract.HostV1 Contract.HostV1Proofs Contract.HostLimitsProofs Contract.HostChargeProofs
  Contract.HostHistoryProofs Contract.HostCosts Contract.HostRun
  Contract.HostTreeEnergy Contract.HostTreeEnergyProofs Contract.HostTreeChargeProofs Contract.HostOoeProofs
  Contract.HostV0Actions.
Import ListNotations.
Local Open Scope N_scope.

(** ** Totality / memory safety: no host call ever reaches [Fault] (an out-of-bounds slice of memory
    or of a host-side buffer, or an overflowing usize addition, i.e. a Rust panic), for ALL values of
    the arguments within their Wasm types ([args_wf]: i32 arguments < 2^32, i64 arguments < 2^64)
    and all memories. *)
Theorem host_total_v0 : forall X f args (s : st (host X)),
  args_wf (sig0 f) args -> lenN (h_state (hs s)) <= 16384 -> snd (call_v0 f args s) <> Fault.
Proof. exact (@call_v0_safe). Qed.
Print Assumptions host_total_v0.

Theorem host_total_v1 : forall f args (s : st (host v1ext)),
  args_wf (sig1 f) args -> v1_ok s -> snd (call_v1 f args s) <> Fault.
Proof. exact call_v1_safe. Qed.
Print Assumptions host_total_v1.

(** ... and this holds after any history of host calls, with arbitrary memory contents and energy
    before every call and arbitrary responses to interrupts. *)
Theorem host_total_history_v0 : forall X cs (s : st (host X)) f a m e,
  args_wf (sig0 f) a -> lenN (h_state (hs s)) <= 16384 -> snd (call_v0 f a (perturb (run0 cs s) m e)) <> Fault.
Proof. exact (@v0_history_total). Qed.
Print Assumptions host_total_history_v0.

Theorem host_total_history_v1 : forall os (s : st (host v1ext)) f a m e,
  args_wf (sig1 f) a -> v1_ok s -> logs_ok s -> snd (call_v1 f a (perturb (run1 os s) m e)) <> Fault.
Proof. exact v1_history_total. Qed.
Print Assumptions host_total_history_v1.

(** usize additions are modelled by a checked operator ([uadd], [Fault] on overflow); for two u32
    operands it returns the exact sum *)
Theorem usize_add_of_u32_exact : forall X a b (s : st X), a < W32 -> b < W32 -> uadd a b s = (s, Ok (a + b)).
Proof. exact uadd_u32. Qed.
Print Assumptions usize_add_of_u32_exact.

(** ** Legacy state never exceeds 16 KiB *)
Theorem v0_state_le_16k : forall X f args (s : st (host X)),
  lenN (h_state (hs s)) <= 16384 -> lenN (h_state (hs (fst (call_v0 f args s)))) <= 16384.
Proof. exact (@call_v0_state_ok). Qed.
Print Assumptions v0_state_le_16k.

Theorem v0_state_le_16k_history : forall X cs (s : st (host X)),
  state_ok s -> logs_ok s -> state_ok (run0 cs s) /\ logs_ok (run0 cs s).
Proof. exact (@v0_history_inv). Qed.
Print Assumptions v0_state_le_16k_history.

Theorem write_state_result_in_range : forall X a b c (s s' : st (host X)) r,
  state_ok s -> write_state a b c s = (s', Ok r) -> exists n, r = Some n /\ n <= b /\ c + n <= 16384.
Proof. exact (@write_state_result). Qed.
Print Assumptions write_state_result_in_range.

(** ** Logs: each at most 512 bytes; at most 64 per execution segment while limits are on (P4) *)
Theorem logs_bounded_v0 : forall X f args (s : st (host X)),
  logs_ok s -> logs_ok (fst (call_v0 f args s)).
Proof. exact (@call_v0_logs_ok). Qed.
Print Assumptions logs_bounded_v0.

Theorem logs_bounded_v1 : forall f args (s : st (host v1ext)),
  logs_ok s -> logs_ok (fst (call_v1 f args s)).
Proof. exact call_v1_logs_ok. Qed.
Print Assumptions logs_bounded_v1.

(** ** Return value (16 KiB while limits are on), entry size (2^30) limits are invariant (v1) *)
Theorem return_value_and_entry_limits : forall os (s : st (host v1ext)),
  v1_ok s -> logs_ok s -> v1_ok (run1 os s) /\ logs_ok (run1 os s).
Proof. exact v1_history_inv. Qed.
Print Assumptions return_value_and_entry_limits.

(** ** Parameter, key and resize limits *)
Theorem send_parameter_limit : forall X a b c d e f g (s s' : st (host X)) r,
  send a b c d e f g s = (s', Ok r) ->
  exists acts name param, h_actions (hs s') = acts ++ [ASend a b name e param] /\ lenN param <= h_maxparam (hs s).
Proof. exact (@send_param_limit). Qed.
Print Assumptions send_parameter_limit.

Theorem invoke_call_parameter_limit : forall data maxp (s s' : st (host v1ext)) i,
  parse_call_args data maxp s = (s', Ok i) -> u16 (le_val (firstnN 2 (skipnN 16 data))) <= maxp.
Proof. exact parse_call_args_param_limit. Qed.
Print Assumptions invoke_call_parameter_limit.

Theorem key_size_limit : forall a b (s s' : st (host v1ext)) r,
  state_create_entry a b s = (s', Ok r) -> b <= 1073741824.
Proof. exact create_entry_key_limit. Qed.
Print Assumptions key_size_limit.

Theorem entry_resize_size_limit : forall a b (s s' : st (host v1ext)),
  state_entry_resize a b s = (s', Ok (Some 1)) -> b <= 1073741824.
Proof. exact entry_resize_limit. Qed.
Print Assumptions entry_resize_size_limit.

(** ** Call depth: [n] nested calls succeed iff [n] does not exceed the remaining activation frames *)
Theorem call_depth_limit : forall X n (s : st (host X)),
  (N.of_nat n <= h_frames (hs s) ->
     exists s', nested_calls n s = (s', Ok tt) /\ h_frames (hs s') = h_frames (hs s))
  /\ (h_frames (hs s) < N.of_nat n -> exists s', nested_calls n s = (s', Trap)).
Proof. exact (@nested_calls_spec). Qed.
Print Assumptions call_depth_limit.

(** ** Charge before work: in every host call, a tick of at least the scheduled cost (Gen/HostCosts)
    precedes every copy/allocation whose size depends on a length argument *)
Theorem charge_before_work_v0 : forall X f args (s : st (host X)), evs s = [] -> state_ok s ->
  cbw (sched0 f args (hs s)) (evs (fst (call_v0 f args s))) = true.
Proof. exact (@call_v0_cbw). Qed.
Print Assumptions charge_before_work_v0.

Theorem charge_before_work_v1 : forall f args (s : st (host v1ext)), evs s = [] ->
  cbw (sched1 f args) (evs (fst (call_v1 f args s))) = true.
Proof. exact call_v1_cbw. Qed.
Print Assumptions charge_before_work_v1.

Theorem growth_charged_resize_state : forall X new_size (s : st (host X)), evs s = [] -> state_ok s ->
  alloc_paid additional_state_size_cost (evs (fst (resize_state new_size s))) = true.
Proof. exact (@resize_state_alloc_paid). Qed.
Print Assumptions growth_charged_resize_state.

Theorem growth_charged_write_state : forall X start length offset (s : st (host X)), evs s = [] -> state_ok s ->
  alloc_paid (fun n => n) (evs (fst (write_state start length offset s))) = true.
Proof. exact (@write_state_alloc_paid). Qed.
Print Assumptions growth_charged_write_state.

Theorem growth_charged_return_value : forall a b c (s : st (host v1ext)), evs s = [] ->
  alloc_paid additional_output_size_cost (evs (fst (write_return_value a b c s))) = true.
Proof. exact write_return_value_alloc_paid. Qed.
Print Assumptions growth_charged_return_value.

Theorem growth_charged_entry_write : forall a b c d (s : st (host v1ext)), evs s = [] ->
  alloc_paid additional_entry_size_cost (evs (fst (state_entry_write a b c d s))) = true.
Proof. exact entry_write_alloc_paid. Qed.
Print Assumptions growth_charged_entry_write.

Theorem growth_charged_entry_resize : forall a b (s : st (host v1ext)), evs s = [] ->
  alloc_paid additional_entry_size_cost (evs (fst (state_entry_resize a b s))) = true.
Proof. exact entry_resize_alloc_paid. Qed.
Print Assumptions growth_charged_entry_resize.

(** ** Names (after the fix a617658c1): the receive name of `send` and the entrypoint name of
    `invoke` are scanned / copied only after their length was checked: every piece of work not covered
    by a length-proportional charge is at most 100 bytes, whatever the length arguments *)
Theorem name_work_bounded_send : forall X a b c d e f g (s : st (host X)), evs s = [] ->
  fixed_le 100 (evs (fst (send a b c d e f g s))) = true.
Proof. exact send_fixed_work_bounded. Qed.
Print Assumptions name_work_bounded_send.

Theorem name_work_bounded_invoke : forall a b c (s : st (host v1ext)), evs s = [] ->
  fixed_le 100 (evs (fst (invoke a b c s))) = true.
Proof. exact invoke_fixed_work_bounded. Qed.
Print Assumptions name_work_bounded_invoke.

(** ** Result encodings *)
Theorem result_encoding_log_event : forall X a b (s s' : st (host X)) r, log_event a b s = (s', Ok r) ->
  r = Some 0 \/ r = Some 1 \/ (r = Some 4294967295 /\ 512 < b).
Proof. exact (@log_event_codes). Qed.
Print Assumptions result_encoding_log_event.

Theorem result_encoding_resize_state : forall X n (s s' : st (host X)) r, resize_state n s = (s', Ok r) ->
  (r = Some 0 /\ 16384 < n /\ h_state (hs s') = h_state (hs s)) \/ (r = Some 1 /\ n <= 16384 /\ lenN (h_state (hs s')) = n).
Proof. exact (@resize_state_codes). Qed.
Print Assumptions result_encoding_resize_state.

Theorem result_encoding_handles : forall gen idx, gen < W32 -> idx < W32 ->
  split_handle (handle gen idx) = (gen, idx) /\ handle gen idx < W64.
Proof. intros gen idx Hg Hi. exact (conj (handle_roundtrip gen idx Hg Hi) (handle_fits_u64 gen idx Hg Hi)). Qed.
Print Assumptions result_encoding_handles.

Theorem result_encoding_none_err : forall gen idx, gen < 2147483648 -> idx < W32 ->
  handle gen idx <> U64MAX /\ handle gen idx <> NEW_ERR.
Proof. exact none_is_not_a_handle. Qed.
Print Assumptions result_encoding_none_err.

Theorem result_encoding_invoke_failure : forall n u (s s' : st (host v1ext)) v,
  resume (RespFail n u) s = (s', Ok v) -> v = n * 4294967296.
Proof. exact resume_fail_code. Qed.
Print Assumptions result_encoding_invoke_failure.

Theorem result_encoding_invoke_success : forall len tag, len <= MAX_PARAMS -> (tag = 0 \/ tag = 8388608) ->
  let v := (len + tag) * 1099511627776 in
  v < W64 /\ v mod 1099511627776 = 0 /\ (v / 1099511627776) mod 8388608 = len /\ (v / 1099511627776) / 8388608 = tag / 8388608.
Proof. exact resume_ok_layout. Qed.
Print Assumptions result_encoding_invoke_success.

(** ** The generated cost functions and limits *)
Theorem limits_are_the_documented_ones :
  MAX_CONTRACT_STATE = 16384 /\ MAX_LOG_SIZE = 512 /\ MAX_NUM_LOGS = 64 /\ MAX_ACTIVATION_FRAMES = 1024
  /\ MAX_ENTRY_SIZE = 1073741824 /\ MAX_KEY_SIZE = 1073741824 /\ MAX_ENTRY_SIZE < 4294967295 /\ MAX_KEY_SIZE < 4294967295.
Proof. exact limits_documented. Qed.
Print Assumptions limits_are_the_documented_ones.

Theorem protocol_parameter_sets :
  rparams_of 4 = mkRP 1024 true false false false /\ rparams_of 5 = mkRP 65535 false true false false
  /\ rparams_of 6 = mkRP 65535 false true true false /\ rparams_of 7 = mkRP 65535 false true true true.
Proof. exact (conj eq_refl (conj eq_refl (conj eq_refl eq_refl))). Qed.
Print Assumptions protocol_parameter_sets.

Theorem cost_no_overflow :
  fits64 copy_from_host_cost /\ fits64 copy_to_host_cost /\ fits64 copy_parameter_cost /\ fits64 log_event_cost
  /\ fits64 action_send_cost /\ fits64 traverse_key_cost /\ fits64 lookup_entry_cost /\ fits64 delete_prefix_find_cost
  /\ fits64 new_iterator_cost /\ fits64 delete_iterator_cost /\ fits64 delete_entry_cost /\ fits64 read_entry_cost
  /\ fits64 write_entry_cost /\ fits64 write_output_cost /\ fits64 verify_ed25519_cost /\ fits64 hash_sha2_256_cost
  /\ fits64 hash_sha3_256_cost /\ fits64 hash_keccak_256_cost.
Proof. exact costs_no_overflow. Qed.
Print Assumptions cost_no_overflow.

Theorem cost_no_overflow_create_entry : forall x, x < W32c ->
  create_entry_cost x <= 18446744073709551615 /\ x * x < W64c.
Proof. intros x Hx. exact (conj (create_entry_cost_no_overflow x Hx) (create_entry_square_fits x Hx)). Qed.
Print Assumptions cost_no_overflow_create_entry.

Theorem cost_monotone :
  mono copy_from_host_cost /\ mono copy_to_host_cost /\ mono copy_parameter_cost /\ mono additional_state_size_cost
  /\ mono log_event_cost /\ mono action_send_cost /\ mono traverse_key_cost /\ mono lookup_entry_cost
  /\ mono delete_prefix_find_cost /\ mono new_iterator_cost /\ mono delete_iterator_cost /\ mono delete_entry_cost
  /\ mono additional_entry_size_cost /\ mono read_entry_cost /\ mono write_entry_cost /\ mono write_output_cost
  /\ mono additional_output_size_cost /\ mono verify_ed25519_cost /\ mono hash_sha2_256_cost
  /\ mono hash_sha3_256_cost /\ mono hash_keccak_256_cost.
Proof. exact costs_monotone. Qed.
Print Assumptions cost_monotone.

Theorem cost_monotone_create_entry : mono create_entry_cost.
Proof. exact create_entry_cost_monotone. Qed.
Print Assumptions cost_monotone_create_entry.

Theorem cost_at_least_linear : forall x, x < W32c ->
  x <= copy_from_host_cost x /\ x <= copy_to_host_cost x /\ x <= copy_parameter_cost x /\ 1000 * x <= log_event_cost x
  /\ 1000 * x <= action_send_cost x /\ x <= write_output_cost x /\ 100 * x <= new_iterator_cost x
  /\ 5 * x <= hash_sha3_256_cost x /\ 5 * x <= hash_keccak_256_cost x /\ 7 * x <= hash_sha2_256_cost x
  /\ 100 * x <= verify_ed25519_cost x /\ 100 * x <= additional_entry_size_cost x /\ 30 * x <= additional_output_size_cost x
  /\ 16 * x <= lookup_entry_cost x /\ 16 * x <= delete_entry_cost x /\ 100 * x <= create_entry_cost x.
Proof. exact costs_lower_bounds. Qed.
Print Assumptions cost_at_least_linear.

(** ** Non-vacuity and necessity of the hypotheses *)
Definition demo_script : script :=
  mkScript false false 4 1 [] [] true (runN 16000 1 1) [] [(1024, runN 256 3 7)]
           [mkCall (F0 V0write_state) [AC 1024; AC 512; AC 16000] 4;
            mkCall (F0 V0resize_state) [AC 16385] 4;
            mkCall (F0 V0log_event) [AC 1024; AC 512] 4;
            mkCall (F0 V0accept) [] 4] 0 [] [].

(** a state satisfying the invariants, on which write_state at the 16 KiB boundary succeeds and
    the whole script ends in success with the state at exactly 16 KiB *)
Example invariants_nonvacuous :
  state_ok (init_st demo_script 1000000) /\ logs_ok (init_st demo_script 1000000) /\ v1_ok (init_st demo_script 1000000)
  /\ o_class (run_script demo_script 1000000) = 0
  /\ lenN (o_state (run_script demo_script 1000000)) = 16384.
Proof.
  split; [vm_compute; discriminate|]. split; [split; [intros _; vm_compute; discriminate | constructor]|].
  split; [split; [intros _; vm_compute; discriminate | split; [constructor | vm_compute; reflexivity]]|].
  split; vm_compute; reflexivity.
Qed.
Print Assumptions invariants_nonvacuous.

(** the 16 KiB hypothesis of [host_total_v0] is necessary: handed a larger state by its caller,
    write_state indexes `state[offset..end]` with [end < offset] (a Rust panic; replayed by the check) *)
Example write_state_faults_outside_invariant :
  let sc := mkScript false false 4 1 [] [] true (runN 20000 3 3) [] [(1024, runN 256 3 7)]
                     [mkCall (F0 V0write_state) [AC 1024; AC 4; AC 17000] 4] 0 [] [] in
  o_class (run_script sc 1000000) = 5.
Proof. vm_compute. reflexivity. Qed.
Print Assumptions write_state_faults_outside_invariant.

(** the key reported by an exhausted iterator (4-bit-chunk common prefix, odd length padded), and
    the u32 reference count of a locked prefix *)
Example exhausted_key_and_lock_overflow :
  exhausted_key [([3], 0); ([3; 10], 1); ([10], 2)] = [0]
  /\ exhausted_key [([3; 10], 0); ([3; 10; 17], 1)] = [3; 10]
  /\ lock_add [3] [([3], 4294967295)] = None
  /\ lock_add [3] [([3], 4294967294)] = Some [([3], 4294967295)].
Proof. repeat split; vm_compute; reflexivity. Qed.
Print Assumptions exhausted_key_and_lock_overflow.

(** observation O1: `simple_transfer` charges BASE_ACTION_COST; the constant
    BASE_SIMPLE_TRANSFER_ACTION_COST of the schedule file is not applied by any host function *)
Example simple_transfer_charges_base_action_cost :
  let sc := mkScript false false 5 1 [] [] true [] [] [] [mkCall (F0 V0simple_transfer) [AC 1536; AC 7] 4] 0 [] [] in
  o_rem (run_script sc 1000000) = 1000000 - 100 - BASE_ACTION_COST
  /\ BASE_ACTION_COST < BASE_SIMPLE_TRANSFER_ACTION_COST.
Proof. split; vm_compute; reflexivity. Qed.
Print Assumptions simple_transfer_charges_base_action_cost.

(** ** Energy charged by the state tree for traversals (HostTreeEnergy.v): `MutableTrie::delete_prefix`
    and `MutableTrie::next` charge TREE_TRAVERSAL_STEP_COST per step through the `TraversalCounter`;
    the model computes the number of steps exactly from the tree ([Radix.tree]), the key and the set
    [E] of nodes whose children are owned in the current generation.  The correspondence compares the
    remaining energy exactly. *)

(** delete_prefix: the charge is linear in the number of nodes actually visited (= invalidated): each
    costs its stem length + 1, and a stem is part of a key of at most [L] chunks *)
Theorem tree_delete_prefix_charge_linear_in_visited : forall L (t : tr) E acc,
  Forall (fun k => nlen k <= L) (node_keys acc t) -> dp_steps E acc t <= (L + 1) * dp_visited E acc t.
Proof. exact dp_steps_le_visited. Qed.
Print Assumptions tree_delete_prefix_charge_linear_in_visited.

Theorem tree_delete_prefix_visited_bounded : forall (t : tr) E acc, 1 <= dp_visited E acc t <= tnodes t.
Proof. exact (proj1 dp_visited_le_nodes_both). Qed.
Print Assumptions tree_delete_prefix_visited_bounded.

(** ... and never more than nodes + stem chunks of the whole tree, whatever the key *)
Theorem tree_delete_prefix_charge_le_size : forall E key r, delete_prefix_steps E key r <= size_root r.
Proof. exact delete_prefix_steps_le_size. Qed.
Print Assumptions tree_delete_prefix_charge_le_size.

(** expanding more nodes (lookups, iteration) never lowers the charge *)
Theorem tree_delete_prefix_charge_monotone : forall E E', (forall k, memk k E = true -> memk k E' = true) ->
  forall (t : tr) acc, dp_steps E acc t <= dp_steps E' acc t.
Proof. exact (fun E E' H => proj1 (dp_steps_mono_both E E' H)). Qed.
Print Assumptions tree_delete_prefix_charge_monotone.

(** iteration: all `next` calls of one walk together charge exactly 2 * (nodes + stem chunks) - 2 - (stem
    of the start node) steps; a single call charges at most that *)
Theorem tree_walk_total_charge : forall (t : tr) acc,
  sum_charges (dfs acc t) + nlen (tpath t) + 2 = 2 * (tnodes t + tstems t).
Proof. exact dfs_total_charge. Qed.
Print Assumptions tree_walk_total_charge.

Theorem tree_next_charge_le_size : forall r prefix started exhausted last,
  fst (next_cost r prefix started exhausted last) <= 2 * size_root r.
Proof. exact next_cost_le_size. Qed.
Print Assumptions tree_next_charge_le_size.

(** charge before work, over the observables (linear memory, entries, iterators, locks, handle map,
    expanded nodes, logs, return value): when the traversal charge cannot be paid, none of them changed *)
Theorem charge_before_work_delete_prefix : forall key_start key_len (s : st (host v1ext)),
  snd (state_delete_prefix key_start key_len s) = OutOfEnergy ->
  observables (fst (state_delete_prefix key_start key_len s)) = observables s.
Proof. exact delete_prefix_ooe_unchanged. Qed.
Print Assumptions charge_before_work_delete_prefix.

Theorem charge_before_work_iterator_next : forall it (s : st (host v1ext)),
  snd (state_iterator_next it s) = OutOfEnergy ->
  observables (fst (state_iterator_next it s)) = observables s.
Proof. exact iterator_next_ooe_unchanged. Qed.
Print Assumptions charge_before_work_iterator_next.

(** non-vacuity: the tree of the keys 0x1234, 0x1235, 0x20 (root - [1] stem 2,3 - leaves 4, 5; [2] stem 0).
    delete_prefix 0x12 charges 3 steps while the node is not expanded, 5 after a lookup below it; the three
    `next` calls of an iterator over 0x12 charge 3 + 2 + 1 = 2*(3+2) - 2 - 2 steps, a fourth one nothing;
    with 100 energy delete_prefix pays the find cost (10) but not the 120 for the traversal: OutOfEnergy;
    with 500 it succeeds and 370 remain; after looking up 0x1234 it costs 10 + 5*40. *)
Example tree_energy_nonvacuous :
  let r := tree_of [[18; 52]; [18; 53]; [32]] in
  let sc := mkScript true false 5 1 [] [] true [] [([18; 52], [1]); ([18; 53], [2]); ([32], [])] [(1024, [18; 52])] [] 0 [] [] in
  (delete_prefix_steps [] [18] r, delete_prefix_steps [[1; 2; 3]] [18] r, size_root r) = (3, 5, 8)
  /\ (fst (next_cost r [18] false false []), fst (next_cost r [18] true false [18; 52]),
      fst (next_cost r [18] true false [18; 53]), fst (next_cost r [18] true true [18])) = (3, 2, 1, 0)
  /\ snd (state_delete_prefix 1024 1 (init_st sc 100)) = OutOfEnergy
  /\ (snd (state_delete_prefix 1024 1 (init_st sc 500)), energy (fst (state_delete_prefix 1024 1 (init_st sc 500)))) = (Ok (Some 2), 370)
  /\ (let s := fst (state_lookup_entry 1024 2 (init_st sc 100000)) in
      energy s - energy (fst (state_delete_prefix 1024 1 s))) = 10 + 5 * TREE_TRAVERSAL_STEP_COST.
Proof. repeat split; vm_compute; reflexivity. Qed.
Print Assumptions tree_energy_nonvacuous.

(** charge before work over the observables, for every v1 host function except the two with staged
    charges ([state_entry_write], [state_entry_resize]: the entry is made owned - copy-on-write, charged
    by `allocate` - before the growth is charged; observation O3): a call that ends in OutOfEnergy has
    not touched linear memory, entries, iterators, locks, handle map, expanded nodes, logs or the return
    value.  PARTIAL: the two excluded functions; v0 is covered by the event-list theorem only. *)
Theorem charge_before_work_observables_v1_partial : forall f args (s : st (host v1ext)),
  f <> V1state_entry_write -> f <> V1state_entry_resize ->
  snd (call_v1 f args s) = OutOfEnergy -> observables (fst (call_v1 f args s)) = observables s.
Proof. exact call_v1_ooe_unchanged_partial. Qed.
Print Assumptions charge_before_work_observables_v1_partial.

Example charge_before_work_observables_nonvacuous :
  let sc := mkScript true false 5 1 [] [] true [] [([18; 52], [1]); ([18; 53], [2]); ([32], [])] [(1024, [18; 52])] [] 0 [] [] in
  snd (call_v1 V1state_delete_prefix [1024; 1] (init_st sc 100)) = OutOfEnergy
  /\ snd (call_v1 V1log_event [1024; 2] (init_st sc 3)) = OutOfEnergy
  /\ V1log_event <> V1state_entry_write /\ V1log_event <> V1state_entry_resize.
Proof. repeat split; try (vm_compute; reflexivity); discriminate. Qed.
Print Assumptions charge_before_work_observables_nonvacuous.

(** ** v0 action tree: combine_and / combine_or accept exactly identifiers of existing actions, and every
    history of v0 host calls keeps the tree well formed (children strictly smaller than the node's index) *)
Theorem v0_combine_accepts_iff_known_ids : forall X mk l r (s : st (host X)),
  (exists s' x, out_combine mk l r s = (s', Ok x)) <->
  (l < u32 (lenN (h_actions (hs s))) /\ r < u32 (lenN (h_actions (hs s)))).
Proof. exact (@out_combine_ok_iff). Qed.
Print Assumptions v0_combine_accepts_iff_known_ids.

Theorem v0_actions_wellformed : forall X f args (s : st (host X)),
  v0_actions_wf (h_actions (hs s)) -> v0_actions_wf (h_actions (hs (fst (call_v0 f args s)))).
Proof. exact (@call_v0_actions_ok). Qed.
Print Assumptions v0_actions_wellformed.

Theorem v0_actions_wf_children_smaller : forall acts i a,
  v0_actions_wf acts -> nth_error acts i = Some a -> child_ok (N.of_nat i) a.
Proof. intros acts i a H Hn. exact (wf_from_nth acts 0 i a H Hn). Qed.
Print Assumptions v0_actions_wf_children_smaller.

Example v0_actions_wellformed_nonvacuous :
  v0_actions_wf [AAccept; AOr 0 0; AAnd 1 0] /\ ~ v0_actions_wf [AAccept; AOr 0 1].
Proof. split; [cbv; repeat split|]. intros H. cbv in H. destruct H as [_ [[_ H] _]]. discriminate H. Qed.
Print Assumptions v0_actions_wellformed_nonvacuous.
