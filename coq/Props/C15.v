(** C15 - iterator locks and entry handles protect contract state invariants.
    Property theorems only: each is closed by [exact] and followed by [Print Assumptions].

    [pmap] models [PrefixesMap] (reference-counted byte trie of locked prefixes), the
    machine [m_step] of Locks.v models the lock checks of [MutableTrie::{insert,delete,
    delete_prefix,iter,delete_iter}], entries and lazily advancing iterators; [s_step] is
    its specification (iterators are snapshots; locked = under the prefix of a live
    iterator).  "Reachable" = the state after an arbitrary history from the initial state. *)
From Coq Require Import NArith List Bool Sorted.
From CB Require Import Trie.Radix.
From CB Require Import Trie.RadixProofs.
From CB Require Import Trie.PrefixMap.
From CB Require Import Trie.PrefixMapProofs.
From CB Require Import Trie.Locks.
From CB Require Import Trie.LocksProofs.
From CB Require Import Trie.InstanceState.
From CB Require Import Trie.InstanceStateProofs.
Import ListNotations.
Local Open Scope N_scope.

(** ** The prefix map is a multiset of byte strings, for every history of
    insert / delete / check_has_no_prefix / is_or_has_prefix *)
Theorem prefixmap_refines_multiset : forall ops : list pop,
  snd (pm_run ops None) = snd (bag_run ops [])
  /\ pm_wf (fst (pm_run ops None)) = true
  /\ forall k, pm_count k (fst (pm_run ops None)) = bag_count k (fst (bag_run ops [])).
Proof.
  exact (fun ops => match pm_run_refines ops None [] PInv_init with
                    | conj a (conj b c) => conj a (conj b c) end).
Qed.
Print Assumptions prefixmap_refines_multiset.

Theorem check_has_no_prefix_spec : forall k m,
  pm_no_prefix k m = true <-> (forall p, is_prefix p k = true -> pm_count p m = 0).
Proof. exact pm_no_prefix_spec. Qed.
Print Assumptions check_has_no_prefix_spec.

Theorem is_or_has_prefix_spec : forall k m,
  pm_wf m = true ->
  (pm_iohp k m = true <->
   exists p, 0 < pm_count p m /\ (is_prefix p k = true \/ is_prefix k p = true)).
Proof. exact pm_iohp_spec. Qed.
Print Assumptions is_or_has_prefix_spec.

Theorem insert_adds_one : forall k m m' k',
  pm_wf m = true -> pm_insert k m = Some m' ->
  pm_wf m' = true
  /\ pm_count k' m' = if list_eqb k k' then pm_count k' m + 1 else pm_count k' m.
Proof. exact (fun k m m' k' H E => conj (pm_wf_insert k m m' H E) (pm_count_insert k m m' k' H E)). Qed.
Print Assumptions insert_adds_one.

Theorem delete_removes_one : forall k m k',
  pm_wf m = true ->
  snd (pm_delete k m) = negb (pm_count k m =? 0)
  /\ pm_count k' (fst (pm_delete k m)) = (if list_eqb k k' then pm_count k' m - 1 else pm_count k' m)
  /\ pm_wf (fst (pm_delete k m)) = true.
Proof. exact pm_delete_spec. Qed.
Print Assumptions delete_removes_one.

(** A count of [u32::MAX] makes the insertion fail (and only that does); the map is not
    changed and the count does not wrap. *)
Theorem refcount_overflow_is_error : forall k m,
  pm_wf m = true -> (pm_insert k m = None <-> pm_count k m = MAXC).
Proof. exact pm_insert_none. Qed.
Print Assumptions refcount_overflow_is_error.

Theorem iter_overflow_reports_too_many : forall ops g rest k t,
  m_exec ops m_init = g :: rest -> g_root g = Some t -> has_prefix (nib k) t = true ->
  pm_count k (g_locks g) = MAXC -> m_iter k g = (g, RTooMany).
Proof. exact overflow_is_error_reachable. Qed.
Print Assumptions iter_overflow_reports_too_many.

(** ** While an iterator over [p] is alive, creating or deleting a key at or under [p],
    and deleting a prefix that is above, at or under [p], is refused and the whole
    generation record (tree, entries, locks, handles, iterators) is unchanged *)
Theorem locked_refused_unchanged : forall ops g rest p k v,
  m_exec ops m_init = g :: rest -> In p (live_roots (g_iters g)) ->
  (is_prefix p k = true -> m_insert k v g = (g, RLocked) /\ m_delete k g = (g, RLocked))
  /\ (is_prefix p k = true \/ is_prefix k p = true -> m_delete_prefix k g = (g, RLocked)).
Proof. exact locked_refused_reachable. Qed.
Print Assumptions locked_refused_unchanged.

(** ** Deleting an iterator releases exactly one reference of its own prefix *)
Theorem delete_iter_releases_own_lock_only : forall ops g rest i p x,
  m_exec ops m_init = g :: rest -> nth_error (g_iters g) i = Some (Some (p, x)) ->
  exists l',
    m_deliter i g = (with_locks_iters g l' (set_nth i None (g_iters g)), RBool true)
    /\ forall q, pm_count q l' = if list_eqb p q then pm_count q (g_locks g) - 1 else pm_count q (g_locks g).
Proof. exact deliter_releases_reachable. Qed.
Print Assumptions delete_iter_releases_own_lock_only.

(** ** In every reachable state the lock map is exactly the multiset of the prefixes of
    the live iterators, and the keys under a live prefix are still there *)
Theorem locks_are_live_iterators : forall ops g rest,
  m_exec ops m_init = g :: rest ->
  exists s srest, s_exec ops s_init = s :: srest
    /\ (forall p, pm_count p (g_locks g) = s_count p s)
    /\ live_roots (g_iters g) = live_roots (s_iters s)
    /\ (forall p, In p (live_roots (s_iters s)) -> is_nil (a_iterate p (s_map s)) = false).
Proof.
  exact (fun ops g rest H =>
    match reachable_R ops g rest H with
    | ex_intro _ s (ex_intro _ srest (conj E (conj HR _))) =>
        ex_intro _ s (ex_intro _ srest
          (conj E (conj (R_locks g s HR) (conj (iter_roots_agree _ _ _ (R_iters g s HR)) (R_live g s HR)))))
    end).
Qed.
Print Assumptions locks_are_live_iterators.

(** ** An iterator yields exactly the snapshot taken at its creation.  On the
    specification machine: after [iter k] returned iterator [i] in a generation whose map
    is sorted (true in every reachable state), for EVERY list of further operations of that
    generation that does not delete iterator [i] - inserts, deletes, prefix deletes (refused
    or not), other iterators, handle use - the results of the [ONext i] operations are,
    in order, the keys under [k] at creation time in ascending order, then "exhausted"
    for ever.  By [history_refines] (Props/C03.v) the model machine, whose iterators walk
    the current tree lazily like the implementation's, returns the same for every history. *)
Theorem iterator_yields_snapshot : forall g k g1 i ops,
  StronglySorted (fun a b => lex_ltb (fst a) (fst b) = true) (s_map g) ->
  s_iter k g = (g1, RIter i) -> Forall (not_deliter i) ops ->
  sg_yields i ops g1 =
  snapshot_prefix (length (sg_yields i ops g1)) (map fst (a_iterate k (s_map g))).
Proof. exact iterator_snapshot. Qed.
Print Assumptions iterator_yields_snapshot.

(** ** A handle to a deleted entry is invalid for every later read, set and get_mut *)
Theorem handle_to_deleted_entry_invalid : forall k g e h v,
  lookup_root (nib k) (g_root g) = Some e -> snd (m_delete k g) <> RLocked ->
  nth_error (g_handles g) h = Some e ->
  let g' := fst (m_delete k g) in
  m_read h g' = (g', RVal None) /\ m_set h v g' = (g', RBool false) /\ m_mut h v g' = (g', RVal None).
Proof. exact deleted_entry_invalid. Qed.
Print Assumptions handle_to_deleted_entry_invalid.

(** ** The contract-visible handle layer (InstanceState.v: [current_generation], the
    handle and iterator tables, the u64 / u32 encodings, [migrate] on resume) *)

(** An id whose generation is not the current one is answered with the invalid encoding
    (u32::MAX, resp. the error id for [iterator_next]) by every handle operation, and the
    trie generation - tree, entries, locks, tables - is untouched (only the write operations
    set [changed], as the code does before looking at the id). *)
Theorem stale_handle_invalid : forall o i g,
  is_handle_op o = true -> id_gen (op_id o) <> is_gen i ->
  c_op o (i, g) = ((after_invalid o i, g), invalid_answer o).
Proof. exact stale_id_invalid. Qed.
Print Assumptions stale_handle_invalid.

(** The same for an id of the current generation whose index was never handed out ... *)
Theorem forged_handle_invalid : forall o i g,
  is_handle_op o = true ->
  (match o with
   | CNext _ | CIterDelete _ | CIterKey _ => id_idx (op_id o) (length (g_iters g)) = None
   | _ => id_idx (op_id o) (length (g_handles g)) = None
   end) ->
  c_op o (i, g) = ((after_invalid o i, g), invalid_answer o).
Proof. exact forged_index_invalid. Qed.
Print Assumptions forged_handle_invalid.

(** ... and for an id of a deleted entry; deleting a key makes every id of it such a
    tombstone. *)
Theorem tombstone_handle_invalid : forall o i g h e,
  (match o with CRead _ | CSize _ | CWrite _ _ _ | CResize _ _ => true | _ => false end) = true ->
  id_idx (op_id o) (length (g_handles g)) = Some h ->
  nth_error (g_handles g) h = Some e -> ent_get (g_ents g) e = None ->
  c_op o (i, g) = ((after_invalid o i, g), invalid_answer o).
Proof. exact tombstone_invalid. Qed.
Print Assumptions tombstone_handle_invalid.

Theorem delete_entry_makes_tombstones : forall k i g e h,
  lookup_root (nib k) (g_root g) = Some e -> snd (m_delete k g) <> RLocked ->
  nth_error (g_handles g) h = Some e ->
  let g' := snd (fst (c_op (CDelete k) (i, g))) in
  nth_error (g_handles g') h = Some e /\ ent_get (g_ents g') e = None.
Proof. exact deleted_entry_ids_invalid. Qed.
Print Assumptions delete_entry_makes_tombstones.

(** A freshly handed out id denotes exactly the entry it was handed out for (so "invalid"
    is not the answer to everything). *)
Theorem fresh_id_valid : forall k i g e v,
  lookup_root (nib k) (g_root g) = Some e -> ent_get (g_ents g) e = Some v ->
  N.of_nat (length (g_handles g)) < TWO32 ->
  let r := c_op (CLookup k) (i, g) in
  snd r = XId (enc (is_gen i) (length (g_handles g)))
  /\ entry_of (fst (fst r)) (snd (fst r)) (enc (is_gen i) (length (g_handles g))) = Some (e, v).
Proof. exact lookup_id_valid. Qed.
Print Assumptions fresh_id_valid.

(** Interrupts: a complete re-entrant call (any properly nested operations, ended with
    success or failure) leaves the frames below the caller untouched and resumes the caller
    by [resume] (= [InstanceState::migrate]).  If the call succeeded and touched the state,
    the generation counter moves on and EVERY id the caller was given before is answered
    as invalid; otherwise the caller continues on exactly its own generation record with
    the same counter, and every operation answers exactly as it would have before the
    interrupt. *)
Theorem migrate_invalidates_iff_changed : forall inner_ops commit f rest,
  balanced 0 inner_ops = true ->
  exists top,
    c_exec (CInterrupt :: inner_ops ++ [CEnd commit]) (f :: rest) = Some (resume commit top f :: rest)
    /\ (commit && touched top = true ->
        is_gen (fst (resume commit top f)) = is_gen (fst f) + 1
        /\ forall o, is_handle_op o = true -> id_gen (op_id o) = is_gen (fst f) ->
             c_op o (resume commit top f)
             = ((after_invalid o (fst (resume commit top f)), snd (resume commit top f)), invalid_answer o))
    /\ (commit && touched top = false ->
        snd (resume commit top f) = snd f
        /\ is_gen (fst (resume commit top f)) = is_gen (fst f)
        /\ forall o, snd (c_op o (resume commit top f)) = snd (c_op o f)
                     /\ snd (fst (c_op o (resume commit top f))) = snd (fst (c_op o f))).
Proof. exact migrate_iff_changed. Qed.
Print Assumptions migrate_invalidates_iff_changed.

Example interrupt_with_and_without_update :
  (* create a, b; iterate; interrupt: inner call creates c and fails -> ids still valid;
     interrupt: inner call creates c and succeeds -> ids invalid, new generation 1 *)
  c_run [CCreate [97]; CCreate [98]; CIter []; CNext (enc 0 0);
         CInterrupt; CCreate [99]; CEnd false;
         CRead (enc 0 0); CNext (enc 0 0);
         CInterrupt; CCreate [99]; CEnd true;
         CRead (enc 0 0); CNext (enc 0 0); CLookup [99]; CRead (enc 1 0)] c_init
  = [XId (enc 0 0); XId (enc 0 1); XId (enc 0 0); XId (enc 0 2);
     XMark; XId (enc 0 0); XMark;
     XBytes []; XId (enc 0 3);
     XMark; XId (enc 0 0); XMark;
     XInvalid; XId ID_ERR; XId (enc 1 0); XBytes []].
Proof. vm_compute. reflexivity. Qed.
Print Assumptions interrupt_with_and_without_update.

(** ** Non-vacuity *)
Example nested_and_equal_prefixes :
  m_run [OInsert [1; 2] [9]; OInsert [1; 3] [8]; OInsert [2] [7];
         OIter [1]; OIter [1]; OIter [1; 2]; OIter [];
         OInsert [1; 2; 0] []; ODelete [2]; ODeletePrefix [1; 2]; ODelIter 3; ODelete [2];
         ODelIter 0; OInsert [1; 5] []; ODelIter 1; ODelIter 2; OInsert [1; 5] [];
         ONext 0] m_init
  = [RHandle 0 false; RHandle 1 false; RHandle 2 false;
     RIter 0; RIter 1; RIter 2; RIter 3;
     RLocked; RLocked; RLocked; RBool true; RBool true;
     RBool true; RLocked; RBool true; RBool true; RHandle 3 false;
     RSkip].
Proof. vm_compute. reflexivity. Qed.
Print Assumptions nested_and_equal_prefixes.

Example iterator_is_a_snapshot_under_permitted_changes :
  m_run [OInsert [1; 1] [1]; OInsert [1; 2] [2]; OInsert [3] [3];
         OIter [1]; ONext 0; OInsert [2] []; ODelete [3]; OSet 1 [5]; ONewGen; OInsert [1; 0] []; ONormalize 0;
         ONext 0; ONext 0; ONext 0] m_init
  = [RHandle 0 false; RHandle 1 false; RHandle 2 false;
     RIter 0; RNext [1; 1] 3 (Some [1]); RHandle 4 false; RBool true; RBool true; RGens 2; RHandle 0 false; RGens 1;
     RNext [1; 2] 5 (Some [5]); RNone; RNone].
Proof. vm_compute. reflexivity. Qed.
Print Assumptions iterator_is_a_snapshot_under_permitted_changes.

Example overflow_boundary :
  pm_insert [1] (pm_set [1] MAXC (Some (pn_fresh [1]))) = None
  /\ pm_count [1] (pm_set [1] MAXC (Some (pn_fresh [1]))) = MAXC
  /\ pm_wf (pm_set [1] MAXC (Some (pn_fresh [1]))) = true.
Proof. vm_compute. repeat split. Qed.
Print Assumptions overflow_boundary.

Example iterator_yields_snapshot_nonvacuous :
  let g := fst (s_insert [1; 2] [2] (fst (s_insert [3] [3] (fst (s_insert [1; 1] [1] empty_sgen))))) in
  let g1 := fst (s_iter [1] g) in
  s_iter [1] g = (g1, RIter 0)
  /\ sg_yields 0 [ONext 0; OInsert [2] []; OInsert [1; 0] []; ODelete [3]; ONext 0; ODeletePrefix []; ONext 0; ONext 0] g1
     = [Some [1; 1]; Some [1; 2]; None; None].
Proof. vm_compute. split; reflexivity. Qed.
Print Assumptions iterator_yields_snapshot_nonvacuous.

(** * Round 4: the slab-based structure the code uses, the machine limits of the handle layer, energy *)
From CB Require Import Trie.SlabPrefixMap.
From CB Require Import Trie.SlabPrefixMapProofs.

(** ** [PrefixesMap] as coded (slab of nodes, children lists of slab keys, LIFO key reuse, the descent
    loops and the unwinding loop of [delete]) refines the multiset of prefixes for every history: the
    implementation-shaped model never reaches an "Invariant violation" panic, answers exactly like the
    multiset, and its state stays the representation (footprint: no sharing, no dangling key) of a
    well-formed functional trie whose counts are the multiplicities - so every theorem above about
    [pmap] (lock checks, exact prefix specifications, overflow) holds of the slab structure. *)
Theorem slab_prefixmap_refines_multiset : forall ops : list pop,
  exists m' pm',
    sm_run ops sm_empty = Some (m', snd (bag_run ops []))
    /\ SInv m' pm' /\ pm_wf pm' = true
    /\ forall k, pm_count k pm' = bag_count k (fst (bag_run ops [])).
Proof.
  exact (fun ops => match sm_run_refines ops sm_empty None [] SInv_init PInv_init with
                    | ex_intro _ m' (ex_intro _ pm' (conj a (conj b (conj c d)))) =>
                        ex_intro _ m' (ex_intro _ pm' (conj a (conj b (conj c d))))
                    end).
Qed.
Print Assumptions slab_prefixmap_refines_multiset.

(** per-operation commutation with the functional trie (abstraction relation [SInv]) *)
Theorem slab_step_commutes : forall o m pm,
  SInv m pm -> pm_wf pm = true ->
  exists m', sm_step o m = Some (m', snd (pm_step o pm)) /\ SInv m' (fst (pm_step o pm)).
Proof. exact sm_step_ok. Qed.
Print Assumptions slab_step_commutes.

(** invariants of the slab in every represented state: root and all stored child keys denote occupied
    cells ([cell_ok]: no dangling key), no cell is shared (NoDup footprint), a reachable node without
    children has a positive count, counts fit u32, and the free stack holds distinct vacant keys. *)
Theorem slab_state_invariants : forall m pm,
  SInv m pm -> pm_wf pm = true ->
  match sm_root m with
  | None => pm = None
  | Some r => exists fp, In r fp /\ NoDup fp /\ forall x, In x fp -> cell_ok (sl_cells (sm_slab m)) fp x
  end
  /\ NoDup (sl_free (sm_slab m))
  /\ forall x, In x (sl_free (sm_slab m)) -> nth_error (sl_cells (sm_slab m)) x = Some None.
Proof. exact slab_invariants. Qed.
Print Assumptions slab_state_invariants.

Example slab_history_nonvacuous :
  let ops := [PIns [1; 2]; PIns [1]; PIns [1; 3]; PDel [1; 2]; PIns [7]; PCheck [1; 5]; PDel [1]; PIohp [1];
              PDel [1; 3]; PDel [7]; PDel [7]] in
  option_map snd (sm_run ops sm_empty) = Some (snd (bag_run ops []))
  /\ option_map (fun r => sm_dump (fst r)) (sm_run ops sm_empty) = Some (None, [], 0%nat)
  /\ option_map (fun r => sm_dump (fst r)) (sm_run [PIns [1; 2]; PIns [1; 3]; PDel [1; 2]; PIns [7]] sm_empty)
     = Some (Some 0%nat, [(0%nat, (0, [(1, 1%nat); (7, 2%nat)])); (1%nat, (0, [(3, 3%nat)]));
                          (2%nat, (1, [])); (3%nat, (1, []))], 4%nat).
Proof. vm_compute. repeat split. Qed.
Print Assumptions slab_history_nonvacuous.

From CB Require Import Gen.HostCosts.
From CB Require Import Trie.InstLimits.
From CB Require Import Trie.InstLimitsProofs.

(** ** Handle encodings and counters with machine arithmetic *)
Theorem handle_decode_encode : forall gen idx,
  gen < P32 -> idx < P32 -> h_split (h_enc gen idx) = (gen, idx).
Proof. exact h_split_enc. Qed.
Print Assumptions handle_decode_encode.

Theorem handle_encode_injective : forall g1 i1 g2 i2,
  g1 < P32 -> i1 < P32 -> g2 < P32 -> i2 < P32 -> h_enc g1 i1 = h_enc g2 i2 -> g1 = g2 /\ i1 = i2.
Proof. exact h_enc_injective. Qed.
Print Assumptions handle_encode_injective.

Theorem handle_never_a_sentinel : forall gen idx,
  gen < P32 -> idx < P32 - 1 -> h_enc gen idx <> H_NONE /\ h_enc gen idx <> H_ERR.
Proof. exact h_enc_ne_sentinels. Qed.
Print Assumptions handle_never_a_sentinel.

(** for every history of id allocations and interrupts, in both build flavours: below the limits the ids
    of the current generation are pairwise distinct, decode to (generation, position), are no sentinel *)
Theorem ids_unique_within_generation : forall checked ops c,
  c_run checked ops ctr0 = Some c ->
  (c_ents c <= P32 -> NoDup (c_eids c)) /\ (c_its c <= P32 -> NoDup (c_iids c))
  /\ (c_ents c <= P32 -> forall h, In h (c_eids c) ->
        exists i, i < c_ents c /\ h = h_enc (c_gen c) i /\ h_split h = (c_gen c, i))
  /\ (c_ents c <= P32 - 1 -> forall h, In h (c_eids c) -> h <> H_NONE /\ h <> H_ERR).
Proof. exact ids_unique_below_limit. Qed.
Print Assumptions ids_unique_within_generation.

(** what happens AT the boundaries (there is no check in the code): *)
Theorem handle_index_overflow_refuted : forall gen j,
  j < P32 ->
  h_enc gen (P32 + j) = h_enc (N.lor gen 1) j
  /\ (N.odd gen = true -> h_enc gen (P32 + j) = h_enc gen j)
  /\ (N.even gen = true -> h_enc gen (P32 + j) = h_enc (gen + 1) j).
Proof.
  exact (fun gen j H => conj (h_enc_index_overflow gen j H)
                             (conj (h_enc_index_overflow_odd gen j H) (h_enc_index_overflow_even gen j H))).
Qed.
Print Assumptions handle_index_overflow_refuted.

Theorem sentinel_collision_generations :
  h_enc 4294967295 4294967295 = H_NONE /\ h_enc 3221225471 4294967295 = H_ERR.
Proof. exact sentinel_collisions. Qed.
Print Assumptions sentinel_collision_generations.

Theorem generation_counter_overflow : forall c,
  c_gen c = U32MAXv ->
  c_step true (KMigrate true) c = None
  /\ forall idx, idx < P32 ->
       exists c', c_step false (KMigrate true) c = Some (c', None) /\ c_gen c' = c_gen ctr0
                  /\ h_split (h_enc (c_gen ctr0) idx) = (c_gen c', idx).
Proof.
  exact (fun c E => conj (gen_checked_panics c E) (fun idx H => gen_wrap_revives_handle c idx E H)).
Qed.
Print Assumptions generation_counter_overflow.

(** refusal at the size limits: nothing but the [changed] flag / nothing at all changes *)
Theorem size_limits_refuse : forall changed key_len vlen n,
  (MAX_KEY_SIZE < key_len -> create_entry_guard changed key_len = (true, false))
  /\ (MAX_ENTRY_SIZE < n -> resize_len vlen n = (0, vlen))
  /\ (vlen <= MAX_ENTRY_SIZE -> snd (resize_len vlen n) <= MAX_ENTRY_SIZE).
Proof.
  exact (fun changed key_len vlen n =>
           conj (create_guard_refuses changed key_len) (conj (resize_refused vlen n) (resize_bounded vlen n))).
Qed.
Print Assumptions size_limits_refuse.

Theorem entry_write_bounded : forall vlen off len w v',
  vlen <= MAX_ENTRY_SIZE -> write_len vlen off len = Some (w, v') ->
  v' <= MAX_ENTRY_SIZE /\ w <= len /\ vlen <= v' /\ (off <= vlen -> off + w <= v').
Proof. exact write_bounded. Qed.
Print Assumptions entry_write_bounded.

Example limits_nonvacuous :
  h_split (h_enc 7 4294967295) = (7, 4294967295)
  /\ option_map c_eids (c_run true [KEntry; KIter; KEntry; KMigrate false; KEntry] ctr0)
     = Some [h_enc 0 2; h_enc 0 1; h_enc 0 0]
  /\ option_map c_eids (c_run true [KEntry; KMigrate true; KEntry] ctr0) = Some [h_enc 1 0]
  /\ h_enc 5 (P32 + 3) = h_enc 5 3 /\ h_enc 4 (P32 + 3) = h_enc 5 3
  /\ resize_len 10 1073741825 = (0, 10) /\ resize_len 10 1073741824 = (1, 1073741824)
  /\ write_len 1073741824 1073741820 100 = Some (4, 1073741824).
Proof. vm_compute. repeat split. Qed.
Print Assumptions limits_nonvacuous.

From CB Require Import Contract.HostBase Contract.HostV0 Contract.HostV1.
From CB Require Import Trie.InstEnergy.
From CB Require Import Trie.InstEnergyProofs.

(** ** Energy of the refused paths (host-function model of C14, cost tables generated from constants.rs) *)
Theorem create_entry_locked_charges_exactly : forall ks kl (s : st H1) key,
  ks + kl < W64 -> create_entry_cost kl <= energy s -> ks + kl <= m_len (mem s) ->
  mem_slice (mem s) ks (ks + kl) = Some key -> lenN key <= MAX_KEY_SIZE ->
  locked_key (HostV1.is_locks (the_is s)) key = true ->
  exists s', run_lop LCreate ks kl s = (s', Ok (Some (refused_result LCreate)))
             /\ energy s' = energy s - refused_charge LCreate kl /\ mem s' = mem s
             /\ the_is s' = is_set_changed (the_is s).
Proof. exact create_entry_locked_charge. Qed.
Print Assumptions create_entry_locked_charges_exactly.

Theorem delete_entry_locked_charges_exactly : forall ks kl (s : st H1) key,
  ks + kl < W64 -> delete_entry_cost kl <= energy s -> ks + kl <= m_len (mem s) ->
  mem_slice (mem s) ks (ks + kl) = Some key ->
  any_live (HostV1.is_entries (the_is s)) = true ->
  locked_key (HostV1.is_locks (the_is s)) key = true ->
  exists s', run_lop LDelete ks kl s = (s', Ok (Some (refused_result LDelete)))
             /\ energy s' = energy s - refused_charge LDelete kl /\ mem s' = mem s
             /\ the_is s' = is_set_changed (the_is s).
Proof. exact delete_entry_locked_charge. Qed.
Print Assumptions delete_entry_locked_charges_exactly.

Theorem delete_prefix_locked_charges_exactly : forall ks kl (s : st H1) key,
  ks + kl < W64 -> delete_prefix_find_cost kl <= energy s -> ks + kl <= m_len (mem s) ->
  mem_slice (mem s) ks (ks + kl) = Some key ->
  any_live (HostV1.is_entries (the_is s)) = true ->
  locked_prefix (HostV1.is_locks (the_is s)) key = true ->
  exists s', run_lop LDeletePrefix ks kl s = (s', Ok (Some (refused_result LDeletePrefix)))
             /\ energy s' = energy s - refused_charge LDeletePrefix kl /\ mem s' = mem s
             /\ the_is s' = is_set_changed (the_is s)
             /\ x_lower (h_ext (hs s')) = x_lower (h_ext (hs s)).
Proof. exact delete_prefix_locked_charge. Qed.
Print Assumptions delete_prefix_locked_charges_exactly.

Theorem iterate_too_many_charges_exactly : forall ks kl (s : st H1) key,
  ks + kl < W64 -> new_iterator_cost kl <= energy s -> ks + kl <= m_len (mem s) ->
  mem_slice (mem s) ks (ks + kl) = Some key ->
  live_with_prefix key (HostV1.is_entries (the_is s)) 0 <> [] ->
  lock_add key (HostV1.is_locks (the_is s)) = None ->
  exists s', run_lop LIterate ks kl s = (s', Ok (Some (refused_result LIterate)))
             /\ energy s' = energy s - refused_charge LIterate kl /\ mem s' = mem s /\ the_is s' = the_is s.
Proof. exact iterate_too_many_charge. Qed.
Print Assumptions iterate_too_many_charges_exactly.

Theorem refused_ops_charge_before_work : forall o ks kl (s : st H1),
  ks + kl < W64 -> energy s < refused_charge o kl -> ks + kl <= m_len (mem s) ->
  exists s', run_lop o ks kl s = (s', OutOfEnergy) /\ hs s' = hs s /\ mem s' = mem s.
Proof. exact refused_ops_charge_first. Qed.
Print Assumptions refused_ops_charge_before_work.

Theorem iterator_next_invalid_charges_exactly : forall it (s : st H1),
  ITERATOR_NEXT_COST <= energy s ->
  (forall idx i, handle_iter (the_is s) it <> Some (idx, Some i)) ->
  exists s', state_iterator_next it s = (s', Ok (Some NEW_ERR))
             /\ energy s' = energy s - ITERATOR_NEXT_COST /\ mem s' = mem s /\ hs s' = hs s.
Proof. exact iterator_next_invalid_charge. Qed.
Print Assumptions iterator_next_invalid_charges_exactly.

Theorem iterator_delete_charges_exactly : forall it (s : st H1),
  DELETE_ITERATOR_BASE_COST <= energy s ->
  match handle_iter (the_is s) it with
  | Some (idx, Some i) =>
      DELETE_ITERATOR_BASE_COST + delete_iterator_cost (u32 (lenN (iter_key i))) <= energy s ->
      exists s', state_iterator_delete it s = (s', Ok (Some 1))
                 /\ energy s' = energy s - (DELETE_ITERATOR_BASE_COST + delete_iterator_cost (u32 (lenN (iter_key i))))
                 /\ HostV1.is_locks (the_is s') = remove_one (it_root i) (HostV1.is_locks (the_is s))
  | Some (_, None) =>
      exists s', state_iterator_delete it s = (s', Ok (Some 0))
                 /\ energy s' = energy s - DELETE_ITERATOR_BASE_COST /\ hs s' = hs s
  | None =>
      exists s', state_iterator_delete it s = (s', Ok (Some U32MAX))
                 /\ energy s' = energy s - DELETE_ITERATOR_BASE_COST /\ hs s' = hs s
  end.
Proof. exact iterator_delete_charge. Qed.
Print Assumptions iterator_delete_charges_exactly.

(** non-vacuity: a concrete host state (one entry [1;2], key bytes at address 1024) with a live iterator
    on [1] (resp. a lock count of u32::MAX on [1]) on which the hypotheses hold and the charges are exact *)
From CB Require Import Contract.HostRun.
Definition c15_demo0 : st H1 :=
  init_st (mkScript true false 4 1 [] [] true [] [([1; 2], [9])] [(1024, [1; 2])] [] 0 [] []) 1000000.
Definition c15_demo : st H1 := fst (state_iterator 1024 1 c15_demo0).
Definition c15_demo_max : st H1 :=
  fst (set_is (mkIS 0 (HostV1.is_entries (the_is c15_demo0)) [] [] [([1], 4294967295)] false) c15_demo0).

Example refused_charges_nonvacuous :
  snd (state_iterator 1024 1 c15_demo0) = Ok (Some (handle 0 0))
  /\ 1024 + 2 < W64 /\ create_entry_cost 2 <= energy c15_demo /\ 1024 + 2 <= m_len (mem c15_demo)
  /\ mem_slice (mem c15_demo) 1024 (1024 + 2) = Some [1; 2]
  /\ locked_key (HostV1.is_locks (the_is c15_demo)) [1; 2] = true
  /\ locked_prefix (HostV1.is_locks (the_is c15_demo)) [1; 2] = true
  /\ any_live (HostV1.is_entries (the_is c15_demo)) = true
  /\ snd (run_lop LCreate 1024 2 c15_demo) = Ok (Some U64MAX)
  /\ energy (fst (run_lop LCreate 1024 2 c15_demo)) = energy c15_demo - create_entry_cost 2
  /\ snd (run_lop LDelete 1024 2 c15_demo) = Ok (Some 0)
  /\ energy (fst (run_lop LDelete 1024 2 c15_demo)) = energy c15_demo - delete_entry_cost 2
  /\ snd (run_lop LDeletePrefix 1024 2 c15_demo) = Ok (Some 0)
  /\ energy (fst (run_lop LDeletePrefix 1024 2 c15_demo)) = energy c15_demo - delete_prefix_find_cost 2
  /\ live_with_prefix [1] (HostV1.is_entries (the_is c15_demo_max)) 0 <> []
  /\ lock_add [1] (HostV1.is_locks (the_is c15_demo_max)) = None
  /\ snd (run_lop LIterate 1024 1 c15_demo_max) = Ok (Some NEW_ERR)
  /\ energy (fst (run_lop LIterate 1024 1 c15_demo_max)) = energy c15_demo_max - new_iterator_cost 1
  /\ snd (state_iterator_next (handle 1 0) c15_demo) = Ok (Some NEW_ERR)
  /\ energy (fst (state_iterator_next (handle 1 0) c15_demo)) = energy c15_demo - ITERATOR_NEXT_COST
  /\ snd (state_iterator_delete (handle 0 0) c15_demo) = Ok (Some 1)
  /\ energy (fst (state_iterator_delete (handle 0 0) c15_demo))
     = energy c15_demo - (DELETE_ITERATOR_BASE_COST + delete_iterator_cost 1)
  /\ snd (run_lop LCreate 1024 2 (mkSt 10 (mem c15_demo) [] (hs c15_demo))) = OutOfEnergy.
Proof. vm_compute. repeat split; discriminate. Qed.
Print Assumptions refused_charges_nonvacuous.
