(** C15 - iterator locks and entry handles protect contract state invariants.
    Property theorems only: each is closed by [exact] and followed by [Print Assumptions].

    [pmap] models [PrefixesMap] (reference-counted byte trie of locked prefixes), the
    machine [m_step] of Locks.v models the lock checks of [MutableTrie::{insert,delete,
    delete_prefix,iter,delete_iter}], entries and lazily advancing iterators; [s_step] is
    its specification (iterators are snapshots; locked = under the prefix of a live
    iterator).  "Reachable" = the state after an arbitrary history from the initial state. *)
From Coq Require Import NArith List Bool Sorted.
From CB Require Import Trie.Radix.
From CB Require Import Trie.RadixProofs.
From CB Require Import Trie.PrefixMap.
From CB Require Import Trie.PrefixMapProofs.
From CB Require Import Trie.Locks.
From CB Require Import Trie.LocksProofs.
From CB Require Import Trie.InstanceState.
From CB Require Import Trie.InstanceStateProofs.
Import ListNotations.
Local Open Scope N_scope.

(** ** The prefix map is a multiset of byte strings, for every history of
    insert / delete / check_has_no_prefix / is_or_has_prefix *)
Theorem prefixmap_refines_multiset : forall ops : list pop,
  snd (pm_run ops None) = snd (bag_run ops [])
  /\ pm_wf (fst (pm_run ops None)) = true
  /\ forall k, pm_count k (fst (pm_run ops None)) = bag_count k (fst (bag_run ops [])).
Proof.
  exact (fun ops => match pm_run_refines ops None [] PInv_init with
                    | conj a (conj b c) => conj a (conj b c) end).
Qed.
Print Assumptions prefixmap_refines_multiset.

Theorem check_has_no_prefix_spec : forall k m,
  pm_no_prefix k m = true <-> (forall p, is_prefix p k = true -> pm_count p m = 0).
Proof. exact pm_no_prefix_spec. Qed.
Print Assumptions check_has_no_prefix_spec.

Theorem is_or_has_prefix_spec : forall k m,
  pm_wf m = true ->
  (pm_iohp k m = true <->
   exists p, 0 < pm_count p m /\ (is_prefix p k = true \/ is_prefix k p = true)).
Proof. exact pm_iohp_spec. Qed.
Print Assumptions is_or_has_prefix_spec.

Theorem insert_adds_one : forall k m m' k',
  pm_wf m = true -> pm_insert k m = Some m' ->
  pm_wf m' = true
  /\ pm_count k' m' = if list_eqb k k' then pm_count k' m + 1 else pm_count k' m.
Proof. exact (fun k m m' k' H E => conj (pm_wf_insert k m m' H E) (pm_count_insert k m m' k' H E)). Qed.
Print Assumptions insert_adds_one.

Theorem delete_removes_one : forall k m k',
  pm_wf m = true ->
  snd (pm_delete k m) = negb (pm_count k m =? 0)
  /\ pm_count k' (fst (pm_delete k m)) = (if list_eqb k k' then pm_count k' m - 1 else pm_count k' m)
  /\ pm_wf (fst (pm_delete k m)) = true.
Proof. exact pm_delete_spec. Qed.
Print Assumptions delete_removes_one.

(** A count of [u32::MAX] makes the insertion fail (and only that does); the map is not
    changed and the count does not wrap. *)
Theorem refcount_overflow_is_error : forall k m,
  pm_wf m = true -> (pm_insert k m = None <-> pm_count k m = MAXC).
Proof. exact pm_insert_none. Qed.
Print Assumptions refcount_overflow_is_error.

Theorem iter_overflow_reports_too_many : forall ops g rest k t,
  m_exec ops m_init = g :: rest -> g_root g = Some t -> has_prefix (nib k) t = true ->
  pm_count k (g_locks g) = MAXC -> m_iter k g = (g, RTooMany).
Proof. exact overflow_is_error_reachable. Qed.
Print Assumptions iter_overflow_reports_too_many.

(** ** While an iterator over [p] is alive, creating or deleting a key at or under [p],
    and deleting a prefix that is above, at or under [p], is refused and the whole
    generation record (tree, entries, locks, handles, iterators) is unchanged *)
Theorem locked_refused_unchanged : forall ops g rest p k v,
  m_exec ops m_init = g :: rest -> In p (live_roots (g_iters g)) ->
  (is_prefix p k = true -> m_insert k v g = (g, RLocked) /\ m_delete k g = (g, RLocked))
  /\ (is_prefix p k = true \/ is_prefix k p = true -> m_delete_prefix k g = (g, RLocked)).
Proof. exact locked_refused_reachable. Qed.
Print Assumptions locked_refused_unchanged.

(** ** Deleting an iterator releases exactly one reference of its own prefix *)
Theorem delete_iter_releases_own_lock_only : forall ops g rest i p x,
  m_exec ops m_init = g :: rest -> nth_error (g_iters g) i = Some (Some (p, x)) ->
  exists l',
    m_deliter i g = (with_locks_iters g l' (set_nth i None (g_iters g)), RBool true)
    /\ forall q, pm_count q l' = if list_eqb p q then pm_count q (g_locks g) - 1 else pm_count q (g_locks g).
Proof. exact deliter_releases_reachable. Qed.
Print Assumptions delete_iter_releases_own_lock_only.

(** ** In every reachable state the lock map is exactly the multiset of the prefixes of
    the live iterators, and the keys under a live prefix are still there *)
Theorem locks_are_live_iterators : forall ops g rest,
  m_exec ops m_init = g :: rest ->
  exists s srest, s_exec ops s_init = s :: srest
    /\ (forall p, pm_count p (g_locks g) = s_count p s)
    /\ live_roots (g_iters g) = live_roots (s_iters s)
    /\ (forall p, In p (live_roots (s_iters s)) -> is_nil (a_iterate p (s_map s)) = false).
Proof.
  exact (fun ops g rest H =>
    match reachable_R ops g rest H with
    | ex_intro _ s (ex_intro _ srest (conj E (conj HR _))) =>
        ex_intro _ s (ex_intro _ srest
          (conj E (conj (R_locks g s HR) (conj (iter_roots_agree _ _ _ (R_iters g s HR)) (R_live g s HR)))))
    end).
Qed.
Print Assumptions locks_are_live_iterators.

(** ** An iterator yields exactly the snapshot taken at its creation.  On the
    specification machine: after [iter k] returned iterator [i] in a generation whose map
    is sorted (true in every reachable state), for EVERY list of further operations of that
    generation that does not delete iterator [i] - inserts, deletes, prefix deletes (refused
    or not), other iterators, handle use - the results of the [ONext i] operations are,
    in order, the keys under [k] at creation time in ascending order, then "exhausted"
    for ever.  By [history_refines] (Props/C03.v) the model machine, whose iterators walk
    the current tree lazily like the implementation's, returns the same for every history. *)
Theorem iterator_yields_snapshot : forall g k g1 i ops,
  StronglySorted (fun a b => lex_ltb (fst a) (fst b) = true) (s_map g) ->
  s_iter k g = (g1, RIter i) -> Forall (not_deliter i) ops ->
  sg_yields i ops g1 =
  snapshot_prefix (length (sg_yields i ops g1)) (map fst (a_iterate k (s_map g))).
Proof. exact iterator_snapshot. Qed.
Print Assumptions iterator_yields_snapshot.

(** ** A handle to a deleted entry is invalid for every later read, set and get_mut *)
Theorem handle_to_deleted_entry_invalid : forall k g e h v,
  lookup_root (nib k) (g_root g) = Some e -> snd (m_delete k g) <> RLocked ->
  nth_error (g_handles g) h = Some e ->
  let g' := fst (m_delete k g) in
  m_read h g' = (g', RVal None) /\ m_set h v g' = (g', RBool false) /\ m_mut h v g' = (g', RVal None).
Proof. exact deleted_entry_invalid. Qed.
Print Assumptions handle_to_deleted_entry_invalid.

(** ** The contract-visible handle layer (InstanceState.v: [current_generation], the
    handle and iterator tables, the u64 / u32 encodings, [migrate] on resume) *)

(** An id whose generation is not the current one is answered with the invalid encoding
    (u32::MAX, resp. the error id for [iterator_next]) by every handle operation, and the
    trie generation - tree, entries, locks, tables - is untouched (only the write operations
    set [changed], as the code does before looking at the id). *)
Theorem stale_handle_invalid : forall o i g,
  is_handle_op o = true -> id_gen (op_id o) <> is_gen i ->
  c_op o (i, g) = ((after_invalid o i, g), invalid_answer o).
Proof. exact stale_id_invalid. Qed.
Print Assumptions stale_handle_invalid.

(** The same for an id of the current generation whose index was never handed out ... *)
Theorem forged_handle_invalid : forall o i g,
  is_handle_op o = true ->
  (match o with
   | CNext _ | CIterDelete _ | CIterKey _ => id_idx (op_id o) (length (g_iters g)) = None
   | _ => id_idx (op_id o) (length (g_handles g)) = None
   end) ->
  c_op o (i, g) = ((after_invalid o i, g), invalid_answer o).
Proof. exact forged_index_invalid. Qed.
Print Assumptions forged_handle_invalid.

(** ... and for an id of a deleted entry; deleting a key makes every id of it such a
    tombstone. *)
Theorem tombstone_handle_invalid : forall o i g h e,
  (match o with CRead _ | CSize _ | CWrite _ _ _ | CResize _ _ => true | _ => false end) = true ->
  id_idx (op_id o) (length (g_handles g)) = Some h ->
  nth_error (g_handles g) h = Some e -> ent_get (g_ents g) e = None ->
  c_op o (i, g) = ((after_invalid o i, g), invalid_answer o).
Proof. exact tombstone_invalid. Qed.
Print Assumptions tombstone_handle_invalid.

Theorem delete_entry_makes_tombstones : forall k i g e h,
  lookup_root (nib k) (g_root g) = Some e -> snd (m_delete k g) <> RLocked ->
  nth_error (g_handles g) h = Some e ->
  let g' := snd (fst (c_op (CDelete k) (i, g))) in
  nth_error (g_handles g') h = Some e /\ ent_get (g_ents g') e = None.
Proof. exact deleted_entry_ids_invalid. Qed.
Print Assumptions delete_entry_makes_tombstones.

(** A freshly handed out id denotes exactly the entry it was handed out for (so "invalid"
    is not the answer to everything). *)
Theorem fresh_id_valid : forall k i g e v,
  lookup_root (nib k) (g_root g) = Some e -> ent_get (g_ents g) e = Some v ->
  N.of_nat (length (g_handles g)) < TWO32 ->
  let r := c_op (CLookup k) (i, g) in
  snd r = XId (enc (is_gen i) (length (g_handles g)))
  /\ entry_of (fst (fst r)) (snd (fst r)) (enc (is_gen i) (length (g_handles g))) = Some (e, v).
Proof. exact lookup_id_valid. Qed.
Print Assumptions fresh_id_valid.

(** Interrupts: a complete re-entrant call (any properly nested operations, ended with
    success or failure) leaves the frames below the caller untouched and resumes the caller
    by [resume] (= [InstanceState::migrate]).  If the call succeeded and touched the state,
    the generation counter moves on and EVERY id the caller was given before is answered
    as invalid; otherwise the caller continues on exactly its own generation record with
    the same counter, and every operation answers exactly as it would have before the
    interrupt. *)
Theorem migrate_invalidates_iff_changed : forall inner_ops commit f rest,
  balanced 0 inner_ops = true ->
  exists top,
    c_exec (CInterrupt :: inner_ops ++ [CEnd commit]) (f :: rest) = Some (resume commit top f :: rest)
    /\ (commit && touched top = true ->
        is_gen (fst (resume commit top f)) = is_gen (fst f) + 1
        /\ forall o, is_handle_op o = true -> id_gen (op_id o) = is_gen (fst f) ->
             c_op o (resume commit top f)
             = ((after_invalid o (fst (resume commit top f)), snd (resume commit top f)), invalid_answer o))
    /\ (commit && touched top = false ->
        snd (resume commit top f) = snd f
        /\ is_gen (fst (resume commit top f)) = is_gen (fst f)
        /\ forall o, snd (c_op o (resume commit top f)) = snd (c_op o f)
                     /\ snd (fst (c_op o (resume commit top f))) = snd (fst (c_op o f))).
Proof. exact migrate_iff_changed. Qed.
Print Assumptions migrate_invalidates_iff_changed.

Example interrupt_with_and_without_update :
  (* create a, b; iterate; interrupt: inner call creates c and fails -> ids still valid;
     interrupt: inner call creates c and succeeds -> ids invalid, new generation 1 *)
  c_run [CCreate [97]; CCreate [98]; CIter []; CNext (enc 0 0);
         CInterrupt; CCreate [99]; CEnd false;
         CRead (enc 0 0); CNext (enc 0 0);
         CInterrupt; CCreate [99]; CEnd true;
         CRead (enc 0 0); CNext (enc 0 0); CLookup [99]; CRead (enc 1 0)] c_init
  = [XId (enc 0 0); XId (enc 0 1); XId (enc 0 0); XId (enc 0 2);
     XMark; XId (enc 0 0); XMark;
     XBytes []; XId (enc 0 3);
     XMark; XId (enc 0 0); XMark;
     XInvalid; XId ID_ERR; XId (enc 1 0); XBytes []].
Proof. vm_compute. reflexivity. Qed.
Print Assumptions interrupt_with_and_without_update.

(** ** Non-vacuity *)
Example nested_and_equal_prefixes :
  m_run [OInsert [1; 2] [9]; OInsert [1; 3] [8]; OInsert [2] [7];
         OIter [1]; OIter [1]; OIter [1; 2]; OIter [];
         OInsert [1; 2; 0] []; ODelete [2]; ODeletePrefix [1; 2]; ODelIter 3; ODelete [2];
         ODelIter 0; OInsert [1; 5] []; ODelIter 1; ODelIter 2; OInsert [1; 5] [];
         ONext 0] m_init
  = [RHandle 0 false; RHandle 1 false; RHandle 2 false;
     RIter 0; RIter 1; RIter 2; RIter 3;
     RLocked; RLocked; RLocked; RBool true; RBool true;
     RBool true; RLocked; RBool true; RBool true; RHandle 3 false;
     RSkip].
Proof. vm_compute. reflexivity. Qed.
Print Assumptions nested_and_equal_prefixes.

Example iterator_is_a_snapshot_under_permitted_changes :
  m_run [OInsert [1; 1] [1]; OInsert [1; 2] [2]; OInsert [3] [3];
         OIter [1]; ONext 0; OInsert [2] []; ODelete [3]; OSet 1 [5]; ONewGen; OInsert [1; 0] []; ONormalize 0;
         ONext 0; ONext 0; ONext 0] m_init
  = [RHandle 0 false; RHandle 1 false; RHandle 2 false;
     RIter 0; RNext [1; 1] 3 (Some [1]); RHandle 4 false; RBool true; RBool true; RGens 2; RHandle 0 false; RGens 1;
     RNext [1; 2] 5 (Some [5]); RNone; RNone].
Proof. vm_compute. reflexivity. Qed.
Print Assumptions iterator_is_a_snapshot_under_permitted_changes.

Example overflow_boundary :
  pm_insert [1] (pm_set [1] MAXC (Some (pn_fresh [1]))) = None
  /\ pm_count [1] (pm_set [1] MAXC (Some (pn_fresh [1]))) = MAXC
  /\ pm_wf (pm_set [1] MAXC (Some (pn_fresh [1]))) = true.
Proof. vm_compute. repeat split. Qed.
Print Assumptions overflow_boundary.

Example iterator_yields_snapshot_nonvacuous :
  let g := fst (s_insert [1; 2] [2] (fst (s_insert [3] [3] (fst (s_insert [1; 1] [1] empty_sgen))))) in
  let g1 := fst (s_iter [1] g) in
  s_iter [1] g = (g1, RIter 0)
  /\ sg_yields 0 [ONext 0; OInsert [2] []; OInsert [1; 0] []; ODelete [3]; ONext 0; ODeletePrefix []; ONext 0; ONext 0] g1
     = [Some [1; 1]; Some [1; 2]; None; None].
Proof. vm_compute. split; reflexivity. Qed.
Print Assumptions iterator_yields_snapshot_nonvacuous.
