(** C15 - iterator locks and entry handles protect contract state invariants.
    Property theorems only: each is closed by [exact] and followed by [Print Assumptions].

    [pmap] models [PrefixesMap] (reference-counted byte trie of locked prefixes), the
    machine [m_step] of Locks.v models the lock checks of [MutableTrie::{insert,delete,
    delete_prefix,iter,delete_iter}], entries and lazily advancing iterators; [s_step] is
    its specification (iterators are snapshots; locked = under the prefix of a live
    iterator).  "Reachable" = the state after an arbitrary history from the initial state. *)
From Coq Require Import NArith List Bool Sorted.
From CB Require Import Trie.Radix.
From CB Require Import Trie.RadixProofs.
From CB Require Import Trie.PrefixMap.
From CB Require Import Trie.PrefixMapProofs.
From CB Require Import Trie.Locks.
From CB Require Import Trie.LocksProofs.
Import ListNotations.
Local Open Scope N_scope.

(** ** The prefix map is a multiset of byte strings, for every history of
    insert / delete / check_has_no_prefix / is_or_has_prefix *)
Theorem prefixmap_refines_multiset : forall ops : list pop,
  snd (pm_run ops None) = snd (bag_run ops [])
  /\ pm_wf (fst (pm_run ops None)) = true
  /\ forall k, pm_count k (fst (pm_run ops None)) = bag_count k (fst (bag_run ops [])).
Proof.
  exact (fun ops => match pm_run_refines ops None [] PInv_init with
                    | conj a (conj b c) => conj a (conj b c) end).
Qed.
Print Assumptions prefixmap_refines_multiset.

Theorem check_has_no_prefix_spec : forall k m,
  pm_no_prefix k m = true <-> (forall p, is_prefix p k = true -> pm_count p m = 0).
Proof. exact pm_no_prefix_spec. Qed.
Print Assumptions check_has_no_prefix_spec.

Theorem is_or_has_prefix_spec : forall k m,
  pm_wf m = true ->
  (pm_iohp k m = true <->
   exists p, 0 < pm_count p m /\ (is_prefix p k = true \/ is_prefix k p = true)).
Proof. exact pm_iohp_spec. Qed.
Print Assumptions is_or_has_prefix_spec.

Theorem insert_adds_one : forall k m m' k',
  pm_wf m = true -> pm_insert k m = Some m' ->
  pm_wf m' = true
  /\ pm_count k' m' = if list_eqb k k' then pm_count k' m + 1 else pm_count k' m.
Proof. exact (fun k m m' k' H E => conj (pm_wf_insert k m m' H E) (pm_count_insert k m m' k' H E)). Qed.
Print Assumptions insert_adds_one.

Theorem delete_removes_one : forall k m k',
  pm_wf m = true ->
  snd (pm_delete k m) = negb (pm_count k m =? 0)
  /\ pm_count k' (fst (pm_delete k m)) = (if list_eqb k k' then pm_count k' m - 1 else pm_count k' m)
  /\ pm_wf (fst (pm_delete k m)) = true.
Proof. exact pm_delete_spec. Qed.
Print Assumptions delete_removes_one.

(** A count of [u32::MAX] makes the insertion fail (and only that does); the map is not
    changed and the count does not wrap. *)
Theorem refcount_overflow_is_error : forall k m,
  pm_wf m = true -> (pm_insert k m = None <-> pm_count k m = MAXC).
Proof. exact pm_insert_none. Qed.
Print Assumptions refcount_overflow_is_error.

Theorem iter_overflow_reports_too_many : forall ops g rest k t,
  m_exec ops m_init = g :: rest -> g_root g = Some t -> has_prefix (nib k) t = true ->
  pm_count k (g_locks g) = MAXC -> m_iter k g = (g, RTooMany).
Proof. exact overflow_is_error_reachable. Qed.
Print Assumptions iter_overflow_reports_too_many.

(** ** While an iterator over [p] is alive, creating or deleting a key at or under [p],
    and deleting a prefix that is above, at or under [p], is refused and the whole
    generation record (tree, entries, locks, handles, iterators) is unchanged *)
Theorem locked_refused_unchanged : forall ops g rest p k v,
  m_exec ops m_init = g :: rest -> In p (live_roots (g_iters g)) ->
  (is_prefix p k = true -> m_insert k v g = (g, RLocked) /\ m_delete k g = (g, RLocked))
  /\ (is_prefix p k = true \/ is_prefix k p = true -> m_delete_prefix k g = (g, RLocked)).
Proof. exact locked_refused_reachable. Qed.
Print Assumptions locked_refused_unchanged.

(** ** Deleting an iterator releases exactly one reference of its own prefix *)
Theorem delete_iter_releases_own_lock_only : forall ops g rest i p x,
  m_exec ops m_init = g :: rest -> nth_error (g_iters g) i = Some (Some (p, x)) ->
  exists l',
    m_deliter i g = (with_locks_iters g l' (set_nth i None (g_iters g)), RBool true)
    /\ forall q, pm_count q l' = if list_eqb p q then pm_count q (g_locks g) - 1 else pm_count q (g_locks g).
Proof. exact deliter_releases_reachable. Qed.
Print Assumptions delete_iter_releases_own_lock_only.

(** ** In every reachable state the lock map is exactly the multiset of the prefixes of
    the live iterators, and the keys under a live prefix are still there *)
Theorem locks_are_live_iterators : forall ops g rest,
  m_exec ops m_init = g :: rest ->
  exists s srest, s_exec ops s_init = s :: srest
    /\ (forall p, pm_count p (g_locks g) = s_count p s)
    /\ live_roots (g_iters g) = live_roots (s_iters s)
    /\ (forall p, In p (live_roots (s_iters s)) -> is_nil (a_iterate p (s_map s)) = false).
Proof.
  exact (fun ops g rest H =>
    match reachable_R ops g rest H with
    | ex_intro _ s (ex_intro _ srest (conj E (conj HR _))) =>
        ex_intro _ s (ex_intro _ srest
          (conj E (conj (R_locks g s HR) (conj (iter_roots_agree _ _ _ (R_iters g s HR)) (R_live g s HR)))))
    end).
Qed.
Print Assumptions locks_are_live_iterators.

(** ** An iterator yields exactly the snapshot taken at its creation.  On the
    specification machine: after [iter k] returned iterator [i] in a generation whose map
    is sorted (true in every reachable state), for EVERY list of further operations of that
    generation that does not delete iterator [i] - inserts, deletes, prefix deletes (refused
    or not), other iterators, handle use - the results of the [ONext i] operations are,
    in order, the keys under [k] at creation time in ascending order, then "exhausted"
    for ever.  By [history_refines] (Props/C03.v) the model machine, whose iterators walk
    the current tree lazily like the implementation's, returns the same for every history. *)
Theorem iterator_yields_snapshot : forall g k g1 i ops,
  StronglySorted (fun a b => lex_ltb (fst a) (fst b) = true) (s_map g) ->
  s_iter k g = (g1, RIter i) -> Forall (not_deliter i) ops ->
  sg_yields i ops g1 =
  snapshot_prefix (length (sg_yields i ops g1)) (map fst (a_iterate k (s_map g))).
Proof. exact iterator_snapshot. Qed.
Print Assumptions iterator_yields_snapshot.

(** ** A handle to a deleted entry is invalid for every later read, set and get_mut *)
Theorem handle_to_deleted_entry_invalid : forall k g e h v,
  lookup_root (nib k) (g_root g) = Some e -> snd (m_delete k g) <> RLocked ->
  nth_error (g_handles g) h = Some e ->
  let g' := fst (m_delete k g) in
  m_read h g' = (g', RVal None) /\ m_set h v g' = (g', RBool false) /\ m_mut h v g' = (g', RVal None).
Proof. exact deleted_entry_invalid. Qed.
Print Assumptions handle_to_deleted_entry_invalid.

(** ** Non-vacuity *)
Example nested_and_equal_prefixes :
  m_run [OInsert [1; 2] [9]; OInsert [1; 3] [8]; OInsert [2] [7];
         OIter [1]; OIter [1]; OIter [1; 2]; OIter [];
         OInsert [1; 2; 0] []; ODelete [2]; ODeletePrefix [1; 2]; ODelIter 3; ODelete [2];
         ODelIter 0; OInsert [1; 5] []; ODelIter 1; ODelIter 2; OInsert [1; 5] [];
         ONext 0] m_init
  = [RHandle 0 false; RHandle 1 false; RHandle 2 false;
     RIter 0; RIter 1; RIter 2; RIter 3;
     RLocked; RLocked; RLocked; RBool true; RBool true;
     RBool true; RLocked; RBool true; RBool true; RHandle 3 false;
     RSkip].
Proof. vm_compute. reflexivity. Qed.
Print Assumptions nested_and_equal_prefixes.

Example iterator_is_a_snapshot_under_permitted_changes :
  m_run [OInsert [1; 1] [1]; OInsert [1; 2] [2]; OInsert [3] [3];
         OIter [1]; ONext 0; OInsert [2] []; ODelete [3]; OSet 1 [5]; ONewGen; OInsert [1; 0] []; ONormalize 0;
         ONext 0; ONext 0; ONext 0] m_init
  = [RHandle 0 false; RHandle 1 false; RHandle 2 false;
     RIter 0; RNext [1; 1] 3 (Some [1]); RHandle 4 false; RBool true; RBool true; RGens 2; RHandle 0 false; RGens 1;
     RNext [1; 2] 5 (Some [5]); RNone; RNone].
Proof. vm_compute. reflexivity. Qed.
Print Assumptions iterator_is_a_snapshot_under_permitted_changes.

Example overflow_boundary :
  pm_insert [1] (pm_set [1] MAXC (Some (pn_fresh [1]))) = None
  /\ pm_count [1] (pm_set [1] MAXC (Some (pn_fresh [1]))) = MAXC
  /\ pm_wf (pm_set [1] MAXC (Some (pn_fresh [1]))) = true.
Proof. vm_compute. repeat split. Qed.
Print Assumptions overflow_boundary.

Example iterator_yields_snapshot_nonvacuous :
  let g := fst (s_insert [1; 2] [2] (fst (s_insert [3] [3] (fst (s_insert [1; 1] [1] empty_sgen))))) in
  let g1 := fst (s_iter [1] g) in
  s_iter [1] g = (g1, RIter 0)
  /\ sg_yields 0 [ONext 0; OInsert [2] []; OInsert [1; 0] []; ODelete [3]; ONext 0; ODeletePrefix []; ONext 0; ONext 0] g1
     = [Some [1; 1]; Some [1; 2]; None; None].
Proof. vm_compute. split; reflexivity. Qed.
Print Assumptions iterator_yields_snapshot_nonvacuous.
