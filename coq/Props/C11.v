(** C11 - property theorems only.  Each is closed by [exact] and followed by [Print Assumptions].

    Scope (see design/C11.md): completeness of the inner-product argument, of the range proof and of
    the set (non-)membership proofs for ALL witnesses, randomness and challenges; the exact
    arithmetic of the derived statements; the verifier as an explicit conjunction of equations.
    Soundness against arbitrary provers is computational (discrete log) and is NOT claimed. *)
From Coq Require Import ZArith List Bool InitialRing.
From CB Require Import Crypto.RangeStmt Crypto.RangeStmtProofs.
From CB Require Import Crypto.BpAlg Crypto.Ipa Crypto.RangeProof Crypto.SetProof Crypto.BpTheorems.
From CB Require Import Crypto.Transcript Crypto.BpTranscript Crypto.BpTranscriptProofs.
Import ListNotations.
Local Open Scope Z_scope.

(** * The arithmetic heart of "exactly the range" *)

Theorem bits_iff_in_range : forall v n, 0 <= v ->
  ((had_zero (bits v n) (aR_of (bits v n)) /\ idot (bits v n) (pow2s n) = v) <-> v < 2 ^ Z.of_nat n).
Proof. exact bits_iff_in_range_Z. Qed.
Print Assumptions bits_iff_in_range.

Theorem bits_iff_in_range_mod_r : forall r v n, 2 ^ 65 < r -> 0 <= v < r -> (n <= 64)%nat ->
  ((had_zero (bits v n) (aR_of (bits v n)) /\ idot (bits v n) (pow2s n) mod r = v mod r)
   <-> v < 2 ^ Z.of_nat n).
Proof. exact bits_iff_in_range_field. Qed.
Print Assumptions bits_iff_in_range_mod_r.

(** * a <= b : the pair the verifier range-checks lies in [0,2^n)^2 iff the statement is true *)
Theorem leq_statement_exact : forall r n a b,
  2 ^ 65 < r -> 0 <= n <= 64 -> 0 <= a < W64 -> 0 <= b < W64 ->
  (pair_in_range n (leq_committed r a b) <-> (a <= b /\ b - a < 2 ^ n /\ a < 2 ^ n)).
Proof. exact leq_statement_exact_l. Qed.
Print Assumptions leq_statement_exact.

Theorem leq_statement_exact_b_in_range : forall r n a b,
  2 ^ 65 < r -> 0 <= n <= 64 -> 0 <= a < W64 -> 0 <= b < 2 ^ n ->
  (pair_in_range n (leq_committed r a b) <-> a <= b).
Proof. exact leq_statement_given_b_small. Qed.
Print Assumptions leq_statement_exact_b_in_range.

(** the honest prover's tuple (u64 subtraction, wrapping build) coincides with the committed tuple and
    is in range iff the statement is true; the checked build has no tuple at all when a > b (O5) *)
Theorem leq_prover_exact : forall r n a b,
  2 ^ 65 < r -> 0 <= n <= 64 -> 0 <= a < W64 -> 0 <= b < W64 ->
  (leq_accepts_wrapping r n a b = true <-> (a <= b /\ b - a < 2 ^ n /\ a < 2 ^ n))
  /\ (forall p, leq_prover_checked a b = Some p <-> (a <= b /\ p = (b - a, a))).
Proof. intros; split; [apply leq_accepts_wrapping_iff; assumption | apply leq_prover_checked_spec]. Qed.
Print Assumptions leq_prover_exact.

Theorem leq_boundary_cases : forall r n a,
  2 ^ 65 < r -> 0 <= n <= 64 -> 0 <= a < 2 ^ n ->
  leq_accepts_wrapping r n a a = true
  /\ (a + 1 < 2 ^ n -> leq_accepts_wrapping r n (a + 1) a = false
                      /\ leq_prover_checked (a + 1) a = None
                      /\ leq_accepts_wrapping r n a (a + 1) = true).
Proof. exact leq_boundaries. Qed.
Print Assumptions leq_boundary_cases.

(** * v in [a, b) : offsets by 2^64 in the scalar field *)
Theorem in_range_statement_exact : forall r v a b,
  2 ^ 65 < r -> 0 <= v < W64 -> 0 <= a < W64 -> 0 <= b < W64 ->
  (pair_in_range 64 (in_range_committed r v a b) <-> a <= v < b).
Proof. exact in_range_statement_exact_l. Qed.
Print Assumptions in_range_statement_exact.

Theorem in_range_prover_exact : forall r v a b,
  2 ^ 65 < r -> 0 <= v < W64 -> 0 <= a < W64 -> 0 <= b < W64 ->
  (in_range_accepts r v a b = true <-> a <= v < b).
Proof. exact in_range_accepts_iff. Qed.
Print Assumptions in_range_prover_exact.

Theorem in_range_boundary_cases : forall r a b,
  2 ^ 65 < r -> 0 <= a < W64 -> 0 <= b < W64 ->
  (a < b -> in_range_accepts r a a b = true /\ in_range_accepts r (b - 1) a b = true)
  /\ in_range_accepts r b a b = false
  /\ (a = b -> forall v, 0 <= v < W64 -> in_range_accepts r v a b = false)
  /\ (0 < a -> in_range_accepts r (a - 1) a b = false).
Proof. exact in_range_boundaries. Qed.
Print Assumptions in_range_boundary_cases.

(** * padding of sets to a power of two keeps the statement *)
Theorem set_padding_preserves_membership : forall A (l : list A) v,
  (In v (pad_pow2 l) <-> In v l) /\ (~ In v (pad_pow2 l) <-> ~ In v l).
Proof. intros A l v. pose proof (pad_pow2_In A l v). tauto. Qed.
Print Assumptions set_padding_preserves_membership.

Theorem set_padding_shape : forall A (l : list A), l <> [] ->
  length (pad_pow2 l) = next_pow2 (length l) /\ is_pow2 (length (pad_pow2 l))
  /\ (length l <= length (pad_pow2 l) < 2 * length l)%nat
  /\ firstn (length l) (pad_pow2 l) = l.
Proof.
  intros A l H. destruct (pad_pow2_length A l H) as [E [P B]].
  repeat split; try assumption; try apply B. apply pad_pow2_prefix.
Qed.
Print Assumptions set_padding_shape.

(** * The protocols, over every commutative ring F and F-module G satisfying [bp_laws]
    (challenges are arbitrary elements; where the code inverts one, its inverse is a separate
    element with u * ui = 1). *)

(** inner-product argument: for vectors of length 2^k, all generators and all challenges, the honest
    transcript satisfies the verifier's check, and has one (L,R) pair per round *)
Theorem ipa_complete : forall Ops, bp_laws Ops -> forall us Gs Hs Q a b,
  inv_ok Ops us ->
  length a = Nat.pow 2 (length us) -> length b = Nat.pow 2 (length us) ->
  length Gs = Nat.pow 2 (length us) -> length Hs = Nat.pow 2 (length us) ->
  forall lr fa fb, ipa_prove Ops us Gs Hs Q a b = (lr, fa, fb) ->
  ipa_check Ops us Gs Hs Q (ipa_statement Ops a b Gs Hs Q) lr fa fb /\ length lr = length us.
Proof. exact ipa_complete_l. Qed.
Print Assumptions ipa_complete.

(** the single multi-exponentiation evaluated by [verify_inner_product_with_scalars] is the neutral
    element iff the textbook check holds for H' = c o H and P' = the given combination *)
Theorem ipa_verifier_single_multiexp : forall Ops, bp_laws Ops -> forall us c Gs Hs Q Xs eG eH eQ eX lr a b,
  length Gs = Nat.pow 2 (length us) -> length Hs = length Gs -> length c = length Gs ->
  length eG = length Gs -> length eH = length Gs ->
  (ipa_code_lhs Ops us c Gs Hs Q Xs eG eH eQ eX lr a b = o_g0 Ops
   <-> ipa_check Ops us Gs (gvmul Ops c Hs) Q
         (o_gadd Ops (o_gadd Ops (o_gadd Ops (msum Ops eG Gs) (msum Ops eH Hs)) (o_smul Ops eQ Q)) (msum Ops eX Xs))
         lr a b).
Proof. exact ipa_code_form_l. Qed.
Print Assumptions ipa_verifier_single_multiexp.

(** the verifier returns Ok iff an explicit conjunction of two group equations holds (and the
    challenges it inverts are invertible) - this is what "altered in any component" reduces to *)
Theorem verify_is_equations : forall Ops, bp_laws Ops -> forall Gs Hs B Bt p Vterm delta eG eH y yi x w us,
  bp_verdict Ops Gs Hs B Bt p Vterm delta eG eH y yi x w us = VOk
  <-> ((bp_eq1_lhs Ops B Bt p = bp_eq1_rhs Ops B p Vterm delta x
        /\ bp_eq2_lhs Ops Gs Hs B Bt p eG eH yi x w us = o_g0 Ops)
       /\ o_fmul Ops y yi = o_f1 Ops /\ inv_ok Ops us).
Proof. exact verdict_ok_iff_l. Qed.
Print Assumptions verify_is_equations.

(** range proof completeness: every bit width n, batch size m = length vs with n*m = 2^k, all
    blinding scalars, all challenges; commitments are to the values represented by the n low bits
    (equal to v iff 0 <= v < 2^n by [bits_iff_in_range]) *)
Theorem range_complete : forall Ops, bp_laws Ops -> forall n vs rs Gs Hs B Bt sL sR at_ st t1t t2t y yi z x w us,
  length rs = length vs ->
  length Gs = Nat.pow 2 (length us) -> length Gs = (n * length vs)%nat -> length Hs = length Gs ->
  length sL = length Gs -> length sR = length Gs ->
  o_fmul Ops y yi = o_f1 Ops -> inv_ok Ops us ->
  range_verdict Ops n (vzip (commit Ops B Bt) (map (fval Ops n) vs) rs) Gs Hs B Bt
    (range_prove Ops n vs rs Gs Hs B Bt sL sR at_ st t1t t2t y yi z x w us) y yi z x w us = VOk.
Proof. exact range_complete_p. Qed.
Print Assumptions range_complete.

(** the same against commitments to the canonical images of the values ([gen_phiZ] = the unique ring
    homomorphism Z -> F, i.e. [scalar_from_u64]), when every value is in [0, 2^n) *)
Theorem range_complete_in_range : forall Ops, bp_laws Ops -> forall n vs rs Gs Hs B Bt sL sR at_ st t1t t2t y yi z x w us,
  Forall (fun v => 0 <= v < 2 ^ Z.of_nat n) vs ->
  length rs = length vs ->
  length Gs = Nat.pow 2 (length us) -> length Gs = (n * length vs)%nat -> length Hs = length Gs ->
  length sL = length Gs -> length sR = length Gs ->
  o_fmul Ops y yi = o_f1 Ops -> inv_ok Ops us ->
  range_verdict Ops n
    (vzip (commit Ops B Bt) (map (gen_phiZ (o_f0 Ops) (o_f1 Ops) (o_fadd Ops) (o_fmul Ops) (o_fopp Ops)) vs) rs)
    Gs Hs B Bt
    (range_prove Ops n vs rs Gs Hs B Bt sL sR at_ st t1t t2t y yi z x w us) y yi z x w us = VOk.
Proof. exact range_complete_in_range_p. Qed.
Print Assumptions range_complete_in_range.

(** the value committed for arbitrary v is the image of v mod 2^n: outside the range it is not v *)
Theorem committed_value_is_low_bits : forall Ops, bp_laws Ops -> forall n v,
  fval Ops n v = gen_phiZ (o_f0 Ops) (o_f1 Ops) (o_fadd Ops) (o_fmul Ops) (o_fopp Ops) (v mod 2 ^ Z.of_nat n).
Proof. exact fval_canonical_p. Qed.
Print Assumptions committed_value_is_low_bits.

(** [verify_scalars] as coded (floor(log2 i), u_sq table, s_i = s_(i-2^lg) u_sq[k-1-lg]) equals [svec] *)
Theorem verify_scalars_iterative_is_svec : forall Ops, bp_laws Ops -> forall us,
  inv_ok Ops us -> svec_iter Ops us = svec Ops us.
Proof. exact svec_iter_eq_svec_p. Qed.
Print Assumptions verify_scalars_iterative_is_svec.

(** set membership: a proof exists iff v is in the set, and it verifies (sets of every size >= 1 after
    padding; the padded length must be the number of generators = 2^k) *)
Theorem set_member_complete : forall Ops, bp_laws Ops -> forall set v vr Gs Hs B Bt sL sR at_ st t1t t2t y yi z x w us,
  In v set ->
  length Gs = Nat.pow 2 (length us) -> length Gs = length (pad_pow2 set) -> length Hs = length Gs ->
  length sL = length Gs -> length sR = length Gs ->
  o_fmul Ops y yi = o_f1 Ops -> inv_ok Ops us ->
  exists p, mem_prove Ops set v vr Gs Hs B Bt sL sR at_ st t1t t2t y yi z x w us = Some p
    /\ mem_verdict Ops set (commit Ops B Bt v vr) Gs Hs B Bt p y yi z x w us = VOk.
Proof. exact mem_complete_p. Qed.
Print Assumptions set_member_complete.

Theorem set_member_no_honest_proof_outside : forall Ops, bp_laws Ops -> forall set v vr Gs Hs B Bt sL sR at_ st t1t t2t y yi z x w us,
  ~ In v set -> mem_prove Ops set v vr Gs Hs B Bt sL sR at_ st t1t t2t y yi z x w us = None.
Proof. exact mem_no_proof_p. Qed.
Print Assumptions set_member_no_honest_proof_outside.

Theorem set_nonmember_complete : forall Ops, bp_laws Ops -> forall set v vr invs Gs Hs B Bt sL sR at_ st t1t t2t y yi z x w us,
  ~ In v set ->
  Forall2 (fun si iv => o_fmul Ops (o_fsub Ops v si) iv = o_f1 Ops) (pad_pow2 set) invs ->
  length Gs = Nat.pow 2 (length us) -> length Gs = length (pad_pow2 set) -> length Hs = length Gs ->
  length sL = length Gs -> length sR = length Gs ->
  o_fmul Ops y yi = o_f1 Ops -> inv_ok Ops us ->
  exists p, nonmem_prove Ops set v vr invs Gs Hs B Bt sL sR at_ st t1t t2t y yi z x w us = Some p
    /\ nonmem_verdict Ops set (commit Ops B Bt v vr) Gs Hs B Bt p y yi z x w us = VOk.
Proof. exact nonmem_complete_p. Qed.
Print Assumptions set_nonmember_complete.

Theorem set_nonmember_no_honest_proof_inside : forall Ops, bp_laws Ops -> forall set v vr invs Gs Hs B Bt sL sR at_ st t1t t2t y yi z x w us,
  In v set -> nonmem_prove Ops set v vr invs Gs Hs B Bt sL sR at_ st t1t t2t y yi z x w us = None.
Proof. exact nonmem_no_proof_p. Qed.
Print Assumptions set_nonmember_no_honest_proof_inside.

(** * Fiat-Shamir: every challenge is the hash of a frame that injectively contains every earlier
    prover message (both transcript implementations; [same_shape] = same labels and payload lengths,
    which holds for any two proofs checked in one context because points and scalars have fixed-width
    encodings).  Accepting an altered message with unchanged challenges therefore exhibits an explicit
    SHA3 collision. *)

(** the string hashed for u_j determines L_0..L_j and R_0..R_j *)
Theorem ipa_challenges_bind_L_and_R : forall k st lrs lrs' j,
  same_shape (ipa_items lrs j) (ipa_items lrs' j) ->
  ipa_state_at k st lrs j = ipa_state_at k st lrs' j ->
  firstn (S j) lrs = firstn (S j) lrs'.
Proof. exact ipa_challenges_bind_L_and_R_l. Qed.
Print Assumptions ipa_challenges_bind_L_and_R.

Theorem ipa_alter_gives_collision : forall (H : bytes -> bytes) k st lrs lrs' j,
  same_shape (ipa_items lrs j) (ipa_items lrs' j) ->
  firstn (S j) lrs <> firstn (S j) lrs' ->
  H (ipa_state_at k st lrs j) = H (ipa_state_at k st lrs' j) ->
  exists s s', s <> s' /\ H s = H s'.
Proof. exact ipa_alter_gives_collision_l. Qed.
Print Assumptions ipa_alter_gives_collision.

(** range / set proofs: the string hashed for u_j determines the public inputs (generators, keys, bit
    width, commitments / set), A, S, T_1, T_2, t_x, tx~, e~ and all (L,R) pairs up to round j *)
Theorem range_challenges_bind_all_commitments : forall k st pre pre' p p' j,
  List.length pre = List.length pre' ->
  same_shape (items_at pre p (SU j)) (items_at pre' p' (SU j)) ->
  state_at k st pre p (SU j) = state_at k st pre' p' (SU j) ->
  pre = pre' /\ mA p = mA p' /\ mS p = mS p' /\ mT1 p = mT1 p' /\ mT2 p = mT2 p'
  /\ mtx p = mtx p' /\ mtxt p = mtxt p' /\ met p = met p'
  /\ firstn (S j) (mlr p) = firstn (S j) (mlr p').
Proof. exact range_challenges_bind_all_commitments_l. Qed.
Print Assumptions range_challenges_bind_all_commitments.

(** y (and z) bind the public inputs, A, S; x additionally T_1, T_2; w additionally t_x, tx~, e~ *)
Theorem early_challenges_bind : forall k st pre pre' p p',
  List.length pre = List.length pre' ->
  (same_shape (items_at pre p SY) (items_at pre' p' SY) ->
   state_at k st pre p SY = state_at k st pre' p' SY ->
   pre = pre' /\ mA p = mA p' /\ mS p = mS p')
  /\ (same_shape (items_at pre p SX) (items_at pre' p' SX) ->
      state_at k st pre p SX = state_at k st pre' p' SX ->
      pre = pre' /\ mA p = mA p' /\ mS p = mS p' /\ mT1 p = mT1 p' /\ mT2 p = mT2 p')
  /\ (same_shape (items_at pre p SW) (items_at pre' p' SW) ->
      state_at k st pre p SW = state_at k st pre' p' SW ->
      pre = pre' /\ mA p = mA p' /\ mS p = mS p' /\ mT1 p = mT1 p' /\ mT2 p = mT2 p'
      /\ mtx p = mtx p' /\ mtxt p = mtxt p' /\ met p = met p').
Proof. exact early_challenges_bind_l. Qed.
Print Assumptions early_challenges_bind.

Theorem alter_gives_collision : forall (H : bytes -> bytes) k st pre pre' p p' s,
  same_shape (items_at pre p s) (items_at pre' p' s) ->
  items_at pre p s <> items_at pre' p' s ->
  H (state_at k st pre p s) = H (state_at k st pre' p' s) ->
  exists s1 s2, s1 <> s2 /\ H s1 = H s2.
Proof. exact alter_gives_collision_l. Qed.
Print Assumptions alter_gives_collision.

(** non-vacuity: two same-shape inner-product transcripts that differ only in R_0 are hashed differently *)
Example transcript_binding_nonvacuous :
  same_shape (ipa_items [([1%N], [2%N])] 0) (ipa_items [([1%N], [3%N])] 0)
  /\ ipa_state_at Legacy [] [([1%N], [2%N])] 0 <> ipa_state_at Legacy [] [([1%N], [3%N])] 0
  /\ ipa_state_at V1 [] [([1%N], [2%N])] 0 <> ipa_state_at V1 [] [([1%N], [3%N])] 0.
Proof. split; [split; reflexivity|]. split; vm_compute; discriminate. Qed.
Print Assumptions transcript_binding_nonvacuous.

(** non-vacuity of [bp_laws] and of the hypotheses of the completeness theorems: the integers as a
    module over themselves, challenges +-1 (the only units), n = 2, m = 2, values 3 and 1; the
    model verifier accepts the model proof and rejects it when t_x is off by one *)
Example laws_nonvacuous :
  bp_laws ZOps /\ inv_ok ZOps [(-1, -1); (1, 1)]
  /\ (let p := range_prove ZOps 2 [3; 1] [7; 9] [2; 3; 5; 7] [11; 13; 17; 19] 23 29
                 [1; 2; 3; 4] [5; 6; 7; 8] 31 37 41 43 (-1) (-1) 10 3 4 [(-1, -1); (1, 1)] in
      let Vs := vzip (commit ZOps 23 29) (map (fval ZOps 2) [3; 1]) [7; 9] in
      range_verdict ZOps 2 Vs [2; 3; 5; 7] [11; 13; 17; 19] 23 29 p (-1) (-1) 10 3 4 [(-1, -1); (1, 1)] = VOk
      /\ map (fval ZOps 2) [3; 1] = [3; 1]
      /\ range_verdict ZOps 2 Vs [2; 3; 5; 7] [11; 13; 17; 19] 23 29
           (mkProof ZOps (pA _ p) (pS _ p) (pT1 _ p) (pT2 _ p) (ptx _ p + 1) (ptxt _ p) (pet _ p) (plr _ p) (pa _ p) (pb _ p))
           (-1) (-1) 10 3 4 [(-1, -1); (1, 1)] = VFirst)
  /\ match mem_prove ZOps [5; 6; 7] 7 100 [2; 3; 5; 7] [11; 13; 17; 19] 23 29
                  [1; 2; 3; 4] [5; 6; 7; 8] 31 37 41 43 (-1) (-1) 10 3 4 [(-1, -1); (1, 1)] with
     | Some p => mem_verdict ZOps [5; 6; 7] (commit ZOps 23 29 7 100) [2; 3; 5; 7] [11; 13; 17; 19] 23 29 p
                   (-1) (-1) 10 3 4 [(-1, -1); (1, 1)] = VOk
     | None => False
     end.
Proof.
  split; [exact ZOps_laws|]. split; [repeat constructor|]. split.
  - vm_compute. repeat split; reflexivity.
  - vm_compute. reflexivity.
Qed.
Print Assumptions laws_nonvacuous.

(** non-vacuity: the BLS12-381 scalar order satisfies the hypothesis on r, and boundary instances *)
Example r_bls_ok :
  2 ^ 65 < 0x73eda753299d7d483339d80809a1d80553bda402fffe5bfeffffffff00000001
  /\ in_range_accepts 0x73eda753299d7d483339d80809a1d80553bda402fffe5bfeffffffff00000001 5 5 6 = true
  /\ in_range_accepts 0x73eda753299d7d483339d80809a1d80553bda402fffe5bfeffffffff00000001 6 5 6 = false
  /\ in_range_accepts 0x73eda753299d7d483339d80809a1d80553bda402fffe5bfeffffffff00000001 4 5 6 = false
  /\ leq_accepts_wrapping 0x73eda753299d7d483339d80809a1d80553bda402fffe5bfeffffffff00000001 8 255 255 = true
  /\ leq_accepts_wrapping 0x73eda753299d7d483339d80809a1d80553bda402fffe5bfeffffffff00000001 8 200 199 = false
  /\ pad_pow2 [5; 6; 7] = [5; 6; 7; 7] /\ bits 5 4 = [1; 0; 1; 0].
Proof. vm_compute. repeat split; reflexivity. Qed.
Print Assumptions r_bls_ok.
