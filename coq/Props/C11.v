(** C11 - property theorems only.  Each is closed by [exact] and followed by [Print Assumptions].

    Scope (see design/C11.md): completeness of the inner-product argument, of the range proof and of
    the set (non-)membership proofs for ALL witnesses, randomness and challenges; the exact
    arithmetic of the derived statements; the verifier as an explicit conjunction of equations.
    Soundness against arbitrary provers is computational (discrete log) and is NOT claimed. *)
From Coq Require Import ZArith List Bool.
From CB Require Import Crypto.RangeStmt Crypto.RangeStmtProofs.
Import ListNotations.
Local Open Scope Z_scope.

(** * The arithmetic heart of "exactly the range" *)

Theorem bits_iff_in_range : forall v n, 0 <= v ->
  ((had_zero (bits v n) (aR_of (bits v n)) /\ idot (bits v n) (pow2s n) = v) <-> v < 2 ^ Z.of_nat n).
Proof. exact bits_iff_in_range_Z. Qed.
Print Assumptions bits_iff_in_range.

Theorem bits_iff_in_range_mod_r : forall r v n, 2 ^ 65 < r -> 0 <= v < r -> (n <= 64)%nat ->
  ((had_zero (bits v n) (aR_of (bits v n)) /\ idot (bits v n) (pow2s n) mod r = v mod r)
   <-> v < 2 ^ Z.of_nat n).
Proof. exact bits_iff_in_range_field. Qed.
Print Assumptions bits_iff_in_range_mod_r.

(** * a <= b : the pair the verifier range-checks lies in [0,2^n)^2 iff the statement is true *)
Theorem leq_statement_exact : forall r n a b,
  2 ^ 65 < r -> 0 <= n <= 64 -> 0 <= a < W64 -> 0 <= b < W64 ->
  (pair_in_range n (leq_committed r a b) <-> (a <= b /\ b - a < 2 ^ n /\ a < 2 ^ n)).
Proof. exact leq_statement_exact_l. Qed.
Print Assumptions leq_statement_exact.

Theorem leq_statement_exact_b_in_range : forall r n a b,
  2 ^ 65 < r -> 0 <= n <= 64 -> 0 <= a < W64 -> 0 <= b < 2 ^ n ->
  (pair_in_range n (leq_committed r a b) <-> a <= b).
Proof. exact leq_statement_given_b_small. Qed.
Print Assumptions leq_statement_exact_b_in_range.

(** the honest prover's tuple (u64 subtraction, wrapping build) coincides with the committed tuple and
    is in range iff the statement is true; the checked build has no tuple at all when a > b (O5) *)
Theorem leq_prover_exact : forall r n a b,
  2 ^ 65 < r -> 0 <= n <= 64 -> 0 <= a < W64 -> 0 <= b < W64 ->
  (leq_accepts_wrapping r n a b = true <-> (a <= b /\ b - a < 2 ^ n /\ a < 2 ^ n))
  /\ (forall p, leq_prover_checked a b = Some p <-> (a <= b /\ p = (b - a, a))).
Proof. intros; split; [apply leq_accepts_wrapping_iff; assumption | apply leq_prover_checked_spec]. Qed.
Print Assumptions leq_prover_exact.

Theorem leq_boundary_cases : forall r n a,
  2 ^ 65 < r -> 0 <= n <= 64 -> 0 <= a < 2 ^ n ->
  leq_accepts_wrapping r n a a = true
  /\ (a + 1 < 2 ^ n -> leq_accepts_wrapping r n (a + 1) a = false
                      /\ leq_prover_checked (a + 1) a = None
                      /\ leq_accepts_wrapping r n a (a + 1) = true).
Proof. exact leq_boundaries. Qed.
Print Assumptions leq_boundary_cases.

(** * v in [a, b) : offsets by 2^64 in the scalar field *)
Theorem in_range_statement_exact : forall r v a b,
  2 ^ 65 < r -> 0 <= v < W64 -> 0 <= a < W64 -> 0 <= b < W64 ->
  (pair_in_range 64 (in_range_committed r v a b) <-> a <= v < b).
Proof. exact in_range_statement_exact_l. Qed.
Print Assumptions in_range_statement_exact.

Theorem in_range_prover_exact : forall r v a b,
  2 ^ 65 < r -> 0 <= v < W64 -> 0 <= a < W64 -> 0 <= b < W64 ->
  (in_range_accepts r v a b = true <-> a <= v < b).
Proof. exact in_range_accepts_iff. Qed.
Print Assumptions in_range_prover_exact.

Theorem in_range_boundary_cases : forall r a b,
  2 ^ 65 < r -> 0 <= a < W64 -> 0 <= b < W64 ->
  (a < b -> in_range_accepts r a a b = true /\ in_range_accepts r (b - 1) a b = true)
  /\ in_range_accepts r b a b = false
  /\ (a = b -> forall v, 0 <= v < W64 -> in_range_accepts r v a b = false)
  /\ (0 < a -> in_range_accepts r (a - 1) a b = false).
Proof. exact in_range_boundaries. Qed.
Print Assumptions in_range_boundary_cases.

(** * padding of sets to a power of two keeps the statement *)
Theorem set_padding_preserves_membership : forall A (l : list A) v,
  (In v (pad_pow2 l) <-> In v l) /\ (~ In v (pad_pow2 l) <-> ~ In v l).
Proof. intros A l v. pose proof (pad_pow2_In A l v). tauto. Qed.
Print Assumptions set_padding_preserves_membership.

Theorem set_padding_shape : forall A (l : list A), l <> [] ->
  length (pad_pow2 l) = next_pow2 (length l) /\ is_pow2 (length (pad_pow2 l))
  /\ (length l <= length (pad_pow2 l) < 2 * length l)%nat
  /\ firstn (length l) (pad_pow2 l) = l.
Proof.
  intros A l H. destruct (pad_pow2_length A l H) as [E [P B]].
  repeat split; try assumption; try apply B. apply pad_pow2_prefix.
Qed.
Print Assumptions set_padding_shape.

(** non-vacuity: the BLS12-381 scalar order satisfies the hypothesis on r, and boundary instances *)
Example r_bls_ok :
  2 ^ 65 < 0x73eda753299d7d483339d80809a1d80553bda402fffe5bfeffffffff00000001
  /\ in_range_accepts 0x73eda753299d7d483339d80809a1d80553bda402fffe5bfeffffffff00000001 5 5 6 = true
  /\ in_range_accepts 0x73eda753299d7d483339d80809a1d80553bda402fffe5bfeffffffff00000001 6 5 6 = false
  /\ in_range_accepts 0x73eda753299d7d483339d80809a1d80553bda402fffe5bfeffffffff00000001 4 5 6 = false
  /\ leq_accepts_wrapping 0x73eda753299d7d483339d80809a1d80553bda402fffe5bfeffffffff00000001 8 255 255 = true
  /\ leq_accepts_wrapping 0x73eda753299d7d483339d80809a1d80553bda402fffe5bfeffffffff00000001 8 200 199 = false
  /\ pad_pow2 [5; 6; 7] = [5; 6; 7; 7] /\ bits 5 4 = [1; 0; 1; 0].
Proof. vm_compute. repeat split; reflexivity. Qed.
Print Assumptions r_bls_ok.
