(** C07 - property theorems only.  Everything is quantified over ALL scalar fields [K] (with
    [FieldLaws]) and ALL [K]-modules [M] (with [ModLaws]), all hash functions [H], all
    [scalar_from_bytes] maps [sfb] and all codecs with fixed-length injective encodings ([CodecLaws]).
    NOT theorems (see design/C07.md): knowledge soundness, zero knowledge, collision resistance. *)
From Coq Require Import ZArith NArith List String Bool.
From CB Require Import Crypto.Alg Crypto.AlgPairing Crypto.Transcript Crypto.TranscriptProofs Crypto.SigmaGeneric Crypto.SigmaCodec
  Crypto.Sigma_dlog Crypto.Sigma_dlogeq Crypto.Sigma_com_eq Crypto.Sigma_com_enc_eq Crypto.Sigma_com_mult
  Crypto.Sigma_aggregate_dlog Crypto.Sigma_enc_trans Crypto.Sigma_com_lin Crypto.Sigma_com_eq_diff Crypto.Sigma_com_ineq Crypto.Sigma_vcom_eq Crypto.Sigma_com_eq_sig Crypto.Sigma_dlogaggequal Crypto.Sigma_ps_sig_known
  Crypto.SigmaExec.
Import ListNotations.

(** * Generic algebra *)
Theorem sigma_complete : forall (K : FieldOps) (KL : FieldLaws K) (M : ModOps K) (ML : ModLaws M)
    sty (A : list (list M)) (w rho : list K) (c : K),
  List.length w = List.length rho ->
  m_reconstruct sty A (phi A w) c (m_respond sty c w rho) = m_commit A rho.
Proof. intros K KL M ML. exact sigma_complete_. Qed.
Print Assumptions sigma_complete.

Theorem sigma_special_sound : forall (K : FieldOps) (KL : FieldLaws K) (M : ModOps K) (ML : ModLaws M)
    sty (A : list (list M)) (y a : list M) (c c' : K) (z z' : list K),
  c <> c' -> List.length z = List.length z' -> List.length y = List.length A ->
  m_reconstruct sty A y c z = a -> m_reconstruct sty A y c' z' = a ->
  phi A (m_extract sty c c' z z') = y.
Proof. intros K KL M ML. exact sigma_special_sound_. Qed.
Print Assumptions sigma_special_sound.

Theorem response_injective : forall (K : FieldOps) (KL : FieldLaws K) (M : ModOps K) (ML : ModLaws M)
    sty (A : list (list M)) (y : list M) (c : K) (z z' : list K) (n : nat),
  (forall u v, List.length u = n -> List.length v = n -> phi A u = phi A v -> u = v) ->
  List.length z = n -> List.length z' = n -> List.length y = List.length A ->
  m_reconstruct sty A y c z = m_reconstruct sty A y c z' -> z = z'.
Proof. intros K KL M ML. exact response_injective_. Qed.
Print Assumptions response_injective.

(** the injectivity hypothesis is a genuine precondition: with the identity point as only base two
    different responses are accepted with the same commitment *)
Theorem response_not_injective_when_base_is_identity :
  forall (K : FieldOps) (KL : FieldLaws K) (M : ModOps K) (ML : ModLaws M) sty (y : M) (c : K),
  [F0 K] <> [F1 K] /\ m_reconstruct sty [[G0 M]] [y] c [F0 K] = m_reconstruct sty [[G0 M]] [y] c [F1 K].
Proof. intros K KL M ML. exact response_not_injective_degenerate. Qed.
Print Assumptions response_not_injective_when_base_is_identity.

(** * Fiat-Shamir: prove / verify *)
Theorem prove_verify_complete : forall (K : FieldOps) (H : bytes -> bytes) (sfb : bytes -> K) (P : proto K) rel rok,
  complete P rel rok ->
  forall k ctx s w r, rel s w -> rok s r ->
    exists pi st, prove H sfb P k ctx s w r = Some (pi, st) /\ verify H sfb P k ctx s pi = (true, st).
Proof. exact @prove_verify_complete_. Qed.
Print Assumptions prove_verify_complete.

Theorem verify_binds_transcript : forall (K : FieldOps) (H : bytes -> bytes) (sfb : bytes -> K) (P : proto K) k ctx s ch z,
  fst (verify H sfb P k ctx s (ch, z)) = true <->
  exists a, p_extract P s (sfb ch) z = Some a /\ ch = H (frame P k ctx s a).
Proof. exact @verify_binds_transcript_. Qed.
Print Assumptions verify_binds_transcript.

(** tamper rejection relative to collision resistance: one proof accepted for two statements (same
    context), or under two contexts of equal length, yields an explicit collision of H *)
Theorem statement_binding : forall (K : FieldOps) (H : bytes -> bytes) (sfb : bytes -> K) (P : proto K) k ok,
  public_prefix_free P k ok ->
  forall ctx s s' pi, ok s -> ok s' -> s <> s' ->
  fst (verify H sfb P k ctx s pi) = true -> fst (verify H sfb P k ctx s' pi) = true ->
  exists x x', x <> x' /\ H x = H x'.
Proof. exact @statement_binding_. Qed.
Print Assumptions statement_binding.

Theorem context_binding : forall (K : FieldOps) (H : bytes -> bytes) (sfb : bytes -> K) (P : proto K) k ctx ctx' s s' pi,
  List.length ctx = List.length ctx' -> ctx <> ctx' ->
  fst (verify H sfb P k ctx s pi) = true -> fst (verify H sfb P k ctx' s' pi) = true ->
  exists x x', x <> x' /\ H x = H x'.
Proof. exact @context_binding_. Qed.
Print Assumptions context_binding.

Theorem context_binding_v1 : forall (K : FieldOps) (P : proto K) sch, schema_prefix_free sch ->
  forall (ms ms' tail tail' : list lmsg) s s' a a',
  Forall (conforms sch) (ms ++ tail) -> Forall (conforms sch) (ms' ++ tail') ->
  p_public P V1 s ++ msg V1 (str "point") (p_ser_cm P a) = enc_lmsgs V1 tail ->
  p_public P V1 s' ++ msg V1 (str "point") (p_ser_cm P a') = enc_lmsgs V1 tail' ->
  frame P V1 (enc_lmsgs V1 ms) s a = frame P V1 (enc_lmsgs V1 ms') s' a' ->
  ms ++ tail = ms' ++ tail'.
Proof. exact @context_binding_v1_. Qed.
Print Assumptions context_binding_v1.

(** * Transcript framing *)
Theorem frame_v1_labels_injective : forall ls ls', Forall short ls -> Forall short ls' ->
  enc_labels V1 ls = enc_labels V1 ls' -> ls = ls'.
Proof. exact frame_v1_labels_injective_. Qed.
Print Assumptions frame_v1_labels_injective.

Theorem frame_v1_injective : forall sch, schema_prefix_free sch ->
  forall ms ms', Forall (conforms sch) ms -> Forall (conforms sch) ms' ->
  enc_lmsgs V1 ms = enc_lmsgs V1 ms' -> ms = ms'.
Proof. exact frame_v1_messages_injective_. Qed.
Print Assumptions frame_v1_injective.

(** KF-C07-1 *)
Theorem frame_legacy_labels_refuted :
  exists ls ls', ls <> ls' /\ enc_labels Legacy ls = enc_labels Legacy ls'.
Proof. exact frame_legacy_labels_refuted_. Qed.
Print Assumptions frame_legacy_labels_refuted.
Theorem frame_legacy_messages_refuted :
  exists m m' : lmsg, m <> m' /\ enc_lmsg Legacy m = enc_lmsg Legacy m'.
Proof. exact frame_legacy_messages_refuted_. Qed.
Print Assumptions frame_legacy_messages_refuted.

Theorem frame_legacy_fixed_schema_injective : forall k (sch : fixed_schema),
  Forall (fun s => prefix_free (snd s)) sch ->
  forall ms ms' x y, conforms_fixed sch ms -> conforms_fixed sch ms' ->
  enc_lmsgs k ms ++ x = enc_lmsgs k ms' ++ y -> ms = ms' /\ x = y.
Proof. exact frame_fixed_schema_injective_. Qed.
Print Assumptions frame_legacy_fixed_schema_injective.

(** * Adapters *)
Theorem and_complete : forall (K : FieldOps) (P1 P2 : proto K) rel1 rok1 rel2 rok2,
  complete P1 rel1 rok1 -> complete P2 rel2 rok2 ->
  complete (and_proto P1 P2) (prod_rel rel1 rel2) (prod_rel rok1 rok2).
Proof. exact @and_complete_. Qed.
Print Assumptions and_complete.
Theorem and_special_sound : forall (K : FieldOps) (P1 P2 : proto K) rel1 ex1 rel2 ex2,
  special_sound P1 rel1 ex1 -> special_sound P2 rel2 ex2 ->
  special_sound (and_proto P1 P2) (prod_rel rel1 rel2)
    (fun s c c' z z' => (ex1 (fst s) c c' (fst z) (fst z'), ex2 (snd s) c c' (snd z) (snd z'))).
Proof. exact @and_special_sound_. Qed.
Print Assumptions and_special_sound.
Theorem and_binds_both_statements : forall (K : FieldOps) (P1 P2 : proto K) k ok1 ok2,
  public_prefix_free P1 k ok1 -> public_prefix_free P2 k ok2 ->
  public_prefix_free (and_proto P1 P2) k (fun s => ok1 (fst s) /\ ok2 (snd s)).
Proof. exact @and_public_prefix_free_. Qed.
Print Assumptions and_binds_both_statements.
Theorem replicate_complete : forall (K : FieldOps) (P : proto K) rel rok,
  complete P rel rok -> complete (rep_proto P) (rep_rel rel) (rep_rok rok).
Proof. exact @rep_complete_. Qed.
Print Assumptions replicate_complete.
Theorem replicate_binds_every_instance_v1 : forall (K : FieldOps) (P : proto K) ok,
  public_prefix_free P V1 ok ->
  public_prefix_free (rep_proto P) V1 (fun ss => (N.of_nat (List.length ss) < W64)%N /\ Forall ok ss).
Proof. exact @rep_public_prefix_free_v1_. Qed.
Print Assumptions replicate_binds_every_instance_v1.

Theorem replicate_binds_every_instance_fixed_size : forall (K : FieldOps) (P : proto K) k ok n,
  public_prefix_free P k ok ->
  public_prefix_free (rep_proto P) k (fun ss => List.length ss = n /\ Forall ok ss).
Proof. exact @rep_public_prefix_free_fixed_size_. Qed.
Print Assumptions replicate_binds_every_instance_fixed_size.
(** a replicated proof with a response list of the wrong length is rejected (truncated-response attack) *)
Theorem replicate_rejects_wrong_length : forall (K : FieldOps) (P : proto K) ss c zs a,
  p_extract (rep_proto P) ss c zs = Some a -> List.length zs = List.length ss.
Proof. exact @rep_extract_length_. Qed.
Print Assumptions replicate_rejects_wrong_length.
(** the length condition is an equality: a surplus (or missing) response makes the verifier reject *)
Theorem replicate_rejects_surplus_or_missing_responses : forall (K : FieldOps) (P : proto K) ss c zs,
  List.length zs <> List.length ss -> p_extract (rep_proto P) ss c zs = None.
Proof. exact @rep_extract_wrong_length_none_. Qed.
Print Assumptions replicate_rejects_surplus_or_missing_responses.

(** context binding under V1 for contexts of any (different) lengths *)
Theorem context_binding_v1_any_length : forall (K : FieldOps) (H : bytes -> bytes) (sfb : bytes -> K) (P : proto K) sch n,
  schema_prefix_free sch -> frame_is_messages P sch n ->
  forall (ms ms' : list lmsg) s s' pi,
  Forall (conforms sch) ms -> Forall (conforms sch) ms' -> ms <> ms' ->
  fst (verify H sfb P V1 (enc_lmsgs V1 ms) s pi) = true ->
  fst (verify H sfb P V1 (enc_lmsgs V1 ms') s' pi) = true ->
  exists x x', x <> x' /\ H x = H x'.
Proof. exact @context_binding_v1_any_length_. Qed.
Print Assumptions context_binding_v1_any_length.

(** * Protocol instances: completeness, special soundness, [public] covers the statement *)
Section Instances.
  Context (K : FieldOps) (KL : FieldLaws K) (M : ModOps K) (ML : ModLaws M) (Cd : CodecOps M) (CL : CodecLaws Cd).

  Theorem dlog_complete : complete (dlog_proto Cd) dlog_rel (fun _ _ => True).
  Proof. exact (dlog_complete_ Cd). Qed.
  Theorem dlog_special_sound : special_sound (dlog_proto Cd) dlog_rel dlog_extractor.
  Proof. exact (dlog_special_sound_ Cd). Qed.
  Theorem dlog_public_covers_statement : forall k, public_prefix_free (dlog_proto Cd) k (fun _ => True).
  Proof. exact (dlog_public_prefix_free_ Cd). Qed.

  Theorem dlogeq_complete : complete (dlogeq_proto Cd) dlogeq_rel (fun _ _ => True).
  Proof. exact (dlogeq_complete_ Cd). Qed.
  Theorem dlogeq_special_sound : special_sound (dlogeq_proto Cd) dlogeq_rel (fun s => dlog_extractor (fst s)).
  Proof. exact (dlogeq_special_sound_ Cd). Qed.
  Theorem dlogeq_public_covers_statement : forall k, public_prefix_free (dlogeq_proto Cd) k (fun _ => True).
  Proof. exact (dlogeq_public_prefix_free_ Cd). Qed.

  Theorem com_eq_complete : complete (com_eq_proto Cd) com_eq_rel (fun _ _ => True).
  Proof. exact (com_eq_complete_ Cd). Qed.
  Theorem com_eq_special_sound : special_sound (com_eq_proto Cd) com_eq_rel com_eq_extractor.
  Proof. exact (com_eq_special_sound_ Cd). Qed.
  Theorem com_eq_public_covers_statement : forall k, public_prefix_free (com_eq_proto Cd) k (fun _ => True).
  Proof. exact (com_eq_public_prefix_free_ Cd). Qed.

  Theorem com_enc_eq_complete : complete (com_enc_eq_proto Cd) com_enc_eq_rel (fun _ _ => True).
  Proof. exact (com_enc_eq_complete_ Cd). Qed.
  Theorem com_enc_eq_special_sound : special_sound (com_enc_eq_proto Cd) com_enc_eq_rel com_enc_eq_extractor.
  Proof. exact (com_enc_eq_special_sound_ Cd). Qed.
  (** KF-C07-2: the field encryption_in_exponent_generator is NOT covered by [public] *)
  Theorem com_enc_eq_public_covers_statement_refuted : forall k (s : com_enc_eq_stmt M) (h' : M),
    h' <> cee_hin s ->
    let s' := mkComEncEq (cee_e1 s) (cee_e2 s) (cee_cmm s) (cee_pkg s) (cee_pkh s) (cee_ckg s) (cee_ckh s) h' in
    s <> s' /\ com_enc_eq_public Cd k s = com_enc_eq_public Cd k s'.
  Proof. exact (com_enc_eq_public_omits_generator_refuted_ Cd). Qed.
  Theorem com_enc_eq_generator_unbound_when_z2_zero : forall (s : com_enc_eq_stmt M) (h' : M) c z1 z3,
    let s' := mkComEncEq (cee_e1 s) (cee_e2 s) (cee_cmm s) (cee_pkg s) (cee_pkh s) (cee_ckg s) (cee_ckh s) h' in
    com_enc_eq_extract s c (z1, F0 K, z3) = com_enc_eq_extract s' c (z1, F0 K, z3).
  Proof. exact (com_enc_eq_generator_unbound_when_z2_zero_). Qed.
  (** guarded positive part *)
  Theorem com_enc_eq_public_covers_statement_partial : forall k (h : M),
    public_prefix_free (com_enc_eq_proto Cd) k (fun s => cee_hin s = h).
  Proof. exact (com_enc_eq_public_prefix_free_fixed_generator_ Cd). Qed.

  Theorem com_mult_complete : complete (com_mult_proto Cd) com_mult_rel (fun _ _ => True).
  Proof. exact (com_mult_complete_ Cd). Qed.
  Theorem com_mult_special_sound : special_sound (com_mult_proto Cd) com_mult_rel com_mult_extractor.
  Proof. exact (com_mult_special_sound_ Cd). Qed.
  Theorem com_mult_public_covers_statement : forall k, public_prefix_free (com_mult_proto Cd) k (fun _ => True).
  Proof. exact (com_mult_public_prefix_free_ Cd). Qed.

  Theorem aggregate_dlog_complete : complete (agg_proto Cd) agg_rel agg_rok.
  Proof. exact (agg_complete_ Cd). Qed.
  Theorem aggregate_dlog_special_sound : special_sound (agg_proto Cd) agg_rel agg_extractor.
  Proof. exact (agg_special_sound_ Cd). Qed.
  Theorem aggregate_dlog_public_covers_statement_v1 :
    public_prefix_free (agg_proto Cd) V1 (fun s => (N.of_nat (List.length (ag_coeff s)) < W64)%N).
  Proof. exact (agg_public_prefix_free_v1_ Cd). Qed.
  Theorem aggregate_dlog_public_covers_statement_legacy_fixed_size : forall n,
    public_prefix_free (agg_proto Cd) Legacy (fun s => List.length (ag_coeff s) = n).
  Proof. exact (agg_public_prefix_free_legacy_fixed_size_ Cd). Qed.
  (** the hypothesis of [context_binding_v1_any_length] holds for dlog *)
  Theorem dlog_frame_is_messages : frame_is_messages (dlog_proto Cd) (fixed_len_schema (glen Cd)) 3.
  Proof. exact (dlog_frame_is_messages_ Cd). Qed.

  Theorem aggregate_dlog_rejects_wrong_length : forall (s : agg_stmt M) c z a, agg_extract s c z = Some a ->
    List.length z = List.length (ag_coeff s).
  Proof. intros s c z a E. exact (proj2 (agg_extract_generic s c z a E)). Qed.

  Theorem enc_trans_complete : complete (enc_trans_proto Cd) enc_trans_rel enc_trans_rok.
  Proof. exact (enc_trans_complete_ Cd). Qed.
  Theorem enc_trans_special_sound : special_sound (enc_trans_proto Cd) enc_trans_rel enc_trans_extractor.
  Proof. exact (enc_trans_special_sound_ Cd). Qed.
  Theorem enc_trans_rejects_wrong_length : forall (s : enc_trans_stmt M) c zc z1 z2 a,
    enc_trans_extract s c (zc, z1, z2) = Some a ->
    List.length z1 = List.length (et_e1 s) /\ List.length z2 = List.length (et_e2 s).
  Proof. exact enc_trans_extract_length_. Qed.
  Theorem enc_trans_public_covers_statement_v1 :
    public_prefix_free (enc_trans_proto Cd) V1
      (fun s => (N.of_nat (List.length (et_e1 s)) < W64)%N /\ (N.of_nat (List.length (et_e2 s)) < W64)%N).
  Proof. exact (enc_trans_public_prefix_free_v1_ Cd). Qed.
  Theorem enc_trans_public_covers_statement_fixed_size : forall k n1 n2,
    public_prefix_free (enc_trans_proto Cd) k (fun s => List.length (et_e1 s) = n1 /\ List.length (et_e2 s) = n2).
  Proof. exact (enc_trans_public_prefix_free_fixed_size_ Cd). Qed.

  Theorem com_lin_complete : complete (com_lin_proto Cd) com_lin_rel com_lin_rok.
  Proof. exact (com_lin_complete_ Cd). Qed.
  Theorem com_lin_special_sound : special_sound (com_lin_proto Cd) com_lin_rel com_lin_extractor.
  Proof. exact (com_lin_special_sound_ Cd). Qed.
  Theorem com_lin_rejects_wrong_length : forall (s : com_lin_stmt M) c zs ss sf a, com_lin_extract s c (zs, ss, sf) = Some a ->
    List.length zs = List.length (cl_cmms s) /\ List.length ss = List.length (cl_cmms s) /\
    List.length (cl_us s) = List.length (cl_cmms s).
  Proof. exact com_lin_extract_length_. Qed.
  Theorem com_lin_public_covers_statement_v1 :
    public_prefix_free (com_lin_proto Cd) V1
      (fun s => (N.of_nat (List.length (cl_us s)) < W64)%N /\ (N.of_nat (List.length (cl_cmms s)) < W64)%N).
  Proof. exact (com_lin_public_prefix_free_v1_ Cd). Qed.
  Theorem com_lin_public_covers_statement_fixed_size : forall k n,
    public_prefix_free (com_lin_proto Cd) k (fun s => List.length (cl_us s) = n /\ List.length (cl_cmms s) = n).
  Proof. exact (com_lin_public_prefix_free_fixed_size_ Cd). Qed.

  (** com_ineq (wrapper around ComMult with its own legacy transcript prefix) *)
  Theorem com_ineq_complete : forall (H : bytes -> bytes) (sfb : bytes -> K) g h x xt v r2 rnd, x <> v ->
    exists proof, prove_com_ineq Cd H sfb g h x xt v r2 rnd = Some proof /\
                  verify_com_ineq Cd H sfb g h (Gadd M (smul M x g) (smul M xt h)) v proof = true.
  Proof. intros H sfb. exact (com_ineq_complete_ Cd H sfb). Qed.
  Theorem com_ineq_extracted_witness : forall (g h c : M) v aux x1 x2 r1 r2 r3,
    com_mult_rel (com_ineq_stmt g h c v aux) (x1, x2, r1, r2, r3) ->
    c = Gadd M (smul M (Fadd K x1 v) g) (smul M r1 h) /\ (x1 = F0 K -> g = smul M r3 h).
  Proof. exact com_ineq_extracted_witness_. Qed.
  Theorem com_ineq_context_covers_statement : forall g h c v g' h' c' v' x y,
    com_ineq_ctx Cd g h c v ++ x = com_ineq_ctx Cd g' h' c' v' ++ y -> g = g' /\ h = h' /\ c = c' /\ v = v' /\ x = y.
  Proof. exact (com_ineq_ctx_injective_ Cd). Qed.
  (** dlogaggequal.rs (private, unused reference module; model only): the number of inner response
      vectors is not compared with the number of aggregates *)
  Theorem dlogaggequal_response_count_unchecked_refuted : forall (d : dlog_stmt M) (a : agg_stmt M) (c zc : K),
    exists cm, dae_extract (d, [a]) c (zc, []) = Some (cm, []).
  Proof. exact dlogaggequal_response_count_unchecked_refuted_. Qed.

  (** vcom_eq (model of the code after the repair 82fae784a) *)
  Theorem vcom_eq_complete : complete (vcom_proto Cd) (vcom_rel (M:=M)) vcom_rok.
  Proof. exact (vcom_complete_ Cd). Qed.
  Theorem vcom_eq_checks_every_commitment : forall (s : vcom_stmt M) c sis t tis a pts,
    vcom_extract s c (sis, t, tis) = Some (a, pts) ->
    List.length pts = List.length (vc_comms s) /\ List.length sis = List.length (vc_gis s) /\
    List.length tis = List.length (vc_comms s).
  Proof. exact vcom_extract_checks_every_commitment_. Qed.
  (** the code before the repair accepted a response keyed {1} for comms keyed {0} without ever
      looking at the commitment C_0 (fixed: known_findings.json "fixed", replayed by the check) *)
  Theorem vcom_eq_prefix_unchecked_commitment_refuted : forall (g h gb hb C C0 C0' : M) (c s0 s1 t t1 : K),
    let st X := mkVcom C [(0%N, X)] [g; g] h gb hb in
    vcom_extract_prefix (st C0) c ([s0; s1], t, [(1%N, t1)]) = vcom_extract_prefix (st C0') c ([s0; s1], t, [(1%N, t1)])
    /\ exists a, vcom_extract_prefix (st C0) c ([s0; s1], t, [(1%N, t1)]) = Some (a, [])
    /\ vcom_extract (st C0) c ([s0; s1], t, [(1%N, t1)]) = None.
  Proof. exact vcom_prefix_unchecked_commitment_refuted_. Qed.
  Theorem vcom_eq_public_covers_statement_v1 :
    public_prefix_free (vcom_proto Cd) V1
      (fun s => (N.of_nat (List.length (vc_gis s)) < W64)%N /\ (N.of_nat (List.length (vc_comms s)) < W64)%N).
  Proof. exact (vcom_public_prefix_free_v1_ Cd). Qed.
End Instances.
Print Assumptions dlog_complete.
Print Assumptions dlog_special_sound.
Print Assumptions dlog_public_covers_statement.
Print Assumptions dlogeq_complete.
Print Assumptions dlogeq_special_sound.
Print Assumptions dlogeq_public_covers_statement.
Print Assumptions com_eq_complete.
Print Assumptions com_eq_special_sound.
Print Assumptions com_eq_public_covers_statement.
Print Assumptions com_enc_eq_complete.
Print Assumptions com_enc_eq_special_sound.
Print Assumptions com_enc_eq_public_covers_statement_refuted.
Print Assumptions com_enc_eq_generator_unbound_when_z2_zero.
Print Assumptions com_enc_eq_public_covers_statement_partial.
Print Assumptions com_mult_complete.
Print Assumptions com_mult_special_sound.
Print Assumptions com_mult_public_covers_statement.
Print Assumptions aggregate_dlog_complete.
Print Assumptions aggregate_dlog_special_sound.
Print Assumptions aggregate_dlog_public_covers_statement_v1.
Print Assumptions aggregate_dlog_public_covers_statement_legacy_fixed_size.
Print Assumptions dlog_frame_is_messages.
Print Assumptions aggregate_dlog_rejects_wrong_length.
Print Assumptions enc_trans_complete.
Print Assumptions enc_trans_special_sound.
Print Assumptions enc_trans_rejects_wrong_length.
Print Assumptions enc_trans_public_covers_statement_v1.
Print Assumptions enc_trans_public_covers_statement_fixed_size.
Print Assumptions com_lin_complete.
Print Assumptions com_lin_special_sound.
Print Assumptions com_lin_rejects_wrong_length.
Print Assumptions com_lin_public_covers_statement_v1.
Print Assumptions com_lin_public_covers_statement_fixed_size.
Print Assumptions com_ineq_complete.
Print Assumptions com_ineq_extracted_witness.
Print Assumptions com_ineq_context_covers_statement.

Print Assumptions dlogaggequal_response_count_unchecked_refuted.
Print Assumptions vcom_eq_complete.
Print Assumptions vcom_eq_checks_every_commitment.
Print Assumptions vcom_eq_prefix_unchecked_commitment_refuted.
Print Assumptions vcom_eq_public_covers_statement_v1.

(** com_eq_sig: pairing groups (AlgPairing.v), commitments in a fourth module *)
Section Pairing.
  Context (K : FieldOps) (KL : FieldLaws K) (P : PairOps K) (PL : PairLaws P) (MC : ModOps K) (MLC : ModLaws MC)
          (Cd1 : CodecOps (PM1 P)) (Cd2 : CodecOps (PM2 P)) (CdT : CodecOps (PMT P)) (CdC : CodecOps MC)
          (CL1 : CodecLaws Cd1) (CL2 : CodecLaws Cd2) (CLC : CodecLaws CdC).
  Theorem com_eq_sig_complete : complete (ces_proto Cd1 Cd2 CdT CdC) ces_rel ces_rok.
  Proof. exact (ces_complete_ Cd1 Cd2 CdT CdC). Qed.
  Theorem com_eq_sig_special_sound : special_sound (ces_proto Cd1 Cd2 CdT CdC)
    (fun s w => (List.length (cs_cmts s) <= List.length (cs_ys s))%nat -> ces_rel s w) ces_extractor.
  Proof. exact (ces_special_sound_ Cd1 Cd2 CdT CdC). Qed.
  Theorem com_eq_sig_rejects_wrong_length : forall (s : ces_stmt P MC) c zr zs a,
    ces_extract s c (zr, zs) = Some a -> List.length zs = List.length (cs_cmts s).
  Proof. exact ces_extract_length_. Qed.
  Theorem com_eq_sig_public_covers_statement_v1 :
    public_prefix_free (ces_proto Cd1 Cd2 CdT CdC) V1
      (fun s => (N.of_nat (List.length (cs_cmts s)) < W64)%N /\ (N.of_nat (List.length (cs_ys s)) < W32)%N /\
                (N.of_nat (List.length (cs_yts s)) < W32)%N).
  Proof. exact (ces_public_prefix_free_v1_ Cd1 Cd2 CdT CdC). Qed.
  (** ps_sig_known: messages committed / public / known *)
  Theorem ps_sig_known_complete : complete (pss_proto Cd1 Cd2 CdT CdC) pss_rel pss_rok.
  Proof. exact (pss_complete_ Cd1 Cd2 CdT CdC). Qed.
  Theorem ps_sig_known_rejects_wrong_length : forall (s : pss_stmt P MC) c zr zs a,
    pss_extract s c (zr, zs) = Some a -> List.length zs = List.length (ps_msgs s).
  Proof. exact pss_extract_length_. Qed.
End Pairing.
Print Assumptions ps_sig_known_complete.
Print Assumptions ps_sig_known_rejects_wrong_length.
Print Assumptions com_eq_sig_complete.
Print Assumptions com_eq_sig_special_sound.
Print Assumptions com_eq_sig_rejects_wrong_length.
Print Assumptions com_eq_sig_public_covers_statement_v1.

(** com_eq_different_groups: two modules over one field *)
Section TwoGroups.
  Context (K : FieldOps) (KL : FieldLaws K) (M1 M2 : ModOps K) (ML1 : ModLaws M1) (ML2 : ModLaws M2)
          (Cd1 : CodecOps M1) (Cd2 : CodecOps M2) (CL1 : CodecLaws Cd1) (CL2 : CodecLaws Cd2).
  Theorem com_eq_different_groups_complete : complete (ced_proto Cd1 Cd2) ced_rel (fun _ _ => True).
  Proof. exact (ced_complete_ Cd1 Cd2). Qed.
  Theorem com_eq_different_groups_special_sound : special_sound (ced_proto Cd1 Cd2) ced_rel ced_extractor.
  Proof. exact (ced_special_sound_ Cd1 Cd2). Qed.
  Theorem com_eq_different_groups_public_covers_statement : forall k, public_prefix_free (ced_proto Cd1 Cd2) k (fun _ => True).
  Proof. exact (ced_public_prefix_free_ Cd1 Cd2). Qed.
End TwoGroups.
Print Assumptions com_eq_different_groups_complete.
Print Assumptions com_eq_different_groups_special_sound.
Print Assumptions com_eq_different_groups_public_covers_statement.

(** * Non-vacuity: the hypotheses are satisfiable, on the executable instance (Z mod r) *)
(** a valid dlog statement (public = 3 * coeff), its honest transcript is reproduced *)
Example nonvacuous_honest_dlog :
  match x_honest X_dlog V1 (domain V1 [99; 48; 55]%N) [15; 5]%Z [3]%Z 7%Z [100]%Z with
  | Some (cm_ok, resp_ok, rel_ok, _, _) => cm_ok && resp_ok && rel_ok = true
  | None => False
  end.
Proof. vm_compute. reflexivity. Qed.
Print Assumptions nonvacuous_honest_dlog.
(** two accepting transcripts with one commitment and different challenges exist (hypotheses of
    special soundness), and the extractor returns the witness 3 *)
Example nonvacuous_special_soundness :
  let A := [[5%Z]] in let y := [15%Z] in
  m_reconstruct (M:=ZrG) RespMinus A y 7%Z [79%Z] = m_reconstruct (M:=ZrG) RespMinus A y 2%Z [94%Z]
  /\ 7%Z <> 2%Z /\ m_extract (K:=ZrF) RespMinus 7%Z 2%Z [79%Z] [94%Z] = [3%Z].
Proof. split; [vm_compute; reflexivity|]. split; [discriminate|vm_compute; reflexivity]. Qed.
Print Assumptions nonvacuous_special_soundness.
