(** C07 - property theorems only.  Everything is quantified over ALL scalar fields [K] (with
    [FieldLaws]) and ALL [K]-modules [M] (with [ModLaws]), all hash functions [H], all
    [scalar_from_bytes] maps [sfb] and all codecs with fixed-length injective encodings ([CodecLaws]).
    NOT theorems (see design/C07.md): knowledge soundness, zero knowledge, collision resistance. *)
From Coq Require Import ZArith NArith List String Bool.
From CB Require Import Crypto.Alg Crypto.AlgPairing Crypto.Transcript Crypto.TranscriptProofs Crypto.SigmaGeneric Crypto.SigmaCodec
  Crypto.Sigma_dlog Crypto.Sigma_dlogeq Crypto.Sigma_com_eq Crypto.Sigma_com_enc_eq Crypto.Sigma_com_mult
  Crypto.Sigma_aggregate_dlog Crypto.Sigma_enc_trans Crypto.Sigma_com_lin Crypto.Sigma_com_eq_diff Crypto.Sigma_com_ineq Crypto.Sigma_vcom_eq Crypto.Sigma_com_eq_sig Crypto.Sigma_dlogaggequal Crypto.Sigma_ps_sig_known
  Crypto.SigmaExec Crypto.SigmaExecDae Crypto.SigmaDaeObs Crypto.SigmaHom Crypto.SigmaAdaptersN Crypto.SigmaSS_ps_sig Crypto.SigmaSS_vcom_eq Crypto.AlgF2 Crypto.SigmaNonvac.
Import ListNotations.

(** * Generic algebra *)
Theorem sigma_complete : forall (K : FieldOps) (KL : FieldLaws K) (M : ModOps K) (ML : ModLaws M)
    sty (A : list (list M)) (w rho : list K) (c : K),
  List.length w = List.length rho ->
  m_reconstruct sty A (phi A w) c (m_respond sty c w rho) = m_commit A rho.
Proof. intros K KL M ML. exact sigma_complete_. Qed.
Print Assumptions sigma_complete.

Theorem sigma_special_sound : forall (K : FieldOps) (KL : FieldLaws K) (M : ModOps K) (ML : ModLaws M)
    sty (A : list (list M)) (y a : list M) (c c' : K) (z z' : list K),
  c <> c' -> List.length z = List.length z' -> List.length y = List.length A ->
  m_reconstruct sty A y c z = a -> m_reconstruct sty A y c' z' = a ->
  phi A (m_extract sty c c' z z') = y.
Proof. intros K KL M ML. exact sigma_special_sound_. Qed.
Print Assumptions sigma_special_sound.

Theorem response_injective : forall (K : FieldOps) (KL : FieldLaws K) (M : ModOps K) (ML : ModLaws M)
    sty (A : list (list M)) (y : list M) (c : K) (z z' : list K) (n : nat),
  (forall u v, List.length u = n -> List.length v = n -> phi A u = phi A v -> u = v) ->
  List.length z = n -> List.length z' = n -> List.length y = List.length A ->
  m_reconstruct sty A y c z = m_reconstruct sty A y c z' -> z = z'.
Proof. intros K KL M ML. exact response_injective_. Qed.
Print Assumptions response_injective.

(** the injectivity hypothesis is a genuine precondition: with the identity point as only base two
    different responses are accepted with the same commitment *)
Theorem response_not_injective_when_base_is_identity :
  forall (K : FieldOps) (KL : FieldLaws K) (M : ModOps K) (ML : ModLaws M) sty (y : M) (c : K),
  [F0 K] <> [F1 K] /\ m_reconstruct sty [[G0 M]] [y] c [F0 K] = m_reconstruct sty [[G0 M]] [y] c [F1 K].
Proof. intros K KL M ML. exact response_not_injective_degenerate. Qed.
Print Assumptions response_not_injective_when_base_is_identity.

(** * Fiat-Shamir: prove / verify *)
Theorem prove_verify_complete : forall (K : FieldOps) (H : bytes -> bytes) (sfb : bytes -> K) (P : proto K) rel rok,
  complete P rel rok ->
  forall k ctx s w r, rel s w -> rok s r ->
    exists pi st, prove H sfb P k ctx s w r = Some (pi, st) /\ verify H sfb P k ctx s pi = (true, st).
Proof. exact @prove_verify_complete_. Qed.
Print Assumptions prove_verify_complete.

Theorem verify_binds_transcript : forall (K : FieldOps) (H : bytes -> bytes) (sfb : bytes -> K) (P : proto K) k ctx s ch z,
  fst (verify H sfb P k ctx s (ch, z)) = true <->
  exists a, p_extract P s (sfb ch) z = Some a /\ ch = H (frame P k ctx s a).
Proof. exact @verify_binds_transcript_. Qed.
Print Assumptions verify_binds_transcript.

(** tamper rejection relative to collision resistance: one proof accepted for two statements (same
    context), or under two contexts of equal length, yields an explicit collision of H *)
Theorem statement_binding : forall (K : FieldOps) (H : bytes -> bytes) (sfb : bytes -> K) (P : proto K) k ok,
  public_prefix_free P k ok ->
  forall ctx s s' pi, ok s -> ok s' -> s <> s' ->
  fst (verify H sfb P k ctx s pi) = true -> fst (verify H sfb P k ctx s' pi) = true ->
  exists x x', x <> x' /\ H x = H x'.
Proof. exact @statement_binding_. Qed.
Print Assumptions statement_binding.

Theorem context_binding : forall (K : FieldOps) (H : bytes -> bytes) (sfb : bytes -> K) (P : proto K) k ctx ctx' s s' pi,
  List.length ctx = List.length ctx' -> ctx <> ctx' ->
  fst (verify H sfb P k ctx s pi) = true -> fst (verify H sfb P k ctx' s' pi) = true ->
  exists x x', x <> x' /\ H x = H x'.
Proof. exact @context_binding_. Qed.
Print Assumptions context_binding.

Theorem context_binding_v1 : forall (K : FieldOps) (P : proto K) sch, schema_prefix_free sch ->
  forall (ms ms' tail tail' : list lmsg) s s' a a',
  Forall (conforms sch) (ms ++ tail) -> Forall (conforms sch) (ms' ++ tail') ->
  p_public P V1 s ++ msg V1 (str "point") (p_ser_cm P a) = enc_lmsgs V1 tail ->
  p_public P V1 s' ++ msg V1 (str "point") (p_ser_cm P a') = enc_lmsgs V1 tail' ->
  frame P V1 (enc_lmsgs V1 ms) s a = frame P V1 (enc_lmsgs V1 ms') s' a' ->
  ms ++ tail = ms' ++ tail'.
Proof. exact @context_binding_v1_. Qed.
Print Assumptions context_binding_v1.

(** * Transcript framing *)
Theorem frame_v1_labels_injective : forall ls ls', Forall short ls -> Forall short ls' ->
  enc_labels V1 ls = enc_labels V1 ls' -> ls = ls'.
Proof. exact frame_v1_labels_injective_. Qed.
Print Assumptions frame_v1_labels_injective.

Theorem frame_v1_injective : forall sch, schema_prefix_free sch ->
  forall ms ms', Forall (conforms sch) ms -> Forall (conforms sch) ms' ->
  enc_lmsgs V1 ms = enc_lmsgs V1 ms' -> ms = ms'.
Proof. exact frame_v1_messages_injective_. Qed.
Print Assumptions frame_v1_injective.

(** KF-C07-1 *)
Theorem frame_legacy_labels_refuted :
  exists ls ls', ls <> ls' /\ enc_labels Legacy ls = enc_labels Legacy ls'.
Proof. exact frame_legacy_labels_refuted_. Qed.
Print Assumptions frame_legacy_labels_refuted.
Theorem frame_legacy_messages_refuted :
  exists m m' : lmsg, m <> m' /\ enc_lmsg Legacy m = enc_lmsg Legacy m'.
Proof. exact frame_legacy_messages_refuted_. Qed.
Print Assumptions frame_legacy_messages_refuted.

Theorem frame_legacy_fixed_schema_injective : forall k (sch : fixed_schema),
  Forall (fun s => prefix_free (snd s)) sch ->
  forall ms ms' x y, conforms_fixed sch ms -> conforms_fixed sch ms' ->
  enc_lmsgs k ms ++ x = enc_lmsgs k ms' ++ y -> ms = ms' /\ x = y.
Proof. exact frame_fixed_schema_injective_. Qed.
Print Assumptions frame_legacy_fixed_schema_injective.

(** * Adapters *)
Theorem and_complete : forall (K : FieldOps) (P1 P2 : proto K) rel1 rok1 rel2 rok2,
  complete P1 rel1 rok1 -> complete P2 rel2 rok2 ->
  complete (and_proto P1 P2) (prod_rel rel1 rel2) (prod_rel rok1 rok2).
Proof. exact @and_complete_. Qed.
Print Assumptions and_complete.
Theorem and_special_sound : forall (K : FieldOps) (P1 P2 : proto K) rel1 ex1 rel2 ex2,
  special_sound P1 rel1 ex1 -> special_sound P2 rel2 ex2 ->
  special_sound (and_proto P1 P2) (prod_rel rel1 rel2)
    (fun s c c' z z' => (ex1 (fst s) c c' (fst z) (fst z'), ex2 (snd s) c c' (snd z) (snd z'))).
Proof. exact @and_special_sound_. Qed.
Print Assumptions and_special_sound.
Theorem and_binds_both_statements : forall (K : FieldOps) (P1 P2 : proto K) k ok1 ok2,
  public_prefix_free P1 k ok1 -> public_prefix_free P2 k ok2 ->
  public_prefix_free (and_proto P1 P2) k (fun s => ok1 (fst s) /\ ok2 (snd s)).
Proof. exact @and_public_prefix_free_. Qed.
Print Assumptions and_binds_both_statements.
Theorem replicate_complete : forall (K : FieldOps) (P : proto K) rel rok,
  complete P rel rok -> complete (rep_proto P) (rep_rel rel) (rep_rok rok).
Proof. exact @rep_complete_. Qed.
Print Assumptions replicate_complete.
Theorem replicate_binds_every_instance_v1 : forall (K : FieldOps) (P : proto K) ok,
  public_prefix_free P V1 ok ->
  public_prefix_free (rep_proto P) V1 (fun ss => (N.of_nat (List.length ss) < W64)%N /\ Forall ok ss).
Proof. exact @rep_public_prefix_free_v1_. Qed.
Print Assumptions replicate_binds_every_instance_v1.

Theorem replicate_binds_every_instance_fixed_size : forall (K : FieldOps) (P : proto K) k ok n,
  public_prefix_free P k ok ->
  public_prefix_free (rep_proto P) k (fun ss => List.length ss = n /\ Forall ok ss).
Proof. exact @rep_public_prefix_free_fixed_size_. Qed.
Print Assumptions replicate_binds_every_instance_fixed_size.
(** a replicated proof with a response list of the wrong length is rejected (truncated-response attack) *)
Theorem replicate_rejects_wrong_length : forall (K : FieldOps) (P : proto K) ss c zs a,
  p_extract (rep_proto P) ss c zs = Some a -> List.length zs = List.length ss.
Proof. exact @rep_extract_length_. Qed.
Print Assumptions replicate_rejects_wrong_length.
(** the length condition is an equality: a surplus (or missing) response makes the verifier reject *)
Theorem replicate_rejects_surplus_or_missing_responses : forall (K : FieldOps) (P : proto K) ss c zs,
  List.length zs <> List.length ss -> p_extract (rep_proto P) ss c zs = None.
Proof. exact @rep_extract_wrong_length_none_. Qed.
Print Assumptions replicate_rejects_surplus_or_missing_responses.

(** context binding under V1 for contexts of any (different) lengths *)
Theorem context_binding_v1_any_length : forall (K : FieldOps) (H : bytes -> bytes) (sfb : bytes -> K) (P : proto K) sch n,
  schema_prefix_free sch -> frame_is_messages P sch n ->
  forall (ms ms' : list lmsg) s s' pi,
  Forall (conforms sch) ms -> Forall (conforms sch) ms' -> ms <> ms' ->
  fst (verify H sfb P V1 (enc_lmsgs V1 ms) s pi) = true ->
  fst (verify H sfb P V1 (enc_lmsgs V1 ms') s' pi) = true ->
  exists x x', x <> x' /\ H x = H x'.
Proof. exact @context_binding_v1_any_length_. Qed.
Print Assumptions context_binding_v1_any_length.

(** * Protocol instances: completeness, special soundness, [public] covers the statement *)
Section Instances.
  Context (K : FieldOps) (KL : FieldLaws K) (M : ModOps K) (ML : ModLaws M) (Cd : CodecOps M) (CL : CodecLaws Cd).

  Theorem dlog_complete : complete (dlog_proto Cd) dlog_rel (fun _ _ => True).
  Proof. exact (dlog_complete_ Cd). Qed.
  Theorem dlog_special_sound : special_sound (dlog_proto Cd) dlog_rel dlog_extractor.
  Proof. exact (dlog_special_sound_ Cd). Qed.
  Theorem dlog_public_covers_statement : forall k, public_prefix_free (dlog_proto Cd) k (fun _ => True).
  Proof. exact (dlog_public_prefix_free_ Cd). Qed.

  Theorem dlogeq_complete : complete (dlogeq_proto Cd) dlogeq_rel (fun _ _ => True).
  Proof. exact (dlogeq_complete_ Cd). Qed.
  Theorem dlogeq_special_sound : special_sound (dlogeq_proto Cd) dlogeq_rel (fun s => dlog_extractor (fst s)).
  Proof. exact (dlogeq_special_sound_ Cd). Qed.
  Theorem dlogeq_public_covers_statement : forall k, public_prefix_free (dlogeq_proto Cd) k (fun _ => True).
  Proof. exact (dlogeq_public_prefix_free_ Cd). Qed.

  Theorem com_eq_complete : complete (com_eq_proto Cd) com_eq_rel (fun _ _ => True).
  Proof. exact (com_eq_complete_ Cd). Qed.
  Theorem com_eq_special_sound : special_sound (com_eq_proto Cd) com_eq_rel com_eq_extractor.
  Proof. exact (com_eq_special_sound_ Cd). Qed.
  Theorem com_eq_public_covers_statement : forall k, public_prefix_free (com_eq_proto Cd) k (fun _ => True).
  Proof. exact (com_eq_public_prefix_free_ Cd). Qed.

  Theorem com_enc_eq_complete : complete (com_enc_eq_proto Cd) com_enc_eq_rel (fun _ _ => True).
  Proof. exact (com_enc_eq_complete_ Cd). Qed.
  Theorem com_enc_eq_special_sound : special_sound (com_enc_eq_proto Cd) com_enc_eq_rel com_enc_eq_extractor.
  Proof. exact (com_enc_eq_special_sound_ Cd). Qed.
  (** KF-C07-2: the field encryption_in_exponent_generator is NOT covered by [public] *)
  Theorem com_enc_eq_public_covers_statement_refuted : forall k (s : com_enc_eq_stmt M) (h' : M),
    h' <> cee_hin s ->
    let s' := mkComEncEq (cee_e1 s) (cee_e2 s) (cee_cmm s) (cee_pkg s) (cee_pkh s) (cee_ckg s) (cee_ckh s) h' in
    s <> s' /\ com_enc_eq_public Cd k s = com_enc_eq_public Cd k s'.
  Proof. exact (com_enc_eq_public_omits_generator_refuted_ Cd). Qed.
  Theorem com_enc_eq_generator_unbound_when_z2_zero : forall (s : com_enc_eq_stmt M) (h' : M) c z1 z3,
    let s' := mkComEncEq (cee_e1 s) (cee_e2 s) (cee_cmm s) (cee_pkg s) (cee_pkh s) (cee_ckg s) (cee_ckh s) h' in
    com_enc_eq_extract s c (z1, F0 K, z3) = com_enc_eq_extract s' c (z1, F0 K, z3).
  Proof. exact (com_enc_eq_generator_unbound_when_z2_zero_). Qed.
  (** guarded positive part *)
  Theorem com_enc_eq_public_covers_statement_partial : forall k (h : M),
    public_prefix_free (com_enc_eq_proto Cd) k (fun s => cee_hin s = h).
  Proof. exact (com_enc_eq_public_prefix_free_fixed_generator_ Cd). Qed.

  Theorem com_mult_complete : complete (com_mult_proto Cd) com_mult_rel (fun _ _ => True).
  Proof. exact (com_mult_complete_ Cd). Qed.
  Theorem com_mult_special_sound : special_sound (com_mult_proto Cd) com_mult_rel com_mult_extractor.
  Proof. exact (com_mult_special_sound_ Cd). Qed.
  Theorem com_mult_public_covers_statement : forall k, public_prefix_free (com_mult_proto Cd) k (fun _ => True).
  Proof. exact (com_mult_public_prefix_free_ Cd). Qed.

  Theorem aggregate_dlog_complete : complete (agg_proto Cd) agg_rel agg_rok.
  Proof. exact (agg_complete_ Cd). Qed.
  Theorem aggregate_dlog_special_sound : special_sound (agg_proto Cd) agg_rel agg_extractor.
  Proof. exact (agg_special_sound_ Cd). Qed.
  Theorem aggregate_dlog_public_covers_statement_v1 :
    public_prefix_free (agg_proto Cd) V1 (fun s => (N.of_nat (List.length (ag_coeff s)) < W64)%N).
  Proof. exact (agg_public_prefix_free_v1_ Cd). Qed.
  Theorem aggregate_dlog_public_covers_statement_legacy_fixed_size : forall n,
    public_prefix_free (agg_proto Cd) Legacy (fun s => List.length (ag_coeff s) = n).
  Proof. exact (agg_public_prefix_free_legacy_fixed_size_ Cd). Qed.
  (** the hypothesis of [context_binding_v1_any_length] holds for dlog *)
  Theorem dlog_frame_is_messages : frame_is_messages (dlog_proto Cd) (fixed_len_schema (glen Cd)) 3.
  Proof. exact (dlog_frame_is_messages_ Cd). Qed.

  Theorem aggregate_dlog_rejects_wrong_length : forall (s : agg_stmt M) c z a, agg_extract s c z = Some a ->
    List.length z = List.length (ag_coeff s).
  Proof. intros s c z a E. exact (proj2 (agg_extract_generic s c z a E)). Qed.

  Theorem enc_trans_complete : complete (enc_trans_proto Cd) enc_trans_rel enc_trans_rok.
  Proof. exact (enc_trans_complete_ Cd). Qed.
  Theorem enc_trans_special_sound : special_sound (enc_trans_proto Cd) enc_trans_rel enc_trans_extractor.
  Proof. exact (enc_trans_special_sound_ Cd). Qed.
  Theorem enc_trans_rejects_wrong_length : forall (s : enc_trans_stmt M) c zc z1 z2 a,
    enc_trans_extract s c (zc, z1, z2) = Some a ->
    List.length z1 = List.length (et_e1 s) /\ List.length z2 = List.length (et_e2 s).
  Proof. exact enc_trans_extract_length_. Qed.
  Theorem enc_trans_public_covers_statement_v1 :
    public_prefix_free (enc_trans_proto Cd) V1
      (fun s => (N.of_nat (List.length (et_e1 s)) < W64)%N /\ (N.of_nat (List.length (et_e2 s)) < W64)%N).
  Proof. exact (enc_trans_public_prefix_free_v1_ Cd). Qed.
  Theorem enc_trans_public_covers_statement_fixed_size : forall k n1 n2,
    public_prefix_free (enc_trans_proto Cd) k (fun s => List.length (et_e1 s) = n1 /\ List.length (et_e2 s) = n2).
  Proof. exact (enc_trans_public_prefix_free_fixed_size_ Cd). Qed.

  Theorem com_lin_complete : complete (com_lin_proto Cd) com_lin_rel com_lin_rok.
  Proof. exact (com_lin_complete_ Cd). Qed.
  Theorem com_lin_special_sound : special_sound (com_lin_proto Cd) com_lin_rel com_lin_extractor.
  Proof. exact (com_lin_special_sound_ Cd). Qed.
  Theorem com_lin_rejects_wrong_length : forall (s : com_lin_stmt M) c zs ss sf a, com_lin_extract s c (zs, ss, sf) = Some a ->
    List.length zs = List.length (cl_cmms s) /\ List.length ss = List.length (cl_cmms s) /\
    List.length (cl_us s) = List.length (cl_cmms s).
  Proof. exact com_lin_extract_length_. Qed.
  Theorem com_lin_public_covers_statement_v1 :
    public_prefix_free (com_lin_proto Cd) V1
      (fun s => (N.of_nat (List.length (cl_us s)) < W64)%N /\ (N.of_nat (List.length (cl_cmms s)) < W64)%N).
  Proof. exact (com_lin_public_prefix_free_v1_ Cd). Qed.
  Theorem com_lin_public_covers_statement_fixed_size : forall k n,
    public_prefix_free (com_lin_proto Cd) k (fun s => List.length (cl_us s) = n /\ List.length (cl_cmms s) = n).
  Proof. exact (com_lin_public_prefix_free_fixed_size_ Cd). Qed.

  (** com_ineq (wrapper around ComMult with its own legacy transcript prefix) *)
  Theorem com_ineq_complete : forall (H : bytes -> bytes) (sfb : bytes -> K) g h x xt v r2 rnd, x <> v ->
    exists proof, prove_com_ineq Cd H sfb g h x xt v r2 rnd = Some proof /\
                  verify_com_ineq Cd H sfb g h (Gadd M (smul M x g) (smul M xt h)) v proof = true.
  Proof. intros H sfb. exact (com_ineq_complete_ Cd H sfb). Qed.
  Theorem com_ineq_extracted_witness : forall (g h c : M) v aux x1 x2 r1 r2 r3,
    com_mult_rel (com_ineq_stmt g h c v aux) (x1, x2, r1, r2, r3) ->
    c = Gadd M (smul M (Fadd K x1 v) g) (smul M r1 h) /\ (x1 = F0 K -> g = smul M r3 h).
  Proof. exact com_ineq_extracted_witness_. Qed.
  Theorem com_ineq_context_covers_statement : forall g h c v g' h' c' v' x y,
    com_ineq_ctx Cd g h c v ++ x = com_ineq_ctx Cd g' h' c' v' ++ y -> g = g' /\ h = h' /\ c = c' /\ v = v' /\ x = y.
  Proof. exact (com_ineq_ctx_injective_ Cd). Qed.
  (** dlogaggequal.rs (private, unused reference module; model only): the number of inner response
      vectors is not compared with the number of aggregates *)
  Theorem dlogaggequal_response_count_unchecked_refuted : forall (d : dlog_stmt M) (a : agg_stmt M) (c zc : K),
    exists cm, dae_extract (d, [a]) c (zc, []) = Some (cm, []).
  Proof. exact dlogaggequal_response_count_unchecked_refuted_. Qed.

  (** vcom_eq (model of the code after the repair 82fae784a) *)
  Theorem vcom_eq_complete : complete (vcom_proto Cd) (vcom_rel (M:=M)) vcom_rok.
  Proof. exact (vcom_complete_ Cd). Qed.
  Theorem vcom_eq_checks_every_commitment : forall (s : vcom_stmt M) c sis t tis a pts,
    vcom_extract s c (sis, t, tis) = Some (a, pts) ->
    List.length pts = List.length (vc_comms s) /\ List.length sis = List.length (vc_gis s) /\
    List.length tis = List.length (vc_comms s).
  Proof. exact vcom_extract_checks_every_commitment_. Qed.
  (** the code before the repair accepted a response keyed {1} for comms keyed {0} without ever
      looking at the commitment C_0 (fixed: known_findings.json "fixed", replayed by the check) *)
  Theorem vcom_eq_prefix_unchecked_commitment_refuted : forall (g h gb hb C C0 C0' : M) (c s0 s1 t t1 : K),
    let st X := mkVcom C [(0%N, X)] [g; g] h gb hb in
    vcom_extract_prefix (st C0) c ([s0; s1], t, [(1%N, t1)]) = vcom_extract_prefix (st C0') c ([s0; s1], t, [(1%N, t1)])
    /\ exists a, vcom_extract_prefix (st C0) c ([s0; s1], t, [(1%N, t1)]) = Some (a, [])
    /\ vcom_extract (st C0) c ([s0; s1], t, [(1%N, t1)]) = None.
  Proof. exact vcom_prefix_unchecked_commitment_refuted_. Qed.
  Theorem vcom_eq_public_covers_statement_v1 :
    public_prefix_free (vcom_proto Cd) V1
      (fun s => (N.of_nat (List.length (vc_gis s)) < W64)%N /\ (N.of_nat (List.length (vc_comms s)) < W64)%N).
  Proof. exact (vcom_public_prefix_free_v1_ Cd). Qed.
End Instances.
Print Assumptions dlog_complete.
Print Assumptions dlog_special_sound.
Print Assumptions dlog_public_covers_statement.
Print Assumptions dlogeq_complete.
Print Assumptions dlogeq_special_sound.
Print Assumptions dlogeq_public_covers_statement.
Print Assumptions com_eq_complete.
Print Assumptions com_eq_special_sound.
Print Assumptions com_eq_public_covers_statement.
Print Assumptions com_enc_eq_complete.
Print Assumptions com_enc_eq_special_sound.
Print Assumptions com_enc_eq_public_covers_statement_refuted.
Print Assumptions com_enc_eq_generator_unbound_when_z2_zero.
Print Assumptions com_enc_eq_public_covers_statement_partial.
Print Assumptions com_mult_complete.
Print Assumptions com_mult_special_sound.
Print Assumptions com_mult_public_covers_statement.
Print Assumptions aggregate_dlog_complete.
Print Assumptions aggregate_dlog_special_sound.
Print Assumptions aggregate_dlog_public_covers_statement_v1.
Print Assumptions aggregate_dlog_public_covers_statement_legacy_fixed_size.
Print Assumptions dlog_frame_is_messages.
Print Assumptions aggregate_dlog_rejects_wrong_length.
Print Assumptions enc_trans_complete.
Print Assumptions enc_trans_special_sound.
Print Assumptions enc_trans_rejects_wrong_length.
Print Assumptions enc_trans_public_covers_statement_v1.
Print Assumptions enc_trans_public_covers_statement_fixed_size.
Print Assumptions com_lin_complete.
Print Assumptions com_lin_special_sound.
Print Assumptions com_lin_rejects_wrong_length.
Print Assumptions com_lin_public_covers_statement_v1.
Print Assumptions com_lin_public_covers_statement_fixed_size.
Print Assumptions com_ineq_complete.
Print Assumptions com_ineq_extracted_witness.
Print Assumptions com_ineq_context_covers_statement.

Print Assumptions dlogaggequal_response_count_unchecked_refuted.
Print Assumptions vcom_eq_complete.
Print Assumptions vcom_eq_checks_every_commitment.
Print Assumptions vcom_eq_prefix_unchecked_commitment_refuted.
Print Assumptions vcom_eq_public_covers_statement_v1.

(** com_eq_sig: pairing groups (AlgPairing.v), commitments in a fourth module *)
Section Pairing.
  Context (K : FieldOps) (KL : FieldLaws K) (P : PairOps K) (PL : PairLaws P) (MC : ModOps K) (MLC : ModLaws MC)
          (Cd1 : CodecOps (PM1 P)) (Cd2 : CodecOps (PM2 P)) (CdT : CodecOps (PMT P)) (CdC : CodecOps MC)
          (CL1 : CodecLaws Cd1) (CL2 : CodecLaws Cd2) (CLC : CodecLaws CdC).
  Theorem com_eq_sig_complete : complete (ces_proto Cd1 Cd2 CdT CdC) ces_rel ces_rok.
  Proof. exact (ces_complete_ Cd1 Cd2 CdT CdC). Qed.
  Theorem com_eq_sig_special_sound : special_sound (ces_proto Cd1 Cd2 CdT CdC)
    (fun s w => (List.length (cs_cmts s) <= List.length (cs_ys s))%nat -> ces_rel s w) ces_extractor.
  Proof. exact (ces_special_sound_ Cd1 Cd2 CdT CdC). Qed.
  Theorem com_eq_sig_rejects_wrong_length : forall (s : ces_stmt P MC) c zr zs a,
    ces_extract s c (zr, zs) = Some a -> List.length zs = List.length (cs_cmts s).
  Proof. exact ces_extract_length_. Qed.
  Theorem com_eq_sig_public_covers_statement_v1 :
    public_prefix_free (ces_proto Cd1 Cd2 CdT CdC) V1
      (fun s => (N.of_nat (List.length (cs_cmts s)) < W64)%N /\ (N.of_nat (List.length (cs_ys s)) < W32)%N /\
                (N.of_nat (List.length (cs_yts s)) < W32)%N).
  Proof. exact (ces_public_prefix_free_v1_ Cd1 Cd2 CdT CdC). Qed.
  (** ps_sig_known: messages committed / public / known *)
  Theorem ps_sig_known_complete : complete (pss_proto Cd1 Cd2 CdT CdC) pss_rel pss_rok.
  Proof. exact (pss_complete_ Cd1 Cd2 CdT CdC). Qed.
  Theorem ps_sig_known_rejects_wrong_length : forall (s : pss_stmt P MC) c zr zs a,
    pss_extract s c (zr, zs) = Some a -> List.length zs = List.length (ps_msgs s).
  Proof. exact pss_extract_length_. Qed.
End Pairing.
Print Assumptions ps_sig_known_complete.
Print Assumptions ps_sig_known_rejects_wrong_length.
Print Assumptions com_eq_sig_complete.
Print Assumptions com_eq_sig_special_sound.
Print Assumptions com_eq_sig_rejects_wrong_length.
Print Assumptions com_eq_sig_public_covers_statement_v1.

(** com_eq_different_groups: two modules over one field *)
Section TwoGroups.
  Context (K : FieldOps) (KL : FieldLaws K) (M1 M2 : ModOps K) (ML1 : ModLaws M1) (ML2 : ModLaws M2)
          (Cd1 : CodecOps M1) (Cd2 : CodecOps M2) (CL1 : CodecLaws Cd1) (CL2 : CodecLaws Cd2).
  Theorem com_eq_different_groups_complete : complete (ced_proto Cd1 Cd2) ced_rel (fun _ _ => True).
  Proof. exact (ced_complete_ Cd1 Cd2). Qed.
  Theorem com_eq_different_groups_special_sound : special_sound (ced_proto Cd1 Cd2) ced_rel ced_extractor.
  Proof. exact (ced_special_sound_ Cd1 Cd2). Qed.
  Theorem com_eq_different_groups_public_covers_statement : forall k, public_prefix_free (ced_proto Cd1 Cd2) k (fun _ => True).
  Proof. exact (ced_public_prefix_free_ Cd1 Cd2). Qed.
End TwoGroups.
Print Assumptions com_eq_different_groups_complete.
Print Assumptions com_eq_different_groups_special_sound.
Print Assumptions com_eq_different_groups_public_covers_statement.

(** * Non-vacuity: the hypotheses are satisfiable, on the executable instance (Z mod r) *)
(** a valid dlog statement (public = 3 * coeff), its honest transcript is reproduced *)
Example nonvacuous_honest_dlog :
  match x_honest X_dlog V1 (domain V1 [99; 48; 55]%N) [15; 5]%Z [3]%Z 7%Z [100]%Z with
  | Some (cm_ok, resp_ok, rel_ok, _, _) => cm_ok && resp_ok && rel_ok = true
  | None => False
  end.
Proof. vm_compute. reflexivity. Qed.
Print Assumptions nonvacuous_honest_dlog.
(** two accepting transcripts with one commitment and different challenges exist (hypotheses of
    special soundness), and the extractor returns the witness 3 *)
Example nonvacuous_special_soundness :
  let A := [[5%Z]] in let y := [15%Z] in
  m_reconstruct (M:=ZrG) RespMinus A y 7%Z [79%Z] = m_reconstruct (M:=ZrG) RespMinus A y 2%Z [94%Z]
  /\ 7%Z <> 2%Z /\ m_extract (K:=ZrF) RespMinus 7%Z 2%Z [79%Z] [94%Z] = [3%Z].
Proof. split; [vm_compute; reflexivity|]. split; [discriminate|vm_compute; reflexivity]. Qed.
Print Assumptions nonvacuous_special_soundness.

(** * Round 4: special soundness of vcom_eq and ps_sig_known, response injectivity, compositions of any size *)
Section Round4Vcom.
  Context (K : FieldOps) (KL : FieldLaws K) (M : ModOps K) (ML : ModLaws M) (Cd : CodecOps M).
  (** two accepting transcripts (one commit message, different challenges) of vcom_eq.rs yield, by the
      explicit extractor, a witness for the SAME relation [vcom_rel] as in [vcom_eq_complete]:
      C = sum x_i*g_i + r*h, every individual commitment C_i = x_i*g_bar + r_i*h_bar, key sets equal *)
  Theorem vcom_eq_special_sound : special_sound (vcom_proto Cd) (vcom_rel (M:=M)) vcom_extractor.
  Proof. exact (vcom_special_sound_ Cd). Qed.
  Theorem vcom_eq_response_injective : forall (s : vcom_stmt M) (c : K) sis t tis sis' t' tis' cm,
    (forall (u v : list K) (x y : K), List.length u = List.length (vc_gis s) -> List.length v = List.length (vc_gis s) ->
       Gadd M (msm u (vc_gis s)) (smul M x (vc_h s)) = Gadd M (msm v (vc_gis s)) (smul M y (vc_h s)) -> u = v /\ x = y) ->
    (forall x y x' y' : K, Gadd M (smul M x (vc_gbar s)) (smul M y (vc_hbar s)) =
                           Gadd M (smul M x' (vc_gbar s)) (smul M y' (vc_hbar s)) -> x = x' /\ y = y') ->
    vcom_extract s c (sis, t, tis) = Some cm -> vcom_extract s c (sis', t', tis') = Some cm ->
    sis = sis' /\ t = t' /\ forall k, aget tis k = aget tis' k.
  Proof. exact vcom_response_injective_. Qed.
End Round4Vcom.
Print Assumptions vcom_eq_special_sound.
Print Assumptions vcom_eq_response_injective.

Section Round4Pairing.
  Context (K : FieldOps) (KL : FieldLaws K) (P : PairOps K) (PL : PairLaws P) (MC : ModOps K) (MLC : ModLaws MC)
          (Cd1 : CodecOps (PM1 P)) (Cd2 : CodecOps (PM2 P)) (CdT : CodecOps (PMT P)) (CdC : CodecOps MC).
  (** ps_sig_known.rs: the extracted values satisfy [pss_rel] (the relation of [ps_sig_known_complete]):
      C_i = m_i*g + r_i*h for the committed messages and e(b,g~) = e(a, X~ + sum_i m_i*Y~_i + r'*g~) *)
  Theorem ps_sig_known_special_sound :
    special_sound (pss_proto Cd1 Cd2 CdT CdC) (pss_rel (P:=P) (MC:=MC)) pss_extractor.
  Proof. exact (pss_special_sound_ Cd1 Cd2 CdT CdC). Qed.
  (** com_eq_sig.rs: everything of [ces_rel] except the prover-side bound [|commitments| <= |ys|] follows
      unconditionally; with the bound, [ces_rel] *)
  Theorem com_eq_sig_special_sound_unconditional : forall (s : ces_stmt P MC) a c c' z z', c <> c' ->
    ces_extract s c z = Some a -> ces_extract s c' z' = Some a ->
    let w := ces_extractor s c c' z z' in
    List.length (snd w) = List.length (cs_cmts s) /\ (List.length (cs_cmts s) <= List.length (cs_yts s))%nat /\
    cs_cmts s = map (fun v => Gadd MC (smul MC (fst v) (cs_g s)) (smul MC (snd v) (cs_h s))) (snd w) /\
    pe P (cs_b s) (cs_gt s) =
      pe P (cs_a s) (Gadd (PM2 P) (cs_xt s) (Gadd (PM2 P) (msm (map fst (snd w)) (cs_yts s)) (smul (PM2 P) (fst w) (cs_gt s)))) /\
    ((List.length (cs_cmts s) <= List.length (cs_ys s))%nat -> ces_rel s w).
  Proof. exact (ces_special_sound_key_length_ Cd1 Cd2 CdT CdC). Qed.
  Theorem com_eq_sig_response_injective : forall (s : ces_stmt P MC) (c : K) (z z' : ces_wit) cm,
    (forall x y x' y' : K, Gadd MC (smul MC x (cs_g s)) (smul MC y (cs_h s)) =
                           Gadd MC (smul MC x' (cs_g s)) (smul MC y' (cs_h s)) -> x = x' /\ y = y') ->
    (forall x x' : K, smul (PMT P) x (pe P (cs_a s) (cs_gt s)) = smul (PMT P) x' (pe P (cs_a s) (cs_gt s)) -> x = x') ->
    ces_extract s c z = Some cm -> ces_extract s c z' = Some cm -> z = z'.
  Proof. exact ces_response_injective_. Qed.
End Round4Pairing.
Print Assumptions ps_sig_known_special_sound.
Print Assumptions com_eq_sig_special_sound_unconditional.
Print Assumptions com_eq_sig_response_injective.

(** compositions of ANY size.  [rep_core] = the three functions of [ReplicateAdapter] exactly as coded
    (total, also for zero protocols); [rep_proto] = guarded by the non-emptiness precondition of
    [get_challenge] *)
Theorem replicate_core_complete : forall (K : FieldOps) (P : proto K) rel rok,
  complete P rel rok -> complete (rep_core P) (Forall2 rel) (Forall2 rok).
Proof. exact @rep_core_complete_. Qed.
Print Assumptions replicate_core_complete.
Theorem replicate_core_special_sound : forall (K : FieldOps) (P : proto K) rel ex,
  special_sound P rel ex -> special_sound (rep_core P) (Forall2 rel) (rep_extractor P ex).
Proof. exact @rep_core_special_sound_. Qed.
Print Assumptions replicate_core_special_sound.
Theorem replicate_special_sound : forall (K : FieldOps) (P : proto K) rel ex,
  special_sound P rel ex -> special_sound (rep_proto P) (rep_rel rel) (rep_extractor P ex).
Proof. exact @rep_special_sound_. Qed.
Print Assumptions replicate_special_sound.
Theorem replicate_core_statement_binding_v1 : forall (K : FieldOps) (H : bytes -> bytes) (sfb : bytes -> K) (P : proto K) ok,
  public_prefix_free P V1 ok ->
  forall ctx ss ss' pi,
    (N.of_nat (List.length ss) < W64)%N -> Forall ok ss -> (N.of_nat (List.length ss') < W64)%N -> Forall ok ss' ->
    ss <> ss' ->
    fst (verify H sfb (rep_core P) V1 ctx ss pi) = true -> fst (verify H sfb (rep_core P) V1 ctx ss' pi) = true ->
    exists x x', x <> x' /\ H x = H x'.
Proof. exact @rep_statement_binding_v1_. Qed.
Print Assumptions replicate_core_statement_binding_v1.
Theorem replicate_statement_binding_v1 : forall (K : FieldOps) (H : bytes -> bytes) (sfb : bytes -> K) (P : proto K) ok,
  public_prefix_free P V1 ok ->
  forall ctx ss ss' pi,
    (N.of_nat (List.length ss) < W64)%N -> Forall ok ss -> (N.of_nat (List.length ss') < W64)%N -> Forall ok ss' ->
    ss <> ss' ->
    fst (verify H sfb (rep_proto P) V1 ctx ss pi) = true -> fst (verify H sfb (rep_proto P) V1 ctx ss' pi) = true ->
    exists x x', x <> x' /\ H x = H x'.
Proof. exact @rep_proto_statement_binding_v1_. Qed.
Print Assumptions replicate_statement_binding_v1.
Theorem replicate_zero_instances : forall (K : FieldOps) (P : proto K) c zs,
  (p_extract (rep_core P) [] c zs = Some [] <-> zs = []) /\
  (forall a, p_extract (rep_core P) [] c zs = Some a -> a = [] /\ zs = []) /\
  p_extract (rep_proto P) [] c zs = None /\
  p_commit (rep_core P) [] [] = Some [] /\ p_respond (rep_core P) [] [] [] c = Some [].
Proof. exact @rep_zero_instances_. Qed.
Print Assumptions replicate_zero_instances.
(** [first.add_prover(p1)...add_prover(pn)] for any n >= 0 *)
Theorem and_any_number_is_nested_adapter : forall (K : FieldOps) (Bs : list (@cproto K)) (A : @cproto K),
  cp (and_all A Bs) = fold_left and_proto (map cp Bs) (cp A).
Proof. exact @and_all_is_nested_adapter_. Qed.
Print Assumptions and_any_number_is_nested_adapter.
Theorem and_any_number_certified : forall (K : FieldOps) (A : @cproto K) (Bs : list (@cproto K)),
  let C := and_all A Bs in
  complete (cp C) (cp_rel C) (cp_rok C) /\ special_sound (cp C) (cp_rel C) (cp_ex C) /\
  (forall k, public_prefix_free (cp C) k (cp_ok C)) /\
  forall (H : bytes -> bytes) (sfb : bytes -> K) k ctx s s' pi, cp_ok C s -> cp_ok C s' -> s <> s' ->
    fst (verify H sfb (cp C) k ctx s pi) = true -> fst (verify H sfb (cp C) k ctx s' pi) = true ->
    exists x x', x <> x' /\ H x = H x'.
Proof. exact @and_all_certified_. Qed.
Print Assumptions and_any_number_certified.
Theorem and_shared_challenge : forall (K : FieldOps) (P1 P2 : proto K) s c z a,
  p_extract (and_proto P1 P2) s c z = Some a <->
  p_extract P1 (fst s) c (fst z) = Some (fst a) /\ p_extract P2 (snd s) c (snd z) = Some (snd a).
Proof. exact @and_extract_shared_challenge_. Qed.
Print Assumptions and_shared_challenge.
Theorem and_framing_concatenates : forall (K : FieldOps) (P1 P2 : proto K) k s a z,
  p_public (and_proto P1 P2) k s = p_public P1 k (fst s) ++ p_public P2 k (snd s) /\
  p_ser_cm (and_proto P1 P2) a = p_ser_cm P1 (fst a) ++ p_ser_cm P2 (snd a) /\
  p_ser_resp (and_proto P1 P2) z = p_ser_resp P1 (fst z) ++ p_ser_resp P2 (snd z).
Proof. exact @and_framing_concatenates_. Qed.
Print Assumptions and_framing_concatenates.

(** * Round 4 non-vacuity (Z mod r "in the exponent"; F2 x F2 for the independence hypotheses) *)
(** vcom_eq: gis = [2;3], h = 5, g_bar = 7, h_bar = 11, x = [4;6], r = 9, one individual commitment at index 0 (r_0 = 13).
    Two honest responses (challenges 7 and 2, same randomness) reconstruct the same commit message, and the extractor
    returns the witness. *)
Example nonvacuous_vcom_eq_special_soundness :
  let s := @mkVcom ZrF ZrG 71%Z [(0%N, 171%Z)] [2; 3]%Z 5%Z 7%Z 11%Z in
  let w : vc_wit (K:=ZrF) := ([4; 6]%Z, 9%Z, [(0%N, 13%Z)]) in
  let r : vc_wit (K:=ZrF) := ([10; 20]%Z, 30%Z, [(0%N, 40%Z)]) in
  match vcom_respond s w r 7%Z, vcom_respond s w r 2%Z with
  | Some z, Some z' =>
    vcom_extract s 7%Z z = vcom_commit s r /\ vcom_extract s 2%Z z' = vcom_commit s r /\ vcom_commit s r <> None /\
    vcom_extractor s 7%Z 2%Z z z' = w
  | _, _ => False
  end.
Proof. vm_compute. repeat split; try reflexivity. discriminate. Qed.
Print Assumptions nonvacuous_vcom_eq_special_soundness.
(** attack corpus (model side): a response that satisfies every equation but ONE is rejected - altering t_0 changes
    only the reconstructed point of the individual commitment 0, altering t only the vector-commitment point, and
    dropping the answer for commitment 0 (or keying it 1) makes the verifier return None *)
Example vcom_eq_all_but_one_equation_rejected :
  let s := @mkVcom ZrF ZrG 71%Z [(0%N, 171%Z)] [2; 3]%Z 5%Z 7%Z 11%Z in
  let w : vc_wit (K:=ZrF) := ([4; 6]%Z, 9%Z, [(0%N, 13%Z)]) in
  let r : vc_wit (K:=ZrF) := ([10; 20]%Z, 30%Z, [(0%N, 40%Z)]) in
  match vcom_respond s w r 7%Z, vcom_commit s r with
  | Some (sis, t, tis), Some (a, pts) =>
    vcom_extract s 7%Z (sis, t, tis) = Some (a, pts) /\
    (exists p', vcom_extract s 7%Z (sis, t, [(0%N, (snd (hd (0%N, 0%Z) tis) + 1)%Z)]) = Some (a, [p']) /\ [p'] <> pts) /\
    (exists a', vcom_extract s 7%Z (sis, (t + 1)%Z, tis) = Some (a', pts) /\ a' <> a) /\
    vcom_extract s 7%Z (sis, t, []) = None /\
    vcom_extract s 7%Z (sis, t, [(1%N, snd (hd (0%N, 0%Z) tis))]) = None
  | _, _ => False
  end.
Proof.
  vm_compute. split; [reflexivity|]. split; [eexists; split; [reflexivity|discriminate]|].
  split; [eexists; split; [reflexivity|discriminate]|]. split; reflexivity.
Qed.
Print Assumptions vcom_eq_all_but_one_equation_rejected.
(** ps_sig_known: messages [committed 4 (r = 6); public 5; known 8], Y~ = [3;5;7], X~ = 11, r' = 13, a = 2, g~ = 1,
    b = a*(X~ + 93 + r'), commitment key (17, 19) *)
Example nonvacuous_ps_sig_known_special_soundness :
  let s := @mkPss ZrF ZrPair ZrG 2%Z 234%Z [MEq 182%Z; MPub 5%Z; MKnown] 1%Z 1%Z [1; 1; 1]%Z [3; 5; 7]%Z 11%Z 17%Z 19%Z in
  let w : pss_wit (K:=ZrF) := (13%Z, [VEq 4%Z 6%Z; VPub; VKnown 8%Z]) in
  let r : pss_wit (K:=ZrF) := (21%Z, [VEq 22%Z 23%Z; VPub; VKnown 24%Z]) in
  match pss_respond s w r 7%Z, pss_respond s w r 2%Z with
  | Some z, Some z' =>
    pss_extract s 7%Z z = pss_commit s r /\ pss_extract s 2%Z z' = pss_commit s r /\ pss_commit s r <> None /\
    pss_extractor s 7%Z 2%Z z z' = w
  | _, _ => False
  end.
Proof. vm_compute. repeat split; try reflexivity. discriminate. Qed.
Print Assumptions nonvacuous_ps_sig_known_special_soundness.
(** attack corpus (model side): altering the randomness response of the committed message changes ONLY that
    commitment's point (the pairing equation still holds) - rejected; altering the response of the known message
    changes ONLY the pairing value - rejected *)
Example ps_sig_known_all_but_one_equation_rejected :
  let s := @mkPss ZrF ZrPair ZrG 2%Z 234%Z [MEq 182%Z; MPub 5%Z; MKnown] 1%Z 1%Z [1; 1; 1]%Z [3; 5; 7]%Z 11%Z 17%Z 19%Z in
  let w : pss_wit (K:=ZrF) := (13%Z, [VEq 4%Z 6%Z; VPub; VKnown 8%Z]) in
  let r : pss_wit (K:=ZrF) := (21%Z, [VEq 22%Z 23%Z; VPub; VKnown 24%Z]) in
  match pss_respond s w r 7%Z, pss_commit s r with
  | Some (zr, [VEq zm zrr; VPub; VKnown zk]), Some (a, cs) =>
    pss_extract s 7%Z (zr, [VEq zm zrr; VPub; VKnown zk]) = Some (a, cs) /\
    (exists cs', pss_extract s 7%Z (zr, [VEq zm (zrr + 1)%Z; VPub; VKnown zk]) = Some (a, cs') /\ cs' <> cs) /\
    (exists a', pss_extract s 7%Z (zr, [VEq zm zrr; VPub; VKnown (zk + 1)%Z]) = Some (a', cs) /\ a' <> a) /\
    pss_extract s 7%Z (zr, [VEq zm zrr; VPub]) = None
  | _, _ => False
  end.
Proof.
  vm_compute. split; [reflexivity|]. split; [eexists; split; [reflexivity|discriminate]|].
  split; [eexists; split; [reflexivity|discriminate]|]. reflexivity.
Qed.
Print Assumptions ps_sig_known_all_but_one_equation_rejected.
(** com_eq_sig: the same with two committed messages; and the injectivity hypotheses are satisfiable (F2 x F2) *)
Example com_eq_sig_all_but_one_equation_rejected :
  let s := @mkCes ZrF ZrPair ZrG 2%Z 152%Z [182; 307]%Z 1%Z 1%Z [1; 1]%Z [3; 5]%Z 11%Z 17%Z 19%Z in
  let w : ces_wit (K:=ZrF) := (13%Z, [(4, 6); (8, 9)]%Z) in
  let r : ces_wit (K:=ZrF) := (21%Z, [(22, 23); (24, 25)]%Z) in
  match ces_respond s w r 7%Z, ces_commit s r with
  | Some (zr, [(m1, r1); (m2, r2)]), Some (a, cs) =>
    ces_extract s 7%Z (zr, [(m1, r1); (m2, r2)]) = Some (a, cs) /\
    (exists cs', ces_extract s 7%Z (zr, [(m1, r1); (m2, (r2 + 1)%Z)]) = Some (a, cs') /\ cs' <> cs /\ hd 0%Z cs' = hd 0%Z cs) /\
    (exists a', ces_extract s 7%Z ((zr + 1)%Z, [(m1, r1); (m2, r2)]) = Some (a', cs) /\ a' <> a) /\
    ces_extract s 7%Z (zr, [(m1, r1)]) = None /\
    ces_extractor s 7%Z 2%Z (zr, [(m1, r1); (m2, r2)])
      (match ces_respond s w r 2%Z with Some z' => z' | None => (0%Z, []) end) = w
  | _, _ => False
  end.
Proof.
  vm_compute. split; [reflexivity|]. split; [eexists; split; [reflexivity|split; [discriminate|reflexivity]]|].
  split; [eexists; split; [reflexivity|discriminate]|]. split; reflexivity.
Qed.
Print Assumptions com_eq_sig_all_but_one_equation_rejected.
Example nonvacuous_com_eq_sig_response_injective :
  let s := @mkCes F2 F2Pair F2M2 true true [(true, true)] true true [true] [true] true (true, false) (false, true) in
  (forall x y x' y' : F2, Gadd F2M2 (smul F2M2 x (cs_g s)) (smul F2M2 y (cs_h s)) =
                          Gadd F2M2 (smul F2M2 x' (cs_g s)) (smul F2M2 y' (cs_h s)) -> x = x' /\ y = y') /\
  (forall x x' : F2, smul F2M x (pe F2Pair (cs_a s) (cs_gt s)) = smul F2M x' (pe F2Pair (cs_a s) (cs_gt s)) -> x = x') /\
  ces_extract s true (true, [(true, false)]) <> None /\
  ces_extract s true (true, [(true, false)]) <> ces_extract s true (true, [(true, true)]).
Proof.
  split; [exact F2M2_independent|]. split; [exact F2_unit_faithful|]. split; vm_compute; discriminate.
Qed.
Print Assumptions nonvacuous_com_eq_sig_response_injective.
(** vcom_eq with one generator g = (1,0), h = (0,1) and key g_bar = (1,0), h_bar = (0,1) *)
Example nonvacuous_vcom_eq_response_injective :
  let s := @mkVcom F2 F2M2 (true, true) [(0%N, (true, true))] [(true, false)] (false, true) (true, false) (false, true) in
  (forall (u v : list F2) (x y : F2), List.length u = List.length (vc_gis s) -> List.length v = List.length (vc_gis s) ->
     Gadd F2M2 (msm u (vc_gis s)) (smul F2M2 x (vc_h s)) = Gadd F2M2 (msm v (vc_gis s)) (smul F2M2 y (vc_h s)) -> u = v /\ x = y) /\
  (forall x y x' y' : F2, Gadd F2M2 (smul F2M2 x (vc_gbar s)) (smul F2M2 y (vc_hbar s)) =
                          Gadd F2M2 (smul F2M2 x' (vc_gbar s)) (smul F2M2 y' (vc_hbar s)) -> x = x' /\ y = y') /\
  vcom_extract s true ([true], false, [(0%N, true)]) <> None /\
  vcom_extract s true ([true], false, [(0%N, true)]) <> vcom_extract s true ([true], false, [(0%N, false)]).
Proof.
  split.
  { intros [|u [|? ?]] [|v [|? ?]] x y Lu Lv; try discriminate. cbn.
    destruct u, v, x, y; cbn; intro E; split; try reflexivity; discriminate. }
  split; [exact F2M2_independent|]. split; vm_compute; discriminate.
Qed.
Print Assumptions nonvacuous_vcom_eq_response_injective.
(** replicate with two and with zero instances of dlog: two accepting transcripts exist and the extractor returns
    the witnesses (3 and 4); zero instances: the empty proof, the empty witness list *)
Example nonvacuous_replicate_special_soundness :
  let P := dlog_proto ZrCodec in
  let ss := [@mkDlog ZrF ZrG 15%Z 5%Z; @mkDlog ZrF ZrG 28%Z 7%Z] in
  match p_respond (rep_core P) ss [3; 4]%Z [10; 20]%Z 7%Z, p_respond (rep_core P) ss [3; 4]%Z [10; 20]%Z 2%Z with
  | Some z, Some z' =>
    p_extract (rep_core P) ss 7%Z z = p_commit (rep_core P) ss [10; 20]%Z /\
    p_extract (rep_core P) ss 2%Z z' = p_commit (rep_core P) ss [10; 20]%Z /\
    p_commit (rep_core P) ss [10; 20]%Z <> None /\
    p_extract (rep_proto P) ss 7%Z z = p_extract (rep_core P) ss 7%Z z /\
    p_extract (rep_core P) [] 7%Z [] = Some []
  | _, _ => False
  end.
Proof. vm_compute. repeat split; try reflexivity. discriminate. Qed.
Print Assumptions nonvacuous_replicate_special_soundness.
(** dlogaggequal (tied to the code through the cfg hook): an honest transcript with two aggregates (sizes 1 and 2) is
    reproduced by the executable model; and the response-count observation on the same instance: the response without
    the last inner vector is not rejected by [extract_commit_message] (it reconstructs one point fewer) *)
Example nonvacuous_honest_dlogaggequal :
  match x_honest X_dlogaggequal V1 (domain V1 [99; 48; 55]%N) [2; 15; 5; 21; 7; 50; 2; 11]%Z [2; 3; 4]%Z 7%Z [2; 100; 200]%Z with
  | Some (cm_ok, resp_ok, rel_ok, _, _) => cm_ok && resp_ok && rel_ok = true
  | None => False
  end /\
  x_verify_dae_trunc V1 [] [2; 15; 5; 21; 7; 50; 2; 11]%Z [1]%N 1 [200]%Z <> None.
Proof. split; [vm_compute; reflexivity|vm_compute; discriminate]. Qed.
Print Assumptions nonvacuous_honest_dlogaggequal.
(** the one-row protocol for an abstract homomorphism [phi : W -> M] (any response type with a subtraction and a scaling
    that [phi] respects): special soundness and response injectivity; the Pedersen row as coded in com_eq_sig.rs /
    ps_sig_known.rs / vcom_eq.rs is the instance W = K*K, phi (x,y) = x*g + y*h *)
Theorem hom_special_sound : forall (K : FieldOps) (KL : FieldLaws K) (M : ModOps K) (ML : ModLaws M)
    (W : Type) (wsub : W -> W -> W) (wscale : K -> W -> W) (phi : W -> M),
  (forall d z z', phi (wscale d (wsub z z')) = smul M d (Gsub M (phi z) (phi z'))) ->
  forall (y : M) (c c' : K) (z z' : W), c <> c' ->
  Gadd M (smul M c y) (phi z) = Gadd M (smul M c' y) (phi z') -> phi (wscale (Finv K (Fsub K c' c)) (wsub z z')) = y.
Proof. intros K KL M ML. exact hom_special_sound_. Qed.
Print Assumptions hom_special_sound.
Theorem hom_response_injective : forall (K : FieldOps) (M : ModOps K) (ML : ModLaws M) (W : Type) (phi : W -> M)
    (y : M) (c : K) (z z' : W),
  (forall u v, phi u = phi v -> u = v) -> Gadd M (smul M c y) (phi z) = Gadd M (smul M c y) (phi z') -> z = z'.
Proof. intros K M ML. exact hom_response_injective_. Qed.
Print Assumptions hom_response_injective.
Theorem pedersen_row_special_sound : forall (K : FieldOps) (KL : FieldLaws K) (M : ModOps K) (ML : ModLaws M) (g h : M)
    (C : M) (c c' : K) (z z' : K * K), c <> c' ->
  Gadd M (smul M c C) (Gadd M (smul M (fst z) g) (smul M (snd z) h)) =
  Gadd M (smul M c' C) (Gadd M (smul M (fst z') g) (smul M (snd z') h)) ->
  C = ped_phi g h (ped_scale (Finv K (Fsub K c' c)) (ped_sub z z')).
Proof. intros K KL M ML. exact ped_row_special_sound_. Qed.
Print Assumptions pedersen_row_special_sound.
(** dlogaggequal.rs (private reference module): the number of inner response vectors is not compared with the number
    of aggregates - in BOTH directions, for all statements (observed on the real code through the cfg hook: the
    truncated-response attack and the surplus-vector perturbation are accepted; compared with this model by the check) *)
Theorem dlogaggequal_surplus_responses_ignored_refuted : forall (K : FieldOps) (M : ModOps K)
    (s : dae_stmt (M:=M)) (c zc : K) (ws extra : list (list K)),
  List.length ws = List.length (snd s) -> dae_extract s c (zc, ws ++ extra) = dae_extract s c (zc, ws).
Proof. exact @dae_extract_surplus_ignored_. Qed.
Print Assumptions dlogaggequal_surplus_responses_ignored_refuted.
Theorem dlogaggequal_missing_responses_unchecked_refuted : forall (K : FieldOps) (M : ModOps K)
    (aggs more : list (agg_stmt M)) (c zc : K) (ws : list (list K)),
  List.length ws = List.length aggs -> dae_points (aggs ++ more) c zc ws = dae_points aggs c zc ws.
Proof. exact @dae_points_truncated_. Qed.
Print Assumptions dlogaggequal_missing_responses_unchecked_refuted.
