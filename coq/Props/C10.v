(** C10 — property theorems only.  Each is closed by [exact], and followed by [Print Assumptions].
    Models: Contract/SchemaJson.v (JSON <-> bytes), Contract/CcSchemaCodec.v (schemas in binary form).
    [L : leaves] are the abstract text codecs of account addresses, timestamps and durations: every
    theorem holds for all of them. *)
From Coq Require Import String.
From Coq Require Import NArith ZArith List.
From CB Require Import Contract.CcCodec Contract.CcTypes.
From CB Require Import Contract.SchemaJson Contract.SchemaJsonProofs Contract.SchemaJsonConverse Contract.SchemaJsonContract
  Contract.CcSchemaCodec Contract.CcSchemaCodecProofs Contract.CcSchemaCodecFuel.
Import ListNotations.
Local Open Scope N_scope.

(** JSON -> bytes -> JSON is exactly the documented normalisation, for every schema type (no bound on
    the nesting depth), every accepted JSON value, and with nothing left unread. *)
Theorem json_roundtrip : forall (L : leaves) t j bs,
  ty_wf t = true -> json_wf j = true ->
  from_json L t j = Some bs ->
  to_json L t bs = Some (normalize L t j, []).
Proof. exact json_roundtrip_exact. Qed.
Print Assumptions json_roundtrip.

(** The same inside a larger buffer: exactly the value's own bytes are consumed. *)
Theorem json_roundtrip_in_context : forall (L : leaves) t j bs rest,
  ty_wf t = true -> json_wf j = true ->
  from_json L t j = Some bs ->
  to_json L t (bs ++ rest) = Some (normalize L t j, rest).
Proof. exact json_roundtrip_rest. Qed.
Print Assumptions json_roundtrip_in_context.

(** Both directions are total functions: structural recursion on the schema type, no fuel, so for
    every (type, bytes) and every (type, JSON) the result is a value or an error. *)
Theorem to_json_total : forall (L : leaves) t bs,
  to_json L t bs = None \/ exists j rest, to_json L t bs = Some (j, rest).
Proof. exact (fun L t bs => match to_json L t bs as o return o = None \/ exists j rest, o = Some (j, rest) with
                            | Some (j, rest) => or_intror (ex_intro _ j (ex_intro _ rest eq_refl))
                            | None => or_introl eq_refl
                            end). Qed.
Print Assumptions to_json_total.

Theorem from_json_total : forall (L : leaves) t j,
  from_json L t j = None \/ exists bs, from_json L t j = Some bs.
Proof. exact (fun L t j => match from_json L t j as o return o = None \/ exists bs, o = Some bs with
                           | Some bs => or_intror (ex_intro _ bs eq_refl)
                           | None => or_introl eq_refl
                           end). Qed.
Print Assumptions from_json_total.

(** Non-vacuity: a type using most constructors, a well-formed JSON value it accepts in a
    non-canonical spelling, its bytes and its normal form. *)
Definition ex_ty : ty :=
  TStruct (FNamed (NFcons (str_of "amount") TU128
          (NFcons (str_of "who") (TEnum (Vcons (str_of "None") FNone (Vcons (str_of "Some") (FUnnamed (TScons TContractAddress TSnil)) Vnil)))
          (NFcons (str_of "tags") (TMap SL8 (TILeb128 2) (TByteList SL16))
          (NFcons (str_of "kind") (TTaggedEnum (TVcons 7 (str_of "A") FNone (TVcons 9 (str_of "B") (FUnnamed (TScons TBool TSnil)) TVnil)))
           NFnil))))).
Definition ex_json : json :=
  JObj [(str_of "amount", JStr (str_of "+007"));
        (str_of "who", JObj [(str_of "Some", JArr [JObj [(str_of "index", JNum 5%Z)]])]);
        (str_of "tags", JArr [JArr [JStr (str_of "-64"); JStr (str_of "AbCd")]]);
        (str_of "kind", JObj [(str_of "B", JArr [JBool true])])].
Example json_roundtrip_nonvacuous :
  ty_wf ex_ty = true /\ json_wf ex_json = true
  /\ from_json stub_leaves ex_ty ex_json
     = Some ([7; 0; 0; 0; 0; 0; 0; 0; 0; 0; 0; 0; 0; 0; 0; 0] ++ [1; 5; 0; 0; 0; 0; 0; 0; 0; 0; 0; 0; 0; 0; 0; 0; 0]
             ++ [1; 64; 2; 0; 171; 205] ++ [9; 1])
  /\ normalize stub_leaves ex_ty ex_json
     = JObj [(str_of "amount", JStr (str_of "7"));
             (str_of "who", JObj [(str_of "Some", JArr [JObj [(str_of "index", JNum 5%Z); (str_of "subindex", JNum 0%Z)]])]);
             (str_of "tags", JArr [JArr [JStr (str_of "-64"); JStr (str_of "abcd")]]);
             (str_of "kind", JObj [(str_of "B", JArr [JBool true])])].
Proof. vm_compute. repeat split; reflexivity. Qed.
Print Assumptions json_roundtrip_nonvacuous.

(** * Schemas in binary form: decode (encode x) = x with the rest of the input untouched, for Type
    (and Fields inside it), FunctionV1/V2, and modules of every version (ContractV0..V3 inside them),
    with the version prefix and without it.  [cwf_*]: names are UTF-8, counts/sizes are u32, tags u8,
    maps are in increasing key order (what the Rust values satisfy by construction). *)
Theorem schema_binary_roundtrip_type : forall t rest, cwf_ty t = true ->
  dec_ty_top (enc_ty t ++ rest) = Some (t, rest).
Proof. exact enc_dec_ty_top. Qed.
Print Assumptions schema_binary_roundtrip_type.

Theorem schema_binary_roundtrip_function_v1 : forall f rest, cwf_f1 f = true ->
  dec_f1_top (enc_f1 f ++ rest) = Some (f, rest).
Proof. exact enc_dec_f1_top. Qed.
Print Assumptions schema_binary_roundtrip_function_v1.

Theorem schema_binary_roundtrip_function_v2 : forall f rest, cwf_f2 f = true ->
  dec_f2_top (enc_f2 f ++ rest) = Some (f, rest).
Proof. exact enc_dec_f2_top. Qed.
Print Assumptions schema_binary_roundtrip_function_v2.

Theorem schema_binary_roundtrip_versioned : forall m rest, cwf_module m = true ->
  dec_versioned_top (enc_versioned m ++ rest) = Some (m, rest).
Proof. exact enc_dec_versioned_top. Qed.
Print Assumptions schema_binary_roundtrip_versioned.

Theorem schema_binary_roundtrip_unversioned : forall m rest, cwf_module m = true ->
  dec_module_top (module_version m) (enc_module_body m ++ rest) = Some (m, rest).
Proof. exact enc_dec_module_top. Qed.
Print Assumptions schema_binary_roundtrip_unversioned.

(** [VersionedModuleSchema::new] on prefixed bytes ignores the caller's version hint. *)
Theorem schema_new_reads_prefix : forall m hint, cwf_module m = true ->
  schema_new (enc_versioned m) hint = Some m.
Proof. exact schema_new_versioned. Qed.
Print Assumptions schema_new_reads_prefix.

(** Decoding is not injective (maps are read without an order check): only encode-then-decode holds. *)
Theorem schema_decoding_not_canonical :
  exists bs m, dec_versioned_top bs = Some (m, []) /\ enc_versioned m <> bs.
Proof. exact module_decoding_not_canonical. Qed.
Print Assumptions schema_decoding_not_canonical.

Definition ex_module : module_schema :=
  MV3 [(str_of "a", {| c3_init := Some {| f2_param := Some ex_ty; f2_ret := None; f2_err := Some TU8 |};
                       c3_receive := [(str_of "f", {| f2_param := None; f2_ret := Some (TList SL32 TAccountAddress); f2_err := None |});
                                      (str_of "g", {| f2_param := None; f2_ret := None; f2_err := None |})];
                       c3_event := Some (TTaggedEnum (TVcons 0 (str_of "E") FNone (TVcons 255 (str_of "F") FNone TVnil))) |});
       (str_of "b", {| c3_init := None; c3_receive := []; c3_event := None |})].
Example schema_roundtrip_nonvacuous :
  cwf_ty ex_ty = true /\ cwf_module ex_module = true
  /\ firstn 12 (enc_versioned ex_module) = [255; 255; 3; 2; 0; 0; 0; 1; 0; 0; 0; 97].
Proof. vm_compute. repeat split; reflexivity. Qed.
Print Assumptions schema_roundtrip_nonvacuous.

(** * The converse direction: bytes -> JSON -> bytes.
    [ty_distinct_fields]: no struct repeats a field name, no enum a variant name, enums have at most 65536
    variants, array sizes are u32.  [leaves_rt L]: the leaf text forms parse back (C16's theorems for the
    real codecs; [stub_leaves] satisfies it).  [bytes_ok]: the input consists of bytes. *)

(** What [to_json] prints is accepted by [from_json]; the bytes it denotes are the bytes that were read,
    exactly when the type has no LEB128 component (the only non-canonical forms [to_json] reads are LEB128
    encodings with redundant trailing groups, see [leb_padding_read_not_written]). *)
Theorem to_json_from_json : forall (L : leaves), leaves_rt L -> forall t bs j rest,
  ty_wf t = true -> ty_distinct_fields t = true -> bytes_ok bs = true ->
  to_json L t bs = Some (j, rest) ->
  exists bs' pre, from_json L t j = Some bs' /\ bs = pre ++ rest /\ (ty_no_leb t = true -> pre = bs').
Proof. exact to_json_from_json_all. Qed.
Print Assumptions to_json_from_json.

(** [to_json] returns a suffix of its input. *)
Theorem to_json_consumes_prefix : forall (L : leaves), leaves_rt L -> forall t bs j rest,
  ty_wf t = true -> ty_distinct_fields t = true -> bytes_ok bs = true ->
  to_json L t bs = Some (j, rest) -> exists pre, bs = pre ++ rest.
Proof.
  exact (fun L HL t bs j rest Hw Hd Hb H =>
           match to_json_from_json_all L HL t bs j rest Hw Hd Hb H with
           | ex_intro _ _ (ex_intro _ pre (conj _ (conj E _))) => ex_intro _ pre E
           end).
Qed.
Print Assumptions to_json_consumes_prefix.

(** Printed JSON is in normal form. *)
Theorem printed_json_is_normal : forall (L : leaves), leaves_rt L -> forall t bs j rest,
  ty_wf t = true -> ty_distinct_fields t = true -> bytes_ok bs = true ->
  to_json L t bs = Some (j, rest) -> normalize L t j = j.
Proof. exact printed_json_normal. Qed.
Print Assumptions printed_json_is_normal.

Theorem leaf_hypothesis_satisfiable : leaves_rt stub_leaves.
Proof. exact stub_leaves_rt. Qed.
Print Assumptions leaf_hypothesis_satisfiable.

Theorem leb128_padding_is_read_but_not_written :
  to_json stub_leaves (TULeb128 2) [128; 0] = Some (JStr [48], []) /\ from_json stub_leaves (TULeb128 2) (JStr [48]) = Some [0]
  /\ to_json stub_leaves (TILeb128 2) [255; 127] = Some (JStr [45; 49], []) /\ from_json stub_leaves (TILeb128 2) (JStr [45; 49]) = Some [127].
Proof. exact leb_padding_read_not_written. Qed.
Print Assumptions leb128_padding_is_read_but_not_written.

Example converse_nonvacuous :
  ty_distinct_fields ex_ty = true /\ ty_no_leb ex_ty = false
  /\ ty_no_leb (TList SL16 (TStruct (FNamed (NFcons (str_of "a") TU8 (NFcons (str_of "b") TI128 NFnil))))) = true.
Proof. vm_compute. repeat split; reflexivity. Qed.
Print Assumptions converse_nonvacuous.

(** * The bytes are the contract-side encoding: for the types with a counterpart among C16's codecs
    ([codec_of c], built from CcCodec/CcTypes combinators), [from_json] writes [enc] of the value the JSON
    denotes, and that value is well-formed for the codec. *)
Theorem bytes_are_contract_encoding : forall (L : leaves) c j bs, json_wf j = true ->
  from_json L (ty_of c) j = Some bs ->
  exists v, denote c j = Some v /\ wf (codec_of c) v /\ bs = enc (codec_of c) v.
Proof. exact bytes_are_contract_encoding_all. Qed.
Print Assumptions bytes_are_contract_encoding.

Example contract_encoding_nonvacuous :
  let c := CMap SL32 (CUint W8) (CPair (COption (CSint W64)) (CString SL32)) in
  let j := JArr [JArr [JNum 7%Z; JArr [JObj [(s_Some, JArr [JNum (-2)%Z])]; JStr [104; 105]]]] in
  json_wf j = true /\
  from_json stub_leaves (ty_of c) j
  = Some ([1; 0; 0; 0] ++ [7] ++ [1; 254; 255; 255; 255; 255; 255; 255; 255] ++ [2; 0; 0; 0; 104; 105])
  /\ denote c j = Some [(7, (Some (-2)%Z, [104; 105]))].
Proof. vm_compute. repeat split; reflexivity. Qed.
Print Assumptions contract_encoding_nonvacuous.

(** * Decoder fuel: any fuel above the input length gives the result of the entry point, whether a
    value or an error - the fuel is never what stops a schema decoder. *)
Theorem schema_decoder_fuel_type : forall f bs, (length bs < f)%nat -> dec_ty f bs = dec_ty_top bs.
Proof. exact dec_ty_fuel. Qed.
Print Assumptions schema_decoder_fuel_type.

Theorem schema_decoder_fuel_versioned : forall f bs, (length bs < f)%nat -> dec_versioned f bs = dec_versioned_top bs.
Proof. exact dec_versioned_fuel. Qed.
Print Assumptions schema_decoder_fuel_versioned.

Theorem schema_decoder_fuel_unversioned : forall f v bs, (length bs < f)%nat -> dec_module_body f v bs = dec_module_top v bs.
Proof. exact dec_module_fuel. Qed.
Print Assumptions schema_decoder_fuel_unversioned.

Theorem schema_decoder_fuel_functions : forall f bs, (length bs < f)%nat ->
  dec_f1 f bs = dec_f1_top bs /\ dec_f2 f bs = dec_f2_top bs.
Proof. exact (fun f bs H => conj (dec_f1_fuel f bs H) (dec_f2_fuel f bs H)). Qed.
Print Assumptions schema_decoder_fuel_functions.

(** Exactly one "init_" prefix is stripped from a contract name, and a receive name is split at its first dot only. *)
Example name_text_forms_strip_once :
  to_json stub_leaves (TContractName SL8) (15 :: str_of "init_init_token") = Some (JObj [(s_contract, JStr (str_of "init_token"))], [])
  /\ from_json stub_leaves (TContractName SL8) (JObj [(s_contract, JStr (str_of "init_token"))]) = Some (15 :: str_of "init_init_token")
  /\ to_json stub_leaves (TContractName SL8) (5 :: str_of "init_") = Some (JObj [(s_contract, JStr [])], [])
  /\ to_json stub_leaves (TReceiveName SL8) (13 :: str_of "init_a.b..c_d") = Some (JObj [(s_contract, JStr (str_of "init_a")); (s_func, JStr (str_of "b..c_d"))], [])
  /\ from_json stub_leaves (TReceiveName SL8) (JObj [(s_contract, JStr (str_of "init_a")); (s_func, JStr (str_of "b..c_d"))]) = Some (13 :: str_of "init_a.b..c_d").
Proof. vm_compute. repeat split; reflexivity. Qed.
Print Assumptions name_text_forms_strip_once.
