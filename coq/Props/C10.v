(** C10 — property theorems only.  Each is closed by [exact], and followed by [Print Assumptions].
    Models: Contract/SchemaJson.v (JSON <-> bytes), Contract/CcSchemaCodec.v (schemas in binary form).
    [L : leaves] are the abstract text codecs of account addresses, timestamps and durations: every
    theorem holds for all of them. *)
From Coq Require Import String.
From Coq Require Import NArith ZArith List.
From CB Require Import Contract.CcCodec Contract.CcTypes.
From CB Require Import Contract.SchemaJson Contract.SchemaJsonProofs Contract.SchemaJsonConverse Contract.SchemaJsonContract
  Contract.CcSchemaCodec Contract.CcSchemaCodecProofs Contract.CcSchemaCodecFuel
  Contract.SchemaJsonLeb Contract.CcSchemaNew Contract.Base64 Contract.Base64Proofs Contract.SchemaJsonContractMore
  Contract.SchemaJsonLenBound.
Import ListNotations.
Local Open Scope N_scope.

(** JSON -> bytes -> JSON is exactly the documented normalisation, for every schema type (no bound on
    the nesting depth), every accepted JSON value, and with nothing left unread. *)
Theorem json_roundtrip : forall (L : leaves) t j bs,
  ty_wf t = true -> json_wf j = true ->
  from_json L t j = Some bs ->
  to_json L t bs = Some (normalize L t j, []).
Proof. exact json_roundtrip_exact. Qed.
Print Assumptions json_roundtrip.

(** The same inside a larger buffer: exactly the value's own bytes are consumed. *)
Theorem json_roundtrip_in_context : forall (L : leaves) t j bs rest,
  ty_wf t = true -> json_wf j = true ->
  from_json L t j = Some bs ->
  to_json L t (bs ++ rest) = Some (normalize L t j, rest).
Proof. exact json_roundtrip_rest. Qed.
Print Assumptions json_roundtrip_in_context.

(** Both directions are total functions: structural recursion on the schema type, no fuel, so for
    every (type, bytes) and every (type, JSON) the result is a value or an error. *)
Theorem to_json_total : forall (L : leaves) t bs,
  to_json L t bs = None \/ exists j rest, to_json L t bs = Some (j, rest).
Proof. exact (fun L t bs => match to_json L t bs as o return o = None \/ exists j rest, o = Some (j, rest) with
                            | Some (j, rest) => or_intror (ex_intro _ j (ex_intro _ rest eq_refl))
                            | None => or_introl eq_refl
                            end). Qed.
Print Assumptions to_json_total.

Theorem from_json_total : forall (L : leaves) t j,
  from_json L t j = None \/ exists bs, from_json L t j = Some bs.
Proof. exact (fun L t j => match from_json L t j as o return o = None \/ exists bs, o = Some bs with
                           | Some bs => or_intror (ex_intro _ bs eq_refl)
                           | None => or_introl eq_refl
                           end). Qed.
Print Assumptions from_json_total.

(** Non-vacuity: a type using most constructors, a well-formed JSON value it accepts in a
    non-canonical spelling, its bytes and its normal form. *)
Definition ex_ty : ty :=
  TStruct (FNamed (NFcons (str_of "amount") TU128
          (NFcons (str_of "who") (TEnum (Vcons (str_of "None") FNone (Vcons (str_of "Some") (FUnnamed (TScons TContractAddress TSnil)) Vnil)))
          (NFcons (str_of "tags") (TMap SL8 (TILeb128 2) (TByteList SL16))
          (NFcons (str_of "kind") (TTaggedEnum (TVcons 7 (str_of "A") FNone (TVcons 9 (str_of "B") (FUnnamed (TScons TBool TSnil)) TVnil)))
           NFnil))))).
Definition ex_json : json :=
  JObj [(str_of "amount", JStr (str_of "+007"));
        (str_of "who", JObj [(str_of "Some", JArr [JObj [(str_of "index", JNum 5%Z)]])]);
        (str_of "tags", JArr [JArr [JStr (str_of "-64"); JStr (str_of "AbCd")]]);
        (str_of "kind", JObj [(str_of "B", JArr [JBool true])])].
Example json_roundtrip_nonvacuous :
  ty_wf ex_ty = true /\ json_wf ex_json = true
  /\ from_json stub_leaves ex_ty ex_json
     = Some ([7; 0; 0; 0; 0; 0; 0; 0; 0; 0; 0; 0; 0; 0; 0; 0] ++ [1; 5; 0; 0; 0; 0; 0; 0; 0; 0; 0; 0; 0; 0; 0; 0; 0]
             ++ [1; 64; 2; 0; 171; 205] ++ [9; 1])
  /\ normalize stub_leaves ex_ty ex_json
     = JObj [(str_of "amount", JStr (str_of "7"));
             (str_of "who", JObj [(str_of "Some", JArr [JObj [(str_of "index", JNum 5%Z); (str_of "subindex", JNum 0%Z)]])]);
             (str_of "tags", JArr [JArr [JStr (str_of "-64"); JStr (str_of "abcd")]]);
             (str_of "kind", JObj [(str_of "B", JArr [JBool true])])].
Proof. vm_compute. repeat split; reflexivity. Qed.
Print Assumptions json_roundtrip_nonvacuous.

(** * Schemas in binary form: decode (encode x) = x with the rest of the input untouched, for Type
    (and Fields inside it), FunctionV1/V2, and modules of every version (ContractV0..V3 inside them),
    with the version prefix and without it.  [cwf_*]: names are UTF-8, counts/sizes are u32, tags u8,
    maps are in increasing key order (what the Rust values satisfy by construction). *)
Theorem schema_binary_roundtrip_type : forall t rest, cwf_ty t = true ->
  dec_ty_top (enc_ty t ++ rest) = Some (t, rest).
Proof. exact enc_dec_ty_top. Qed.
Print Assumptions schema_binary_roundtrip_type.

Theorem schema_binary_roundtrip_function_v1 : forall f rest, cwf_f1 f = true ->
  dec_f1_top (enc_f1 f ++ rest) = Some (f, rest).
Proof. exact enc_dec_f1_top. Qed.
Print Assumptions schema_binary_roundtrip_function_v1.

Theorem schema_binary_roundtrip_function_v2 : forall f rest, cwf_f2 f = true ->
  dec_f2_top (enc_f2 f ++ rest) = Some (f, rest).
Proof. exact enc_dec_f2_top. Qed.
Print Assumptions schema_binary_roundtrip_function_v2.

Theorem schema_binary_roundtrip_versioned : forall m rest, cwf_module m = true ->
  dec_versioned_top (enc_versioned m ++ rest) = Some (m, rest).
Proof. exact enc_dec_versioned_top. Qed.
Print Assumptions schema_binary_roundtrip_versioned.

Theorem schema_binary_roundtrip_unversioned : forall m rest, cwf_module m = true ->
  dec_module_top (module_version m) (enc_module_body m ++ rest) = Some (m, rest).
Proof. exact enc_dec_module_top. Qed.
Print Assumptions schema_binary_roundtrip_unversioned.

(** [VersionedModuleSchema::new] on prefixed bytes ignores the caller's version hint. *)
Theorem schema_new_reads_prefix : forall m hint, cwf_module m = true ->
  schema_new (enc_versioned m) hint = Some m.
Proof. exact schema_new_versioned. Qed.
Print Assumptions schema_new_reads_prefix.

(** Decoding is not injective (maps are read without an order check): only encode-then-decode holds. *)
Theorem schema_decoding_not_canonical :
  exists bs m, dec_versioned_top bs = Some (m, []) /\ enc_versioned m <> bs.
Proof. exact module_decoding_not_canonical. Qed.
Print Assumptions schema_decoding_not_canonical.

Definition ex_module : module_schema :=
  MV3 [(str_of "a", {| c3_init := Some {| f2_param := Some ex_ty; f2_ret := None; f2_err := Some TU8 |};
                       c3_receive := [(str_of "f", {| f2_param := None; f2_ret := Some (TList SL32 TAccountAddress); f2_err := None |});
                                      (str_of "g", {| f2_param := None; f2_ret := None; f2_err := None |})];
                       c3_event := Some (TTaggedEnum (TVcons 0 (str_of "E") FNone (TVcons 255 (str_of "F") FNone TVnil))) |});
       (str_of "b", {| c3_init := None; c3_receive := []; c3_event := None |})].
Example schema_roundtrip_nonvacuous :
  cwf_ty ex_ty = true /\ cwf_module ex_module = true
  /\ firstn 12 (enc_versioned ex_module) = [255; 255; 3; 2; 0; 0; 0; 1; 0; 0; 0; 97].
Proof. vm_compute. repeat split; reflexivity. Qed.
Print Assumptions schema_roundtrip_nonvacuous.

(** * The converse direction: bytes -> JSON -> bytes.
    [ty_distinct_fields]: no struct repeats a field name, no enum a variant name, enums have at most 65536
    variants, array sizes are u32.  [leaves_rt L]: the leaf text forms parse back (C16's theorems for the
    real codecs; [stub_leaves] satisfies it).  [bytes_ok]: the input consists of bytes. *)

(** What [to_json] prints is accepted by [from_json]; the bytes it denotes are the bytes that were read,
    exactly when the type has no LEB128 component (the only non-canonical forms [to_json] reads are LEB128
    encodings with redundant trailing groups, see [leb_padding_read_not_written]). *)
Theorem to_json_from_json : forall (L : leaves), leaves_rt L -> forall t bs j rest,
  ty_wf t = true -> ty_distinct_fields t = true -> bytes_ok bs = true ->
  to_json L t bs = Some (j, rest) ->
  exists bs' pre, from_json L t j = Some bs' /\ bs = pre ++ rest /\ (ty_no_leb t = true -> pre = bs').
Proof. exact to_json_from_json_all. Qed.
Print Assumptions to_json_from_json.

(** [to_json] returns a suffix of its input. *)
Theorem to_json_consumes_prefix : forall (L : leaves), leaves_rt L -> forall t bs j rest,
  ty_wf t = true -> ty_distinct_fields t = true -> bytes_ok bs = true ->
  to_json L t bs = Some (j, rest) -> exists pre, bs = pre ++ rest.
Proof.
  exact (fun L HL t bs j rest Hw Hd Hb H =>
           match to_json_from_json_all L HL t bs j rest Hw Hd Hb H with
           | ex_intro _ _ (ex_intro _ pre (conj _ (conj E _))) => ex_intro _ pre E
           end).
Qed.
Print Assumptions to_json_consumes_prefix.

(** Printed JSON is in normal form. *)
Theorem printed_json_is_normal : forall (L : leaves), leaves_rt L -> forall t bs j rest,
  ty_wf t = true -> ty_distinct_fields t = true -> bytes_ok bs = true ->
  to_json L t bs = Some (j, rest) -> normalize L t j = j.
Proof. exact printed_json_normal. Qed.
Print Assumptions printed_json_is_normal.

Theorem leaf_hypothesis_satisfiable : leaves_rt stub_leaves.
Proof. exact stub_leaves_rt. Qed.
Print Assumptions leaf_hypothesis_satisfiable.

Theorem leb128_padding_is_read_but_not_written :
  to_json stub_leaves (TULeb128 2) [128; 0] = Some (JStr [48], []) /\ from_json stub_leaves (TULeb128 2) (JStr [48]) = Some [0]
  /\ to_json stub_leaves (TILeb128 2) [255; 127] = Some (JStr [45; 49], []) /\ from_json stub_leaves (TILeb128 2) (JStr [45; 49]) = Some [127].
Proof. exact leb_padding_read_not_written. Qed.
Print Assumptions leb128_padding_is_read_but_not_written.

Example converse_nonvacuous :
  ty_distinct_fields ex_ty = true /\ ty_no_leb ex_ty = false
  /\ ty_no_leb (TList SL16 (TStruct (FNamed (NFcons (str_of "a") TU8 (NFcons (str_of "b") TI128 NFnil))))) = true.
Proof. vm_compute. repeat split; reflexivity. Qed.
Print Assumptions converse_nonvacuous.

(** * The bytes are the contract-side encoding: for the types with a counterpart among C16's codecs
    ([codec_of c], built from CcCodec/CcTypes combinators), [from_json] writes [enc] of the value the JSON
    denotes, and that value is well-formed for the codec. *)
Theorem bytes_are_contract_encoding : forall (L : leaves) c j bs, json_wf j = true ->
  from_json L (ty_of c) j = Some bs ->
  exists v, denote c j = Some v /\ wf (codec_of c) v /\ bs = enc (codec_of c) v.
Proof. exact bytes_are_contract_encoding_all. Qed.
Print Assumptions bytes_are_contract_encoding.

Example contract_encoding_nonvacuous :
  let c := CMap SL32 (CUint W8) (CPair (COption (CSint W64)) (CString SL32)) in
  let j := JArr [JArr [JNum 7%Z; JArr [JObj [(s_Some, JArr [JNum (-2)%Z])]; JStr [104; 105]]]] in
  json_wf j = true /\
  from_json stub_leaves (ty_of c) j
  = Some ([1; 0; 0; 0] ++ [7] ++ [1; 254; 255; 255; 255; 255; 255; 255; 255] ++ [2; 0; 0; 0; 104; 105])
  /\ denote c j = Some [(7, (Some (-2)%Z, [104; 105]))].
Proof. vm_compute. repeat split; reflexivity. Qed.
Print Assumptions contract_encoding_nonvacuous.

(** * Decoder fuel: any fuel above the input length gives the result of the entry point, whether a
    value or an error - the fuel is never what stops a schema decoder. *)
Theorem schema_decoder_fuel_type : forall f bs, (length bs < f)%nat -> dec_ty f bs = dec_ty_top bs.
Proof. exact dec_ty_fuel. Qed.
Print Assumptions schema_decoder_fuel_type.

Theorem schema_decoder_fuel_versioned : forall f bs, (length bs < f)%nat -> dec_versioned f bs = dec_versioned_top bs.
Proof. exact dec_versioned_fuel. Qed.
Print Assumptions schema_decoder_fuel_versioned.

Theorem schema_decoder_fuel_unversioned : forall f v bs, (length bs < f)%nat -> dec_module_body f v bs = dec_module_top v bs.
Proof. exact dec_module_fuel. Qed.
Print Assumptions schema_decoder_fuel_unversioned.

Theorem schema_decoder_fuel_functions : forall f bs, (length bs < f)%nat ->
  dec_f1 f bs = dec_f1_top bs /\ dec_f2 f bs = dec_f2_top bs.
Proof. exact (fun f bs H => conj (dec_f1_fuel f bs H) (dec_f2_fuel f bs H)). Qed.
Print Assumptions schema_decoder_fuel_functions.

(** Exactly one "init_" prefix is stripped from a contract name, and a receive name is split at its first dot only. *)
Example name_text_forms_strip_once :
  to_json stub_leaves (TContractName SL8) (15 :: str_of "init_init_token") = Some (JObj [(s_contract, JStr (str_of "init_token"))], [])
  /\ from_json stub_leaves (TContractName SL8) (JObj [(s_contract, JStr (str_of "init_token"))]) = Some (15 :: str_of "init_init_token")
  /\ to_json stub_leaves (TContractName SL8) (5 :: str_of "init_") = Some (JObj [(s_contract, JStr [])], [])
  /\ to_json stub_leaves (TReceiveName SL8) (13 :: str_of "init_a.b..c_d") = Some (JObj [(s_contract, JStr (str_of "init_a")); (s_func, JStr (str_of "b..c_d"))], [])
  /\ from_json stub_leaves (TReceiveName SL8) (JObj [(s_contract, JStr (str_of "init_a")); (s_func, JStr (str_of "b..c_d"))]) = Some (13 :: str_of "init_a.b..c_d").
Proof. vm_compute. repeat split; reflexivity. Qed.
Print Assumptions name_text_forms_strip_once.

(** * LEB128 schema types with a byte-count constraint: the accepted forms as an iff, for every constraint and value.
    [uleb_fixed k n] / [sleb_fixed k z] = the encoding with exactly [S k] bytes; [ufits k n] = n < 2^(7(k+1));
    [sfits k z] = -2^(7(k+1)-1) <= z < 2^(7(k+1)-1). *)
Theorem leb128_unsigned_accepts_iff : forall (L : leaves) c bs j rest, bytes_ok bs = true ->
  (to_json L (TULeb128 c) bs = Some (j, rest) <->
   exists k n, N.of_nat (S k) <= c /\ ufits k n /\ bs = uleb_fixed k n ++ rest /\ j = JStr (show_N n)).
Proof. exact uleb_normal_form. Qed.
Print Assumptions leb128_unsigned_accepts_iff.

Theorem leb128_signed_accepts_iff : forall (L : leaves) c bs j rest, bytes_ok bs = true ->
  (to_json L (TILeb128 c) bs = Some (j, rest) <->
   exists k z, N.of_nat (S k) <= c /\ sfits k z /\ bs = sleb_fixed k z ++ rest /\ j = JStr (show_Z z)).
Proof. exact sleb_normal_form. Qed.
Print Assumptions leb128_signed_accepts_iff.

(** what [serial_biguint] / [serial_bigint] write: exactly the values that fit [c] bytes, in the shortest fixed form *)
Theorem leb128_unsigned_writes_shortest : forall c n,
  ((exists g, uleb_enc c n = Some g) <-> (exists k, ufits k n /\ N.of_nat (S k) <= c)) /\
  (forall g, uleb_enc c n = Some g ->
     exists k, g = uleb_fixed k n /\ ufits k n /\ N.of_nat (S k) <= c /\ (forall k', ufits k' n -> (k <= k')%nat)).
Proof. exact (fun c n => conj (uleb_enc_iff c n) (uleb_enc_canonical c n)). Qed.
Print Assumptions leb128_unsigned_writes_shortest.

Theorem leb128_signed_writes_shortest : forall c z,
  ((exists g, sleb_enc c z = Some g) <-> (exists k, sfits k z /\ N.of_nat (S k) <= c)) /\
  (forall g, sleb_enc c z = Some g ->
     exists k, g = sleb_fixed k z /\ sfits k z /\ N.of_nat (S k) <= c /\ (forall k', sfits k' z -> (k <= k')%nat)).
Proof. exact (fun c z => conj (sleb_enc_iff c z) (sleb_enc_canonical c z)). Qed.
Print Assumptions leb128_signed_writes_shortest.

(** the padded forms, syntactically: a longer form is the shorter one with the continuation bit set on its last
    byte, then [j] groups 0x80 (0xff for a negative value) and a final 0x00 (0x7f) *)
Theorem leb128_unsigned_padded_forms : forall k j n, ufits k n ->
  uleb_fixed (k + S j) n =
  removelast (uleb_fixed k n) ++ [last (uleb_fixed k n) 0 + 128] ++ repeat 128 j ++ [0].
Proof. exact uleb_fixed_pad. Qed.
Print Assumptions leb128_unsigned_padded_forms.

Theorem leb128_signed_padded_forms : forall k j z, sfits k z ->
  sleb_fixed (k + S j) z =
  removelast (sleb_fixed k z) ++ [last (sleb_fixed k z) 0 + 128] ++ repeat (sign_cont z) j ++ [sign_last z].
Proof. exact sleb_fixed_pad. Qed.
Print Assumptions leb128_signed_padded_forms.

(** bytes -> JSON -> bytes = [uleb_strip] / [sleb_strip] of the bytes read (a function of the bytes alone that
    drops the redundant trailing groups): the result prints as the same JSON, is never longer, and is the input
    itself when it has the same length.  This is the normal form theorem for the two LEB128 types. *)
Theorem leb128_unsigned_normal_form : forall (L : leaves) c bs j rest, bytes_ok bs = true ->
  to_json L (TULeb128 c) bs = Some (j, rest) ->
  exists pre, bs = pre ++ rest /\ from_json L (TULeb128 c) j = Some (uleb_strip pre) /\
              to_json L (TULeb128 c) (uleb_strip pre ++ rest) = Some (j, rest) /\
              (length (uleb_strip pre) <= length pre)%nat /\
              (length (uleb_strip pre) = length pre -> uleb_strip pre = pre).
Proof. exact uleb_to_from_json. Qed.
Print Assumptions leb128_unsigned_normal_form.

Theorem leb128_signed_normal_form : forall (L : leaves) c bs j rest, bytes_ok bs = true ->
  to_json L (TILeb128 c) bs = Some (j, rest) ->
  exists pre, bs = pre ++ rest /\ from_json L (TILeb128 c) j = Some (sleb_strip pre) /\
              to_json L (TILeb128 c) (sleb_strip pre ++ rest) = Some (j, rest) /\
              (length (sleb_strip pre) <= length pre)%nat /\
              (length (sleb_strip pre) = length pre -> sleb_strip pre = pre).
Proof. exact sleb_to_from_json. Qed.
Print Assumptions leb128_signed_normal_form.

(** every fixed form within the constraint: printed, converted back to the shortest form of that value, which no
    other form undercuts, and stripping is idempotent *)
Theorem leb128_unsigned_all_forms : forall (L : leaves) c k n rest, N.of_nat (S k) <= c -> ufits k n ->
  let canon := uleb_strip (uleb_fixed k n) in
  to_json L (TULeb128 c) (uleb_fixed k n ++ rest) = Some (JStr (show_N n), rest) /\
  from_json L (TULeb128 c) (JStr (show_N n)) = Some canon /\
  to_json L (TULeb128 c) (canon ++ rest) = Some (JStr (show_N n), rest) /\
  (forall k', ufits k' n -> (length canon <= S k')%nat) /\
  (length canon = S k -> canon = uleb_fixed k n) /\
  uleb_strip canon = canon.
Proof. exact uleb_from_to_json. Qed.
Print Assumptions leb128_unsigned_all_forms.

Theorem leb128_signed_all_forms : forall (L : leaves) c k z rest, N.of_nat (S k) <= c -> sfits k z ->
  let canon := sleb_strip (sleb_fixed k z) in
  to_json L (TILeb128 c) (sleb_fixed k z ++ rest) = Some (JStr (show_Z z), rest) /\
  from_json L (TILeb128 c) (JStr (show_Z z)) = Some canon /\
  to_json L (TILeb128 c) (canon ++ rest) = Some (JStr (show_Z z), rest) /\
  (forall k', sfits k' z -> (length canon <= S k')%nat) /\
  (length canon = S k -> canon = sleb_fixed k z) /\
  sleb_strip canon = canon.
Proof. exact sleb_from_to_json. Qed.
Print Assumptions leb128_signed_all_forms.

(** boundary values: 2^7-1 / 2^7 under constraints 1 and 5; 2^35-1 fits 5 bytes, 2^35 does not; -64 / -65;
    a padded form of 127 with 5 bytes, of -1 with 10 bytes; nothing fits constraint 0 *)
Example leb128_nonvacuous :
  ufits 0 127 /\ ~ ufits 0 128 /\ ufits 4 (2 ^ 35 - 1) /\ ~ ufits 4 (2 ^ 35) /\ sfits 0 (-64)%Z /\ ~ sfits 0 (-65)%Z /\
  uleb_enc 1 127 = Some [127] /\ uleb_enc 1 128 = None /\ uleb_enc 5 128 = Some [128; 1] /\
  uleb_enc 5 (2 ^ 35 - 1) = Some [255; 255; 255; 255; 127] /\ uleb_enc 5 (2 ^ 35) = None /\
  uleb_enc 37 (2 ^ 259 - 1) = Some (repeat 255 36 ++ [127]) /\ uleb_enc 37 (2 ^ 259) = None /\ uleb_enc 0 0 = None /\
  sleb_enc 1 (-64)%Z = Some [64] /\ sleb_enc 1 (-65)%Z = None /\ sleb_enc 10 (-65)%Z = Some [191; 127] /\
  sleb_enc 10 (2 ^ 69 - 1)%Z = Some (repeat 255 9 ++ [63]) /\ sleb_enc 10 (2 ^ 69)%Z = None /\
  sleb_enc 10 (- 2 ^ 69)%Z = Some (repeat 128 9 ++ [64]) /\ sleb_enc 10 (- 2 ^ 69 - 1)%Z = None /\
  uleb_fixed 4 127 = [255; 128; 128; 128; 0] /\ uleb_strip [255; 128; 128; 128; 0] = [127] /\
  sleb_fixed 9 (-1)%Z = repeat 255 9 ++ [127] /\ sleb_strip (repeat 255 9 ++ [127]) = [127] /\
  to_json stub_leaves (TULeb128 5) [255; 128; 128; 128; 0; 9] = Some (JStr [49; 50; 55], [9]) /\
  to_json stub_leaves (TULeb128 4) [255; 128; 128; 128; 0; 9] = None /\
  to_json stub_leaves (TILeb128 2) [191; 127] = Some (JStr [45; 54; 53], []) /\
  sleb_strip [128; 127] = [128; 127] /\ sleb_strip [255; 0] = [255; 0] /\ sleb_strip [191; 255; 127] = [191; 127].
Proof. vm_compute. repeat split; try reflexivity; intros H; try discriminate H; destruct H as [H _]; exact (H eq_refl). Qed.
Print Assumptions leb128_nonvacuous.

(** * [VersionedModuleSchema::new] as a dispatch with its error kinds *)
Theorem schema_new_dispatch_total : forall bs v,
  ((exists m, schema_new_r bs v = NewOk m) \/ schema_new_r bs v = NewErr NewParseError \/
   schema_new_r bs v = NewErr NewMissingVersion \/ schema_new_r bs v = NewErr NewInvalidVersion) /\
  (forall m, schema_new_r bs v = NewOk m <-> schema_new bs v = Some m).
Proof. exact (fun bs v => conj (schema_new_r_total bs v) (schema_new_r_ok bs v)). Qed.
Print Assumptions schema_new_dispatch_total.

Theorem schema_new_error_kinds : forall bs v,
  (schema_new_r bs v = NewErr NewMissingVersion <-> dec_versioned_top bs = None /\ v = None) /\
  (schema_new_r bs v = NewErr NewInvalidVersion <-> dec_versioned_top bs = None /\ exists x, v = Some x /\ 3 < x) /\
  (schema_new_r bs v = NewErr NewParseError <->
     dec_versioned_top bs = None /\ exists x, v = Some x /\ x <= 3 /\ dec_module_top x bs = None).
Proof. exact schema_new_r_errors. Qed.
Print Assumptions schema_new_error_kinds.

Theorem schema_new_versioned_any_hint : forall m rest v, cwf_module m = true ->
  schema_new_r (enc_versioned m ++ rest) v = NewOk m.
Proof. exact schema_new_r_versioned. Qed.
Print Assumptions schema_new_versioned_any_hint.

(** [no_prefix_clash m]: the contract count's low 16 bits are not all ones (the unversioned bytes do not start ff ff) *)
Theorem schema_new_unversioned : forall m rest, cwf_module m = true -> no_prefix_clash m ->
  schema_new_r (enc_module_body m ++ rest) (Some (module_version m)) = NewOk m /\
  schema_new_r (enc_module_body m ++ rest) None = NewErr NewMissingVersion /\
  (forall v, 3 < v -> schema_new_r (enc_module_body m ++ rest) (Some v) = NewErr NewInvalidVersion).
Proof. exact schema_new_r_unversioned. Qed.
Print Assumptions schema_new_unversioned.

Theorem schema_new_forms_consistent : forall m1 m2 hint r1 r2,
  cwf_module m1 = true -> cwf_module m2 = true -> no_prefix_clash m1 ->
  (schema_new_r (enc_module_body m1 ++ r1) (Some (module_version m1)) = schema_new_r (enc_versioned m2 ++ r2) hint
   <-> m1 = m2).
Proof. exact schema_new_forms_agree. Qed.
Print Assumptions schema_new_forms_consistent.

Theorem schema_unversioned_needs_the_version :
  (enc_module_body (MV0 []) = enc_module_body (MV1 []) /\ MV0 [] <> MV1 [] /\
   schema_new_r (enc_module_body (MV0 [])) (Some 1) = NewOk (MV1 [])) /\
  (forall m1 m2, cwf_module m1 = true -> cwf_module m2 = true ->
     module_version m1 = module_version m2 -> enc_module_body m1 = enc_module_body m2 -> m1 = m2).
Proof. exact (conj unversioned_bytes_ambiguous unversioned_injective). Qed.
Print Assumptions schema_unversioned_needs_the_version.

Example schema_new_nonvacuous :
  let m := MV3 [([97], {| c3_init := Some {| f2_param := Some (TULeb128 5); f2_ret := None; f2_err := None |};
                          c3_receive := []; c3_event := Some TU8 |})] in
  cwf_module m = true /\ no_prefix_clash m /\
  schema_new_r (enc_module_body m) (Some 3) = NewOk m /\ schema_new_r (enc_versioned m) None = NewOk m /\
  schema_new_r (enc_module_body m) None = NewErr NewMissingVersion /\
  schema_new_r (enc_module_body m) (Some 4) = NewErr NewInvalidVersion /\
  schema_new_r (enc_module_body m) (Some 0) = NewErr NewParseError.
Proof. vm_compute. repeat split; try reflexivity. intros H; discriminate H. Qed.
Print Assumptions schema_new_nonvacuous.

(** * base64 ([STANDARD_NO_PAD]: standard alphabet, no padding, trailing bits must be zero) *)
Theorem base64_roundtrip : forall bs, b64_bytes_ok bs = true -> b64_decode (b64_encode bs) = Some bs.
Proof. exact b64_decode_encode. Qed.
Print Assumptions base64_roundtrip.

(** the decoder accepts exactly what the encoder writes: in particular any '=', a single left-over symbol and
    non-zero trailing bits are rejected *)
Theorem base64_decoder_is_canonical : forall s bs,
  b64_decode s = Some bs <-> (b64_bytes_ok bs = true /\ s = b64_encode bs).
Proof. exact b64_decode_iff. Qed.
Print Assumptions base64_decoder_is_canonical.

Theorem base64_trailing_bits : forall s bs, b64_decode_lax s = Some bs ->
  (b64_decode s = Some bs <-> s = b64_encode bs).
Proof. exact b64_noncanonical_rejected. Qed.
Print Assumptions base64_trailing_bits.

(** a schema in base64: decode, then the versioned decoder ([from_base64_str]); the second hypothesis says the
    model's encoding consists of bytes (names are lists of [N] in the model) *)
Theorem schema_base64_roundtrip : forall m, cwf_module m = true -> b64_bytes_ok (enc_versioned m) = true ->
  exists bytes, b64_decode (b64_encode (enc_versioned m)) = Some bytes /\ dec_versioned_top bytes = Some (m, []).
Proof. exact schema_b64_roundtrip. Qed.
Print Assumptions schema_base64_roundtrip.

Example base64_nonvacuous :
  b64_decode [81; 81] = Some [65] /\ b64_decode [81; 82] = None /\ b64_decode_lax [81; 82] = Some [65] /\
  b64_decode [81; 81; 61; 61] = None /\ b64_decode [81] = None /\
  b64_encode [255; 255; 3] = [47; 47; 56; 68] /\ b64_decode (b64_encode [255; 255; 3; 0]) = Some [255; 255; 3; 0].
Proof. vm_compute. repeat split; reflexivity. Qed.
Print Assumptions base64_nonvacuous.

(** * The contract-side Rust types of the harness: 21 of the 26 are instances of the fragment (corollary of
    [bytes_are_contract_encoding]); Timestamp / Duration / AccountAddress relative to the abstract text codecs. *)
Theorem contract_side_rust_types : forall (L : leaves) c, In c rust_types_in_fragment ->
  forall j bs, json_wf j = true -> from_json L (ty_of c) j = Some bs ->
  exists v, denote c j = Some v /\ wf (codec_of c) v /\ bs = enc (codec_of c) v.
Proof. exact rust_types_contract_encoding. Qed.
Print Assumptions contract_side_rust_types.

Theorem contract_side_leaf_types : forall (L : leaves) j bs,
  (from_json L TTimestamp j = Some bs ->
     exists s m, j = JStr s /\ ts_parse L s = Some m /\ wf (c_uint 8) m /\ bs = enc (c_uint 8) m) /\
  (from_json L TDuration j = Some bs ->
     exists s m, j = JStr s /\ dur_parse L s = Some m /\ wf (c_uint 8) m /\ bs = enc (c_uint 8) m) /\
  (from_json L TAccountAddress j = Some bs ->
     exists s, j = JStr s /\ acc_parse L s = Some bs /\ length bs = 32%nat).
Proof.
  exact (fun L j bs => conj (timestamp_contract_encoding L j bs)
                         (conj (duration_contract_encoding L j bs) (account_contract_encoding L j bs))).
Qed.
Print Assumptions contract_side_leaf_types.

Example contract_side_rust_types_nonvacuous :
  length rust_types_in_fragment = 21%nat /\
  from_json stub_leaves (ty_of (CMap SL32 (CUint W8) (CSint W32))) (JArr [JArr [JNum 7%Z; JNum (-2)%Z]])
  = Some [1; 0; 0; 0; 7; 254; 255; 255; 255].
Proof. vm_compute. split; reflexivity. Qed.
Print Assumptions contract_side_rust_types_nonvacuous.

(** Length prefix ([write_bytes_for_length_of_size]): a String / ByteList / List / Set / Map whose length does not
    fit the size length (2^8, 2^16, 2^32, 2^64) is an error of from_json, never bytes with a truncated length;
    when accepted, the prefix is the little-endian length. *)
Theorem from_json_length_must_fit : forall (L : leaves) s,
  (forall x, sl_bound s <= N.of_nat (length x) -> from_json L (TString s) (JStr x) = None) /\
  (forall x b, hex_decode x = Some b -> sl_bound s <= N.of_nat (length b) -> from_json L (TByteList s) (JStr x) = None) /\
  (forall e vs, sl_bound s <= N.of_nat (length vs) -> from_json L (TList s e) (JArr vs) = None) /\
  (forall e vs, sl_bound s <= N.of_nat (length vs) -> from_json L (TSet s e) (JArr vs) = None) /\
  (forall k v es, sl_bound s <= N.of_nat (length es) -> from_json L (TMap s k v) (JArr es) = None).
Proof.
  exact (fun L s => conj (from_json_string_too_long L s) (conj (from_json_bytelist_too_long L s)
          (conj (from_json_list_too_long L s) (conj (from_json_set_too_long L s) (from_json_map_too_long L s))))).
Qed.
Print Assumptions from_json_length_must_fit.

Theorem from_json_length_prefix : forall (L : leaves) s,
  (forall x b, from_json L (TString s) (JStr x) = Some b ->
     b = le (sl_bytes s) (N.of_nat (length x)) ++ x /\ N.of_nat (length x) < sl_bound s) /\
  (forall e vs b, from_json L (TList s e) (JArr vs) = Some b ->
     (exists p, b = le (sl_bytes s) (N.of_nat (length vs)) ++ p) /\ N.of_nat (length vs) < sl_bound s).
Proof. exact (fun L s => conj (from_json_string_prefix L s) (from_json_list_prefix L s)). Qed.
Print Assumptions from_json_length_prefix.

Example from_json_length_must_fit_nonvacuous :
  sl_bound SL8 = 256 /\ sl_bound SL16 = 65536 /\
  from_json stub_leaves (TList SL8 TU8) (JArr (repeat (JNum 7%Z) 255)) <> None /\
  from_json stub_leaves (TList SL8 TU8) (JArr (repeat (JNum 7%Z) 256)) = None.
Proof. vm_compute. repeat split; discriminate. Qed.
Print Assumptions from_json_length_must_fit_nonvacuous.
