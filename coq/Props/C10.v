(** C10 — property theorems only (placeholder while the proofs are being developed). *)
From Coq Require Import NArith ZArith List.
From CB Require Import Contract.SchemaJson Contract.CcSchemaCodec.
Import ListNotations.
Local Open Scope N_scope.

Example model_runs :
  run_from (TPair TU16 TBool) (JArr [JNum 258%Z; JBool true]) = Some [2; 1; 1].
Proof. reflexivity. Qed.
Print Assumptions model_runs.
