(** C10 — property theorems only.  Each is closed by [exact], and followed by [Print Assumptions].
    Models: Contract/SchemaJson.v (JSON <-> bytes), Contract/CcSchemaCodec.v (schemas in binary form).
    [L : leaves] are the abstract text codecs of account addresses, timestamps and durations: every
    theorem holds for all of them. *)
From Coq Require Import String.
From Coq Require Import NArith ZArith List.
From CB Require Import Contract.SchemaJson Contract.SchemaJsonProofs Contract.CcSchemaCodec.
Import ListNotations.
Local Open Scope N_scope.

(** JSON -> bytes -> JSON is exactly the documented normalisation, for every schema type (no bound on
    the nesting depth), every accepted JSON value, and with nothing left unread. *)
Theorem json_roundtrip : forall (L : leaves) t j bs,
  ty_wf t = true -> json_wf j = true ->
  from_json L t j = Some bs ->
  to_json L t bs = Some (normalize L t j, []).
Proof. exact json_roundtrip_exact. Qed.
Print Assumptions json_roundtrip.

(** The same inside a larger buffer: exactly the value's own bytes are consumed. *)
Theorem json_roundtrip_in_context : forall (L : leaves) t j bs rest,
  ty_wf t = true -> json_wf j = true ->
  from_json L t j = Some bs ->
  to_json L t (bs ++ rest) = Some (normalize L t j, rest).
Proof. exact json_roundtrip_rest. Qed.
Print Assumptions json_roundtrip_in_context.

(** Both directions are total functions: structural recursion on the schema type, no fuel, so for
    every (type, bytes) and every (type, JSON) the result is a value or an error. *)
Theorem to_json_total : forall (L : leaves) t bs,
  to_json L t bs = None \/ exists j rest, to_json L t bs = Some (j, rest).
Proof. exact (fun L t bs => match to_json L t bs as o return o = None \/ exists j rest, o = Some (j, rest) with
                            | Some (j, rest) => or_intror (ex_intro _ j (ex_intro _ rest eq_refl))
                            | None => or_introl eq_refl
                            end). Qed.
Print Assumptions to_json_total.

Theorem from_json_total : forall (L : leaves) t j,
  from_json L t j = None \/ exists bs, from_json L t j = Some bs.
Proof. exact (fun L t j => match from_json L t j as o return o = None \/ exists bs, o = Some bs with
                           | Some bs => or_intror (ex_intro _ bs eq_refl)
                           | None => or_introl eq_refl
                           end). Qed.
Print Assumptions from_json_total.

(** Non-vacuity: a type using most constructors, a well-formed JSON value it accepts in a
    non-canonical spelling, its bytes and its normal form. *)
Definition ex_ty : ty :=
  TStruct (FNamed (NFcons (str_of "amount") TU128
          (NFcons (str_of "who") (TEnum (Vcons (str_of "None") FNone (Vcons (str_of "Some") (FUnnamed (TScons TContractAddress TSnil)) Vnil)))
          (NFcons (str_of "tags") (TMap SL8 (TILeb128 2) (TByteList SL16))
          (NFcons (str_of "kind") (TTaggedEnum (TVcons 7 (str_of "A") FNone (TVcons 9 (str_of "B") (FUnnamed (TScons TBool TSnil)) TVnil)))
           NFnil))))).
Definition ex_json : json :=
  JObj [(str_of "amount", JStr (str_of "+007"));
        (str_of "who", JObj [(str_of "Some", JArr [JObj [(str_of "index", JNum 5%Z)]])]);
        (str_of "tags", JArr [JArr [JStr (str_of "-64"); JStr (str_of "AbCd")]]);
        (str_of "kind", JObj [(str_of "B", JArr [JBool true])])].
Example json_roundtrip_nonvacuous :
  ty_wf ex_ty = true /\ json_wf ex_json = true
  /\ from_json stub_leaves ex_ty ex_json
     = Some ([7; 0; 0; 0; 0; 0; 0; 0; 0; 0; 0; 0; 0; 0; 0; 0] ++ [1; 5; 0; 0; 0; 0; 0; 0; 0; 0; 0; 0; 0; 0; 0; 0; 0]
             ++ [1; 64; 2; 0; 171; 205] ++ [9; 1])
  /\ normalize stub_leaves ex_ty ex_json
     = JObj [(str_of "amount", JStr (str_of "7"));
             (str_of "who", JObj [(str_of "Some", JArr [JObj [(str_of "index", JNum 5%Z); (str_of "subindex", JNum 0%Z)]])]);
             (str_of "tags", JArr [JArr [JStr (str_of "-64"); JStr (str_of "abcd")]]);
             (str_of "kind", JObj [(str_of "B", JArr [JBool true])])].
Proof. vm_compute. repeat split; reflexivity. Qed.
Print Assumptions json_roundtrip_nonvacuous.
