(** C05 -- property theorems only.  Each is closed by [exact], and followed by [Print Assumptions].

    For every chain schema term [s] (Chain/ChainSchemas.v) and every validity oracle for the opaque
    leaves:  RT (decode (encode v ++ rest) = (v, rest)), Canon (accepted bytes are the encoding of
    the decoded value, which is well typed: exactly one accepted encoding per value), PFree
    (prefix freeness), AllocOK (storage reserved ahead of the data <= cap s * bytes consumed). *)
From Coq Require Import NArith List Bool.
From CB Require Import Common.Codec Common.CodecProofs Chain.ChainSchemas Chain.ChainSchemasProofs Gen.ChainSchemas Chain.GenTie Chain.ChainSchemasFull.
From CB Require Import Gen.ChainSchemasParam Chain.GenericTie Chain.ChainSchemasAll Gen.ManualImpls Chain.ManualTie.
Import ListNotations.
Local Open Scope N_scope.

Definition Laws (valid : N -> list N -> bool) (s : schema) : Prop :=
  (forall v rest, wt valid s v = true -> dec valid s (enc s v ++ rest) = Some (v, rest))
  /\ (forall bs v rest, bytes_ok bs = true -> dec valid s bs = Some (v, rest) ->
        bs = enc s v ++ rest /\ wt valid s v = true /\ bytes_ok rest = true)
  /\ (forall a b r1 r2, wt valid s a = true -> wt valid s b = true ->
        enc s a ++ r1 = enc s b ++ r2 -> a = b /\ r1 = r2)
  /\ (forall bs, bytes_ok bs = true -> alloc valid s bs <= cap s * used valid s bs).

(** The universal theorem of the calculus, in the unfolded form above. *)
Theorem codec_laws_universal : forall valid s, schema_wf s = true -> Laws valid s.
Proof. exact schema_codec_laws. Qed.
Print Assumptions codec_laws_universal.

(** Every registered chain schema (except the deliberately ill-formed pre-fix term 100). *)
Theorem chain_schemas_all_laws : forall valid id s,
  In (id, s) chain_schema_table -> id <> 100 -> Laws valid s.
Proof. exact table_laws. Qed.
Print Assumptions chain_schemas_all_laws.

Theorem amount_laws : forall valid, Laws valid s_amount.
Proof. exact (fun valid => schema_codec_laws valid s_amount (@eq_refl bool true <: schema_wf s_amount = true)). Qed.
Print Assumptions amount_laws.

Theorem account_address_laws : forall valid, Laws valid s_account_address.
Proof. exact (fun valid => schema_codec_laws valid s_account_address (@eq_refl bool true <: schema_wf s_account_address = true)). Qed.
Print Assumptions account_address_laws.

Theorem contract_address_laws : forall valid, Laws valid s_contract_address.
Proof. exact (fun valid => schema_codec_laws valid s_contract_address (@eq_refl bool true <: schema_wf s_contract_address = true)). Qed.
Print Assumptions contract_address_laws.

Theorem address_laws : forall valid, Laws valid s_address.
Proof. exact (fun valid => schema_codec_laws valid s_address (@eq_refl bool true <: schema_wf s_address = true)). Qed.
Print Assumptions address_laws.

Theorem memo_laws : forall valid, Laws valid s_memo.
Proof. exact (fun valid => schema_codec_laws valid s_memo (@eq_refl bool true <: schema_wf s_memo = true)). Qed.
Print Assumptions memo_laws.

Theorem registered_data_laws : forall valid, Laws valid s_registered_data.
Proof. exact (fun valid => schema_codec_laws valid s_registered_data (@eq_refl bool true <: schema_wf s_registered_data = true)). Qed.
Print Assumptions registered_data_laws.

Theorem ratio_laws : forall valid, Laws valid s_ratio.
Proof. exact (fun valid => schema_codec_laws valid s_ratio (@eq_refl bool true <: schema_wf s_ratio = true)). Qed.
Print Assumptions ratio_laws.

Theorem exchange_rate_laws : forall valid, Laws valid s_exchange_rate.
Proof. exact (fun valid => schema_codec_laws valid s_exchange_rate (@eq_refl bool true <: schema_wf s_exchange_rate = true)). Qed.
Print Assumptions exchange_rate_laws.

Theorem num_ratio_laws : forall valid, Laws valid s_num_ratio.
Proof. exact (fun valid => schema_codec_laws valid s_num_ratio (@eq_refl bool true <: schema_wf s_num_ratio = true)). Qed.
Print Assumptions num_ratio_laws.

Theorem payload_size_laws : forall valid, Laws valid s_payload_size.
Proof. exact (fun valid => schema_codec_laws valid s_payload_size (@eq_refl bool true <: schema_wf s_payload_size = true)). Qed.
Print Assumptions payload_size_laws.

Theorem signature_laws : forall valid, Laws valid s_signature.
Proof. exact (fun valid => schema_codec_laws valid s_signature (@eq_refl bool true <: schema_wf s_signature = true)). Qed.
Print Assumptions signature_laws.

Theorem transaction_header_laws : forall valid, Laws valid s_transaction_header.
Proof. exact (fun valid => schema_codec_laws valid s_transaction_header (@eq_refl bool true <: schema_wf s_transaction_header = true)). Qed.
Print Assumptions transaction_header_laws.

Theorem transaction_header_v1_laws : forall valid, Laws valid s_transaction_header_v1.
Proof. exact (fun valid => schema_codec_laws valid s_transaction_header_v1 (@eq_refl bool true <: schema_wf s_transaction_header_v1 = true)). Qed.
Print Assumptions transaction_header_v1_laws.

Theorem transaction_signature_laws : forall valid, Laws valid s_transaction_signature.
Proof. exact (fun valid => schema_codec_laws valid s_transaction_signature (@eq_refl bool true <: schema_wf s_transaction_signature = true)). Qed.
Print Assumptions transaction_signature_laws.

Theorem transaction_signatures_v1_laws : forall valid, Laws valid s_transaction_signatures_v1.
Proof. exact (fun valid => schema_codec_laws valid s_transaction_signatures_v1 (@eq_refl bool true <: schema_wf s_transaction_signatures_v1 = true)). Qed.
Print Assumptions transaction_signatures_v1_laws.

Theorem verify_key_laws : forall valid, Laws valid s_verify_key.
Proof. exact (fun valid => schema_codec_laws valid s_verify_key (@eq_refl bool true <: schema_wf s_verify_key = true)). Qed.
Print Assumptions verify_key_laws.

Theorem credential_public_keys_laws : forall valid, Laws valid s_credential_public_keys.
Proof. exact (fun valid => schema_codec_laws valid s_credential_public_keys (@eq_refl bool true <: schema_wf s_credential_public_keys = true)). Qed.
Print Assumptions credential_public_keys_laws.

Theorem account_access_structure_laws : forall valid, Laws valid s_account_access_structure.
Proof. exact (fun valid => schema_codec_laws valid s_account_access_structure (@eq_refl bool true <: schema_wf s_account_access_structure = true)). Qed.
Print Assumptions account_access_structure_laws.

Theorem open_status_laws : forall valid, Laws valid s_open_status.
Proof. exact (fun valid => schema_codec_laws valid s_open_status (@eq_refl bool true <: schema_wf s_open_status = true)). Qed.
Print Assumptions open_status_laws.

Theorem delegation_target_laws : forall valid, Laws valid s_delegation_target.
Proof. exact (fun valid => schema_codec_laws valid s_delegation_target (@eq_refl bool true <: schema_wf s_delegation_target = true)). Qed.
Print Assumptions delegation_target_laws.

Theorem amount_fraction_laws : forall valid, Laws valid s_amount_fraction.
Proof. exact (fun valid => schema_codec_laws valid s_amount_fraction (@eq_refl bool true <: schema_wf s_amount_fraction = true)). Qed.
Print Assumptions amount_fraction_laws.

Theorem url_text_laws : forall valid, Laws valid s_url_text.
Proof. exact (fun valid => schema_codec_laws valid s_url_text (@eq_refl bool true <: schema_wf s_url_text = true)). Qed.
Print Assumptions url_text_laws.

Theorem baker_keys_payload_laws : forall valid, Laws valid s_baker_keys_payload.
Proof. exact (fun valid => schema_codec_laws valid s_baker_keys_payload (@eq_refl bool true <: schema_wf s_baker_keys_payload = true)). Qed.
Print Assumptions baker_keys_payload_laws.

Theorem add_baker_payload_laws : forall valid, Laws valid s_add_baker_payload.
Proof. exact (fun valid => schema_codec_laws valid s_add_baker_payload (@eq_refl bool true <: schema_wf s_add_baker_payload = true)). Qed.
Print Assumptions add_baker_payload_laws.

Theorem configure_baker_laws : forall valid, Laws valid s_configure_baker.
Proof. exact (fun valid => schema_codec_laws valid s_configure_baker (@eq_refl bool true <: schema_wf s_configure_baker = true)). Qed.
Print Assumptions configure_baker_laws.

Theorem configure_delegation_laws : forall valid, Laws valid s_configure_delegation.
Proof. exact (fun valid => schema_codec_laws valid s_configure_delegation (@eq_refl bool true <: schema_wf s_configure_delegation = true)). Qed.
Print Assumptions configure_delegation_laws.

Theorem payload_laws : forall valid, Laws valid s_payload.
Proof. exact (fun valid => schema_codec_laws valid s_payload (@eq_refl bool true <: schema_wf s_payload = true)). Qed.
Print Assumptions payload_laws.

Theorem account_transaction_laws : forall valid, Laws valid s_account_transaction.
Proof. exact (fun valid => schema_codec_laws valid s_account_transaction (@eq_refl bool true <: schema_wf s_account_transaction = true)). Qed.
Print Assumptions account_transaction_laws.

Theorem account_transaction_encoded_laws : forall valid, Laws valid s_account_transaction_encoded.
Proof. exact (fun valid => schema_codec_laws valid s_account_transaction_encoded (@eq_refl bool true <: schema_wf s_account_transaction_encoded = true)). Qed.
Print Assumptions account_transaction_encoded_laws.

Theorem account_transaction_v1_encoded_laws : forall valid, Laws valid s_account_transaction_v1_encoded.
Proof. exact (fun valid => schema_codec_laws valid s_account_transaction_v1_encoded (@eq_refl bool true <: schema_wf s_account_transaction_v1_encoded = true)). Qed.
Print Assumptions account_transaction_v1_encoded_laws.

Theorem update_header_laws : forall valid, Laws valid s_update_header.
Proof. exact (fun valid => schema_codec_laws valid s_update_header (@eq_refl bool true <: schema_wf s_update_header = true)). Qed.
Print Assumptions update_header_laws.

Theorem update_instruction_signature_laws : forall valid, Laws valid s_update_instruction_signature.
Proof. exact (fun valid => schema_codec_laws valid s_update_instruction_signature (@eq_refl bool true <: schema_wf s_update_instruction_signature = true)). Qed.
Print Assumptions update_instruction_signature_laws.

Theorem update_instruction_laws : forall valid, Laws valid s_update_instruction.
Proof. exact (fun valid => schema_codec_laws valid s_update_instruction (@eq_refl bool true <: schema_wf s_update_instruction = true)). Qed.
Print Assumptions update_instruction_laws.

Theorem update_payload_laws : forall valid, Laws valid s_update_payload.
Proof. exact (fun valid => schema_codec_laws valid s_update_payload (@eq_refl bool true <: schema_wf s_update_payload = true)). Qed.
Print Assumptions update_payload_laws.

Theorem block_item_laws : forall valid, Laws valid s_block_item.
Proof. exact (fun valid => schema_codec_laws valid s_block_item (@eq_refl bool true <: schema_wf s_block_item = true)). Qed.
Print Assumptions block_item_laws.

Theorem leverage_factor_laws : forall valid, Laws valid s_leverage_factor.
Proof. exact (fun valid => schema_codec_laws valid s_leverage_factor (@eq_refl bool true <: schema_wf s_leverage_factor = true)). Qed.
Print Assumptions leverage_factor_laws.

Theorem mint_distribution_v0_laws : forall valid, Laws valid s_mint_distribution_v0.
Proof. exact (fun valid => schema_codec_laws valid s_mint_distribution_v0 (@eq_refl bool true <: schema_wf s_mint_distribution_v0 = true)). Qed.
Print Assumptions mint_distribution_v0_laws.

Theorem pool_parameters_laws : forall valid, Laws valid s_pool_parameters.
Proof. exact (fun valid => schema_codec_laws valid s_pool_parameters (@eq_refl bool true <: schema_wf s_pool_parameters = true)). Qed.
Print Assumptions pool_parameters_laws.

Theorem timeout_parameters_laws : forall valid, Laws valid s_timeout_parameters.
Proof. exact (fun valid => schema_codec_laws valid s_timeout_parameters (@eq_refl bool true <: schema_wf s_timeout_parameters = true)). Qed.
Print Assumptions timeout_parameters_laws.

Theorem threshold_u8_laws : forall valid, Laws valid s_threshold_u8.
Proof. exact (fun valid => schema_codec_laws valid s_threshold_u8 (@eq_refl bool true <: schema_wf s_threshold_u8 = true)). Qed.
Print Assumptions threshold_u8_laws.

Theorem transaction_fee_distribution_laws : forall valid, Laws valid s_transaction_fee_distribution.
Proof. exact (fun valid => schema_codec_laws valid s_transaction_fee_distribution (@eq_refl bool true <: schema_wf s_transaction_fee_distribution = true)). Qed.
Print Assumptions transaction_fee_distribution_laws.

Theorem gas_rewards_laws : forall valid, Laws valid s_gas_rewards.
Proof. exact (fun valid => schema_codec_laws valid s_gas_rewards (@eq_refl bool true <: schema_wf s_gas_rewards = true)). Qed.
Print Assumptions gas_rewards_laws.

Theorem update_keys_threshold_laws : forall valid, Laws valid s_update_keys_threshold.
Proof. exact (fun valid => schema_codec_laws valid s_update_keys_threshold (@eq_refl bool true <: schema_wf s_update_keys_threshold = true)). Qed.
Print Assumptions update_keys_threshold_laws.

Theorem access_structure_laws : forall valid, Laws valid s_access_structure.
Proof. exact (fun valid => schema_codec_laws valid s_access_structure (@eq_refl bool true <: schema_wf s_access_structure = true)). Qed.
Print Assumptions access_structure_laws.

Theorem higher_level_access_structure_laws : forall valid, Laws valid s_higher_level_access_structure.
Proof. exact (fun valid => schema_codec_laws valid s_higher_level_access_structure (@eq_refl bool true <: schema_wf s_higher_level_access_structure = true)). Qed.
Print Assumptions higher_level_access_structure_laws.

Theorem authorizations_v0_laws : forall valid, Laws valid s_authorizations_v0.
Proof. exact (fun valid => schema_codec_laws valid s_authorizations_v0 (@eq_refl bool true <: schema_wf s_authorizations_v0 = true)). Qed.
Print Assumptions authorizations_v0_laws.

Theorem root_update_laws : forall valid, Laws valid s_root_update.
Proof. exact (fun valid => schema_codec_laws valid s_root_update (@eq_refl bool true <: schema_wf s_root_update = true)). Qed.
Print Assumptions root_update_laws.

Theorem level1_update_laws : forall valid, Laws valid s_level1_update.
Proof. exact (fun valid => schema_codec_laws valid s_level1_update (@eq_refl bool true <: schema_wf s_level1_update = true)). Qed.
Print Assumptions level1_update_laws.

Theorem ar_info_laws : forall valid, Laws valid s_ar_info.
Proof. exact (fun valid => schema_codec_laws valid s_ar_info (@eq_refl bool true <: schema_wf s_ar_info = true)). Qed.
Print Assumptions ar_info_laws.

(** ** Tie to the Rust declarations: the schema terms regenerated from the source on every run
    (translators/gen_chain_schemas.py) equal the hand-written ones (fully derived types) or have the same
    byte layout (derived Serial, hand-written Deserial), and every generated term has the laws. *)
Theorem generated_schemas_match :
  g_TransactionHeader = s_transaction_header /\ g_UpdateHeader = s_update_header /\ g_GASRewards = s_gas_rewards
  /\ g_GASRewardsV1 = s_gas_rewards_v1 /\ g_CooldownParameters = s_cooldown_parameters /\ g_TimeParameters = s_time_parameters
  /\ g_PoolParameters = s_pool_parameters /\ g_CommissionRanges = s_commission_ranges /\ g_MintRate = s_mint_rate
  /\ g_FinalizationCommitteeParameters = s_finalization_committee_parameters /\ g_AuthorizationsV0 = s_authorizations_v0
  /\ g_AmountFraction = s_amount_fraction /\ g_UpdateKeysThreshold = s_update_keys_threshold
  /\ g_TransactionTime = s_transaction_time /\ g_UpdatePublicKey = s_verify_key
  /\ g_ArInfo_ArCurve = s_ar_info /\ g_Description = s_description.
Proof. exact generated_equal. Qed.
Print Assumptions generated_schemas_match.

Theorem generated_layouts_match :
  layout_of g_Memo = layout_of s_memo /\ layout_of g_RegisteredData = layout_of s_registered_data
  /\ layout_of g_PayloadSize = layout_of s_payload_size /\ layout_of g_Ratio = layout_of s_ratio
  /\ layout_of g_LeverageFactor = layout_of s_leverage_factor
  /\ layout_of g_MintDistributionV0 = layout_of s_mint_distribution_v0
  /\ layout_of g_MintDistributionV1 = layout_of s_mint_distribution_v1
  /\ layout_of g_TransactionFeeDistribution = layout_of s_transaction_fee_distribution
  /\ layout_of g_AccessStructure = layout_of s_access_structure
  /\ layout_of g_UpdateInstructionSignature = layout_of s_update_instruction_signature
  /\ layout_of g_TimeoutParameters = layout_of s_timeout_parameters /\ layout_of g_UrlText = layout_of s_url_text
  /\ layout_of g_HigherLevelAccessStructure = layout_of s_higher_level_access_structure.
Proof. exact generated_layout. Qed.
Print Assumptions generated_layouts_match.

Theorem generated_schemas_all_laws : forall valid s, In s gen_all -> Laws valid s.
Proof. exact generated_laws. Qed.
Print Assumptions generated_schemas_all_laws.

Theorem generated_table_all_laws : forall valid id s, In (id, s) gen_schema_table -> Laws valid s.
Proof. exact generated_table_laws. Qed.
Print Assumptions generated_table_all_laws.

(** The sum types completed with the variants whose bodies are generated terms (Payload except tags 1, 2;
    UpdatePayload except tag 1; BlockItem with all four tags). *)
Theorem full_sum_types_all_laws : forall valid id s, In (id, s) full_schema_table -> Laws valid s.
Proof. exact full_laws. Qed.
Print Assumptions full_sum_types_all_laws.

(** ** Bare generic wrappers (SigmaProof<R>, AndResponse<R1, R2>, ReplicateResponse<R>, ReplicatePoints<P>, Secret<T>,
    ConcordiumZKProof<T>, RevealAttributeStatement<TagType>): regenerated from the Rust declarations as schema FUNCTORS
    (Gen/ChainSchemasParam.v).  For EVERY well-formed argument schema the wrapper has all the laws; a vector wrapper needs
    its element to occupy at least one byte. *)
Theorem sigma_proof_all_laws : forall valid R, schema_wf R = true -> Laws valid (gp_SigmaProof R).
Proof. exact sigma_proof_laws. Qed.
Print Assumptions sigma_proof_all_laws.

Theorem and_response_all_laws : forall valid R1 R2, schema_wf R1 = true -> schema_wf R2 = true -> Laws valid (gp_AndResponse R1 R2).
Proof. exact and_response_laws. Qed.
Print Assumptions and_response_all_laws.

Theorem replicate_response_all_laws : forall valid R,
  schema_wf R = true -> (1 <=? min_size R) = true -> Laws valid (gp_ReplicateResponse R).
Proof. exact replicate_response_laws. Qed.
Print Assumptions replicate_response_all_laws.

Theorem replicate_points_all_laws : forall valid P,
  schema_wf P = true -> (1 <=? min_size P) = true -> Laws valid (gp_ReplicatePoints P).
Proof. exact replicate_points_laws. Qed.
Print Assumptions replicate_points_all_laws.

Theorem secret_wrapper_all_laws : forall valid T, schema_wf T = true -> Laws valid (gp_Secret T).
Proof. exact secret_laws. Qed.
Print Assumptions secret_wrapper_all_laws.

Theorem zk_proof_wrapper_all_laws : forall valid T, schema_wf T = true -> Laws valid (gp_ConcordiumZKProof T).
Proof. exact zk_proof_laws. Qed.
Print Assumptions zk_proof_wrapper_all_laws.

Theorem reveal_attribute_statement_all_laws : forall valid T, schema_wf T = true -> Laws valid (gp_RevealAttributeStatement T).
Proof. exact reveal_attribute_statement_laws. Qed.
Print Assumptions reveal_attribute_statement_all_laws.

(** The min-size hypothesis of the vector wrappers is needed (a vector of empty elements is outside the class). *)
Theorem replicate_response_of_unit_not_wf : schema_wf (gp_ReplicateResponse SUnit) = false.
Proof. exact replicate_response_needs_min_size. Qed.
Print Assumptions replicate_response_of_unit_not_wf.

(** Non-vacuity: the instantiations translated for the chain are instances whose arguments satisfy the hypotheses. *)
Example sigma_proof_wrapper_nonvacuous :
  g_SigmaProof_DlogResponse_ArCurve = gp_SigmaProof g_Response__sigma_protocols_dlog_ArCurve
  /\ schema_wf g_Response__sigma_protocols_dlog_ArCurve = true.
Proof. exact sigma_proof_instance. Qed.
Print Assumptions sigma_proof_wrapper_nonvacuous.

Example replicate_response_wrapper_nonvacuous :
  g_ReplicateResponse_com_enc_eq_Response_ArCurve = gp_ReplicateResponse g_Response__sigma_protocols_com_enc_eq_ArCurve
  /\ schema_wf g_Response__sigma_protocols_com_enc_eq_ArCurve = true
  /\ (1 <=? min_size g_Response__sigma_protocols_com_enc_eq_ArCurve) = true.
Proof. exact replicate_response_instance. Qed.
Print Assumptions replicate_response_wrapper_nonvacuous.

(** ** Payload with ALL its variants (Chain/ChainSchemasAll.v): InitContract / Update (contract and receive names with their
    validity rules, parameters) added to the sum of [s_payload_full]; AccountTransaction<Payload> over it. *)
Theorem payload_all_variants_laws : forall valid, Laws valid s_payload_all.
Proof. exact (fun valid => schema_codec_laws valid s_payload_all payload_all_wf). Qed.
Print Assumptions payload_all_variants_laws.

Theorem all_variants_table_laws : forall valid id s, In (id, s) all_schema_table -> Laws valid s.
Proof. exact all_laws. Qed.
Print Assumptions all_variants_table_laws.

(** The tag table of the term is exactly the list of transaction types (22 variants, each tag once). *)
Theorem payload_all_variants_covered :
  (forall t, In t (map fst payload_alts_all) <-> In t payload_type_tags)
  /\ NoDup (map fst payload_alts_all) /\ length payload_alts_all = 22%nat.
Proof. exact payload_all_tags. Qed.
Print Assumptions payload_all_variants_covered.

Example init_contract_nonvacuous : forall valid,
  let v := VTag 1 (VList [VNum 5; VBytes (repeat 9 32); VBytes [105; 110; 105; 116; 95; 97]; VBytes [7]]) in
  wt valid s_payload_all v = true
  /\ dec valid s_payload_all (enc s_payload_all v ++ [1]) = Some (v, [1])
  /\ dec valid s_payload_all (1 :: repeat 0 8 ++ repeat 9 32 ++ [0; 5; 105; 110; 105; 116; 46; 0; 0]) = None.
Proof. exact init_contract_example. Qed.
Print Assumptions init_contract_nonvacuous.

(** ** Hand-written straight-line impls: the terms regenerated from the `impl Serial` / `impl Deserial` bodies on every run
    (translators/gen_manual_impls.py; encoder and decoder field orders checked to agree) equal the hand-written terms. *)
Theorem manual_impls_match :
  m_InitContractPayload = s_init_contract_payload /\ m_UpdateContractPayload = s_update_contract_payload
  /\ m_BakerKeysPayload = s_baker_keys_payload_g2 /\ m_AddBakerPayload = s_add_baker_payload_g2
  /\ m_PreIdentityProof = t_PreIdentityProof.
Proof. exact manual_equal. Qed.
Print Assumptions manual_impls_match.

Theorem manual_impls_baker_layout :
  layout_of s_baker_keys_payload_g2 = layout_of s_baker_keys_payload
  /\ layout_of s_add_baker_payload_g2 = layout_of s_add_baker_payload.
Proof. exact baker_keys_layout. Qed.
Print Assumptions manual_impls_baker_layout.

Theorem manual_impls_all_laws : forall valid s, In s manual_impl_all -> Laws valid s.
Proof. exact manual_laws. Qed.
Print Assumptions manual_impls_all_laws.

(** ** Finding F4 (ConfigureBaker bitmap).  After the fix the decoder is the schema with mask
    0x01ff and is canonical: *)
Theorem configure_baker_canonical : forall valid bs v rest,
  bytes_ok bs = true -> dec valid s_configure_baker bs = Some (v, rest) ->
  bs = enc s_configure_baker v ++ rest /\ wt valid s_configure_baker v = true /\ bytes_ok rest = true.
Proof. exact (fun valid => proj1 (proj2 (schema_codec_laws valid s_configure_baker (@eq_refl bool true <: schema_wf s_configure_baker = true)))). Qed.
Print Assumptions configure_baker_canonical.

(** The decoder as it was before the fix (mask 0xffff) accepts two different byte strings for
    the same value, hence is not canonical; and its schema is not well formed. *)
Theorem configure_baker_prefix_noncanonical : forall valid,
  exists bs1 bs2 v, bs1 <> bs2
    /\ dec valid s_configure_baker_prefix bs1 = Some (v, [])
    /\ dec valid s_configure_baker_prefix bs2 = Some (v, [])
    /\ enc s_configure_baker_prefix v = bs1.
Proof. exact prefix_noncanonical. Qed.
Print Assumptions configure_baker_prefix_noncanonical.

Theorem configure_baker_prefix_not_wf : schema_wf s_configure_baker_prefix = false.
Proof. exact prefix_not_wf. Qed.
Print Assumptions configure_baker_prefix_not_wf.

(** The fixed decoder rejects the extra encoding. *)
Theorem configure_baker_rejects_undefined_bits : forall valid rest,
  dec valid s_configure_baker ([2; 0] ++ rest) = None.
Proof. exact fixed_rejects. Qed.
Print Assumptions configure_baker_rejects_undefined_bits.

(** ** Non-vacuity: well-typed values exist and accepted inputs exist. *)
Example transfer_payload_nonvacuous : forall valid,
  let v := VTag 3 (VList [VBytes (repeat 7 32); VNum 1000000]) in
  wt valid s_payload v = true
  /\ enc s_payload v = 3 :: repeat 7 32 ++ [0; 0; 0; 0; 0; 15; 66; 64]
  /\ dec valid s_payload (enc s_payload v ++ [9]) = Some (v, [9]).
Proof. exact transfer_example. Qed.
Print Assumptions transfer_payload_nonvacuous.

Example configure_delegation_nonvacuous : forall valid,
  dec valid s_payload [26; 0; 5; 0; 0; 0; 0; 0; 0; 0; 1; 1; 0; 0; 0; 0; 0; 0; 0; 42]
  = Some (VTag 26 (VList [VSome (VNum 1); VNone; VSome (VTag 1 (VNum 42))]), []).
Proof. exact delegation_example. Qed.
Print Assumptions configure_delegation_nonvacuous.

Example transaction_signature_rejects_unordered : forall valid,
  dec valid s_transaction_signature [1; 0; 2; 1; 0; 0; 0; 0; 0] = None   (* key 1 then key 0 *)
  /\ dec valid s_transaction_signature [1; 0; 2; 0; 0; 0; 1; 0; 0]
     = Some (VList [VList [VNum 0; VList [VList [VNum 0; VBytes []]; VList [VNum 1; VBytes []]]]], []).
Proof. exact signature_example. Qed.
Print Assumptions transaction_signature_rejects_unordered.
