
type nat =
| O
| S of nat

(** val fst : ('a1 * 'a2) -> 'a1 **)

let fst = function
| (x, _) -> x

(** val snd : ('a1 * 'a2) -> 'a2 **)

let snd = function
| (_, y) -> y

(** val length : 'a1 list -> nat **)

let rec length = function
| [] -> O
| _ :: l' -> S (length l')

(** val app : 'a1 list -> 'a1 list -> 'a1 list **)

let rec app l m =
  match l with
  | [] -> m
  | a :: l1 -> a :: (app l1 m)

type comparison =
| Eq
| Lt
| Gt

(** val compOpp : comparison -> comparison **)

let compOpp = function
| Eq -> Eq
| Lt -> Gt
| Gt -> Lt

module Coq__1 = struct
 (** val add : nat -> nat -> nat **)
 let rec add n0 m =
   match n0 with
   | O -> m
   | S p -> S (add p m)
end
include Coq__1

(** val mul : nat -> nat -> nat **)

let rec mul n0 m =
  match n0 with
  | O -> O
  | S p -> add m (mul p m)

(** val sub : nat -> nat -> nat **)

let rec sub n0 m =
  match n0 with
  | O -> n0
  | S k -> (match m with
            | O -> n0
            | S l -> sub k l)

(** val eqb : nat -> nat -> bool **)

let rec eqb n0 m =
  match n0 with
  | O -> (match m with
          | O -> true
          | S _ -> false)
  | S n' -> (match m with
             | O -> false
             | S m' -> eqb n' m')

type positive =
| XI of positive
| XO of positive
| XH

type n =
| N0
| Npos of positive

type z =
| Z0
| Zpos of positive
| Zneg of positive

module Pos =
 struct
  type mask =
  | IsNul
  | IsPos of positive
  | IsNeg
 end

module Coq_Pos =
 struct
  (** val succ : positive -> positive **)

  let rec succ = function
  | XI p -> XO (succ p)
  | XO p -> XI p
  | XH -> XO XH

  (** val add : positive -> positive -> positive **)

  let rec add x y =
    match x with
    | XI p ->
      (match y with
       | XI q -> XO (add_carry p q)
       | XO q -> XI (add p q)
       | XH -> XO (succ p))
    | XO p ->
      (match y with
       | XI q -> XI (add p q)
       | XO q -> XO (add p q)
       | XH -> XI p)
    | XH -> (match y with
             | XI q -> XO (succ q)
             | XO q -> XI q
             | XH -> XO XH)

  (** val add_carry : positive -> positive -> positive **)

  and add_carry x y =
    match x with
    | XI p ->
      (match y with
       | XI q -> XI (add_carry p q)
       | XO q -> XO (add_carry p q)
       | XH -> XI (succ p))
    | XO p ->
      (match y with
       | XI q -> XO (add_carry p q)
       | XO q -> XI (add p q)
       | XH -> XO (succ p))
    | XH ->
      (match y with
       | XI q -> XI (succ q)
       | XO q -> XO (succ q)
       | XH -> XI XH)

  (** val pred_double : positive -> positive **)

  let rec pred_double = function
  | XI p -> XI (XO p)
  | XO p -> XI (pred_double p)
  | XH -> XH

  (** val pred_N : positive -> n **)

  let pred_N = function
  | XI p -> Npos (XO p)
  | XO p -> Npos (pred_double p)
  | XH -> N0

  type mask = Pos.mask =
  | IsNul
  | IsPos of positive
  | IsNeg

  (** val succ_double_mask : mask -> mask **)

  let succ_double_mask = function
  | IsNul -> IsPos XH
  | IsPos p -> IsPos (XI p)
  | IsNeg -> IsNeg

  (** val double_mask : mask -> mask **)

  let double_mask = function
  | IsPos p -> IsPos (XO p)
  | x0 -> x0

  (** val double_pred_mask : positive -> mask **)

  let double_pred_mask = function
  | XI p -> IsPos (XO (XO p))
  | XO p -> IsPos (XO (pred_double p))
  | XH -> IsNul

  (** val sub_mask : positive -> positive -> mask **)

  let rec sub_mask x y =
    match x with
    | XI p ->
      (match y with
       | XI q -> double_mask (sub_mask p q)
       | XO q -> succ_double_mask (sub_mask p q)
       | XH -> IsPos (XO p))
    | XO p ->
      (match y with
       | XI q -> succ_double_mask (sub_mask_carry p q)
       | XO q -> double_mask (sub_mask p q)
       | XH -> IsPos (pred_double p))
    | XH -> (match y with
             | XH -> IsNul
             | _ -> IsNeg)

  (** val sub_mask_carry : positive -> positive -> mask **)

  and sub_mask_carry x y =
    match x with
    | XI p ->
      (match y with
       | XI q -> succ_double_mask (sub_mask_carry p q)
       | XO q -> double_mask (sub_mask p q)
       | XH -> IsPos (pred_double p))
    | XO p ->
      (match y with
       | XI q -> double_mask (sub_mask_carry p q)
       | XO q -> succ_double_mask (sub_mask_carry p q)
       | XH -> double_pred_mask p)
    | XH -> IsNeg

  (** val mul : positive -> positive -> positive **)

  let rec mul x y =
    match x with
    | XI p -> add y (XO (mul p y))
    | XO p -> XO (mul p y)
    | XH -> y

  (** val iter : ('a1 -> 'a1) -> 'a1 -> positive -> 'a1 **)

  let rec iter f x = function
  | XI n' -> f (iter f (iter f x n') n')
  | XO n' -> iter f (iter f x n') n'
  | XH -> f x

  (** val pow : positive -> positive -> positive **)

  let pow x =
    iter (mul x) XH

  (** val div2 : positive -> positive **)

  let div2 = function
  | XI p0 -> p0
  | XO p0 -> p0
  | XH -> XH

  (** val div2_up : positive -> positive **)

  let div2_up = function
  | XI p0 -> succ p0
  | XO p0 -> p0
  | XH -> XH

  (** val compare_cont : comparison -> positive -> positive -> comparison **)

  let rec compare_cont r x y =
    match x with
    | XI p ->
      (match y with
       | XI q -> compare_cont r p q
       | XO q -> compare_cont Gt p q
       | XH -> Gt)
    | XO p ->
      (match y with
       | XI q -> compare_cont Lt p q
       | XO q -> compare_cont r p q
       | XH -> Gt)
    | XH -> (match y with
             | XH -> r
             | _ -> Lt)

  (** val compare : positive -> positive -> comparison **)

  let compare =
    compare_cont Eq

  (** val eqb : positive -> positive -> bool **)

  let rec eqb p q =
    match p with
    | XI p0 -> (match q with
                | XI q0 -> eqb p0 q0
                | _ -> false)
    | XO p0 -> (match q with
                | XO q0 -> eqb p0 q0
                | _ -> false)
    | XH -> (match q with
             | XH -> true
             | _ -> false)

  (** val coq_Nsucc_double : n -> n **)

  let coq_Nsucc_double = function
  | N0 -> Npos XH
  | Npos p -> Npos (XI p)

  (** val coq_Ndouble : n -> n **)

  let coq_Ndouble = function
  | N0 -> N0
  | Npos p -> Npos (XO p)

  (** val coq_lor : positive -> positive -> positive **)

  let rec coq_lor p q =
    match p with
    | XI p0 ->
      (match q with
       | XI q0 -> XI (coq_lor p0 q0)
       | XO q0 -> XI (coq_lor p0 q0)
       | XH -> p)
    | XO p0 ->
      (match q with
       | XI q0 -> XI (coq_lor p0 q0)
       | XO q0 -> XO (coq_lor p0 q0)
       | XH -> XI p0)
    | XH -> (match q with
             | XO q0 -> XI q0
             | _ -> q)

  (** val coq_land : positive -> positive -> n **)

  let rec coq_land p q =
    match p with
    | XI p0 ->
      (match q with
       | XI q0 -> coq_Nsucc_double (coq_land p0 q0)
       | XO q0 -> coq_Ndouble (coq_land p0 q0)
       | XH -> Npos XH)
    | XO p0 ->
      (match q with
       | XI q0 -> coq_Ndouble (coq_land p0 q0)
       | XO q0 -> coq_Ndouble (coq_land p0 q0)
       | XH -> N0)
    | XH -> (match q with
             | XO _ -> N0
             | _ -> Npos XH)

  (** val ldiff : positive -> positive -> n **)

  let rec ldiff p q =
    match p with
    | XI p0 ->
      (match q with
       | XI q0 -> coq_Ndouble (ldiff p0 q0)
       | XO q0 -> coq_Nsucc_double (ldiff p0 q0)
       | XH -> Npos (XO p0))
    | XO p0 ->
      (match q with
       | XI q0 -> coq_Ndouble (ldiff p0 q0)
       | XO q0 -> coq_Ndouble (ldiff p0 q0)
       | XH -> Npos p)
    | XH -> (match q with
             | XO _ -> Npos XH
             | _ -> N0)

  (** val iter_op : ('a1 -> 'a1 -> 'a1) -> positive -> 'a1 -> 'a1 **)

  let rec iter_op op p a =
    match p with
    | XI p0 -> op a (iter_op op p0 (op a a))
    | XO p0 -> iter_op op p0 (op a a)
    | XH -> a

  (** val to_nat : positive -> nat **)

  let to_nat x =
    iter_op Coq__1.add x (S O)

  (** val of_succ_nat : nat -> positive **)

  let rec of_succ_nat = function
  | O -> XH
  | S x -> succ (of_succ_nat x)
 end

module N =
 struct
  (** val succ_double : n -> n **)

  let succ_double = function
  | N0 -> Npos XH
  | Npos p -> Npos (XI p)

  (** val double : n -> n **)

  let double = function
  | N0 -> N0
  | Npos p -> Npos (XO p)

  (** val succ_pos : n -> positive **)

  let succ_pos = function
  | N0 -> XH
  | Npos p -> Coq_Pos.succ p

  (** val add : n -> n -> n **)

  let add n0 m =
    match n0 with
    | N0 -> m
    | Npos p -> (match m with
                 | N0 -> n0
                 | Npos q -> Npos (Coq_Pos.add p q))

  (** val sub : n -> n -> n **)

  let sub n0 m =
    match n0 with
    | N0 -> N0
    | Npos n' ->
      (match m with
       | N0 -> n0
       | Npos m' ->
         (match Coq_Pos.sub_mask n' m' with
          | Coq_Pos.IsPos p -> Npos p
          | _ -> N0))

  (** val mul : n -> n -> n **)

  let mul n0 m =
    match n0 with
    | N0 -> N0
    | Npos p -> (match m with
                 | N0 -> N0
                 | Npos q -> Npos (Coq_Pos.mul p q))

  (** val compare : n -> n -> comparison **)

  let compare n0 m =
    match n0 with
    | N0 -> (match m with
             | N0 -> Eq
             | Npos _ -> Lt)
    | Npos n' -> (match m with
                  | N0 -> Gt
                  | Npos m' -> Coq_Pos.compare n' m')

  (** val eqb : n -> n -> bool **)

  let eqb n0 m =
    match n0 with
    | N0 -> (match m with
             | N0 -> true
             | Npos _ -> false)
    | Npos p -> (match m with
                 | N0 -> false
                 | Npos q -> Coq_Pos.eqb p q)

  (** val leb : n -> n -> bool **)

  let leb x y =
    match compare x y with
    | Gt -> false
    | _ -> true

  (** val ltb : n -> n -> bool **)

  let ltb x y =
    match compare x y with
    | Lt -> true
    | _ -> false

  (** val div2 : n -> n **)

  let div2 = function
  | N0 -> N0
  | Npos p0 -> (match p0 with
                | XI p -> Npos p
                | XO p -> Npos p
                | XH -> N0)

  (** val pow : n -> n -> n **)

  let pow n0 = function
  | N0 -> Npos XH
  | Npos p0 -> (match n0 with
                | N0 -> N0
                | Npos q -> Npos (Coq_Pos.pow q p0))

  (** val pos_div_eucl : positive -> n -> n * n **)

  let rec pos_div_eucl a b =
    match a with
    | XI a' ->
      let (q, r) = pos_div_eucl a' b in
      let r' = succ_double r in
      if leb b r' then ((succ_double q), (sub r' b)) else ((double q), r')
    | XO a' ->
      let (q, r) = pos_div_eucl a' b in
      let r' = double r in
      if leb b r' then ((succ_double q), (sub r' b)) else ((double q), r')
    | XH ->
      (match b with
       | N0 -> (N0, (Npos XH))
       | Npos p -> (match p with
                    | XH -> ((Npos XH), N0)
                    | _ -> (N0, (Npos XH))))

  (** val div_eucl : n -> n -> n * n **)

  let div_eucl a b =
    match a with
    | N0 -> (N0, N0)
    | Npos na -> (match b with
                  | N0 -> (N0, a)
                  | Npos _ -> pos_div_eucl na b)

  (** val div : n -> n -> n **)

  let div a b =
    fst (div_eucl a b)

  (** val modulo : n -> n -> n **)

  let modulo a b =
    snd (div_eucl a b)

  (** val coq_lor : n -> n -> n **)

  let coq_lor n0 m =
    match n0 with
    | N0 -> m
    | Npos p -> (match m with
                 | N0 -> n0
                 | Npos q -> Npos (Coq_Pos.coq_lor p q))

  (** val coq_land : n -> n -> n **)

  let coq_land n0 m =
    match n0 with
    | N0 -> N0
    | Npos p -> (match m with
                 | N0 -> N0
                 | Npos q -> Coq_Pos.coq_land p q)

  (** val ldiff : n -> n -> n **)

  let ldiff n0 m =
    match n0 with
    | N0 -> N0
    | Npos p -> (match m with
                 | N0 -> n0
                 | Npos q -> Coq_Pos.ldiff p q)

  (** val shiftr : n -> n -> n **)

  let shiftr a = function
  | N0 -> a
  | Npos p -> Coq_Pos.iter div2 a p
 end

module Z =
 struct
  (** val double : z -> z **)

  let double = function
  | Z0 -> Z0
  | Zpos p -> Zpos (XO p)
  | Zneg p -> Zneg (XO p)

  (** val succ_double : z -> z **)

  let succ_double = function
  | Z0 -> Zpos XH
  | Zpos p -> Zpos (XI p)
  | Zneg p -> Zneg (Coq_Pos.pred_double p)

  (** val pred_double : z -> z **)

  let pred_double = function
  | Z0 -> Zneg XH
  | Zpos p -> Zpos (Coq_Pos.pred_double p)
  | Zneg p -> Zneg (XI p)

  (** val pos_sub : positive -> positive -> z **)

  let rec pos_sub x y =
    match x with
    | XI p ->
      (match y with
       | XI q -> double (pos_sub p q)
       | XO q -> succ_double (pos_sub p q)
       | XH -> Zpos (XO p))
    | XO p ->
      (match y with
       | XI q -> pred_double (pos_sub p q)
       | XO q -> double (pos_sub p q)
       | XH -> Zpos (Coq_Pos.pred_double p))
    | XH ->
      (match y with
       | XI q -> Zneg (XO q)
       | XO q -> Zneg (Coq_Pos.pred_double q)
       | XH -> Z0)

  (** val add : z -> z -> z **)

  let add x y =
    match x with
    | Z0 -> y
    | Zpos x' ->
      (match y with
       | Z0 -> x
       | Zpos y' -> Zpos (Coq_Pos.add x' y')
       | Zneg y' -> pos_sub x' y')
    | Zneg x' ->
      (match y with
       | Z0 -> x
       | Zpos y' -> pos_sub y' x'
       | Zneg y' -> Zneg (Coq_Pos.add x' y'))

  (** val opp : z -> z **)

  let opp = function
  | Z0 -> Z0
  | Zpos x0 -> Zneg x0
  | Zneg x0 -> Zpos x0

  (** val sub : z -> z -> z **)

  let sub m n0 =
    add m (opp n0)

  (** val mul : z -> z -> z **)

  let mul x y =
    match x with
    | Z0 -> Z0
    | Zpos x' ->
      (match y with
       | Z0 -> Z0
       | Zpos y' -> Zpos (Coq_Pos.mul x' y')
       | Zneg y' -> Zneg (Coq_Pos.mul x' y'))
    | Zneg x' ->
      (match y with
       | Z0 -> Z0
       | Zpos y' -> Zneg (Coq_Pos.mul x' y')
       | Zneg y' -> Zpos (Coq_Pos.mul x' y'))

  (** val pow_pos : z -> positive -> z **)

  let pow_pos z0 =
    Coq_Pos.iter (mul z0) (Zpos XH)

  (** val pow : z -> z -> z **)

  let pow x = function
  | Z0 -> Zpos XH
  | Zpos p -> pow_pos x p
  | Zneg _ -> Z0

  (** val compare : z -> z -> comparison **)

  let compare x y =
    match x with
    | Z0 -> (match y with
             | Z0 -> Eq
             | Zpos _ -> Lt
             | Zneg _ -> Gt)
    | Zpos x' -> (match y with
                  | Zpos y' -> Coq_Pos.compare x' y'
                  | _ -> Gt)
    | Zneg x' ->
      (match y with
       | Zneg y' -> compOpp (Coq_Pos.compare x' y')
       | _ -> Lt)

  (** val leb : z -> z -> bool **)

  let leb x y =
    match compare x y with
    | Gt -> false
    | _ -> true

  (** val ltb : z -> z -> bool **)

  let ltb x y =
    match compare x y with
    | Lt -> true
    | _ -> false

  (** val eqb : z -> z -> bool **)

  let eqb x y =
    match x with
    | Z0 -> (match y with
             | Z0 -> true
             | _ -> false)
    | Zpos p -> (match y with
                 | Zpos q -> Coq_Pos.eqb p q
                 | _ -> false)
    | Zneg p -> (match y with
                 | Zneg q -> Coq_Pos.eqb p q
                 | _ -> false)

  (** val to_nat : z -> nat **)

  let to_nat = function
  | Zpos p -> Coq_Pos.to_nat p
  | _ -> O

  (** val of_nat : nat -> z **)

  let of_nat = function
  | O -> Z0
  | S n1 -> Zpos (Coq_Pos.of_succ_nat n1)

  (** val of_N : n -> z **)

  let of_N = function
  | N0 -> Z0
  | Npos p -> Zpos p

  (** val pos_div_eucl : positive -> z -> z * z **)

  let rec pos_div_eucl a b =
    match a with
    | XI a' ->
      let (q, r) = pos_div_eucl a' b in
      let r' = add (mul (Zpos (XO XH)) r) (Zpos XH) in
      if ltb r' b
      then ((mul (Zpos (XO XH)) q), r')
      else ((add (mul (Zpos (XO XH)) q) (Zpos XH)), (sub r' b))
    | XO a' ->
      let (q, r) = pos_div_eucl a' b in
      let r' = mul (Zpos (XO XH)) r in
      if ltb r' b
      then ((mul (Zpos (XO XH)) q), r')
      else ((add (mul (Zpos (XO XH)) q) (Zpos XH)), (sub r' b))
    | XH -> if leb (Zpos (XO XH)) b then (Z0, (Zpos XH)) else ((Zpos XH), Z0)

  (** val div_eucl : z -> z -> z * z **)

  let div_eucl a b =
    match a with
    | Z0 -> (Z0, Z0)
    | Zpos a' ->
      (match b with
       | Z0 -> (Z0, a)
       | Zpos _ -> pos_div_eucl a' b
       | Zneg b' ->
         let (q, r) = pos_div_eucl a' (Zpos b') in
         (match r with
          | Z0 -> ((opp q), Z0)
          | _ -> ((opp (add q (Zpos XH))), (add b r))))
    | Zneg a' ->
      (match b with
       | Z0 -> (Z0, a)
       | Zpos _ ->
         let (q, r) = pos_div_eucl a' b in
         (match r with
          | Z0 -> ((opp q), Z0)
          | _ -> ((opp (add q (Zpos XH))), (sub b r)))
       | Zneg b' -> let (q, r) = pos_div_eucl a' (Zpos b') in (q, (opp r)))

  (** val div : z -> z -> z **)

  let div a b =
    let (q, _) = div_eucl a b in q

  (** val modulo : z -> z -> z **)

  let modulo a b =
    let (_, r) = div_eucl a b in r

  (** val quotrem : z -> z -> z * z **)

  let quotrem a b =
    match a with
    | Z0 -> (Z0, Z0)
    | Zpos a0 ->
      (match b with
       | Z0 -> (Z0, a)
       | Zpos b0 ->
         let (q, r) = N.pos_div_eucl a0 (Npos b0) in ((of_N q), (of_N r))
       | Zneg b0 ->
         let (q, r) = N.pos_div_eucl a0 (Npos b0) in
         ((opp (of_N q)), (of_N r)))
    | Zneg a0 ->
      (match b with
       | Z0 -> (Z0, a)
       | Zpos b0 ->
         let (q, r) = N.pos_div_eucl a0 (Npos b0) in
         ((opp (of_N q)), (opp (of_N r)))
       | Zneg b0 ->
         let (q, r) = N.pos_div_eucl a0 (Npos b0) in
         ((of_N q), (opp (of_N r))))

  (** val quot : z -> z -> z **)

  let quot a b =
    fst (quotrem a b)

  (** val div2 : z -> z **)

  let div2 = function
  | Z0 -> Z0
  | Zpos p -> (match p with
               | XH -> Z0
               | _ -> Zpos (Coq_Pos.div2 p))
  | Zneg p -> Zneg (Coq_Pos.div2_up p)

  (** val shiftl : z -> z -> z **)

  let shiftl a = function
  | Z0 -> a
  | Zpos p -> Coq_Pos.iter (mul (Zpos (XO XH))) a p
  | Zneg p -> Coq_Pos.iter div2 a p

  (** val shiftr : z -> z -> z **)

  let shiftr a n0 =
    shiftl a (opp n0)

  (** val coq_lor : z -> z -> z **)

  let coq_lor a b =
    match a with
    | Z0 -> b
    | Zpos a0 ->
      (match b with
       | Z0 -> a
       | Zpos b0 -> Zpos (Coq_Pos.coq_lor a0 b0)
       | Zneg b0 -> Zneg (N.succ_pos (N.ldiff (Coq_Pos.pred_N b0) (Npos a0))))
    | Zneg a0 ->
      (match b with
       | Z0 -> a
       | Zpos b0 -> Zneg (N.succ_pos (N.ldiff (Coq_Pos.pred_N a0) (Npos b0)))
       | Zneg b0 ->
         Zneg
           (N.succ_pos (N.coq_land (Coq_Pos.pred_N a0) (Coq_Pos.pred_N b0))))

  (** val coq_land : z -> z -> z **)

  let coq_land a b =
    match a with
    | Z0 -> Z0
    | Zpos a0 ->
      (match b with
       | Z0 -> Z0
       | Zpos b0 -> of_N (Coq_Pos.coq_land a0 b0)
       | Zneg b0 -> of_N (N.ldiff (Npos a0) (Coq_Pos.pred_N b0)))
    | Zneg a0 ->
      (match b with
       | Z0 -> Z0
       | Zpos b0 -> of_N (N.ldiff (Npos b0) (Coq_Pos.pred_N a0))
       | Zneg b0 ->
         Zneg (N.succ_pos (N.coq_lor (Coq_Pos.pred_N a0) (Coq_Pos.pred_N b0))))
 end

(** val nth : nat -> 'a1 list -> 'a1 -> 'a1 **)

let rec nth n0 l default =
  match n0 with
  | O -> (match l with
          | [] -> default
          | x :: _ -> x)
  | S m -> (match l with
            | [] -> default
            | _ :: t -> nth m t default)

(** val nth_error : 'a1 list -> nat -> 'a1 option **)

let rec nth_error l = function
| O -> (match l with
        | [] -> None
        | x :: _ -> Some x)
| S n1 -> (match l with
           | [] -> None
           | _ :: l0 -> nth_error l0 n1)

(** val rev : 'a1 list -> 'a1 list **)

let rec rev = function
| [] -> []
| x :: l' -> app (rev l') (x :: [])

(** val map : ('a1 -> 'a2) -> 'a1 list -> 'a2 list **)

let rec map f = function
| [] -> []
| a :: t -> (f a) :: (map f t)

(** val fold_left : ('a1 -> 'a2 -> 'a1) -> 'a2 list -> 'a1 -> 'a1 **)

let rec fold_left f l a0 =
  match l with
  | [] -> a0
  | b :: t -> fold_left f t (f a0 b)

(** val firstn : nat -> 'a1 list -> 'a1 list **)

let rec firstn n0 l =
  match n0 with
  | O -> []
  | S n1 -> (match l with
             | [] -> []
             | a :: l0 -> a :: (firstn n1 l0))

(** val skipn : nat -> 'a1 list -> 'a1 list **)

let rec skipn n0 l =
  match n0 with
  | O -> l
  | S n1 -> (match l with
             | [] -> []
             | _ :: l0 -> skipn n1 l0)

(** val seq : nat -> nat -> nat list **)

let rec seq start = function
| O -> []
| S len0 -> start :: (seq (S start) len0)

(** val repeat : 'a1 -> nat -> 'a1 list **)

let rec repeat x = function
| O -> []
| S k -> x :: (repeat x k)

(** val w64 : z **)

let w64 =
  Z.pow (Zpos (XO XH)) (Zpos (XO (XO (XO (XO (XO (XO XH)))))))

(** val limb : z list -> z -> z **)

let limb ls i =
  nth (Z.to_nat i) ls Z0

(** val shr64 : z -> z -> z **)

let shr64 =
  Z.shiftr

(** val shl64 : z -> z -> z **)

let shl64 x s =
  Z.modulo (Z.shiftl x s) w64

(** val wrap_i64 : z -> z **)

let wrap_i64 x =
  Z.sub
    (Z.modulo
      (Z.add x (Z.pow (Zpos (XO XH)) (Zpos (XI (XI (XI (XI (XI XH))))))))
      (Z.pow (Zpos (XO XH)) (Zpos (XO (XO (XO (XO (XO (XO XH)))))))))
    (Z.pow (Zpos (XO XH)) (Zpos (XI (XI (XI (XI (XI XH)))))))

(** val bit_buf : z -> z list -> z -> z **)

let bit_buf w1 ls pos =
  let u64_idx = Z.div pos (Zpos (XO (XO (XO (XO (XO (XO XH))))))) in
  let bit_idx = Z.modulo pos (Zpos (XO (XO (XO (XO (XO (XO XH))))))) in
  let cur_u64 = limb ls u64_idx in
  if Z.ltb (Z.add bit_idx w1) (Zpos (XO (XO (XO (XO (XO (XO XH)))))))
  then shr64 cur_u64 bit_idx
  else let next_u64 = limb ls (Z.add u64_idx (Zpos XH)) in
       Z.coq_lor (shr64 cur_u64 bit_idx)
         (shl64 next_u64
           (Z.sub (Zpos (XO (XO (XO (XO (XO (XO XH))))))) bit_idx))

(** val window_val : z -> z list -> z -> z -> z **)

let window_val w1 ls pos carry =
  Z.add carry
    (Z.coq_land (bit_buf w1 ls pos)
      (Z.sub (Z.pow (Zpos (XO XH)) w1) (Zpos XH)))

(** val wnaf_loop : nat -> z -> z list -> z -> z -> z -> z list **)

let rec wnaf_loop fuel w1 ls num_bits pos carry =
  match fuel with
  | O -> []
  | S fuel' ->
    if Z.ltb pos num_bits
    then let wv = window_val w1 ls pos carry in
         if Z.eqb (Z.coq_land wv (Zpos XH)) Z0
         then Z0 :: (wnaf_loop fuel' w1 ls num_bits (Z.add pos (Zpos XH))
                      carry)
         else if Z.ltb wv (Z.div (Z.pow (Zpos (XO XH)) w1) (Zpos (XO XH)))
              then wv :: (app (repeat Z0 (Z.to_nat (Z.sub w1 (Zpos XH))))
                           (wnaf_loop fuel' w1 ls num_bits (Z.add pos w1) Z0))
              else (wrap_i64 (Z.sub wv (Z.pow (Zpos (XO XH)) w1))) :: 
                     (app (repeat Z0 (Z.to_nat (Z.sub w1 (Zpos XH))))
                       (wnaf_loop fuel' w1 ls num_bits (Z.add pos w1) (Zpos
                         XH)))
    else []

(** val wnaf : z -> z list -> z list **)

let wnaf w ls =
  let num_bits =
    Z.mul (Zpos (XO (XO (XO (XO (XO (XO XH))))))) (Z.of_nat (length ls))
  in
  wnaf_loop (Z.to_nat num_bits) (Z.add w (Zpos XH)) ls num_bits Z0 Z0

(** val table_loop : ('a1 -> 'a1 -> 'a1) -> nat -> 'a1 -> 'a1 -> 'a1 list **)

let rec table_loop gadd n0 sq tmp =
  match n0 with
  | O -> []
  | S n' -> let tmp' = gadd tmp sq in tmp' :: (table_loop gadd n' sq tmp')

(** val table : ('a1 -> 'a1 -> 'a1) -> z -> 'a1 -> 'a1 list **)

let table gadd w g =
  let sq = gadd g g in
  let num_exponents = Z.pow (Zpos (XO XH)) (Z.sub w (Zpos XH)) in
  g :: (table_loop gadd (Z.to_nat (Z.sub num_exponents (Zpos XH))) sq g)

(** val eval_step :
    'a1 -> ('a1 -> 'a1 -> 'a1) -> ('a1 -> 'a1 -> 'a1) -> nat -> 'a1 -> z list
    -> 'a1 list -> 'a1 **)

let eval_step gzero gadd gsub j a wnaf_i table_i =
  match nth_error wnaf_i j with
  | Some ge ->
    if Z.ltb Z0 ge
    then gadd a (nth (Z.to_nat (Z.quot ge (Zpos (XO XH)))) table_i gzero)
    else if Z.ltb ge Z0
         then gsub a
                (nth (Z.to_nat (Z.quot (Z.opp ge) (Zpos (XO XH)))) table_i
                  gzero)
         else a
  | None -> a

(** val eval_inner :
    'a1 -> ('a1 -> 'a1 -> 'a1) -> ('a1 -> 'a1 -> 'a1) -> nat -> 'a1 -> z list
    list -> 'a1 list list -> 'a1 **)

let rec eval_inner gzero gadd gsub j a wnafs tables =
  match wnafs with
  | [] -> a
  | wi :: ws ->
    (match tables with
     | [] -> a
     | ti :: ts ->
       eval_inner gzero gadd gsub j (eval_step gzero gadd gsub j a wi ti) ws
         ts)

(** val eval_outer :
    'a1 -> ('a1 -> 'a1 -> 'a1) -> ('a1 -> 'a1 -> 'a1) -> ('a1 -> 'a1) -> nat
    -> 'a1 -> z list list -> 'a1 list list -> 'a1 **)

let rec eval_outer gzero gadd gsub gdbl n0 a wnafs tables =
  match n0 with
  | O -> a
  | S j ->
    eval_outer gzero gadd gsub gdbl j
      (eval_inner gzero gadd gsub j (gdbl a) wnafs tables) wnafs tables

(** val multiexp_digits :
    'a1 -> ('a1 -> 'a1 -> 'a1) -> ('a1 -> 'a1 -> 'a1) -> ('a1 -> 'a1) -> nat
    -> z list list -> 'a1 list list -> 'a1 **)

let multiexp_digits gzero gadd gsub gdbl field_bits wnafs tables =
  eval_outer gzero gadd gsub gdbl (S field_bits) gzero wnafs tables

(** val multiexp :
    'a1 -> ('a1 -> 'a1 -> 'a1) -> ('a1 -> 'a1 -> 'a1) -> ('a1 -> 'a1) -> z ->
    nat -> 'a1 list -> z list list -> 'a1 **)

let multiexp gzero gadd gsub gdbl w field_bits gs ss =
  multiexp_digits gzero gadd gsub gdbl field_bits (map (wnaf w) ss)
    (map (table gadd w) gs)

(** val zr_multiexp : z -> z -> nat -> z list -> z list list -> z **)

let zr_multiexp r w field_bits gs ss =
  multiexp Z0 (fun a b -> Z.modulo (Z.add a b) r) (fun a b ->
    Z.modulo (Z.sub a b) r) (fun a -> Z.modulo (Z.add a a) r) w field_bits gs
    ss

(** val eval_share :
    'a1 -> ('a1 -> 'a1 -> 'a1) -> ('a1 -> 'a1 -> 'a1) -> 'a1 -> 'a1 list ->
    'a1 -> 'a1 **)

let eval_share f0 fadd fmul secret coeffs x =
  let share0 =
    fold_left (fun share0 coeff -> fadd (fmul share0 x) coeff) (rev coeffs) f0
  in
  fadd (fmul share0 x) secret

(** val share :
    'a1 -> ('a1 -> 'a1 -> 'a1) -> ('a1 -> 'a1 -> 'a1) -> 'a1 -> 'a1 list ->
    'a1 list -> 'a1 list **)

let share f0 fadd fmul secret coeffs points =
  map (eval_share f0 fadd fmul secret coeffs) points

(** val lagrange :
    'a1 -> ('a1 -> 'a1 -> 'a1) -> ('a1 -> 'a1 -> 'a1) -> ('a1 -> 'a1 option)
    -> 'a1 list -> 'a1 -> 'a1 **)

let lagrange f1 fsub fmul finv kxs i =
  fold_left (fun accum j ->
    match finv (fsub j i) with
    | Some z0 -> fmul (fmul j z0) accum
    | None -> accum) kxs f1

(** val reveal :
    'a1 -> 'a1 -> ('a1 -> 'a1 -> 'a1) -> ('a1 -> 'a1 -> 'a1) -> ('a1 -> 'a1
    -> 'a1) -> ('a1 -> 'a1 option) -> ('a1 * 'a1) list -> 'a1 **)

let reveal f0 f1 fadd fsub fmul finv shares =
  let kxs = map fst shares in
  fold_left (fun accum iv ->
    fadd (fmul (lagrange f1 fsub fmul finv kxs (fst iv)) (snd iv)) accum)
    shares f0

(** val reveal_in_group :
    'a1 -> ('a1 -> 'a1 -> 'a1) -> ('a1 -> 'a1 -> 'a1) -> ('a1 -> 'a1 option)
    -> 'a2 -> ('a2 -> 'a2 -> 'a2) -> ('a1 -> 'a2 -> 'a2) -> ('a1 * 'a2) list
    -> 'a2 **)

let reveal_in_group f1 fsub fmul finv gzero gadd smul shares =
  let kxs = map fst shares in
  fold_left (fun accum iv ->
    gadd (smul (lagrange f1 fsub fmul finv kxs (fst iv)) (snd iv)) accum)
    shares gzero

(** val pow_mod_pos : z -> positive -> z -> z **)

let rec pow_mod_pos b e m =
  match e with
  | XI e' ->
    let t = pow_mod_pos b e' m in
    Z.modulo (Z.mul (Z.modulo (Z.mul t t) m) b) m
  | XO e' -> let t = pow_mod_pos b e' m in Z.modulo (Z.mul t t) m
  | XH -> Z.modulo b m

(** val zr_inv : z -> z -> z option **)

let zr_inv r x =
  if Z.eqb (Z.modulo x r) Z0
  then None
  else (match Z.sub r (Zpos (XO XH)) with
        | Zpos e -> Some (pow_mod_pos (Z.modulo x r) e r)
        | _ -> Some (Z.modulo x r))

(** val zr_add : z -> z -> z -> z **)

let zr_add r a b =
  Z.modulo (Z.add a b) r

(** val zr_sub : z -> z -> z -> z **)

let zr_sub r a b =
  Z.modulo (Z.sub a b) r

(** val zr_mul : z -> z -> z -> z **)

let zr_mul r a b =
  Z.modulo (Z.mul a b) r

(** val zr_share : z -> z -> z list -> z list -> z list **)

let zr_share r =
  share Z0 (zr_add r) (zr_mul r)

(** val zr_lagrange : z -> z list -> z -> z **)

let zr_lagrange r =
  lagrange (Zpos XH) (zr_sub r) (zr_mul r) (zr_inv r)

(** val zr_reveal : z -> (z * z) list -> z **)

let zr_reveal r =
  reveal Z0 (Zpos XH) (zr_add r) (zr_sub r) (zr_mul r) (zr_inv r)

(** val zr_reveal_in_group : z -> (z * z) list -> z **)

let zr_reveal_in_group r =
  reveal_in_group (Zpos XH) (zr_sub r) (zr_mul r) (zr_inv r) Z0 (zr_add r)
    (zr_mul r)

(** val bls_r : n **)

let bls_r =
  Npos (XI (XO (XO (XO (XO (XO (XO (XO (XO (XO (XO (XO (XO (XO (XO (XO (XO
    (XO (XO (XO (XO (XO (XO (XO (XO (XO (XO (XO (XO (XO (XO (XO (XI (XI (XI
    (XI (XI (XI (XI (XI (XI (XI (XI (XI (XI (XI (XI (XI (XI (XI (XI (XI (XI
    (XI (XI (XI (XI (XI (XI (XI (XI (XI (XI (XI (XO (XI (XI (XI (XI (XI (XI
    (XI (XI (XI (XO (XI (XI (XO (XI (XO (XO (XI (XI (XI (XI (XI (XI (XI (XI
    (XI (XI (XI (XI (XI (XI (XI (XO (XI (XO (XO (XO (XO (XO (XO (XO (XO (XI
    (XO (XO (XI (XO (XI (XI (XO (XI (XI (XI (XI (XO (XI (XI (XI (XO (XO (XI
    (XO (XI (XO (XI (XO (XI (XO (XO (XO (XO (XO (XO (XO (XO (XI (XI (XO (XI
    (XI (XI (XO (XO (XO (XO (XI (XO (XI (XI (XO (XO (XI (XO (XO (XO (XO (XO
    (XO (XO (XI (XO (XO (XO (XO (XO (XO (XO (XI (XI (XO (XI (XI (XI (XO (XO
    (XI (XI (XI (XO (XO (XI (XI (XO (XO (XI (XI (XO (XO (XO (XO (XO (XI (XO
    (XO (XI (XO (XI (XO (XI (XI (XI (XI (XI (XO (XI (XO (XI (XI (XI (XO (XO
    (XI (XI (XO (XO (XI (XO (XI (XO (XO (XI (XI (XO (XO (XI (XO (XI (XO (XI
    (XI (XI (XO (XO (XI (XO (XI (XI (XO (XI (XI (XO (XI (XI (XI (XI (XI (XO
    (XO (XI (XI
    XH))))))))))))))))))))))))))))))))))))))))))))))))))))))))))))))))))))))))))))))))))))))))))))))))))))))))))))))))))))))))))))))))))))))))))))))))))))))))))))))))))))))))))))))))))))))))))))))))))))))))))))))))))))))))))))))))))))))))))))))))))))))))))))))

(** val ed_l : n **)

let ed_l =
  Npos (XI (XO (XI (XI (XO (XI (XI (XI (XI (XI (XO (XO (XI (XO (XI (XI (XI
    (XO (XI (XO (XI (XI (XI (XI (XO (XO (XI (XI (XI (XO (XI (XO (XO (XI (XO
    (XI (XI (XO (XO (XO (XI (XI (XO (XO (XO (XI (XI (XO (XO (XI (XO (XO (XI
    (XO (XO (XO (XO (XO (XO (XI (XI (XO (XI (XO (XO (XI (XI (XO (XI (XO (XI
    (XI (XO (XO (XI (XI (XI (XO (XO (XI (XI (XI (XI (XO (XI (XI (XI (XI (XO
    (XI (XO (XO (XO (XI (XO (XI (XO (XI (XI (XI (XI (XO (XI (XI (XI (XO (XO
    (XI (XI (XI (XI (XI (XO (XI (XI (XI (XI (XO (XI (XI (XO (XO (XI (XO (XI
    (XO (XO (XO (XO (XO (XO (XO (XO (XO (XO (XO (XO (XO (XO (XO (XO (XO (XO
    (XO (XO (XO (XO (XO (XO (XO (XO (XO (XO (XO (XO (XO (XO (XO (XO (XO (XO
    (XO (XO (XO (XO (XO (XO (XO (XO (XO (XO (XO (XO (XO (XO (XO (XO (XO (XO
    (XO (XO (XO (XO (XO (XO (XO (XO (XO (XO (XO (XO (XO (XO (XO (XO (XO (XO
    (XO (XO (XO (XO (XO (XO (XO (XO (XO (XO (XO (XO (XO (XO (XO (XO (XO (XO
    (XO (XO (XO (XO (XO (XO (XO (XO (XO (XO (XO (XO (XO (XO (XO (XO (XO (XO
    (XO (XO (XO (XO (XO (XO (XO (XO (XO (XO (XO (XO (XO (XO (XO (XO (XO (XO
    (XO
    XH))))))))))))))))))))))))))))))))))))))))))))))))))))))))))))))))))))))))))))))))))))))))))))))))))))))))))))))))))))))))))))))))))))))))))))))))))))))))))))))))))))))))))))))))))))))))))))))))))))))))))))))))))))))))))))))))))))))))))))))))))))))))))))

(** val be_val : n list -> n **)

let be_val bs =
  fold_left (fun acc b ->
    N.add (N.mul acc (Npos (XO (XO (XO (XO (XO (XO (XO (XO XH)))))))))) b) bs
    N0

(** val le_val : n list -> n **)

let rec le_val = function
| [] -> N0
| b :: t ->
  N.add b (N.mul (Npos (XO (XO (XO (XO (XO (XO (XO (XO XH))))))))) (le_val t))

(** val to_be : nat -> n -> n list **)

let rec to_be n0 x =
  match n0 with
  | O -> []
  | S n' ->
    app
      (to_be n' (N.div x (Npos (XO (XO (XO (XO (XO (XO (XO (XO XH)))))))))))
      ((N.modulo x (Npos (XO (XO (XO (XO (XO (XO (XO (XO XH)))))))))) :: [])

(** val scalar_encode : n -> n list **)

let scalar_encode x =
  to_be (S (S (S (S (S (S (S (S (S (S (S (S (S (S (S (S (S (S (S (S (S (S (S
    (S (S (S (S (S (S (S (S (S O)))))))))))))))))))))))))))))))) x

(** val scalar_decode : n -> n list -> n option **)

let scalar_decode r bs =
  if eqb (length bs) (S (S (S (S (S (S (S (S (S (S (S (S (S (S (S (S (S (S (S
       (S (S (S (S (S (S (S (S (S (S (S (S (S
       O))))))))))))))))))))))))))))))))
  then let v = be_val bs in if N.ltb v r then Some v else None
  else None

(** val to_le : nat -> n -> n list **)

let rec to_le n0 x =
  match n0 with
  | O -> []
  | S n' ->
    (N.modulo x (Npos (XO (XO (XO (XO (XO (XO (XO (XO XH)))))))))) :: 
      (to_le n' (N.div x (Npos (XO (XO (XO (XO (XO (XO (XO (XO XH)))))))))))

(** val scalar_encode_le : n -> n list **)

let scalar_encode_le x =
  to_le (S (S (S (S (S (S (S (S (S (S (S (S (S (S (S (S (S (S (S (S (S (S (S
    (S (S (S (S (S (S (S (S (S O)))))))))))))))))))))))))))))))) x

(** val scalar_decode_le : n -> n list -> n option **)

let scalar_decode_le r bs =
  if eqb (length bs) (S (S (S (S (S (S (S (S (S (S (S (S (S (S (S (S (S (S (S
       (S (S (S (S (S (S (S (S (S (S (S (S (S
       O))))))))))))))))))))))))))))))))
  then let v = le_val bs in if N.ltb v r then Some v else None
  else None

(** val sfb_limb : n list -> nat -> n **)

let sfb_limb bs k =
  le_val
    (firstn (S (S (S (S (S (S (S (S O))))))))
      (skipn (mul (S (S (S (S (S (S (S (S O)))))))) k) bs))

(** val sfb_limbs : nat -> n -> n list -> n list **)

let sfb_limbs num_chunks remove bs =
  map (fun k ->
    let l = sfb_limb bs k in
    if eqb (S k) num_chunks
    then N.coq_land l
           (N.shiftr
             (N.sub
               (N.pow (Npos (XO XH)) (Npos (XO (XO (XO (XO (XO (XO XH))))))))
               (Npos XH)) remove)
    else l) (seq O num_chunks)

(** val limbs_val_N : n list -> n **)

let rec limbs_val_N = function
| [] -> N0
| l :: t ->
  N.add l
    (N.mul (N.pow (Npos (XO XH)) (Npos (XO (XO (XO (XO (XO (XO XH))))))))
      (limbs_val_N t))

(** val scalar_from_bytes : n -> nat -> n -> n list -> n option **)

let scalar_from_bytes r num_chunks remove bs =
  let v = limbs_val_N (sfb_limbs num_chunks remove bs) in
  if N.ltb v r then Some v else None

(** val bls_scalar_from_bytes : n list -> n option **)

let bls_scalar_from_bytes =
  scalar_from_bytes bls_r (S (S (S (S O)))) (Npos (XO XH))

(** val ed_scalar_from_bytes : n list -> n option **)

let ed_scalar_from_bytes =
  scalar_from_bytes ed_l (S (S (S (S O)))) (Npos (XO (XO XH)))

(** val pad32 : n list -> n list **)

let pad32 bs =
  app bs
    (repeat N0
      (sub (S (S (S (S (S (S (S (S (S (S (S (S (S (S (S (S (S (S (S (S (S (S
        (S (S (S (S (S (S (S (S (S (S O))))))))))))))))))))))))))))))))
        (length bs)))

(** val keygen_round : n list -> n option **)

let keygen_round okm =
  let okm' = rev okm in
  let y1_vec =
    pad32
      (firstn (S (S (S (S (S (S (S (S (S (S (S (S (S (S (S (S (S (S (S (S (S
        (S (S (S (S (S (S (S (S (S (S O))))))))))))))))))))))))))))))) okm')
  in
  let y2_vec =
    pad32
      (skipn (S (S (S (S (S (S (S (S (S (S (S (S (S (S (S (S (S (S (S (S (S
        (S (S (S (S (S (S (S (S (S (S O))))))))))))))))))))))))))))))) okm')
  in
  (match bls_scalar_from_bytes y1_vec with
   | Some y1 ->
     (match bls_scalar_from_bytes y2_vec with
      | Some y2 ->
        Some
          (N.modulo
            (N.add y1
              (N.modulo
                (N.mul y2
                  (N.modulo
                    (N.pow (Npos (XO XH)) (Npos (XO (XO (XO (XI (XI (XI (XI
                      XH))))))))) bls_r)) bls_r)) bls_r)
      | None -> None)
   | None -> None)

(** val hARDENED_OFFSET : n **)

let hARDENED_OFFSET =
  Npos (XO (XO (XO (XO (XO (XO (XO (XO (XO (XO (XO (XO (XO (XO (XO (XO (XO
    (XO (XO (XO (XO (XO (XO (XO (XO (XO (XO (XO (XO (XO (XO
    XH)))))))))))))))))))))))))))))))

(** val harden : n -> n **)

let harden index =
  N.coq_lor index hARDENED_OFFSET

(** val checked_harden : n -> n option **)

let checked_harden index =
  if N.eqb (N.coq_land index hARDENED_OFFSET) N0
  then Some (N.coq_lor index hARDENED_OFFSET)
  else None

type net =
| Mainnet
| Testnet

(** val net_code : net -> n **)

let net_code = function
| Mainnet -> Npos (XI (XI (XI (XO (XI (XO (XO (XI (XI XH)))))))))
| Testnet -> Npos XH

(** val harden_all : n list -> n list option **)

let rec harden_all = function
| [] -> Some []
| i :: t ->
  (match checked_harden i with
   | Some h ->
     (match harden_all t with
      | Some t' -> Some (h :: t')
      | None -> None)
   | None -> None)

(** val make_path : net -> n list -> n list option **)

let make_path n0 path =
  match harden_all path with
  | Some p ->
    Some
      ((harden (Npos (XO (XO (XI (XI (XO XH))))))) :: ((harden (net_code n0)) :: p))
  | None -> None

(** val make_verifiable_credential_path : net -> n list -> n list option **)

let make_verifiable_credential_path n0 path =
  match harden_all path with
  | Some p ->
    Some
      ((harden (Npos (XI (XO (XI (XO (XO (XO (XO (XI (XO (XO (XI (XO (XI (XI
         (XO (XO (XI (XI (XO (XO (XO (XO (XI (XI (XO (XO (XI (XO (XI (XI
         XH)))))))))))))))))))))))))))))))) :: ((harden (net_code n0)) :: p))
  | None -> None

(** val split_u64_into_chunks : n -> n list **)

let split_u64_into_chunks x =
  (N.modulo
    (N.div x (N.pow (Npos (XO XH)) (Npos (XO (XO (XO (XO (XI XH))))))))
    (N.pow (Npos (XO XH)) (Npos (XO (XO (XO (XO XH))))))) :: ((N.modulo
                                                                (N.div x
                                                                  (N.pow
                                                                    (Npos (XO
                                                                    XH))
                                                                    (Npos (XO
                                                                    (XO (XO
                                                                    (XO (XO
                                                                    XH))))))))
                                                                (N.pow (Npos
                                                                  (XO XH))
                                                                  (Npos (XO
                                                                  (XO (XO (XO
                                                                  XH))))))) :: (
    (N.modulo (N.div x (N.pow (Npos (XO XH)) (Npos (XO (XO (XO (XO XH)))))))
      (N.pow (Npos (XO XH)) (Npos (XO (XO (XO (XO XH))))))) :: ((N.modulo x
                                                                  (N.pow
                                                                    (Npos (XO
                                                                    XH))
                                                                    (Npos (XO
                                                                    (XO (XO
                                                                    (XO
                                                                    XH))))))) :: [])))

type key_kind =
| AccountSigningKey of n * n * n
| IdCredSec of n * n
| PrfKey of n * n
| BlindingRandomness of n * n
| AttributeCommitmentRandomness of n * n * n * n
| VerifiableCredentialSigningKey of n * n * n
| VerifiableCredentialBackupEncryptionKey

(** val path_of : net -> key_kind -> n list option **)

let path_of n0 = function
| AccountSigningKey (ip, id, cred) ->
  make_path n0 (ip :: (id :: (N0 :: (cred :: []))))
| IdCredSec (ip, id) -> make_path n0 (ip :: (id :: ((Npos (XO XH)) :: [])))
| PrfKey (ip, id) -> make_path n0 (ip :: (id :: ((Npos (XI XH)) :: [])))
| BlindingRandomness (ip, id) ->
  make_path n0 (ip :: (id :: ((Npos (XO (XO XH))) :: [])))
| AttributeCommitmentRandomness (ip, id, cred, tag) ->
  make_path n0 (ip :: (id :: ((Npos (XI (XO XH))) :: (cred :: (tag :: [])))))
| VerifiableCredentialSigningKey (ix, sx, vc) ->
  make_verifiable_credential_path n0
    (app (N0 :: [])
      (app (split_u64_into_chunks ix)
        (app (split_u64_into_chunks sx) (vc :: (N0 :: [])))))
| VerifiableCredentialBackupEncryptionKey ->
  make_verifiable_credential_path n0 ((Npos XH) :: [])
