
val negb : bool -> bool

type nat =
| O
| S of nat

val fst : ('a1 * 'a2) -> 'a1

val snd : ('a1 * 'a2) -> 'a2

val length : 'a1 list -> nat

val app : 'a1 list -> 'a1 list -> 'a1 list

type comparison =
| Eq
| Lt
| Gt

val add : nat -> nat -> nat

type positive =
| XI of positive
| XO of positive
| XH

type n =
| N0
| Npos of positive

module Pos :
 sig
  type mask =
  | IsNul
  | IsPos of positive
  | IsNeg
 end

module Coq_Pos :
 sig
  val succ : positive -> positive

  val add : positive -> positive -> positive

  val add_carry : positive -> positive -> positive

  val pred_double : positive -> positive

  val pred_N : positive -> n

  type mask = Pos.mask =
  | IsNul
  | IsPos of positive
  | IsNeg

  val succ_double_mask : mask -> mask

  val double_mask : mask -> mask

  val double_pred_mask : positive -> mask

  val sub_mask : positive -> positive -> mask

  val sub_mask_carry : positive -> positive -> mask

  val sub : positive -> positive -> positive

  val mul : positive -> positive -> positive

  val iter : ('a1 -> 'a1) -> 'a1 -> positive -> 'a1

  val pow : positive -> positive -> positive

  val size_nat : positive -> nat

  val compare_cont : comparison -> positive -> positive -> comparison

  val compare : positive -> positive -> comparison

  val eqb : positive -> positive -> bool

  val gcdn : nat -> positive -> positive -> positive

  val gcd : positive -> positive -> positive

  val coq_Nsucc_double : n -> n

  val coq_Ndouble : n -> n

  val coq_lor : positive -> positive -> positive

  val ldiff : positive -> positive -> n

  val testbit : positive -> n -> bool

  val iter_op : ('a1 -> 'a1 -> 'a1) -> positive -> 'a1 -> 'a1

  val to_nat : positive -> nat

  val of_succ_nat : nat -> positive
 end

module N :
 sig
  val succ_double : n -> n

  val double : n -> n

  val add : n -> n -> n

  val sub : n -> n -> n

  val mul : n -> n -> n

  val compare : n -> n -> comparison

  val eqb : n -> n -> bool

  val leb : n -> n -> bool

  val ltb : n -> n -> bool

  val min : n -> n -> n

  val max : n -> n -> n

  val pow : n -> n -> n

  val pos_div_eucl : positive -> n -> n * n

  val div_eucl : n -> n -> n * n

  val div : n -> n -> n

  val modulo : n -> n -> n

  val gcd : n -> n -> n

  val coq_lor : n -> n -> n

  val ldiff : n -> n -> n

  val testbit : n -> n -> bool

  val to_nat : n -> nat

  val of_nat : nat -> n
 end

val nth_error : 'a1 list -> nat -> 'a1 option

val rev : 'a1 list -> 'a1 list

val concat : 'a1 list list -> 'a1 list

val map : ('a1 -> 'a2) -> 'a1 list -> 'a2 list

val fold_right : ('a2 -> 'a1 -> 'a1) -> 'a1 -> 'a2 list -> 'a1

val existsb : ('a1 -> bool) -> 'a1 list -> bool

val forallb : ('a1 -> bool) -> 'a1 list -> bool

val seq : nat -> nat -> nat list

type endian =
| BE
| LE

type gval =
| VNum of n
| VBytes of n list
| VList of gval list
| VTag of n * gval
| VNone
| VSome of gval

val lex_cmp : n list -> n list -> comparison

val grank : gval -> n

val gcmp : gval -> gval -> comparison

val glt : gval -> gval -> bool

val strictly_sorted : gval list -> bool

val key_of : gval -> gval

type pred =
| PLe of n
| PGe of n
| PLenLe of n
| PLenGe of n
| PSorted
| PSortedKeys
| PCoprime
| PField of nat * pred
| PAll of pred
| PAnd of pred * pred
| POpaque of n
| PFun of (gval -> bool)

type schema =
| SUInt of endian * nat
| STuple of schema list
| SSum of (n * schema) list
| SBitmap of endian * nat * n * (n option * schema) list
| SVec of endian * nat * schema
| SBytes of endian * nat * n
| SRaw of n
| SRefine of pred * schema
| SFramed of schema * nat list * schema
| SFramedRaw of schema * nat list * n

val sU8 : schema

val sU16 : schema

val sU32 : schema

val sU64 : schema

val sUnit : schema

val sBool : schema

val sMap : endian -> nat -> schema -> schema -> schema

val sOpaque : n -> n -> schema

val sEnum : nat -> schema

val mAX_PREALLOC : n

val enc_le : nat -> n -> n list

val dec_le : n list -> n

val enc_uint : endian -> nat -> n -> n list

val take : nat -> n list -> (n list * n list) option

val dec_uint : endian -> nat -> n list -> (n * n list) option

val pow256 : nat -> n

val len : 'a1 list -> n

val byte_ok : n -> bool

val bytes_ok : n list -> bool

val take_n : n -> n list -> (n list * n list) option

val alt_apply : (schema -> 'a1) -> 'a1 -> n -> (n * schema) list -> 'a1

val enc_tuple :
  (schema -> gval -> n list) -> schema list -> gval list -> n list

val wt_tuple : (schema -> gval -> bool) -> schema list -> gval list -> bool

val dec_tuple :
  (schema -> n list -> (gval * n list) option) -> schema list -> n list ->
  (gval list * n list) option

val enc_fields :
  (schema -> gval -> n list) -> (n option * schema) list -> gval list -> n
  list

val wt_fields :
  (schema -> gval -> bool) -> (n option * schema) list -> gval list -> bool

val dec_fields :
  (schema -> n list -> (gval * n list) option) -> n -> (n option * schema)
  list -> n list -> (gval list * n list) option

val bitmap_of : n option list -> gval list -> n

val all_bits : n option list -> n

val dec_n :
  (n list -> (gval * n list) option) -> nat -> n list -> (gval list * n list)
  option

val get_num : nat list -> gval -> n option

val glen : gval -> n option

val eval_pred : (n -> n list -> bool) -> pred -> gval -> bool

val enc : schema -> gval -> n list

val wt : (n -> n list -> bool) -> schema -> gval -> bool

val dec : (n -> n list -> bool) -> schema -> n list -> (gval * n list) option

val alloc_tuple :
  (n -> n list -> bool) -> (schema -> n list -> n) -> schema list -> n list
  -> n

val alloc_fields :
  (n -> n list -> bool) -> (schema -> n list -> n) -> n -> (n
  option * schema) list -> n list -> n

val alloc_n :
  (n list -> n) -> (n list -> (gval * n list) option) -> nat -> n list -> n

val alloc : (n -> n list -> bool) -> schema -> n list -> n

val used : (n -> n list -> bool) -> schema -> n list -> n

val min_size : schema -> n

val cap : schema -> n

val nodupb : n list -> bool

val opt_bits : n option list -> n list

val schema_wf : schema -> bool

val k_ED25519_PK : n

val k_VRF_PK : n

val k_BLS_PK : n

val k_DLOG_ED : n

val k_BLS_PROOF : n

val k_UTF8 : n

val k_CRED_ID : n

val mAX_WASM_MODULE_SIZE : n

val mAX_PAYLOAD_SIZE : n

val mAX_MEMO_SIZE : n

val mAX_REGISTERED_DATA_SIZE : n

val mAX_URL_TEXT_LENGTH : n

val s_amount : schema

val s_account_address : schema

val s_contract_address : schema

val s_address : schema

val s_memo : schema

val s_registered_data : schema

val s_ratio : schema

val s_exchange_rate : schema

val s_num_ratio : schema

val s_payload_size : schema

val s_signature : schema

val s_timestamp : schema

val s_transaction_time : schema

val s_threshold_u8 : schema

val s_update_keys_threshold : schema

val s_amount_fraction : schema

val s_open_status : schema

val s_delegation_target : schema

val s_url_text : schema

val s_mint_rate : schema

val s_leverage_factor : schema

val s_inclusive_range_fraction : schema

val s_transaction_header : schema

val header_size_path : nat list

val s_transaction_header_v1 : schema

val s_sig_map_inner : schema

val s_transaction_signature : schema

val s_transaction_signature_or_none : schema

val s_transaction_signatures_v1 : schema

val s_verify_key : schema

val s_credential_public_keys : schema

val s_account_access_structure : schema

val s_baker_keys_payload : schema

val s_configure_baker_keys : schema

val configure_baker_fields : (n option * schema) list

val s_configure_baker : schema

val s_configure_baker_prefix : schema

val s_configure_delegation : schema

val s_schedule : schema

val s_add_baker_payload : schema

val payload_alts : (n * schema) list

val s_payload : schema

val payload_modelled_tags : n list

val s_account_transaction : schema

val s_account_transaction_encoded : schema

val s_account_transaction_v1_encoded : schema

val s_update_header : schema

val s_update_instruction_signature : schema

val s_update_instruction : schema

val sum_le_100000 : gval -> bool

val s_mint_distribution_v0 : schema

val s_mint_distribution_v1 : schema

val s_transaction_fee_distribution : schema

val s_gas_rewards : schema

val s_gas_rewards_v1 : schema

val s_cooldown_parameters : schema

val s_time_parameters : schema

val s_commission_ranges : schema

val s_pool_parameters : schema

val s_timeout_parameters : schema

val s_finalization_committee_parameters : schema

val update_payload_alts : (n * schema) list

val s_update_payload : schema

val s_block_item : schema

val chain_schema_table : (n * schema) list
