(** Proofs about [Common/IntN.v]: every operator is total, stays in range and agrees with
    its mathematical definition (WebAssembly 1.0 core spec 4.3.2). *)
From Coq Require Import ZArith Lia Bool List.
From CB Require Import Common.IntN.
Local Open Scope Z_scope.

Lemma modulus_pos n : 0 <= n -> 0 < modulus n.
Proof. intros. unfold modulus. apply Z.pow_pos_nonneg; lia. Qed.

Definition in_range (n x : Z) : Prop := 0 <= x < modulus n.

Lemma wrap_in_range n x : 0 <= n -> in_range n (wrap n x).
Proof. intros H. unfold in_range, wrap. apply Z.mod_pos_bound. apply modulus_pos; lia. Qed.

Lemma wrap_id n x : in_range n x -> wrap n x = x.
Proof. intros H. unfold wrap. apply Z.mod_small. exact H. Qed.

Lemma modulus_split n : 0 < n -> modulus n = 2 * half_modulus n.
Proof.
  intros H. unfold modulus, half_modulus.
  replace n with (1 + (n - 1)) at 1 by lia. rewrite Z.pow_add_r by lia. reflexivity.
Qed.

Lemma half_modulus_pos n : 0 < n -> 0 < half_modulus n.
Proof. intros. unfold half_modulus. apply Z.pow_pos_nonneg; lia. Qed.

(** signed / unsigned are inverse bijections between [0,2^n) and [-2^(n-1), 2^(n-1)) *)
Lemma signed_range n x : 0 < n -> in_range n x -> - half_modulus n <= signed n x < half_modulus n.
Proof.
  intros Hn [H0 H1]. unfold signed. pose proof (modulus_split n Hn).
  destruct (Z.ltb_spec x (half_modulus n)); lia.
Qed.

Lemma unsigned_signed n x : 0 < n -> in_range n x -> unsigned n (signed n x) = x.
Proof.
  intros Hn [H0 H1]. unfold unsigned, signed, wrap.
  destruct (Z.ltb_spec x (half_modulus n)).
  - apply Z.mod_small; lia.
  - replace (x - modulus n) with (x + (-1) * modulus n) by lia.
    rewrite Z.mod_add by (pose proof (modulus_pos n); lia). apply Z.mod_small; lia.
Qed.

Lemma signed_unsigned n y : 0 < n -> - half_modulus n <= y < half_modulus n -> signed n (unsigned n y) = y.
Proof.
  intros Hn [H0 H1]. unfold unsigned, signed, wrap. pose proof (modulus_split n Hn).
  pose proof (half_modulus_pos n Hn).
  destruct (Z_lt_le_dec y 0).
  - replace (y mod modulus n) with (y + modulus n).
    + destruct (Z.ltb_spec (y + modulus n) (half_modulus n)); lia.
    + symmetry. replace y with ((y + modulus n) + (-1) * modulus n) at 1 by lia.
      rewrite Z.mod_add by lia. apply Z.mod_small; lia.
  - rewrite Z.mod_small by lia. destruct (Z.ltb_spec y (half_modulus n)); lia.
Qed.

(** arithmetic: definitionally the spec formulas, and closed *)
Lemma iadd_spec n x y : iadd n x y = (x + y) mod 2 ^ n. Proof. reflexivity. Qed.
Lemma imul_spec n x y : imul n x y = (x * y) mod 2 ^ n. Proof. reflexivity. Qed.
Lemma isub_spec n x y : 0 <= n -> isub n x y = (x - y) mod 2 ^ n.
Proof.
  intros. unfold isub, wrap, modulus.
  replace (x - y + 2 ^ n) with (x - y + 1 * 2 ^ n) by lia.
  apply Z.mod_add. pose proof (modulus_pos n). unfold modulus in *. lia.
Qed.
Lemma iadd_range n x y : 0 <= n -> in_range n (iadd n x y). Proof. intros; apply wrap_in_range; auto. Qed.
Lemma isub_range n x y : 0 <= n -> in_range n (isub n x y). Proof. intros; apply wrap_in_range; auto. Qed.
Lemma imul_range n x y : 0 <= n -> in_range n (imul n x y). Proof. intros; apply wrap_in_range; auto. Qed.

(** division *)
Lemma idiv_u_spec n x y : idiv_u n x y = if y =? 0 then None else Some (x / y). Proof. reflexivity. Qed.
Lemma idiv_u_range n x y r : in_range n x -> in_range n y -> idiv_u n x y = Some r -> in_range n r.
Proof.
  unfold idiv_u, in_range. intros [Hx0 Hx1] [Hy0 Hy1]. destruct (Z.eqb_spec y 0); [discriminate|].
  intros E; inversion E; subst. split.
  - apply Z.div_pos; lia.
  - apply Z.le_lt_trans with x; [|lia]. apply Z.div_le_upper_bound; nia.
Qed.
Lemma irem_u_range n x y r : in_range n x -> in_range n y -> irem_u n x y = Some r -> in_range n r.
Proof.
  unfold irem_u, in_range. intros [Hx0 Hx1] [Hy0 Hy1]. destruct (Z.eqb_spec y 0); [discriminate|].
  intros E; inversion E; subst. pose proof (Z.mod_pos_bound x y). lia.
Qed.
Lemma idiv_zero n x : idiv_u n x 0 = None /\ idiv_s n x 0 = None /\ irem_u n x 0 = None /\ irem_s n x 0 = None.
Proof. repeat split. Qed.

(** the two corner cases of signed division (spec 4.3.2: idiv_s is undefined when the quotient is
    2^(N-1); irem_s is defined and 0) *)
Lemma idiv_s_min_m1 n : 1 < n -> idiv_s n (half_modulus n) (modulus n - 1) = None.
Proof.
  intros Hn. unfold idiv_s. pose proof (modulus_split n ltac:(lia)). pose proof (half_modulus_pos n ltac:(lia)).
  assert (2 <= half_modulus n).
  { unfold half_modulus. replace (n - 1) with (1 + (n - 2)) by lia. rewrite Z.pow_add_r by lia.
    assert (0 < 2 ^ (n - 2)) by (apply Z.pow_pos_nonneg; lia). lia. }
  destruct (Z.eqb_spec (modulus n - 1) 0); [lia|].
  unfold signed.
  destruct (Z.ltb_spec (half_modulus n) (half_modulus n)); [lia|].
  destruct (Z.ltb_spec (modulus n - 1) (half_modulus n)); [lia|].
  replace (half_modulus n - modulus n) with (- half_modulus n) by lia.
  replace (modulus n - 1 - modulus n) with (-1) by lia.
  replace (Z.quot (- half_modulus n) (-1)) with (half_modulus n).
  - rewrite Z.eqb_refl. reflexivity.
  - change (-1) with (- (1)). rewrite Z.quot_opp_opp by lia. rewrite Z.quot_1_r. reflexivity.
Qed.
Lemma irem_s_min_m1 n : 1 < n -> irem_s n (half_modulus n) (modulus n - 1) = Some 0.
Proof.
  intros Hn. unfold irem_s. pose proof (modulus_split n ltac:(lia)). pose proof (half_modulus_pos n ltac:(lia)).
  assert (2 <= half_modulus n).
  { unfold half_modulus. replace (n - 1) with (1 + (n - 2)) by lia. rewrite Z.pow_add_r by lia.
    assert (0 < 2 ^ (n - 2)) by (apply Z.pow_pos_nonneg; lia). lia. }
  destruct (Z.eqb_spec (modulus n - 1) 0); [lia|].
  unfold signed.
  destruct (Z.ltb_spec (half_modulus n) (half_modulus n)); [lia|].
  destruct (Z.ltb_spec (modulus n - 1) (half_modulus n)); [lia|].
  replace (modulus n - 1 - modulus n) with (-1) by lia.
  change (-1) with (- (1)). rewrite Z.rem_opp_r by lia. rewrite Z.rem_1_r. reflexivity.
Qed.
Lemma idiv_s_range n x y r : 0 <= n -> idiv_s n x y = Some r -> in_range n r.
Proof.
  unfold idiv_s. intros Hn. destruct (y =? 0); [discriminate|].
  destruct (_ =? half_modulus n); [discriminate|]. intros E; inversion E. apply wrap_in_range; auto.
Qed.
Lemma irem_s_range n x y r : 0 <= n -> irem_s n x y = Some r -> in_range n r.
Proof.
  unfold irem_s. intros Hn. destruct (y =? 0); [discriminate|]. intros E; inversion E. apply wrap_in_range; auto.
Qed.
(** irem_s: the result has the sign of the dividend and satisfies the division identity *)
Lemma irem_s_identity n x y : y <> 0 -> signed n y <> 0 ->
  exists r, irem_s n x y = Some (unsigned n r)
            /\ signed n x = signed n y * Z.quot (signed n x) (signed n y) + r.
Proof.
  intros Hy Hs. unfold irem_s. destruct (Z.eqb_spec y 0); [contradiction|].
  eexists; split; [reflexivity|]. apply Z.quot_rem'.
Qed.

(** shifts: the count is taken modulo the width *)
Lemma ishl_count_mod n x k : 0 < n -> ishl n x (k + n) = ishl n x k.
Proof. intros. unfold ishl. replace (k + n) with (k + 1 * n) by lia. rewrite Z.mod_add by lia. reflexivity. Qed.
Lemma ishr_u_count_mod n x k : 0 < n -> ishr_u n x (k + n) = ishr_u n x k.
Proof. intros. unfold ishr_u. replace (k + n) with (k + 1 * n) by lia. rewrite Z.mod_add by lia. reflexivity. Qed.
Lemma ishr_s_count_mod n x k : 0 < n -> ishr_s n x (k + n) = ishr_s n x k.
Proof. intros. unfold ishr_s. replace (k + n) with (k + 1 * n) by lia. rewrite Z.mod_add by lia. reflexivity. Qed.
Lemma ishl_range n x k : 0 <= n -> in_range n (ishl n x k). Proof. intros; apply wrap_in_range; auto. Qed.
Lemma ishr_s_range n x k : 0 <= n -> in_range n (ishr_s n x k). Proof. intros; apply wrap_in_range; auto. Qed.
Lemma ishr_u_range n x k : 0 < n -> in_range n x -> in_range n (ishr_u n x k).
Proof.
  intros Hn [H0 H1]. unfold ishr_u, in_range.
  assert (0 < 2 ^ (k mod n)) by (apply Z.pow_pos_nonneg; [lia|apply Z.mod_pos_bound; lia]).
  split; [apply Z.div_pos; lia|].
  apply Z.le_lt_trans with x; [|lia]. apply Z.div_le_upper_bound; nia.
Qed.
Lemma ishl_zero n x : 0 < n -> in_range n x -> ishl n x 0 = x.
Proof. intros Hn Hx. unfold ishl. rewrite Z.mod_0_l by lia. rewrite Z.mul_1_r. apply wrap_id; auto. Qed.

(** rotations *)
Lemma rot_parts n x k : 0 < n -> in_range n x -> 0 <= k < n ->
  x = (x / 2 ^ (n - k)) * 2 ^ (n - k) + x mod 2 ^ (n - k) /\ 0 <= x / 2 ^ (n - k) < 2 ^ k /\ 0 <= x mod 2 ^ (n - k) < 2 ^ (n - k).
Proof.
  intros Hn [H0 H1] Hk. unfold modulus in H1.
  assert (P : 0 < 2 ^ (n - k)) by (apply Z.pow_pos_nonneg; lia).
  repeat split; try (apply Z.mod_pos_bound; lia).
  - pose proof (Z.div_mod x (2 ^ (n - k))). lia.
  - apply Z.div_pos; lia.
  - apply Z.div_lt_upper_bound; [lia|]. rewrite <- Z.pow_add_r by lia. replace (n - k + k) with n by lia. lia.
Qed.

Lemma irotl_formula n x k : 0 < n -> in_range n x -> 0 <= k < n ->
  irotl n x k = (x mod 2 ^ (n - k)) * 2 ^ k + x / 2 ^ (n - k).
Proof.
  intros Hn Hx Hk. unfold irotl. rewrite (Z.mod_small k n) by lia.
  destruct (rot_parts n x k Hn Hx Hk) as (E & Hh & Hl).
  set (h := x / 2 ^ (n - k)) in *. set (l := x mod 2 ^ (n - k)) in *.
  f_equal. unfold wrap, modulus.
  assert (Pk : 0 < 2 ^ k) by (apply Z.pow_pos_nonneg; lia).
  assert (En : 2 ^ n = 2 ^ (n - k) * 2 ^ k) by (rewrite <- Z.pow_add_r by lia; f_equal; lia).
  rewrite E at 1. replace ((h * 2 ^ (n - k) + l) * 2 ^ k) with (l * 2 ^ k + h * 2 ^ n) by (rewrite En; ring).
  rewrite Z.mod_add by lia. apply Z.mod_small. split; [nia|]. rewrite En. nia.
Qed.

Lemma irotr_formula n x k : 0 < n -> in_range n x -> 0 <= k < n ->
  irotr n x k = x / 2 ^ k + (x mod 2 ^ k) * 2 ^ (n - k).
Proof.
  intros Hn Hx Hk. unfold irotr. rewrite (Z.mod_small k n) by lia.
  destruct (Z.eq_dec k 0) as [->|Hk0].
  - rewrite Z.sub_0_r. cbn [Z.pow]. rewrite Z.div_1_r, Z.mod_1_r. unfold wrap, modulus.
    rewrite Z.mod_mul by (pose proof (modulus_pos n); unfold modulus in *; lia). lia.
  - assert (Hk' : 0 <= n - k < n) by lia.
    destruct (rot_parts n x (n - k) Hn Hx Hk') as (E & Hh & Hl).
    replace (n - (n - k)) with k in * by lia.
    set (h := x / 2 ^ k) in *. set (l := x mod 2 ^ k) in *.
    f_equal. unfold wrap, modulus.
    assert (Pk : 0 < 2 ^ (n - k)) by (apply Z.pow_pos_nonneg; lia).
    assert (En : 2 ^ n = 2 ^ k * 2 ^ (n - k)) by (rewrite <- Z.pow_add_r by lia; f_equal; lia).
    rewrite E at 1. replace ((h * 2 ^ k + l) * 2 ^ (n - k)) with (l * 2 ^ (n - k) + h * 2 ^ n) by (rewrite En; ring).
    rewrite Z.mod_add by lia. apply Z.mod_small. split; [nia|]. rewrite En. nia.
Qed.

Lemma irotl_range n x k : 0 < n -> in_range n x -> in_range n (irotl n x k).
Proof.
  intros Hn Hx. assert (Hk : 0 <= k mod n < n) by (apply Z.mod_pos_bound; lia).
  replace (irotl n x k) with (irotl n x (k mod n)) by (unfold irotl; rewrite Z.mod_mod by lia; reflexivity).
  rewrite irotl_formula by auto.
  destruct (rot_parts n x (k mod n) Hn Hx Hk) as (E & Hh & Hl).
  unfold in_range, modulus.
  assert (Pk : 0 < 2 ^ (k mod n)) by (apply Z.pow_pos_nonneg; lia).
  assert (En : 2 ^ n = 2 ^ (n - k mod n) * 2 ^ (k mod n)) by (rewrite <- Z.pow_add_r by lia; f_equal; lia).
  split; [nia|]. rewrite En. nia.
Qed.

(** rotating left then right by the same count is the identity *)
Lemma irotr_irotl n x k : 0 < n -> in_range n x -> irotr n (irotl n x k) k = x.
Proof.
  intros Hn Hx. assert (Hk : 0 <= k mod n < n) by (apply Z.mod_pos_bound; lia).
  replace (irotl n x k) with (irotl n x (k mod n)) by (unfold irotl; rewrite Z.mod_mod by lia; reflexivity).
  replace (irotr n (irotl n x (k mod n)) k) with (irotr n (irotl n x (k mod n)) (k mod n))
    by (unfold irotr; rewrite Z.mod_mod by lia; reflexivity).
  set (j := k mod n) in *.
  rewrite irotr_formula; auto; [|apply irotl_range; auto].
  rewrite irotl_formula by auto.
  destruct (rot_parts n x j Hn Hx Hk) as (E & Hh & Hl).
  set (h := x / 2 ^ (n - j)) in *. set (l := x mod 2 ^ (n - j)) in *.
  assert (Pj : 0 < 2 ^ j) by (apply Z.pow_pos_nonneg; lia).
  replace ((l * 2 ^ j + h) / 2 ^ j) with l.
  2:{ rewrite Z.div_add_l by lia. rewrite (Z.div_small h) by lia. lia. }
  replace ((l * 2 ^ j + h) mod 2 ^ j) with h.
  2:{ rewrite Z.add_comm, Z.mod_add by lia. symmetry; apply Z.mod_small; lia. }
  lia.
Qed.

(** counting operators *)
Lemma pos_ctz_nonneg p : 0 <= pos_ctz p. Proof. induction p; cbn [pos_ctz]; lia. Qed.
Lemma pos_popcnt_pos p : 1 <= pos_popcnt p. Proof. induction p; cbn [pos_popcnt]; lia. Qed.
Lemma pos_ctz_le_log2 p : pos_ctz p <= Z.log2 (Zpos p).
Proof.
  induction p; cbn [pos_ctz]; try (pose proof (Z.log2_nonneg (Zpos p~1)); lia); [|cbn; lia].
  change (Zpos p~0) with (2 * Zpos p). rewrite Z.log2_double by lia. lia.
Qed.
Lemma pos_popcnt_le_bitlen p : pos_popcnt p <= Z.log2 (Zpos p) + 1.
Proof.
  induction p; cbn [pos_popcnt].
  - change (Zpos p~1) with (2 * Zpos p + 1). rewrite Z.log2_succ_double by lia. lia.
  - change (Zpos p~0) with (2 * Zpos p). rewrite Z.log2_double by lia. lia.
  - cbn. lia.
Qed.
Lemma log2_lt_width n x : 0 < n -> in_range n x -> 0 < x -> Z.log2 x < n.
Proof. intros Hn [H0 H1] Hp. unfold modulus in H1. apply Z.log2_lt_pow2; lia. Qed.

Lemma iclz_range n x : 0 < n -> in_range n x -> 0 <= iclz n x <= n.
Proof.
  intros Hn Hx. unfold iclz, bitlen. destruct x as [|p|p]; try lia.
  pose proof (log2_lt_width n (Zpos p) Hn Hx ltac:(lia)). pose proof (Z.log2_nonneg (Zpos p)). lia.
Qed.
Lemma ictz_range n x : 0 < n -> in_range n x -> 0 <= ictz n x <= n.
Proof.
  intros Hn Hx. unfold ictz. destruct x as [|p|p]; try lia.
  pose proof (log2_lt_width n (Zpos p) Hn Hx ltac:(lia)). pose proof (pos_ctz_le_log2 p). pose proof (pos_ctz_nonneg p). lia.
Qed.
Lemma ipopcnt_range n x : 0 < n -> in_range n x -> 0 <= ipopcnt n x <= n.
Proof.
  intros Hn Hx. unfold ipopcnt. destruct x as [|p|p]; try lia.
  pose proof (log2_lt_width n (Zpos p) Hn Hx ltac:(lia)). pose proof (pos_popcnt_le_bitlen p). pose proof (pos_popcnt_pos p). lia.
Qed.
Lemma iclz_zero n : iclz n 0 = n. Proof. unfold iclz, bitlen. lia. Qed.
Lemma ictz_zero n : ictz n 0 = n. Proof. reflexivity. Qed.
Lemma iclz_top_bit n x : 0 < n -> in_range n x -> half_modulus n <= x -> iclz n x = 0.
Proof.
  intros Hn [H0 H1] Hh. unfold iclz, bitlen. pose proof (half_modulus_pos n Hn).
  destruct x as [|p|p]; try lia.
  assert (Z.log2 (Zpos p) = n - 1); [|lia].
  apply Z.log2_unique; [lia|]. unfold half_modulus, modulus in *.
  replace (Z.succ (n - 1)) with n by lia. lia.
Qed.
Lemma ictz_odd n x : x mod 2 = 1 -> 0 <= x -> ictz n x = 0.
Proof.
  intros Ho Hx. unfold ictz. destruct x as [|p|p]; try lia; [cbn in Ho; lia|].
  destruct p; cbn [pos_ctz]; try reflexivity. exfalso.
  change (Zpos p~0) with (2 * Zpos p) in Ho. rewrite Z.mul_comm, Z.mod_mul in Ho; lia.
Qed.

(** comparisons produce 0 or 1 *)
Lemma bool_to_Z_range b : 0 <= bool_to_Z b <= 1. Proof. destruct b; cbn; lia. Qed.
Lemma ilt_s_spec n x y : ilt_s n x y = if signed n x <? signed n y then 1 else 0. Proof. reflexivity. Qed.
Lemma ilt_u_spec n x y : ilt_u n x y = if x <? y then 1 else 0. Proof. reflexivity. Qed.
Lemma ieqz_spec n x : ieqz n x = if x =? 0 then 1 else 0. Proof. reflexivity. Qed.

(** conversions *)
Lemma iwrap_range m n x : 0 <= n -> in_range n (iwrap m n x). Proof. intros; apply wrap_in_range; auto. Qed.
Lemma iextend_s_range m n x : 0 <= n -> in_range n (iextend_s m n x). Proof. intros; apply wrap_in_range; auto. Qed.
Lemma iextend_u_range m n x : 0 <= m <= n -> in_range m x -> in_range n (iextend_u m n x).
Proof.
  intros Hmn [H0 H1]. unfold iextend_u, in_range, modulus in *. split; [lia|].
  apply Z.lt_le_trans with (2 ^ m); [lia|]. apply Z.pow_le_mono_r; lia.
Qed.
(** wrap after extend is the identity (both extensions) *)
Lemma iwrap_iextend_u m n x : in_range m x -> iwrap n m (iextend_u m n x) = x.
Proof. intros. unfold iwrap, iextend_u. apply wrap_id; auto. Qed.
Lemma pow2_divides m n : 0 <= m <= n -> modulus n = modulus m * 2 ^ (n - m).
Proof. intros. unfold modulus. rewrite <- Z.pow_add_r by lia. f_equal. lia. Qed.
Lemma iwrap_iextend_s m n x : 0 < m <= n -> in_range m x -> iwrap n m (iextend_s m n x) = x.
Proof.
  intros Hmn Hx. unfold iwrap, iextend_s, unsigned, wrap.
  pose proof (pow2_divides m n ltac:(lia)) as D. pose proof (modulus_pos m ltac:(lia)) as Pm.
  assert (P2 : 0 < 2 ^ (n - m)) by (apply Z.pow_pos_nonneg; lia).
  rewrite D. rewrite Z.rem_mul_r by lia.
  replace (signed m x mod modulus m + modulus m * ((signed m x / modulus m) mod 2 ^ (n - m)))
    with (signed m x mod modulus m + ((signed m x / modulus m) mod 2 ^ (n - m)) * modulus m) by ring.
  rewrite Z.mod_add by lia. rewrite Z.mod_mod by lia.
  apply (unsigned_signed m x); [lia|auto].
Qed.
(** sign extension preserves the signed value *)
Lemma iextend_s_signed m n x : 0 < m <= n -> in_range m x -> signed n (iextend_s m n x) = signed m x.
Proof.
  intros Hmn Hx. unfold iextend_s. apply signed_unsigned; [lia|].
  pose proof (signed_range m x ltac:(lia) Hx).
  assert (half_modulus m <= half_modulus n) by (unfold half_modulus; apply Z.pow_le_mono_r; lia). lia.
Qed.
Lemma iextendM_s_idem m n x : 0 < m <= n -> iextendM_s m n (iextendM_s m n x) = iextendM_s m n x.
Proof.
  intros Hmn. unfold iextendM_s.
  pose proof (wrap_in_range m x ltac:(lia)) as R.
  assert (E : wrap m (iextend_s m n (wrap m x)) = wrap m x).
  { apply (iwrap_iextend_s m n (wrap m x) Hmn R). }
  rewrite E. reflexivity.
Qed.

(** little-endian bytes *)
Lemma of_bytes_bytes_of k x : 0 <= x -> of_bytes (bytes_of k x) = x mod 256 ^ Z.of_nat k.
Proof.
  revert x. induction k as [|k IH]; intros x Hx.
  - cbn. rewrite Z.mod_1_r. reflexivity.
  - cbn [bytes_of of_bytes]. rewrite IH by (apply Z.div_pos; lia).
    rewrite Nat2Z.inj_succ, Z.pow_succ_r by lia.
    rewrite Z.rem_mul_r by (try lia; apply Z.pow_nonzero; lia). lia.
Qed.
Lemma bytes_of_length k x : length (bytes_of k x) = k.
Proof. revert x; induction k; intros; cbn; auto. Qed.
Lemma bytes_of_range k x : Forall (fun b => 0 <= b < 256) (bytes_of k x).
Proof. revert x; induction k; intros; cbn; constructor; auto. apply Z.mod_pos_bound; lia. Qed.

Lemma in_range_example : in_range 32 4294967295 /\ ~ in_range 32 4294967296 /\ iadd 32 4294967295 1 = 0.
Proof.
  split; [|split]; [ | |reflexivity].
  - unfold in_range. change (modulus 32) with 4294967296. lia.
  - unfold in_range. change (modulus 32) with 4294967296. lia.
Qed.
