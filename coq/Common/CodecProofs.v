(** * Common/CodecProofs.v -- the universal laws of the codec calculus.

    For every schema [s] with [schema_wf s = true] (a boolean, discharged by computation) and every
    validity oracle [valid]:

    - [schema_rt]      RT     : [wt s v = true -> dec s (enc s v ++ rest) = Some (v, rest)]
    - [schema_canon]   Canon  : [bytes_ok bs = true -> dec s bs = Some (v, rest) ->
                                 bs = enc s v ++ rest /\ wt s v = true /\ bytes_ok rest = true]
    - [schema_pfree]   PFree  : [enc s a ++ r1 = enc s b ++ r2 -> a = b /\ r1 = r2]   (well-typed a, b)
    - [schema_alloc]   AllocOK: [bytes_ok bs = true -> alloc s bs <= cap s * used s bs]
    - [schema_min_size]         [wt s v = true -> min_size s <= len (enc s v)]
    - [schema_codec_laws]       the conjunction, in the record-free form used by Props files.

    All by induction on the schema ([schema_ind'], the nested induction principle). *)
From Coq Require Import NArith List Bool Lia.
From CB Require Import Common.Codec.
Import ListNotations.
Local Open Scope N_scope.
Arguments N.add : simpl never.
Arguments N.sub : simpl never.
Arguments N.mul : simpl never.
Arguments N.eqb : simpl never.
Arguments N.ltb : simpl never.
Arguments N.leb : simpl never.
Arguments N.pow : simpl never.
Arguments N.div : simpl never.
Arguments N.modulo : simpl never.
Arguments N.min : simpl never.
Arguments N.max : simpl never.
Arguments N.ldiff : simpl never.
Arguments N.lor : simpl never.
Arguments N.testbit : simpl never.
Arguments N.of_nat : simpl never.
Arguments N.to_nat : simpl never.

(** ** Nested induction principle *)
Section SchemaInd.
  Variable P : schema -> Prop.
  Hypothesis HUInt : forall e w, P (SUInt e w).
  Hypothesis HTuple : forall ss, Forall P ss -> P (STuple ss).
  Hypothesis HSum : forall alts, Forall (fun a => P (snd a)) alts -> P (SSum alts).
  Hypothesis HBitmap : forall e w m fs, Forall (fun a => P (snd a)) fs -> P (SBitmap e w m fs).
  Hypothesis HVec : forall e w s, P s -> P (SVec e w s).
  Hypothesis HBytes : forall e w m, P (SBytes e w m).
  Hypothesis HRaw : forall n, P (SRaw n).
  Hypothesis HRefine : forall p s, P s -> P (SRefine p s).
  Hypothesis HFramed : forall h path b, P h -> P b -> P (SFramed h path b).
  Hypothesis HFramedRaw : forall h path m, P h -> P (SFramedRaw h path m).

  Fixpoint schema_ind' (s : schema) : P s :=
    match s with
    | SUInt e w => HUInt e w
    | STuple ss =>
        HTuple ss ((fix go (l : list schema) : Forall P l :=
                      match l with
                      | [] => Forall_nil _
                      | x :: r => Forall_cons x (schema_ind' x) (go r)
                      end) ss)
    | SSum alts =>
        HSum alts ((fix go (l : list (N * schema)) : Forall (fun a => P (snd a)) l :=
                      match l with
                      | [] => Forall_nil _
                      | (t, x) :: r => Forall_cons (t, x) (schema_ind' x) (go r)
                      end) alts)
    | SBitmap e w m fs =>
        HBitmap e w m fs ((fix go (l : list (option N * schema)) : Forall (fun a => P (snd a)) l :=
                             match l with
                             | [] => Forall_nil _
                             | (t, x) :: r => Forall_cons (t, x) (schema_ind' x) (go r)
                             end) fs)
    | SVec e w s' => HVec e w s' (schema_ind' s')
    | SBytes e w m => HBytes e w m
    | SRaw n => HRaw n
    | SRefine p s' => HRefine p s' (schema_ind' s')
    | SFramed h path b => HFramed h path b (schema_ind' h) (schema_ind' b)
    | SFramedRaw h path m => HFramedRaw h path m (schema_ind' h)
    end.
End SchemaInd.

(** ** Lists, lengths, bytes *)
Lemma len_app {A} (a b : list A) : len (a ++ b) = len a + len b.
Proof. unfold len. rewrite app_length. lia. Qed.

Lemma len_cons {A} (a : A) (b : list A) : len (a :: b) = 1 + len b.
Proof. unfold len. cbn [length]. lia. Qed.

Lemma len_nil {A} : len (@nil A) = 0.
Proof. reflexivity. Qed.

Lemma bytes_ok_app a b : bytes_ok (a ++ b) = bytes_ok a && bytes_ok b.
Proof. apply forallb_app. Qed.

Lemma bytes_ok_rev a : bytes_ok (rev a) = bytes_ok a.
Proof.
  induction a as [|x a IH]; [reflexivity|].
  cbn [rev]. rewrite bytes_ok_app, IH. cbn [bytes_ok forallb]. rewrite andb_true_r. apply andb_comm.
Qed.

Lemma bytes_ok_app_inv a b : bytes_ok (a ++ b) = true -> bytes_ok a = true /\ bytes_ok b = true.
Proof. rewrite bytes_ok_app. apply andb_true_iff. Qed.

(** ** Integers *)
Lemma pow256_S w : pow256 (S w) = 256 * pow256 w.
Proof.
  unfold pow256. rewrite Nat2N.inj_succ.
  replace (8 * N.succ (N.of_nat w)) with (8 + 8 * N.of_nat w) by lia.
  rewrite N.pow_add_r. reflexivity.
Qed.

Lemma pow256_pos w : 0 < pow256 w.
Proof. unfold pow256. apply N.neq_0_lt_0, N.pow_nonzero. lia. Qed.

Lemma enc_le_length w n : length (enc_le w n) = w.
Proof. revert n; induction w as [|w IH]; intros n; cbn [enc_le length]; [reflexivity|]. now rewrite IH. Qed.

Lemma enc_uint_length e w n : length (enc_uint e w n) = w.
Proof. destruct e; cbn [enc_uint]; [rewrite rev_length|]; apply enc_le_length. Qed.

Lemma enc_uint_len e w n : len (enc_uint e w n) = N.of_nat w.
Proof. unfold len. now rewrite enc_uint_length. Qed.

Lemma dec_le_enc_le w : forall n, n < pow256 w -> dec_le (enc_le w n) = n.
Proof.
  induction w as [|w IH]; intros n Hn.
  - unfold pow256 in Hn. cbn in Hn. cbn [enc_le dec_le]. lia.
  - cbn [enc_le dec_le]. rewrite IH.
    + symmetry. rewrite N.add_comm. apply N.div_mod'.
    + rewrite pow256_S in Hn. apply N.div_lt_upper_bound; lia.
Qed.

Lemma enc_le_dec_le bs : bytes_ok bs = true -> enc_le (length bs) (dec_le bs) = bs.
Proof.
  induction bs as [|b bs IH]; intros H; [reflexivity|].
  cbn [bytes_ok forallb] in H. apply andb_true_iff in H. destruct H as [Hb H].
  unfold byte_ok in Hb. apply N.ltb_lt in Hb.
  cbn [length enc_le dec_le]. f_equal.
  - rewrite (N.mul_comm 256). rewrite N.mod_add by lia. apply N.mod_small; exact Hb.
  - rewrite (N.mul_comm 256). rewrite N.div_add by lia. rewrite N.div_small by exact Hb.
    rewrite N.add_0_l. apply IH. exact H.
Qed.

Lemma dec_le_bound bs : bytes_ok bs = true -> dec_le bs < pow256 (length bs).
Proof.
  induction bs as [|b bs IH]; intros H.
  - cbn [dec_le length]. apply pow256_pos.
  - cbn [bytes_ok forallb] in H. apply andb_true_iff in H. destruct H as [Hb H].
    unfold byte_ok in Hb. apply N.ltb_lt in Hb. specialize (IH H).
    cbn [length dec_le]. rewrite pow256_S. lia.
Qed.

Lemma enc_le_ok w : forall n, bytes_ok (enc_le w n) = true.
Proof.
  induction w as [|w IH]; intros n; [reflexivity|].
  cbn [enc_le bytes_ok forallb]. apply andb_true_iff. split; [|apply IH].
  unfold byte_ok. apply N.ltb_lt. apply N.mod_lt. lia.
Qed.

Lemma enc_uint_ok e w n : bytes_ok (enc_uint e w n) = true.
Proof. destruct e; cbn [enc_uint]; [rewrite bytes_ok_rev|]; apply enc_le_ok. Qed.

Lemma take_app h : forall r n, length h = n -> take n (h ++ r) = Some (h, r).
Proof.
  induction h as [|x h IH]; intros r n Hn; subst n; [reflexivity|].
  cbn [length take app]. now rewrite (IH r (length h) eq_refl).
Qed.

Lemma take_some n : forall bs h r, take n bs = Some (h, r) -> bs = h ++ r /\ length h = n.
Proof.
  induction n as [|n IH]; intros bs h r H; cbn [take] in H.
  - inversion H; subst. split; reflexivity.
  - destruct bs as [|b bs]; [discriminate|].
    destruct (take n bs) as [[h' t]|] eqn:E; [|discriminate].
    inversion H; subst. apply IH in E. destruct E as [E1 E2]. subst bs.
    split; [reflexivity|]. cbn [length]. now rewrite E2.
Qed.

Lemma take_n_app h r : take_n (len h) (h ++ r) = Some (h, r).
Proof.
  unfold take_n. rewrite len_app.
  destruct (N.leb_spec (len h) (len h + len r)) as [_|H]; [|lia].
  unfold len. rewrite Nat2N.id. now apply take_app.
Qed.

Lemma take_n_some n bs h r : take_n n bs = Some (h, r) -> bs = h ++ r /\ len h = n.
Proof.
  unfold take_n. destruct (n <=? len bs); [|discriminate].
  intros H. apply take_some in H. destruct H as [H1 H2]. split; [exact H1|].
  unfold len. rewrite H2. apply N2Nat.id.
Qed.

Lemma dec_uint_enc e w n rest : n < pow256 w -> dec_uint e w (enc_uint e w n ++ rest) = Some (n, rest).
Proof.
  intros Hn. unfold dec_uint. rewrite (take_app _ _ w (enc_uint_length e w n)).
  destruct e; cbn [enc_uint]; [rewrite rev_involutive|]; now rewrite dec_le_enc_le.
Qed.

Lemma dec_uint_some e w bs n r : bytes_ok bs = true -> dec_uint e w bs = Some (n, r) ->
  bs = enc_uint e w n ++ r /\ n < pow256 w /\ bytes_ok r = true.
Proof.
  intros Hok H. unfold dec_uint in H.
  destruct (take w bs) as [[h t]|] eqn:E; [|discriminate].
  apply take_some in E. destruct E as [E1 E2]. subst bs.
  apply bytes_ok_app_inv in Hok. destruct Hok as [Hh Ht].
  inversion H; subst; clear H.
  destruct e; cbn [enc_uint].
  - assert (Hr : bytes_ok (rev h) = true) by now rewrite bytes_ok_rev.
    split; [|split; [|exact Ht]].
    + rewrite <- (rev_length h). rewrite enc_le_dec_le by exact Hr. now rewrite rev_involutive.
    + rewrite <- (rev_length h). now apply dec_le_bound.
  - split; [|split; [|exact Ht]].
    + now rewrite enc_le_dec_le.
    + now apply dec_le_bound.
Qed.

Lemma dec_uint_len e w bs n r : dec_uint e w bs = Some (n, r) -> len bs = N.of_nat w + len r.
Proof.
  unfold dec_uint. destruct (take w bs) as [[h t]|] eqn:E; [|discriminate].
  intros H; inversion H; subst. apply take_some in E. destruct E as [E1 E2]. subst bs.
  rewrite len_app. unfold len. now rewrite E2.
Qed.

(** ** Tag tables *)
Fixpoint lookup (t : N) (alts : list (N * schema)) : option schema :=
  match alts with
  | [] => None
  | (t', s) :: rest => if t =? t' then Some s else lookup t rest
  end.

Lemma alt_apply_lookup {A} (f : schema -> A) d t alts :
  alt_apply f d t alts = match lookup t alts with Some s => f s | None => d end.
Proof.
  induction alts as [|[t' s] alts IH]; [reflexivity|].
  cbn [alt_apply lookup]. destruct (t =? t'); [reflexivity|exact IH].
Qed.

Lemma lookup_in t alts s : lookup t alts = Some s -> In (t, s) alts.
Proof.
  induction alts as [|[t' s'] alts IH]; cbn [lookup]; [discriminate|].
  destruct (N.eqb_spec t t') as [->|_].
  - intros H; inversion H; subst. now left.
  - intros H. right. now apply IH.
Qed.

Lemma wf_alts_in (alts : list (N * schema)) t s :
  (fix go (alts : list (N * schema)) : bool :=
     match alts with [] => true | (_, s) :: r => schema_wf s && go r end) alts = true ->
  In (t, s) alts -> schema_wf s = true.
Proof.
  induction alts as [|[t' s'] alts IH]; intros H Hin; [destruct Hin|].
  apply andb_true_iff in H. destruct H as [H1 H2].
  destruct Hin as [Hin|Hin]; [inversion Hin; subst; exact H1|]. now apply IH.
Qed.

Lemma wf_fields_cons (oi : option N) s (fs : list (option N * schema)) :
  (fix go (fs : list (option N * schema)) : bool :=
     match fs with [] => true | (_, s) :: r => schema_wf s && go r end) ((oi, s) :: fs) = true ->
  schema_wf s = true /\
  (fix go (fs : list (option N * schema)) : bool :=
     match fs with [] => true | (_, s) :: r => schema_wf s && go r end) fs = true.
Proof. intros H. apply andb_true_iff in H. exact H. Qed.

(** ** Bitmaps *)
Lemma nodupb_cons x r : nodupb (x :: r) = true -> ~ In x r /\ nodupb r = true.
Proof.
  cbn [nodupb]. intros H. apply andb_true_iff in H. destruct H as [H1 H2]. split; [|exact H2].
  intros Hin. apply negb_true_iff in H1.
  assert (existsb (N.eqb x) r = true) as E.
  { apply existsb_exists. exists x. split; [exact Hin|apply N.eqb_refl]. }
  congruence.
Qed.

Lemma pow2_testbit i j : N.testbit (2 ^ i) j = (i =? j).
Proof. apply N.pow2_bits_eqb. Qed.

Lemma bitmap_of_testbit bits : forall vs j, N.testbit (bitmap_of bits vs) j = true -> In j (opt_bits bits).
Proof.
  induction bits as [|[i|] bits IH]; intros vs j H.
  - cbn [bitmap_of] in H. now rewrite N.bits_0 in H.
  - destruct vs as [|v vs]; cbn [bitmap_of] in H; [now rewrite N.bits_0 in H|].
    cbn [opt_bits].
    destruct v; try (right; now apply (IH vs)).
    rewrite N.lor_spec, pow2_testbit in H. apply orb_true_iff in H. destruct H as [H|H].
    + left. now apply N.eqb_eq in H.
    + right. now apply (IH vs).
  - destruct vs as [|v vs]; cbn [bitmap_of] in H; [now rewrite N.bits_0 in H|].
    cbn [opt_bits]. now apply (IH vs).
Qed.

Lemma all_bits_testbit bits : forall j, N.testbit (all_bits bits) j = true -> In j (opt_bits bits).
Proof.
  induction bits as [|[i|] bits IH]; intros j H; cbn [all_bits opt_bits] in *.
  - now rewrite N.bits_0 in H.
  - rewrite N.lor_spec, pow2_testbit in H. apply orb_true_iff in H. destruct H as [H|H].
    + left. now apply N.eqb_eq in H.
    + right. now apply IH.
  - now apply IH.
Qed.

Lemma bits_below b k : (forall j, N.testbit b j = true -> j < k) -> b < 2 ^ k.
Proof.
  intros H. destruct (N.eq_dec b 0) as [->|Hb].
  - apply N.neq_0_lt_0, N.pow_nonzero. lia.
  - apply N.log2_lt_pow2; [lia|]. apply H. now apply N.bit_log2.
Qed.

(** [agree b bits vs]: the bitmap [b] says "present" exactly for the present optional values. *)
Fixpoint agree (b : N) (bits : list (option N)) (vs : list gval) : Prop :=
  match bits, vs with
  | [], [] => True
  | Some i :: bits', v :: vs' =>
      N.testbit b i = (match v with VSome _ => true | _ => false end) /\ agree b bits' vs'
  | None :: bits', _ :: vs' => agree b bits' vs'
  | _, _ => False
  end.

Lemma agree_ext b b' bits : forall vs,
  (forall j, In j (opt_bits bits) -> N.testbit b' j = N.testbit b j) ->
  agree b bits vs -> agree b' bits vs.
Proof.
  induction bits as [|[i|] bits IH]; intros vs Hext H; destruct vs as [|v vs]; cbn [agree] in *; try exact H.
  - destruct H as [H1 H2]. split.
    + rewrite Hext; [exact H1|now left].
    + apply IH; [|exact H2]. intros j Hj. apply Hext. now right.
  - apply IH; [|exact H]. exact Hext.
Qed.

Lemma agree_bitmap bits : forall vs, nodupb (opt_bits bits) = true -> length vs = length bits ->
  agree (bitmap_of bits vs) bits vs.
Proof.
  induction bits as [|[i|] bits IH]; intros vs Hnd Hlen; destruct vs as [|v vs]; try discriminate Hlen;
    cbn [agree]; [exact I| |].
  - cbn [opt_bits] in Hnd. apply nodupb_cons in Hnd. destruct Hnd as [Hni Hnd].
    injection Hlen as Hlen. specialize (IH vs Hnd Hlen).
    assert (Hi : N.testbit (bitmap_of bits vs) i = false).
    { destruct (N.testbit (bitmap_of bits vs) i) eqn:E; [|reflexivity].
      apply bitmap_of_testbit in E. contradiction. }
    destruct v; cbn [bitmap_of]; try (split; [exact Hi|exact IH]).
    split.
    + rewrite N.lor_spec, pow2_testbit, N.eqb_refl. reflexivity.
    + apply (agree_ext (bitmap_of bits vs)); [|exact IH].
      intros j Hj. rewrite N.lor_spec, pow2_testbit.
      destruct (N.eqb_spec i j) as [->|_]; [contradiction|reflexivity].
  - cbn [opt_bits] in Hnd. injection Hlen as Hlen. cbn [bitmap_of]. now apply IH.
Qed.

Lemma agree_testbit b bits : forall vs j, nodupb (opt_bits bits) = true -> agree b bits vs ->
  In j (opt_bits bits) -> N.testbit (bitmap_of bits vs) j = N.testbit b j.
Proof.
  induction bits as [|[i|] bits IH]; intros vs j Hnd H Hin; destruct vs as [|v vs]; cbn [agree] in H;
    try contradiction; cbn [opt_bits] in *.
  - apply nodupb_cons in Hnd. destruct Hnd as [Hni Hnd]. destruct H as [H1 H2].
    destruct Hin as [<-|Hin].
    + rewrite H1. destruct v; cbn [bitmap_of];
        try (destruct (N.testbit (bitmap_of bits vs) i) eqn:E; [apply bitmap_of_testbit in E; contradiction|reflexivity]).
      rewrite N.lor_spec, pow2_testbit, N.eqb_refl. reflexivity.
    + assert (Hij : i <> j) by (intros ->; contradiction).
      destruct v; cbn [bitmap_of]; try now apply IH.
      rewrite N.lor_spec, pow2_testbit. destruct (N.eqb_spec i j); [contradiction|]. now apply IH.
  - cbn [bitmap_of]. now apply IH.
Qed.

Lemma agree_length b bits : forall vs, agree b bits vs -> length vs = length bits.
Proof.
  induction bits as [|[i|] bits IH]; intros vs H; destruct vs as [|v vs]; cbn [agree] in H; try contradiction;
    [reflexivity| |]; cbn [length]; f_equal; apply IH; [now destruct H|exact H].
Qed.

Section Laws.
  Variable valid : N -> list N -> bool.
  Local Notation enc := Codec.enc.
  Local Notation dec := (Codec.dec valid).
  Local Notation wt := (Codec.wt valid).
  Local Notation alloc := (Codec.alloc valid).
  Local Notation used := (Codec.used valid).
  Local Notation eval_pred := (Codec.eval_pred valid).

  (** ** Lower bound on encodings *)
  Lemma wt_fields_length fs : forall vs, wt_fields wt fs vs = true -> length vs = length (map fst fs).
  Proof.
    induction fs as [|[[i|] s] fs IH]; intros vs H; destruct vs as [|v vs]; cbn [wt_fields] in H; try discriminate;
      [reflexivity| |].
    - cbn [map length]. f_equal. apply IH.
      destruct v; try discriminate; [exact H|]. apply andb_true_iff in H. now destruct H.
    - cbn [map length]. f_equal. apply IH. apply andb_true_iff in H. now destruct H.
  Qed.

  Theorem schema_min_size : forall s v, wt s v = true -> min_size s <= len (enc s v).
  Proof.
    intros s. induction s as [e w|ss IH|alts IH|e w m fs IH|e w s IH|e w m|n|p s IH|h path b IHh IHb|h path m IHh]
      using schema_ind'; intros v H; cbn [Codec.wt Codec.enc min_size] in *.
    - destruct v; try discriminate. rewrite enc_uint_len. lia.
    - destruct v as [| |vs| | |]; try discriminate.
      revert vs H. induction IH as [|s ss Hs _ IHss]; intros vs H.
      + apply N.le_0_l.
      + destruct vs as [|v vs]; cbn [wt_tuple] in H; [discriminate|].
        apply andb_true_iff in H. destruct H as [H1 H2].
        cbn [enc_tuple]. rewrite len_app. specialize (Hs v H1). specialize (IHss vs H2). lia.
    - destruct v; try discriminate. rewrite len_cons. lia.
    - destruct v; try discriminate. rewrite len_app, enc_uint_len. lia.
    - destruct v; try discriminate. rewrite len_app, enc_uint_len. lia.
    - destruct v; try discriminate. rewrite len_app, enc_uint_len. lia.
    - destruct v; try discriminate. apply andb_true_iff in H. destruct H as [H _].
      apply N.eqb_eq in H. lia.
    - apply andb_true_iff in H. destruct H as [H _]. now apply IH.
    - destruct v as [| |vs| | |]; try discriminate. destruct vs as [|hv [|bv [|? ?]]]; try discriminate.
      apply andb_true_iff in H. destruct H as [H _]. apply andb_true_iff in H. destruct H as [H _].
      rewrite len_app. specialize (IHh hv H). lia.
    - destruct v as [| |vs| | |]; try discriminate. destruct vs as [|hv [|bv vs]]; try discriminate.
      destruct bv as [|pb| | | |]; try discriminate. destruct vs; try discriminate.
      apply andb_true_iff in H. destruct H as [H _]. apply andb_true_iff in H. destruct H as [H _].
      apply andb_true_iff in H. destruct H as [H _].
      rewrite len_app. specialize (IHh hv H). lia.
  Qed.

  Lemma elems_len s vs : 1 <= min_size s -> forallb (wt s) vs = true -> len vs <= len (concat (map (enc s) vs)).
  Proof.
    intros Hm. induction vs as [|v vs IH]; intros H; [apply N.le_0_l|].
    cbn [forallb] in H. apply andb_true_iff in H. destruct H as [H1 H2].
    cbn [map concat]. rewrite len_cons, len_app. pose proof (schema_min_size s v H1). specialize (IH H2). lia.
  Qed.

  (** ** Round trip *)
  Definition RT (s : schema) : Prop :=
    forall v rest, wt s v = true -> dec s (enc s v ++ rest) = Some (v, rest).

  Lemma rt_n s : RT s -> forall vs rest, forallb (wt s) vs = true ->
    dec_n (dec s) (length vs) (concat (map (enc s) vs) ++ rest) = Some (vs, rest).
  Proof.
    intros Hs. induction vs as [|v vs IH]; intros rest H; [reflexivity|].
    cbn [forallb] in H. apply andb_true_iff in H. destruct H as [H1 H2].
    cbn [length map concat dec_n]. rewrite <- app_assoc. rewrite (Hs v _ H1). now rewrite (IH rest H2).
  Qed.

  Lemma rt_fields fs : Forall (fun a => schema_wf (snd a) = true -> RT (snd a)) fs ->
    (fix go (fs : list (option N * schema)) : bool :=
       match fs with [] => true | (_, s) :: r => schema_wf s && go r end) fs = true ->
    forall b vs rest, wt_fields wt fs vs = true -> agree b (map fst fs) vs ->
    dec_fields dec b fs (enc_fields enc fs vs ++ rest) = Some (vs, rest).
  Proof.
    induction 1 as [|[oi s] fs Hs _ IH]; intros Hwf b vs rest Hwt Hag.
    - destruct vs; [reflexivity|discriminate].
    - apply (wf_fields_cons oi) in Hwf. destruct Hwf as [Hwf1 Hwf2]. cbn [snd] in Hs. specialize (Hs Hwf1).
      destruct vs as [|v vs]; [destruct oi; discriminate|].
      destruct oi as [i|]; cbn [map fst agree] in Hag.
      + destruct Hag as [Hb Hag].
        destruct v; cbn [wt_fields] in Hwt; try discriminate.
        * cbn [dec_fields enc_fields]. rewrite Hb. now rewrite (IH Hwf2 b vs rest Hwt Hag).
        * apply andb_true_iff in Hwt. destruct Hwt as [Hw1 Hw2].
          cbn [dec_fields enc_fields]. rewrite Hb. rewrite <- app_assoc. rewrite (Hs v _ Hw1).
          now rewrite (IH Hwf2 b vs rest Hw2 Hag).
      + cbn [wt_fields] in Hwt. apply andb_true_iff in Hwt. destruct Hwt as [Hw1 Hw2].
        cbn [dec_fields enc_fields]. rewrite <- app_assoc. rewrite (Hs v _ Hw1).
        now rewrite (IH Hwf2 b vs rest Hw2 Hag).
  Qed.

  Theorem schema_rt : forall s, schema_wf s = true -> RT s.
  Proof.
    intros s. induction s as [e w|ss IH|alts IH|e w m fs IH|e w s IH|e w m|n|p s IH|h path b IHh IHb|h path m IHh]
      using schema_ind'; intros Hwf v rest H; cbn [Codec.wt Codec.enc Codec.dec schema_wf] in *.
    - destruct v; try discriminate. apply N.ltb_lt in H. now rewrite dec_uint_enc.
    - destruct v as [| |vs| | |]; try discriminate.
      enough (E : dec_tuple dec ss (enc_tuple enc ss vs ++ rest) = Some (vs, rest)) by now rewrite E.
      revert vs rest H. induction IH as [|s ss Hs _ IHss]; intros vs rest H.
      + destruct vs; [reflexivity|discriminate].
      + cbn [forallb] in Hwf. apply andb_true_iff in Hwf. destruct Hwf as [Hwf1 Hwf2].
        destruct vs as [|v vs]; cbn [wt_tuple] in H; [discriminate|].
        apply andb_true_iff in H. destruct H as [H1 H2].
        cbn [enc_tuple dec_tuple]. rewrite <- app_assoc. rewrite (Hs Hwf1 v _ H1).
        now rewrite (IHss Hwf2 vs rest H2).
    - destruct v as [| | |t v| |]; try discriminate.
      rewrite alt_apply_lookup in H. cbn [app]. rewrite !alt_apply_lookup.
      destruct (lookup t alts) as [s|] eqn:El; [|discriminate].
      apply andb_true_iff in Hwf. destruct Hwf as [_ Hwf].
      pose proof (lookup_in _ _ _ El) as Hin.
      pose proof (wf_alts_in _ _ _ Hwf Hin) as Hs.
      rewrite Forall_forall in IH. specialize (IH _ Hin Hs). cbn [snd] in IH.
      now rewrite (IH v rest H).
    - destruct v as [| |vs| | |]; try discriminate.
      apply andb_true_iff in Hwf. destruct Hwf as [Hwf Hwfs].
      apply andb_true_iff in Hwf. destruct Hwf as [Hwf Hmask]. apply N.eqb_eq in Hmask.
      apply andb_true_iff in Hwf. destruct Hwf as [Hwf Hbits].
      apply andb_true_iff in Hwf. destruct Hwf as [Hw Hnd].
      pose proof (wt_fields_length _ _ H) as Hlen.
      rewrite <- app_assoc. rewrite dec_uint_enc.
      + assert (Hld : N.ldiff (bitmap_of (map fst fs) vs) m = 0).
        { apply N.bits_inj. intros j. rewrite N.ldiff_spec, N.bits_0.
          destruct (N.testbit (bitmap_of (map fst fs) vs) j) eqn:E; [|reflexivity].
          apply bitmap_of_testbit in E. subst m.
          assert (N.testbit (all_bits (map fst fs)) j = true) as ->; [|reflexivity].
          clear - E. induction (map fst fs) as [|[i|] l IHl]; cbn [opt_bits all_bits] in *; [destruct E| |now apply IHl].
          rewrite N.lor_spec, pow2_testbit. destruct E as [->|E]; [now rewrite N.eqb_refl|].
          rewrite (IHl E). apply orb_true_r. }
        rewrite Hld. cbn [N.eqb]. rewrite N.eqb_refl.
        assert (RTs : Forall (fun a => schema_wf (snd a) = true -> RT (snd a)) fs) by exact IH.
        rewrite (rt_fields fs RTs Hwfs _ vs rest H); [reflexivity|].
        now apply agree_bitmap.
      + unfold pow256. apply bits_below. intros j Hj. apply bitmap_of_testbit in Hj.
        rewrite forallb_forall in Hbits. specialize (Hbits j Hj). now apply N.ltb_lt in Hbits.
    - destruct v as [| |vs| | |]; try discriminate.
      apply andb_true_iff in Hwf. destruct Hwf as [Hwf Hs].
      apply andb_true_iff in Hwf. destruct Hwf as [Hw Hms]. apply N.leb_le in Hms.
      apply andb_true_iff in H. destruct H as [Hl Hv]. apply N.ltb_lt in Hl.
      rewrite <- app_assoc. rewrite dec_uint_enc by exact Hl.
      pose proof (elems_len s vs Hms Hv) as Hle.
      destruct (N.leb_spec (len vs) (len (concat (map (enc s) vs) ++ rest))) as [_|Hc];
        [|rewrite len_app in Hc; lia].
      unfold len at 1. rewrite Nat2N.id. now rewrite (rt_n s (IH Hs) vs rest Hv).
    - destruct v as [|bs| | | |]; try discriminate.
      apply andb_true_iff in H. destruct H as [H Hok]. apply andb_true_iff in H. destruct H as [Hl Hm].
      apply N.ltb_lt in Hl. rewrite <- app_assoc. rewrite dec_uint_enc by exact Hl.
      rewrite Hm. now rewrite take_n_app.
    - destruct v as [|bs| | | |]; try discriminate.
      apply andb_true_iff in H. destruct H as [Hl Hok]. apply N.eqb_eq in Hl. subst n.
      now rewrite take_n_app.
    - apply andb_true_iff in H. destruct H as [H1 H2]. rewrite (IH Hwf v rest H1). now rewrite H2.
    - destruct v as [| |vs| | |]; try discriminate. destruct vs as [|hv [|bv [|? ?]]]; try discriminate.
      apply andb_true_iff in Hwf. destruct Hwf as [Hwh Hwb].
      apply andb_true_iff in H. destruct H as [H Hn]. apply andb_true_iff in H. destruct H as [Hh Hb].
      rewrite <- app_assoc. rewrite (IHh Hwh hv _ Hh).
      destruct (get_num path hv) as [n|]; [|discriminate]. apply N.eqb_eq in Hn. subst n.
      rewrite take_n_app.
      pose proof (IHb Hwb bv [] Hb) as E. rewrite app_nil_r in E. now rewrite E.
    - destruct v as [| |vs| | |]; try discriminate. destruct vs as [|hv [|bv vs]]; try discriminate.
      destruct bv as [|pb| | | |]; try discriminate. destruct vs; try discriminate.
      apply andb_true_iff in Hwf. destruct Hwf as [Hwf _]. apply andb_true_iff in Hwf. destruct Hwf as [Hwh _].
      apply andb_true_iff in H. destruct H as [H Hn]. apply andb_true_iff in H. destruct H as [H Hm].
      apply andb_true_iff in H. destruct H as [Hh Hok].
      rewrite <- app_assoc. rewrite (IHh Hwh hv _ Hh).
      destruct (get_num path hv) as [n|]; [|discriminate]. apply N.eqb_eq in Hn. subst n.
      rewrite Hm. now rewrite take_n_app.
  Qed.

  (** ** Canonicity *)
  Definition Canon (s : schema) : Prop :=
    forall bs v rest, bytes_ok bs = true -> dec s bs = Some (v, rest) ->
      bs = enc s v ++ rest /\ wt s v = true /\ bytes_ok rest = true.

  Lemma canon_n s : Canon s -> forall k bs vs rest, bytes_ok bs = true ->
    dec_n (dec s) k bs = Some (vs, rest) ->
    bs = concat (map (enc s) vs) ++ rest /\ forallb (wt s) vs = true /\ bytes_ok rest = true /\ length vs = k.
  Proof.
    intros Hs. induction k as [|k IH]; intros bs vs rest Hok H; cbn [dec_n] in H.
    - inversion H; subst. repeat split; try reflexivity. exact Hok.
    - destruct (dec s bs) as [[v r]|] eqn:E; [|discriminate].
      destruct (dec_n (dec s) k r) as [[vs' r']|] eqn:E2; [|discriminate].
      inversion H; subst; clear H.
      destruct (Hs _ _ _ Hok E) as (H1 & H2 & H3).
      destruct (IH _ _ _ H3 E2) as (H4 & H5 & H6 & H7).
      subst bs r. cbn [map concat forallb length]. rewrite H2, H5, H7. rewrite <- app_assoc. repeat split; try reflexivity. exact H6.
  Qed.

  Lemma canon_fields fs : Forall (fun a => schema_wf (snd a) = true -> Canon (snd a)) fs ->
    (fix go (fs : list (option N * schema)) : bool :=
       match fs with [] => true | (_, s) :: r => schema_wf s && go r end) fs = true ->
    forall b bs vs rest, bytes_ok bs = true -> dec_fields dec b fs bs = Some (vs, rest) ->
    bs = enc_fields enc fs vs ++ rest /\ wt_fields wt fs vs = true /\ bytes_ok rest = true
    /\ agree b (map fst fs) vs.
  Proof.
    induction 1 as [|[oi s] fs Hs _ IH]; intros Hwf b bs vs rest Hok H.
    - cbn [dec_fields] in H. inversion H; subst. cbn [enc_fields wt_fields map agree app]. repeat split; try reflexivity. exact Hok.
    - apply (wf_fields_cons oi) in Hwf. destruct Hwf as [Hwf1 Hwf2]. cbn [snd] in Hs. specialize (Hs Hwf1).
      cbn [dec_fields] in H.
      destruct oi as [i|].
      + destruct (N.testbit b i) eqn:Eb.
        * destruct (dec s bs) as [[v r]|] eqn:E; [|discriminate].
          destruct (dec_fields dec b fs r) as [[vs' r']|] eqn:E2; [|discriminate].
          inversion H; subst; clear H.
          destruct (Hs _ _ _ Hok E) as (H1 & H2 & H3).
          destruct (IH Hwf2 _ _ _ _ H3 E2) as (H4 & H5 & H6 & H7).
          subst bs r. cbn [enc_fields wt_fields map fst agree]. rewrite H2, H5, <- app_assoc.
          repeat split; try reflexivity; assumption.
        * destruct (dec_fields dec b fs bs) as [[vs' r']|] eqn:E2; [|discriminate].
          inversion H; subst; clear H.
          destruct (IH Hwf2 _ _ _ _ Hok E2) as (H4 & H5 & H6 & H7).
          cbn [enc_fields wt_fields map fst agree]. repeat split; try assumption.
      + destruct (dec s bs) as [[v r]|] eqn:E; [|discriminate].
        destruct (dec_fields dec b fs r) as [[vs' r']|] eqn:E2; [|discriminate].
        inversion H; subst; clear H.
        destruct (Hs _ _ _ Hok E) as (H1 & H2 & H3).
        destruct (IH Hwf2 _ _ _ _ H3 E2) as (H4 & H5 & H6 & H7).
        subst bs r. cbn [enc_fields wt_fields map fst agree]. rewrite H2, H5, <- app_assoc.
        repeat split; try reflexivity; assumption.
  Qed.

  Theorem schema_canon : forall s, schema_wf s = true -> Canon s.
  Proof.
    intros s. induction s as [e w|ss IH|alts IH|e w m fs IH|e w s IH|e w m|n|p s IH|h path b IHh IHb|h path m IHh]
      using schema_ind'; intros Hwf bs v rest Hok H; cbn [Codec.dec schema_wf] in *.
    - destruct (dec_uint e w bs) as [[n r]|] eqn:E; [|discriminate]. inversion H; subst; clear H.
      destruct (dec_uint_some _ _ _ _ _ Hok E) as (H1 & H2 & H3).
      cbn [Codec.enc Codec.wt]. repeat split; try assumption. now apply N.ltb_lt.
    - destruct (dec_tuple dec ss bs) as [[vs r]|] eqn:E; [|discriminate]. inversion H; subst; clear H.
      cbn [Codec.enc Codec.wt].
      revert bs vs rest Hok E. induction IH as [|s ss Hs _ IHss]; intros bs vs rest Hok E; cbn [dec_tuple] in E.
      + inversion E; subst. cbn [enc_tuple wt_tuple app]. repeat split; try reflexivity. exact Hok.
      + cbn [forallb] in Hwf. apply andb_true_iff in Hwf. destruct Hwf as [Hwf1 Hwf2].
        destruct (dec s bs) as [[v r]|] eqn:E1; [|discriminate].
        destruct (dec_tuple dec ss r) as [[vs' r']|] eqn:E2; [|discriminate].
        inversion E; subst; clear E.
        destruct (Hs Hwf1 _ _ _ Hok E1) as (H1 & H2 & H3).
        destruct (IHss Hwf2 _ _ _ H3 E2) as (H4 & H5 & H6).
        subst bs r. cbn [enc_tuple wt_tuple]. rewrite H2, H5, <- app_assoc. repeat split; try reflexivity. exact H6.
    - destruct bs as [|t r]; [discriminate|].
      rewrite alt_apply_lookup in H.
      destruct (lookup t alts) as [s|] eqn:El; [|discriminate].
      destruct (dec s r) as [[v' r']|] eqn:E; [|discriminate]. inversion H; subst; clear H.
      apply andb_true_iff in Hwf. destruct Hwf as [_ Hwf].
      pose proof (lookup_in _ _ _ El) as Hin.
      pose proof (wf_alts_in _ _ _ Hwf Hin) as Hs.
      rewrite Forall_forall in IH. specialize (IH _ Hin Hs). cbn [snd] in IH.
      cbn [bytes_ok forallb] in Hok. apply andb_true_iff in Hok. destruct Hok as [_ Hok].
      destruct (IH _ _ _ Hok E) as (H1 & H2 & H3).
      cbn [Codec.enc Codec.wt]. rewrite !alt_apply_lookup, El. subst r. repeat split; try assumption.
    - destruct (dec_uint e w bs) as [[b r]|] eqn:E; [|discriminate].
      destruct (N.eqb_spec (N.ldiff b m) 0) as [Hld|_]; [|discriminate].
      destruct (dec_fields dec b fs r) as [[vs r']|] eqn:E2; [|discriminate]. inversion H; subst; clear H.
      destruct (dec_uint_some _ _ _ _ _ Hok E) as (H1 & H2 & H3).
      apply andb_true_iff in Hwf. destruct Hwf as [Hwf Hwfs].
      apply andb_true_iff in Hwf. destruct Hwf as [Hwf Hmask]. apply N.eqb_eq in Hmask.
      apply andb_true_iff in Hwf. destruct Hwf as [Hwf Hbits].
      apply andb_true_iff in Hwf. destruct Hwf as [Hw Hnd].
      assert (Cs : Forall (fun a => schema_wf (snd a) = true -> Canon (snd a)) fs) by exact IH.
      destruct (canon_fields fs Cs Hwfs _ _ _ _ H3 E2) as (H4 & H5 & H6 & H7).
      assert (Hb : bitmap_of (map fst fs) vs = b).
      { apply N.bits_inj. intros j.
        destruct (in_dec N.eq_dec j (opt_bits (map fst fs))) as [Hin|Hni].
        - now apply agree_testbit.
        - destruct (N.testbit (bitmap_of (map fst fs) vs) j) eqn:E1;
            [apply bitmap_of_testbit in E1; contradiction|].
          destruct (N.testbit b j) eqn:E3; [|reflexivity].
          assert (N.testbit (N.ldiff b m) j = false) as Hz by (rewrite Hld; apply N.bits_0).
          rewrite N.ldiff_spec, E3 in Hz. cbn [andb] in Hz. apply negb_false_iff in Hz.
          subst m. apply all_bits_testbit in Hz. contradiction. }
      cbn [Codec.enc Codec.wt]. rewrite Hb. subst bs r. rewrite <- app_assoc. repeat split; try assumption.
    - destruct (dec_uint e w bs) as [[n r]|] eqn:E; [|discriminate].
      destruct (n <=? len r); [|discriminate].
      destruct (dec_n (dec s) (N.to_nat n) r) as [[vs r']|] eqn:E2; [|discriminate]. inversion H; subst; clear H.
      destruct (dec_uint_some _ _ _ _ _ Hok E) as (H1 & H2 & H3).
      apply andb_true_iff in Hwf. destruct Hwf as [_ Hs].
      destruct (canon_n s (IH Hs) _ _ _ _ H3 E2) as (H4 & H5 & H6 & H7).
      assert (Hl : len vs = n) by (unfold len; rewrite H7; apply N2Nat.id).
      cbn [Codec.enc Codec.wt]. rewrite Hl, H5. subst bs r. rewrite <- app_assoc.
      repeat split; try assumption. apply andb_true_iff. split; [now apply N.ltb_lt|reflexivity].
    - destruct (dec_uint e w bs) as [[n r]|] eqn:E; [|discriminate].
      destruct (N.leb_spec n m) as [Hm|_]; [|discriminate].
      destruct (take_n n r) as [[hh t]|] eqn:E2; [|discriminate]. inversion H; subst; clear H.
      destruct (dec_uint_some _ _ _ _ _ Hok E) as (H1 & H2 & H3).
      apply take_n_some in E2. destruct E2 as [E3 E4]. subst r.
      apply bytes_ok_app_inv in H3. destruct H3 as [Hh Ht].
      cbn [Codec.enc Codec.wt]. rewrite E4. subst bs. rewrite <- app_assoc. repeat split; try assumption.
      rewrite Hh, andb_true_r. apply andb_true_iff. split; [now apply N.ltb_lt|now apply N.leb_le].
    - destruct (take_n n bs) as [[hh t]|] eqn:E2; [|discriminate]. inversion H; subst; clear H.
      apply take_n_some in E2. destruct E2 as [E3 E4]. subst bs.
      apply bytes_ok_app_inv in Hok. destruct Hok as [Hh Ht].
      cbn [Codec.enc Codec.wt]. rewrite E4, N.eqb_refl, Hh. repeat split; try assumption.
    - destruct (dec s bs) as [[v' r]|] eqn:E; [|discriminate].
      destruct (eval_pred p v') eqn:Ep; [|discriminate]. inversion H; subst; clear H.
      destruct (IH Hwf _ _ _ Hok E) as (H1 & H2 & H3).
      cbn [Codec.enc Codec.wt]. rewrite H2, Ep. repeat split; try assumption.
    - destruct (dec h bs) as [[hv r]|] eqn:E; [|discriminate].
      destruct (get_num path hv) as [n|] eqn:En; [|discriminate].
      destruct (take_n n r) as [[pb r']|] eqn:E2; [|discriminate].
      destruct (dec b pb) as [[bv [|? ?]]|] eqn:E3; try discriminate. inversion H; subst; clear H.
      apply andb_true_iff in Hwf. destruct Hwf as [Hwh Hwb].
      destruct (IHh Hwh _ _ _ Hok E) as (H1 & H2 & H3).
      apply take_n_some in E2. destruct E2 as [E4 E5]. subst r.
      apply bytes_ok_app_inv in H3. destruct H3 as [Hpb Hr'].
      destruct (IHb Hwb _ _ _ Hpb E3) as (H4 & H5 & H6). rewrite app_nil_r in H4.
      cbn [Codec.enc Codec.wt]. rewrite H2, H5, En. subst bs pb. rewrite <- app_assoc.
      repeat split; try assumption. cbn [andb]. now apply N.eqb_eq.
    - destruct (dec h bs) as [[hv r]|] eqn:E; [|discriminate].
      destruct (get_num path hv) as [n|] eqn:En; [|discriminate].
      destruct (N.leb_spec n m) as [Hm|_]; [|discriminate].
      destruct (take_n n r) as [[pb r']|] eqn:E2; [|discriminate]. inversion H; subst; clear H.
      apply andb_true_iff in Hwf. destruct Hwf as [Hwf _]. apply andb_true_iff in Hwf. destruct Hwf as [Hwh _].
      destruct (IHh Hwh _ _ _ Hok E) as (H1 & H2 & H3).
      apply take_n_some in E2. destruct E2 as [E4 E5]. subst r.
      apply bytes_ok_app_inv in H3. destruct H3 as [Hpb Hr'].
      cbn [Codec.enc Codec.wt]. rewrite H2, Hpb, En, E5, N.eqb_refl. subst bs. rewrite <- app_assoc.
      repeat split; try assumption. cbn [andb]. rewrite andb_true_r. now apply N.leb_le.
  Qed.

  (** ** Prefix freeness (from RT) *)
  Theorem schema_pfree : forall s, schema_wf s = true ->
    forall a b r1 r2, wt s a = true -> wt s b = true -> enc s a ++ r1 = enc s b ++ r2 -> a = b /\ r1 = r2.
  Proof.
    intros s Hwf a b r1 r2 Ha Hb E.
    pose proof (schema_rt s Hwf a r1 Ha) as E1. pose proof (schema_rt s Hwf b r2 Hb) as E2.
    rewrite E in E1. rewrite E1 in E2. inversion E2. split; reflexivity.
  Qed.

  Definition PFree (s : schema) : Prop :=
    forall a b r1 r2, wt s a = true -> wt s b = true -> enc s a ++ r1 = enc s b ++ r2 -> a = b /\ r1 = r2.

  (** ** Bounded pre-allocation.
      [AB c a bs o]: the amount [a] reserved while decoding [bs] with outcome [o] is at most [c]
      per byte consumed (on failure: per byte of input). *)
  Definition AB {A} (c a : N) (bs : list N) (o : option (A * list N)) : Prop :=
    match o with
    | Some (_, r) => exists u, len bs = u + len r /\ a <= c * u
    | None => a <= c * len bs
    end.

  Lemma AB_weak {A} c a bs (o : option (A * list N)) : AB c a bs o -> a <= c * len bs.
  Proof.
    destruct o as [[x r]|]; cbn [AB]; [|trivial]. intros (u & H1 & H2). rewrite H1, N.mul_add_distr_l. lia.
  Qed.

  Definition AllocB (s : schema) : Prop :=
    forall c, cap s <= c -> forall bs, bytes_ok bs = true -> AB c (alloc s bs) bs (dec s bs).

  Lemma dec_ok_rest s bs v r : schema_wf s = true -> bytes_ok bs = true -> dec s bs = Some (v, r) -> bytes_ok r = true.
  Proof. intros Hwf Hok E. now destruct (schema_canon s Hwf _ _ _ Hok E) as (_ & _ & H). Qed.

  Lemma cap_alts_in (alts : list (N * schema)) t s : In (t, s) alts -> cap s <= cap (SSum alts).
  Proof.
    induction alts as [|[t' s'] alts IH]; intros Hin; [destruct Hin|].
    change (cap s <= N.max (cap s') (cap (SSum alts))).
    destruct Hin as [Hin|Hin]; [inversion Hin; subst; apply N.le_max_l|].
    specialize (IH Hin). lia.
  Qed.

  Lemma alloc_tuple_AB ss : Forall (fun s => schema_wf s = true -> AllocB s) ss -> forallb schema_wf ss = true ->
    forall c, cap (STuple ss) <= c -> forall bs, bytes_ok bs = true ->
    AB c (alloc_tuple valid alloc ss bs) bs (dec_tuple dec ss bs).
  Proof.
    induction 1 as [|s ss Hs _ IH]; intros Hwf c Hc bs Hok.
    - cbn [alloc_tuple dec_tuple AB]. exists 0. split; [lia|apply N.le_0_l].
    - cbn [forallb] in Hwf. apply andb_true_iff in Hwf. destruct Hwf as [Hwf1 Hwf2].
      change (N.max (cap s) (cap (STuple ss)) <= c) in Hc. apply N.max_lub_iff in Hc. destruct Hc as [Hc1 Hc2].
      pose proof (Hs Hwf1 c Hc1 bs Hok) as HA.
      cbn [alloc_tuple dec_tuple].
      destruct (dec s bs) as [[v r]|] eqn:E.
      + cbn [AB] in HA. destruct HA as (u1 & H1 & H2).
        pose proof (dec_ok_rest _ _ _ _ Hwf1 Hok E) as Hr.
        specialize (IH Hwf2 c Hc2 r Hr).
        destruct (dec_tuple dec ss r) as [[vs r']|]; cbn [AB] in *.
        * destruct IH as (u2 & H3 & H4). exists (u1 + u2). split; [lia|]. rewrite N.mul_add_distr_l. lia.
        * rewrite H1, N.mul_add_distr_l. lia.
      + cbn [AB] in *. rewrite N.add_0_r. exact HA.
  Qed.

  Lemma alloc_fields_AB fs : Forall (fun a => schema_wf (snd a) = true -> AllocB (snd a)) fs ->
    (fix go (fs : list (option N * schema)) : bool :=
       match fs with [] => true | (_, s) :: r => schema_wf s && go r end) fs = true ->
    forall e w m c, cap (SBitmap e w m fs) <= c -> forall b bs, bytes_ok bs = true ->
    AB c (alloc_fields valid alloc b fs bs) bs (dec_fields dec b fs bs).
  Proof.
    induction 1 as [|[oi s] fs Hs _ IH]; intros Hwf e w m c Hc b bs Hok.
    - cbn [alloc_fields dec_fields AB]. exists 0. split; [lia|apply N.le_0_l].
    - apply (wf_fields_cons oi) in Hwf. destruct Hwf as [Hwf1 Hwf2]. cbn [snd] in Hs.
      change (N.max (cap s) (cap (SBitmap e w m fs)) <= c) in Hc. apply N.max_lub_iff in Hc. destruct Hc as [Hc1 Hc2].
      pose proof (Hs Hwf1 c Hc1 bs Hok) as HA.
      cbn [alloc_fields dec_fields].
      destruct (match oi with Some i => N.testbit b i | None => true end).
      + destruct (dec s bs) as [[v r]|] eqn:E.
        * cbn [AB] in HA. destruct HA as (u1 & H1 & H2).
          pose proof (dec_ok_rest _ _ _ _ Hwf1 Hok E) as Hr.
          specialize (IH Hwf2 e w m c Hc2 b r Hr).
          destruct (dec_fields dec b fs r) as [[vs r']|]; cbn [AB] in *.
          -- destruct IH as (u2 & H3 & H4). exists (u1 + u2). split; [lia|]. rewrite N.mul_add_distr_l. lia.
          -- rewrite H1, N.mul_add_distr_l. lia.
        * cbn [AB] in *. rewrite N.add_0_r. exact HA.
      + specialize (IH Hwf2 e w m c Hc2 b bs Hok).
        destruct (dec_fields dec b fs bs) as [[vs r']|]; cbn [AB] in *; exact IH.
  Qed.

  Lemma alloc_n_AB s : AllocB s -> schema_wf s = true -> forall c, cap s <= c -> forall k bs, bytes_ok bs = true ->
    AB c (alloc_n (alloc s) (dec s) k bs) bs (dec_n (dec s) k bs).
  Proof.
    intros Hs Hwf c Hc. induction k as [|k IH]; intros bs Hok.
    - cbn [alloc_n dec_n AB]. exists 0. split; [lia|apply N.le_0_l].
    - pose proof (Hs c Hc bs Hok) as HA. cbn [alloc_n dec_n].
      destruct (dec s bs) as [[v r]|] eqn:E.
      + cbn [AB] in HA. destruct HA as (u1 & H1 & H2).
        pose proof (dec_ok_rest _ _ _ _ Hwf Hok E) as Hr. specialize (IH r Hr).
        destruct (dec_n (dec s) k r) as [[vs r']|]; cbn [AB] in *.
        * destruct IH as (u2 & H3 & H4). exists (u1 + u2). split; [lia|]. rewrite N.mul_add_distr_l. lia.
        * rewrite H1, N.mul_add_distr_l. lia.
      + cbn [AB] in *. rewrite N.add_0_r. exact HA.
  Qed.

  Theorem schema_allocB : forall s, schema_wf s = true -> AllocB s.
  Proof.
    intros s. induction s as [e w|ss IH|alts IH|e w m fs IH|e w s IH|e w m|n|p s IH|h path b IHh IHb|h path m IHh]
      using schema_ind'; intros Hwf c Hc bs Hok; cbn [Codec.alloc Codec.dec schema_wf] in *.
    - destruct (dec_uint e w bs) as [[n r]|] eqn:E; cbn [AB]; [|apply N.le_0_l].
      exists (N.of_nat w). split; [now apply dec_uint_len in E|apply N.le_0_l].
    - pose proof (alloc_tuple_AB ss IH Hwf c Hc bs Hok) as HA.
      destruct (dec_tuple dec ss bs) as [[vs r]|]; cbn [AB] in *; exact HA.
    - destruct bs as [|t r]; [cbn [AB]; apply N.le_0_l|].
      rewrite !alt_apply_lookup.
      destruct (lookup t alts) as [s|] eqn:El; [|cbn [AB]; apply N.le_0_l].
      apply andb_true_iff in Hwf. destruct Hwf as [_ Hwf].
      pose proof (lookup_in _ _ _ El) as Hin.
      pose proof (wf_alts_in _ _ _ Hwf Hin) as Hs.
      rewrite Forall_forall in IH. specialize (IH _ Hin Hs). cbn [snd] in IH.
      pose proof (cap_alts_in _ _ _ Hin) as Hcs.
      cbn [bytes_ok forallb] in Hok. apply andb_true_iff in Hok. destruct Hok as [_ Hok].
      assert (Hcs' : cap s <= c) by lia.
      pose proof (IH c Hcs' r Hok) as HA.
      destruct (dec s r) as [[v r']|]; cbn [AB] in *; rewrite len_cons.
      + destruct HA as (u & H1 & H2). exists (1 + u). split; [lia|]. rewrite N.mul_add_distr_l. lia.
      + rewrite N.mul_add_distr_l. lia.
    - destruct (dec_uint e w bs) as [[b r]|] eqn:E; [|cbn [AB]; apply N.le_0_l].
      destruct (N.ldiff b m =? 0); [|cbn [AB]; apply N.le_0_l].
      apply andb_true_iff in Hwf. destruct Hwf as [_ Hwfs].
      pose proof (dec_uint_len _ _ _ _ _ E) as Hl.
      assert (Hr : bytes_ok r = true).
      { unfold dec_uint in E. destruct (take w bs) as [[hh t]|] eqn:E1; [|discriminate]. inversion E; subst.
        apply take_some in E1. destruct E1 as [E1 _]. subst bs. now apply bytes_ok_app_inv in Hok. }
      pose proof (alloc_fields_AB fs IH Hwfs e w m c Hc b r Hr) as HA.
      destruct (dec_fields dec b fs r) as [[vs r']|]; cbn [AB] in *.
      + destruct HA as (u & H1 & H2). exists (N.of_nat w + u). split; [lia|]. rewrite N.mul_add_distr_l. lia.
      + rewrite Hl, N.mul_add_distr_l. lia.
    - destruct (dec_uint e w bs) as [[n r]|] eqn:E; [|cbn [AB]; apply N.le_0_l].
      apply andb_true_iff in Hwf. destruct Hwf as [Hwf Hs].
      apply andb_true_iff in Hwf. destruct Hwf as [Hw _]. apply N.leb_le in Hw.
      cbn [cap] in Hc. apply N.max_lub_iff in Hc. destruct Hc as [Hc1 Hc2].
      pose proof (dec_uint_len _ _ _ _ _ E) as Hl.
      assert (Hr : bytes_ok r = true).
      { unfold dec_uint in E. destruct (take w bs) as [[hh t]|] eqn:E1; [|discriminate]. inversion E; subst.
        apply take_some in E1. destruct E1 as [E1 _]. subst bs. now apply bytes_ok_app_inv in Hok. }
      assert (Hcw : N.min n MAX_PREALLOC <= c * N.of_nat w).
      { pose proof (N.le_min_r n MAX_PREALLOC). assert (c <= c * N.of_nat w) by nia. lia. }
      destruct (N.leb_spec n (len r)) as [Hn|Hn].
      + rewrite (N.min_l n (len r)) by exact Hn.
        pose proof (alloc_n_AB s (IH Hs) Hs c Hc2 (N.to_nat n) r Hr) as HA.
        destruct (dec_n (dec s) (N.to_nat n) r) as [[vs r']|]; cbn [AB] in *.
        * destruct HA as (u & H1 & H2). exists (N.of_nat w + u). split; [lia|]. rewrite N.mul_add_distr_l. lia.
        * rewrite Hl, N.mul_add_distr_l. lia.
      + rewrite (N.min_r n (len r)) by lia.
        pose proof (AB_weak _ _ _ _ (alloc_n_AB s (IH Hs) Hs c Hc2 (N.to_nat (len r)) r Hr)) as HA.
        cbn [AB]. rewrite Hl, N.mul_add_distr_l. lia.
    - destruct (dec_uint e w bs) as [[n r]|] eqn:E; [|cbn [AB]; apply N.le_0_l].
      apply N.leb_le in Hwf. cbn [cap] in Hc.
      pose proof (dec_uint_len _ _ _ _ _ E) as Hl.
      destruct (N.leb_spec n m) as [Hm|Hm]; [|cbn [AB]; apply N.le_0_l].
      destruct (take_n n r) as [[hh t]|] eqn:E2; cbn [AB].
      + apply take_n_some in E2. destruct E2 as [E3 E4]. subst r. rewrite len_app in Hl.
        exists (N.of_nat w + n). split; [lia|]. assert (c <= c * (N.of_nat w + n)) by nia. lia.
      + assert (c <= c * len bs) by nia. lia.
    - destruct (take_n n bs) as [[hh t]|] eqn:E2; cbn [AB]; [|apply N.le_0_l].
      apply take_n_some in E2. destruct E2 as [E3 E4]. subst bs. rewrite len_app.
      exists (len hh). split; [lia|apply N.le_0_l].
    - cbn [cap] in Hc. pose proof (IH Hwf c Hc bs Hok) as HA.
      destruct (dec s bs) as [[v r]|]; [destruct (eval_pred p v)|]; cbn [AB] in *; try exact HA.
      destruct HA as (u & H1 & H2). rewrite H1, N.mul_add_distr_l. lia.
    - apply andb_true_iff in Hwf. destruct Hwf as [Hwh Hwb].
      cbn [cap] in Hc. apply N.max_lub_iff in Hc. destruct Hc as [Hc1 Hc2].
      pose proof (IHh Hwh c Hc1 bs Hok) as HA.
      destruct (dec h bs) as [[hv r]|] eqn:E; [|cbn [AB] in *; rewrite N.add_0_r; exact HA].
      cbn [AB] in HA. destruct HA as (u1 & H1 & H2).
      pose proof (dec_ok_rest _ _ _ _ Hwh Hok E) as Hr.
      destruct (get_num path hv) as [n|]; [|cbn [AB]; rewrite N.add_0_r, H1, N.mul_add_distr_l; lia].
      destruct (take_n n r) as [[pb r']|] eqn:E2; [|cbn [AB]; rewrite N.add_0_r, H1, N.mul_add_distr_l; lia].
      apply take_n_some in E2. destruct E2 as [E3 E4]. subst r.
      apply bytes_ok_app_inv in Hr. destruct Hr as [Hpb Hr'].
      pose proof (AB_weak _ _ _ _ (IHb Hwb c Hc2 pb Hpb)) as HB. rewrite len_app in H1.
      destruct (dec b pb) as [[bv [|x xs]]|]; cbn [AB].
      + exists (u1 + len pb). split; [lia|]. rewrite N.mul_add_distr_l. lia.
      + rewrite H1, !N.mul_add_distr_l. lia.
      + rewrite H1, !N.mul_add_distr_l. lia.
    - apply andb_true_iff in Hwf. destruct Hwf as [Hwf Hms]. apply andb_true_iff in Hwf. destruct Hwf as [Hwh Hc0].
      apply N.eqb_eq in Hc0. apply N.leb_le in Hms.
      cbn [cap] in Hc. apply N.max_lub_iff in Hc. destruct Hc as [Hc1 Hc2].
      assert (Hc00 : cap h <= 0) by lia.
      pose proof (IHh Hwh 0 Hc00 bs Hok) as HA.
      destruct (dec h bs) as [[hv r]|] eqn:E; cbn [AB] in *.
      + destruct HA as (u1 & H1 & H2). rewrite N.mul_0_l in H2.
        destruct (schema_canon h Hwh _ _ _ Hok E) as (C1 & C2 & C3).
        pose proof (schema_min_size h hv C2) as Hmin.
        assert (Hu : 1 <= u1). { rewrite C1, len_app in H1. lia. }
        destruct (get_num path hv) as [n|]; [|cbn [AB]; lia].
        destruct (N.leb_spec n m) as [Hm|Hm]; [|cbn [AB]; lia].
        destruct (take_n n r) as [[pb r']|] eqn:E2; cbn [AB].
        * apply take_n_some in E2. destruct E2 as [E3 E4]. subst r. rewrite len_app in H1.
          exists (u1 + n). split; [lia|]. assert (c <= c * (u1 + n)) by nia. lia.
        * assert (c <= c * len bs) by nia. lia.
      + rewrite N.mul_0_l in HA. lia.
  Qed.

  Definition AllocOK (s : schema) : Prop :=
    forall bs, bytes_ok bs = true -> alloc s bs <= cap s * used s bs.

  Theorem schema_alloc : forall s, schema_wf s = true -> AllocOK s.
  Proof.
    intros s Hwf bs Hok. pose proof (schema_allocB s Hwf (cap s) (N.le_refl _) bs Hok) as H.
    unfold Codec.used. destruct (dec s bs) as [[v r]|]; cbn [AB] in H; [|exact H].
    destruct H as (u & H1 & H2). replace (len bs - len r) with u by lia. exact H2.
  Qed.

  (** ** The universal theorem *)
  Theorem schema_codec_laws : forall s, schema_wf s = true -> RT s /\ Canon s /\ PFree s /\ AllocOK s.
  Proof.
    intros s Hwf. repeat split.
    - now apply schema_rt.
    - now apply (schema_canon s Hwf bs v rest).
    - now apply (schema_canon s Hwf bs v rest).
    - now apply (schema_canon s Hwf bs v rest).
    - now apply (schema_pfree s Hwf a b r1 r2).
    - now apply (schema_pfree s Hwf a b r1 r2).
    - now apply schema_alloc.
  Qed.
End Laws.
