(** * Common/Codec.v -- the shared codec calculus (definitions only; executable).

    Used by C05 (chain types), and meant to be instantiated by C10, C13, C16, C17.

    Bytes are [N] below 256 in [list N].  A binary format is a first-order [schema] term; values
    live in one untyped universe [gval]; [wt s v] (boolean) says that [v] is a well-formed value
    of format [s] ([has_type s v := wt s v = true]).  [enc s v] is the encoder, [dec s bs] the
    decoder: it returns the value and the *unconsumed* rest of the input, [None] on any error.
    [alloc s bs] is the ghost counter of storage reserved ahead of the data by the decoder (the model
    of Rust's [safe_with_capacity] / [vec![0; len]] discipline).

    Everything is parameterised by [valid : N -> list N -> bool], the abstract validity of opaque
    leaves (curve points, scalars, public keys ...): kind [k], raw bytes.  After [End] all
    functions take [valid] as their first argument.  Use [(fun _ _ => true)] when a format has no
    opaque leaves.

    The laws (round trip, canonicity, prefix freeness, bounded pre-allocation) are proved once and
    for all schemas in [Common/CodecProofs.v] ([schema_codec_laws]); the side condition
    [schema_wf s = true] is a boolean, discharged by [vm_compute]/[reflexivity].

    ** Schema constructors

    - [SUInt e w]            unsigned integer of [w] bytes (any [w]; 1,2,4,8,16 in practice), endianness
                             [e] ([BE]/[LE]).  Value [VNum n], [n < 256^w].  Signed integers are the
                             same format (two's complement raw value).
    - [STuple ss]            the formats [ss] one after the other.  Value [VList vs].  ([SUnit] = [STuple []],
                             [SPair a b] = [STuple [a;b]], [SArray n s] = [STuple (repeat s n)].)
    - [SSum alts]            one tag byte, then the format the tag table [alts : list (N * schema)]
                             gives for it; unknown tag => [None].  Value [VTag t v].
                             ([SOption s] = [SSum [(0,SUnit);(1,s)]], [SEnum n] for field-less enums.)
    - [SBitmap e w mask fs]  a [w]-byte bitmap, then the fields [fs : list (option N * schema)] in
                             order: [(None, s)] is always present, [(Some i, s)] is present iff bit
                             [i] of the bitmap is set.  A bitmap with a bit outside [mask] is
                             rejected.  Well-formed only if [mask] = exactly the bits of [fs].
                             Value [VList vs]; optional fields are [VNone] / [VSome v].
    - [SVec e w s]           length prefix ([w] bytes, endianness [e]) = number of elements, then
                             the elements.  Value [VList vs].  Reserves [min len MAX_PREALLOC] slots.
    - [SBytes e w max]       length prefix then that many raw bytes; rejected if the length
                             exceeds [max] (checked before anything is allocated).  Value [VBytes bs].
    - [SRaw n]               exactly [n] raw bytes.  Value [VBytes bs].
    - [SRefine p s]          format [s], then the boolean check [p] on the decoded value
                             ([pred]: bounds, non-zero, strictly increasing keys, coprime, opaque validity ...).
                             ([SBool], [SSet], [SMap], [SOpaque] are refinements.)
    - [SFramed h path body]  header [h]; the number at [path] inside the header value is the byte
                             length of [body], which must consume exactly that many bytes.
                             Value [VList [hv; bv]].
    - [SFramedRaw h path max] same, the body being raw bytes ([VBytes]) -- allocated in one go,
                             so [max] bounds it.
*)
From Coq Require Import NArith List Bool.
Import ListNotations.
Local Open Scope N_scope.

Inductive endian := BE | LE.

(** ** Values *)
Inductive gval :=
| VNum (n : N)
| VBytes (bs : list N)
| VList (vs : list gval)
| VTag (t : N) (v : gval)
| VNone
| VSome (v : gval).

(** A total order on values: numbers numerically, byte strings and lists lexicographically,
    tagged values by tag then payload, [VNone < VSome _].  This is the order Rust's derived [Ord]
    gives (fields in declaration order, variants in tag order).  No order property is needed by
    the laws: "strictly increasing" is just a decidable predicate on the decoded list. *)
Fixpoint lex_cmp (xs ys : list N) : comparison :=
  match xs, ys with
  | [], [] => Eq
  | [], _ => Lt
  | _, [] => Gt
  | x :: xs', y :: ys' => match x ?= y with Eq => lex_cmp xs' ys' | c => c end
  end.

Definition grank (v : gval) : N :=
  match v with VNum _ => 0 | VBytes _ => 1 | VList _ => 2 | VTag _ _ => 3 | VNone => 4 | VSome _ => 5 end.

Fixpoint gcmp (a b : gval) {struct a} : comparison :=
  match a, b with
  | VNum x, VNum y => x ?= y
  | VBytes x, VBytes y => lex_cmp x y
  | VList xs, VList ys =>
      (fix go (xs ys : list gval) {struct xs} : comparison :=
         match xs, ys with
         | [], [] => Eq
         | [], _ => Lt
         | _, [] => Gt
         | x :: xs', y :: ys' => match gcmp x y with Eq => go xs' ys' | c => c end
         end) xs ys
  | VTag t v, VTag u w => match t ?= u with Eq => gcmp v w | c => c end
  | VNone, VNone => Eq
  | VSome v, VSome w => gcmp v w
  | _, _ => grank a ?= grank b
  end.

Definition glt (a b : gval) : bool := match gcmp a b with Lt => true | _ => false end.

Fixpoint strictly_sorted (vs : list gval) : bool :=
  match vs with
  | [] => true
  | a :: rest => match rest with [] => true | b :: _ => glt a b && strictly_sorted rest end
  end.

Definition key_of (v : gval) : gval := match v with VList (k :: _) => k | _ => v end.

(** ** Refinement predicates *)
Inductive pred :=
| PLe (m : N)            (* VNum n, n <= m *)
| PGe (m : N)            (* VNum n, m <= n *)
| PLenLe (m : N)         (* VList / VBytes of length <= m *)
| PLenGe (m : N)         (* VList / VBytes of length >= m *)
| PSorted                (* VList, strictly increasing *)
| PSortedKeys            (* VList of VList (k :: _), keys strictly increasing *)
| PCoprime               (* VList [VNum a; VNum b], b <> 0 and gcd a b = 1 *)
| PField (i : nat) (p : pred)   (* p holds of the i-th component of a VList *)
| PAll (p : pred)        (* p holds of every element of a VList *)
| PAnd (p q : pred)
| POpaque (k : N)        (* VBytes bs, valid k bs *)
| PFun (f : gval -> bool).

(** ** Schemas *)
Inductive schema :=
| SUInt (e : endian) (w : nat)
| STuple (ss : list schema)
| SSum (alts : list (N * schema))
| SBitmap (e : endian) (w : nat) (mask : N) (fields : list (option N * schema))
| SVec (e : endian) (w : nat) (s : schema)
| SBytes (e : endian) (w : nat) (max : N)
| SRaw (n : N)
| SRefine (p : pred) (s : schema)
| SFramed (hdr : schema) (path : list nat) (body : schema)
| SFramedRaw (hdr : schema) (path : list nat) (max : N).

(** Derived forms. *)
Definition SU8 := SUInt BE 1.
Definition SU16 := SUInt BE 2.
Definition SU32 := SUInt BE 4.
Definition SU64 := SUInt BE 8.
Definition SU128 := SUInt BE 16.
Definition SUnit := STuple [].
Definition SPair (a b : schema) := STuple [a; b].
Definition SArray (n : nat) (s : schema) := STuple (repeat s n).
Definition SBool := SRefine (PLe 1) SU8.
Definition SOption (s : schema) := SSum [(0, SUnit); (1, s)].
Definition SSet (e : endian) (w : nat) (s : schema) := SRefine PSorted (SVec e w s).
Definition SMap (e : endian) (w : nat) (k v : schema) := SRefine PSortedKeys (SVec e w (STuple [k; v])).
Definition SOpaque (n : N) (kind : N) := SRefine (POpaque kind) (SRaw n).
Definition SEnum (n : nat) := SSum (map (fun i => (N.of_nat i, SUnit)) (seq 0 n)).

(** Maximum number of element slots reserved ahead of the data (Rust: MAX_PREALLOCATED_CAPACITY). *)
Definition MAX_PREALLOC : N := 4096.

(** ** Integers *)
Fixpoint enc_le (w : nat) (n : N) : list N :=
  match w with O => [] | S w' => (n mod 256) :: enc_le w' (n / 256) end.

Fixpoint dec_le (bs : list N) : N :=
  match bs with [] => 0 | b :: r => b + 256 * dec_le r end.

Definition enc_uint (e : endian) (w : nat) (n : N) : list N :=
  match e with LE => enc_le w n | BE => rev (enc_le w n) end.

(** [take n bs]: the first [n] bytes and the rest; [None] if the input is shorter. *)
Fixpoint take (n : nat) (bs : list N) : option (list N * list N) :=
  match n with
  | O => Some ([], bs)
  | S n' => match bs with
            | [] => None
            | b :: r => match take n' r with Some (h, t) => Some (b :: h, t) | None => None end
            end
  end.

Definition dec_uint (e : endian) (w : nat) (bs : list N) : option (N * list N) :=
  match take w bs with
  | None => None
  | Some (h, r) => Some (match e with LE => dec_le h | BE => dec_le (rev h) end, r)
  end.

Definition pow256 (w : nat) : N := 2 ^ (8 * N.of_nat w).
Definition len {A} (l : list A) : N := N.of_nat (length l).
Definition byte_ok (b : N) : bool := b <? 256.
Definition bytes_ok (bs : list N) : bool := forallb byte_ok bs.

(** [take_n n bs]: like [take] with an [N] count; the comparison first keeps the count small. *)
Definition take_n (n : N) (bs : list N) : option (list N * list N) :=
  if n <=? len bs then take (N.to_nat n) bs else None.

(** ** Generic list helpers (the function argument stays outside the [fix]: nested recursion) *)
Definition alt_apply {A} (f : schema -> A) (d : A) (t : N) : list (N * schema) -> A :=
  fix go (alts : list (N * schema)) : A :=
    match alts with
    | [] => d
    | (t', s) :: rest => if t =? t' then f s else go rest
    end.

Definition enc_tuple (f : schema -> gval -> list N) : list schema -> list gval -> list N :=
  fix go (ss : list schema) (vs : list gval) : list N :=
    match ss, vs with
    | s :: ss', v :: vs' => f s v ++ go ss' vs'
    | _, _ => []
    end.

Definition wt_tuple (f : schema -> gval -> bool) : list schema -> list gval -> bool :=
  fix go (ss : list schema) (vs : list gval) : bool :=
    match ss, vs with
    | [], [] => true
    | s :: ss', v :: vs' => f s v && go ss' vs'
    | _, _ => false
    end.

Definition dec_tuple (f : schema -> list N -> option (gval * list N)) :
  list schema -> list N -> option (list gval * list N) :=
  fix go (ss : list schema) (bs : list N) : option (list gval * list N) :=
    match ss with
    | [] => Some ([], bs)
    | s :: ss' => match f s bs with
                  | None => None
                  | Some (v, r) => match go ss' r with
                                   | None => None
                                   | Some (vs, r') => Some (v :: vs, r')
                                   end
                  end
    end.

Definition enc_fields (f : schema -> gval -> list N) : list (option N * schema) -> list gval -> list N :=
  fix go (fs : list (option N * schema)) (vs : list gval) : list N :=
    match fs, vs with
    | (None, s) :: fs', v :: vs' => f s v ++ go fs' vs'
    | (Some _, s) :: fs', VSome v :: vs' => f s v ++ go fs' vs'
    | (Some _, _) :: fs', _ :: vs' => go fs' vs'
    | _, _ => []
    end.

Definition wt_fields (f : schema -> gval -> bool) : list (option N * schema) -> list gval -> bool :=
  fix go (fs : list (option N * schema)) (vs : list gval) : bool :=
    match fs, vs with
    | [], [] => true
    | (None, s) :: fs', v :: vs' => f s v && go fs' vs'
    | (Some _, s) :: fs', VSome v :: vs' => f s v && go fs' vs'
    | (Some _, _) :: fs', VNone :: vs' => go fs' vs'
    | _, _ => false
    end.

Definition dec_fields (f : schema -> list N -> option (gval * list N)) (b : N) :
  list (option N * schema) -> list N -> option (list gval * list N) :=
  fix go (fs : list (option N * schema)) (bs : list N) : option (list gval * list N) :=
    match fs with
    | [] => Some ([], bs)
    | (oi, s) :: fs' =>
        let present := match oi with None => true | Some i => N.testbit b i end in
        if present then
          match f s bs with
          | None => None
          | Some (v, r) => match go fs' r with
                           | None => None
                           | Some (vs, r') => Some ((match oi with None => v | Some _ => VSome v end) :: vs, r')
                           end
          end
        else match go fs' bs with
             | None => None
             | Some (vs, r') => Some (VNone :: vs, r')
             end
    end.

(** The bitmap a value denotes: bit [i] for every present optional field. *)
Fixpoint bitmap_of (bits : list (option N)) (vs : list gval) : N :=
  match bits, vs with
  | Some i :: bits', VSome _ :: vs' => N.lor (2 ^ i) (bitmap_of bits' vs')
  | _ :: bits', _ :: vs' => bitmap_of bits' vs'
  | _, _ => 0
  end.

Fixpoint all_bits (bits : list (option N)) : N :=
  match bits with
  | Some i :: bits' => N.lor (2 ^ i) (all_bits bits')
  | None :: bits' => all_bits bits'
  | [] => 0
  end.

Fixpoint dec_n (f : list N -> option (gval * list N)) (k : nat) (bs : list N) : option (list gval * list N) :=
  match k with
  | O => Some ([], bs)
  | S k' => match f bs with
            | None => None
            | Some (v, r) => match dec_n f k' r with
                             | None => None
                             | Some (vs, r') => Some (v :: vs, r')
                             end
            end
  end.

(** Path lookup inside a header value (used by the framed formats). *)
Fixpoint get_num (path : list nat) (v : gval) : option N :=
  match path with
  | [] => match v with VNum n => Some n | _ => None end
  | i :: path' => match v with
                  | VList vs => match nth_error vs i with Some v' => get_num path' v' | None => None end
                  | _ => None
                  end
  end.

Definition glen (v : gval) : option N :=
  match v with VList vs => Some (len vs) | VBytes bs => Some (len bs) | _ => None end.

Section Codec.
  (** Abstract validity of opaque leaves: kind, raw bytes. *)
  Variable valid : N -> list N -> bool.

  Fixpoint eval_pred (p : pred) (v : gval) {struct p} : bool :=
    match p with
    | PLe m => match v with VNum n => n <=? m | _ => false end
    | PGe m => match v with VNum n => m <=? n | _ => false end
    | PLenLe m => match glen v with Some l => l <=? m | None => false end
    | PLenGe m => match glen v with Some l => m <=? l | None => false end
    | PSorted => match v with VList vs => strictly_sorted vs | _ => false end
    | PSortedKeys => match v with VList vs => strictly_sorted (map key_of vs) | _ => false end
    | PCoprime => match v with
                  | VList [VNum a; VNum b] => negb (b =? 0) && (N.gcd a b =? 1)
                  | _ => false
                  end
    | PField i q => match v with
                    | VList vs => match nth_error vs i with Some x => eval_pred q x | None => false end
                    | _ => false
                    end
    | PAll q => match v with VList vs => forallb (eval_pred q) vs | _ => false end
    | PAnd q r => eval_pred q v && eval_pred r v
    | POpaque k => match v with VBytes bs => valid k bs | _ => false end
    | PFun f => f v
    end.

  (** ** Encoder *)
  Fixpoint enc (s : schema) (v : gval) {struct s} : list N :=
    match s with
    | SUInt e w => match v with VNum n => enc_uint e w n | _ => [] end
    | STuple ss => match v with VList vs => enc_tuple enc ss vs | _ => [] end
    | SSum alts => match v with
                   | VTag t v' => t :: alt_apply (fun s' => enc s' v') [] t alts
                   | _ => []
                   end
    | SBitmap e w _ fs => match v with
                          | VList vs => enc_uint e w (bitmap_of (map fst fs) vs) ++ enc_fields enc fs vs
                          | _ => []
                          end
    | SVec e w s' => match v with
                     | VList vs => enc_uint e w (len vs) ++ concat (map (enc s') vs)
                     | _ => []
                     end
    | SBytes e w _ => match v with VBytes bs => enc_uint e w (len bs) ++ bs | _ => [] end
    | SRaw _ => match v with VBytes bs => bs | _ => [] end
    | SRefine _ s' => enc s' v
    | SFramed h _ b => match v with VList [hv; bv] => enc h hv ++ enc b bv | _ => [] end
    | SFramedRaw h _ _ => match v with VList [hv; VBytes bs] => enc h hv ++ bs | _ => [] end
    end.

  (** ** Typing *)
  Fixpoint wt (s : schema) (v : gval) {struct s} : bool :=
    match s with
    | SUInt _ w => match v with VNum n => n <? pow256 w | _ => false end
    | STuple ss => match v with VList vs => wt_tuple wt ss vs | _ => false end
    | SSum alts => match v with
                   | VTag t v' => alt_apply (fun s' => wt s' v') false t alts
                   | _ => false
                   end
    | SBitmap _ _ _ fs => match v with VList vs => wt_fields wt fs vs | _ => false end
    | SVec _ w s' => match v with
                     | VList vs => (len vs <? pow256 w) && forallb (wt s') vs
                     | _ => false
                     end
    | SBytes _ w max => match v with
                        | VBytes bs => (len bs <? pow256 w) && (len bs <=? max) && bytes_ok bs
                        | _ => false
                        end
    | SRaw n => match v with VBytes bs => (len bs =? n) && bytes_ok bs | _ => false end
    | SRefine p s' => wt s' v && eval_pred p v
    | SFramed h path b => match v with
                          | VList [hv; bv] =>
                              wt h hv && wt b bv &&
                              match get_num path hv with Some n => n =? len (enc b bv) | None => false end
                          | _ => false
                          end
    | SFramedRaw h path max => match v with
                               | VList [hv; VBytes bs] =>
                                   wt h hv && bytes_ok bs && (len bs <=? max) &&
                                   match get_num path hv with Some n => n =? len bs | None => false end
                               | _ => false
                               end
    end.

  Definition has_type (s : schema) (v : gval) : Prop := wt s v = true.

  (** ** Decoder.  Structural on the schema; element loops run on the decoded count, which is
      first compared with the remaining input length (every element of a well-formed vector
      occupies at least one byte, so a larger count can only fail). *)
  Fixpoint dec (s : schema) (bs : list N) {struct s} : option (gval * list N) :=
    match s with
    | SUInt e w => match dec_uint e w bs with Some (n, r) => Some (VNum n, r) | None => None end
    | STuple ss => match dec_tuple dec ss bs with Some (vs, r) => Some (VList vs, r) | None => None end
    | SSum alts =>
        match bs with
        | [] => None
        | t :: r => alt_apply (fun s' => match dec s' r with
                                         | Some (v, r') => Some (VTag t v, r')
                                         | None => None
                                         end) None t alts
        end
    | SBitmap e w mask fs =>
        match dec_uint e w bs with
        | None => None
        | Some (b, r) =>
            if N.ldiff b mask =? 0 then
              match dec_fields dec b fs r with Some (vs, r') => Some (VList vs, r') | None => None end
            else None
        end
    | SVec e w s' =>
        match dec_uint e w bs with
        | None => None
        | Some (n, r) =>
            if n <=? len r then
              match dec_n (dec s') (N.to_nat n) r with Some (vs, r') => Some (VList vs, r') | None => None end
            else None
        end
    | SBytes e w max =>
        match dec_uint e w bs with
        | None => None
        | Some (n, r) =>
            if n <=? max then
              match take_n n r with Some (h, t) => Some (VBytes h, t) | None => None end
            else None
        end
    | SRaw n => match take_n n bs with Some (h, t) => Some (VBytes h, t) | None => None end
    | SRefine p s' => match dec s' bs with
                      | Some (v, r) => if eval_pred p v then Some (v, r) else None
                      | None => None
                      end
    | SFramed h path b =>
        match dec h bs with
        | None => None
        | Some (hv, r) =>
            match get_num path hv with
            | None => None
            | Some n => match take_n n r with
                        | None => None
                        | Some (pb, r') => match dec b pb with
                                           | Some (bv, []) => Some (VList [hv; bv], r')
                                           | _ => None
                                           end
                        end
            end
        end
    | SFramedRaw h path max =>
        match dec h bs with
        | None => None
        | Some (hv, r) =>
            match get_num path hv with
            | None => None
            | Some n => if n <=? max then
                          match take_n n r with
                          | None => None
                          | Some (pb, r') => Some (VList [hv; VBytes pb], r')
                          end
                        else None
            end
        end
    end.

  (** ** Ghost allocation counter: storage reserved *ahead of the data* while decoding [bs]
      (element slots for vectors, bytes for byte strings), summed over every reservation the
      decoder performs, including those on a path that later fails.  A vector reserves
      [min len MAX_PREALLOC] (Rust: [safe_with_capacity]); a bounded byte string reserves its
      declared length after the bound check ([vec![0; len]]); elements pushed one by one are
      paid for by the input they consumed and are not counted. *)
  Definition alloc_tuple (fa : schema -> list N -> N) : list schema -> list N -> N :=
    fix go (ss : list schema) (bs : list N) : N :=
      match ss with
      | [] => 0
      | s :: ss' => fa s bs + match dec s bs with Some (_, r) => go ss' r | None => 0 end
      end.

  Definition alloc_fields (fa : schema -> list N -> N) (b : N) : list (option N * schema) -> list N -> N :=
    fix go (fs : list (option N * schema)) (bs : list N) : N :=
      match fs with
      | [] => 0
      | (oi, s) :: fs' =>
          let present := match oi with None => true | Some i => N.testbit b i end in
          if present then fa s bs + match dec s bs with Some (_, r) => go fs' r | None => 0 end
          else go fs' bs
      end.

  Fixpoint alloc_n (fa : list N -> N) (fd : list N -> option (gval * list N)) (k : nat) (bs : list N) : N :=
    match k with
    | O => 0
    | S k' => fa bs + match fd bs with Some (_, r) => alloc_n fa fd k' r | None => 0 end
    end.

  Fixpoint alloc (s : schema) (bs : list N) {struct s} : N :=
    match s with
    | SUInt _ _ => 0
    | STuple ss => alloc_tuple alloc ss bs
    | SSum alts => match bs with
                   | [] => 0
                   | t :: r => alt_apply (fun s' => alloc s' r) 0 t alts
                   end
    | SBitmap e w mask fs =>
        match dec_uint e w bs with
        | None => 0
        | Some (b, r) => if N.ldiff b mask =? 0 then alloc_fields alloc b fs r else 0
        end
    | SVec e w s' =>
        match dec_uint e w bs with
        | None => 0
        | Some (n, r) => N.min n MAX_PREALLOC
                         + alloc_n (alloc s') (dec s') (N.to_nat (N.min n (len r))) r
        end
    | SBytes e w max =>
        match dec_uint e w bs with
        | None => 0
        | Some (n, r) => if n <=? max then n else 0
        end
    | SRaw _ => 0
    | SRefine _ s' => alloc s' bs
    | SFramed h path b =>
        alloc h bs +
        match dec h bs with
        | None => 0
        | Some (hv, r) =>
            match get_num path hv with
            | None => 0
            | Some n => match take_n n r with None => 0 | Some (pb, _) => alloc b pb end
            end
        end
    | SFramedRaw h path max =>
        alloc h bs +
        match dec h bs with
        | None => 0
        | Some (hv, _) =>
            match get_num path hv with
            | None => 0
            | Some n => if n <=? max then n else 0
            end
        end
    end.

  (** Input consumed by a decode: exactly the consumed prefix on success, everything on failure. *)
  Definition used (s : schema) (bs : list N) : N :=
    match dec s bs with Some (_, r) => len bs - len r | None => len bs end.
End Codec.

(** ** Static quantities of a schema *)

(** A lower bound on the length of every encoding. *)
Fixpoint min_size (s : schema) : N :=
  match s with
  | SUInt _ w => N.of_nat w
  | STuple ss => (fix go (ss : list schema) : N := match ss with [] => 0 | s :: ss' => min_size s + go ss' end) ss
  | SSum _ => 1
  | SBitmap _ w _ _ => N.of_nat w
  | SVec _ w _ => N.of_nat w
  | SBytes _ w _ => N.of_nat w
  | SRaw n => n
  | SRefine _ s' => min_size s'
  | SFramed h _ _ => min_size h
  | SFramedRaw h _ _ => min_size h
  end.

(** The per-consumed-byte allocation constant of a schema. *)
Fixpoint cap (s : schema) : N :=
  match s with
  | SUInt _ _ => 0
  | STuple ss => (fix go (ss : list schema) : N := match ss with [] => 0 | s :: ss' => N.max (cap s) (go ss') end) ss
  | SSum alts => (fix go (alts : list (N * schema)) : N :=
                    match alts with [] => 0 | (_, s) :: r => N.max (cap s) (go r) end) alts
  | SBitmap _ _ _ fs => (fix go (fs : list (option N * schema)) : N :=
                           match fs with [] => 0 | (_, s) :: r => N.max (cap s) (go r) end) fs
  | SVec _ _ s' => N.max MAX_PREALLOC (cap s')
  | SBytes _ _ max => max
  | SRaw _ => 0
  | SRefine _ s' => cap s'
  | SFramed h _ b => N.max (cap h) (cap b)
  | SFramedRaw h _ max => N.max (cap h) max
  end.

Fixpoint nodupb (l : list N) : bool :=
  match l with
  | [] => true
  | x :: r => negb (existsb (N.eqb x) r) && nodupb r
  end.

Fixpoint opt_bits (bits : list (option N)) : list N :=
  match bits with
  | Some i :: r => i :: opt_bits r
  | None :: r => opt_bits r
  | [] => []
  end.

(** ** Well-formedness of a schema (boolean; discharge with [reflexivity] / [vm_compute]).
    - tag tables: tags are bytes and pairwise distinct;
    - bitmaps: at least one byte wide, field bits distinct and inside the bitmap, and [mask] is
      *exactly* the set of field bits (a mask with a bit that selects no field is the
      non-canonical decoder of finding F4);
    - vectors: the length prefix is at least one byte and every element occupies at least one byte
      (otherwise a huge declared count cannot be refuted by the input length);
    - byte strings: the prefix is at least one byte;
    - framed raw bodies: the header contains no allocation site and is non-empty. *)
Fixpoint schema_wf (s : schema) : bool :=
  match s with
  | SUInt _ _ => true
  | STuple ss => forallb schema_wf ss
  | SSum alts =>
      forallb (fun a => fst a <? 256) alts && nodupb (map fst alts)
      && (fix go (alts : list (N * schema)) : bool :=
            match alts with [] => true | (_, s) :: r => schema_wf s && go r end) alts
  | SBitmap _ w mask fs =>
      (1 <=? N.of_nat w) && nodupb (opt_bits (map fst fs))
      && forallb (fun i => i <? 8 * N.of_nat w) (opt_bits (map fst fs))
      && (mask =? all_bits (map fst fs))
      && (fix go (fs : list (option N * schema)) : bool :=
            match fs with [] => true | (_, s) :: r => schema_wf s && go r end) fs
  | SVec _ w s' => (1 <=? N.of_nat w) && (1 <=? min_size s') && schema_wf s'
  | SBytes _ w _ => 1 <=? N.of_nat w
  | SRaw _ => true
  | SRefine _ s' => schema_wf s'
  | SFramed h _ b => schema_wf h && schema_wf b
  | SFramedRaw h _ _ => schema_wf h && (cap h =? 0) && (1 <=? min_size h)
  end.
