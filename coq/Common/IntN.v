(** * IntN — WebAssembly 1.0 integer operators (core spec section 4.3.2) on [Z].

    An N-bit integer value is a [Z] in the range [0, 2^N) ("unsigned representation",
    exactly as the specification does).  Every operator takes the bit width [n] as its
    first argument ([32] or [64] in Wasm) and returns a canonical value again; the
    partial operators ([idiv_s], [idiv_u], [irem_s], [irem_u]) return [option].

    This file is the specification side: it is written from the W3C text, never from
    the implementation.  It contains definitions only (proofs live in
    [Common/IntNProofs.v]) and stays executable ([vm_compute], extraction). *)
From Coq Require Import ZArith.
Local Open Scope Z_scope.

(** [2^n], the modulus of an [n]-bit integer. *)
Definition modulus (n : Z) : Z := 2 ^ n.
Definition half_modulus (n : Z) : Z := 2 ^ (n - 1).

(** Reduction into the canonical range. *)
Definition wrap (n x : Z) : Z := x mod modulus n.

(** spec: signed_N(i) = i if 0 <= i < 2^(N-1);  i - 2^N if 2^(N-1) <= i < 2^N. *)
Definition signed (n x : Z) : Z := if x <? half_modulus n then x else x - modulus n.
(** inverse of [signed] (total: plain reduction mod 2^N). *)
Definition unsigned (n x : Z) : Z := wrap n x.

Definition bool_to_Z (b : bool) : Z := if b then 1 else 0.

(** ** iadd, isub, imul *)
Definition iadd (n x y : Z) : Z := wrap n (x + y).
Definition isub (n x y : Z) : Z := wrap n (x - y + modulus n).
Definition imul (n x y : Z) : Z := wrap n (x * y).

(** ** division and remainder (partial)
    idiv_u: undefined if j2 = 0, else trunc(j1 / j2).
    irem_u: undefined if j2 = 0, else j1 - j2 * trunc(j1 / j2).
    idiv_s: undefined if j2 = 0; undefined if signed(j1)/signed(j2) = 2^(N-1);
            else signed^-1 (trunc (signed j1 / signed j2)).
    irem_s: undefined if j2 = 0; else signed^-1 (j1 - j2 * trunc (j1 / j2)) on the signed
            interpretations (the result has the sign of the dividend).
    [Z.quot]/[Z.rem] truncate toward zero. *)
Definition idiv_u (n x y : Z) : option Z := if y =? 0 then None else Some (x / y).
Definition irem_u (n x y : Z) : option Z := if y =? 0 then None else Some (x mod y).
Definition idiv_s (n x y : Z) : option Z :=
  if y =? 0 then None
  else let q := Z.quot (signed n x) (signed n y) in
       if q =? half_modulus n then None else Some (unsigned n q).
Definition irem_s (n x y : Z) : option Z :=
  if y =? 0 then None else Some (unsigned n (Z.rem (signed n x) (signed n y))).

(** ** bitwise *)
Definition iand (n x y : Z) : Z := Z.land x y.
Definition ior (n x y : Z) : Z := Z.lor x y.
Definition ixor (n x y : Z) : Z := Z.lxor x y.

(** ** shifts and rotates: the count is taken modulo N.
    ishl: shift left, dropping bits above N.  ishr_u: shift right, zero fill.
    ishr_s: shift right, filling with the sign bit (= floor division of the signed value).
    irotl/irotr: rotate. *)
Definition ishl (n x k : Z) : Z := wrap n (x * 2 ^ (k mod n)).
Definition ishr_u (n x k : Z) : Z := x / 2 ^ (k mod n).
Definition ishr_s (n x k : Z) : Z := unsigned n (signed n x / 2 ^ (k mod n)).
Definition irotl (n x k : Z) : Z :=
  let k := k mod n in wrap n (x * 2 ^ k) + x / 2 ^ (n - k).
Definition irotr (n x k : Z) : Z :=
  let k := k mod n in x / 2 ^ k + wrap n (x * 2 ^ (n - k)).

(** ** counting *)
Fixpoint pos_ctz (p : positive) : Z :=
  match p with xO q => 1 + pos_ctz q | _ => 0 end.
Fixpoint pos_popcnt (p : positive) : Z :=
  match p with xO q => pos_popcnt q | xI q => 1 + pos_popcnt q | xH => 1 end.
(** number of significant bits of [x >= 0] ([0] for [0]) *)
Definition bitlen (x : Z) : Z := match x with Zpos p => Z.log2 x + 1 | _ => 0 end.

(** iclz: count of leading zero bits; all bits are leading zeros if the value is 0. *)
Definition iclz (n x : Z) : Z := n - bitlen x.
(** ictz: count of trailing zero bits; all bits are trailing zeros if the value is 0. *)
Definition ictz (n x : Z) : Z := match x with Zpos p => pos_ctz p | _ => n end.
(** ipopcnt: count of non-zero bits. *)
Definition ipopcnt (n x : Z) : Z := match x with Zpos p => pos_popcnt p | _ => 0 end.

(** ** tests and comparisons (results are 0/1) *)
Definition ieqz (n x : Z) : Z := bool_to_Z (x =? 0).
Definition ieq (n x y : Z) : Z := bool_to_Z (x =? y).
Definition ine (n x y : Z) : Z := bool_to_Z (negb (x =? y)).
Definition ilt_u (n x y : Z) : Z := bool_to_Z (x <? y).
Definition igt_u (n x y : Z) : Z := bool_to_Z (x >? y).
Definition ile_u (n x y : Z) : Z := bool_to_Z (x <=? y).
Definition ige_u (n x y : Z) : Z := bool_to_Z (x >=? y).
Definition ilt_s (n x y : Z) : Z := bool_to_Z (signed n x <? signed n y).
Definition igt_s (n x y : Z) : Z := bool_to_Z (signed n x >? signed n y).
Definition ile_s (n x y : Z) : Z := bool_to_Z (signed n x <=? signed n y).
Definition ige_s (n x y : Z) : Z := bool_to_Z (signed n x >=? signed n y).

(** ** conversions
    wrap_{M,N}(i) = i mod 2^N;  extend_u_{M,N}(i) = i;
    extend_s_{M,N}(i) = signed_N^-1 (signed_M (i)).
    The sign-extension operators iextendM_s of width N first truncate to M bits. *)
Definition iwrap (m n x : Z) : Z := wrap n x.
Definition iextend_u (m n x : Z) : Z := x.
Definition iextend_s (m n x : Z) : Z := unsigned n (signed m x).
Definition iextendM_s (m n x : Z) : Z := iextend_s m n (wrap m x).

(** Little-endian byte decomposition used by memory instructions:
    [bytes_of k x] = the [k] low bytes of [x]; [of_bytes bs] its inverse. *)
Fixpoint bytes_of (k : nat) (x : Z) : list Z :=
  match k with O => nil | S k' => (x mod 256) :: bytes_of k' (x / 256) end.
Fixpoint of_bytes (bs : list Z) : Z :=
  match bs with nil => 0 | cons b r => b + 256 * of_bytes r end.
