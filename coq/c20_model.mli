
type nat =
| O
| S of nat

val fst : ('a1 * 'a2) -> 'a1

val snd : ('a1 * 'a2) -> 'a2

val length : 'a1 list -> nat

val app : 'a1 list -> 'a1 list -> 'a1 list

type comparison =
| Eq
| Lt
| Gt

val compOpp : comparison -> comparison

val add : nat -> nat -> nat

val mul : nat -> nat -> nat

val sub : nat -> nat -> nat

val eqb : nat -> nat -> bool

type positive =
| XI of positive
| XO of positive
| XH

type n =
| N0
| Npos of positive

type z =
| Z0
| Zpos of positive
| Zneg of positive

module Pos :
 sig
  type mask =
  | IsNul
  | IsPos of positive
  | IsNeg
 end

module Coq_Pos :
 sig
  val succ : positive -> positive

  val add : positive -> positive -> positive

  val add_carry : positive -> positive -> positive

  val pred_double : positive -> positive

  val pred_N : positive -> n

  type mask = Pos.mask =
  | IsNul
  | IsPos of positive
  | IsNeg

  val succ_double_mask : mask -> mask

  val double_mask : mask -> mask

  val double_pred_mask : positive -> mask

  val sub_mask : positive -> positive -> mask

  val sub_mask_carry : positive -> positive -> mask

  val mul : positive -> positive -> positive

  val iter : ('a1 -> 'a1) -> 'a1 -> positive -> 'a1

  val pow : positive -> positive -> positive

  val div2 : positive -> positive

  val div2_up : positive -> positive

  val compare_cont : comparison -> positive -> positive -> comparison

  val compare : positive -> positive -> comparison

  val eqb : positive -> positive -> bool

  val coq_Nsucc_double : n -> n

  val coq_Ndouble : n -> n

  val coq_lor : positive -> positive -> positive

  val coq_land : positive -> positive -> n

  val ldiff : positive -> positive -> n

  val iter_op : ('a1 -> 'a1 -> 'a1) -> positive -> 'a1 -> 'a1

  val to_nat : positive -> nat

  val of_succ_nat : nat -> positive
 end

module N :
 sig
  val succ_double : n -> n

  val double : n -> n

  val succ_pos : n -> positive

  val add : n -> n -> n

  val sub : n -> n -> n

  val mul : n -> n -> n

  val compare : n -> n -> comparison

  val eqb : n -> n -> bool

  val leb : n -> n -> bool

  val ltb : n -> n -> bool

  val div2 : n -> n

  val pow : n -> n -> n

  val pos_div_eucl : positive -> n -> n * n

  val div_eucl : n -> n -> n * n

  val div : n -> n -> n

  val modulo : n -> n -> n

  val coq_lor : n -> n -> n

  val coq_land : n -> n -> n

  val ldiff : n -> n -> n

  val shiftr : n -> n -> n
 end

module Z :
 sig
  val double : z -> z

  val succ_double : z -> z

  val pred_double : z -> z

  val pos_sub : positive -> positive -> z

  val add : z -> z -> z

  val opp : z -> z

  val sub : z -> z -> z

  val mul : z -> z -> z

  val pow_pos : z -> positive -> z

  val pow : z -> z -> z

  val compare : z -> z -> comparison

  val leb : z -> z -> bool

  val ltb : z -> z -> bool

  val eqb : z -> z -> bool

  val to_nat : z -> nat

  val of_nat : nat -> z

  val of_N : n -> z

  val pos_div_eucl : positive -> z -> z * z

  val div_eucl : z -> z -> z * z

  val div : z -> z -> z

  val modulo : z -> z -> z

  val quotrem : z -> z -> z * z

  val quot : z -> z -> z

  val div2 : z -> z

  val shiftl : z -> z -> z

  val shiftr : z -> z -> z

  val coq_lor : z -> z -> z

  val coq_land : z -> z -> z
 end

val nth : nat -> 'a1 list -> 'a1 -> 'a1

val nth_error : 'a1 list -> nat -> 'a1 option

val rev : 'a1 list -> 'a1 list

val map : ('a1 -> 'a2) -> 'a1 list -> 'a2 list

val fold_left : ('a1 -> 'a2 -> 'a1) -> 'a2 list -> 'a1 -> 'a1

val firstn : nat -> 'a1 list -> 'a1 list

val skipn : nat -> 'a1 list -> 'a1 list

val seq : nat -> nat -> nat list

val repeat : 'a1 -> nat -> 'a1 list

val w64 : z

val limb : z list -> z -> z

val shr64 : z -> z -> z

val shl64 : z -> z -> z

val wrap_i64 : z -> z

val bit_buf : z -> z list -> z -> z

val window_val : z -> z list -> z -> z -> z

val wnaf_loop : nat -> z -> z list -> z -> z -> z -> z list

val wnaf : z -> z list -> z list

val table_loop : ('a1 -> 'a1 -> 'a1) -> nat -> 'a1 -> 'a1 -> 'a1 list

val table : ('a1 -> 'a1 -> 'a1) -> z -> 'a1 -> 'a1 list

val eval_step :
  'a1 -> ('a1 -> 'a1 -> 'a1) -> ('a1 -> 'a1 -> 'a1) -> nat -> 'a1 -> z list
  -> 'a1 list -> 'a1

val eval_inner :
  'a1 -> ('a1 -> 'a1 -> 'a1) -> ('a1 -> 'a1 -> 'a1) -> nat -> 'a1 -> z list
  list -> 'a1 list list -> 'a1

val eval_outer :
  'a1 -> ('a1 -> 'a1 -> 'a1) -> ('a1 -> 'a1 -> 'a1) -> ('a1 -> 'a1) -> nat ->
  'a1 -> z list list -> 'a1 list list -> 'a1

val multiexp_digits :
  'a1 -> ('a1 -> 'a1 -> 'a1) -> ('a1 -> 'a1 -> 'a1) -> ('a1 -> 'a1) -> nat ->
  z list list -> 'a1 list list -> 'a1

val multiexp :
  'a1 -> ('a1 -> 'a1 -> 'a1) -> ('a1 -> 'a1 -> 'a1) -> ('a1 -> 'a1) -> z ->
  nat -> 'a1 list -> z list list -> 'a1

val zr_multiexp : z -> z -> nat -> z list -> z list list -> z

val eval_share :
  'a1 -> ('a1 -> 'a1 -> 'a1) -> ('a1 -> 'a1 -> 'a1) -> 'a1 -> 'a1 list -> 'a1
  -> 'a1

val share :
  'a1 -> ('a1 -> 'a1 -> 'a1) -> ('a1 -> 'a1 -> 'a1) -> 'a1 -> 'a1 list -> 'a1
  list -> 'a1 list

val lagrange :
  'a1 -> ('a1 -> 'a1 -> 'a1) -> ('a1 -> 'a1 -> 'a1) -> ('a1 -> 'a1 option) ->
  'a1 list -> 'a1 -> 'a1

val reveal :
  'a1 -> 'a1 -> ('a1 -> 'a1 -> 'a1) -> ('a1 -> 'a1 -> 'a1) -> ('a1 -> 'a1 ->
  'a1) -> ('a1 -> 'a1 option) -> ('a1 * 'a1) list -> 'a1

val reveal_in_group :
  'a1 -> ('a1 -> 'a1 -> 'a1) -> ('a1 -> 'a1 -> 'a1) -> ('a1 -> 'a1 option) ->
  'a2 -> ('a2 -> 'a2 -> 'a2) -> ('a1 -> 'a2 -> 'a2) -> ('a1 * 'a2) list -> 'a2

val pow_mod_pos : z -> positive -> z -> z

val zr_inv : z -> z -> z option

val zr_add : z -> z -> z -> z

val zr_sub : z -> z -> z -> z

val zr_mul : z -> z -> z -> z

val zr_share : z -> z -> z list -> z list -> z list

val zr_lagrange : z -> z list -> z -> z

val zr_reveal : z -> (z * z) list -> z

val zr_reveal_in_group : z -> (z * z) list -> z

val bls_r : n

val ed_l : n

val be_val : n list -> n

val le_val : n list -> n

val to_be : nat -> n -> n list

val scalar_encode : n -> n list

val scalar_decode : n -> n list -> n option

val to_le : nat -> n -> n list

val scalar_encode_le : n -> n list

val scalar_decode_le : n -> n list -> n option

val sfb_limb : n list -> nat -> n

val sfb_limbs : nat -> n -> n list -> n list

val limbs_val_N : n list -> n

val scalar_from_bytes : n -> nat -> n -> n list -> n option

val bls_scalar_from_bytes : n list -> n option

val ed_scalar_from_bytes : n list -> n option

val pad32 : n list -> n list

val keygen_round : n list -> n option

val hARDENED_OFFSET : n

val harden : n -> n

val checked_harden : n -> n option

type net =
| Mainnet
| Testnet

val net_code : net -> n

val harden_all : n list -> n list option

val make_path : net -> n list -> n list option

val make_verifiable_credential_path : net -> n list -> n list option

val split_u64_into_chunks : n -> n list

type key_kind =
| AccountSigningKey of n * n * n
| IdCredSec of n * n
| PrfKey of n * n
| BlindingRandomness of n * n
| AttributeCommitmentRandomness of n * n * n * n
| VerifiableCredentialSigningKey of n * n * n
| VerifiableCredentialBackupEncryptionKey

val path_of : net -> key_kind -> n list option
