
val negb : bool -> bool

type nat =
| O
| S of nat

val option_map : ('a1 -> 'a2) -> 'a1 option -> 'a2 option

val fst : ('a1 * 'a2) -> 'a1

val snd : ('a1 * 'a2) -> 'a2

val length : 'a1 list -> nat

val app : 'a1 list -> 'a1 list -> 'a1 list

type comparison =
| Eq
| Lt
| Gt

val sub : nat -> nat -> nat

val leb : nat -> nat -> bool

type positive =
| XI of positive
| XO of positive
| XH

type n =
| N0
| Npos of positive

module Pos :
 sig
  type mask =
  | IsNul
  | IsPos of positive
  | IsNeg
 end

module Coq_Pos :
 sig
  val succ : positive -> positive

  val add : positive -> positive -> positive

  val add_carry : positive -> positive -> positive

  val pred_double : positive -> positive

  type mask = Pos.mask =
  | IsNul
  | IsPos of positive
  | IsNeg

  val succ_double_mask : mask -> mask

  val double_mask : mask -> mask

  val double_pred_mask : positive -> mask

  val sub_mask : positive -> positive -> mask

  val sub_mask_carry : positive -> positive -> mask

  val mul : positive -> positive -> positive

  val compare_cont : comparison -> positive -> positive -> comparison

  val compare : positive -> positive -> comparison

  val eqb : positive -> positive -> bool

  val of_succ_nat : nat -> positive
 end

module N :
 sig
  val succ_double : n -> n

  val double : n -> n

  val add : n -> n -> n

  val sub : n -> n -> n

  val mul : n -> n -> n

  val compare : n -> n -> comparison

  val eqb : n -> n -> bool

  val leb : n -> n -> bool

  val ltb : n -> n -> bool

  val pos_div_eucl : positive -> n -> n * n

  val div_eucl : n -> n -> n * n

  val div : n -> n -> n

  val modulo : n -> n -> n

  val of_nat : nat -> n
 end

val nth_error : 'a1 list -> nat -> 'a1 option

val map : ('a1 -> 'a2) -> 'a1 list -> 'a2 list

val flat_map : ('a1 -> 'a2 list) -> 'a1 list -> 'a2 list

val fold_left : ('a1 -> 'a2 -> 'a1) -> 'a2 list -> 'a1 -> 'a1

val existsb : ('a1 -> bool) -> 'a1 list -> bool

val forallb : ('a1 -> bool) -> 'a1 list -> bool

val filter : ('a1 -> bool) -> 'a1 list -> 'a1 list

val skipn : nat -> 'a1 list -> 'a1 list

val nib : n list -> n list

val unnib : n list -> n list

val list_eqb : n list -> n list -> bool

val is_prefix : n list -> n list -> bool

val lex_ltb : n list -> n list -> bool

type follow =
| FEqual
| FKeyIsPrefix of n * n list
| FStemIsPrefix of n * n list
| FDiff of n list * n * n list * n * n list

val follow_stem : n list -> n list -> follow

type 'v tree =
| Node of n list * 'v option * 'v forest
and 'v forest =
| FNil
| FCons of n * 'v tree * 'v forest

val flen : 'a1 forest -> nat

val lookup : n list -> 'a1 tree -> 'a1 option

val insert : n list -> 'a1 -> 'a1 tree -> 'a1 tree

val lookup_root : n list -> 'a1 tree option -> 'a1 option

val insert_root : n list -> 'a1 -> 'a1 tree option -> 'a1 tree

val collapse : n list -> 'a1 option -> 'a1 forest -> 'a1 tree option

val delete : n list -> 'a1 tree -> 'a1 tree option

val delete_prefix : n list -> 'a1 tree -> 'a1 tree option

val has_prefix : n list -> 'a1 tree -> bool

val pre : n list -> (n list * 'a1) -> n list * 'a1

val to_list : 'a1 tree -> (n list * 'a1) list

val to_list_root : 'a1 tree option -> (n list * 'a1) list

val iterate : n list -> 'a1 tree -> (n list * 'a1) list

val iterate_root : n list -> 'a1 tree option -> (n list * 'a1) list

val all_gt : n -> 'a1 forest -> bool

val sorted_f : 'a1 forest -> bool

val wfb : 'a1 tree -> bool

val wfb_root : 'a1 tree option -> bool

type 'v amap = (n list * 'v) list

val a_lookup : n list -> 'a1 amap -> 'a1 option

val a_insert : n list -> 'a1 -> 'a1 amap -> 'a1 amap

val a_delete : n list -> 'a1 amap -> 'a1 amap

val a_delete_prefix : n list -> 'a1 amap -> 'a1 amap

val a_iterate : n list -> 'a1 amap -> 'a1 amap

type pnode =
| PNode of n * pforest
and pforest =
| PNil
| PCons of n * pnode * pforest

type pmap = pnode option

val mAXC : n

val pn_fresh : n list -> pnode

val pn_insert : n list -> pnode -> pnode option

val pf_insert : n -> n list -> pforest -> pforest option

val pm_insert : n list -> pmap -> pmap option

val pn_mk : n -> pforest -> pnode option

val pn_delete : n list -> pnode -> pnode option * bool

val pf_delete : n -> n list -> pforest -> pforest * bool

val pm_delete : n list -> pmap -> pmap * bool

val pn_no_prefix : n list -> pnode -> bool

val pf_no_prefix : n -> n list -> pforest -> bool

val pm_no_prefix : n list -> pmap -> bool

val pn_iohp : n list -> pnode -> bool

val pf_iohp : n -> n list -> pforest -> bool

val pm_iohp : n list -> pmap -> bool

val pn_set : n list -> n -> pnode -> pnode

val pf_set : n -> n list -> n -> pforest -> pforest

val pm_set : n list -> n -> pmap -> pmap

val pn_count : n list -> pnode -> n

val pf_count : n -> n list -> pforest -> n

val pm_count : n list -> pmap -> n

val pn_dump : pnode -> (n list * n) list

val pf_dump : pforest -> (n list * n) list

val pm_dump : pmap -> (n list * n) list

val psorted : pforest -> bool

val pn_wf : pnode -> bool

val pf_wf : pforest -> bool

val pm_wf : pmap -> bool

type value = n list

type op =
| OInsert of n list * value
| OGet of n list
| ORead of nat
| OSet of nat * value
| OMut of nat * value
| ODelete of n list
| ODeletePrefix of n list
| OIter of n list
| ONext of nat
| ODelIter of nat
| ONewGen
| ONormalize of nat
| OFreeze
| OThaw

type out =
| RSkip
| RLocked
| RTooMany
| RNone
| RBool of bool
| RHandle of nat * bool
| RFound of nat * value option
| RVal of value option
| RIter of nat
| RNext of n list * nat * value option
| RGens of nat
| RDump of (n list * value option) list

val set_nth : nat -> 'a1 -> 'a1 list -> 'a1 list

val ent_get : value option list -> nat -> value option

val kill : value option list -> nat list -> value option list

type gen = { g_root : nat tree option; g_ents : value option list;
             g_locks : pmap; g_handles : nat list;
             g_iters : (n list * n list option) option list }

type state = gen list

val empty_gen : gen

val m_init : state

val with_handle : gen -> nat -> gen

val with_ents : gen -> value option list -> gen

val with_root : gen -> nat tree option -> gen

val with_locks_iters :
  gen -> pmap -> (n list * n list option) option list -> gen

val m_insert : n list -> value -> gen -> gen * out

val m_get : n list -> gen -> gen * out

val m_read : nat -> gen -> gen * out

val m_set : nat -> value -> gen -> gen * out

val m_mut : nat -> value -> gen -> gen * out

val m_delete : n list -> gen -> gen * out

val m_delete_prefix : n list -> gen -> gen * out

val m_iter : n list -> gen -> gen * out

val after : n list option -> (n list * 'a1) list -> (n list * 'a1) list

val m_next : nat -> gen -> gen * out

val m_deliter : nat -> gen -> gen * out

val m_dump : gen -> (n list * value option) list

val on_cur : (gen -> gen * out) -> state -> state * out

val normalize : nat -> 'a1 list -> 'a1 list

val m_step : op -> state -> state * out

type sgen = { s_map : nat amap; s_ents : value option list;
              s_handles : nat list;
              s_iters : (n list * n list list) option list }

type sstate = sgen list

val empty_sgen : sgen

val s_init : sstate

val live_roots : (n list * 'a1) option list -> n list list

val s_locked : n list -> sgen -> bool

val s_locked2 : n list -> sgen -> bool

val s_count : n list -> sgen -> n

val s_with_handle : sgen -> nat -> sgen

val s_with_ents : sgen -> value option list -> sgen

val s_with_map : sgen -> nat amap -> sgen

val s_with_iters : sgen -> (n list * n list list) option list -> sgen

val s_insert : n list -> value -> sgen -> sgen * out

val s_get : n list -> sgen -> sgen * out

val s_read : nat -> sgen -> sgen * out

val s_set : nat -> value -> sgen -> sgen * out

val s_mut : nat -> value -> sgen -> sgen * out

val s_delete : n list -> sgen -> sgen * out

val s_delete_prefix : n list -> sgen -> sgen * out

val s_iter : n list -> sgen -> sgen * out

val s_next : nat -> sgen -> sgen * out

val s_deliter : nat -> sgen -> sgen * out

val s_dump : sgen -> (n list * value option) list

val s_on_cur : (sgen -> sgen * out) -> sstate -> sstate * out

val s_step : op -> sstate -> sstate * out

val m_wf : state -> bool
