(** C14 - facts about the generated cost functions (Gen/HostCosts.v, translated on every run from
    wasm-chain-integration/src/constants.rs): the N-valued translation coincides with the u64
    computation for u32 arguments (no overflow), the functions are monotone and bounded below by
    their base cost, and the limits have the documented values. *)
From Coq Require Import NArith Lia.
From CB Require Import Gen.HostCosts.
Local Open Scope N_scope.

Definition W32c : N := 4294967296.
Definition W64c : N := 18446744073709551616.

Lemma div_le_self : forall x d, d <> 0 -> x / d <= x.
Proof. intros. apply N.div_le_upper_bound; [assumption|]. nia. Qed.

Ltac costs := cbv beta zeta delta [copy_from_host_cost copy_to_host_cost copy_parameter_cost additional_state_size_cost
  log_event_cost action_send_cost traverse_key_cost lookup_entry_cost delete_prefix_find_cost
  new_iterator_cost delete_iterator_cost delete_entry_cost additional_entry_size_cost read_entry_cost
  write_entry_cost write_output_cost additional_output_size_cost verify_ed25519_cost hash_sha2_256_cost
  hash_sha3_256_cost hash_keccak_256_cost LOG_EVENT_BASE_COST BASE_SEND_ACTION_COST BASE_ACTION_COST
  BASE_STATE_COST W32c W64c] in *.

(** *** the documented limits *)
Lemma limits_documented :
  MAX_CONTRACT_STATE = 16384 /\ MAX_LOG_SIZE = 512 /\ MAX_NUM_LOGS = 64 /\ MAX_ACTIVATION_FRAMES = 1024
  /\ MAX_ENTRY_SIZE = 1073741824 /\ MAX_KEY_SIZE = 1073741824 /\ MAX_ENTRY_SIZE < 4294967295 /\ MAX_KEY_SIZE < 4294967295.
Proof. repeat split; reflexivity. Qed.

(** *** no u64 overflow for u32 arguments (so computing in N is computing in u64) *)
Definition fits64 (f : N -> N) : Prop := forall x, x < W32c -> f x < W64c.

Lemma costs_no_overflow :
  fits64 copy_from_host_cost /\ fits64 copy_to_host_cost /\ fits64 copy_parameter_cost /\ fits64 log_event_cost
  /\ fits64 action_send_cost /\ fits64 traverse_key_cost /\ fits64 lookup_entry_cost /\ fits64 delete_prefix_find_cost
  /\ fits64 new_iterator_cost /\ fits64 delete_iterator_cost /\ fits64 delete_entry_cost /\ fits64 read_entry_cost
  /\ fits64 write_entry_cost /\ fits64 write_output_cost /\ fits64 verify_ed25519_cost /\ fits64 hash_sha2_256_cost
  /\ fits64 hash_sha3_256_cost /\ fits64 hash_keccak_256_cost.
Proof.
  unfold fits64. repeat split; intros x Hx; costs;
    try (destruct (x <=? 1024)); try (pose proof (div_le_self x 8 ltac:(discriminate))); lia.
Qed.

(** the u64-argument functions: no overflow up to the sizes the engine passes (< 2^57) *)
Lemma costs64_no_overflow : forall x, x < 144115188075855872 ->
  additional_state_size_cost x < W64c /\ additional_entry_size_cost x < W64c /\ additional_output_size_cost x < W64c.
Proof. intros x Hx. costs. pose proof (div_le_self x 100 ltac:(discriminate)). repeat split; lia. Qed.

Lemma create_entry_cost_no_overflow : forall x, x < W32c -> create_entry_cost x <= 18446744073709551615.
Proof.
  intros x Hx. unfold create_entry_cost, copy_from_host_cost, W32c in *.
  destruct (x <=? 64) eqn:E.
  - apply N.leb_le in E. lia.
  - cbv zeta. destruct (100 * (x * x) <? 18446744073709551616) eqn:E2; [|lia].
    apply N.ltb_lt in E2.
    assert (100 * (x * x) / 64 <= 288230376151711744) by (apply N.div_le_upper_bound; [discriminate | lia]). lia.
Qed.
(** the intermediate `len * len` of create_entry_cost cannot overflow either *)
Lemma create_entry_square_fits : forall x, x < W32c -> x * x < W64c.
Proof. intros x Hx. unfold W32c, W64c in *. nia. Qed.

(** *** monotonicity: charging for a longer length never costs less *)
Definition mono (f : N -> N) : Prop := forall x y, x <= y -> f x <= f y.

Lemma costs_monotone :
  mono copy_from_host_cost /\ mono copy_to_host_cost /\ mono copy_parameter_cost /\ mono additional_state_size_cost
  /\ mono log_event_cost /\ mono action_send_cost /\ mono traverse_key_cost /\ mono lookup_entry_cost
  /\ mono delete_prefix_find_cost /\ mono new_iterator_cost /\ mono delete_iterator_cost /\ mono delete_entry_cost
  /\ mono additional_entry_size_cost /\ mono read_entry_cost /\ mono write_entry_cost /\ mono write_output_cost
  /\ mono additional_output_size_cost /\ mono verify_ed25519_cost /\ mono hash_sha2_256_cost
  /\ mono hash_sha3_256_cost /\ mono hash_keccak_256_cost.
Proof.
  unfold mono. repeat split; intros x y Hxy; costs;
    try (destruct (N.leb_spec x 1024); destruct (N.leb_spec y 1024));
    try (pose proof (N.div_le_mono x y 100 ltac:(discriminate) Hxy));
    try (pose proof (N.div_le_mono x y 8 ltac:(discriminate) Hxy)); lia.
Qed.

(** create_entry_cost: linear up to 64, quadratic above, saturating at u64::MAX when
    100 * len^2 overflows; monotone over all of N *)
Lemma create_entry_cost_monotone : mono create_entry_cost.
Proof.
  unfold mono. intros x y Hxy. unfold create_entry_cost, copy_from_host_cost. cbv zeta.
  destruct (N.leb_spec x 64) as [Hx|Hx]; destruct (N.leb_spec y 64) as [Hy|Hy]; try lia.
  - (* x <= 64 < y *)
    destruct (N.ltb_spec (100 * (y * y)) 18446744073709551616) as [E|E]; [|lia].
    assert (100 * x <= 100 * (y * y) / 64); [|lia].
    apply N.div_le_lower_bound; [discriminate|]. nia.
  - destruct (N.ltb_spec (100 * (x * x)) 18446744073709551616) as [Ex|Ex];
      destruct (N.ltb_spec (100 * (y * y)) 18446744073709551616) as [Ey|Ey].
    + assert (100 * (x * x) / 64 <= 100 * (y * y) / 64) by (apply N.div_le_mono; [discriminate | nia]). lia.
    + assert (100 * (x * x) / 64 <= 288230376151711744) by (apply N.div_le_upper_bound; [discriminate | lia]).
      assert (x < 4294967296) by nia. lia.
    + exfalso. nia.
    + lia.
Qed.

(** *** positivity / base costs: every length-dependent charge is at least linear in the length *)
Lemma costs_lower_bounds : forall x, x < W32c ->
  x <= copy_from_host_cost x /\ x <= copy_to_host_cost x /\ x <= copy_parameter_cost x /\ 1000 * x <= log_event_cost x
  /\ 1000 * x <= action_send_cost x /\ x <= write_output_cost x /\ 100 * x <= new_iterator_cost x
  /\ 5 * x <= hash_sha3_256_cost x /\ 5 * x <= hash_keccak_256_cost x /\ 7 * x <= hash_sha2_256_cost x
  /\ 100 * x <= verify_ed25519_cost x /\ 100 * x <= additional_entry_size_cost x /\ 30 * x <= additional_output_size_cost x
  /\ 16 * x <= lookup_entry_cost x /\ 16 * x <= delete_entry_cost x /\ 100 * x <= create_entry_cost x.
Proof.
  intros x Hx. repeat split; costs;
    try (match goal with |- context [x <=? 1024] => destruct (x <=? 1024) end); try lia.
  unfold create_entry_cost, copy_from_host_cost. destruct (N.leb_spec x 64); [lia|].
  cbv zeta. destruct (100 * (x * x) <? 18446744073709551616) eqn:E2.
  - apply N.ltb_lt in E2.
    assert (100 * x <= 100 * (x * x) / 64); [|lia].
    apply N.div_le_lower_bound; [discriminate|]. nia.
  - unfold W32c in Hx. lia.
Qed.
Lemma base_costs_positive :
  0 < BASE_ACTION_COST /\ 0 < INVOKE_BASE_COST /\ 0 < LOG_EVENT_BASE_COST /\ 0 < ITERATOR_NEXT_COST
  /\ 0 < ENTRY_SIZE_COST /\ 0 < RESIZE_ENTRY_BASE_COST /\ 0 < VERIFY_ECDSA_SECP256K1_COST /\ 0 < MEMORY_COST_FACTOR.
Proof. repeat split; reflexivity. Qed.
