(** * Contract/V1Classify — outcome classification of the v1 engine and the host component of the
    interruptible machine
    (smart-contracts/wasm-chain-integration/src/v1/mod.rs: [process_receive_result] 2021-2109,
    the tail of [invoke_init] 1716-1765, [reason_from_wasm_error_code] 2338-2350,
    [From<InvalidReturnCodeError> for ReceiveResult] 67-77, [Interrupt::should_clear_logs] 127-140;
    v0/mod.rs [host::track_call] / [track_return] 833-845; lib.rs [InterpreterEnergy::tick_energy]).

    Part 1  [process_receive_result] / [process_init_result]: (machine result, what is left in the host)
            -> [ReceiveResult] / [InitResult], with the [Err(InvalidReturnCodeError)] path and its
            conversion to [Trap { remaining_energy: 0 }] ([finalise]).
    Part 2  the machine of [Wasm/Resume.v] with the host component the machine itself drives:
            remaining energy ([tick_energy]) and [activation_frames] ([track_call] / [track_return],
            [MAX_ACTIVATION_FRAMES]).  It is an instance of the GENERIC interruptible machine of
            [Wasm/Resume.v] (state = machine state x host component), so [drive_eq_direct] applies.
            Host functions see the component, charge energy ([A] = memory effect x cost) and act on a
            world record (all logs produced, return value, state-changed flag, how the last failing host
            function failed, anything else).
    Part 3  the engine's loop: [e_drive] = [invoke_receive], then [resume_receive] after every
            [Interrupt], classifying every [run_config] result with [process_receive_result]; the
            host's [logs] field is the suffix of the world's logs that has not been handed out.
    Part 4  section-level scenario, the oracle of the end-to-end check (harness/c13/src/classify.rs).

    Definitions only (proofs: [Contract/V1ClassifyProofs.v]); everything is executable. *)
From Coq Require Import ZArith NArith List Bool FMapPositive.
From CB Require Import Common.IntN Wasm.Syntax Wasm.Sem Wasm.Compile Wasm.Machine Wasm.Resume Contract.V1Resume.
Import ListNotations.
Local Open Scope Z_scope.

(** ** Part 1: classification *)
Definition logs_t := list (list N).

(** [Interrupt] (v1/mod.rs 86-115) *)
Inductive interrupt_kind :=
| ITransfer | ICall | IUpgrade | IQueryAccountBalance | IQueryContractBalance | IQueryExchangeRates
| ICheckAccountSignature | IQueryAccountKeys | IQueryContractModuleReference | IQueryContractName.

Definition should_clear_logs (i : interrupt_kind) : bool :=
  match i with ITransfer | ICall | IUpgrade => true | _ => false end.

(** [machine::RunResult<ExecutionOutcome<Interrupt>>]: [Ok(Success{result})], [Ok(Interrupted{reason})],
    [Err(e)] with [e.downcast_ref::<OutOfEnergy>().is_some()] *)
Inductive machine_result :=
| MSuccess (result : option val)
| MInterrupted (reason : interrupt_kind)
| MErr (out_of_energy : bool).

(** what [process_receive_result] reads from the host *)
Record host_view := {
  hv_energy : N;                 (* host.energy *)
  hv_logs : logs_t;              (* host.stateless.logs *)
  hv_retval : list N;            (* host.stateless.return_value *)
  hv_changed : bool              (* host.state.changed *)
}.

(** [ReceiveResult] without the trace and the opaque [config]; [RRInterrupt] also shows the logs that
    stay in the saved host *)
Inductive receive_result :=
| RRSuccess (logs : logs_t) (state_changed : bool) (retval : list N) (remaining : N)
| RRInterrupt (remaining : N) (state_changed : bool) (logs : logs_t) (reason : interrupt_kind) (kept_logs : logs_t)
| RRReject (reason : Z) (retval : list N) (remaining : N)
| RRTrap (remaining : N)
| RROutOfEnergy.

(** [n : i32] of a [Value::I32]; the machine model keeps the unsigned representative *)
Definition i32_signed (z : Z) : Z := let u := z mod 4294967296 in if u <? 2147483648 then u else u - 4294967296.

(** [reason_from_wasm_error_code]: [inl v] = [Err(InvalidReturnCodeError { value: Some(v) })] *)
Definition reason_from_wasm_error_code (n : Z) : sum (option Z) Z :=
  if n <? 0 then inr n else inl (Some n).

(** [inl v] = [Err(InvalidReturnCodeError { value: v })] *)
Definition process_receive_result (h : host_view) (r : machine_result) : sum (option Z) receive_result :=
  match r with
  | MSuccess (Some (VI32 z)) =>
      let n := i32_signed z in
      if 0 <=? n then inr (RRSuccess (hv_logs h) (hv_changed h) (hv_retval h) (hv_energy h))
      else match reason_from_wasm_error_code n with
           | inr reason => inr (RRReject reason (hv_retval h) (hv_energy h))
           | inl v => inl v
           end
  | MSuccess _ => inl None
  | MInterrupted reason =>
      let clear := should_clear_logs reason in
      inr (RRInterrupt (hv_energy h) (hv_changed h) (if clear then hv_logs h else []) reason
                       (if clear then [] else hv_logs h))
  | MErr true => inr RROutOfEnergy
  | MErr false => inr (RRTrap (hv_energy h))
  end.

(** [impl From<InvalidReturnCodeError> for ReceiveResult]: a protocol violation consumes all energy *)
Definition finalise (x : sum (option Z) receive_result) : receive_result :=
  match x with inr r => r | inl _ => RRTrap 0%N end.

(** [InitResult]; the init host cannot be interrupted ([NoInterrupt]) *)
Inductive init_result :=
| IRSuccess (logs : logs_t) (retval : list N) (remaining : N)
| IRReject (reason : Z) (retval : list N) (remaining : N)
| IRTrap (remaining : N)
| IROutOfEnergy.

(** the tail of [invoke_init]: [0] is success, positive codes are a protocol violation *)
Definition process_init_result (h : host_view) (r : machine_result) : sum (option Z) init_result :=
  match r with
  | MSuccess (Some (VI32 z)) =>
      let n := i32_signed z in
      if n =? 0 then inr (IRSuccess (hv_logs h) (hv_retval h) (hv_energy h))
      else match reason_from_wasm_error_code n with
           | inr reason => inr (IRReject reason (hv_retval h) (hv_energy h))
           | inl v => inl v
           end
  | MSuccess _ => inl None
  | MInterrupted _ => inl None        (* [match reason {}]: unreachable, [NoInterrupt] is empty *)
  | MErr true => inr IROutOfEnergy
  | MErr false => inr (IRTrap (hv_energy h))
  end.
(** ([invoke_init] returns the [Err] to its caller - the FFI answers with a null pointer; there is no
    [From<InvalidReturnCodeError> for InitResult]) *)

(** the variant, as the check compares it *)
Inductive variant := VSuccess | VInterrupt | VReject | VTrap | VOutOfEnergy.
Definition variant_of (r : receive_result) : variant :=
  match r with RRSuccess _ _ _ _ => VSuccess | RRInterrupt _ _ _ _ _ => VInterrupt | RRReject _ _ _ => VReject
             | RRTrap _ => VTrap | RROutOfEnergy => VOutOfEnergy end.
Definition logs_of (r : receive_result) : logs_t :=
  match r with RRSuccess l _ _ _ => l | RRInterrupt _ _ l _ _ => l | _ => [] end.
Definition changed_of (r : receive_result) : bool :=
  match r with RRSuccess _ c _ _ => c | RRInterrupt _ c _ _ _ => c | _ => false end.
(** the result without what is reported PER SECTION (the logs handed out with it and the state-changed
    flag, which [InstanceState::migrate] resets at every resume) *)
Definition strip_logs (r : receive_result) : receive_result :=
  match r with
  | RRSuccess _ _ v e => RRSuccess [] false v e
  | RRInterrupt e _ _ k _ => RRInterrupt e false [] k []
  | x => x
  end.

(** ** Part 2: the machine with its host component *)
Record hostc := { hc_energy : N; hc_frames : N }.

(** [InterpreterEnergy::tick_energy] *)
Definition tick (h : hostc) (d : N) : option hostc :=
  if (hc_energy h <? d)%N then None else Some {| hc_energy := (hc_energy h - d)%N; hc_frames := hc_frames h |}.
(** [host::track_call]: [checked_sub(1)], else "Too many nested functions." *)
Definition track_call (h : hostc) : option hostc :=
  if (hc_frames h =? 0)%N then None else Some {| hc_energy := hc_energy h; hc_frames := (hc_frames h - 1)%N |}.
Definition track_return (h : hostc) : hostc := {| hc_energy := hc_energy h; hc_frames := (hc_frames h + 1)%N |}.

Inductive htrap := HTOutOfEnergy | HTTooManyFrames | HTMachine (r : trap_reason).

(** the notifications the interpreter sends to the host during the step [st -> s']: [tick_energy] with
    the argument of a [TickEnergy] instruction, [track_call] when a frame was pushed (calls of local
    functions, direct and indirect), [track_return] when one was popped *)
Definition account (st s' : mstate) (h : hostc) : sum htrap hostc :=
  match tick h (ms_energy s' - ms_energy st)%N with
  | None => inl HTOutOfEnergy
  | Some h1 =>
      if (length (ms_frames st) <? length (ms_frames s'))%nat then
        match track_call h1 with None => inl HTTooManyFrames | Some h2 => inr h2 end
      else if (length (ms_frames s') <? length (ms_frames st))%nat then inr (track_return h1)
      else inr h1
  end.

Definition tstate := (mstate * hostc)%type.
Definition tout := (sum htrap mstate * hostc)%type.
Definition tquery := (hquery * hostc)%type.          (* a host function sees the energy that is left *)
Definition teffect := (heffect * N)%type.            (* memory written during the call, energy charged *)
Definition tconfig := (run_config_rec * (N * N))%type.
(** the struct literal at the interrupt + what [process_receive_result] hands out ([remaining_energy])
    and keeps ([SavedHost.stateless.activation_frames]) *)
Definition tsave (h : hostc) : N * N := (hc_energy h, hc_frames h).
(** [resume_receive]: [energy] comes back as an argument, the activation frames from the saved host *)
Definition trestore (x : N * N) : hostc := {| hc_energy := fst x; hc_frames := snd x |}.

Definition tapply (s : tstate) (a : teffect) : tstate :=
  (apply_effect (fst s) (fst a), {| hc_energy := (hc_energy (snd s) - snd a)%N; hc_frames := hc_frames (snd s) |}).
Definition tdirect (s : tstate) (l : option Z) (r : hresponse) : tstate := (direct_answer (fst s) l r, snd s).
Definition tcapture (s : tstate) (l : option Z) : tconfig := (capture (fst s) l, tsave (snd s)).
Definition tresume (k : tconfig) (l : option Z) (r : hresponse) : tstate := (resume_with (fst k) l r, trestore (snd k)).

Section Tracked.
Variable art : artifact.
Let codes := decode_codes art.

Definition tstep (s : tstate) : gres tstate tquery (option Z) tout :=
  let (st, h) := s in
  match istep art codes st with
  | GNext s' => match account st s' h with
                | inl t => GHalt (inl t, h)
                | inr h' => GNext (s', h')
                end
  | GHalt (inr s') => GHalt (inr s', track_return h)       (* [Return] of the entrypoint *)
  | GHalt (inl r) => GHalt (inl (HTMachine r), h)
  | GCall q s' l => GCall (q, h) (s', h) l
  end.
Definition tev (s : tstate) : list N := tick_of art codes (fst s).

(** the world of the host functions *)
Record world (X : Type) := {
  w_logs : logs_t;                  (* every log produced so far *)
  w_retval : list N;
  w_changes : nat;                  (* number of state-changing host calls so far *)
  w_fail : option N;                (* how the last failing host function failed: [None] out of energy,
                                       [Some e] another error with [e] energy left *)
  w_x : X
}.
Arguments w_logs {X}. Arguments w_retval {X}. Arguments w_changes {X}. Arguments w_fail {X}. Arguments w_x {X}.

(** a host function: sees its private state, the index of the call, the query and the energy left *)
Inductive hanswer :=
| HOk (cost : N) (eff : heffect) (resp : hresponse) (new_logs : logs_t) (retval : option (list N)) (changed : bool)
| HFail (energy_left : option N).
Variable X : Type.
Variable hfun : X -> nat -> hquery -> N -> X * hanswer.

Definition thcall (w : world X) (n : nat) (q : tquery) : world X * option (teffect * hresponse) :=
  let (x', ans) := hfun (w_x w) n (fst q) (hc_energy (snd q)) in
  match ans with
  | HOk cost eff resp new_logs rv chg =>
      if (hc_energy (snd q) <? cost)%N then
        ({| w_logs := w_logs w; w_retval := w_retval w; w_changes := w_changes w; w_fail := None; w_x := x' |}, None)
      else
        ({| w_logs := w_logs w ++ new_logs; w_retval := match rv with Some v => v | None => w_retval w end;
            w_changes := (w_changes w + (if chg then 1 else 0))%nat; w_fail := w_fail w; w_x := x' |}, Some ((eff, cost), resp))
  | HFail e =>
      ({| w_logs := w_logs w; w_retval := w_retval w; w_changes := w_changes w; w_fail := e; w_x := x' |}, None)
  end.

Definition t_run_direct (fuel : nat) (w : world X) (n : nat) (tr : list N) (s : tstate) :=
  run_direct _ _ _ _ _ _ _ _ tstep tev tapply tdirect thcall fuel w n tr s.
Definition t_run_config (choose : nat -> tquery -> bool) (fuel : nat) (w : world X) (n : nat) (tr : list N) (s : tstate) :=
  run_config _ _ _ _ _ _ _ _ _ tstep tev tapply tdirect tcapture thcall choose fuel w n tr s.
Definition t_drive (choose : nat -> tquery -> bool) (rounds fuel : nat) (w : world X) (n : nat) (tr : list N) (s : tstate) :=
  drive _ _ _ _ _ _ _ _ _ tstep tev tapply tdirect tcapture tresume thcall choose rounds fuel w n tr s.

(** ** Part 3: the engine's loop *)
Variable entry : nat.
(** which [Interrupt] a host call raises *)
Variable kind_of : hquery -> interrupt_kind.

(** the host as [process_receive_result] finds it: [logs] are the logs not handed out yet,
    [state.changed] says whether the state was changed since the last resume ([InstanceState::migrate]
    builds the state with [changed: false]) *)
Definition view (handed mark : nat) (w : world X) (energy : N) : host_view :=
  {| hv_energy := energy; hv_logs := skipn handed (w_logs w); hv_retval := w_retval w;
     hv_changed := (mark <? w_changes w)%nat |}.

(** the [RunResult] of a finished [run] / [run_config] and the energy left in the host *)
Definition machine_result_of (res : gresult tout (world X) N) : option (machine_result * N) :=
  match r_out res with
  | OHalt (inr st, h) =>
      match finish art entry (OHalt (inr st)) with
      | MDone r _ _ _ => Some (MSuccess r, hc_energy h)
      | _ => None
      end
  | OHalt (inl HTOutOfEnergy, h) => Some (MErr true, 0%N)
  | OHalt (inl _, h) => Some (MErr false, hc_energy h)
  | OHostFail => match w_fail (r_host res) with
                 | None => Some (MErr true, 0%N)
                 | Some e => Some (MErr false, e)
                 end
  | OOutOfFuel => None                (* artefact of the fuel; no result *)
  end.

Definition classify_final (handed mark : nat) (res : gresult tout (world X) N) : option receive_result :=
  match machine_result_of res with
  | Some (m, e) => Some (finalise (process_receive_result (view handed mark (r_host res) e) m))
  | None => None
  end.

(** [invoke_receive], then [resume_receive] after every [Interrupt] (the embedder hands back exactly the
    energy it was given); returns every [ReceiveResult] in order.  [handed] = number of logs already
    handed out, [mark] = number of state changes before the last resume. *)
Fixpoint e_drive (choose : nat -> tquery -> bool) (rounds fuel : nat) (w : world X) (n : nat) (tr : list N)
         (s : tstate) (handed mark : nat) (acc : list receive_result) : option (list receive_result) :=
  match t_run_config choose fuel w n tr s with
  | RCDone _ _ _ _ _ _ _ res => match classify_final handed mark res with Some r => Some (acc ++ [r]) | None => None end
  | RCInterrupted _ _ _ _ _ _ _ q l r k w' n' tr' f' =>
      let rr := finalise (process_receive_result (view handed mark w' (fst (snd k))) (MInterrupted (kind_of (fst q)))) in
      match rounds with
      | O => None
      | S rd => e_drive choose rd f' w' n' tr' (tresume k l r)
                        (if should_clear_logs (kind_of (fst q)) then length (w_logs w') else handed)
                        (w_changes w') (acc ++ [rr])
      end
  end.

(** the same execution with every host call answered in place *)
Definition e_direct (fuel : nat) (w : world X) (s : tstate) : option receive_result :=
  classify_final O O (t_run_direct fuel w O [] s).
End Tracked.

Arguments w_logs {X}. Arguments w_retval {X}. Arguments w_changes {X}. Arguments w_fail {X}. Arguments w_x {X}.

(** [invoke_receive]: a fresh host *)
Definition initial_hostc (energy : N) : hostc := {| hc_energy := energy; hc_frames := MAX_ACTIVATION_FRAMES |}.
Definition initial_world {X} (x : X) : world X :=
  {| w_logs := []; w_retval := []; w_changes := O; w_fail := None; w_x := x |}.

(** ** Part 4: section-level scenario (oracle of harness/c13/src/classify.rs)
    A contract is a sequence of sections; a section costs [cs_cost] (measured on the implementation with
    an ample budget), produces logs and output and ends in an [invoke] (interrupt), a return code, a trap
    or never (loop).  [cut] = the energy the embedder keeps for itself before resuming.  The logs kept
    in the saved host are carried over, the state-changed flag is not ([migrate]). *)
Inductive cend := CEInterrupt (k : interrupt_kind) (cut : N) | CEReturn (code : Z) | CETrap | CELoop.
Record csection := { cs_cost : N; cs_logs : logs_t; cs_out : list N; cs_changed : bool; cs_end : cend }.

Fixpoint classify_sections (secs : list csection) (energy : N) (logs : logs_t) (rv : list N) (chg : bool)
  : list receive_result :=
  match secs with
  | [] => []
  | s :: rest =>
      match cs_end s with
      | CELoop => [finalise (process_receive_result {| hv_energy := 0%N; hv_logs := logs; hv_retval := rv; hv_changed := chg |} (MErr true))]
      | e =>
          if (energy <? cs_cost s)%N then
            [finalise (process_receive_result {| hv_energy := 0%N; hv_logs := logs; hv_retval := rv; hv_changed := chg |} (MErr true))]
          else
            let h := {| hv_energy := (energy - cs_cost s)%N; hv_logs := logs ++ cs_logs s; hv_retval := rv ++ cs_out s;
                        hv_changed := chg || cs_changed s |} in
            match e with
            | CEInterrupt k cut =>
                let r := finalise (process_receive_result h (MInterrupted k)) in
                r :: classify_sections rest (hv_energy h - cut)%N
                       (match r with RRInterrupt _ _ _ _ kept => kept | _ => [] end) (hv_retval h) false
            | CEReturn code => [finalise (process_receive_result h (MSuccess (Some (VI32 code))))]
            | CETrap => [finalise (process_receive_result h (MErr false))]
            | CELoop => []
            end
      end
  end.
Definition classify_scenario (budget : N) (secs : list csection) : list receive_result :=
  classify_sections secs budget [] [] false.

(** the init counterpart: one section; [inl v] = [Err(InvalidReturnCodeError { value: v })] *)
Definition classify_init (budget : N) (s : csection) : sum (option Z) init_result :=
  let ooe := {| hv_energy := 0%N; hv_logs := []; hv_retval := []; hv_changed := false |} in
  match cs_end s with
  | CELoop => process_init_result ooe (MErr true)
  | e =>
      if (budget <? cs_cost s)%N then process_init_result ooe (MErr true)
      else
        let h := {| hv_energy := (budget - cs_cost s)%N; hv_logs := cs_logs s; hv_retval := cs_out s; hv_changed := false |} in
        match e with
        | CEReturn code => process_init_result h (MSuccess (Some (VI32 code)))
        | CETrap => process_init_result h (MErr false)
        | _ => process_init_result h (MSuccess None)
        end
  end.
