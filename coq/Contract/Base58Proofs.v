(** C16 - Base58 / Base58Check / hexadecimal forms: decoding inverts encoding and the
    account-address parser accepts exactly the printed strings. *)
From Coq Require Import NArith List Bool Lia.
From CB Require Import Contract.Base58.
Import ListNotations.
Local Open Scope N_scope.

Arguments N.add : simpl never.
Arguments N.sub : simpl never.
Arguments N.mul : simpl never.
Arguments N.eqb : simpl never.
Arguments N.ltb : simpl never.
Arguments N.leb : simpl never.
Arguments N.pow : simpl never.
Arguments N.div : simpl never.
Arguments N.modulo : simpl never.
Arguments N.log2 : simpl never.

Definition digits_lt (b : N) (l : list N) : Prop := Forall (fun d => d < b) l.
Definition val_lsb (b : N) (l : list N) : N := fold_right (fun d acc => d + b * acc) 0 l.

(** ** [radix_rev] *)
Lemma radix_rev_zero : forall f b, radix_rev f b 0 = [].
Proof. destruct f; reflexivity. Qed.

Lemma radix_rev_lt : forall f b n, 0 < b -> digits_lt b (radix_rev f b n).
Proof.
  induction f as [|f IH]; intros b n Hb; cbn; [constructor|].
  destruct (n =? 0); constructor; [apply N.mod_lt; lia | apply IH; exact Hb].
Qed.

Lemma half_le : forall b n, 2 <= b -> n / b <= n / 2.
Proof. intros b n Hb. apply N.div_le_compat_l. lia. Qed.

Lemma radix_rev_val : forall f b n, 2 <= b -> n < 2 ^ N.of_nat f -> val_lsb b (radix_rev f b n) = n.
Proof.
  induction f as [|f IH]; intros b n Hb Hn.
  - change (2 ^ N.of_nat 0) with 1 in Hn. assert (n = 0) by lia. subst. reflexivity.
  - rewrite Nat2N.inj_succ, N.pow_succ_r' in Hn. cbn [radix_rev].
    destruct (n =? 0) eqn:E; [apply N.eqb_eq in E; subst; reflexivity|].
    cbn [val_lsb fold_right]. fold (val_lsb b (radix_rev f b (n / b))).
    rewrite IH; [pose proof (N.div_mod n b ltac:(lia)); lia | exact Hb |].
    pose proof (half_le b n Hb). assert (n / 2 < 2 ^ N.of_nat f) by (apply N.div_lt_upper_bound; lia). lia.
Qed.

Lemma radix_rev_last : forall f b n, 2 <= b -> n <> 0 -> n < 2 ^ N.of_nat f -> last (radix_rev f b n) 0 <> 0.
Proof.
  induction f as [|f IH]; intros b n Hb Hn Hlt.
  - change (2 ^ N.of_nat 0) with 1 in Hlt. lia.
  - rewrite Nat2N.inj_succ, N.pow_succ_r' in Hlt. cbn [radix_rev].
    assert (n =? 0 = false) as -> by (apply N.eqb_neq; exact Hn).
    destruct (N.eq_dec (n / b) 0) as [Q|Q].
    + rewrite Q, radix_rev_zero. cbn [last].
      assert (n < b) by (apply N.div_small_iff in Q; lia). rewrite N.mod_small by assumption. exact Hn.
    + assert (L : n / b < 2 ^ N.of_nat f).
      { pose proof (half_le b n Hb). assert (n / 2 < 2 ^ N.of_nat f) by (apply N.div_lt_upper_bound; lia). lia. }
      specialize (IH b (n / b) Hb Q L).
      destruct (radix_rev f b (n / b)) eqn:R; [cbn in IH; congruence | exact IH].
Qed.

Lemma val_lsb_nonzero : forall b l, 1 <= b -> l <> [] -> last l 0 <> 0 -> val_lsb b l <> 0.
Proof.
  induction l as [|d l IH]; intros Hb NE HL; [congruence|].
  cbn [val_lsb fold_right]. fold (val_lsb b l). destruct l as [|e l'].
  - cbn in *. lia.
  - assert (val_lsb b (e :: l') <> 0) by (apply IH; [exact Hb | discriminate | exact HL]). nia.
Qed.

(** [radix_rev] recovers a digit list without leading (= last) zero *)
Lemma radix_rev_of_val : forall l f b, 2 <= b -> digits_lt b l -> (l = [] \/ last l 0 <> 0) ->
  val_lsb b l < 2 ^ N.of_nat f -> radix_rev f b (val_lsb b l) = l.
Proof.
  induction l as [|d l IH]; intros f b Hb HD HL Hlt.
  - apply radix_rev_zero.
  - inversion HD as [|? ? Hd HD']; subst.
    destruct HL as [HL|HL]; [discriminate|].
    assert (NZ : val_lsb b (d :: l) <> 0) by (apply val_lsb_nonzero; [lia | discriminate | exact HL]).
    cbn [val_lsb fold_right] in *. fold (val_lsb b l) in *.
    destruct f as [|f]; [change (2 ^ N.of_nat 0) with 1 in Hlt; lia|].
    rewrite Nat2N.inj_succ, N.pow_succ_r' in Hlt. cbn [radix_rev].
    assert (d + b * val_lsb b l =? 0 = false) as -> by (apply N.eqb_neq; exact NZ).
    assert (E1 : (d + b * val_lsb b l) mod b = d).
    { replace (d + b * val_lsb b l) with (d + val_lsb b l * b) by lia. rewrite N.mod_add by lia. apply N.mod_small; exact Hd. }
    assert (E2 : (d + b * val_lsb b l) / b = val_lsb b l).
    { replace (d + b * val_lsb b l) with (d + val_lsb b l * b) by lia. rewrite N.div_add by lia.
      rewrite (N.div_small d b Hd). lia. }
    rewrite E1, E2. f_equal. apply IH; [exact Hb | exact HD' | | nia].
    destruct l as [|e l']; [left; reflexivity | right; exact HL].
Qed.

(** ** [to_digits] / [of_digits] *)
Lemma of_digits_snoc : forall b ds d, of_digits b (ds ++ [d]) = of_digits b ds * b + d.
Proof. intros. unfold of_digits. rewrite fold_left_app. reflexivity. Qed.
Lemma of_digits_rev : forall b l, of_digits b (rev l) = val_lsb b l.
Proof.
  induction l as [|d l IH]; [reflexivity|].
  cbn [rev val_lsb fold_right]. fold (val_lsb b l). rewrite of_digits_snoc, IH. lia.
Qed.

Lemma log2_bound : forall n, n < 2 ^ N.of_nat (S (N.to_nat (N.log2 n))).
Proof.
  intros n. rewrite Nat2N.inj_succ, N2Nat.id. destruct (N.eq_dec n 0) as [->|H]; [reflexivity|].
  apply N.log2_spec. lia.
Qed.

Lemma to_digits_lt : forall b n, 0 < b -> digits_lt b (to_digits b n).
Proof. intros. unfold to_digits. apply Forall_rev. apply radix_rev_lt. assumption. Qed.
Lemma of_to_digits : forall b n, 2 <= b -> of_digits b (to_digits b n) = n.
Proof. intros b n Hb. unfold to_digits. rewrite of_digits_rev. apply radix_rev_val; [exact Hb | apply log2_bound]. Qed.
(** no leading zero *)
Lemma to_digits_head : forall b n, 2 <= b -> to_digits b n = [] \/ hd 0 (to_digits b n) <> 0.
Proof.
  intros b n Hb. unfold to_digits. destruct (N.eq_dec n 0) as [->|H].
  - left. rewrite radix_rev_zero. reflexivity.
  - right. pose proof (radix_rev_last _ b n Hb H (log2_bound n)) as L.
    set (l := radix_rev (S (N.to_nat (N.log2 n))) b n) in *. clearbody l.
    destruct l as [|x l] using rev_ind; [cbn in L; congruence|].
    rewrite last_last in L. rewrite rev_app_distr. cbn. exact L.
Qed.
Lemma to_of_digits : forall b ds, 2 <= b -> digits_lt b ds -> (ds = [] \/ hd 0 ds <> 0) ->
  to_digits b (of_digits b ds) = ds.
Proof.
  intros b ds Hb HD HH. unfold to_digits.
  rewrite <- (rev_involutive ds) at 1 2. rewrite of_digits_rev.
  rewrite radix_rev_of_val; [apply rev_involutive | exact Hb | apply Forall_rev; exact HD | | apply log2_bound].
  destruct HH as [->|HH]; [left; reflexivity|]. right.
  destruct ds as [|x ds]; [cbn in HH; congruence|]. cbn [rev]. rewrite last_last. exact HH.
Qed.

(** ** leading zeros *)
Lemma count_lz_split : forall ds, ds = repeat 0 (count_lz ds) ++ skipn (count_lz ds) ds.
Proof.
  induction ds as [|d ds IH]; [reflexivity|]. cbn [count_lz].
  destruct (d =? 0) eqn:E; [|reflexivity]. apply N.eqb_eq in E. subst. cbn. f_equal. exact IH.
Qed.
Lemma skipn_lz_head : forall ds, skipn (count_lz ds) ds = [] \/ hd 0 (skipn (count_lz ds) ds) <> 0.
Proof.
  induction ds as [|d ds IH]; [left; reflexivity|]. cbn [count_lz].
  destruct (d =? 0) eqn:E; [exact IH|]. right. cbn. apply N.eqb_neq. exact E.
Qed.
Lemma of_digits_zeros : forall b z ds, of_digits b (repeat 0 z ++ ds) = of_digits b ds.
Proof.
  intros b z ds. induction z as [|z IH]; [reflexivity|].
  cbn [repeat app]. unfold of_digits in *. cbn [fold_left]. replace (0 * b + 0) with 0 by lia. exact IH.
Qed.
Lemma count_lz_zeros : forall z ds, (ds = [] \/ hd 0 ds <> 0) -> count_lz (repeat 0 z ++ ds) = z.
Proof.
  intros z ds H. induction z as [|z IH].
  - cbn. destruct H as [->|H]; [reflexivity|]. destruct ds as [|d ds]; [reflexivity|].
    cbn in *. apply N.eqb_neq in H. rewrite H. reflexivity.
  - cbn. rewrite IH. reflexivity.
Qed.
Lemma skipn_zeros : forall z (ds : list N), skipn z (repeat 0 z ++ ds) = ds.
Proof. induction z; intros; cbn; auto. Qed.

(** ** the change of base is a bijection *)
Lemma convert_lt : forall b1 b2 ds, 0 < b2 -> digits_lt b2 (convert b1 b2 ds).
Proof.
  intros. unfold convert. apply Forall_app. split; [|apply to_digits_lt; assumption].
  apply Forall_forall. intros x Hx. apply repeat_spec in Hx. subst. assumption.
Qed.
Theorem convert_inverse : forall b1 b2 ds, 2 <= b1 -> 2 <= b2 -> digits_lt b1 ds ->
  convert b2 b1 (convert b1 b2 ds) = ds.
Proof.
  intros b1 b2 ds H1 H2 HD. unfold convert at 2.
  set (z := count_lz ds). set (n := of_digits b1 ds). set (D := to_digits b2 n).
  assert (HDh : D = [] \/ hd 0 D <> 0) by (apply to_digits_head; exact H2).
  unfold convert. rewrite count_lz_zeros by exact HDh. rewrite of_digits_zeros.
  unfold D. rewrite of_to_digits by exact H2.
  unfold n. rewrite (count_lz_split ds) at 1. rewrite of_digits_zeros.
  rewrite to_of_digits.
  - symmetry. apply count_lz_split.
  - exact H1.
  - rewrite (count_lz_split ds) in HD. apply Forall_app in HD. apply HD.
  - apply skipn_lz_head.
Qed.

(** ** the alphabet *)
Lemma index_of_spec : forall c l i d, index_of c l i = Some d ->
  i <= d /\ nth (N.to_nat (d - i)) l 0 = c /\ (N.to_nat (d - i) < length l)%nat.
Proof.
  induction l as [|x l IH]; intros i d H; [discriminate|]. cbn [index_of] in H.
  destruct (x =? c) eqn:E.
  - apply N.eqb_eq in E. inversion H; subst. replace (d - d) with 0 by lia. cbn. repeat split; lia.
  - destruct (IH _ _ H) as (A & B & C). replace (N.to_nat (d - i)) with (S (N.to_nat (d - (i + 1)))) by lia.
    cbn. repeat split; [lia | exact B | lia].
Qed.
Lemma b58_char_of_index : forall c d, b58_index c = Some d -> b58_char d = c /\ d < 58.
Proof.
  intros c d H. destruct (index_of_spec _ _ _ _ H) as (_ & B & C). rewrite N.sub_0_r in *.
  split; [exact B|]. change (length B58_ALPHABET) with 58%nat in C. lia.
Qed.
Lemma b58_index_of_char : forall d, d < 58 -> b58_index (b58_char d) = Some d.
Proof.
  assert (S : forallb (fun d => match b58_index (b58_char d) with Some d' => d' =? d | None => false end)
                      (map N.of_nat (seq 0 58)) = true) by (vm_compute; reflexivity).
  intros d H. rewrite forallb_forall in S. specialize (S d).
  assert (I : In d (map N.of_nat (seq 0 58))).
  { apply in_map_iff. exists (N.to_nat d). split; [lia|]. apply in_seq. lia. }
  specialize (S I). destruct (b58_index (b58_char d)) as [d'|]; [|discriminate].
  apply N.eqb_eq in S. subst. reflexivity.
Qed.

Lemma map_opt_map : forall {A B} (f : A -> option B) (g : B -> A) l,
  (forall x, In x l -> f (g x) = Some x) -> map_opt f (map g l) = Some l.
Proof.
  induction l as [|x l IH]; intros H; [reflexivity|]. cbn [map map_opt].
  rewrite H by (left; reflexivity). rewrite IH by (intros; apply H; right; assumption). reflexivity.
Qed.
Lemma map_opt_inv : forall {A B} (f : A -> option B) (g : B -> A) (P : B -> Prop) l ys,
  (forall c d, f c = Some d -> g d = c /\ P d) -> map_opt f l = Some ys -> map g ys = l /\ Forall P ys.
Proof.
  induction l as [|c l IH]; intros ys H E.
  - inversion E; subst. split; [reflexivity | constructor].
  - cbn [map_opt] in E. destruct (f c) as [d|] eqn:F; [|discriminate].
    destruct (map_opt f l) as [ds|] eqn:M; [|discriminate]. inversion E; subst.
    destruct (H _ _ F) as [G Pd]. destruct (IH ds H eq_refl) as [I Ps]. cbn. rewrite G, I. split; [reflexivity | constructor; assumption].
Qed.

(** ** Base58 *)
Definition bytes (l : list N) : Prop := digits_lt 256 l.

Theorem b58_decode_encode : forall bs, bytes bs -> b58_decode (b58_encode bs) = Some bs.
Proof.
  intros bs HB. unfold b58_decode, b58_encode.
  pose proof (convert_lt 256 58 bs ltac:(lia)) as L.
  rewrite map_opt_map.
  - rewrite convert_inverse by (try lia; exact HB). reflexivity.
  - intros d Hd. apply b58_index_of_char. unfold digits_lt in L. rewrite Forall_forall in L. apply L. exact Hd.
Qed.
Theorem b58_encode_decode : forall s raw, b58_decode s = Some raw -> b58_encode raw = s /\ bytes raw.
Proof.
  intros s raw H. unfold b58_decode in H. destruct (map_opt b58_index s) as [ds|] eqn:M; [|discriminate].
  inversion H; subst; clear H.
  destruct (map_opt_inv b58_index b58_char (fun d => d < 58) s ds b58_char_of_index M) as [E L].
  split; [|apply convert_lt; lia]. unfold b58_encode. rewrite convert_inverse by (try lia; exact L). exact E.
Qed.
Corollary b58_encode_injective : forall a b, bytes a -> bytes b -> b58_encode a = b58_encode b -> a = b.
Proof.
  intros a b Ha Hb E. apply (f_equal b58_decode) in E. rewrite !b58_decode_encode in E by assumption. congruence.
Qed.

(** ** AccountAddress *)
Lemma bytes_eqb_refl : forall l, bytes_eqb l l = true.
Proof. induction l; cbn; [reflexivity|]. rewrite N.eqb_refl. exact IHl. Qed.
Lemma bytes_eqb_eq : forall a b, bytes_eqb a b = true -> a = b.
Proof.
  induction a as [|x a IH]; destruct b as [|y b]; cbn; intros H; try discriminate; [reflexivity|].
  apply andb_prop in H as [H1 H2]. apply N.eqb_eq in H1. subst. f_equal. apply IH. exact H2.
Qed.

Lemma app_inj_tail_length : forall (a c b d : list N), a ++ b = c ++ d -> length b = length d -> a = c /\ b = d.
Proof.
  induction a as [|x a IH]; intros c b d E L.
  - destruct c as [|y c]; [auto|]. exfalso. apply (f_equal (@length N)) in E. cbn in E. rewrite app_length in E. lia.
  - destruct c as [|y c].
    + exfalso. apply (f_equal (@length N)) in E. cbn in E. rewrite app_length in E. lia.
    + cbn in E. inversion E; subst. destruct (IH c b d H1 L) as [-> ->]. auto.
Qed.

Section AccountAddress.
  (** the first four bytes of SHA-256(SHA-256(payload)): abstract *)
  Variable H4 : list N -> list N.
  Hypothesis H4_len : forall p, length (H4 p) = 4%nat.
  Hypothesis H4_bytes : forall p, bytes (H4 p).

  Lemma parse_raw : forall p ck, bytes p -> bytes ck -> length ck = 4%nat -> (length p <= 33)%nat ->
    parse_account_address H4 (b58_encode (p ++ ck)) =
      if bytes_eqb (H4 p) ck then
        match p with
        | v :: addr => if (v =? 1) && Nat.eqb (length addr) 32 then Some addr else None
        | [] => None
        end
      else None.
  Proof.
    intros p ck Hp Hck Lck Lp. unfold parse_account_address.
    rewrite b58_decode_encode by (apply Forall_app; split; assumption).
    rewrite app_length, Lck.
    assert (Nat.ltb 37 (length p + 4) = false) as -> by (apply PeanoNat.Nat.ltb_ge; lia).
    assert (Nat.ltb (length p + 4) 4 = false) as -> by (apply PeanoNat.Nat.ltb_ge; lia).
    replace (length p + 4 - 4)%nat with (length p + 0)%nat by lia.
    rewrite firstn_app_2, skipn_app. cbn [firstn]. rewrite app_nil_r.
    replace (length p + 0 - length p)%nat with 0%nat by lia.
    rewrite skipn_all2 by lia. cbn [skipn app]. reflexivity.
  Qed.

  Theorem account_address_parse_print_all : forall a, length a = 32%nat -> bytes a ->
    parse_account_address H4 (print_account_address H4 a) = Some a.
  Proof.
    intros a La Ha. unfold print_account_address.
    rewrite parse_raw; [| constructor; [lia | exact Ha] | apply H4_bytes | apply H4_len | cbn; lia].
    rewrite bytes_eqb_refl. change (1 =? 1) with true. rewrite La. reflexivity.
  Qed.

  (** the parser accepts exactly the printed strings *)
  Theorem account_address_accepts_iff : forall s a,
    parse_account_address H4 s = Some a <->
    s = print_account_address H4 a /\ length a = 32%nat /\ bytes a.
  Proof.
    intros s a. split.
    - unfold parse_account_address. destruct (b58_decode s) as [raw|] eqn:D; [|discriminate].
      destruct (b58_encode_decode _ _ D) as [E HB].
      destruct (Nat.ltb 37 (length raw)); [discriminate|].
      destruct (Nat.ltb (length raw) 4); [discriminate|].
      set (n := (length raw - 4)%nat).
      destruct (bytes_eqb (H4 (firstn n raw)) (skipn n raw)) eqn:C; [|discriminate].
      apply bytes_eqb_eq in C.
      destruct (firstn n raw) as [|v addr] eqn:F; [discriminate|].
      destruct ((v =? 1) && Nat.eqb (length addr) 32) eqn:V; [|discriminate].
      intros X. inversion X; subst addr. apply andb_prop in V as [V1 V2].
      apply N.eqb_eq in V1. apply PeanoNat.Nat.eqb_eq in V2. subst v.
      assert (R : raw = (1 :: a) ++ H4 (1 :: a)).
      { rewrite <- (firstn_skipn n raw). rewrite F, <- C. reflexivity. }
      split; [|split; [exact V2|]].
      + unfold print_account_address. rewrite <- R. symmetry. exact E.
      + rewrite R in HB. apply Forall_app in HB. destruct HB as [HB _]. inversion HB; assumption.
    - intros (-> & L & B). apply account_address_parse_print_all; assumption.
  Qed.

  (** wrong checksum, wrong version, wrong length *)
  Theorem account_address_rejects_checksum : forall p ck, bytes p -> bytes ck -> length ck = 4%nat ->
    ck <> H4 p -> parse_account_address H4 (b58_encode (p ++ ck)) = None.
  Proof.
    intros p ck Hp Hck L NE.
    destruct (parse_account_address H4 (b58_encode (p ++ ck))) as [a|] eqn:P; [|reflexivity]. exfalso.
    apply account_address_accepts_iff in P. destruct P as (E & La & Ba).
    unfold print_account_address in E. apply b58_encode_injective in E;
      [| apply Forall_app; split; assumption
       | apply Forall_app; split; [constructor; [lia | exact Ba] | apply H4_bytes]].
    assert (Lp : length p = 33%nat).
    { apply (f_equal (@length N)) in E. rewrite !app_length, L, H4_len in E. cbn in E. lia. }
    apply app_inj_tail_length in E; [| rewrite L, H4_len; reflexivity].
    destruct E as [-> ->]. congruence.
  Qed.
  Theorem account_address_rejects_version : forall v a, bytes (v :: a) -> v <> 1 ->
    parse_account_address H4 (b58_encode ((v :: a) ++ H4 (v :: a))) = None.
  Proof.
    intros v a HB NE.
    destruct (parse_account_address H4 (b58_encode ((v :: a) ++ H4 (v :: a)))) as [a'|] eqn:P; [|reflexivity]. exfalso.
    apply account_address_accepts_iff in P. destruct P as (E & La & Ba).
    unfold print_account_address in E. apply b58_encode_injective in E;
      [| apply Forall_app; split; [exact HB | apply H4_bytes]
       | apply Forall_app; split; [constructor; [lia | exact Ba] | apply H4_bytes]].
    apply app_inj_tail_length in E; [| rewrite !H4_len; reflexivity].
    destruct E as [E _]. inversion E. congruence.
  Qed.
  Theorem account_address_rejects_length : forall a, bytes a -> length a <> 32%nat ->
    parse_account_address H4 (b58_encode ((1 :: a) ++ H4 (1 :: a))) = None.
  Proof.
    intros a HB NE.
    destruct (parse_account_address H4 (b58_encode ((1 :: a) ++ H4 (1 :: a)))) as [a'|] eqn:P; [|reflexivity]. exfalso.
    apply account_address_accepts_iff in P. destruct P as (E & La & Ba).
    unfold print_account_address in E. apply b58_encode_injective in E;
      [| apply Forall_app; split; [constructor; [lia | exact HB] | apply H4_bytes]
       | apply Forall_app; split; [constructor; [lia | exact Ba] | apply H4_bytes]].
    apply app_inj_tail_length in E; [| rewrite !H4_len; reflexivity].
    destruct E as [E _]. inversion E. congruence.
  Qed.
End AccountAddress.

(** ** hexadecimal forms *)
Lemma hex_val_digit : forall d, d < 16 -> hex_val (hex_digit d) = Some d.
Proof.
  assert (S : forallb (fun d => match hex_val (hex_digit d) with Some d' => d' =? d | None => false end)
                      (map N.of_nat (seq 0 16)) = true) by (vm_compute; reflexivity).
  intros d H. rewrite forallb_forall in S. specialize (S d).
  assert (I : In d (map N.of_nat (seq 0 16))).
  { apply in_map_iff. exists (N.to_nat d). split; [lia|]. apply in_seq. lia. }
  specialize (S I). destruct (hex_val (hex_digit d)) as [d'|]; [|discriminate].
  apply N.eqb_eq in S. subst. reflexivity.
Qed.
Lemma hex_val_digit_upper : forall d, d < 16 -> hex_val (hex_digit_upper d) = Some d.
Proof.
  assert (S : forallb (fun d => match hex_val (hex_digit_upper d) with Some d' => d' =? d | None => false end)
                      (map N.of_nat (seq 0 16)) = true) by (vm_compute; reflexivity).
  intros d H. rewrite forallb_forall in S. specialize (S d).
  assert (I : In d (map N.of_nat (seq 0 16))).
  { apply in_map_iff. exists (N.to_nat d). split; [lia|]. apply in_seq. lia. }
  specialize (S I). destruct (hex_val (hex_digit_upper d)) as [d'|]; [|discriminate].
  apply N.eqb_eq in S. subst. reflexivity.
Qed.
Lemma hex_digit_not_plus : forall d, hex_digit d =? 43 = false.
Proof. intros d. unfold hex_digit. destruct (d <? 10); apply N.eqb_neq; lia. Qed.

Lemma byte_split : forall b, b < 256 -> b / 16 < 16 /\ b mod 16 < 16 /\ b / 16 * 16 + b mod 16 = b.
Proof.
  intros b H. repeat split; [apply N.div_lt_upper_bound; lia | apply N.mod_lt; lia |].
  pose proof (N.div_mod b 16 ltac:(lia)). lia.
Qed.

Theorem hex_decode_print : forall bs, bytes bs -> hex_decode (hex_print bs) = Some bs.
Proof.
  induction bs as [|b bs IH]; intros H; [reflexivity|]. inversion H; subst.
  destruct (byte_split b H2) as (A & B & C). cbn [hex_print hex_decode].
  rewrite !hex_val_digit by assumption. rewrite IH by assumption. rewrite C. reflexivity.
Qed.
(** upper-case digits are accepted and denote the same bytes *)
Theorem hex_decode_print_upper : forall bs, bytes bs -> hex_decode (hex_print_upper bs) = Some bs.
Proof.
  induction bs as [|b bs IH]; intros H; [reflexivity|]. inversion H; subst.
  destruct (byte_split b H2) as (A & B & C). cbn [hex_print_upper hex_decode].
  rewrite !hex_val_digit_upper by assumption. rewrite IH by assumption. rewrite C. reflexivity.
Qed.
Theorem hash_parse_print_all : forall h, length h = 32%nat -> bytes h -> parse_hash (hex_print h) = Some h.
Proof. intros h L B. unfold parse_hash. rewrite hex_decode_print by exact B. rewrite L. reflexivity. Qed.
Theorem hash_parse_print_upper : forall h, length h = 32%nat -> bytes h -> parse_hash (hex_print_upper h) = Some h.
Proof. intros h L B. unfold parse_hash. rewrite hex_decode_print_upper by exact B. rewrite L. reflexivity. Qed.
Lemma hex_decode_length : forall s bs, hex_decode s = Some bs -> length s = (2 * length bs)%nat.
Proof.
  fix IH 1. intros s bs H. destruct s as [|c1 [|c2 r]]; cbn in H.
  - inversion H; reflexivity.
  - discriminate.
  - destruct (hex_val c1), (hex_val c2); try discriminate.
    destruct (hex_decode r) as [bs'|] eqn:R; [|discriminate]. inversion H; subst.
    cbn [length]. rewrite (IH r bs' R). lia.
Qed.
(** a parsed hash string has exactly 64 characters *)
Theorem hash_parse_length : forall s h, parse_hash s = Some h -> length s = 64%nat /\ length h = 32%nat.
Proof.
  intros s h H. unfold parse_hash in H. destruct (hex_decode s) as [bs|] eqn:D; [|discriminate].
  destruct (Nat.eqb (length bs) 32) eqn:L; [|discriminate]. inversion H; subst.
  apply PeanoNat.Nat.eqb_eq in L. rewrite (hex_decode_length _ _ D), L. split; reflexivity.
Qed.

Lemma hex_print_length : forall bs, length (hex_print bs) = (2 * length bs)%nat.
Proof. induction bs; cbn [hex_print length]; [reflexivity | rewrite IHbs; lia]. Qed.
Lemma hex_pairs_print : forall bs, bytes bs -> hex_pairs (hex_print bs) = Some bs.
Proof.
  induction bs as [|b bs IH]; intros H; [reflexivity|]. inversion H; subst.
  destruct (byte_split b H2) as (A & B & C). cbn [hex_print hex_pairs]. unfold pair_val.
  rewrite hex_digit_not_plus, !hex_val_digit by assumption. rewrite IH by assumption. rewrite C. reflexivity.
Qed.
(** public keys (n = 32, 33) and signatures (n = 64) *)
Theorem key_parse_print_all : forall n k, length k = n -> bytes k -> parse_key n (hex_print k) = Some k.
Proof.
  intros n k L B. unfold parse_key. rewrite hex_print_length, L, PeanoNat.Nat.eqb_refl. apply hex_pairs_print. exact B.
Qed.
