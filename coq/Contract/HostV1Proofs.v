(** C14 - proofs about the v1 host functions (HostV1.v). *)
From Coq Require Import NArith List Bool Lia.
From CB Require Import Gen.HostCosts Contract.HostBase Contract.HostBaseProofs Contract.HostV0
  Contract.HostV0Proofs Contract.HostV1.
Import ListNotations.
Local Open Scope N_scope.

Ltac mprims1 :=
  cbv beta iota zeta delta [get_x set_x get_is set_is flag_unspec flag_lower val key_arg read_into get_mut
                            set_value read_section
                            bind ret trap fault ensure emit tick get_hs set_hs mem_len get_energy mslice mstore
                            vslice uadd lift_trap write_to_mem ensure_fits mborrow_from
                            energy mem evs hs fst snd h_ext with_ext x_is x_rv x_params x_rp with_is with_rv
                            with_params with_hash with_flags is_entries is_set_changed is_with_entries
                            is_push_handle x_entrypoint x_digests x_hashlog x_unspec x_lower h_limit h_state h_logs is_gen is_emap is_iters is_locks is_changed].
Ltac mstep1 := mstep_with mprims1.

(** invariants: the return value obeys the P4 limit when limits are on; entry values obey
    MAX_ENTRY_SIZE (the "state invariant" the Rust comments appeal to) *)
Definition entry_ok (e : entry) : Prop :=
  match e_val e with Some v => lenN v <= 1073741824 | None => True end.
Definition v1_ok (s : st H1) : Prop :=
  (h_limit (hs s) = true -> lenN (x_rv (h_ext (hs s))) <= 16384)
  /\ Forall entry_ok (is_entries (x_is (h_ext (hs s))))
  /\ lenN (x_entrypoint (h_ext (hs s))) < 4294967296.      (* entrypoint names have at most 99 bytes *)

Lemma live_value_ok : forall s h id e v,
  Forall entry_ok (is_entries s) -> live_value s h = Some (id, e, v) -> lenN v <= 1073741824.
Proof.
  intros s h id e v HF. unfold live_value.
  destruct (handle_entry s h) as [id0|]; [|discriminate].
  destruct (nthN id0 (is_entries s)) as [e0|] eqn:Hn; [|discriminate].
  destruct (e_val e0) as [v0|] eqn:Hv; [|discriminate].
  intros [= <- <- <-]. pose proof (nthN_Forall _ _ _ _ _ HF Hn) as H. unfold entry_ok in H. rewrite Hv in H. exact H.
Qed.

Lemma live_value_ok' : forall s h id e v,
  live_value s h = Some (id, e, v) -> Forall entry_ok (is_entries s) -> lenN v <= 1073741824.
Proof. intros. eapply live_value_ok; eassumption. Qed.

Ltac live_facts :=
  repeat match goal with
  | HF : Forall entry_ok _, H : live_value _ _ = Some (_, _, _) |- _ =>
      let H' := fresh "Hlive" in pose proof (live_value_ok' _ _ _ _ _ H HF) as H'; clear H
  end.

Ltac use_limit :=
  repeat match goal with H : ?a = true -> _, E : ?a = true |- _ => specialize (H E) end.

Ltac finish_safe1 :=
  cbv beta iota zeta delta [fst snd];
  try discriminate;
  exfalso; use_limit;
  repeat (match goal with H : context [if ?c then _ else _] |- _ => destruct c eqn:? end);
  use_limit; live_facts; bool_hyps; prim_facts; autorewrite with lenN in *;
  cbv [MAX_CONTRACT_STATE W32 W64 MAX_LOG_SIZE MAX_ENTRY_SIZE MAX_KEY_SIZE N.shiftl Pos.shiftl Pos.iter] in *;
  u32_facts; cbv [W32] in *; lia.

Notation S1 := (st H1).

Ltac dst s :=
  destruct s as [e0 m0 ev0 h0];
  destruct h0 as [? ? ? ? ? ? ? ? ? ? ? ? ? ? ? ? ? x0]; destruct x0 as [? ? is0 ? ? ? ? ? ?]; destruct is0.

Lemma invoke_safe : forall tag start length (s : S1), safe (invoke tag start length) s.
Proof. intros. dst s. unfold safe, invoke, parse_call_args. mstep1; finish_safe1. Qed.

Lemma upgrade_safe : forall a (s : S1), safe (upgrade a) s.
Proof. intros. dst s. unfold safe, upgrade. mstep1; finish_safe1. Qed.

Lemma write_return_value_safe : forall start length offset (s : S1),
  v1_ok s -> safe (write_return_value start length offset) s.
Proof.
  intros ? ? ? s [Hrv _]. dst s. cbn [hs HostV0.h_limit HostV0.h_ext HostV1.x_rv] in Hrv.
  unfold safe, write_return_value. mstep1; finish_safe1.
Qed.

Lemma get_parameter_size1_safe : forall a (s : S1), safe (get_parameter_size1 a) s.
Proof. intros. dst s. unfold safe, get_parameter_size1. mstep1; finish_safe1. Qed.
Lemma get_parameter_section1_safe : forall a b c d (s : S1), safe (get_parameter_section1 a b c d) s.
Proof. intros. dst s. unfold safe, get_parameter_section1. mstep1; finish_safe1. Qed.

Lemma state_lookup_entry_safe : forall a b (s : S1), safe (state_lookup_entry a b) s.
Proof. intros. dst s. unfold safe, state_lookup_entry. mstep1; finish_safe1. Qed.
Lemma state_create_entry_safe : forall a b (s : S1), safe (state_create_entry a b) s.
Proof. intros. dst s. unfold safe, state_create_entry. mstep1; finish_safe1. Qed.
Lemma state_delete_entry_safe : forall a b (s : S1), safe (state_delete_entry a b) s.
Proof. intros. dst s. unfold safe, state_delete_entry. mstep1; finish_safe1. Qed.
Lemma state_delete_prefix_safe : forall a b (s : S1), safe (state_delete_prefix a b) s.
Proof. intros. dst s. unfold safe, state_delete_prefix. mstep1; finish_safe1. Qed.
Lemma state_iterator_safe : forall a b (s : S1), safe (state_iterator a b) s.
Proof. intros. dst s. unfold safe, state_iterator. mstep1; finish_safe1. Qed.
Lemma state_iterator_next_safe : forall a (s : S1), safe (state_iterator_next a) s.
Proof. intros. dst s. unfold safe, state_iterator_next. mstep1; finish_safe1. Qed.
Lemma state_iterator_delete_safe : forall a (s : S1), safe (state_iterator_delete a) s.
Proof. intros. dst s. unfold safe, state_iterator_delete. mstep1; finish_safe1. Qed.
Lemma state_iterator_key_size_safe : forall a (s : S1), safe (state_iterator_key_size a) s.
Proof. intros. dst s. unfold safe, state_iterator_key_size. mstep1; finish_safe1. Qed.
Lemma state_iterator_key_read_safe : forall a b c d (s : S1), safe (state_iterator_key_read a b c d) s.
Proof. intros. dst s. unfold safe, state_iterator_key_read. mstep1; finish_safe1. Qed.
Lemma state_entry_read_safe : forall a b c d (s : S1), safe (state_entry_read a b c d) s.
Proof. intros. dst s. unfold safe, state_entry_read. mstep1; finish_safe1. Qed.
Lemma state_entry_write_safe : forall a b c d (s : S1), v1_ok s -> safe (state_entry_write a b c d) s.
Proof.
  intros ? ? ? ? s [_ [Hent _]]. dst s. cbn [hs HostV0.h_ext HostV1.x_is HostV1.is_entries] in Hent.
  unfold safe, state_entry_write. mstep1; finish_safe1.
Qed.
Lemma state_entry_size_safe : forall a (s : S1), safe (state_entry_size a) s.
Proof. intros. dst s. unfold safe, state_entry_size. mstep1; finish_safe1. Qed.
Lemma state_entry_resize_safe : forall a b (s : S1), safe (state_entry_resize a b) s.
Proof. intros. dst s. unfold safe, state_entry_resize. mstep1; finish_safe1. Qed.
Lemma get_receive_entrypoint_safe : forall a (s : S1), v1_ok s -> safe (get_receive_entrypoint a) s.
Proof.
  intros a s [_ [_ Hep]]. dst s. cbn [hs HostV0.h_ext HostV1.x_entrypoint] in Hep.
  unfold safe, get_receive_entrypoint. mstep1; finish_safe1.
Qed.
Lemma verify_ed25519_safe : forall a b c d (s : S1), safe (verify_ed25519_signature a b c d) s.
Proof. intros. dst s. unfold safe, verify_ed25519_signature. mstep1; finish_safe1. Qed.
Lemma verify_ecdsa_safe : forall a b c (s : S1), safe (verify_ecdsa_secp256k1_signature a b c) s.
Proof. intros. dst s. unfold safe, verify_ecdsa_secp256k1_signature. mstep1; finish_safe1. Qed.
Lemma hash_generic_safe : forall k cost a b c (s : S1), safe (hash_generic k cost a b c) s.
Proof. intros. dst s. unfold safe, hash_generic. mstep1; finish_safe1. Qed.

Lemma val_safe : forall (m : M1 (option N)) (s : S1), safe m s -> safe (val m) s.
Proof.
  intros m s H. unfold safe, val, bind, ret in *. destruct (m s) as [s' [a| | |]]; cbn [snd] in *; try discriminate.
  congruence.
Qed.

Theorem call_v1_safe : forall f args (s : S1), v1_ok s -> safe (call_v1 f args) s.
Proof.
  intros f args s H1. unfold safe, call_v1.
  change (snd ((h <- get_hs ;; (if h_init h && v1_receive_only f then trap
            else if negb (h_init h) && match f with V1get_init_origin => true | _ => false end then trap
            else call_v1_raw f args)) s) <> Fault).
  cbv beta iota delta [bind get_hs].
  destruct (h_init (hs s) && v1_receive_only f); [unfold trap; cbn [snd]; discriminate|].
  destruct (negb (h_init (hs s)) && match f with V1get_init_origin => true | _ => false end); [unfold trap; cbn [snd]; discriminate|].
  destruct f; cbn [call_v1_raw];
    repeat (match goal with |- context [match ?l with [] => _ | _ :: _ => _ end] => is_var l; destruct l end; cbn [call_v1_raw]);
    try (unfold trap; cbn [snd]; discriminate).
  all: try apply val_safe.
  all: first
    [ apply invoke_safe | apply upgrade_safe | (apply write_return_value_safe; assumption)
    | apply get_parameter_size1_safe | apply get_parameter_section1_safe
    | apply get_policy_section_safe | apply log_event_safe
    | apply get_receive_self_address_safe | apply get_receive_sender_safe | apply get_slot_time_safe
    | apply state_lookup_entry_safe | apply state_create_entry_safe | apply state_delete_entry_safe
    | apply state_delete_prefix_safe | apply state_iterator_safe | apply state_iterator_next_safe
    | apply state_iterator_delete_safe | apply state_iterator_key_size_safe | apply state_iterator_key_read_safe
    | apply state_entry_read_safe | (apply state_entry_write_safe; assumption) | apply state_entry_size_safe
    | apply state_entry_resize_safe | (apply get_receive_entrypoint_safe; assumption) | apply verify_ed25519_safe
    | apply verify_ecdsa_safe | apply hash_generic_safe
    | (unfold get_init_origin, get_receive_invoker, get_receive_owner; mprims; apply put_address_safe)
    | (unfold get_receive_self_balance, get_receive_entrypoint_size; mstep1; finish_safe1) ].
Qed.
