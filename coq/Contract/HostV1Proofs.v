(** C14 - proofs about the v1 host functions (HostV1.v). *)
From Coq Require Import NArith List Bool Lia.
From CB Require Import Gen.HostCosts Contract.HostBase Contract.HostBaseProofs Contract.HostV0
  Contract.HostV0Proofs Contract.HostV1.
Import ListNotations.
Local Open Scope N_scope.

Ltac mprims1 :=
  cbv beta iota zeta delta [get_x set_x get_is set_is get_exp set_exp tick_tree with_exp x_exp flag_unspec flag_lower val key_arg read_into get_mut
                            set_value read_section
                            bind ret trap fault ensure emit tick get_hs set_hs mem_len get_energy mslice mstore
                            vslice uadd lift_trap write_to_mem ensure_fits mborrow_from
                            energy mem evs hs fst snd h_ext with_ext x_is x_rv x_params x_rp with_is with_rv
                            with_params with_hash with_flags is_entries is_set_changed is_with_entries
                            is_push_handle x_entrypoint x_digests x_hashlog x_unspec x_lower h_limit h_state h_logs is_gen is_emap is_iters is_locks is_changed].
Ltac mstep1 := mstep_with mprims1.

(** invariants: the return value obeys the P4 limit when limits are on; entry values obey
    MAX_ENTRY_SIZE (the "state invariant" the Rust comments appeal to) *)
Definition entry_ok (e : entry) : Prop :=
  match e_val e with Some v => lenN v <= 1073741824 | None => True end.
Definition v1_ok (s : st H1) : Prop :=
  (h_limit (hs s) = true -> lenN (x_rv (h_ext (hs s))) <= 16384)
  /\ Forall entry_ok (is_entries (x_is (h_ext (hs s))))
  /\ lenN (x_entrypoint (h_ext (hs s))) < 4294967296.      (* entrypoint names have at most 99 bytes *)

Lemma live_value_ok : forall s h id e v,
  Forall entry_ok (is_entries s) -> live_value s h = Some (id, e, v) -> lenN v <= 1073741824.
Proof.
  intros s h id e v HF. unfold live_value.
  destruct (handle_entry s h) as [id0|]; [|discriminate].
  destruct (nthN id0 (is_entries s)) as [e0|] eqn:Hn; [|discriminate].
  destruct (e_val e0) as [v0|] eqn:Hv; [|discriminate].
  intros [= <- <- <-]. pose proof (nthN_Forall _ _ _ _ _ HF Hn) as H. unfold entry_ok in H. rewrite Hv in H. exact H.
Qed.

Lemma live_value_ok' : forall s h id e v,
  live_value s h = Some (id, e, v) -> Forall entry_ok (is_entries s) -> lenN v <= 1073741824.
Proof. intros. eapply live_value_ok; eassumption. Qed.

Ltac live_facts :=
  repeat match goal with
  | HF : Forall entry_ok _, H : live_value _ _ = Some (_, _, _) |- _ =>
      let H' := fresh "Hlive" in pose proof (live_value_ok' _ _ _ _ _ H HF) as H'; clear H
  end.

Ltac use_limit :=
  repeat match goal with H : ?a = true -> _, E : ?a = true |- _ => specialize (H E) end.

Ltac finish_safe1 :=
  cbv beta iota zeta delta [fst snd];
  try discriminate;
  exfalso; use_limit;
  repeat (match goal with H : context [if ?c then _ else _] |- _ => destruct c eqn:? end);
  use_limit; live_facts; bool_hyps; prim_facts; autorewrite with lenN in *;
  cbv [MAX_CONTRACT_STATE W32 W64 MAX_LOG_SIZE MAX_ENTRY_SIZE MAX_KEY_SIZE N.shiftl Pos.shiftl Pos.iter] in *;
  u32_facts; cbv [W32] in *; lia.

Notation S1 := (st H1).

Ltac dst s :=
  destruct s as [e0 m0 ev0 h0];
  destruct h0 as [? ? ? ? ? ? ? ? ? ? ? ? ? ? ? ? ? x0]; destruct x0 as [? ? is0 ? ? ? ? ? ? ?]; destruct is0.

Ltac unfold_v1 :=
  unfold invoke, parse_call_args, upgrade, write_return_value, get_parameter_size1, get_parameter_section1,
    state_lookup_entry, state_create_entry, state_delete_entry, state_delete_prefix, state_iterator,
    state_iterator_next, state_iterator_delete, state_iterator_key_size, state_iterator_key_read,
    state_entry_read, state_entry_write, state_entry_size, state_entry_resize, get_receive_entrypoint_size,
    get_receive_entrypoint, verify_ed25519_signature, verify_ecdsa_secp256k1_signature, hash_generic, two_fields.

(** *** every v1 host call is total *)
Theorem call_v1_safe : forall f args (s : S1), args_wf (sig1 f) args -> v1_ok s -> safe (call_v1 f args) s.
Proof.
  intros f args s Hwf (Hrv & Hent & Hep). dst s.
  cbn [hs HostV0.h_limit HostV0.h_ext HostV1.x_rv HostV1.x_is HostV1.is_entries HostV1.x_entrypoint] in Hrv, Hent, Hep.
  unfold safe, call_v1.
  destruct f; split_args args; cbn [call_v1_raw sig1 args_wf] in *; unfold_v1; unfold_v0; mstep1; finish_safe1.
Qed.
