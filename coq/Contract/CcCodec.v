(** C16 - self-contained little-endian codec combinators modelling the [Serial]/[Deserial]
    implementations of concordium-contracts-common (impls.rs, traits.rs).

    A codec for [A] has an encoder, a decoder returning the value and the unread rest,
    a ghost function [pre] (the number of element slots reserved in advance through
    [Vec::with_capacity] while decoding the given input, successful or not) and a
    well-formedness predicate (the values of the Rust type).

    Bytes are [N]; a decoder rejects "bytes" that are not below 256.

    Loops over a declared element count use the length of the remaining input as fuel;
    this is exact for element types whose encoding is never empty (zero-width elements:
    DESIGN.md observation O2, outside the claim).  Definitions only. *)
From Coq Require Import NArith ZArith List Bool.
Import ListNotations.
Local Open Scope N_scope.

Definition MAX_PREALLOCATED_CAPACITY : N := 4096.

Record codec (A : Type) : Type := mk_codec {
  enc : A -> list N;
  dec : list N -> option (A * list N);
  pre : list N -> N;
  wf : A -> Prop }.
Arguments mk_codec {A}.
Arguments enc {A}.
Arguments dec {A}.
Arguments pre {A}.
Arguments wf {A}.

(** ** the laws *)
Definition RT {A} (c : codec A) : Prop :=
  forall a rest, wf c a -> dec c (enc c a ++ rest) = Some (a, rest).
Definition Canon {A} (c : codec A) : Prop :=
  forall bs a rest, dec c bs = Some (a, rest) -> bs = enc c a ++ rest /\ wf c a.
Definition NonEmpty {A} (c : codec A) : Prop :=
  forall a, wf c a -> enc c a <> [].
(** a successful decode returns a suffix that is not longer than the input *)
Definition Shrinks {A} (c : codec A) : Prop :=
  forall bs a rest, dec c bs = Some (a, rest) -> (length rest <= length bs)%nat.
(** pre-allocation is bounded by [K] slots per consumed input byte, whatever the input *)
Definition AllocOK {A} (K : N) (c : codec A) : Prop :=
  forall bs,
    pre c bs <= K * N.of_nat (length bs)
    /\ forall a rest, dec c bs = Some (a, rest) ->
         pre c bs + K * N.of_nat (length rest) <= K * N.of_nat (length bs).

(** ** fixed-width little-endian unsigned integers: [to_le_bytes] / [from_le_bytes] *)
Fixpoint le_bytes (k : nat) (n : N) : list N :=
  match k with
  | O => []
  | S k' => n mod 256 :: le_bytes k' (n / 256)
  end.
Fixpoint le_take (k : nat) (bs : list N) : option (N * list N) :=
  match k with
  | O => Some (0, bs)
  | S k' =>
      match bs with
      | [] => None
      | b :: bs' =>
          if b <? 256 then
            match le_take k' bs' with
            | Some (v, r) => Some (b + 256 * v, r)
            | None => None
            end
          else None
      end
  end.
Definition c_uint (k : nat) : codec N :=
  mk_codec (le_bytes k) (le_take k) (fun _ => 0) (fun n => n < 256 ^ N.of_nat k).

(** ** generic combinators *)
Definition c_unit : codec unit :=
  mk_codec (fun _ => []) (fun bs => Some (tt, bs)) (fun _ => 0) (fun _ => True).

(** change of representation ([f] after decoding, [g] before encoding) *)
Definition c_map {A B} (c : codec A) (f : A -> B) (g : B -> A) (wfB : B -> Prop) : codec B :=
  mk_codec (fun b => enc c (g b))
           (fun bs => match dec c bs with Some (a, r) => Some (f a, r) | None => None end)
           (pre c) wfB.

(** decode, then a validity check *)
Definition c_refine {A} (c : codec A) (ok : A -> bool) : codec A :=
  mk_codec (enc c)
           (fun bs => match dec c bs with
                      | Some (a, r) => if ok a then Some (a, r) else None
                      | None => None end)
           (pre c) (fun a => wf c a /\ ok a = true).

Definition c_pair {A B} (ca : codec A) (cb : codec B) : codec (A * B) :=
  mk_codec (fun p => enc ca (fst p) ++ enc cb (snd p))
           (fun bs => match dec ca bs with
                      | Some (a, r) => match dec cb r with
                                       | Some (b, r') => Some ((a, b), r')
                                       | None => None end
                      | None => None end)
           (fun bs => pre ca bs + match dec ca bs with Some (_, r) => pre cb r | None => 0 end)
           (fun p => wf ca (fst p) /\ wf cb (snd p)).

(** one tag byte: 0 = left, 1 = right, everything else is rejected *)
Definition c_sum {A B} (ca : codec A) (cb : codec B) : codec (A + B) :=
  mk_codec (fun s => match s with inl a => 0 :: enc ca a | inr b => 1 :: enc cb b end)
           (fun bs => match bs with
                      | [] => None
                      | t :: r =>
                          if t =? 0 then match dec ca r with Some (a, r') => Some (inl a, r') | None => None end
                          else if t =? 1 then match dec cb r with Some (b, r') => Some (inr b, r') | None => None end
                          else None end)
           (fun bs => match bs with
                      | [] => 0
                      | t :: r => if t =? 0 then pre ca r else if t =? 1 then pre cb r else 0 end)
           (fun s => match s with inl a => wf ca a | inr b => wf cb b end).

(** ** element loops *)
Section Elems.
  Context {A : Type} (c : codec A).

  (** [for _ in 0..cnt { T::deserial(source)? }] *)
  Fixpoint dec_elems (fuel : nat) (cnt : N) (bs : list N) : option (list A * list N) :=
    if cnt =? 0 then Some ([], bs) else
    match fuel with
    | O => None
    | S f =>
        match dec c bs with
        | None => None
        | Some (a, r) =>
            match dec_elems f (cnt - 1) r with
            | Some (xs, r') => Some (a :: xs, r')
            | None => None
            end
        end
    end.

  Fixpoint pre_elems (fuel : nat) (cnt : N) (bs : list N) : N :=
    if cnt =? 0 then 0 else
    match fuel with
    | O => 0
    | S f => pre c bs + match dec c bs with
                        | None => 0
                        | Some (_, r) => pre_elems f (cnt - 1) r
                        end
    end.

  Definition enc_elems (xs : list A) : list N := concat (map (enc c) xs).

  (** fixed-size array [[T; n]] *)
  Definition c_array (n : nat) : codec (list A) :=
    mk_codec enc_elems
             (fun bs => dec_elems n (N.of_nat n) bs)
             (fun bs => pre_elems n (N.of_nat n) bs)
             (fun xs => length xs = n /\ Forall (wf c) xs).

  (** length prefix of [k] bytes, then the elements.  [rsv len] is the number of slots
      reserved before the first element is read
      ([Vec::with_capacity(min(len, MAX_PREALLOCATED_CAPACITY))] in deserial_vector_no_length). *)
  Definition c_vec (k : nat) (rsv : N -> N) : codec (list A) :=
    mk_codec (fun xs => le_bytes k (N.of_nat (length xs)) ++ enc_elems xs)
             (fun bs => match le_take k bs with
                        | Some (n, r) => dec_elems (S (length r)) n r
                        | None => None end)
             (fun bs => match le_take k bs with
                        | Some (n, r) => rsv n + pre_elems (S (length r)) n r
                        | None => 0 end)
             (fun xs => N.of_nat (length xs) < 256 ^ N.of_nat k /\ Forall (wf c) xs).
End Elems.

Definition rsv_std (len : N) : N := N.min len MAX_PREALLOCATED_CAPACITY.
Definition rsv_all (len : N) : N := len.       (* [Vec::with_capacity(len)], len a u16 *)
Definition rsv_none (len : N) : N := 0.        (* stack buffer *)

(** ** ordered collections *)
Section Ordered.
  Context {A : Type} (ltb : A -> A -> bool).

  (** every element strictly above its predecessor: the [k > old_k] check of
      [deserial_map_no_length] / [deserial_set_no_length] *)
  Fixpoint strict_sorted (xs : list A) : bool :=
    match xs with
    | [] => true
    | x :: xs' => match xs' with
                  | [] => true
                  | y :: _ => ltb x y && strict_sorted xs'
                  end
    end.

  Fixpoint insert (x : A) (xs : list A) : list A :=
    match xs with
    | [] => [x]
    | y :: ys => if ltb x y then x :: xs else y :: insert x ys
    end.
  Fixpoint isort (xs : list A) : list A :=
    match xs with
    | [] => []
    | x :: xs' => insert x (isort xs')
    end.

  (** order checked on decode: [deserial_set_no_length], [deserial_map_no_length]
      (and [deserial_ctx] with [ensure_ordered = true]) *)
  Definition c_ordered (cv : codec (list A)) : codec (list A) := c_refine cv strict_sorted.

  (** [deserial_*_no_length_no_order_check], [Deserial for BTreeMap/BTreeSet]: any order
      is accepted, duplicates are rejected; the decoded collection is the sorted list *)
  Definition c_unordered (cv : codec (list A)) : codec (list A) :=
    mk_codec (enc cv)
             (fun bs => match dec cv bs with
                        | Some (xs, r) =>
                            let s := isort xs in
                            if strict_sorted s then Some (s, r) else None
                        | None => None end)
             (pre cv)
             (fun xs => wf cv xs /\ strict_sorted xs = true).
End Ordered.

(** ** UTF-8 ([String::from_utf8]): the scalar values of a well-formed byte string *)
Definition is_cont (b : N) : bool := (128 <=? b) && (b <=? 191).
Fixpoint utf8_decode (bs : list N) : option (list N) :=
  match bs with
  | [] => Some []
  | b0 :: r0 =>
      if b0 <? 128 then
        match utf8_decode r0 with Some cs => Some (b0 :: cs) | None => None end
      else if (194 <=? b0) && (b0 <=? 223) then
        match r0 with
        | b1 :: r1 =>
            if is_cont b1 then
              match utf8_decode r1 with
              | Some cs => Some (((b0 - 192) * 64 + (b1 - 128)) :: cs) | None => None end
            else None
        | _ => None
        end
      else if (224 <=? b0) && (b0 <=? 239) then
        match r0 with
        | b1 :: b2 :: r2 =>
            let lo := if b0 =? 224 then 160 else 128 in
            let hi := if b0 =? 237 then 159 else 191 in
            if (lo <=? b1) && (b1 <=? hi) && is_cont b2 then
              match utf8_decode r2 with
              | Some cs => Some (((b0 - 224) * 4096 + (b1 - 128) * 64 + (b2 - 128)) :: cs)
              | None => None end
            else None
        | _ => None
        end
      else if (240 <=? b0) && (b0 <=? 244) then
        match r0 with
        | b1 :: b2 :: b3 :: r3 =>
            let lo := if b0 =? 240 then 144 else 128 in
            let hi := if b0 =? 244 then 143 else 191 in
            if (lo <=? b1) && (b1 <=? hi) && is_cont b2 && is_cont b3 then
              match utf8_decode r3 with
              | Some cs => Some (((b0 - 240) * 262144 + (b1 - 128) * 4096 + (b2 - 128) * 64 + (b3 - 128)) :: cs)
              | None => None end
            else None
        | _ => None
        end
      else None
  end.
Definition utf8_valid (bs : list N) : bool :=
  match utf8_decode bs with Some _ => true | None => false end.
