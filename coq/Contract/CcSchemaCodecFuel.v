(** * CcSchemaCodecFuel — the fuel of the schema decoders is never exhausted: any two amounts of fuel
    above the input length give the same result (value or error), so [S (length input)] is enough. *)
From Coq Require Import NArith ZArith Bool List Lia.
From CB Require Import Contract.SchemaJson Contract.SchemaJsonLemmas Contract.CcSchemaCodec.
Import ListNotations.
Local Open Scope N_scope.

(** a decoder never returns more input than it was given *)
Definition shr {A} (d : list N -> option (A * list N)) : Prop :=
  forall bs a r, d bs = Some (a, r) -> (length r <= length bs)%nat.
(** two decoders agree on every input of length at most [n] *)
Definition agree {A} (d1 d2 : list N -> option (A * list N)) (n : nat) : Prop :=
  forall bs, (length bs <= n)%nat -> d1 bs = d2 bs.

Lemma agree_refl : forall {A} (d : list N -> option (A * list N)) n, agree d d n.
Proof. intros A d n bs _. reflexivity. Qed.

Lemma shr_le_dec : forall k, shr (le_dec k).
Proof.
  intros k bs a r H. destruct (le_dec_some _ _ _ _ H) as [pre [-> _]]. rewrite app_length. lia.
Qed.
Lemma shr_dec_sl : shr dec_sl.
Proof.
  intros bs a r H. unfold dec_sl in H.
  destruct bs as [|b bs]; [discriminate|].
  destruct b as [|[[|[]|]|[|[]|]|]]; try discriminate; injection H as <- <-; cbn; lia.
Qed.
Lemma shr_with_sl : forall {A} (k : size_len -> A), shr (with_sl k).
Proof.
  intros A k bs a r H. unfold with_sl in H. destruct (dec_sl bs) as [[s r']|] eqn:E; [|discriminate].
  injection H as <- <-. exact (shr_dec_sl _ _ _ E).
Qed.
Lemma shr_dec_str : shr dec_str.
Proof.
  intros bs a r H. unfold dec_str, dec_string, dec_len in H.
  destruct (le_dec (sl_bytes SL32) bs) as [[n r1]|] eqn:E; [|discriminate].
  destruct (take_n r1 n) as [[b rest]|] eqn:Et; [|discriminate].
  destruct (utf8_valid b); [|discriminate]. injection H as <- <-.
  pose proof (shr_le_dec _ _ _ _ E). destruct (take_n_some _ _ _ _ Et) as [-> _]. rewrite app_length in *. lia.
Qed.
Lemma shr_pair : forall {A B} (da : list N -> option (A * list N)) (db : list N -> option (B * list N)),
  shr da -> shr db -> shr (dec_pair da db).
Proof.
  intros A B da db Ha Hb bs p r H. unfold dec_pair in H.
  destruct (da bs) as [[a r1]|] eqn:E1; [|discriminate]. destruct (db r1) as [[b r2]|] eqn:E2; [|discriminate].
  injection H as <- <-. pose proof (Ha _ _ _ E1). pose proof (Hb _ _ _ E2). lia.
Qed.
Lemma shr_seq : forall {A} (item : list N -> option (A * list N)) n, shr item -> shr (dec_seq item n).
Proof.
  intros A item n Hi. induction n as [|n IH]; intros bs l r H; cbn [dec_seq] in H.
  - injection H as <- <-. lia.
  - destruct (item bs) as [[v bs1]|] eqn:E; [|discriminate].
    destruct (dec_seq item n bs1) as [[vs r']|] eqn:E2; [|discriminate]. injection H as <- <-.
    pose proof (Hi _ _ _ E). pose proof (IH _ _ _ E2). lia.
Qed.
Lemma shr_vec : forall {A} (item : list N -> option (A * list N)), shr item -> shr (dec_vec item).
Proof.
  intros A item Hi bs l r H. unfold dec_vec in H.
  destruct (le_dec 4 bs) as [[n r1]|] eqn:E; [|discriminate]. rewrite dec_items_seq in H.
  pose proof (shr_le_dec _ _ _ _ E). pose proof (shr_seq item _ Hi _ _ _ H). lia.
Qed.
Lemma shr_opt : forall {A} (d : list N -> option (A * list N)), shr d -> shr (dec_opt d).
Proof.
  intros A d Hd bs o r H. unfold dec_opt in H. destruct bs as [|b bs]; [discriminate|].
  destruct b as [|[p|p|]]; try discriminate.
  - injection H as <- <-. cbn. lia.
  - destruct (d bs) as [[a r']|] eqn:E; [|discriminate]. injection H as <- <-. pose proof (Hd _ _ _ E). cbn. lia.
Qed.
Lemma shr_map : forall {V} (d : list N -> option (V * list N)), shr d -> shr (dec_map d).
Proof.
  intros V d Hd bs m r H. unfold dec_map in H.
  destruct (dec_vec (dec_pair dec_str d) bs) as [[l r']|] eqn:E; [|discriminate].
  destruct (map_build str_ltb l); [|discriminate]. injection H as <- <-.
  exact (shr_vec _ (shr_pair _ _ shr_dec_str Hd) _ _ _ E).
Qed.
Lemma shr_if : forall {A} c (d : list N -> option (A * list N)), shr d -> shr (dec_if c d).
Proof.
  intros A c d Hd bs o r H. unfold dec_if in H. destruct c.
  - destruct (d bs) as [[a r']|] eqn:E; [|discriminate]. injection H as <- <-. exact (Hd _ _ _ E).
  - injection H as <- <-. lia.
Qed.

Lemma agree_pair : forall {A B} (da1 da2 : list N -> option (A * list N)) (db1 db2 : list N -> option (B * list N)) n,
  agree da1 da2 n -> agree db1 db2 n -> shr da1 -> agree (dec_pair da1 db1) (dec_pair da2 db2) n.
Proof.
  intros A B da1 da2 db1 db2 n Ha Hb Hs bs Hl. unfold dec_pair. rewrite <- (Ha bs Hl).
  destruct (da1 bs) as [[a r]|] eqn:E; [|reflexivity]. pose proof (Hs _ _ _ E).
  rewrite <- (Hb r) by lia. reflexivity.
Qed.
Lemma agree_seq : forall {A} (i1 i2 : list N -> option (A * list N)) n k,
  agree i1 i2 n -> shr i1 -> agree (dec_seq i1 k) (dec_seq i2 k) n.
Proof.
  intros A i1 i2 n k Ha Hs. induction k as [|k IH]; intros bs Hl; cbn [dec_seq]; [reflexivity|].
  rewrite <- (Ha bs Hl). destruct (i1 bs) as [[v r]|] eqn:E; [|reflexivity]. pose proof (Hs _ _ _ E).
  rewrite <- (IH r) by lia. reflexivity.
Qed.
Lemma agree_vec : forall {A} (i1 i2 : list N -> option (A * list N)) n,
  agree i1 i2 n -> shr i1 -> agree (dec_vec i1) (dec_vec i2) n.
Proof.
  intros A i1 i2 n Ha Hs bs Hl. unfold dec_vec. destruct (le_dec 4 bs) as [[c r]|] eqn:E; [|reflexivity].
  pose proof (shr_le_dec _ _ _ _ E). rewrite !dec_items_seq. apply (agree_seq i1 i2 n); auto. lia.
Qed.
Lemma agree_opt : forall {A} (d1 d2 : list N -> option (A * list N)) n, agree d1 d2 n -> agree (dec_opt d1) (dec_opt d2) n.
Proof.
  intros A d1 d2 n Ha bs Hl. unfold dec_opt. destruct bs as [|b bs]; [reflexivity|].
  destruct b as [|[p|p|]]; try reflexivity. cbn [length] in Hl. rewrite (Ha bs) by lia. reflexivity.
Qed.
Lemma agree_map : forall {V} (d1 d2 : list N -> option (V * list N)) n,
  agree d1 d2 n -> shr d1 -> agree (dec_map d1) (dec_map d2) n.
Proof.
  intros V d1 d2 n Ha Hs bs Hl. unfold dec_map.
  rewrite (agree_vec (dec_pair dec_str d1) (dec_pair dec_str d2) n); auto.
  - apply agree_pair; auto using agree_refl, shr_dec_str.
  - apply shr_pair; auto using shr_dec_str.
Qed.
Lemma agree_if : forall {A} c (d1 d2 : list N -> option (A * list N)) n, agree d1 d2 n -> agree (dec_if c d1) (dec_if c d2) n.
Proof. intros A c d1 d2 n Ha bs Hl. unfold dec_if. destruct c; [rewrite (Ha bs Hl)|]; reflexivity. Qed.

(* ------------------------------------------------------------------ Type and Fields *)
Ltac des H :=
  repeat match type of H with
         | match ?x with _ => _ end = Some _ => let E := fresh "E" in destruct x eqn:E; try discriminate
         | (let '(_, _) := ?x in _) = Some _ => let E := fresh "E" in destruct x eqn:E; try discriminate
         end.

Ltac shr_tac IHt IHf :=
  repeat first [ apply shr_pair | apply shr_vec | apply shr_le_dec | apply shr_dec_sl | apply shr_with_sl
               | apply shr_dec_str | exact IHt | exact IHf ].

Lemma dec_shrinks : forall f,
  (forall bs t r, dec_ty f bs = Some (t, r) -> (length r < length bs)%nat)
  /\ (forall bs t r, dec_fields f bs = Some (t, r) -> (length r < length bs)%nat).
Proof.
  induction f as [|f [IHt IHf]]; [split; intros; discriminate|].
  assert (St : shr (dec_ty f)) by (intros bs a r H; apply IHt in H; lia).
  assert (Sf : shr (dec_fields f)) by (intros bs a r H; apply IHf in H; lia).
  split.
  - intros bs t r H. destruct bs as [|tag bs]; [discriminate|].
    cbn [dec_ty] in H; fold dec_ty dec_fields in H. cbn [length].
    destruct tag as [|p]; [injection H as <- <-; lia|].
    do 5 (try match goal with p : positive |- _ => destruct p as [p|p|] end);
      try discriminate H; lazy beta iota in H;
      try (injection H as <- <-; lia);
      des H;
      repeat match goal with
             | E : ?X ?b = Some (_, ?r2) |- _ =>
                 let S := fresh "S" in
                 assert (S : (length r2 <= length b)%nat) by (apply (ltac:(shr_tac St Sf) : shr X) in E; exact E);
                 clear E
             end;
      try (injection H as <- <-); try lia.
  - intros bs t r H. destruct bs as [|tag bs]; [discriminate|].
    cbn [dec_fields] in H; fold dec_ty dec_fields in H. cbn [length].
    destruct tag as [|[[p|p|]|[p|p|]|]]; try discriminate H; lazy beta iota in H;
      try (injection H as <- <-; lia);
      des H;
      repeat match goal with
             | E : ?X ?b = Some (_, ?r2) |- _ =>
                 let S := fresh "S" in
                 assert (S : (length r2 <= length b)%nat) by (apply (ltac:(shr_tac St Sf) : shr X) in E; exact E);
                 clear E
             end;
      try (injection H as <- <-); try lia.
Qed.

Lemma shr_dec_ty : forall f, shr (dec_ty f).
Proof. intros f bs a r H. apply (proj1 (dec_shrinks f)) in H. lia. Qed.
Lemma shr_dec_fields : forall f, shr (dec_fields f).
Proof. intros f bs a r H. apply (proj2 (dec_shrinks f)) in H. lia. Qed.

Ltac agree_tac At Af :=
  repeat first [ exact At | exact Af | apply agree_refl
               | apply agree_pair | apply agree_vec
               | apply shr_pair | apply shr_vec | apply shr_le_dec | apply shr_dec_sl | apply shr_with_sl
               | apply shr_dec_str | apply shr_dec_ty | apply shr_dec_fields ].

(** the scrutinee of the outer match is the only difference between the two sides *)
Ltac same_scrutinee n At Af :=
  match goal with
  | |- match ?X1 ?b with _ => _ end = match ?X2 ?b with _ => _ end =>
      let E := fresh "E" in
      assert (E : X1 b = X2 b) by (apply (ltac:(agree_tac At Af) : agree X1 X2 n); cbn [length] in *; lia);
      rewrite E; reflexivity
  end.

Lemma fuel_agree : forall f1 f2 n, (n < f1)%nat -> (n < f2)%nat ->
  agree (dec_ty f1) (dec_ty f2) n /\ agree (dec_fields f1) (dec_fields f2) n.
Proof.
  induction f1 as [|f1 IH]; intros f2 n H1 H2; [lia|].
  destruct f2 as [|f2]; [lia|].
  split.
  - intros bs Hl. destruct bs as [|tag bs]; [reflexivity|]. cbn [length] in Hl.
    destruct (IH f2 (length bs) ltac:(lia) ltac:(lia)) as [At Af].
    cbn [dec_ty]; fold dec_ty dec_fields.
    destruct tag as [|p]; [reflexivity|].
    do 5 (try match goal with p : positive |- _ => destruct p as [p|p|] end);
      lazy beta iota; try reflexivity; same_scrutinee (length bs) At Af.
  - intros bs Hl. destruct bs as [|tag bs]; [reflexivity|]. cbn [length] in Hl.
    destruct (IH f2 (length bs) ltac:(lia) ltac:(lia)) as [At Af].
    cbn [dec_fields]; fold dec_ty dec_fields.
    destruct tag as [|[[p|p|]|[p|p|]|]]; lazy beta iota; try reflexivity; same_scrutinee (length bs) At Af.
Qed.

Theorem dec_ty_fuel : forall f bs, (length bs < f)%nat -> dec_ty f bs = dec_ty_top bs.
Proof.
  intros f bs H. unfold dec_ty_top.
  apply (proj1 (fuel_agree f (S (length bs)) (length bs) H ltac:(lia))). lia.
Qed.

(* ------------------------------------------------------------------ functions, contracts, modules *)
Section TwoFuels.
Variables (f1 f2 n : nat).
Hypothesis (H1 : (n < f1)%nat) (H2 : (n < f2)%nat).

Lemma agree_ty : agree (dec_ty f1) (dec_ty f2) n.
Proof. exact (proj1 (fuel_agree f1 f2 n H1 H2)). Qed.

Lemma shr_dec_f1 : forall f, shr (dec_f1 f).
Proof.
  intros f bs a r H. unfold dec_f1 in H. destruct bs as [|b bs]; [discriminate|].
  destruct b as [|[[p|p|]|[p|p|]|]]; try discriminate.
  - destruct (dec_ty f bs) as [[t r']|] eqn:E; [|discriminate]. injection H as <- <-.
    pose proof (shr_dec_ty _ _ _ _ E). cbn. lia.
  - destruct (dec_pair (dec_ty f) (dec_ty f) bs) as [[[p q] r']|] eqn:E; [|discriminate]. injection H as <- <-.
    pose proof (shr_pair _ _ (shr_dec_ty f) (shr_dec_ty f) _ _ _ E). cbn. lia.
  - destruct (dec_ty f bs) as [[t r']|] eqn:E; [|discriminate]. injection H as <- <-.
    pose proof (shr_dec_ty _ _ _ _ E). cbn. lia.
Qed.

Lemma agree_f1 : agree (dec_f1 f1) (dec_f1 f2) n.
Proof.
  intros bs Hl. unfold dec_f1. destruct bs as [|b bs]; [reflexivity|]. cbn [length] in Hl.
  destruct b as [|[[p|p|]|[p|p|]|]]; try reflexivity.
  - rewrite (agree_ty bs) by lia. reflexivity.
  - rewrite (agree_pair _ _ _ _ n agree_ty agree_ty (shr_dec_ty f1) bs) by lia. reflexivity.
  - rewrite (agree_ty bs) by lia. reflexivity.
Qed.

Lemma shr_dec_f2 : forall f, shr (dec_f2 f).
Proof.
  intros f bs a r H. unfold dec_f2 in H. destruct bs as [|idx bs]; [discriminate|].
  destruct (7 <? idx); [discriminate|].
  destruct (dec_if (mem idx [0; 2; 4; 6]) (dec_ty f) bs) as [[p r1]|] eqn:E1; [|discriminate].
  destruct (dec_if (mem idx [1; 2; 5; 6]) (dec_ty f) r1) as [[q r2]|] eqn:E2; [|discriminate].
  destruct (dec_if (mem idx [3; 4; 5; 6]) (dec_ty f) r2) as [[e r3]|] eqn:E3; [|discriminate].
  injection H as <- <-.
  pose proof (shr_if _ _ (shr_dec_ty f) _ _ _ E1). pose proof (shr_if _ _ (shr_dec_ty f) _ _ _ E2).
  pose proof (shr_if _ _ (shr_dec_ty f) _ _ _ E3). cbn. lia.
Qed.

Lemma agree_f2 : agree (dec_f2 f1) (dec_f2 f2) n.
Proof.
  intros bs Hl. unfold dec_f2. destruct bs as [|idx bs]; [reflexivity|]. cbn [length] in Hl.
  destruct (7 <? idx); [reflexivity|].
  rewrite <- (agree_if _ _ _ n agree_ty bs) by lia.
  destruct (dec_if (mem idx [0; 2; 4; 6]) (dec_ty f1) bs) as [[p r1]|] eqn:E1; [|reflexivity].
  pose proof (shr_if _ _ (shr_dec_ty f1) _ _ _ E1).
  rewrite <- (agree_if _ _ _ n agree_ty r1) by lia.
  destruct (dec_if (mem idx [1; 2; 5; 6]) (dec_ty f1) r1) as [[q r2]|] eqn:E2; [|reflexivity].
  pose proof (shr_if _ _ (shr_dec_ty f1) _ _ _ E2).
  rewrite <- (agree_if _ _ _ n agree_ty r2) by lia. reflexivity.
Qed.

Ltac step_opt Hag Hshr :=
  match goal with
  | |- match dec_opt ?d1 ?b with _ => _ end = match dec_opt ?d2 ?b with _ => _ end =>
      rewrite <- (agree_opt d1 d2 n Hag b) by lia;
      let E := fresh "E" in let S := fresh "S" in
      destruct (dec_opt d1 b) as [[? ?]|] eqn:E; [|reflexivity];
      pose proof (shr_opt _ Hshr _ _ _ E) as S
  end.
Ltac step_map Hag Hshr :=
  match goal with
  | |- match dec_map ?d1 ?b with _ => _ end = match dec_map ?d2 ?b with _ => _ end =>
      rewrite <- (agree_map d1 d2 n Hag Hshr b) by lia;
      let E := fresh "E" in let S := fresh "S" in
      destruct (dec_map d1 b) as [[? ?]|] eqn:E; [|reflexivity];
      pose proof (shr_map _ Hshr _ _ _ E) as S
  end.

Lemma agree_c0 : agree (dec_c0 f1) (dec_c0 f2) n.
Proof.
  intros bs Hl. unfold dec_c0.
  step_opt agree_ty (shr_dec_ty f1). step_opt agree_ty (shr_dec_ty f1). step_map agree_ty (shr_dec_ty f1). reflexivity.
Qed.
Lemma agree_c1 : agree (dec_c1 f1) (dec_c1 f2) n.
Proof.
  intros bs Hl. unfold dec_c1.
  step_opt agree_f1 (shr_dec_f1 f1). step_map agree_f1 (shr_dec_f1 f1). reflexivity.
Qed.
Lemma agree_c2 : agree (dec_c2 f1) (dec_c2 f2) n.
Proof.
  intros bs Hl. unfold dec_c2.
  step_opt agree_f2 (shr_dec_f2 f1). step_map agree_f2 (shr_dec_f2 f1). reflexivity.
Qed.
Lemma agree_c3 : agree (dec_c3 f1) (dec_c3 f2) n.
Proof.
  intros bs Hl. unfold dec_c3.
  step_opt agree_f2 (shr_dec_f2 f1). step_map agree_f2 (shr_dec_f2 f1). step_opt agree_ty (shr_dec_ty f1). reflexivity.
Qed.

Lemma shr_dec_c0 : forall f, shr (dec_c0 f).
Proof.
  intros f bs a r H. unfold dec_c0 in H.
  destruct (dec_opt (dec_ty f) bs) as [[x r1]|] eqn:E1; [|discriminate].
  destruct (dec_opt (dec_ty f) r1) as [[y r2]|] eqn:E2; [|discriminate].
  destruct (dec_map (dec_ty f) r2) as [[z r3]|] eqn:E3; [|discriminate]. injection H as <- <-.
  pose proof (shr_opt _ (shr_dec_ty f) _ _ _ E1). pose proof (shr_opt _ (shr_dec_ty f) _ _ _ E2).
  pose proof (shr_map _ (shr_dec_ty f) _ _ _ E3). lia.
Qed.
Lemma shr_dec_c1 : forall f, shr (dec_c1 f).
Proof.
  intros f bs a r H. unfold dec_c1 in H.
  destruct (dec_opt (dec_f1 f) bs) as [[x r1]|] eqn:E1; [|discriminate].
  destruct (dec_map (dec_f1 f) r1) as [[z r3]|] eqn:E3; [|discriminate]. injection H as <- <-.
  pose proof (shr_opt _ (shr_dec_f1 f) _ _ _ E1). pose proof (shr_map _ (shr_dec_f1 f) _ _ _ E3). lia.
Qed.
Lemma shr_dec_c2 : forall f, shr (dec_c2 f).
Proof.
  intros f bs a r H. unfold dec_c2 in H.
  destruct (dec_opt (dec_f2 f) bs) as [[x r1]|] eqn:E1; [|discriminate].
  destruct (dec_map (dec_f2 f) r1) as [[z r3]|] eqn:E3; [|discriminate]. injection H as <- <-.
  pose proof (shr_opt _ (shr_dec_f2 f) _ _ _ E1). pose proof (shr_map _ (shr_dec_f2 f) _ _ _ E3). lia.
Qed.
Lemma shr_dec_c3 : forall f, shr (dec_c3 f).
Proof.
  intros f bs a r H. unfold dec_c3 in H.
  destruct (dec_opt (dec_f2 f) bs) as [[x r1]|] eqn:E1; [|discriminate].
  destruct (dec_map (dec_f2 f) r1) as [[z r2]|] eqn:E2; [|discriminate].
  destruct (dec_opt (dec_ty f) r2) as [[y r3]|] eqn:E3; [|discriminate]. injection H as <- <-.
  pose proof (shr_opt _ (shr_dec_f2 f) _ _ _ E1). pose proof (shr_map _ (shr_dec_f2 f) _ _ _ E2).
  pose proof (shr_opt _ (shr_dec_ty f) _ _ _ E3). lia.
Qed.

Lemma agree_module_body : forall v, agree (dec_module_body f1 v) (dec_module_body f2 v) n.
Proof.
  intros v bs Hl. unfold dec_module_body.
  destruct v as [|[[p|p|]|[p|p|]|]]; try reflexivity.
  - rewrite (agree_map _ _ n agree_c0 (shr_dec_c0 f1) bs Hl). reflexivity.
  - rewrite (agree_map _ _ n agree_c3 (shr_dec_c3 f1) bs Hl). reflexivity.
  - rewrite (agree_map _ _ n agree_c2 (shr_dec_c2 f1) bs Hl). reflexivity.
  - rewrite (agree_map _ _ n agree_c1 (shr_dec_c1 f1) bs Hl). reflexivity.
Qed.

Lemma agree_versioned : agree (dec_versioned f1) (dec_versioned f2) n.
Proof.
  intros bs Hl. unfold dec_versioned.
  destruct bs as [|a [|b [|v r]]]; try reflexivity.
  destruct (N.eq_dec a 255) as [->|Ha].
  - destruct (N.eq_dec b 255) as [->|Hb].
    + cbn [length] in Hl. apply agree_module_body. lia.
    + destruct b as [|p]; [reflexivity|].
      do 8 (try match goal with p : positive |- _ => destruct p as [p|p|] end); try reflexivity; congruence.
  - destruct a as [|p]; [reflexivity|].
    do 8 (try match goal with p : positive |- _ => destruct p as [p|p|] end); try reflexivity; congruence.
Qed.
End TwoFuels.

Theorem dec_versioned_fuel : forall f bs, (length bs < f)%nat -> dec_versioned f bs = dec_versioned_top bs.
Proof. intros f bs H. unfold dec_versioned_top. apply (agree_versioned f (S (length bs)) (length bs)); lia. Qed.
Theorem dec_module_fuel : forall f v bs, (length bs < f)%nat -> dec_module_body f v bs = dec_module_top v bs.
Proof. intros f v bs H. unfold dec_module_top. apply (agree_module_body f (S (length bs)) (length bs)); lia. Qed.
Theorem dec_f1_fuel : forall f bs, (length bs < f)%nat -> dec_f1 f bs = dec_f1_top bs.
Proof. intros f bs H. unfold dec_f1_top. apply (agree_f1 f (S (length bs)) (length bs)); lia. Qed.
Theorem dec_f2_fuel : forall f bs, (length bs < f)%nat -> dec_f2 f bs = dec_f2_top bs.
Proof. intros f bs H. unfold dec_f2_top. apply (agree_f2 f (S (length bs)) (length bs)); lia. Qed.
