(** C14 - invariants over arbitrary histories of host calls.  Between two host calls the
    interpreter may change memory and energy arbitrarily ([perturb]); interrupts are answered by
    arbitrary responses and may clear the logs. *)
From Coq Require Import NArith List Bool Lia.
From CB Require Import Gen.HostCosts Contract.HostBase Contract.HostBaseProofs Contract.HostV0
  Contract.HostV0Proofs Contract.HostV1 Contract.HostV1Proofs Contract.HostLimitsProofs.
Import ListNotations.
Local Open Scope N_scope.

Definition perturb {X} (s : st X) (m : memory) (e : N) : st X := mkSt e m (evs s) (hs s).

Section V0.
Context {X : Type}.
Notation S0 := (st (host X)).

Fixpoint run0 (cs : list (v0fn * list N * memory * N)) (s : S0) : S0 :=
  match cs with
  | [] => s
  | (f, a, m, e) :: t => run0 t (fst (call_v0 f a (perturb s m e)))
  end.

Theorem v0_history_inv : forall cs (s : S0), state_ok s -> logs_ok s ->
  state_ok (run0 cs s) /\ logs_ok (run0 cs s).
Proof.
  induction cs as [|[[[f a] m] e] t IH]; intros s H1 H2; cbn [run0]; [auto|].
  apply IH.
  - apply call_v0_state_ok. exact H1.
  - apply call_v0_logs_ok. exact H2.
Qed.

Theorem v0_history_total : forall cs (s : S0) f a m e, args_wf (sig0 f) a -> state_ok s ->
  safe (call_v0 f a) (perturb (run0 cs s) m e).
Proof.
  intros cs s f a m e Hwf H. apply call_v0_safe; [exact Hwf|].
  assert (L : forall cs' (s' : S0), state_ok s' -> state_ok (run0 cs' s')).
  { induction cs' as [|[[[f' a'] m'] e'] t IH]; intros s' H'; cbn [run0]; [exact H'|].
    apply IH. apply call_v0_state_ok. exact H'. }
  exact (L cs s H).
Qed.
End V0.

Inductive op1 : Type :=
| OCall (f : v1fn) (args : list N) (m : memory) (e : N)
| OResume (r : response)
| OClearLogs.

Definition step1 (o : op1) (s : st H1) : st H1 :=
  match o with
  | OCall f a m e => fst (call_v1 f a (perturb s m e))
  | OResume r => fst (resume r s)
  | OClearLogs => mkSt (energy s) (mem s) (evs s) (with_logs (hs s) [])
  end.
Fixpoint run1 (os : list op1) (s : st H1) : st H1 :=
  match os with [] => s | o :: t => run1 t (step1 o s) end.

Lemma resume_v1_ok : forall r (s : st H1), v1_ok s -> v1_ok (fst (resume r s)).
Proof.
  intros r s (Hrv & Hent & Hep). dst s. unfold v1_ok in *.
  cbn [hs HostV0.h_limit HostV0.h_ext HostV1.x_rv HostV1.x_is HostV1.is_entries HostV1.x_entrypoint] in Hrv, Hent, Hep.
  unfold resume, migrate, too_many_if. destruct r; mstep1; proj_red1; cbn [HostV1.is_entries]; auto.
Qed.
Lemma resume_logs_ok : forall r (s : st H1), logs_ok s -> logs_ok (fst (resume r s)).
Proof.
  intros r s [H1 H2]. dst s. unfold logs_ok in *. cbn [hs HostV0.h_logs HostV0.h_limit] in H1, H2.
  unfold resume, migrate, too_many_if. destruct r; mstep1; proj_red1; auto.
Qed.

Theorem v1_history_inv : forall os (s : st H1), v1_ok s -> logs_ok s -> v1_ok (run1 os s) /\ logs_ok (run1 os s).
Proof.
  induction os as [|o t IH]; intros s H1 H2; cbn [run1]; [auto|].
  apply IH; destruct o; cbn [step1].
  - apply call_v1_v1_ok. exact H1.
  - apply resume_v1_ok. exact H1.
  - destruct s as [? ? ? []]. exact H1.
  - apply call_v1_logs_ok. exact H2.
  - apply resume_logs_ok. exact H2.
  - destruct s as [? ? ? []]. unfold logs_ok. cbn. split; [intros; lia | constructor].
Qed.

Theorem v1_history_total : forall os (s : st H1) f a m e, args_wf (sig1 f) a -> v1_ok s -> logs_ok s ->
  safe (call_v1 f a) (perturb (run1 os s) m e).
Proof.
  intros os s f a m e Hwf H1 H2. apply call_v1_safe; [exact Hwf|].
  destruct (v1_history_inv os s H1 H2) as [H _]. exact H.
Qed.
