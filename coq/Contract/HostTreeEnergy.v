(** C14 - the energy the v1 state tree charges for traversals
    (smart-contracts/wasm-chain-integration/src/v1/trie/low_level.rs, `TraversalCounter`:
    `MutableTrie::next` and `MutableTrie::delete_prefix`; v1/types.rs
    `impl TraversalCounter for InterpreterEnergy`: `tick_energy (TREE_TRAVERSAL_STEP_COST * num)`).
    Definitions only (lemmas: HostTreeEnergyProofs.v).

    The tree is the radix model of Trie/Radix.v ([Radix.tree unit]: only the shape matters; it is
    the canonical path-compressed tree of the live keys, in 4-bit chunks).  What the Rust code
    charges depends on one more piece of state which the radix model does not have: whether the
    children of a node have been made *owned in the current generation* (`make_owned`;
    `ChildrenCow::Owned {generation}` with `generation == node.generation`).  `delete_prefix`
    only recurses into such nodes ("if children are borrowed then by construction there are no
    entries in them").  A node keeps its full key (concatenation of the stems and child labels
    from the root to the END of its own stem) for as long as it lives - splitting a stem on insert
    and prepending the parent's stem on collapse both preserve it - so the set of "expanded" nodes
    is modelled as a set [E] of full keys.

    Which operations expand which nodes (transcribed from low_level.rs):
    - every descent (`get_entry`, `insert`, `delete`, `delete_prefix`, `iter`): each node whose
      stem is a proper prefix of the remaining key ([FStemIsPrefix]) - even when the child is
      then not found;
    - `insert`: every node it creates (leaf, the value node of [KeyIsPrefix], the branch node of
      [Diff]) is created with owned children of the current generation;
    - `delete`: the node that held the value (`make_owned` before the collapse);
    - `next`: a node is expanded before its first child is visited;
    - a new generation (`make_fresh_generation`) and a thawed persistent tree start with no
      expanded node. *)
From Coq Require Import NArith List Bool.
From CB Require Trie.Radix.
Import ListNotations.
Local Open Scope N_scope.


Notation tr := (Radix.tree unit).
Notation fr := (Radix.forest unit).

Definition nlen {A} (l : list A) : N := N.of_nat (length l).

(** ** the tree of a key set *)
Definition tree_of (keys : list (list N)) : option tr :=
  fold_left (fun r k => Some (Radix.insert_root (Radix.nib k) tt r)) keys None.

(** ** sets of node keys *)
Definition keq (a b : list N) : bool := Radix.list_eqb a b.
Definition memk (k : list N) (E : list (list N)) : bool := existsb (keq k) E.
Definition addk (k : list N) (E : list (list N)) : list (list N) := if memk k E then E else k :: E.
Definition addks (ks E : list (list N)) : list (list N) := fold_left (fun e k => addk k e) ks E.

Definition tpath (t : tr) : list N := match t with Radix.Node p _ _ => p end.

(** full keys of all nodes of the tree hanging below the key [acc] *)
Fixpoint node_keys (acc : list N) (t : tr) : list (list N) :=
  match t with Radix.Node p _ cs => (acc ++ p) :: node_keys_f (acc ++ p) cs end
with node_keys_f (fk : list N) (f : fr) : list (list N) :=
  match f with
  | Radix.FNil => []
  | Radix.FCons c t r => node_keys (fk ++ [c]) t ++ node_keys_f fk r
  end.
Definition node_keys_root (r : option tr) : list (list N) :=
  match r with None => [] | Some t => node_keys [] t end.

(** nodes `make_owned` is applied to while walking [k] down the tree *)
Fixpoint passed (acc k : list N) (t : tr) : list (list N) :=
  match t with
  | Radix.Node p _ cs =>
      match Radix.follow_stem k p with
      | Radix.FStemIsPrefix c k' => (acc ++ p) :: passed_f (acc ++ p ++ [c]) c k' cs
      | _ => []
      end
  end
with passed_f (acc : list N) (c : N) (k : list N) (f : fr) : list (list N) :=
  match f with
  | Radix.FNil => []
  | Radix.FCons c' t r => if c =? c' then passed acc k t else passed_f acc c k r
  end.
Definition passed_root (k : list N) (r : option tr) : list (list N) :=
  match r with None => [] | Some t => passed [] k t end.

(** the node at or below the prefix [k] (`Equal` / `KeyIsPrefix`), with the key of its parent edge *)
Fixpoint find_sub (acc k : list N) (t : tr) : option (list N * tr) :=
  match t with
  | Radix.Node p _ cs =>
      match Radix.follow_stem k p with
      | Radix.FEqual => Some (acc, t)
      | Radix.FKeyIsPrefix _ _ => Some (acc, t)
      | Radix.FStemIsPrefix c k' => find_sub_f (acc ++ p ++ [c]) c k' cs
      | Radix.FDiff _ _ _ _ _ => None
      end
  end
with find_sub_f (acc : list N) (c : N) (k : list N) (f : fr) : option (list N * tr) :=
  match f with
  | Radix.FNil => None
  | Radix.FCons c' t r => if c =? c' then find_sub acc k t else find_sub_f acc c k r
  end.
Definition find_sub_root (k : list N) (r : option tr) : option (list N * tr) :=
  match r with None => None | Some t => find_sub [] k t end.

(** ** size measures *)
Fixpoint tnodes (t : tr) : N :=
  match t with Radix.Node _ _ cs => 1 + tnodes_f cs end
with tnodes_f (f : fr) : N :=
  match f with Radix.FNil => 0 | Radix.FCons _ t r => tnodes t + tnodes_f r end.
Fixpoint tstems (t : tr) : N :=
  match t with Radix.Node p _ cs => nlen p + tstems_f cs end
with tstems_f (f : fr) : N :=
  match f with Radix.FNil => 0 | Radix.FCons _ t r => tstems t + tstems_f r end.

(** ** `delete_prefix`: the invalidation loop
    `counter.count_key_traverse_part(path.len() + 1)` for every node popped from the work list;
    children are pushed only when the node is expanded. *)
Fixpoint dp_steps (E : list (list N)) (acc : list N) (t : tr) : N :=
  match t with
  | Radix.Node p _ cs =>
      nlen p + 1 + (if memk (acc ++ p) E then dp_steps_f E (acc ++ p) cs else 0)
  end
with dp_steps_f (E : list (list N)) (fk : list N) (f : fr) : N :=
  match f with
  | Radix.FNil => 0
  | Radix.FCons c t r => dp_steps E (fk ++ [c]) t + dp_steps_f E fk r
  end.

(** number of nodes the loop visits (= nodes whose entries are invalidated) *)
Fixpoint dp_visited (E : list (list N)) (acc : list N) (t : tr) : N :=
  match t with
  | Radix.Node p _ cs => 1 + (if memk (acc ++ p) E then dp_visited_f E (acc ++ p) cs else 0)
  end
with dp_visited_f (E : list (list N)) (fk : list N) (f : fr) : N :=
  match f with
  | Radix.FNil => 0
  | Radix.FCons c t r => dp_visited E (fk ++ [c]) t + dp_visited_f E fk r
  end.

(** steps charged by `delete_prefix key` on the whole tree; 0 when nothing is at the prefix *)
Definition delete_prefix_steps (E : list (list N)) (key : list N) (r : option tr) : N :=
  match find_sub_root (Radix.nib key) r with
  | Some (acc, sub) => dp_steps E acc sub
  | None => 0
  end.

(** ** `next`: the walk as a list of events *)
Inductive tev := TCharge (n : N) | TYield (k : list N) | TExpand (k : list N).

Fixpoint dfs (acc : list N) (t : tr) : list tev :=
  match t with
  | Radix.Node p ov cs =>
      TCharge (nlen p) :: (match ov with Some _ => [TYield (acc ++ p)] | None => [] end) ++ dfs_f (acc ++ p) cs
  end
with dfs_f (fk : list N) (f : fr) : list tev :=
  match f with
  | Radix.FNil => []
  | Radix.FCons c t r =>
      (* make_owned(parent); count(1); ... visit ...; count(key.len() - key_len) on the way back *)
      TExpand fk :: TCharge 1 :: dfs (fk ++ [c]) t ++ TCharge (1 + nlen (tpath t)) :: dfs_f fk r
  end.

Fixpoint after_yield (k : list N) (l : list tev) : option (list tev) :=
  match l with
  | [] => None
  | TYield k' :: r => if keq k k' then Some r else after_yield k r
  | _ :: r => after_yield k r
  end.
(** what one call of `next` consumes: everything up to the next value (or the end) *)
Fixpoint until_yield (l : list tev) (steps : N) (exps : list (list N)) : N * list (list N) :=
  match l with
  | [] => (steps, exps)
  | TYield _ :: _ => (steps, exps)
  | TCharge n :: r => until_yield r (steps + n) exps
  | TExpand k :: r => until_yield r steps (k :: exps)
  end.
Fixpoint sum_charges (l : list tev) : N :=
  match l with
  | [] => 0
  | TCharge n :: r => n + sum_charges r
  | _ :: r => sum_charges r
  end.

(** steps charged by one `next` on an iterator created for [prefix] whose last returned key is
    [last] ([started = false]: no call yet; [exhausted]: a previous call returned None), and the
    nodes it expands *)
Definition next_cost (r : option tr) (prefix : list N) (started exhausted : bool) (last : list N)
  : N * list (list N) :=
  if exhausted then (0, [])
  else match find_sub_root (Radix.nib prefix) r with
       | None => (0, [])
       | Some (acc, sub) =>
           let evs := dfs acc sub in
           let pos := if started
                      then match after_yield (Radix.nib last) evs with Some l => l | None => [] end
                      else evs in
           until_yield pos 0 []
       end.

(** ** expansion bookkeeping of the other operations *)
Definition exp_descend (E : list (list N)) (key : list N) (r : option tr) : list (list N) :=
  addks (passed_root (Radix.nib key) r) E.

Definition new_nodes (old new : option tr) : list (list N) :=
  filter (fun k => negb (memk k (node_keys_root old))) (node_keys_root new).

(** `insert key`: [old] / [new] are the trees before / after *)
Definition exp_insert (E : list (list N)) (key : list N) (old new : option tr) : list (list N) :=
  addks (new_nodes old new) (exp_descend E key old).

(** `delete key` (the key was present iff [present]); vanished nodes are forgotten *)
Definition exp_delete (E : list (list N)) (key : list N) (present : bool) (old new : option tr) : list (list N) :=
  let E1 := exp_descend E key old in
  let E2 := if present then addk (Radix.nib key) E1 else E1 in
  filter (fun k => memk k (node_keys_root new)) E2.

Definition exp_delete_prefix (E : list (list N)) (key : list N) (old new : option tr) : list (list N) :=
  filter (fun k => memk k (node_keys_root new)) (exp_descend E key old).
